(* Ops.v — the arithmetic interfaces every model is written against.
   A model never mentions R, a MathComp field or floats: it takes one of
   these records.  Instances: ListOps (executable, any scalar record; floats
   are supplied by the OCaml driver), MxOps (MathComp matrices over a
   realFieldType; theorems), ROps (Coq reals; theorems). *)
Require Import ZArith List.
Import ListNotations.

Record SOps := mkSOps {
  T : Type;
  s0 : T; s1 : T;
  sadd : T -> T -> T; ssub : T -> T -> T; smul : T -> T -> T; sdiv : T -> T -> T;
  sopp : T -> T;
  sleb : T -> T -> bool; sltb : T -> T -> bool;
  sofZ : Z -> T;
  ssqrt : T -> T; sexp : T -> T; sln : T -> T;
  scos : T -> T; ssin : T -> T; sacos : T -> T;
  satan2 : T -> T -> T;           (* satan2 y x, as std::atan2 *)
  spi : T;
  stiny : T                       (* std::numeric_limits<double>::min() *)
}.

Record MatOps := mkMatOps {
  sc : SOps;
  M : nat -> nat -> Type;
  mbuild : forall m n, (nat -> nat -> T sc) -> M m n;
  mget : forall m n, M m n -> nat -> nat -> T sc;      (* out of range: s0 *)
  mzero : forall m n, M m n;
  mid : forall n, M n n;
  madd : forall m n, M m n -> M m n -> M m n;
  msub : forall m n, M m n -> M m n -> M m n;
  mopp : forall m n, M m n -> M m n;
  mscale : forall m n, T sc -> M m n -> M m n;
  mmul : forall m n p, M m n -> M n p -> M m p;
  mtr : forall m n, M m n -> M n m;
  mhcat : forall m n1 n2, M m n1 -> M m n2 -> M m (n1 + n2);
  mvcat : forall m1 m2 n, M m1 n -> M m2 n -> M (m1 + m2) n;
  minv : forall n, M n n -> M n n;                      (* Eigen inverse() *)
  mdet : forall n, M n n -> T sc;                       (* Eigen determinant() *)
  msqrt : forall n, M n n -> M n n;    (* oracle: a factor A with A A^T = P *)
  meigmax : forall n, M n n -> M n 1   (* oracle: unit eigenvector, largest eigenvalue *)
}.

Arguments mbuild {_} m n f.
Arguments mget {_ m n} A i j.
Arguments mzero {_} m n.
Arguments mid {_} n.
Arguments madd {_ m n} A B.
Arguments msub {_ m n} A B.
Arguments mopp {_ m n} A.
Arguments mscale {_ m n} c A.
Arguments mmul {_ m n p} A B.
Arguments mtr {_ m n} A.
Arguments mhcat {_ m n1 n2} A B.
Arguments mvcat {_ m1 m2 n} A B.
Arguments minv {_ n} A.
Arguments mdet {_ n} A.
Arguments msqrt {_ n} A.
Arguments meigmax {_ n} A.

(* Scalar helpers shared by the models. *)
Section ScalarHelpers.
Variable S : SOps.
Definition sofnat (n : nat) : T S := sofZ S (Z.of_nat n).
Definition srat (p : Z) (q : positive) : T S := sdiv S (sofZ S p) (sofZ S (Zpos q)).
Definition ssum (l : list (T S)) : T S := fold_left (sadd S) l (s0 S).
Definition smaxl (d : T S) (l : list (T S)) : T S :=
  fold_left (fun a b => if sltb S a b then b else a) l d.
Definition s2 : T S := sadd S (s1 S) (s1 S).
Definition shalf : T S := sdiv S (s1 S) s2.
End ScalarHelpers.

(* Structural matrix helpers derived from mbuild / mget. *)
Section MatHelpers.
Variable O : MatOps.
Definition mslice {m n} (r0 c0 r c : nat) (A : M O m n) : M O r c :=
  mbuild r c (fun i j => mget A (r0 + i) (c0 + j)).
Definition mcol {m n} (j : nat) (A : M O m n) : M O m 1 :=
  mbuild m 1 (fun i _ => mget A i j).
Definition mrow {m n} (i : nat) (A : M O m n) : M O 1 n :=
  mbuild 1 n (fun _ j => mget A i j).
Definition mdiag_of (n : nat) (d : nat -> T (sc O)) : M O n n :=
  mbuild n n (fun i j => if Nat.eqb i j then d i else s0 (sc O)).
Definition mconst (m n : nat) (c : T (sc O)) : M O m n := mbuild m n (fun _ _ => c).
Definition mto_lists {m n} (A : M O m n) : list (list (T (sc O))) :=
  map (fun i => map (fun j => mget A i j) (seq 0 n)) (seq 0 m).
Definition mof_lists (m n : nat) (l : list (list (T (sc O)))) : M O m n :=
  mbuild m n (fun i j => nth j (nth i l []) (s0 (sc O))).
End MatHelpers.
Arguments mslice {_ m n} r0 c0 r c A.
Arguments mcol {_ m n} j A.
Arguments mrow {_ m n} i A.
Arguments mto_lists {_ m n} A.
