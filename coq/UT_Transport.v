(* UT_Transport.v — shared infrastructure of the transport theorems for the unscented steps
   (C03_Transport.v, C04_Transport.v, C05_Transport.v).
   The executed instance is  ListMat (FOps tr) sqL egL  for ARBITRARY list-level oracles
   sqL / egL (the OCaml driver supplies them), the theorem instance is  MxMat tr sq eg.
   Every operation of the MatOps interface, and every helper of Ops.v that is "mbuild over
   mget", maps representations to representations.  The two oracle fields are the only ones
   that differ between the instances; they never appear here: the model-level files carry
   their correspondence as an explicit per-call premise.
   Also: relational lemmas on Forall2 (the models keep sigma points / mixtures as lists).
   Axiom-free. *)
Require Import ZArith List Bool Arith.
Require Import BFL.Ops BFL.ListOps.
From mathcomp Require Import all_ssreflect all_algebra.
Require Import BFL.MxOps BFL.LinAlg BFL.ListOpsCorrect BFL.ListGauss BFL.C02_Transport BFL.C01_Transport.
Set Implicit Arguments.
Unset Strict Implicit.
Unset Printing Implicit Defensive.
Import GRing.Theory.
Local Open Scope ring_scope.

(* ------------------------------------------------------------------ *)
(* Forall2 over the list combinators the models use                    *)
Section F2.
Variables (A B : Type) (R : A -> B -> Prop).

Lemma F2_impl (R' : A -> B -> Prop) l1 l2 :
  (forall a b, R a b -> R' a b) -> List.Forall2 R l1 l2 -> List.Forall2 R' l1 l2.
Proof.
move=> H; elim=> [|a b l1' l2' Hab _ IH]; first exact: List.Forall2_nil.
by apply: List.Forall2_cons => //; exact: H.
Qed.

Lemma F2_length l1 l2 : List.Forall2 R l1 l2 -> length l1 = length l2.
Proof. by elim=> [|a b l1' l2' _ _ IH] //=; rewrite IH. Qed.

Lemma F2_skipn j l1 l2 : List.Forall2 R l1 l2 -> List.Forall2 R (List.skipn j l1) (List.skipn j l2).
Proof.
move=> r; elim: j l1 l2 r => [|j IH] l1 l2 r //.
by case: r => [|a b l1' l2' _ r'] /=; [exact: List.Forall2_nil | apply: IH].
Qed.

Lemma F2_firstn j l1 l2 : List.Forall2 R l1 l2 -> List.Forall2 R (List.firstn j l1) (List.firstn j l2).
Proof.
move=> r; elim: j l1 l2 r => [|j IH] l1 l2 r /=; first exact: List.Forall2_nil.
case: r => [|a b l1' l2' Hab r'] /=; first exact: List.Forall2_nil.
by apply: List.Forall2_cons => //; apply: IH.
Qed.

Lemma F2_nth i l1 l2 d1 d2 : List.Forall2 R l1 l2 -> R d1 d2 -> R (List.nth i l1 d1) (List.nth i l2 d2).
Proof.
move=> r Hd; elim: r i => [|a b l1' l2' Hab _ IH] [|i] //=.
Qed.

Lemma F2_combine_seq (s : list nat) l1 l2 : List.Forall2 R l1 l2 ->
  List.Forall2 (fun a b => a.1 = b.1 /\ R a.2 b.2) (List.combine s l1) (List.combine s l2).
Proof.
move=> r; elim: r s => [|a b l1' l2' Hab _ IH] [|i s] /=; try exact: List.Forall2_nil.
by apply: List.Forall2_cons => //; exact: IH.
Qed.

Lemma F2_concat (l1 : list (list A)) (l2 : list (list B)) :
  List.Forall2 (List.Forall2 R) l1 l2 -> List.Forall2 R (List.concat l1) (List.concat l2).
Proof.
elim=> [|a b l1' l2' Hab _ IH] /=; first exact: List.Forall2_nil.
exact: List.Forall2_app.
Qed.

Lemma F2_map_seq (f : nat -> A) (g : nat -> B) (s : list nat) :
  (forall i, R (f i) (g i)) -> List.Forall2 R (List.map f s) (List.map g s).
Proof.
move=> H; elim: s => [|i s IH] /=; first exact: List.Forall2_nil.
by apply: List.Forall2_cons.
Qed.
End F2.

Lemma F2_map (A B A' B' : Type) (R : A' -> B' -> Prop) (f : A -> A') (g : B -> B') l1 l2 :
  List.Forall2 (fun a b => R (f a) (g b)) l1 l2 -> List.Forall2 R (List.map f l1) (List.map g l2).
Proof.
elim=> [|a b l1' l2' H _ IH] /=; first exact: List.Forall2_nil.
exact: List.Forall2_cons.
Qed.

Lemma F2_map_eq (A B C : Type) (f : A -> C) (g : B -> C) l1 l2 :
  List.Forall2 (fun a b => f a = g b) l1 l2 -> List.map f l1 = List.map g l2.
Proof. by elim=> [|a b l1' l2' H _ IH] //=; rewrite H IH. Qed.

Lemma F2_combine (A B C D : Type) (R : A -> B -> Prop) (Q : C -> D -> Prop) l1 l2 k1 k2 :
  List.Forall2 R l1 l2 -> List.Forall2 Q k1 k2 ->
  List.Forall2 (fun a b => R a.1 b.1 /\ Q a.2 b.2) (List.combine l1 k1) (List.combine l2 k2).
Proof.
move=> r; elim: r k1 k2 => [|a b l1' l2' Hab _ IH] k1 k2 q /=; first exact: List.Forall2_nil.
case: q => [|c d k1' k2' Hcd q'] /=; first exact: List.Forall2_nil.
by apply: List.Forall2_cons => //; exact: IH.
Qed.

Lemma F2_combine_eq (A C D : Type) (Q : C -> D -> Prop) (l : list A) k1 k2 :
  List.Forall2 Q k1 k2 ->
  List.Forall2 (fun a b => a.1 = b.1 /\ Q a.2 b.2) (List.combine l k1) (List.combine l k2).
Proof.
move=> q; elim: q l => [|c d k1' k2' Hcd _ IH] [|a l] /=; try exact: List.Forall2_nil.
by apply: List.Forall2_cons => //; exact: IH.
Qed.

(* ------------------------------------------------------------------ *)
Section T.
Variable F : realFieldType.
Variable tr : Transc F.
Variable sq : forall n, 'M[F]_n -> 'M[F]_n.
Variable eg : forall n, 'M[F]_n -> 'M[F]_(n,1).
Variables sqL egL : nat -> lmxF F -> lmxF F.
Let S := FOps tr.
Let OL := ListMat S sqL egL.
Let OM := MxMat tr sq eg.
Notation repr m n l A := (@C02_Transport.repr F m n l A) (only parsing).

(* entries: also outside the index range (both sides read 0 there) *)
Lemma rget m n l (A : 'M[F]_(m,n)) : repr m n l A ->
  forall i j, @mget OL m n l i j = @mget OM m n A i j.
Proof.
move=> [w <-] i j; rewrite /= /mx_get /lget.
case: insubP => [i' _ vi|]; last first.
  rewrite -leqNgt => mi.
  have -> : List.nth i l nil = nil by apply: List.nth_overflow; case: w => -> _; apply/leP.
  by case: j.
case: insubP => [j' _ vj|]; last first.
  rewrite -leqNgt => nj; apply: List.nth_overflow.
  by rewrite -vi (wf_nth_row w (ltn_ord i')); apply/leP.
by rewrite mxE vi vj.
Qed.

(* mbuild: entry-wise equal generators give corresponding matrices *)
Lemma rbuild m n (f g : nat -> nat -> F) :
  (forall i j, (i < m)%N -> (j < n)%N -> f i j = g i j) ->
  repr m n (@mbuild OL m n f) (@mbuild OM m n g).
Proof.
move=> E; split; first exact: lbuild_wf.
by rewrite /= toM_lbuild; exact: mx_build_ext.
Qed.

(* the operations of the interface *)
Lemma r_add m n l1 (A1 : 'M[F]_(m,n)) l2 A2 : repr m n l1 A1 -> repr m n l2 A2 ->
  repr m n (@madd OL m n l1 l2) (@madd OM m n A1 A2).
Proof. exact: (repr_add tr). Qed.

Lemma r_sub m n l1 (A1 : 'M[F]_(m,n)) l2 A2 : repr m n l1 A1 -> repr m n l2 A2 ->
  repr m n (@msub OL m n l1 l2) (@msub OM m n A1 A2).
Proof. exact: (repr_msub tr). Qed.

Lemma r_opp m n l (A : 'M[F]_(m,n)) : repr m n l A -> repr m n (@mopp OL m n l) (@mopp OM m n A).
Proof. exact: (repr_mopp tr). Qed.

Lemma r_scale m n c l (A : 'M[F]_(m,n)) : repr m n l A ->
  repr m n (@mscale OL m n c l) (@mscale OM m n c A).
Proof. by move=> [w <-]; split; [exact: map_wf | exact: toM_mscale]. Qed.

Lemma r_mul m n p l1 (A1 : 'M[F]_(m,n)) l2 (A2 : 'M[F]_(n,p)) : repr m n l1 A1 -> repr n p l2 A2 ->
  repr m p (@mmul OL m n p l1 l2) (@mmul OM m n p A1 A2).
Proof. exact: (repr_mul tr). Qed.

Lemma r_tr m n l (A : 'M[F]_(m,n)) : repr m n l A -> repr n m (@mtr OL m n l) (@mtr OM m n A).
Proof. exact: (repr_tr tr). Qed.

Lemma r_zero m n : repr m n (@mzero OL m n) (@mzero OM m n).
Proof. by split; [exact: lbuild_wf | exact: toM_mzero]. Qed.

Lemma r_id n : repr n n (@mid OL n) (@mid OM n).
Proof. by split; [exact: lbuild_wf | exact: toM_lid]. Qed.

Lemma r_hcat m n1 n2 l1 (A1 : 'M[F]_(m,n1)) l2 (A2 : 'M[F]_(m,n2)) :
  repr m n1 l1 A1 -> repr m n2 l2 A2 ->
  repr m (n1 + n2) (@mhcat OL m n1 n2 l1 l2) (@mhcat OM m n1 n2 A1 A2).
Proof. by move=> [w1 <-] [w2 <-]; split; [exact: lhcat_wf | exact: toM_lhcat]. Qed.

Lemma r_vcat m1 m2 n l1 (A1 : 'M[F]_(m1,n)) l2 (A2 : 'M[F]_(m2,n)) :
  repr m1 n l1 A1 -> repr m2 n l2 A2 ->
  repr (m1 + m2) n (@mvcat OL m1 m2 n l1 l2) (@mvcat OM m1 m2 n A1 A2).
Proof. by move=> [w1 <-] [w2 <-]; split; [exact: lvcat_wf | exact: toM_lvcat]. Qed.

(* Gauss-Jordan inverse / determinant of the executed instance, on an invertible input *)
Lemma r_inv n l (A : 'M[F]_n) : repr n n l A -> A \in unitmx ->
  repr n n (@minv OL n l) (@minv OM n A).
Proof. exact: (repr_minv tr). Qed.

Lemma r_det n l (A : 'M[F]_n) : repr n n l A -> A \in unitmx -> @mdet OL n l = @mdet OM n A.
Proof. exact: (repr_mdet tr). Qed.

(* the structural helpers of Ops.v *)
Lemma r_slice m n r0 c0 r c l (A : 'M[F]_(m,n)) : repr m n l A ->
  repr r c (@mslice OL m n r0 c0 r c l) (@mslice OM m n r0 c0 r c A).
Proof. by move=> rA; apply: rbuild => i j _ _; exact: rget. Qed.

Lemma r_col m n j l (A : 'M[F]_(m,n)) : repr m n l A ->
  repr m 1 (@mcol OL m n j l) (@mcol OM m n j A).
Proof. by move=> rA; apply: rbuild => i k _ _; exact: rget. Qed.

Lemma r_row m n i l (A : 'M[F]_(m,n)) : repr m n l A ->
  repr 1 n (@mrow OL m n i l) (@mrow OM m n i A).
Proof. by move=> rA; apply: rbuild => k j _ _; exact: rget. Qed.

Lemma r_diag_of n (d : nat -> F) : repr n n (mdiag_of OL n d) (mdiag_of OM n d).
Proof. exact: rbuild. Qed.

(* representations are unique, in both directions *)
Lemma repr_inj_mx m n l (A B : 'M[F]_(m,n)) : repr m n l A -> repr m n l B -> A = B.
Proof. by move=> [_ <-] [_ <-]. Qed.

Lemma repr_inj_list m n l1 l2 (A : 'M[F]_(m,n)) : repr m n l1 A -> repr m n l2 A -> l1 = l2.
Proof.
move=> r1 r2; have [w1 _] := r1; have [w2 _] := r2.
rewrite -(toM_wf_ext tr w1) -(toM_wf_ext tr w2) /lbuild.
apply: List.map_ext_in => i /List.in_seq [_ /ltP im]; apply: List.map_ext_in => j /List.in_seq [_ /ltP jn].
by move: (rget r1 i j) (rget r2 i j) => /= -> ->.
Qed.

(* every matrix has a (unique) list representation *)
Definition of_mx m n (A : 'M[F]_(m,n)) : lmxF F := lbuild S m n (fun i j => mx_get A i j).
Lemma of_mx_repr m n (A : 'M[F]_(m,n)) : repr m n (of_mx A) A.
Proof.
split; first exact: lbuild_wf.
by rewrite /of_mx toM_lbuild; apply/matrixP => i j; rewrite mxE mx_get_ord.
Qed.

(* Any list-level oracle that returns well-formed matrices on well-formed inputs has a
   matrix-level counterpart to which it corresponds on ALL inputs: the correspondence
   premises of the transport theorems exclude no list-level oracle. *)
Lemma oracle_counterpart_exists (fL : nat -> lmxF F -> lmxF F) (c : nat -> nat) :
  (forall n l, wf n n l -> wf n (c n) (fL n l)) ->
  exists fM : forall n, 'M[F]_n -> 'M[F]_(n, c n),
    forall n l A, repr n n l A -> repr n (c n) (fL n l) (fM n A).
Proof.
move=> Hwf; exists (fun n A => toM n (c n) (fL n (of_mx A))) => n l A rA.
rewrite -(repr_inj_list rA (of_mx_repr A)); split=> //.
by apply: Hwf; case: rA.
Qed.

(* columns / lists of matrices *)
Definition repr_list m n (ls : list (lmxF F)) (As : list 'M[F]_(m,n)) : Prop :=
  List.Forall2 (fun l A => repr m n l A) ls As.

End T.

(* the oracle pairs of the non-vacuity examples: identity functions as square-root oracles
   (exact on an identity covariance), constant zero columns as eigenvector oracles *)
Section IdOracles.
Variable F : realFieldType.
Variable tr : Transc F.
Definition id_sq : forall n, 'M[F]_n -> 'M[F]_n := fun _ A => A.
Definition zero_eg : forall n, 'M[F]_n -> 'M[F]_(n,1) := fun _ _ => 0.
Definition id_sqL : nat -> lmxF F -> lmxF F := fun _ l => l.
Definition zero_egL : nat -> lmxF F -> lmxF F := fun n _ => lbuild (FOps tr) n 1 (fun _ _ => 0).

Lemma id_oracles_correspond n l (A : 'M[F]_n) : @C02_Transport.repr F n n l A ->
  @C02_Transport.repr F n n (id_sqL n l) (id_sq A) /\ @C02_Transport.repr F n 1 (zero_egL n l) (zero_eg A).
Proof. by move=> rA; split=> //; exact: (r_zero tr id_sq zero_eg id_sqL zero_egL). Qed.
End IdOracles.
