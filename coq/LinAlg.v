(* LinAlg.v — symmetric / PSD / SPD matrices over a realFieldType, through the
   quadratic form x A x^T (x a row vector).  Axiom-free (MathComp only). *)
From mathcomp Require Import all_ssreflect all_algebra.
Set Implicit Arguments.
Unset Strict Implicit.
Unset Printing Implicit Defensive.
Import Order.Theory GRing.Theory Num.Theory.
Local Open Scope ring_scope.

Section SPD.
Variable F : realFieldType.

Definition sym n (A : 'M[F]_n) := A^T = A.
Definition qf n (A : 'M[F]_n) (x : 'rV[F]_n) : F := (x *m A *m x^T) 0 0.
Definition psd n (A : 'M[F]_n) := sym A /\ forall x, 0 <= qf A x.
Definition spd n (A : 'M[F]_n) := sym A /\ forall x, x != 0 -> 0 < qf A x.
(* Loewner order *)
Definition mle n (A B : 'M[F]_n) := psd (B - A).

Lemma qf_add n (A B : 'M[F]_n) x : qf (A + B) x = qf A x + qf B x.
Proof. by rewrite /qf mulmxDr mulmxDl mxE. Qed.

Lemma qf_opp n (A : 'M[F]_n) x : qf (- A) x = - qf A x.
Proof. by rewrite /qf mulmxN mulNmx mxE. Qed.

Lemma qf_scale n (A : 'M[F]_n) c x : qf (c *: A) x = c * qf A x.
Proof. by rewrite /qf -scalemxAr -scalemxAl mxE. Qed.

Lemma qf_congr n m (A : 'M[F]_n) (B : 'M[F]_(m,n)) x :
  qf (B *m A *m B^T) x = qf A (x *m B).
Proof. by rewrite /qf trmx_mul !mulmxA. Qed.

Lemma qf0 n (A : 'M[F]_n) : qf A 0 = 0.
Proof. by rewrite /qf !mul0mx mxE. Qed.

Lemma sym_add n (A B : 'M[F]_n) : sym A -> sym B -> sym (A + B).
Proof. by rewrite /sym linearD /= => -> ->. Qed.

Lemma sym_sub n (A B : 'M[F]_n) : sym A -> sym B -> sym (A - B).
Proof. by rewrite /sym linearB /= => -> ->. Qed.

Lemma sym_congr n m (A : 'M[F]_n) (B : 'M[F]_(m,n)) : sym A -> sym (B *m A *m B^T).
Proof. by rewrite /sym => sA; rewrite !trmx_mul trmxK sA mulmxA. Qed.

Lemma sym_inv n (A : 'M[F]_n) : sym A -> sym (invmx A).
Proof. by rewrite /sym trmx_inv => ->. Qed.

Lemma sym1 n : sym (1%:M : 'M[F]_n).
Proof. by rewrite /sym trmx1. Qed.

Lemma spd_psd n (A : 'M[F]_n) : spd A -> psd A.
Proof.
case=> sA pA; split=> // x; case: (eqVneq x 0) => [->|/pA/ltW //].
by rewrite qf0.
Qed.

Lemma spd_unit n (A : 'M[F]_n) : spd A -> A \in unitmx.
Proof.
case=> _ pos; rewrite -row_free_unit -kermx_eq0; apply/rowV0P=> v.
move/sub_kermxP=> vA0; apply/eqP; apply: contraT => vn0.
by have := pos v vn0; rewrite /qf vA0 mul0mx mxE ltxx.
Qed.

Lemma psd_add n (A B : 'M[F]_n) : psd A -> psd B -> psd (A + B).
Proof.
case=> sA pA [sB pB]; split; first exact: sym_add.
by move=> x; rewrite qf_add addr_ge0.
Qed.

Lemma psd_spd_add n (A B : 'M[F]_n) : psd A -> spd B -> spd (A + B).
Proof.
case=> sA pA [sB pB]; split; first exact: sym_add.
move=> x xn0; rewrite qf_add; apply: ltr_paddl; [exact: pA | exact: pB].
Qed.

Lemma psd_congr n m (A : 'M[F]_n) (B : 'M[F]_(m,n)) : psd A -> psd (B *m A *m B^T).
Proof.
case=> sA pA; split; first exact: sym_congr.
by move=> x; rewrite qf_congr.
Qed.

Lemma psd0 n : psd (0 : 'M[F]_n).
Proof. by split; [rewrite /sym trmx0 | move=> x; rewrite /qf mulmx0 mul0mx mxE]. Qed.

Lemma spd1 n : spd (1%:M : 'M[F]_n).
Proof.
split; first exact: sym1.
move=> x xn0; rewrite /qf mulmx1.
have -> : (x *m x^T) 0 0 = \sum_j x 0 j ^+ 2.
  by rewrite mxE; apply: eq_bigr => j _; rewrite mxE expr2.
rewrite lt_def sumr_ge0 ?andbT; last by move=> j _; rewrite sqr_ge0.
apply: contra xn0 => /eqP s0; apply/eqP/rowP => j; rewrite mxE.
have /psumr_eq0P : \sum_j x 0 j ^+ 2 = 0 by [].
move=> /(_ (fun j _ => sqr_ge0 (x 0 j)) j isT) /eqP.
by rewrite sqrf_eq0 => /eqP.
Qed.

(* the inverse of an SPD matrix is SPD *)
Lemma spd_inv n (A : 'M[F]_n) : spd A -> spd (invmx A).
Proof.
move=> sA; have uA := spd_unit sA; case: sA => symA posA.
split; first exact: sym_inv.
move=> x xn0.
have -> : qf (invmx A) x = qf A (x *m invmx A).
  rewrite /qf trmx_mul trmx_inv symA !mulmxA.
  by rewrite -[x *m invmx A *m A]mulmxA (mulVmx uA) mulmx1.
apply: posA; apply: contra xn0 => /eqP E.
by rewrite -[x]mulmx1 -(mulVmx uA) mulmxA E mul0mx.
Qed.

Lemma mle_refl n (A : 'M[F]_n) : mle A A.
Proof. by rewrite /mle subrr; exact: psd0. Qed.

End SPD.
