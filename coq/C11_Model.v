(* C11_Model.v — belief containers (GaussianMixture / Gaussian / ParticleSet):
   shape descriptors and concatenated Eigen storage, transcribed line by line
   from /repo (HEAD) src/BayesFilters/src/{GaussianMixture,Gaussian,ParticleSet}.cpp.

   Matrices carry explicit (rows, cols, data); data is the list of columns
   (Eigen's default column-major order).  The Eigen primitives the code uses
   are modelled literally, as Eigen 3.4 compiled with
   EIGEN_INITIALIZE_MATRICES_BY_ZERO behaves:
     MatrixXd(r,c)                     all zero
     resize(r,c)                       r*c = old size: the buffer is kept (column-major
                                       reinterpretation); otherwise reallocated and zero
     conservativeResize(NoChange, c)   same shape: nothing; otherwise realloc of the buffer:
                                       the kept columns keep their data, NEW CELLS ARE
                                       UNINITIALISED (modelled by the parameter [junk])
     conservativeResize(r, NoChange)   same shape: nothing; otherwise a zero matrix receives
                                       the common top-left block
     conservativeResizeLike(other)     same shape: nothing; otherwise cells outside the old
                                       top-left block come from [other]
     block(r0,c0,h,w) = src            block copy
     col(a).swap(col(b)) on a block    swap of the first k rows of two columns
   No proofs in this file. *)
Require Import ZArith List Bool Arith.
Require Import BFL.Ops.
Import ListNotations.

(* an operation sequence executed only as long as every operation is defined in the C++
   (no Eigen assertion, no unsigned wrap-around, no use of reallocated storage) *)
Fixpoint run_ops {X O : Type} (def : O -> X -> bool) (app : O -> X -> X) (ops : list O) (x : X) : option X :=
  match ops with
  | [] => Some x
  | o :: r => if def o x then run_ops def app r (app o x) else None
  end.

(* ------------------------------------------------------------ a pool of objects
   Several objects of one class live side by side (slots); besides the single-object operations
   there are the special member functions, whose source is ANOTHER object or a temporary:
     copy construction / copy assignment   slot t := copy of slot s (s = t: self-assignment)
     move construction / move assignment   the same value; the source is moved-from afterwards:
                                            valid but unspecified, so it is not looked at any more
                                            until it is the target of a construction / assignment
     construction / assignment from a temporary (an rvalue expression): X(...), f(x) for a function
                                            that copies its argument, applies operations to the copy
                                            and returns it by value, a + b
   In /repo the three classes declare a virtual destructor and nothing else, so copy construction and
   copy assignment are the implicit member-wise ones and NO move operation is declared: std::move(x)
   and temporaries bind to the copy operations.  [copy] is that member-wise copy. *)
Section Pool.
Variables X O F : Type.
Variable def : O -> X -> bool.       (* single-object operation defined *)
Variable app : O -> X -> X.
Variable copy : X -> X.
Variable fresh : F -> X.             (* constructor call *)
Variable bin_def : X -> X -> bool.   (* a + b defined *)
Variable bin : X -> X -> X.

Inductive exp :=
| ESlot (s : nat)                    (* a named object *)
| EFresh (f : F)                     (* X(...) *)
| EOp (o : O) (e : exp)              (* f(e): the copy of e modified by o, returned by value *)
| EBin (a b : exp).                  (* a + b *)

(* (object, alive); alive = false: moved-from *)
Definition pool := list (X * bool).
Definition slot_get (p : pool) (i : nat) : option X :=
  match nth_error p i with Some (x, true) => Some x | _ => None end.
Fixpoint slot_put (p : pool) (i : nat) (v : X * bool) : pool :=
  match p, i with
  | [], _ => []
  | _ :: r, 0 => v :: r
  | h :: r, Datatypes.S i' => h :: slot_put r i' v
  end.
Definition slot_kill (p : pool) (i : nat) : pool :=
  match nth_error p i with Some (x, _) => slot_put p i (x, false) | None => p end.

Fixpoint eval (p : pool) (e : exp) : option X :=
  match e with
  | ESlot s => match slot_get p s with Some x => Some (copy x) | None => None end
  | EFresh f => Some (fresh f)
  | EOp o e' => match eval p e' with
                | Some x => if def o x then Some (app o x) else None
                | None => None
                end
  | EBin a b => match eval p a, eval p b with
                | Some x, Some y => if bin_def x y then Some (bin x y) else None
                | _, _ => None
                end
  end.

Inductive kop :=
| KOn (i : nat) (o : O)              (* a single-object operation on slot i *)
| KLook (i : nat)                    (* nothing: slot i is inspected *)
| KCopy (t s : nat)                  (* X n(s) replacing slot t, or t = s *)
| KMove (t s : nat)                  (* X n(std::move(s)) replacing slot t, or t = std::move(s) *)
| KTemp (t : nat) (e : exp).         (* X n(e) replacing slot t, or t = e, for an rvalue e *)

(* None: outside the premises (an operation that is undefined in the C++, a moved-from or
   non-existent slot used as anything but the target) *)
Definition kstep (k : kop) (p : pool) : option pool :=
  match k with
  | KOn i o => match slot_get p i with
               | Some x => if def o x then Some (slot_put p i (app o x, true)) else None
               | None => None
               end
  | KLook i => match slot_get p i with Some _ => Some p | None => None end
  | KCopy t s => match slot_get p s with
                 | Some x => if t <? length p then Some (slot_put p t (copy x, true)) else None
                 | None => None
                 end
  | KMove t s => match slot_get p s with
                 | Some x => if t <? length p
                             then Some (slot_put (if t =? s then p else slot_kill p s) t (copy x, true))
                             else None
                 | None => None
                 end
  | KTemp t e => match eval p e with
                 | Some x => if t <? length p then Some (slot_put p t (x, true)) else None
                 | None => None
                 end
  end.
Fixpoint krun (ks : list kop) (p : pool) : option pool :=
  match ks with
  | [] => Some p
  | k :: r => match kstep k p with Some p' => krun r p' | None => None end
  end.

(* every single-object operation occurring in a sequence satisfies ok *)
Fixpoint exp_all (ok : O -> bool) (e : exp) : bool :=
  match e with
  | ESlot _ | EFresh _ => true
  | EOp o e' => ok o && exp_all ok e'
  | EBin a b => exp_all ok a && exp_all ok b
  end.
Definition kop_all (ok : O -> bool) (k : kop) : bool :=
  match k with KOn _ o => ok o | KTemp _ e => exp_all ok e | _ => true end.
End Pool.
Arguments slot_get {X}. Arguments slot_put {X}. Arguments slot_kill {X}.
Arguments eval {X O F}. Arguments kstep {X O F}. Arguments krun {X O F}.
Arguments exp_all {O F}. Arguments kop_all {O F}.
Arguments ESlot {O F}. Arguments EFresh {O F}. Arguments EOp {O F}. Arguments EBin {O F}.
Arguments KOn {O F}. Arguments KLook {O F}. Arguments KCopy {O F}. Arguments KMove {O F}. Arguments KTemp {O F}.

Section C11.
Variable S : SOps.
Variable junk : T S.        (* value of an uninitialised double *)
Local Notation A := (T S).
Local Notation zero := (s0 S).

(* ------------------------------------------------------------ matrices *)
Record mx := mkMx { mrows : nat; mcols : nat; mdata : list (list A) }.

Definition mk (r c : nat) (f : nat -> nat -> A) : mx :=
  mkMx r c (map (fun j => map (fun i => f i j) (seq 0 r)) (seq 0 c)).
Definition get (m : mx) (i j : nat) : A := nth i (nth j (mdata m) []) zero.

(* MatrixXd(r, c) / MatrixXd::Zero(r, c) *)
Definition e_zero (r c : nat) : mx := mk r c (fun _ _ => zero).

(* m.resize(r, c) *)
Definition e_resize (m : mx) (r c : nat) : mx :=
  if r * c =? mrows m * mcols m
  then mk r c (fun i j => let k := j * r + i in get m (k mod mrows m) (k / mrows m))
  else e_zero r c.

(* m.conservativeResize(NoChange, c) *)
Definition e_cresize_cols (m : mx) (c : nat) : mx :=
  if c =? mcols m then m
  else mk (mrows m) c (fun i j => if j <? mcols m then get m i j else junk).

(* v.conservativeResize(n) for a column vector *)
Definition e_cresize_vec (v : mx) (n : nat) : mx :=
  if n =? mrows v then v
  else mk n 1 (fun i _ => if i <? mrows v then get v i 0 else junk).

(* m.conservativeResize(r, NoChange) *)
Definition e_cresize_rows (m : mx) (r : nat) : mx :=
  if r =? mrows m then m
  else mk r (mcols m) (fun i j => if i <? mrows m then get m i j else zero).

(* m.conservativeResizeLike(other) *)
Definition e_cresize_like (m other : mx) : mx :=
  if (mrows other =? mrows m) && (mcols other =? mcols m) then m
  else mk (mrows other) (mcols other)
          (fun i j => if (i <? mrows m) && (j <? mcols m) then get m i j else get other i j).

(* m.block(r0, c0, rows src, cols src) = src *)
Definition e_set_block (m : mx) (r0 c0 : nat) (src : mx) : mx :=
  mk (mrows m) (mcols m)
     (fun i j => if (r0 <=? i) && (i <? r0 + mrows src) && (c0 <=? j) && (j <? c0 + mcols src)
                 then get src (i - r0) (j - c0) else get m i j).

(* m(i, j) = x *)
Definition e_set (m : mx) (i0 j0 : nat) (x : A) : mx :=
  mk (mrows m) (mcols m) (fun i j => if (i =? i0) && (j =? j0) then x else get m i j).

(* blockA.col(.).swap(blockB.col(.)) where both blocks start at row 0 and have k rows:
   the first k rows of columns a and b of m are exchanged *)
Definition e_swap_cols (m : mx) (k a b : nat) : mx :=
  mk (mrows m) (mcols m)
     (fun i j => if i <? k
                 then (if j =? a then get m i b else if j =? b then get m i a else get m i j)
                 else get m i j).

(* m.col(j), m.middleCols(c0, w) *)
Definition e_col (m : mx) (j : nat) : mx := mk (mrows m) 1 (fun i _ => get m i j).
Definition e_middle_cols (m : mx) (c0 w : nat) : mx := mk (mrows m) w (fun i j => get m i (c0 + j)).

(* writing distinct small integers through the Ref accessors (the harness does this) *)
Definition e_fill (m : mx) (b : Z) : mx :=
  mk (mrows m) (mcols m) (fun i j => sofZ S (b + Z.of_nat (j * mrows m + i))%Z).

(* ------------------------------------------------------------ GaussianMixture *)
Record gm := mkGm {
  components : nat; use_quat : bool; dcc : nat; dim : nat; dl : nat; dc : nat; dn : nat; dcov : nat;
  mean_ : mx; cov_ : mx; weight_ : mx }.

(* GaussianMixture.cpp:24-61 *)
Definition gm_ctor (c l ci : nat) (q : bool) : gm :=
  let dcc0 := if q then 4 else 1 in
  let dim0 := l + ci * dcc0 in
  let dcov0 := if q then l + ci * (dcc0 - 1) else dim0 in
  let w := fold_left (fun w i => e_set w i 0 (sdiv S (s1 S) (sofnat S c))) (seq 0 c) (e_zero c 1) in
  mkGm c q dcc0 dim0 l ci 0 dcov0 (e_zero dim0 c) (e_zero dcov0 (dcov0 * c)) w.

(* implicit copy constructor / copy assignment: member-wise *)
Definition gm_copy (g : gm) : gm :=
  mkGm (components g) (use_quat g) (dcc g) (dim g) (dl g) (dc g) (dn g) (dcov g) (mean_ g) (cov_ g) (weight_ g).

(* GaussianMixture.cpp:64-92 *)
Definition gm_resize (c l ci : nat) (g : gm) : gm :=
  let new_dim := l + ci * dcc g in
  let new_dcov := if use_quat g then l + ci * (dcc g - 1) else new_dim in
  if (dl g =? l) && (dc g =? ci) && (components g =? c) then g
  else if (dim g =? new_dim) && (dcov g =? new_dcov) && negb (components g =? c) then
    mkGm c (use_quat g) (dcc g) new_dim l ci 0 new_dcov
         (e_cresize_cols (mean_ g) c) (e_cresize_cols (cov_ g) (dcov g * c)) (e_cresize_vec (weight_ g) c)
  else
    mkGm c (use_quat g) (dcc g) new_dim l ci 0 new_dcov
         (e_resize (mean_ g) new_dim c) (e_resize (cov_ g) new_dcov (new_dcov * c)) (e_resize (weight_ g) c 1).

(* Gaussian.cpp:36-39 *)
Definition gauss_ctor (l ci : nat) (q : bool) : gm := gm_ctor 1 l ci q.
Definition gauss_resize (l ci : nat) (g : gm) : gm := gm_resize 1 l ci g.

(* GaussianMixture.cpp:214-233: relocation of the covariance blocks, right to left *)
Definition relocate_comp (dim_old dcov' : nat) (cv : mx) (i_index : nat) : mx :=
  fold_left (fun cv j => let j_index := dim_old - 1 - j in
                         e_swap_cols cv dim_old (i_index * dcov' + j_index) (i_index * dim_old + j_index))
            (seq 0 dim_old) cv.
Definition relocate (comps dim_old dcov' : nat) (cv : mx) : mx :=
  fold_left (fun cv i => relocate_comp dim_old dcov' cv (comps - 1 - i)) (seq 0 (comps - 1)) cv.

(* GaussianMixture.cpp:235-247 *)
Definition place_noise (comps dim_old dim_added dcov' : nat) (q cv : mx) : mx :=
  fold_left (fun cv i =>
               e_set_block (e_set_block cv dim_old (i * dcov' + dim_old) q)
                           0 (i * dcov' + dim_old) (e_zero dim_old dim_added))
            (seq 0 comps) cv.

(* GaussianMixture.cpp:189-250.  The C++ loop bound `components - 1` is unsigned:
   the transcription is faithful for components >= 1 only (gm_op_ok below). *)
Definition gm_augment (q : mx) (g : gm) : bool * gm :=
  if negb (mrows q =? mcols q) then (false, g)
  else
    let dim_old := dcov g in
    let dim_added := mrows q in
    let dn' := dn g + dim_added in
    let dim' := dim g + dim_added in
    let dcov' := dcov g + dim_added in
    let m1 := e_cresize_rows (mean_ g) dim' in
    let m2 := e_set_block m1 (mrows m1 - dim_added) 0 (e_zero dim_added (components g)) in
    let c1 := e_cresize_like (cov_ g) (e_zero dcov' (dcov' * components g)) in
    let c2 := relocate (components g) dim_old dcov' c1 in
    let c3 := place_noise (components g) dim_old dim_added dcov' q c2 in
    (true, mkGm (components g) (use_quat g) (dcc g) dim' (dl g) (dc g) dn' dcov' m2 c3 (weight_ g)).

(* the harness overwrites all storage with distinct integers through mean(), covariance(), weight() *)
Definition gm_fill (b : Z) (g : gm) : gm :=
  let nm := Z.of_nat (mrows (mean_ g) * mcols (mean_ g)) in
  let nc := Z.of_nat (mrows (cov_ g) * mcols (cov_ g)) in
  mkGm (components g) (use_quat g) (dcc g) (dim g) (dl g) (dc g) (dn g) (dcov g)
       (e_fill (mean_ g) b) (e_fill (cov_ g) (b + nm)) (e_fill (weight_ g) (b + nm + nc)).

(* per-component accessors, GaussianMixture.cpp:95-187 *)
Definition gm_mean (g : gm) (i : nat) : mx := e_col (mean_ g) i.
Definition gm_mean_el (g : gm) (i j : nat) : A := get (mean_ g) j i.
Definition gm_cov (g : gm) (i : nat) : mx := e_middle_cols (cov_ g) (dcov g * i) (dcov g).
Definition gm_cov_el (g : gm) (i j k : nat) : A := get (cov_ g) j (dcov g * i + k).
Definition gm_weight (g : gm) (i : nat) : A := get (weight_ g) i 0.
(* Gaussian.cpp:42-100: mean() = mean_.col(0), covariance() = covariance_, weight() = weight_(0) *)
Definition gauss_mean (g : gm) : mx := e_col (mean_ g) 0.
Definition gauss_cov (g : gm) : mx := cov_ g.
Definition gauss_weight (g : gm) : A := get (weight_ g) 0 0.
(* Gaussian::mean(i) = mean_(i, 0), Gaussian::covariance(i, j) = covariance_(i, j) *)
Definition gauss_mean_el (g : gm) (i : nat) : A := get (mean_ g) i 0.
Definition gauss_cov_el (g : gm) (i j : nat) : A := get (cov_ g) i j.

(* the non-const overloads return a Ref / reference to the same cells: writing through them *)
Definition gm_with (g : gm) (m c w : mx) : gm :=
  mkGm (components g) (use_quat g) (dcc g) (dim g) (dl g) (dc g) (dn g) (dcov g) m c w.
(* mean(i, j) = x;  covariance(i, j, k) = x;  weight(i) = x *)
Definition gm_set_mean_el (g : gm) (i j : nat) (x : A) : gm := gm_with g (e_set (mean_ g) j i x) (cov_ g) (weight_ g).
Definition gm_set_cov_el (g : gm) (i j k : nat) (x : A) : gm :=
  gm_with g (mean_ g) (e_set (cov_ g) j (dcov g * i + k) x) (weight_ g).
Definition gm_set_weight (g : gm) (i : nat) (x : A) : gm := gm_with g (mean_ g) (cov_ g) (e_set (weight_ g) i 0 x).
(* mean(i) = v;  covariance(i) = m  (assignment to the returned block) *)
Definition gm_set_mean (g : gm) (i : nat) (v : mx) : gm := gm_with g (e_set_block (mean_ g) 0 i v) (cov_ g) (weight_ g).
Definition gm_set_cov (g : gm) (i : nat) (m : mx) : gm :=
  gm_with g (mean_ g) (e_set_block (cov_ g) 0 (dcov g * i) m) (weight_ g).

(* the harness writes the same distinct integers as gm_fill, but cell by cell through the per-component
   element accessors:  for i, j: mean(i, j) = ..;  for i, k, j: covariance(i, j, k) = ..;  for i: weight(i) = ..
   (loops flattened: t = i * dim + j, resp. t = (i * dcov + k) * dcov + j) *)
Definition gm_fill_el (b : Z) (g : gm) : gm :=
  let d := dim g in
  let v := dcov g in
  let n := components g in
  let nm := Z.of_nat (d * n) in
  let nc := Z.of_nat (v * (v * n)) in
  let g1 := fold_left (fun g t => gm_set_mean_el g (t / d) (t mod d) (sofZ S (b + Z.of_nat t))) (seq 0 (d * n)) g in
  let g2 := fold_left (fun g t => let col := t / v in
                                  gm_set_cov_el g (col / v) (t mod v) (col mod v) (sofZ S (b + nm + Z.of_nat t)))
                      (seq 0 (v * (v * n))) g1 in
  fold_left (fun g i => gm_set_weight g i (sofZ S (b + nm + nc + Z.of_nat i))) (seq 0 n) g2.
(* ... and through the block accessors:  for i: mean(i) = column, covariance(i) = block, weight(i) = .. *)
Definition gm_fill_blk (b : Z) (g : gm) : gm :=
  let d := dim g in
  let v := dcov g in
  let n := components g in
  let nm := Z.of_nat (d * n) in
  let nc := Z.of_nat (v * (v * n)) in
  fold_left (fun g i =>
               let g1 := gm_set_mean g i (mk d 1 (fun r _ => sofZ S (b + Z.of_nat (i * d + r)))) in
               let g2 := gm_set_cov g1 i (mk v v (fun r k => sofZ S (b + nm + Z.of_nat ((i * v + k) * v + r)))) in
               gm_set_weight g2 i (sofZ S (b + nm + nc + Z.of_nat i)))
            (seq 0 n) g.

(* the parts of a component that the algorithms address through the descriptors: the state part
   (the first dim - dim_noise rows, resp. the top-left block) and the noise part
   (mean(i).tail(dim_noise) / bottomRows(dim_noise), covariance(i).bottomRightCorner(dim_noise, dim_noise)) *)
Definition e_rows_from (m : mx) (a : nat) : mx := mk (mrows m - a) (mcols m) (fun i j => get m (a + i) j).
Definition e_rows_upto (m : mx) (a : nat) : mx := mk a (mcols m) (fun i j => get m i j).
Definition e_block (m : mx) (r0 c0 h w : nat) : mx := mk h w (fun i j => get m (r0 + i) (c0 + j)).
Definition gm_state_mean (g : gm) (i : nat) : mx := e_rows_upto (gm_mean g i) (dim g - dn g).
Definition gm_noise_mean (g : gm) (i : nat) : mx := e_rows_from (gm_mean g i) (dim g - dn g).
Definition gm_state_cov (g : gm) (i : nat) : mx := e_block (gm_cov g i) 0 0 (dcov g - dn g) (dcov g - dn g).
Definition gm_noise_cov (g : gm) (i : nat) : mx := e_block (gm_cov g i) (dcov g - dn g) (dcov g - dn g) (dn g) (dn g).

(* ------------------------------------------------------------ ParticleSet *)
Record pset := mkPs { base : gm; state_ : mx }.

(* ParticleSet.cpp:24-33 *)
Definition ps_ctor (c l ci : nat) (q : bool) : pset :=
  let b := gm_ctor c l ci q in mkPs b (e_zero (dim b) c).

Definition ps_copy (p : pset) : pset := mkPs (gm_copy (base p)) (state_ p).

(* ParticleSet.cpp:35-51 *)
Definition ps_resize (c l ci : nat) (p : pset) : pset :=
  let g := base p in
  let new_dim := l + ci * dcc g in
  if (dl g =? l) && (dc g =? ci) && (components g =? c) then p
  else
    let st := if (dim g =? new_dim) && negb (components g =? c)
              then e_cresize_cols (state_ p) c
              else e_resize (state_ p) new_dim c in
    mkPs (gm_resize c l ci g) st.

(* ParticleSet.cpp:54-75; x.rightCols(n) = block(0, cols-n, rows, n), v.tail(n) = block(size-n, 0, n, 1) *)
Definition ps_concat (rhs p : pset) : pset :=
  let g := base p in
  let r := base rhs in
  let nc := components g + components r in
  let st1 := e_cresize_cols (state_ p) nc in
  let st2 := e_set_block st1 0 (mcols st1 - components r) (state_ rhs) in
  let m1 := e_cresize_cols (mean_ g) nc in
  let m2 := e_set_block m1 0 (mcols m1 - components r) (mean_ r) in
  let c1 := e_cresize_cols (cov_ g) (dcov g * nc) in
  let c2 := e_set_block c1 0 (mcols c1 - dcov g * components r) (cov_ r) in
  let w1 := e_cresize_vec (weight_ g) nc in
  let w2 := e_set_block w1 (mrows w1 - components r) 0 (weight_ r) in
  mkPs (mkGm nc (use_quat g) (dcc g) (dim g) (dl g) (dc g) (dn g) (dcov g) m2 c2 w2) st2.

(* ParticleSet.cpp:78-83: lhs is taken by value (a copy), then += *)
Definition ps_plus (lhs rhs : pset) : pset := ps_concat rhs (ps_copy lhs).

(* ParticleSet.cpp:54-66: the override calls the base class, then augments the particle states *)
Definition ps_augment (q : mx) (p : pset) : bool * pset :=
  let r := gm_augment q (base p) in
  if negb (fst r) then (false, p)
  else
    let g := snd r in
    let dim_added := mrows q in
    let s1 := e_cresize_rows (state_ p) (dim g) in
    let s2 := e_set_block s1 (mrows s1 - dim_added) 0 (e_zero dim_added (components g)) in
    (true, mkPs g s2).

Definition ps_fill (b : Z) (p : pset) : pset :=
  let g := gm_fill b (base p) in
  let n := Z.of_nat (mrows (mean_ g) * mcols (mean_ g) + mrows (cov_ g) * mcols (cov_ g) + mrows (weight_ g)) in
  mkPs g (e_fill (state_ p) (b + n)).

Definition ps_state (p : pset) (i : nat) : mx := e_col (state_ p) i.
Definition ps_state_el (p : pset) (i j : nat) : A := get (state_ p) j i.
(* state(i, j) = x;  state(i) = v *)
Definition ps_set_state_el (p : pset) (i j : nat) (x : A) : pset := mkPs (base p) (e_set (state_ p) j i x).
Definition ps_set_state (p : pset) (i : nat) (v : mx) : pset := mkPs (base p) (e_set_block (state_ p) 0 i v).
Definition ps_fill_el (b : Z) (p : pset) : pset :=
  let g := gm_fill_el b (base p) in
  let d := dim g in
  let v := dcov g in
  let n := components g in
  let off := Z.of_nat (d * n + v * (v * n) + n) in
  fold_left (fun p t => ps_set_state_el p (t / d) (t mod d) (sofZ S (b + off + Z.of_nat t))) (seq 0 (d * n)) (mkPs g (state_ p)).
Definition ps_fill_blk (b : Z) (p : pset) : pset :=
  let g := gm_fill_blk b (base p) in
  let d := dim g in
  let v := dcov g in
  let n := components g in
  let off := Z.of_nat (d * n + v * (v * n) + n) in
  fold_left (fun p i => ps_set_state p i (mk d 1 (fun r _ => sofZ S (b + off + Z.of_nat (i * d + r))))) (seq 0 n) (mkPs g (state_ p)).
(* the particle's own parts *)
Definition ps_state_part (p : pset) (i : nat) : mx := e_rows_upto (ps_state p i) (dim (base p) - dn (base p)).
Definition ps_noise_part (p : pset) (i : nat) : mx := e_rows_from (ps_state p i) (dim (base p) - dn (base p)).

(* ------------------------------------------------------------ where the transcription is faithful
   (outside: Eigen assertion / undefined behaviour in the C++) *)
(* m.block(r0, c0, h, w) = src needs the block inside m and src of shape (h, w) *)
Definition blk_ok (m : mx) (r0 c0 h w : nat) (src : mx) : bool :=
  (mrows src =? h) && (mcols src =? w) && (r0 + h <=? mrows m) && (c0 + w <=? mcols m).
Definition ps_concat_defined (rhs p : pset) : bool :=
  let g := base p in
  let r := base rhs in
  let n := components r in
  let nc := components g + n in
  blk_ok (e_cresize_cols (state_ p) nc) 0 (nc - n) (mrows (state_ p)) n (state_ rhs)
  && blk_ok (e_cresize_cols (mean_ g) nc) 0 (nc - n) (mrows (mean_ g)) n (mean_ r)
  && blk_ok (e_cresize_cols (cov_ g) (dcov g * nc)) 0 (dcov g * nc - dcov g * n) (mrows (cov_ g)) (dcov g * n) (cov_ r)
  && blk_ok (e_cresize_vec (weight_ g) nc) (nc - n) 0 n 1 (weight_ r).
(* p += p: the right operand IS the left one, so after each conservativeResize the source of the
   block assignment is the already enlarged storage itself *)
Definition ps_concat_self_defined (p : pset) : bool :=
  let g := base p in
  let n := components g in
  let nc := n + n in
  let st1 := e_cresize_cols (state_ p) nc in
  let m1 := e_cresize_cols (mean_ g) nc in
  let c1 := e_cresize_cols (cov_ g) (dcov g * nc) in
  let w1 := e_cresize_vec (weight_ g) nc in
  blk_ok st1 0 (nc - n) (mrows st1) n st1
  && blk_ok m1 0 (nc - n) (mrows m1) n m1
  && blk_ok c1 0 (dcov g * nc - dcov g * n) (mrows c1) (dcov g * n) c1
  && blk_ok w1 (nc - n) 0 n 1 w1.
(* the loop bound `components - 1` of augmentWithNoise is unsigned *)
Definition gm_augment_defined (q : mx) (g : gm) : bool :=
  negb (mrows q =? mcols q) || (1 <=? components g).
(* g.augmentWithNoise(g.covariance()): the argument is a Ref into covariance_, which is reallocated
   (conservativeResizeLike) before the argument is read: defined only if nothing is reallocated *)
Definition gm_augment_self_defined (g : gm) : bool :=
  gm_augment_defined (cov_ g) g
  && (negb (mrows (cov_ g) =? mcols (cov_ g)) || (mrows (cov_ g) =? 0)).

(* ------------------------------------------------------------ operation sequences *)
Inductive gop :=
| GFill (b : Z) | GCopy | GResize (c l ci : nat) | GAugment (q : mx)
| GAugmentSelf                        (* g.augmentWithNoise(g.covariance()) *)
| GFillEl (b : Z) | GFillBlk (b : Z). (* fill through the element / block accessors of every component *)
Definition gm_apply (o : gop) (g : gm) : gm :=
  match o with
  | GFill b => gm_fill b g
  | GCopy => gm_copy g
  | GResize c l ci => gm_resize c l ci g
  | GAugment q => snd (gm_augment q g)
  | GAugmentSelf => snd (gm_augment (cov_ g) g)     (* the value a temporary copy of the argument would give *)
  | GFillEl b => gm_fill_el b g
  | GFillBlk b => gm_fill_blk b g
  end.
Definition gop_defined (o : gop) (g : gm) : bool :=
  match o with
  | GAugment q => gm_augment_defined q g
  | GAugmentSelf => gm_augment_self_defined g
  | _ => true
  end.
(* a Gaussian is a mixture whose own resize fixes one component; through a GaussianMixture&
   the hidden virtual GaussianMixture::resize(c, l, ci) is reachable as well (NResizeBase) *)
Inductive gaussop :=
| NFill (b : Z) | NCopy | NResize (l ci : nat) | NAugment (q : mx)
| NAugmentSelf | NResizeBase (c l ci : nat) | NFillEl (b : Z) | NFillBlk (b : Z).
Definition gauss_apply (o : gaussop) (g : gm) : gm :=
  match o with
  | NFill b => gm_fill b g
  | NCopy => gm_copy g
  | NResize l ci => gauss_resize l ci g
  | NAugment q => snd (gm_augment q g)
  | NAugmentSelf => snd (gm_augment (cov_ g) g)
  | NResizeBase c l ci => gm_resize c l ci g
  | NFillEl b => gm_fill_el b g
  | NFillBlk b => gm_fill_blk b g
  end.
Definition gaussop_defined (o : gaussop) (g : gm) : bool :=
  match o with
  | NAugment q => gm_augment_defined q g
  | NAugmentSelf => gm_augment_self_defined g
  | _ => true
  end.
(* operations that keep a Gaussian a one-component object *)
Definition gaussop_single (o : gaussop) : bool :=
  match o with NResizeBase c _ _ => c =? 1 | _ => true end.
Inductive pop :=
| PFill (b : Z) | PCopy | PResize (c l ci : nat) | PAugment (q : mx)
| PConcat (rhs : pset)                (* p += rhs, rhs a distinct object *)
| PPlus (rhs : pset)                  (* p + rhs (the left operand is copied first) *)
| PAugmentSelf                        (* p.augmentWithNoise(p.covariance()) *)
| PConcatSelf                         (* p += p *)
| PFillEl (b : Z) | PFillBlk (b : Z).
Definition ps_apply (o : pop) (p : pset) : pset :=
  match o with
  | PFill b => ps_fill b p
  | PCopy => ps_copy p
  | PResize c l ci => ps_resize c l ci p
  | PAugment q => snd (ps_augment q p)
  | PConcat rhs => ps_concat rhs p
  | PPlus rhs => ps_plus p rhs
  | PAugmentSelf => snd (ps_augment (cov_ (base p)) p)
  | PConcatSelf => ps_concat p p                    (* the value a temporary copy of the operand would give *)
  | PFillEl b => ps_fill_el b p
  | PFillBlk b => ps_fill_blk b p
  end.
Definition pop_defined (o : pop) (p : pset) : bool :=
  match o with
  | PAugment q => gm_augment_defined q (base p)
  | PConcat rhs => ps_concat_defined rhs p
  | PPlus rhs => ps_concat_defined rhs p
  | PAugmentSelf => gm_augment_self_defined (base p)
  | PConcatSelf => ps_concat_self_defined p
  | _ => true
  end.

Definition gm_run := run_ops gop_defined gm_apply.
Definition gauss_run := run_ops gaussop_defined gauss_apply.
Definition ps_run := run_ops pop_defined ps_apply.

(* pools of mixtures / Gaussians / particle sets.  Only particle sets have a binary operation
   (operator+, ParticleSet.cpp:78-83: the left operand is taken by value, then += the right one) *)
Definition layout := (nat * nat * nat * bool)%type.
Definition gm_fresh (f : layout) : gm := let '(c, l, ci, q) := f in gm_ctor c l ci q.
Definition gauss_fresh (f : layout) : gm := let '(_, l, ci, q) := f in gauss_ctor l ci q.
Definition ps_fresh (f : layout) : pset := let '(c, l, ci, q) := f in ps_ctor c l ci q.
Definition no_bin_def (_ _ : gm) : bool := false.
Definition no_bin (x _ : gm) : gm := x.
Definition gm_kstep := kstep gop_defined gm_apply gm_copy gm_fresh no_bin_def no_bin.
Definition gauss_kstep := kstep gaussop_defined gauss_apply gm_copy gauss_fresh no_bin_def no_bin.
Definition ps_kstep := kstep pop_defined ps_apply ps_copy ps_fresh (fun a b => ps_concat_defined b a) ps_plus.
Definition gm_krun := krun gop_defined gm_apply gm_copy gm_fresh no_bin_def no_bin.
Definition gauss_krun := krun gaussop_defined gauss_apply gm_copy gauss_fresh no_bin_def no_bin.
Definition ps_krun := krun pop_defined ps_apply ps_copy ps_fresh (fun a b => ps_concat_defined b a) ps_plus.
Definition gm_eval := eval gop_defined gm_apply gm_copy gm_fresh no_bin_def no_bin.
Definition gauss_eval := eval gaussop_defined gauss_apply gm_copy gauss_fresh no_bin_def no_bin.
Definition ps_eval := eval pop_defined ps_apply ps_copy ps_fresh (fun a b => ps_concat_defined b a) ps_plus.
(* the pool a case starts from: constructor calls only *)
Definition gm_pool0 (ls : list layout) : pool gm := map (fun f => (gm_fresh f, true)) ls.
Definition gauss_pool0 (ls : list layout) : pool gm := map (fun f => (gauss_fresh f, true)) ls.
Definition ps_pool0 (ls : list layout) : pool pset := map (fun f => (ps_fresh f, true)) ls.

(* ------------------------------------------------------------ the invariant, executable *)
Definition wfb (m : mx) : bool :=
  (length (mdata m) =? mcols m) && forallb (fun col => length col =? mrows m) (mdata m).
Definition shapeb (m : mx) (r c : nat) : bool := (mrows m =? r) && (mcols m =? c) && wfb m.
Definition gm_consistentb (g : gm) : bool :=
  (dim g =? dl g + dc g * dcc g + dn g)
  && (dcc g =? (if use_quat g then 4 else 1))
  && (dcov g =? dl g + dc g * (if use_quat g then 3 else 1) + dn g)
  && shapeb (mean_ g) (dim g) (components g)
  && shapeb (cov_ g) (dcov g) (dcov g * components g)
  && shapeb (weight_ g) (components g) 1.
Definition ps_consistentb (p : pset) : bool :=
  gm_consistentb (base p) && shapeb (state_ p) (dim (base p)) (components (base p)).

End C11.
