(* C09_Model.v — small-step model of bfl::FilteringAlgorithm (FilteringAlgorithm.cpp,
   /repo HEAD: teardown() = lock; store; notify, control flags std::atomic).

   One filtering thread (program counter [pc]) and one controller.  A thread
   move executes ONE shared-memory action of filtering_recursion(); a controller
   move executes one public member function (run/teardown: one store + notify under
   mtx_run_; reset/is_running/step_number: one atomic access) — except reboot(),
   which performs TWO stores under the mutex (reset_ = true; then run_ = false) that
   the thread can observe separately in its unlocked loop conditions: it is two
   moves (MCmd Reboot, MRebootEnd) with [c_mid] = true in between, during which the
   controller owns mtx_run_ (the thread cannot take it, run/teardown/reboot cannot
   start).  The configuration carries the event trace, NEWEST EVENT FIRST.
   ERc b records that run_condition() returned b.

   pc            code position (BFL_VERIF_POINT k / probe callback k)
   PTop          (1) before  reset_ = false
   PZero             before  filtering_step_ = 0
   PLock             before  std::unique_lock lk(mtx_run_)
   PHeld         (2) mutex held, before cv_run_.wait(lk, pred)
   PSleep            inside wait, mutex released, blocked until notified
   PRecheck          woken: mutex re-acquired, about to re-evaluate pred
   PInit         (3) mutex released, before initialization_step()
   PInitBody     (7) inside initialization_step()                 [EInit emitted on entry]
   PC1a          (9) inside run_condition() of the inner while
   PC1b              before reading teardown_ (inner while)
   PC1c              before reading reset_    (inner while)
   PStep             condition was true, before calling filtering_step()
   PStepBody     (8) inside filtering_step()                      [EStep k emitted on entry]
   PInc              before ++filtering_step_
   PAfter        (4) after the inner while
   PC2a          (9) inside run_condition() of the do-while condition
   PC2b              before reading run_      (short-circuit ||)
   PC2c              before reading reset_
   PC2d              before reading teardown_
   PFinal        (5) before run_ = false                          [EExit emitted with the store]
   PDone         (6) after it
   PExited           thread function returned (wait()/join can return)

   No proofs in this file. *)
Require Import List Bool Arith.
Import ListNotations.

Inductive pc : Set :=
  PTop | PZero | PLock | PHeld | PSleep | PRecheck | PInit | PInitBody
| PC1a | PC1b | PC1c | PStep | PStepBody | PInc | PAfter
| PC2a | PC2b | PC2c | PC2d | PFinal | PDone | PExited.

Inductive cmd : Set := Run | Reset | Reboot | Teardown | Wait | IsRunning | StepNumber.

(* EQRun b / EQStep k: is_running() returned b / step_number() returned k *)
Inductive event : Set :=
  EInit | EStep (k : nat) | EExit | ECmd (c : cmd) | EQRun (b : bool) | EQStep (k : nat) | ERc (b : bool).

Record config : Set := mk {
  c_pc : pc;
  c_run : bool; c_rst : bool; c_td : bool;   (* run_, reset_, teardown_ *)
  c_step : nat;                              (* filtering_step_ *)
  c_woken : bool;                            (* a notify reached the sleeping thread *)
  c_mid : bool;                              (* controller inside reboot(), between its two stores, holding mtx_run_ *)
  c_trace : list event                       (* newest first *)
}.

(* state right after boot(): the thread exists and has not moved *)
Definition init : config := mk PTop false false false 0 false false [].

(* thread move; [b] is the answer of run_condition() (used at PC1a / PC2a only) *)
Definition tstep (b : bool) (c : config) : option config :=
  let '(mk p r s t n w d tr) := c in
  match p with
  | PTop      => Some (mk PZero r false t n w d tr)
  | PZero     => Some (mk PLock r s t 0 w d tr)
  | PLock     => if d then None else Some (mk PHeld r s t n w d tr)
  | PHeld | PRecheck =>
      if r || t then Some (mk PInit r s t n false d tr) else Some (mk PSleep r s t n false d tr)
  | PSleep    => if w && negb d then Some (mk PRecheck r s t n false d tr) else None
  | PInit     => Some (mk PInitBody r s t n w d (EInit :: tr))
  | PInitBody => Some (mk PC1a r s t n w d tr)
  | PC1a      => Some (mk (if b then PC1b else PAfter) r s t n w d (ERc b :: tr))
  | PC1b      => Some (mk (if t then PAfter else PC1c) r s t n w d tr)
  | PC1c      => Some (mk (if s then PAfter else PStep) r s t n w d tr)
  | PStep     => Some (mk PStepBody r s t n w d (EStep n :: tr))
  | PStepBody => Some (mk PInc r s t n w d tr)
  | PInc      => Some (mk PC1a r s t (S n) w d tr)
  | PAfter    => Some (mk PC2a r s t n w d tr)
  | PC2a      => Some (mk (if b then PC2b else PFinal) r s t n w d (ERc b :: tr))
  | PC2b      => Some (mk (if r then PC2d else PC2c) r s t n w d tr)
  | PC2c      => Some (mk (if s then PC2d else PFinal) r s t n w d tr)
  | PC2d      => Some (mk (if t then PFinal else PTop) r s t n w d tr)
  | PFinal    => Some (mk PDone false s t n w d (EExit :: tr))
  | PDone     => Some (mk PExited r s t n w d tr)
  | PExited   => None
  end.

(* a spurious wake-up of the condition variable (allowed by the C++ standard) *)
Definition spurious (c : config) : option config :=
  let '(mk p r s t n w d tr) := c in
  match p with PSleep => if d then None else Some (mk PRecheck r s t n false d tr) | _ => None end.

(* the thread owns mtx_run_ exactly at PHeld and PRecheck *)
Definition mutex_free (p : pc) : bool :=
  match p with PHeld | PRecheck => false | _ => true end.

(* cv_run_.notify_one(): reaches the thread only if it is blocked in wait *)
Definition notified (p : pc) (w : bool) : bool :=
  match p with PSleep => true | _ => w end.

(* teardown() as it is now: lock_guard; teardown_ = true; notify_one *)
Definition teardown_now (c : config) : option config :=
  let '(mk p r s t n w d tr) := c in
  if mutex_free p && negb d then Some (mk p r s true n (notified p w) d (ECmd Teardown :: tr)) else None.

(* controller move; the teardown action is a parameter so that the regression
   file can instantiate the pre-fix transcription without touching this one.
   Reboot is the first half of reboot(): lock_guard; reset_ = true *)
Definition cstep (tdn : config -> option config) (k : cmd) (c : config) : option config :=
  let '(mk p r s t n w d tr) := c in
  match k with
  | Run        => if mutex_free p && negb d then Some (mk p true s t n (notified p w) d (ECmd Run :: tr)) else None
  | Reboot     => if mutex_free p && negb d then Some (mk p r true t n w true (ECmd Reboot :: tr)) else None
  | Reset      => Some (mk p r true t n w d (ECmd Reset :: tr))
  | Teardown   => tdn c
  | Wait       => match p with PExited => Some (mk p r s t n w d (ECmd Wait :: tr)) | _ => None end
  | IsRunning  => Some (mk p r s t n w d (EQRun r :: tr))
  | StepNumber => Some (mk p r s t n w d (EQStep n :: tr))
  end.

(* second half of reboot(): run_ = false; notify_one; unlock *)
Definition reboot_end (c : config) : option config :=
  let '(mk p r s t n w d tr) := c in
  if d then Some (mk p false s t n (notified p w) false tr) else None.

Inductive move : Set := MThread (b : bool) | MSpurious | MCmd (k : cmd) | MRebootEnd.

Definition step_with (tdn : config -> option config) (c : config) (m : move) : option config :=
  match m with
  | MThread b => tstep b c
  | MSpurious => spurious c
  | MCmd k    => cstep tdn k c
  | MRebootEnd => reboot_end c
  end.

(* THE model of the code as it is now *)
Definition step : config -> move -> option config := step_with teardown_now.

(* all interleavings, all command sequences, any length, any run_condition answers *)
Inductive reachable_with (tdn : config -> option config) : config -> Prop :=
| R_init : reachable_with tdn init
| R_step : forall c m c', reachable_with tdn c -> step_with tdn c m = Some c' -> reachable_with tdn c'.

Definition reachable : config -> Prop := reachable_with teardown_now.

(* ------------------------------------------------------------------ *)
(* The same semantics once more, as a relation with one rule per action of the
   code (for reading against FilteringAlgorithm.cpp).  C09_Proofs.sstep_iff_step
   proves  sstep c m c' <-> step c m = Some c'; all theorems are stated on [step]. *)
Inductive sstep : config -> move -> config -> Prop :=
(* do { reset_ = false; *)
| S_top b r s t n w d tr :
    sstep (mk PTop r s t n w d tr) (MThread b) (mk PZero r false t n w d tr)
(* filtering_step_ = 0; *)
| S_zero b r s t n w d tr :
    sstep (mk PZero r s t n w d tr) (MThread b) (mk PLock r s t 0 w d tr)
(* std::unique_lock lk(mtx_run_);  -- blocks while the controller is inside reboot() *)
| S_lock b r s t n w tr :
    sstep (mk PLock r s t n w false tr) (MThread b) (mk PHeld r s t n w false tr)
(* cv_run_.wait(lk, pred): predicate true -> lk.unlock() *)
| S_pass b p r s t n w d tr : p = PHeld \/ p = PRecheck -> r || t = true ->
    sstep (mk p r s t n w d tr) (MThread b) (mk PInit r s t n false d tr)
(* predicate false -> release the mutex and block *)
| S_block b p r s t n w d tr : p = PHeld \/ p = PRecheck -> r || t = false ->
    sstep (mk p r s t n w d tr) (MThread b) (mk PSleep r s t n false d tr)
(* notified: re-acquire the mutex *)
| S_wake b r s t n tr :
    sstep (mk PSleep r s t n true false tr) (MThread b) (mk PRecheck r s t n false false tr)
| S_spurious r s t n w tr :
    sstep (mk PSleep r s t n w false tr) MSpurious (mk PRecheck r s t n false false tr)
(* initialization_step(); *)
| S_init b r s t n w d tr :
    sstep (mk PInit r s t n w d tr) (MThread b) (mk PInitBody r s t n w d (EInit :: tr))
| S_init_ret b r s t n w d tr :
    sstep (mk PInitBody r s t n w d tr) (MThread b) (mk PC1a r s t n w d tr)
(* while (run_condition() && !teardown_ && !reset_) *)
| S_rc1 b r s t n w d tr :
    sstep (mk PC1a r s t n w d tr) (MThread b) (mk (if b then PC1b else PAfter) r s t n w d (ERc b :: tr))
| S_td1 b r s t n w d tr :
    sstep (mk PC1b r s t n w d tr) (MThread b) (mk (if t then PAfter else PC1c) r s t n w d tr)
| S_rs1 b r s t n w d tr :
    sstep (mk PC1c r s t n w d tr) (MThread b) (mk (if s then PAfter else PStep) r s t n w d tr)
(* { filtering_step(); ++filtering_step_; } *)
| S_step b r s t n w d tr :
    sstep (mk PStep r s t n w d tr) (MThread b) (mk PStepBody r s t n w d (EStep n :: tr))
| S_step_ret b r s t n w d tr :
    sstep (mk PStepBody r s t n w d tr) (MThread b) (mk PInc r s t n w d tr)
| S_inc b r s t n w d tr :
    sstep (mk PInc r s t n w d tr) (MThread b) (mk PC1a r s t (S n) w d tr)
(* } while (run_condition() && (run_ || reset_) && !teardown_); *)
| S_after b r s t n w d tr :
    sstep (mk PAfter r s t n w d tr) (MThread b) (mk PC2a r s t n w d tr)
| S_rc2 b r s t n w d tr :
    sstep (mk PC2a r s t n w d tr) (MThread b) (mk (if b then PC2b else PFinal) r s t n w d (ERc b :: tr))
| S_run2 b r s t n w d tr :
    sstep (mk PC2b r s t n w d tr) (MThread b) (mk (if r then PC2d else PC2c) r s t n w d tr)
| S_rs2 b r s t n w d tr :
    sstep (mk PC2c r s t n w d tr) (MThread b) (mk (if s then PC2d else PFinal) r s t n w d tr)
| S_td2 b r s t n w d tr :
    sstep (mk PC2d r s t n w d tr) (MThread b) (mk (if t then PFinal else PTop) r s t n w d tr)
(* run_ = false; *)
| S_final b r s t n w d tr :
    sstep (mk PFinal r s t n w d tr) (MThread b) (mk PDone false s t n w d (EExit :: tr))
| S_return b r s t n w d tr :
    sstep (mk PDone r s t n w d tr) (MThread b) (mk PExited r s t n w d tr)
(* run(): lock_guard; run_ = true; notify_one *)
| C_run p r s t n w tr : mutex_free p = true ->
    sstep (mk p r s t n w false tr) (MCmd Run) (mk p true s t n (notified p w) false (ECmd Run :: tr))
(* reboot(): lock_guard; reset_ = true; ... *)
| C_reboot p r s t n w tr : mutex_free p = true ->
    sstep (mk p r s t n w false tr) (MCmd Reboot) (mk p r true t n w true (ECmd Reboot :: tr))
(* ... run_ = false; notify_one *)
| C_reboot_end p r s t n w tr :
    sstep (mk p r s t n w true tr) MRebootEnd (mk p false s t n (notified p w) false tr)
(* reset(): reset_ = true *)
| C_reset p r s t n w d tr :
    sstep (mk p r s t n w d tr) (MCmd Reset) (mk p r true t n w d (ECmd Reset :: tr))
(* teardown(): lock_guard; teardown_ = true; notify_one *)
| C_teardown p r s t n w tr : mutex_free p = true ->
    sstep (mk p r s t n w false tr) (MCmd Teardown) (mk p r s true n (notified p w) false (ECmd Teardown :: tr))
(* wait(): join *)
| C_wait r s t n w d tr :
    sstep (mk PExited r s t n w d tr) (MCmd Wait) (mk PExited r s t n w d (ECmd Wait :: tr))
| C_is_running p r s t n w d tr :
    sstep (mk p r s t n w d tr) (MCmd IsRunning) (mk p r s t n w d (EQRun r :: tr))
| C_step_number p r s t n w d tr :
    sstep (mk p r s t n w d tr) (MCmd StepNumber) (mk p r s t n w d (EQStep n :: tr)).

Inductive reachable_rel : config -> Prop :=
| RR_init : reachable_rel init
| RR_step c m c' : reachable_rel c -> sstep c m c' -> reachable_rel c'.

Fixpoint run_moves (c : config) (ms : list move) : option config :=
  match ms with
  | [] => Some c
  | m :: ms' => match step c m with Some c' => run_moves c' ms' | None => None end
  end.

(* ------------------------------------------------------------------ *)
(* Trace monitors (all over newest-first traces; boolean, extracted and
   also run on the implementation's traces).                           *)

Definition is_thread_event (e : event) : bool :=
  match e with EInit | EStep _ | EExit => true | _ => false end.

(* most recent thread event *)
Fixpoint last_thr (tr : list event) : option event :=
  match tr with
  | [] => None
  | EInit :: _ => Some EInit
  | EStep k :: _ => Some (EStep k)
  | EExit :: _ => Some EExit
  | _ :: t => last_thr t
  end.

Fixpoint runreq (tr : list event) : bool :=
  match tr with [] => false | ECmd Run :: _ => true | _ :: t => runreq t end.

(* Some n: a reset/reboot is pending (no EInit/EExit since) and n steps were emitted since the oldest pending one *)
Fixpoint pend (tr : list event) : option nat :=
  match tr with
  | [] => None
  | EInit :: _ | EExit :: _ => None
  | EStep _ :: t => option_map S (pend t)
  | ECmd Reset :: t | ECmd Reboot :: t => match pend t with None => Some 0 | s => s end
  | _ :: t => pend t
  end.

(* Some n: reboot requested, no run/teardown requested since, n initialisations+steps emitted since *)
Fixpoint rbm (tr : list event) : option nat :=
  match tr with
  | [] => None
  | ECmd Run :: _ | ECmd Teardown :: _ => None
  | ECmd Reboot :: t => match rbm t with None => Some 0 | s => s end
  | EInit :: t | EStep _ :: t => option_map S (rbm t)
  | _ :: t => rbm t
  end.

(* Some n: teardown requested, n initialisations+steps emitted since the first request *)
Fixpoint tdm (tr : list event) : option nat :=
  match tr with
  | [] => None
  | ECmd Teardown :: t => match tdm t with None => Some 0 | s => s end
  | EInit :: t | EStep _ :: t => option_map S (tdm t)
  | _ :: t => tdm t
  end.

(* None: thread has not made its final store; Some b: it has, and b = run was requested after it *)
Fixpoint rae (tr : list event) : option bool :=
  match tr with
  | [] => None
  | EExit :: _ => Some false
  | ECmd Run :: t => option_map (fun _ => true) (rae t)
  | _ :: t => rae t
  end.

(* most recent answer of run_condition() *)
Fixpoint last_rc (tr : list event) : option bool :=
  match tr with [] => None | ERc b :: _ => Some b | _ :: t => last_rc t end.

Definition exit_cause (tr : list event) : bool :=
  match tdm tr with Some _ => true | None => match last_rc tr with Some false => true | _ => false end end.

(* most recent initialisation or step (the thread's exit does not touch the counter) *)
Fixpoint last_is (tr : list event) : option event :=
  match tr with
  | [] => None
  | EInit :: _ => Some EInit
  | EStep k :: _ => Some (EStep k)
  | _ :: t => last_is t
  end.

(* admissible answers of step_number(): 0 (counter zeroed at the loop top / nothing stepped yet),
   the number of the last started step (its increment still in flight) or that number + 1 *)
Definition qstep_ok (k : nat) (t : list event) : bool :=
  match last_is t with
  | Some (EStep j) => Nat.eqb k 0 || Nat.eqb k j || Nat.eqb k (S j)
  | _ => Nat.eqb k 0
  end.

(* is_running() may answer false only if run was never requested or a reboot / the final store came after the last run *)
Fixpoint can_be_false (tr : list event) : bool :=
  match tr with
  | [] => true
  | ECmd Run :: _ => false
  | ECmd Reboot :: _ => true
  | EExit :: _ => true
  | _ :: t => can_be_false t
  end.

Definition le1 (o : option nat) : bool :=
  match o with Some (S (S _)) => false | _ => true end.

Definition ev_eqb (a b : event) : bool :=
  match a, b with
  | EInit, EInit | EExit, EExit => true
  | EStep i, EStep j => Nat.eqb i j
  | _, _ => false
  end.

Definition opt_is (o : option event) (e : event) : bool :=
  match o with Some x => ev_eqb x e | None => false end.

Definition is_init_or_step (o : option event) : bool :=
  match o with Some EInit | Some (EStep _) => true | _ => false end.

(* condition on the newest event [e] given the older trace [t] *)
Definition head_ok (e : event) (t : list event) : bool :=
  match e with
  | EInit => negb (opt_is (last_thr t) EExit)
  | EStep 0 => opt_is (last_thr t) EInit && runreq t
  | EStep (S k) => opt_is (last_thr t) (EStep k) && runreq t
  | EExit => is_init_or_step (last_thr t) && exit_cause t
  | EQRun true => runreq t && match rae t with Some false => false | _ => true end
  | EQRun false => can_be_false t
  | EQStep k => qstep_ok k t
  | _ => true
  end.

Definition good (tr : list event) : bool :=
  le1 (pend tr) && le1 (rbm tr) && le1 (tdm tr)
  && match tr with [] => true | e :: t => head_ok e t end.

(* every prefix of the history (= every suffix of the newest-first trace) is good *)
Fixpoint all_good (tr : list event) : bool :=
  good tr && match tr with [] => true | _ :: t => all_good t end.

(* ------------------------------------------------------------------ *)
(* Schedule words of the correspondence check (harness protocol).      *)

Inductive token : Set :=
  TT | TF                      (* thread: run to the next schedule point; run_condition answers true / false *)
| KCmd (k : cmd).

(* schedule points at which the harness can park the thread (or sees it asleep / gone) *)
Definition observable (p : pc) : bool :=
  match p with
  | PTop | PHeld | PSleep | PInit | PInitBody | PC1a | PStepBody | PAfter | PC2a | PFinal | PDone | PExited => true
  | _ => false
  end.

(* silent thread moves up to the next schedule point *)
Fixpoint settle (fuel : nat) (c : config) : config :=
  match fuel with
  | 0 => c
  | S f => if observable (c_pc c) then c
           else match step c (MThread false) with Some c' => settle f c' | None => c end
  end.

Definition thread_token (b : bool) (c : config) : config :=
  match step c (MThread b) with Some c' => settle 8 c' | None => c end.

(* a notify that reaches the sleeping thread is followed at once by its wake-up
   (the harness cannot hold a woken thread inside libstdc++) *)
Definition wake (c : config) : config :=
  match c_pc c with
  | PSleep => if c_woken c then thread_token false c else c
  | _ => c
  end.

(* reboot() is one call for the harness: both halves are executed back to back.
   A token that is not enabled (thread asleep / gone; mutex command while the
   thread holds the mutex at point 2; wait before exit) is skipped *)
Definition complete_reboot (c : config) : config :=
  if c_mid c then match step c MRebootEnd with Some c' => c' | None => c end else c.

Definition do_token (c : config) (t : token) : config :=
  match t with
  | TT => thread_token true c
  | TF => thread_token false c
  | KCmd k =>
      match step c (MCmd k) with
      | Some c' => wake (complete_reboot c')
      | None => c
      end
  end.

Definition run_word (c : config) (w : list token) : config := fold_left do_token w c.

Fixpoint free_run (fuel : nat) (c : config) : config :=
  match fuel with
  | 0 => c
  | S f => match step c (MThread true) with Some c' => free_run f c' | None => c end
  end.

(* end of a word: (leave point 2), teardown, thread runs freely with
   run_condition = true, wait *)
Definition finish (c : config) : config :=
  let c1 := match c_pc c with PHeld => thread_token true c | _ => c end in
  let c2 := match c_pc c1 with PExited => c1 | _ => do_token c1 (KCmd Teardown) end in
  let c3 := free_run 40 c2 in
  do_token c3 (KCmd Wait).

Definition history (c : config) : list event := rev (c_trace c).
