(* C05_Model.v — model of SUKFCorrection (serial unscented correction) and of the
   additive branch of UKFCorrection, polymorphic in the arithmetic.
     sigma_point::unscented_weights             sigma_point.cpp:52-82
     sigma_point::sigma_point (linear layout)   sigma_point.cpp:85-130
     SUKFCorrection::correctStep                SUKFCorrection.cpp:76-193
     SUKFCorrection::getNoiseCovarianceMatrix   SUKFCorrection.cpp:193-203
     SUKFCorrection::getLikelihood              SUKFCorrection.cpp:48-74
     utils::multivariate_gaussian_log_density_UVR as called there (one input
       column, mean 0, U = Y, V = Y^T, R = the blocks side by side)   utils.h:330-406
     UKFCorrection::correctStep (Additive) + unscented_transform(.., AdditiveMeasurementModel&)
                                                UKFCorrection.cpp:86-167, sigma_point.cpp:133-215, 300-330
   Scope: LINEAR or EULER state layouts (nl linear rows followed by n - nl angles, no
   quaternion, no noise block), i.e. state.dim = state.dim_covariance = n, and LINEAR or
   EULER measurement layouts (ml linear rows followed by m - ml angles): both corrections
   average the angle rows of the propagated sigma points with directional_mean and take
   their offsets with directional_sub (SUKFCorrection since the fix "treats circular
   measurement components on the circle"; before it the SUKF ignored the circular part).  SUKFCorrection sizes its sigma set from
   pred_state.dim (size_sigmas = 2*dim + 1) while sigma_point() produces
   2*dim_covariance + 1 columns per component; the two agree exactly on this scope.
   The number of sigma points is written  nsig n = 1 + (n + n)  so that the three
   column groups [mean | +sqrt(c) A | -sqrt(c) A] are an mhcat.
   The measurement function h is an arbitrary function on columns (the harness'
   AdditiveMeasurementModel applies it column by column); the innovation is the
   standard additive one, y - predicted mean.
   Statelessness: one correct() call is modelled as a pure function of that call's inputs
   (what the measurement model returns NOW, the belief passed NOW); nothing computed at an
   earlier call of the same object is an input.  The correspondence check drives one object
   through several calls with changing R / y / h / belief / sizes to tie this to the code.
   Object lifetime: the model has no object at all, so "for every SUKFCorrection / UKFCorrection
   object" is read over every way the API lets one obtain it: the constructors, the hand-written
   noexcept move constructors SUKFCorrection(SUKFCorrection&&) / UKFCorrection(UKFCorrection&&)
   (copying is deleted in GaussianCorrection and there is no move assignment), hence also the
   relocation of the elements of a growing std::vector.  In the library as it is, the members a
   correct() call reads (the measurement model, ut_weight_, measurement_sub_size_, the
   reduced-covariance flag; for the UKF also the type tag and alpha/beta/kappa) are all carried by
   the move constructors, so a moved object computes the same function as the one it was moved
   from and nothing is added to the model: the inputs of the model functions below are exactly
   these members plus the arguments of the call.  The correspondence check obtains its subjects
   fresh / move-constructed / move-constructed after use / through vector growth (case meta
   `lifetime`).  What a move does NOT carry (propagated_sigma_points_, innovations_: the last
   step's likelihood; the skip flag of the GaussianCorrection base) is outside this model: it is
   overwritten by the next correct() call, which is what the property speaks about.
   Callback re-entrancy: likewise the model functions are pure, so a complete correction of another
   object running inside a callback of the measurement model cannot change the result; the check
   runs twin objects inside every callback for a fraction of the cases (case meta `intrude`).
   No proofs in this file. *)
Require Import ZArith List.
Require Import BFL.Ops BFL.Density.
Import ListNotations.

Section SUKF.
Variable O : MatOps.
Notation Sc := (sc O).

(* ---- unscented weights -------------------------------------------------- *)
Record utw := mkUtw { wm0 : T Sc; wmi : T Sc; wc0 : T Sc; wci : T Sc; utc : T Sc }.

(* lambda = pow(alpha,2) * (n + kappa) - n;
   weight_mean(0) = lambda / (n + lambda);  weight_covariance(0) = lambda / (n + lambda) + (1 - pow(alpha,2) + beta);
   weight_mean(j) = weight_covariance(j) = 1 / (2 * (n + lambda));  c = n + lambda *)
Definition ut_weights (n : nat) (alpha beta kappa : T Sc) : utw :=
  let nn := sofnat Sc n in
  let a2 := smul Sc alpha alpha in
  let lambda := ssub Sc (smul Sc a2 (sadd Sc nn kappa)) nn in
  let w0 := sdiv Sc lambda (sadd Sc nn lambda) in
  let wi := sdiv Sc (s1 Sc) (smul Sc (s2 Sc) (sadd Sc nn lambda)) in
  mkUtw w0 wi (sadd Sc w0 (sadd Sc (ssub Sc (s1 Sc) a2) beta)) wi (sadd Sc nn lambda).

Definition nsig (n : nat) : nat := 1 + (n + n).

Definition wm_at (w : utw) (j : nat) : T Sc := if Nat.eqb j 0 then wm0 w else wmi w.
Definition wc_at (w : utw) (j : nat) : T Sc := if Nat.eqb j 0 then wc0 w else wci w.
(* ut_weight_.mean as a column *)
Definition wmean_col (L : nat) (w : utw) : M O L 1 := mbuild L 1 (fun j _ => wm_at w j).
(* ut_weight_.covariance.asDiagonal() *)
Definition wcov_diag (L : nat) (w : utw) : M O L L := mdiag_of O L (wc_at w).
(* ut_weight_.covariance.array().sqrt().matrix().asDiagonal()  (a negative weight gives NaN) *)
Definition sqrt_wcov_diag (L : nat) (w : utw) : M O L L :=
  mdiag_of O L (fun j => ssqrt Sc (wc_at w j)).

(* ---- sigma points (linear layout) --------------------------------------- *)
Definition mcolwise_add {r c} (X : M O r c) (v : M O r 1) : M O r c :=
  mbuild r c (fun i j => sadd Sc (mget X i j) (mget v i 0)).
Definition mcolwise_sub {r c} (X : M O r c) (v : M O r 1) : M O r c :=
  mbuild r c (fun i j => ssub Sc (mget X i j) (mget v i 0)).

(* A = svd.matrixU() * svd.singularValues().cwiseSqrt().asDiagonal()  -- oracle msqrt;
   perturbations << 0, sqrt(c) * A, -sqrt(c) * A *)
Definition perturbations (n : nat) (c : T Sc) (P : M O n n) : M O n (nsig n) :=
  let A := msqrt P in
  let rc := ssqrt Sc c in
  mhcat (mzero n 1) (mhcat (mscale rc A) (mscale (sopp Sc rc) A)).
(* Euler layout of the state: rows [0, nl) linear, rows [nl, n) circular (angles).
   directional_add(a, b) = arg(exp(j (a.colwise() + b))),  directional_sub(a, b) = directional_add(a, -b)
   (directional_statistics.cpp:17-29);  arg(exp(j t)) = atan2(sin t, cos t). *)
Definition wrap (t : T Sc) : T Sc := satan2 Sc (ssin Sc t) (scos Sc t).
Definition lay_add {r c} (nl : nat) (X : M O r c) (v : M O r 1) : M O r c :=
  mbuild r c (fun i j => if Nat.ltb i nl then sadd Sc (mget X i j) (mget v i 0)
                         else wrap (sadd Sc (mget X i j) (mget v i 0))).
Definition lay_sub {r c} (nl : nat) (X : M O r c) (v : M O r 1) : M O r c :=
  mbuild r c (fun i j => if Nat.ltb i nl then ssub Sc (mget X i j) (mget v i 0)
                         else wrap (sadd Sc (mget X i j) (sopp Sc (mget v i 0)))).

(* weighted mean of the columns of Ys under a layout with ml leading linear rows:
   rows [0, ml): Ys * w;  rows [ml, r): directional_mean(Ys.bottomRows, w) = arg(sum_k w_k exp(j a_ik))
   = atan2(sum_k w_k sin a_ik, sum_k w_k cos a_ik)   (directional_statistics.cpp:32-44; the
   single-column branch is never taken: there are 2n+1 >= 3 sigma points) *)
Definition lay_mean {r c} (ml : nat) (Ys : M O r c) (w : M O c 1) : M O r 1 :=
  let lin := mmul Ys w in
  let sn := mmul (mbuild r c (fun i j => ssin Sc (mget Ys i j))) w in
  let cs := mmul (mbuild r c (fun i j => scos Sc (mget Ys i j))) w in
  mbuild r 1 (fun i _ => if Nat.ltb i ml then mget lin i 0
                         else satan2 Sc (mget sn i 0) (mget cs i 0)).

(* sp.topRows(dim_linear) = perturbations.topRows(dim_linear).colwise() + mean.topRows(dim_linear);
   sp.middleRows(dim_linear, dim_circular) = directional_add(perturbations..., mean...) *)
Definition sigma_points (n nl : nat) (c : T Sc) (x : M O n 1) (P : M O n n) : M O n (nsig n) :=
  lay_add nl (perturbations n c P) x.

(* predictedMeasure on the sigma points: h column by column *)
Definition propagate {n m L} (h : M O n 1 -> M O m 1) (SP : M O n L) : M O m L :=
  mbuild m L (fun i j => mget (h (mcol j SP)) i 0).

(* ---- noise covariance as handed to the SUKF ------------------------------ *)
(* use_reduced_noise_covariance_matrix_ = true : the model returns one s x s block;
   false: the model returns the complete m x m matrix *)
Inductive noise (s m : nat) : Type :=
| NoiseReduced (R : M O s s)
| NoiseFull (R : M O m m).
Arguments NoiseReduced {s m}. Arguments NoiseFull {s m}.

(* SUKFCorrection::getNoiseCovarianceMatrix(index) *)
Definition noise_block {s m} (nz : noise s m) (j : nat) : M O s s :=
  match nz with
  | NoiseReduced R => R
  | NoiseFull R => mslice (s * j) (s * j) s s R
  end.

(* ---- serial accumulation, SUKFCorrection.cpp:160-171 --------------------- *)
Definition sukf_accum_step {s m L} (Y : M O m L) (nu : M O m 1) (nz : noise s m)
           (acc : M O L L * M O L 1) (j : nat) : M O L L * M O L 1 :=
  let Yj := mslice (s * j) 0 s L Y in
  let tmp := mmul (mtr Yj) (minv (noise_block nz j)) in
  (madd (fst acc) (mmul tmp Yj), madd (snd acc) (mmul tmp (mslice (s * j) 0 s 1 nu))).

Definition sukf_accum {s m L} (Y : M O m L) (nu : M O m 1) (nz : noise s m)
  : M O L L * M O L 1 :=
  fold_left (sukf_accum_step Y nu nz) (seq 0 (m / s)) (mid L, mzero L 1).

(* ---- one mixture component ------------------------------------------------ *)
Record sukf_out (n m : nat) := mkSukfOut {
  so_mean : M O n 1;                 (* corr_state.mean(i) *)
  so_cov : M O n n;                  (* corr_state.covariance(i) *)
  so_innov : M O m 1;                (* innovations_.col(i) *)
  so_Y : M O m (nsig n)              (* propagated_sigma_points_ block i after the step *)
}.
Arguments mkSukfOut {n m}. Arguments so_mean {n m}. Arguments so_cov {n m}.
Arguments so_innov {n m}. Arguments so_Y {n m}.

(* nl: leading linear rows of the state; ml: leading linear rows of the measurement description
   (the other m - ml rows are angles: directional_mean / directional_sub, SUKFCorrection.cpp:124-126,157-160) *)
Definition sukf_correct_comp_lay {n m s} (nl ml : nat) (w : utw) (h : M O n 1 -> M O m 1) (y : M O m 1)
           (nz : noise s m) (x : M O n 1) (P : M O n n) : sukf_out n m :=
  let L := nsig n in
  let SP := sigma_points n nl (utc w) x P in
  let Yraw := propagate h SP in
  let ybar := lay_mean ml Yraw (wmean_col L w) in
  let nu := msub y ybar in
  let D := sqrt_wcov_diag L w in
  let Y := mmul (lay_sub ml Yraw ybar) D in
  let acc := sukf_accum Y nu nz in
  (* X.topRows(dim_linear).colwise() -= mean; X.bottomRows(dim_circular) = directional_sub(X.bottomRows, mean) *)
  let X := mmul (lay_sub nl SP x) D in
  let C := minv (fst acc) in
  mkSukfOut (madd x (mmul (mmul X C) (snd acc)))
            (mmul (mmul X C) (mtr X))
            nu Y.

(* a LINEAR measurement description (all m rows linear).  This is also what SUKFCorrection
   computed for ANY description before the fix "SUKFCorrection treats circular measurement
   components on the circle": it ignored the circular part.  Kept under this name as the
   regression spec (Properties_C05.C05_ignoring_circular_measurement_refuted) and because
   C08_Model builds its wrapped steps from it. *)
Definition sukf_correct_comp {n m s} (nl : nat) (w : utw) (h : M O n 1 -> M O m 1) (y : M O m 1)
           (nz : noise s m) (x : M O n 1) (P : M O n n) : sukf_out n m :=
  sukf_correct_comp_lay nl m w h y nz x P.

(* ---- the mixture and the step -------------------------------------------- *)
Record mixture (n : nat) := mkMix {
  mix_comps : list (M O n 1 * M O n n);
  mix_weights : list (T Sc)
}.
Arguments mkMix {n}. Arguments mix_comps {n}. Arguments mix_weights {n}.

(* innovations_ (with the matching blocks of propagated_sigma_points_): None = empty.
   correctStep starts with innovations_.resize(0, 0) (SUKFCorrection.cpp:79-80), so the
   member state left by an earlier step cannot influence the result: after an early
   return getLikelihood() reports (false, -) whatever happened before
   (propagated_sigma_points_ may be stale, but getLikelihood() tests innovations_ first). *)
Definition members (n m : nat) := option (list (sukf_out n m)).

(* correctStep with a valid measurement, valid prediction, valid innovation.
   corr_prev is the previous content of the output object (its weights are kept
   when the step goes through; on a size mismatch corr_state = pred_state).
   Precondition of the constructor: 0 < s (meas_size % 0 is undefined in C++). *)
Definition overwrite_prefix {A} (new old : list A) : list A := new ++ skipn (length new) old.

Definition sukf_correct {n m s} (nl ml : nat) (w : utw) (h : M O n 1 -> M O m 1) (y : M O m 1)
           (nz : noise s m) (pred corr_prev : mixture n)
  : mixture n * members n m :=
  if Nat.eqb (m mod s) 0 then
    let outs := map (fun c => sukf_correct_comp_lay nl ml w h y nz (fst c) (snd c)) (mix_comps pred) in
    (* corr_state.mean(i) / covariance(i) are written for i < pred_state.components only: an output
       object with MORE components keeps its other components (one with fewer is written out of
       bounds: an Eigen assertion, undefined behaviour with NDEBUG -- outside the model) *)
    (mkMix (overwrite_prefix (map (fun o => (so_mean o, so_cov o)) outs) (mix_comps corr_prev))
           (mix_weights corr_prev), Some outs)
  else (pred, None).

(* ---- likelihood: the UVR density as getLikelihood() calls it -------------- *)
Fixpoint spow (x : T Sc) (k : nat) : T Sc :=
  match k with 0 => s1 Sc | Datatypes.S k' => smul Sc x (spow x k') end.

(* MatrixXd R(sub, rows); R.middleCols(i * sub, sub) = getNoiseCovarianceMatrix(i), i < rows / sub *)
Definition lik_Rcat {s m} (nz : noise s m) : M O s m :=
  let blocks := map (noise_block nz) (seq 0 (m / s)) in
  mbuild s m (fun i j => mget (nth (j / s) blocks (mzero s s)) i (j mod s)).

(* - 0.5 * (rows * log(2 pi) + log(det_S) + weighted_diff) *)
Definition gauss_log_value (d : nat) (det q : T Sc) : T Sc :=
  smul Sc (sopp Sc (shalf Sc))
       (sadd Sc (sadd Sc (smul Sc (sofnat Sc d) (sln Sc (smul Sc (s2 Sc) (spi Sc))))
                         (sln Sc det))
               q).

(* multivariate_gaussian_log_density_UVR(input, mean, U, V, R).coeff(0) for a single
   input column; block_size = R.rows() = s, num_blocks = input_size / block_size.
   The block products that the code stores side by side (inv_R, V_inv_R,
   diff_T_inv_R) are kept as lists of blocks and read back at column j from
   block j / s, column j mod s. *)
Definition uvr_terms {s m L} (input mean : M O m 1) (U : M O m L) (V : M O L m)
           (R : M O s m) : T Sc * T Sc :=
  let nb := m / s in
  let diff := mcolwise_sub input mean in
  let shared := Nat.eqb m s in                      (* R.cols() == block_size *)
  let Rblk := fun i => mslice 0 (s * i) s s R in
  let inv_R := if shared then let single := minv (Rblk 0) in map (fun _ => single) (seq 0 nb)
               else map (fun i => minv (Rblk i)) (seq 0 nb) in
  let iR := fun i => nth i inv_R (mzero s s) in
  let V_inv_R_blocks := map (fun i => mmul (mslice 0 (i * s) L s V) (iR i)) (seq 0 (m / s)) in
  let V_inv_R : M O L m :=
    mbuild L m (fun a b => mget (nth (b / s) V_inv_R_blocks (mzero L s)) a (b mod s)) in
  let dT_inv_R_blocks := map (fun i => mmul (mtr (mslice (i * s) 0 s 1 diff)) (iR i)) (seq 0 nb) in
  let diff_T_inv_R : M O 1 m :=
    mbuild 1 m (fun a b => mget (nth (b / s) dT_inv_R_blocks (mzero 1 s)) a (b mod s)) in
  let IVRU := madd (mid L) (mmul V_inv_R U) in
  let wd := mget (mmul (mmul diff_T_inv_R
                              (msub (mid m) (mmul (mmul U (minv IVRU)) V_inv_R)))
                       diff) 0 0 in
  let det_R := if shared then spow (mdet (Rblk 0)) nb
               else fold_left (fun acc i => smul Sc acc (mdet (Rblk i))) (seq 0 nb) (s1 Sc) in
  let det_S := smul Sc det_R (mdet IVRU) in
  (det_S, wd).           (* det_S: the argument of std::log; wd: weighted_diffs(0) *)

Definition uvr_log_density {s m L} (input mean : M O m 1) (U : M O m L) (V : M O L m)
           (R : M O s m) : T Sc :=
  let t := uvr_terms input mean U V R in gauss_log_value m (fst t) (snd t).

(* likelihood(i) = multivariate_gaussian_density_UVR(innovations_.col(i), 0, Y, Y^T, R).coeff(0) *)
Definition sukf_likelihood_comp {n m s} (nz : noise s m) (o : sukf_out n m) : T Sc :=
  sexp Sc (uvr_log_density (so_innov o) (mzero m 1) (so_Y o) (mtr (so_Y o)) (lik_Rcat nz)).

(* getLikelihood(): (false, -) while innovations_ is empty *)
Definition sukf_likelihood {n m s} (nz : noise s m) (mb : members n m) : option (list (T Sc)) :=
  match mb with
  | None => None
  | Some outs => Some (map (sukf_likelihood_comp nz) outs)
  end.

(* ---- spec: the standard additive unscented correction --------------------- *)
Record ukf_out (n m : nat) := mkUkfOut {
  uo_mean : M O n 1; uo_cov : M O n n; uo_innov : M O m 1; uo_Pyy : M O m m
}.
Arguments mkUkfOut {n m}. Arguments uo_mean {n m}. Arguments uo_cov {n m}.
Arguments uo_innov {n m}. Arguments uo_Pyy {n m}.

(* unscented_transform(pred_state, weight, additive model) followed by the gain update *)
Definition ukf_correct_comp_lay {n m} (nl ml : nat) (w : utw) (h : M O n 1 -> M O m 1) (y : M O m 1)
           (R : M O m m) (x : M O n 1) (P : M O n n) : ukf_out n m :=
  let L := nsig n in
  let SP := sigma_points n nl (utc w) x P in
  let Yraw := propagate h SP in
  let ybar := lay_mean ml Yraw (wmean_col L w) in      (* output.mean: linear rows Y w, angles directional_mean *)
  let off := lay_sub ml Yraw ybar in                   (* offsets_from_mean: plain / directional_sub *)
  let W := wcov_diag L w in
  let Pyy := madd (mmul (mmul off W) (mtr off)) R in
  let inoff := lay_sub nl SP x in
  let Pxy := mmul (mmul inoff W) (mtr off) in
  let nu := msub y ybar in
  let K := mmul Pxy (minv Pyy) in
  mkUkfOut (madd x (mmul K nu)) (msub P (mmul (mmul K Pyy) (mtr K))) nu Pyy.

(* linear measurement description *)
Definition ukf_correct_comp {n m} (nl : nat) (w : utw) (h : M O n 1 -> M O m 1) (y : M O m 1)
           (R : M O m m) (x : M O n 1) (P : M O n n) : ukf_out n m :=
  ukf_correct_comp_lay nl m w h y R x P.

(* UKFCorrection::getLikelihood, entry i *)
Definition ukf_likelihood_comp {n m} (o : ukf_out n m) : T Sc :=
  density (uo_innov o) (mzero m 1) (uo_Pyy o).

Definition ukf_correct {n m} (nl ml : nat) (w : utw) (h : M O n 1 -> M O m 1) (y : M O m 1) (R : M O m m)
           (pred corr_prev : mixture n) : mixture n * list (ukf_out n m) :=
  let outs := map (fun c => ukf_correct_comp_lay nl ml w h y R (fst c) (snd c)) (mix_comps pred) in
  (mkMix (overwrite_prefix (map (fun o => (uo_mean o, uo_cov o)) outs) (mix_comps corr_prev))
         (mix_weights corr_prev), outs).

(* ---- the harness' family of measurement functions ------------------------- *)
(* kind 0: h(x) = H x + b
   kind 1: h(x)_i = (H x + b)_i + g_i * sin((G x)_i)
   kind 2: h(x)_i = (H x + b)_i + g_i * (G x)_i * (G2 x)_i          (products) *)
Definition h_family {n m} (kind : nat) (H G G2 : M O m n) (b g : M O m 1) (x : M O n 1) : M O m 1 :=
  let lin := madd (mmul H x) b in
  match kind with
  | 0 => lin
  | 1 => let u := mmul G x in
         mbuild m 1 (fun i _ => sadd Sc (mget lin i 0) (smul Sc (mget g i 0) (ssin Sc (mget u i 0))))
  | _ => let u := mmul G x in let v := mmul G2 x in
         mbuild m 1 (fun i _ => sadd Sc (mget lin i 0)
                                     (smul Sc (smul Sc (mget g i 0) (mget u i 0)) (mget v i 0)))
  end.
End SUKF.

Arguments mkUtw {_}. Arguments wm0 {_}. Arguments wmi {_}. Arguments wc0 {_}. Arguments wci {_}. Arguments utc {_}.
Arguments ut_weights {_} n alpha beta kappa.
Arguments wm_at {_} w j. Arguments wc_at {_} w j.
Arguments wmean_col {_} L w. Arguments wcov_diag {_} L w. Arguments sqrt_wcov_diag {_} L w.
Arguments mcolwise_add {_ r c} X v. Arguments mcolwise_sub {_ r c} X v.
Arguments perturbations {_} n c P. Arguments sigma_points {_} n nl c x P.
Arguments wrap {_} t. Arguments lay_add {_ r c} nl X v. Arguments lay_sub {_ r c} nl X v.
Arguments overwrite_prefix {A} new old.
Arguments propagate {_ n m L} h SP.
Arguments NoiseReduced {_ s m} R. Arguments NoiseFull {_ s m} R.
Arguments noise_block {_ s m} nz j.
Arguments sukf_accum_step {_ s m L} Y nu nz acc j.
Arguments sukf_accum {_ s m L} Y nu nz.
Arguments mkSukfOut {_ n m}. Arguments so_mean {_ n m}. Arguments so_cov {_ n m}.
Arguments so_innov {_ n m}. Arguments so_Y {_ n m}.
Arguments sukf_correct_comp_lay {_ n m s} nl ml w h y nz x P.
Arguments sukf_correct_comp {_ n m s} nl w h y nz x P.
Arguments lay_mean {_ r c} ml Ys w.
Arguments mkMix {_ n}. Arguments mix_comps {_ n}. Arguments mix_weights {_ n}.
Arguments sukf_correct {_ n m s} nl ml w h y nz pred corr_prev.
Arguments spow {_} x k.
Arguments lik_Rcat {_ s m} nz.
Arguments gauss_log_value {_} d det q.
Arguments uvr_terms {_ s m L} input mean U V R.
Arguments uvr_log_density {_ s m L} input mean U V R.
Arguments sukf_likelihood_comp {_ n m s} nz o.
Arguments sukf_likelihood {_ n m s} nz mb.
Arguments mkUkfOut {_ n m}. Arguments uo_mean {_ n m}. Arguments uo_cov {_ n m}.
Arguments uo_innov {_ n m}. Arguments uo_Pyy {_ n m}.
Arguments ukf_correct_comp_lay {_ n m} nl ml w h y R x P.
Arguments ukf_correct_comp {_ n m} nl w h y R x P.
Arguments ukf_likelihood_comp {_ n m} o.
Arguments ukf_correct {_ n m} nl ml w h y R pred corr_prev.
Arguments h_family {_ n m} kind H G G2 b g x.
