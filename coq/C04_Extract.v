(* C04_Extract.v — executable entry points of the C04 model at the list instance,
   for the correspondence check.  ExtrOcamlBasic only.  The square-root and
   eigenvector oracles are arguments supplied by the driver. *)
Require Import ZArith List.
Require Import BFL.Ops BFL.ListOps BFL.Density BFL.C01_Model BFL.C03_Model BFL.C04_Model.
Require Import Extraction ExtrOcamlBasic.
Import ListNotations.

Definition c04_O (S : SOps) (sq eg : nat -> lmx S -> lmx S) : MatOps := ListMat S sq eg.

Definition c04_mix (S : SOps) (sq eg : nat -> lmx S -> lmx S) (n circ : nat)
           (comps : list (lmx S * lmx S)) (ws : list (T S)) : mixture (c04_O S sq eg) n n :=
  @mkMix (c04_O S sq eg) n n (mkLayout (n - circ) circ false 0) comps ws.

(* UKFPrediction::predict, one call.  The state has n rows: n - circ linear ones followed by circ
   Euler-circular ones (circ = 0: the layout of the theorems of Properties_C04.v).
   generic = false: additive constructor, A = F (n x n), Q (n x n),
   exo = Some c: a constant exogenous input attached to the linear state model (propagate is
   x -> F x + c); generic = true: A = [F B] (n x (n+q)) applied to the augmented sigma points,
   Q = Qw (q x q).  The function has no other argument: an UKFPrediction object keeps the unscented
   weights (alpha, beta, kappa and the degrees of freedom n resp. n + q, fixed at construction) and
   nothing else between calls, so a sequence of calls on one object is this function applied to
   the operands of each call (what the live model holds at that call). *)
Definition c04_predict (S : SOps) (sq eg : nat -> lmx S -> lmx S) (n circ q : nat) (generic : bool)
           (alpha beta kappa : T S) (skip_pred skip_state : bool) (A Q : lmx S) (exo : option (lmx S))
           (comps : list (lmx S * lmx S)) (ws : list (T S))
  : list (lmx S * lmx S) * list (T S) :=
  let O := c04_O S sq eg in
  let Lst := mkLayout (n - circ) circ false 0 in
  let r :=
    if generic then
      @ukf_predict_generic O n q (mkLayout (n - circ) circ false q) Lst alpha beta kappa skip_pred skip_state
                           (@linear_cols O (n + q) n A) Q (c04_mix S sq eg n circ comps ws)
    else
      @ukf_predict_additive O n Lst alpha beta kappa skip_pred skip_state
                            (match exo with
                             | Some c => @affine_cols O n n A c
                             | None => @linear_cols O n n A
                             end) Q n (c04_mix S sq eg n circ comps ws) in
  (mx_comps r, mx_weights r).

(* UKFCorrection::correct + getLikelihood, one call of an object whose kept state (innovations_,
   covariances of predicted_meas_) is [st]; returns the output object, what getLikelihood reports
   afterwards, and the state kept for the next call.  generic = false: additive constructor,
   A = H (m x n), R (m x m); generic = true: A = [H D] (m x (n+q)), R = Rv (q x q).
   y = None: no measurement; fail: the predicted measurement cannot be evaluated; fail_innov: the
   innovation cannot be evaluated.  The state has
   n - circ linear rows followed by circ Euler-circular ones; the measurement is linear. *)
Definition c04_correct (S : SOps) (sq eg : nat -> lmx S -> lmx S) (n circ q m : nat) (generic : bool)
           (alpha beta kappa : T S) (skip : bool) (A R : lmx S) (y : option (lmx S)) (fail fail_innov : bool)
           (mnoise : nat)
           (comps : list (lmx S * lmx S)) (ws : list (T S))
           (old_comps : list (lmx S * lmx S)) (old_ws : list (T S))
           (st : list (lmx S) * list (lmx S))
  : ((list (lmx S * lmx S) * list (T S)) * option (list (T S))) * (list (lmx S) * list (lmx S)) :=
  let O := c04_O S sq eg in
  let Lm := mkLayout m 0 false mnoise in     (* getMeasurementDescription(): m linear, mnoise noise components *)
  let pred := c04_mix S sq eg n circ comps ws in
  let old := c04_mix S sq eg n circ old_comps old_ws in
  let st0 : ukf_state O m := @mkUkfState O m (fst st) (snd st) in
  let innov := fun P yy => if fail_innov then None else @lin_innovation_cols O m P yy in
  let '(mixr, st1, _) :=
    if generic then
      @ukf_correct_generic O n q m (mkLayout (n - circ) circ false q) Lm alpha beta kappa skip y
        (fun X => if fail then None else Some (@linear_cols O (n + q) m A X))
        innov R pred old st0
    else
      @ukf_correct_additive O n m (mkLayout (n - circ) circ false m) Lm alpha beta kappa skip y
        (fun X => if fail then None else Some (@linear_cols O n m A X))
        innov R pred old st0 in
  (((mx_comps mixr, mx_weights mixr), @ukf_likelihood O m st1), (@us_innov O m st1, @us_Pyy O m st1)).

(* the Kalman steps on the same inputs (spec side); for the noise-input models the
   equivalent additive covariances B Qw B^T / D Rv D^T *)
Definition c04_congr (S : SOps) (r q : nat) (B Q : lmx S) : lmx S :=
  let O := c04_O S (fun _ A => A) (fun _ A => A) in
  @mmul O r q r (@mmul O r q q B Q) (@mtr O r q B).

Definition c04_kf_predict (S : SOps) (n : nat) (F Q : lmx S) (exo : option (lmx S)) (comps : list (lmx S * lmx S))
  : list (lmx S * lmx S) :=
  let O := c04_O S (fun _ A => A) (fun _ A => A) in
  map (fun xP => let r := @kf_predict_comp O n F Q xP in
                 (match exo with Some c => @madd O n 1 (fst r) c | None => fst r end, snd r)) comps.

Definition c04_kf_correct (S : SOps) (n m : nat) (H R y : lmx S) (comps : list (lmx S * lmx S))
  : list (lmx S * lmx S * T S) :=
  let O := c04_O S (fun _ A => A) (fun _ A => A) in
  map (fun o : kf_out O n m => (gmean (ko_comp o), gcov (ko_comp o), kf_likelihood o))
      (@kf_correct O n m H R y (map (fun p => @mkGcomp O n (fst p) (snd p)) comps)).

Extraction "C04_model.ml" c04_predict c04_correct c04_congr c04_kf_predict c04_kf_correct.
