(* Properties_C10.v — property C10: the control interface may be used from another
   thread without data races.  Statements only; each is closed by a lemma of
   C10_Proofs.  The first group holds for EVERY access table and EVERY execution
   (interleaving) of its trace semantics; the second group is about
   [current_table], which props/C10_translate.py regenerates from the C++ sources
   of /repo on every run (C10_AccessTable.v). *)
Require Import List String Bool Arith.
Import ListNotations.
Require Import BFL.C10_Model BFL.C10_Proofs BFL.C10_AccessTable BFL.C10_Current.
Local Open Scope string_scope.

(* ---------------------------------------------------------------- all tables, all executions *)

(* every data race (two accesses of different threads that may touch the same variable,
   at least one a write, not both atomic, not ordered by happens-before) of every
   execution of a table is between a pair of accesses that the checker reports *)
Theorem C10_races_confined tbl tr i j o1 o2 : valid tbl tr -> race tr i j o1 o2 ->
  exists c f, In (c, f) (race_freeb tbl) /\ ((o1 = c /\ o2 = f) \/ (o1 = f /\ o2 = c)).
Proof. exact (races_confined tbl tr i j o1 o2). Qed.

(* soundness of the checker: no offending pair => no execution has a data race *)
Theorem C10_race_freeb_sound tbl : race_freeb tbl = [] ->
  forall tr, valid tbl tr -> forall i j o1 o2, ~ race tr i j o1 o2.
Proof. exact (race_freeb_sound tbl). Qed.

(* ... in particular conflicting accesses of different threads are never adjacent unless both atomic *)
Theorem C10_no_adjacent_conflict tbl : race_freeb tbl = [] ->
  forall tr, valid tbl tr -> forall i t1 t2 o1 o2,
    nth_error tr i = Some (t1, EAcc o1) -> nth_error tr (S i) = Some (t2, EAcc o2) -> t1 <> t2 ->
    conflicting (o_acc o1) (o_acc o2) = true -> both_atomic (o_acc o1) (o_acc o2) = true.
Proof. exact (no_adjacent_conflict tbl). Qed.

(* the boolean checker decides the lock-set / atomic / fork-join discipline *)
Theorem C10_race_freeb_iff_race_free tbl : race_freeb tbl = [] <-> race_free tbl.
Proof. split; [exact (race_freeb_race_free tbl) | exact (race_free_race_freeb tbl)]. Qed.

(* completeness: every pair the checker reports IS a data race of some execution of the table *)
Theorem C10_offenders_realisable tbl c f : In (c, f) (race_freeb tbl) ->
  exists tr i, valid tbl tr /\ race tr i (S i) c f.
Proof. exact (offenders_realisable tbl c f). Qed.

(* the racy variables of every execution are among [racy_vars tbl] *)
Theorem C10_race_vars_confined tbl tr i j o1 o2 : valid tbl tr -> race tr i j o1 o2 ->
  In (var_name (a_var (o_acc o1))) (racy_vars tbl) /\ In (var_name (a_var (o_acc o2))) (racy_vars tbl).
Proof. exact (race_vars_confined tbl tr i j o1 o2). Qed.

(* the hypotheses are satisfiable: a table the checker accepts, with a 12-step execution that
   uses the mutex, the atomic and the fork/join ordering *)
Example C10_example_table_ok : race_freeb ex_tbl = [] /\ validb ex_tbl ex_trace = true.
Proof. exact ex_tbl_ok. Qed.

(* ... and a table it rejects, with the execution that exhibits the reported race *)
Example C10_example_table_racy : race_freeb ex_bad_tbl = [(ex_x_set, ex_x_body_plain)] /\
  valid ex_bad_tbl ex_bad_trace /\ race ex_bad_trace 2 3 ex_x_set ex_x_body_plain.
Proof. exact ex_bad_tbl_races. Qed.

(* ---------------------------------------------------------------- the table of the current sources *)

(* Premise of everything below, built into the semantics: ONE controlling thread ([Ctl] is a single
   thread; two control methods never overlap).  Pairs of control accesses that would conflict with
   two controllers are listed separately ([ctl_ctl_offenders], reported in the evidence).

   THE PROPERTY, on the table regenerated from the sources of this run: the checker reports no
   offending pair, i.e. every pair of accesses to the same variable from the controlling thread and
   from the filtering thread, at least one a write, is both-atomic, under the same mutex, or ordered
   by thread creation / join.  A new race, a control flag or a skip flag losing its atomic or its
   lock, or a construct the translator does not understand, breaks this theorem. *)
Theorem C10_current_table_race_free : race_freeb current_table = [].
Proof. exact current_race_free. Qed.

Theorem C10_current_table_discipline : race_free current_table.
Proof. exact current_discipline. Qed.

(* hence no execution (interleaving of control/query commands with the filtering thread) of the
   current table has a data race *)
Theorem C10_current_table_no_data_race tr : valid current_table tr ->
  forall i j o1 o2, ~ race tr i j o1 o2.
Proof. exact (current_no_data_race tr). Qed.

Theorem C10_current_table_no_adjacent_conflict tr : valid current_table tr -> forall i t1 t2 o1 o2,
  nth_error tr i = Some (t1, EAcc o1) -> nth_error tr (S i) = Some (t2, EAcc o2) -> t1 <> t2 ->
  conflicting (o_acc o1) (o_acc o2) = true -> both_atomic (o_acc o1) (o_acc o2) = true.
Proof. exact (current_no_adjacent_conflict tr). Qed.

(* the table is not trivially green: the control flags, the mutex, the condition variable, the six skip
   flags and SkipFlag::value_ are all seen as shared by both threads, and at least 20 control and 100
   filtering-thread method bodies are in the table *)
Theorem C10_current_table_covers_the_control_state :
  subset_str required_shared (shared_vars current_table) = true /\
  Nat.leb min_ctl_methods (n_methods current_table Ctl) = true /\
  Nat.leb min_flt_methods (n_methods current_table Flt) = true.
Proof. exact current_table_covers. Qed.

(* the translator's Python mirror of the checker (used for reporting) agrees with the Coq checker *)
Theorem C10_reported_offenders_are_the_checked_ones :
  racy_vars current_table = py_racy_vars /\ List.length (race_freeb current_table) = py_offender_count.
Proof. exact py_checker_agrees. Qed.

(* the premise [valid current_table tr] is satisfiable by a non-empty execution *)
Example C10_current_table_has_executions :
  validb current_table [(Ctl, EFork); (Flt, EAcq "FilteringAlgorithm::mtx_run_");
                        (Flt, ERel "FilteringAlgorithm::mtx_run_"); (Ctl, EJoin)] = true.
Proof. exact current_has_executions. Qed.

Print Assumptions C10_races_confined.
Print Assumptions C10_race_freeb_sound.
Print Assumptions C10_no_adjacent_conflict.
Print Assumptions C10_race_freeb_iff_race_free.
Print Assumptions C10_offenders_realisable.
Print Assumptions C10_race_vars_confined.
Print Assumptions C10_current_table_race_free.
Print Assumptions C10_current_table_discipline.
Print Assumptions C10_current_table_no_data_race.
Print Assumptions C10_current_table_no_adjacent_conflict.
Print Assumptions C10_current_table_covers_the_control_state.
Print Assumptions C10_reported_offenders_are_the_checked_ones.
