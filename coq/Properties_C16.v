(* Properties_C16.v — property C16: the shipped models and initialisers match
   their documented closed form.  Statements only; each is closed by a lemma
   of C16_Proofs / C16_ProofsSM.  The linear-algebra statements hold for every
   realFieldType F; the constructor and serving statements for every
   arithmetic instance O (hence also for the list instance that is run). *)
Require Import ZArith QArith List.
Require Import BFL.Ops BFL.ListOps BFL.Density BFL.C16_Model BFL.C16_ProofsSM.
From mathcomp Require Import all_ssreflect all_algebra.
Require Import BFL.MxOps BFL.LinAlg BFL.C16_Proofs.
Require Import BFL.ListOpsCorrect BFL.C02_Transport BFL.UT_Transport BFL.C16_Extract BFL.C16_Transport.
Import GRing.Theory Num.Theory.
Local Open Scope ring_scope.

Section C16.
Variable F : realFieldType.
Variable tr : Transc F.
Variable sq : forall n, 'M[F]_n -> 'M[F]_n.
Variable eg : forall n, 'M[F]_n -> 'M[F]_(n,1).
Let O := MxMat tr sq eg.

(* ---- WhiteNoiseAcceleration: F, Q ---- *)

Theorem C16_state_dimension d : dim_n d = (2 * dim_blocks d)%N.
Proof. exact: dim_n_blocks. Qed.

(* F = blockdiag_k [1 T; 0 1]: entry (2a+r, 2b+s) is entry (r, s) of block (a, b) *)
Theorem C16_F_closed_form d (T : F) a b r s :
  (a < dim_blocks d)%N -> (b < dim_blocks d)%N -> (r < 2)%N -> (s < 2)%N ->
  mget (wna_F (O:=O) d T) (2 * a + r) (2 * b + s) =
  if a == b then (if r == s then 1 else if (r < s)%N then T else 0) else 0.
Proof. exact: wna_F_entry. Qed.

(* Q = q blockdiag_k [T^3/3 T^2/2; T^2/2 T] *)
Theorem C16_Q_closed_form d (T q : F) a b r s :
  (a < dim_blocks d)%N -> (b < dim_blocks d)%N -> (r < 2)%N -> (s < 2)%N ->
  mget (wna_Q (O:=O) d T q) (2 * a + r) (2 * b + s) =
  if a == b then q * (match r, s with
                      | 0%N, 0%N => T ^+ 3 / 3%:R
                      | 1%N, 1%N => T
                      | _, _ => T ^+ 2 / 2%:R
                      end) else 0.
Proof. exact: wna_Q_entry. Qed.

(* the two leading minors of the 2x2 block *)
Theorem C16_Q_block_minors (T : F) : 0 < T ->
  0 < T ^+ 3 / 3%:R /\
  T ^+ 3 / 3%:R * T - T ^+ 2 / 2%:R * (T ^+ 2 / 2%:R) = T ^+ 4 / 12%:R /\ 0 < T ^+ 4 / 12%:R.
Proof. exact: wna_Q2_minors. Qed.

(* so Q is SPD (the premise of the LDLT contract) and invertible (the density is not totalised) *)
Theorem C16_Q_spd d (T q : F) : 0 < T -> 0 < q -> spd (wna_Q (O:=O) d T q : 'M[F]_(dim_n d)).
Proof. exact: wna_Q_spd. Qed.

Theorem C16_Q_invertible d (T q : F) : 0 < T -> 0 < q ->
  (wna_Q (O:=O) d T q : 'M[F]_(dim_n d)) \in unitmx.
Proof. exact: wna_Q_unit. Qed.

(* ---- sampling, motion, transition density ---- *)

(* a sample has the state dimension; column j is sqrt_Q applied to the j-th group of
   dim_n d consecutive draws; exactly dim_n d * num draws are consumed (so the samples
   are a function of the seed-determined draws only) *)
Theorem C16_noise_dim d (T q : F) num zs :
  (wna_noise_sample (O:=O) d T q num zs).2 = skipn (dim_n d * num) zs /\
  forall (i : 'I_(dim_n d)) (j : 'I_num),
    ((wna_noise_sample (O:=O) d T q num zs).1 : 'M[F]_(dim_n d, num)) i j =
    \sum_(k < dim_n d) (wna_sqrtQ (O:=O) d T q : 'M[F]_(dim_n d)) i k * List.nth (j * dim_n d + k)%N zs 0.
Proof. exact: wna_noise_sample_spec. Qed.

(* the sample W = L Z is a linear image of the draws: W W^T = L (Z Z^T) L^T = Q when
   Z Z^T = I (the algebraic form of E[Z Z^T] = I) and the factor the oracle returned for THIS
   matrix satisfies its contract L L^T = Q (Q is SPD by C16_Q_spd, so the contract applies;
   C16_factor_exists exhibits such an L in every real closed field) *)
Theorem C16_noise_cov d (T q : F) num zs :
  let L : 'M[F]_(dim_n d) := wna_sqrtQ (O:=O) d T q in
  L *m L^T = wna_Q (O:=O) d T q ->
  let Z : 'M[F]_(dim_n d, num) := fill_colmajor (O:=O) (dim_n d) num zs in
  let W : 'M[F]_(dim_n d, num) := (wna_noise_sample (O:=O) d T q num zs).1 in
  Z *m Z^T = 1%:M -> W *m W^T = wna_Q (O:=O) d T q.
Proof. exact: wna_noise_cov. Qed.

Theorem C16_motion d (T q : F) c (X : 'M[F]_(dim_n d, c)) zs :
  wna_motion (O:=O) d T q X zs =
  ((wna_F (O:=O) d T : 'M[F]_(dim_n d)) *m X
     + (wna_sqrtQ (O:=O) d T q : 'M[F]_(dim_n d)) *m (fill_colmajor (O:=O) (dim_n d) c zs : 'M[F]_(dim_n d, c)),
   skipn (dim_n d * c) zs).
Proof. exact: wna_motion_eq. Qed.

(* one value per (previous, current) pair: N(cur_j; F prev_j, Q) *)
Theorem C16_transition_density d (T q : F) c (prev cur : 'M[F]_(dim_n d, c)) :
  length (wna_transition_probability (O:=O) d T q prev cur) = c /\
  forall (j : 'I_c) dflt,
    List.nth j (wna_transition_probability (O:=O) d T q prev cur) dflt =
    density (O:=O) (col j cur) ((wna_F (O:=O) d T : 'M[F]_(dim_n d)) *m col j prev) (wna_Q (O:=O) d T q).
Proof. exact: wna_transition_density. Qed.

(* the simulated trajectory over this model (C16_trajectory below, with motion := wna_motion on one
   column): x_{k+1} = F x_k + L z_k, z_k the k-th group of dim_n d consecutive draws *)
Theorem C16_trajectory_wna d (T q : F) (x0 : 'cV[F]_(dim_n d)) zs k :
  ((iter_motion (@wna_motion1 F tr sq eg d T q) k.+1 (x0, zs)).1 : 'cV[F]_(dim_n d)) =
  (wna_F (O:=O) d T : 'M[F]_(dim_n d)) *m (iter_motion (@wna_motion1 F tr sq eg d T q) k (x0, zs)).1
  + (wna_sqrtQ (O:=O) d T q : 'M[F]_(dim_n d))
      *m (fill_colmajor (O:=O) (dim_n d) 1 (skipn (dim_n d * k) zs) : 'cV[F]_(dim_n d)).
Proof. exact: wna_iter_step. Qed.

(* ---- component selector ---- *)

Theorem C16_selector_matrix n (idxs : list nat) rr rc (R : 'M[F]_(rr, rc)) H R' L :
  linear_model_ctor (O:=O) n idxs R = inr (H, R', L) ->
  forall a b, (a < length idxs)%N -> (b < n)%N ->
  mget (H : M O (length idxs) n) a b = if b == List.nth a idxs 0%N then 1 else 0.
Proof. exact: linear_model_H. Qed.

(* the sensor's noise: R is exposed unchanged, sqrt_R is the oracle's factor of R, and under the
   factor's contract on R a sample W = sqrt_R Z has W W^T = R when Z Z^T = I; freeze() adds the
   one-column sample (C16_sensor_freeze) *)
Theorem C16_sensor_noise_cov n (idxs : list nat) m (R : 'M[F]_m) H R' (L : 'M[F]_m) num zs :
  linear_model_ctor (O:=O) n idxs R = inr (H, R', L) ->
  R' = R /\ L = sq m R /\
  (L *m L^T = R ->
   let Z : 'M[F]_(m, num) := fill_colmajor (O:=O) m num zs in
   let W : 'M[F]_(m, num) := (noise_sample (O:=O) L num zs).1 in
   Z *m Z^T = 1%:M -> W *m W^T = R).
Proof. exact: linear_model_noise_cov. Qed.

(* SimulatedLinearSensor's descriptions: input = state description + |R| noise components;
   measurement = (number of measured components below linear_size, number at or above it) *)
Theorem C16_sensor_descriptions n (idxs : list nat) (H : 'M[F]_(length idxs, n)) sd nr :
  Forall (fun c => (c < n)%coq_nat) idxs ->
  (forall a b, (a < length idxs)%N -> (b < n)%N -> mget (H : M O (length idxs) n) a b = if b == List.nth a idxs 0%N then 1 else 0) ->
  sensor_descriptions (O:=O) H sd nr =
  (mkDesc (d_lin sd) (d_circ sd) (d_noise sd + nr)%coq_nat,
   mkDesc (length (List.filter (fun c => Nat.ltb c (d_lin sd)) idxs))
          (length (List.filter (fun c => negb (Nat.ltb c (d_lin sd))) idxs)) 0).
Proof. exact: sensor_descriptions_selector. Qed.

(* ---- grid initialiser ---- *)

Theorem C16_grid_refusal xinf xsup yinf ysup nx ny np (st : 'M[F]_(4, np)) (w : 'cV[F]_np) :
  grid_initialize (O:=O) xinf xsup yinf ysup nx ny st w = None <-> np <> (nx * ny)%N.
Proof. exact: grid_refusal. Qed.

(* for grids of at least 2 x 2 points (the property's domain; then no denominator vanishes).
   With nx = 1 or ny = 1 the code computes 0/0 * 0 = NaN: that case is covered by the
   correspondence check only *)
Theorem C16_grid_positions xinf xsup yinf ysup nx ny np (st : 'M[F]_(4, np)) (w : 'cV[F]_np) st' w' :
  (2 <= nx)%N -> (2 <= ny)%N ->
  grid_initialize (O:=O) xinf xsup yinf ysup nx ny st w = Some (st', w') ->
  (nx%:R - 1 != 0 :> F) /\ (ny%:R - 1 != 0 :> F) /\
  forall i j r, (i < nx)%N -> (j < ny)%N -> (r < 4)%N ->
    mget (st' : M O 4 np) r (i * ny + j) =
    match r with
    | 0%N => xinf + i%:R * ((xsup - xinf) / (nx%:R - 1))
    | 2%N => yinf + j%:R * ((ysup - yinf) / (ny%:R - 1))
    | _ => 0
    end.
Proof. exact: grid_positions_closed. Qed.

Theorem C16_grid_spans (inf sup : F) n : (2 <= n)%N ->
  grid_coord (O:=O) (sup - inf) inf n 0 = inf /\ grid_coord (O:=O) (sup - inf) inf n n.-1 = sup.
Proof. exact: grid_spans. Qed.

Theorem C16_grid_weights xinf xsup yinf ysup nx ny np (st : 'M[F]_(4, np)) (w : 'cV[F]_np) st' w' :
  grid_initialize (O:=O) xinf xsup yinf ysup nx ny st w = Some (st', w') ->
  np = (nx * ny)%N /\ forall k, (k < np)%N -> mget (w' : M O np 1) k 0 = - t_ln tr (np%:R).
Proof. exact: grid_weights. Qed.

Theorem C16_grid_overwrites xinf xsup yinf ysup nx ny np (st st2 : 'M[F]_(4, np)) (w w2 : 'cV[F]_np) :
  grid_initialize (O:=O) xinf xsup yinf ysup nx ny st w =
  grid_initialize (O:=O) xinf xsup yinf ysup nx ny st2 w2.
Proof. exact: grid_overwrites. Qed.

End C16.

(* non-vacuity of the local premise of C16_noise_cov: in every real closed field the block-diagonal
   Cholesky factor is a factor of Q.  (Over the rationals no factor exists for any T, q, Dim:
   det Q = (q^2 T^4 / 12)^k is not a rational square for k odd, and for k = 2 the Hasse invariant
   at 3 differs from that of the identity form - so no rational Example can exhibit one.) *)
Theorem C16_factor_exists (R : rcfType) (tr : Transc R) sq eg d (T q : R) : 0 < T -> 0 < q ->
  let L : 'M[R]_(dim_n d) := blocks (O:=MxMat tr sq eg) d (chol2 T q) in
  L *m L^T = wna_Q (O:=MxMat tr sq eg) d T q.
Proof. exact: wna_factor_exists. Qed.

(* ---- constructors, trajectory, sensor: for every arithmetic instance ---- *)
Local Close Scope ring_scope.
Local Open Scope nat_scope.

Section C16_any_instance.
Variable O : MatOps.

(* exactly the empty / non-square / mismatched inputs are rejected, each by the first
   check that applies in the code's order; accepted inputs are exposed unchanged *)
Theorem C16_lti_state_ctor_validation fr fc qr qc (Fm : M O fr fc) (Q : M O qr qc) :
  match lti_state_ctor Fm Q with
  | inr (F', Q') => F' = Fm /\ Q' = Q /\ (0 < fr)%coq_nat /\ fr = fc /\ qr = qc /\ fr = qr
  | inl ErrFEmpty => fr = 0 \/ fc = 0
  | inl ErrQEmpty => (0 < fr)%coq_nat /\ (0 < fc)%coq_nat /\ (qr = 0 \/ qc = 0)
  | inl ErrFNotSquare => (0 < fr)%coq_nat /\ (0 < fc)%coq_nat /\ (0 < qr)%coq_nat /\ (0 < qc)%coq_nat /\ fr <> fc
  | inl ErrQNotSquare => (0 < fr)%coq_nat /\ fr = fc /\ (0 < qr)%coq_nat /\ (0 < qc)%coq_nat /\ qr <> qc
  | inl ErrFQMismatch => (0 < fr)%coq_nat /\ fr = fc /\ (0 < qr)%coq_nat /\ qr = qc /\ fr <> qr
  end.
Proof. exact: lti_state_ctor_spec. Qed.

Theorem C16_lti_meas_ctor_validation hr hc rr rc (H : M O hr hc) (R : M O rr rc) :
  match lti_meas_ctor H R with
  | inr (H', R') => H' = H /\ R' = R /\ (0 < hr)%coq_nat /\ (0 < hc)%coq_nat /\ rr = rc /\ hr = rr
  | inl ErrHEmpty => hr = 0 \/ hc = 0
  | inl ErrREmpty => (0 < hr)%coq_nat /\ (0 < hc)%coq_nat /\ (rr = 0 \/ rc = 0)
  | inl ErrRNotSquare => (0 < hr)%coq_nat /\ (0 < hc)%coq_nat /\ (0 < rr)%coq_nat /\ (0 < rc)%coq_nat /\ rr <> rc
  | inl ErrHRMismatch => (0 < hr)%coq_nat /\ (0 < hc)%coq_nat /\ (0 < rr)%coq_nat /\ rr = rc /\ hr <> rr
  | inl (ErrIndex _ _) => False
  end.
Proof. exact: lti_meas_ctor_spec. Qed.

(* LinearModel: the base-class checks on a |idxs| x n matrix, then the first index outside
   the state vector is reported; otherwise R is exposed unchanged and sqrt_R is the factor of R *)
Theorem C16_selector_ctor_validation n (idxs : list nat) rr rc (R : M O rr rc) :
  let m := length idxs in
  match linear_model_ctor n idxs R with
  | inr (H, R', L) =>
      R' = R /\ L = msqrt (mbuild rr rr (fun i j => mget R i j)) /\ lm_fill 0 idxs (mzero m n) = inr H /\
      (0 < m)%coq_nat /\ (0 < n)%coq_nat /\ rr = rc /\ m = rr /\ Forall (fun c => (c < n)%coq_nat) idxs
  | inl ErrHEmpty => m = 0 \/ n = 0
  | inl ErrREmpty => (0 < m)%coq_nat /\ (0 < n)%coq_nat /\ (rr = 0 \/ rc = 0)
  | inl ErrRNotSquare => (0 < m)%coq_nat /\ (0 < n)%coq_nat /\ (0 < rr)%coq_nat /\ (0 < rc)%coq_nat /\ rr <> rc
  | inl ErrHRMismatch => (0 < m)%coq_nat /\ (0 < n)%coq_nat /\ (0 < rr)%coq_nat /\ rr = rc /\ m <> rr
  | inl (ErrIndex p v) =>
      ((0 < m)%coq_nat /\ (0 < n)%coq_nat /\ rr = rc /\ m = rr) /\
      nth_error idxs p = Some v /\ (n <= v)%coq_nat /\ Forall (fun c => (c < n)%coq_nat) (firstn p idxs)
  end.
Proof. exact: linear_model_ctor_spec. Qed.

Theorem C16_selector_rejects_out_of_range n (idxs : list nat) rr rc (R : M O rr rc) :
  (0 < length idxs)%coq_nat -> (0 < n)%coq_nat -> rr = rc -> length idxs = rr ->
  ~ Forall (fun c => (c < n)%coq_nat) idxs ->
  exists p v, linear_model_ctor n idxs R = inl (ErrIndex p v) /\
              nth_error idxs p = Some v /\ (n <= v)%coq_nat /\ Forall (fun c => (c < n)%coq_nat) (firstn p idxs).
Proof. exact: linear_model_rejects. Qed.

(* the grid initialiser on a particle set with any number r of state rows (the function that is
   extracted and run): it refuses exactly a wrong particle count or a state that is not
   (x, vx, y, vy), and on 4 rows it is the grid_initialize of the C16_grid_* theorems *)
Theorem C16_grid_rows_refusal (xinf xsup yinf ysup : T (sc O)) nx ny r np (st : M O r np) (w : M O np 1) :
  grid_initialize_rows xinf xsup yinf ysup nx ny st w = None <-> (np <> nx * ny \/ r <> 4).
Proof. exact: grid_rows_refusal. Qed.

Theorem C16_grid_rows_four (xinf xsup yinf ysup : T (sc O)) nx ny np (st : M O 4 np) (w : M O np 1) :
  grid_initialize_rows xinf xsup yinf ysup nx ny st w = grid_initialize xinf xsup yinf ysup nx ny st w.
Proof. exact: grid_rows_four. Qed.

Section Serving.
Variable d : nat.
Variable motion : M O d 1 -> list (T (sc O)) -> M O d 1 * list (T (sc O)).

(* the constructor stores x_0 = the given state and x_{k+1} = motion(x_k), the draws threaded
   in order; simulation_time = 0 is the only input that is rejected *)
Theorem C16_trajectory (x0 : M O d 1) len zs :
  match sim_ctor motion x0 len zs with
  | inl ErrSimEmpty => len = 0
  | inr st =>
      (0 < len)%coq_nat /\ sim_wf st /\ sim_time st = len /\ sim_cur st = 0 /\ sim_data st = None /\
      (forall k, (k < len)%coq_nat ->
         nth_error (sim_target st) k = Some (fst (iter_motion motion k (x0, zs))))
  end.
Proof. exact: sim_ctor_spec. Qed.

(* an empty trajectory is rejected at construction (no state is built), and it is the only
   rejected input (C16_trajectory) *)
Theorem C16_zero_length_has_no_state (x0 : M O d 1) zs : sim_ctor motion x0 0 zs = inl ErrSimEmpty.
Proof. by []. Qed.

Theorem C16_trajectory_recurrence k (p : M O d 1 * list (T (sc O))) :
  iter_motion motion (S k) p = motion (fst (iter_motion motion k p)) (snd (iter_motion motion k p)).
Proof. by []. Qed.

(* after ANY call sequence: stored trajectory untouched, cursor = calls since the last reset,
   capped at the length (so a column outside the trajectory is never read) *)
Theorem C16_serving_state (st : @sim_state O d) : sim_wf st -> sim_cur st = 0 -> forall ops,
  let st1 := snd (sim_run st ops) in
  sim_wf st1 /\ sim_target st1 = sim_target st /\ sim_time st1 = sim_time st /\
  sim_cur st1 = Nat.min (since_reset ops) (sim_time st).
Proof. exact: sim_run_state. Qed.

(* bufferData() after ANY history on a freshly built model: the c-th call since the last
   reset serves x_c while c < length, and reports the end (state untouched) afterwards *)
Theorem C16_serving (x0 : M O d 1) len zs st pre :
  sim_ctor motion x0 len zs = inr st ->
  let st1 := snd (sim_run st pre) in
  let c := since_reset pre in
  ((c < len)%coq_nat ->
     sim_step st1 SimBuffer =
       (mkSim (sim_target st) len (S c) (Some (fst (iter_motion motion c (x0, zs)))), true))
  /\ ((len <= c)%coq_nat -> sim_step st1 SimBuffer = (st1, false)).
Proof. exact: sim_serving. Qed.

Theorem C16_reset_restarts (st : @sim_state O d) :
  sim_step st SimReset = (mkSim (sim_target st) (sim_time st) 0 (sim_data st), true)
  /\ sim_step st SimOther = (st, false).
Proof. by []. Qed.

(* what a run reports for the call that follows the history [pre] *)
Theorem C16_call_output (st : @sim_state O d) pre op post dflt :
  List.nth (length pre) (fst (sim_run st (pre ++ op :: post))) dflt =
  (snd (sim_step (snd (sim_run st pre)) op), sim_data (fst (sim_step (snd (sim_run st pre)) op))).
Proof. exact: sim_run_nth. Qed.

(* ---- SimulatedLinearSensor ---- *)
Variable m : nat.

(* one freeze from any well-formed state: measurement = H x_k + L_R z (z the next m draws of
   the sensor's generator); at the end of the trajectory it forwards the failure and keeps
   measurement and draws *)
Theorem C16_sensor_freeze (H : M O m d) (LR : M O m m) (st : @sens_state O d m) : sim_wf (sens_sim st) ->
  let s := sens_sim st in
  ((sim_cur s < sim_time s)%coq_nat /\
   exists x, nth_error (sim_target s) (sim_cur s) = Some x /\
     sensor_freeze H LR st =
       (mkSens (mkSim (sim_target s) (sim_time s) (S (sim_cur s)) (Some x))
               (skipn (m * 1) (sens_zs st))
               (Some (madd (mmul H x) (mmul LR (fill_colmajor m 1 (sens_zs st))))), true))
  \/ (sim_cur s = sim_time s /\ sensor_freeze H LR st = (mkSens s (sens_zs st) (sens_meas st), false)).
Proof. exact: sensor_freeze_spec. Qed.

(* a freeze after ANY history of freezes / resets on a sensor over a fresh trajectory *)
Theorem C16_sensor_serving (H : M O m d) (LR : M O m m) x0 len zs sim0 zs2 pre :
  sim_ctor motion x0 len zs = inr sim0 ->
  let st1 := snd (sensor_run H LR (mkSens sim0 zs2 None) pre) in
  let c := since_reset (map proj_op pre) in
  ((c < len)%coq_nat ->
     let x := fst (iter_motion motion c (x0, zs)) in
     sensor_freeze H LR st1 =
       (mkSens (mkSim (sim_target sim0) len (S c) (Some x)) (skipn (m * 1) (sens_zs st1))
               (Some (madd (mmul H x) (mmul LR (fill_colmajor m 1 (sens_zs st1))))), true))
  /\ ((len <= c)%coq_nat ->
       sensor_freeze H LR st1 = (mkSens (sens_sim st1) (sens_zs st1) (sens_meas st1), false)).
Proof. exact: sensor_serving. Qed.

(* the sensor's generator advances by exactly m draws per successful freeze, by nothing else *)
Theorem C16_sensor_draws (H : M O m d) (LR : M O m m) ops (st : @sens_state O d m) :
  sens_zs (snd (sensor_run H LR st ops)) =
  skipn (m * freeze_successes ops (fst (sensor_run H LR st ops))) (sens_zs st).
Proof. exact: sensor_run_draws. Qed.
End Serving.
End C16_any_instance.

(* ---- executed model = theorem model ----
   Every entry point of C16_Extract.v (what the OCaml driver calls, with IEEE doubles as scalars),
   run on lists over the scalars of ANY realFieldType and with ANY list-level square-root oracle
   sqL, REPRESENTS (repr: m rows of n entries, entry-wise equal) the value of the model function
   the theorems above are about at the MathComp instance.  Premises: the inputs are represented;
   the two square-root oracles correspond on the matrix actually factored (corrQ / corrR; holds
   e.g. for the identity oracles, C16_executed_premises_satisfiable, and excludes no list oracle,
   UT_Transport.oracle_counterpart_exists); T, q > 0 for the density (Q is then PROVED invertible,
   so the Gauss-Jordan inverse / determinant of the list instance are invmx / \det). *)
Local Open Scope ring_scope.
Section C16_executed.
Variable F : realFieldType.
Variable tr : Transc F.
Variable sq : forall n, 'M[F]_n -> 'M[F]_n.
Variable eg : forall n, 'M[F]_n -> 'M[F]_(n,1).
Variable sqL : nat -> lmxF F -> lmxF F.
Let S := FOps tr.
Let egL : nat -> lmxF F -> lmxF F := fun _ A => A.
Let OM := MxMat tr sq eg.
Notation repr m n l A := (@C02_Transport.repr F m n l A) (only parsing).
Notation corrQ := (@sq_corr_Q F tr sq eg sqL egL).
Notation corrR := (@sq_corr_R F tr sq eg sqL egL).
Notation rsim n := (@rel_sim F tr sq eg sqL egL n).

Theorem C16_executed_F_is_theorem_model d (Ts : F) :
  repr (dim_n d) (dim_n d) (c16_wna_F S sqL d Ts) (wna_F (O:=OM) d Ts : 'M[F]_(dim_n d)).
Proof. exact: entry_wna_F. Qed.

Theorem C16_executed_Q_is_theorem_model d (Ts q : F) :
  repr (dim_n d) (dim_n d) (c16_wna_Q S sqL d Ts q) (wna_Q (O:=OM) d Ts q : 'M[F]_(dim_n d)).
Proof. exact: entry_wna_Q. Qed.

Theorem C16_executed_sqrtQ_is_theorem_model d (Ts q : F) : corrQ d Ts q ->
  repr (dim_n d) (dim_n d) (c16_wna_sqrtQ S sqL d Ts q) (wna_sqrtQ (O:=OM) d Ts q : 'M[F]_(dim_n d)).
Proof. exact: entry_wna_sqrtQ. Qed.

Theorem C16_executed_noise_sample_is_theorem_model d (Ts q : F) num zs : corrQ d Ts q ->
  repr (dim_n d) num (c16_wna_noise S sqL d Ts q num zs).1
                     ((wna_noise_sample (O:=OM) d Ts q num zs).1 : 'M[F]_(dim_n d,num))
  /\ (c16_wna_noise S sqL d Ts q num zs).2 = (wna_noise_sample (O:=OM) d Ts q num zs).2.
Proof. exact: entry_wna_noise. Qed.

Theorem C16_executed_motion_is_theorem_model d (Ts q : F) c lX (X : 'M[F]_(dim_n d,c)) zs : corrQ d Ts q ->
  repr (dim_n d) c lX X ->
  repr (dim_n d) c (c16_wna_motion S sqL d Ts q c lX zs).1 ((wna_motion (O:=OM) d Ts q X zs).1 : 'M[F]_(dim_n d,c))
  /\ (c16_wna_motion S sqL d Ts q c lX zs).2 = (wna_motion (O:=OM) d Ts q X zs).2.
Proof. exact: entry_wna_motion. Qed.

Theorem C16_executed_transition_density_is_theorem_model d (Ts q : F) c lp (prev : 'M[F]_(dim_n d,c)) lc (cur : 'M[F]_(dim_n d,c)) :
  0 < Ts -> 0 < q -> repr (dim_n d) c lp prev -> repr (dim_n d) c lc cur ->
  c16_wna_tp S sqL d Ts q c lp lc = wna_transition_probability (O:=OM) d Ts q prev cur.
Proof. exact: entry_wna_tp. Qed.

(* the spec side of the violation search *)
Theorem C16_executed_spec_density_is_theorem_model d (Ts q : F) c lp (prev : 'M[F]_(dim_n d,c)) lc (cur : 'M[F]_(dim_n d,c)) :
  0 < Ts -> 0 < q -> repr (dim_n d) c lp prev -> repr (dim_n d) c lc cur ->
  c16_spec_tp S sqL d Ts q c lp lc =
  List.map (fun j => density (O:=OM) (mcol (O:=OM) j cur)
                             ((wna_F (O:=OM) d Ts : 'M[F]_(dim_n d)) *m (mcol (O:=OM) j prev : 'cV[F]_(dim_n d)))
                             (wna_Q (O:=OM) d Ts q)) (List.seq 0 c).
Proof. exact: entry_spec_tp. Qed.

Theorem C16_executed_factor_contract_is_theorem_model n lL (L : 'M[F]_n) :
  repr n n lL L -> repr n n (c16_LLt S sqL n lL) (L *m L^T).
Proof. exact: entry_LLt. Qed.

Theorem C16_executed_lti_state_ctor_is_theorem_model fr fc qr qc lF (Fm : 'M[F]_(fr,fc)) lQ (Q : 'M[F]_(qr,qc)) :
  repr fr fc lF Fm -> repr qr qc lQ Q ->
  srel (@rel_pair F fr fc qr qc) (c16_lti_state S sqL fr fc qr qc lF lQ) (lti_state_ctor (O:=OM) Fm Q).
Proof. exact: entry_lti_state. Qed.

Theorem C16_executed_lti_meas_ctor_is_theorem_model hr hc rr rc lH (H : 'M[F]_(hr,hc)) lR (R : 'M[F]_(rr,rc)) :
  repr hr hc lH H -> repr rr rc lR R ->
  srel (@rel_pair F hr hc rr rc) (c16_lti_meas S sqL hr hc rr rc lH lR) (lti_meas_ctor (O:=OM) H R).
Proof. exact: entry_lti_meas. Qed.

(* LinearModel: same outcome (which check fired, position and value of a rejected index), and on
   success H (the 0/1 selector), R and sqrt_R are represented *)
Theorem C16_executed_selector_is_theorem_model n idxs rr rc lR (R : 'M[F]_(rr,rc)) :
  repr rr rc lR R -> corrR lR R ->
  srel (@rel_lm F (length idxs) n rr rc) (c16_linear_model S sqL n idxs rr rc lR) (linear_model_ctor (O:=OM) n idxs R).
Proof. exact: entry_linear_model. Qed.

Theorem C16_executed_sensor_noise_is_theorem_model d lL (L : 'M[F]_d) num zs : repr d d lL L ->
  repr d num (c16_noise S sqL d lL num zs).1 ((noise_sample (O:=OM) L num zs).1 : 'M[F]_(d,num))
  /\ (c16_noise S sqL d lL num zs).2 = (noise_sample (O:=OM) L num zs).2.
Proof. exact: entry_noise. Qed.

(* the trajectory recursion: same rejection of length 0; otherwise every stored column, the
   length, the cursor and the (empty) data are those of the theorem model *)
Theorem C16_executed_trajectory_is_theorem_model d (Ts q : F) lx (x0 : 'cV[F]_(dim_n d)) len zs :
  corrQ d Ts q -> repr (dim_n d) 1 lx x0 ->
  srel (rsim (dim_n d)) (c16_sim_ctor S sqL d Ts q lx len zs)
       (sim_ctor (O:=OM) (fun (x : 'cV[F]_(dim_n d)) z => wna_motion (O:=OM) d Ts q (c:=1) x z) x0 len zs).
Proof. exact: entry_sim_ctor. Qed.

Theorem C16_executed_trajectory_columns_is_theorem_model n sl (sm : sim_state (O:=OM) n) : rsim n sl sm ->
  List.Forall2 (fun l (x : 'cV[F]_n) => repr n 1 l x) (c16_sim_target S sqL n sl) (sim_target sm).
Proof. exact: entry_sim_target. Qed.

(* serving: after ANY call sequence the return values are equal and getData() is represented *)
Theorem C16_executed_serving_is_theorem_model n sl (sm : sim_state (O:=OM) n) ops : rsim n sl sm ->
  List.Forall2 (@rel_out F n) (c16_sim_run S sqL n sl ops) (sim_run (O:=OM) sm ops).1.
Proof. exact: entry_sim_run. Qed.

Theorem C16_executed_sensor_output_is_theorem_model n m lH (H : 'M[F]_(m,n)) lLR (LR : 'M[F]_m) sl (sm : sim_state (O:=OM) n) zs ops :
  repr m n lH H -> repr m m lLR LR -> rsim n sl sm ->
  List.Forall2 (fun (o : bool * option (lmxF F)) (p : bool * option 'cV[F]_m) =>
                  o.1 = p.1 /\ orel (fun l (y : 'cV[F]_m) => repr m 1 l y) o.2 p.2)
               (c16_sensor_run S sqL n m lH lLR sl zs ops)
               (sensor_run (O:=OM) H LR (mkSens (O:=OM) (m:=m) sm zs None) ops).1.
Proof. exact: entry_sensor_run. Qed.

Theorem C16_executed_sensor_descriptions_is_theorem_model m n lH (H : 'M[F]_(m,n)) lin circ nr : repr m n lH H ->
  c16_sensor_descs S sqL m n lH lin circ nr = sensor_descriptions (O:=OM) H (mkDesc lin circ 0) nr.
Proof. exact: entry_sensor_descs. Qed.

(* the trajectory over a user-defined additive linear model x -> F x + w (C16_trajectory is about any motion) *)
Theorem C16_executed_user_model_trajectory_is_theorem_model n lF (Fm : 'M[F]_n) lx (x0 : 'cV[F]_n) len zs :
  repr n n lF Fm -> repr n 1 lx x0 ->
  srel (rsim n) (c16_lti_sim_ctor S sqL n lF lx len zs)
       (sim_ctor (O:=OM) (fun (x : 'cV[F]_n) z => additive_motion (O:=OM) (c:=1) Fm (1%:M : 'M[F]_n) x z) x0 len zs).
Proof. exact: entry_lti_sim_ctor. Qed.

Theorem C16_executed_grid_is_theorem_model (xinf xsup yinf ysup : F) nx ny r np lst (st : 'M[F]_(r,np)) lw (w : 'cV[F]_np) :
  repr r np lst st ->
  orel (@rel_grid F r np) (c16_grid S sqL xinf xsup yinf ysup nx ny r np lst lw)
       (grid_initialize_rows (O:=OM) xinf xsup yinf ysup nx ny st w).
Proof. exact: entry_grid. Qed.
End C16_executed.

(* the premises are satisfiable together: identity square-root oracles correspond on every Q and
   every represented R; every matrix has a representation *)
Example C16_executed_premises_satisfiable (F : realFieldType) (tr : Transc F) eg d (Ts q : F) rr rc (R : 'M[F]_(rr,rc)) :
  @sq_corr_Q F tr (@id_sq F) eg (@id_sqL F) (fun _ A => A) d Ts q
  /\ @C02_Transport.repr F rr rc (of_mx tr R) R
  /\ @sq_corr_R F tr (@id_sq F) eg (@id_sqL F) (fun _ A => A) rr rc (of_mx tr R) R.
Proof.
split; first exact: sq_corr_Q_id.
by split; [exact: of_mx_repr | apply: sq_corr_R_id; exact: of_mx_repr].
Qed.

(* ---- non-vacuity ---- *)

(* the premises of the SPD / covariance theorems are satisfiable in every field ... *)
Example C16_premises_satisfiable (F : realFieldType) n :
  (0 < (1 : F)) /\ (1%:M : 'M[F]_n) *m (1%:M : 'M[F]_n)^T = 1%:M /\ spd (1%:M : 'M[F]_n).
Proof. by rewrite ltr01 trmx1 mulmx1; split=> //; split=> //; exact: spd1. Qed.

(* ... and the executable instance of the same model, run over exact rationals: TwoD, T = 2,
   q = 3 gives the block-diagonal closed forms *)
Definition QM := ListMat QOps (fun _ A => A) (fun _ A => A).
Example C16_concrete_FQ :
  qmx_eqb (@wna_F QM TwoD (2#1)%Q) [:: [:: (1#1); (2#1); (0#1); (0#1)]; [:: (0#1); (1#1); (0#1); (0#1)]; [:: (0#1); (0#1); (1#1); (2#1)]; [:: (0#1); (0#1); (0#1); (1#1)]]%Q
  && qmx_eqb (@wna_Q QM TwoD (2#1) (3#1))%Q
             [:: [:: (8#1); (6#1); (0#1); (0#1)]; [:: (6#1); (6#1); (0#1); (0#1)]; [:: (0#1); (0#1); (8#1); (6#1)]; [:: (0#1); (0#1); (6#1); (6#1)]]%Q = true.
Proof. vm_compute. reflexivity. Qed.

(* a length-3 trajectory of x -> F x + z served past its end and after a reset; and the
   selector of components (0, 2, 2) of a 4-vector; and a rejected index *)
Example C16_concrete_serving :
  let mot := fun (x : M QM 2 1) (zs : list Q) => @additive_motion QM 2 1 (@wna_F QM OneD (1#1)%Q) (@mid QM 2) x zs in
  match @sim_ctor QM 2 mot [:: [:: (1#1)]; [:: (1#1)]]%Q 3 [:: (1#1); (0#1); (0#1); (1#1); (5#1); (5#1)]%Q with
  | inr st =>
      map fst (fst (@sim_run QM 2 st [:: SimBuffer; SimBuffer; SimBuffer; SimBuffer; SimOther; SimReset; SimBuffer]))
        = [:: true; true; true; false; false; true; true]
      /\ (match sim_data (snd (@sim_run QM 2 st [:: SimBuffer; SimBuffer; SimBuffer; SimBuffer])) with
          | Some x => qmx_eqb x [:: [:: (4#1)]; [:: (2#1)]]%Q
          | None => false
          end) = true
  | inl _ => False
  end.
Proof. vm_compute. split; reflexivity. Qed.

Example C16_concrete_selector :
  match @linear_model_ctor QM 4 [:: 0; 2; 2]%N 3 3 [:: [:: (1#1); (0#1); (0#1)]; [:: (0#1); (1#1); (0#1)]; [:: (0#1); (0#1); (1#1)]]%Q with
  | inr (H, _, _) => qmx_eqb H [:: [:: (1#1); (0#1); (0#1); (0#1)]; [:: (0#1); (0#1); (1#1); (0#1)]; [:: (0#1); (0#1); (1#1); (0#1)]]%Q = true
  | inl _ => False
  end
  /\ @linear_model_ctor QM 4 [:: 0; 4; 7]%N 3 3 [:: [:: (1#1); (0#1); (0#1)]; [:: (0#1); (1#1); (0#1)]; [:: (0#1); (0#1); (1#1)]]%Q = inl (ErrIndex 1 4).
Proof. vm_compute. split; reflexivity. Qed.

(* the sensor's sampling with an explicit rational factor: R = [4 2; 2 5] = L L^T, L = [2 0; 1 2]
   (the oracle returns L); with Z = I (draws 1 0 0 1, column-major) the sample W = L and W W^T = R;
   the descriptions of a sensor measuring components (0, 2) of a 4-state model are (4+2, 2) *)
Definition QML := ListMat QOps (fun _ _ => [:: [:: (2#1); (0#1)]; [:: (1#1); (2#1)]]%Q) (fun _ A => A).
Example C16_concrete_sensor_noise :
  match @linear_model_ctor QML 4 [:: 0; 2]%N 2 2 [:: [:: (4#1); (2#1)]; [:: (2#1); (5#1)]]%Q with
  | inr (H, R', L) =>
      let W := fst (@noise_sample QML 2 L 2 [:: (1#1); (0#1); (0#1); (1#1)]%Q) in
      qmx_eqb (@mmul QML 2 2 2 L (@mtr QML 2 2 L)) R'
      && qmx_eqb (@mmul QML 2 2 2 W (@mtr QML 2 2 W)) [:: [:: (4#1); (2#1)]; [:: (2#1); (5#1)]]%Q
      && (match @sensor_descriptions QML 2 4 H (mkDesc 4 0 0) 2 with
          | (inp, meas) => Nat.eqb (desc_total inp) 6 && Nat.eqb (d_lin meas) 2 && Nat.eqb (d_circ meas) 0
          end) = true
  | inl _ => False
  end.
Proof. vm_compute. reflexivity. Qed.

(* a 2 x 3 grid over [-1, 3] x [2, 5]: accepted with 6 particles, refused with 5 *)
Example C16_concrete_grid :
  match @grid_initialize QM (-1#1)%Q (3#1)%Q (2#1)%Q (5#1)%Q 2 3 6
          (lbuild QOps 4 6 (fun _ _ => (9#1)%Q)) (lbuild QOps 6 1 (fun _ _ => (9#1)%Q)) with
  | Some (st, _) =>
      qmx_eqb st [:: [:: (-1#1); (-1#1); (-1#1); (3#1); (3#1); (3#1)]; [:: (0#1); (0#1); (0#1); (0#1); (0#1); (0#1)]; [:: (2#1); 7#2; (5#1); (2#1); 7#2; (5#1)]; [:: (0#1); (0#1); (0#1); (0#1); (0#1); (0#1)]]%Q = true
  | None => False
  end
  /\ @grid_initialize QM (-1#1)%Q (3#1)%Q (2#1)%Q (5#1)%Q 2 3 5
          (lbuild QOps 4 5 (fun _ _ => (9#1)%Q)) (lbuild QOps 5 1 (fun _ _ => (9#1)%Q)) = None.
Proof. vm_compute. split; reflexivity. Qed.

Print Assumptions C16_state_dimension.
Print Assumptions C16_F_closed_form.
Print Assumptions C16_Q_closed_form.
Print Assumptions C16_Q_block_minors.
Print Assumptions C16_Q_spd.
Print Assumptions C16_Q_invertible.
Print Assumptions C16_noise_dim.
Print Assumptions C16_noise_cov.
Print Assumptions C16_motion.
Print Assumptions C16_transition_density.
Print Assumptions C16_trajectory_wna.
Print Assumptions C16_selector_matrix.
Print Assumptions C16_sensor_noise_cov.
Print Assumptions C16_sensor_descriptions.
Print Assumptions C16_grid_refusal.
Print Assumptions C16_grid_positions.
Print Assumptions C16_grid_spans.
Print Assumptions C16_grid_weights.
Print Assumptions C16_grid_overwrites.
Print Assumptions C16_factor_exists.
Print Assumptions C16_lti_state_ctor_validation.
Print Assumptions C16_lti_meas_ctor_validation.
Print Assumptions C16_selector_ctor_validation.
Print Assumptions C16_selector_rejects_out_of_range.
Print Assumptions C16_grid_rows_refusal.
Print Assumptions C16_grid_rows_four.
Print Assumptions C16_trajectory.
Print Assumptions C16_zero_length_has_no_state.
Print Assumptions C16_trajectory_recurrence.
Print Assumptions C16_serving_state.
Print Assumptions C16_serving.
Print Assumptions C16_reset_restarts.
Print Assumptions C16_call_output.
Print Assumptions C16_sensor_freeze.
Print Assumptions C16_sensor_serving.
Print Assumptions C16_sensor_draws.
Print Assumptions C16_executed_F_is_theorem_model.
Print Assumptions C16_executed_Q_is_theorem_model.
Print Assumptions C16_executed_sqrtQ_is_theorem_model.
Print Assumptions C16_executed_noise_sample_is_theorem_model.
Print Assumptions C16_executed_motion_is_theorem_model.
Print Assumptions C16_executed_transition_density_is_theorem_model.
Print Assumptions C16_executed_spec_density_is_theorem_model.
Print Assumptions C16_executed_factor_contract_is_theorem_model.
Print Assumptions C16_executed_lti_state_ctor_is_theorem_model.
Print Assumptions C16_executed_lti_meas_ctor_is_theorem_model.
Print Assumptions C16_executed_selector_is_theorem_model.
Print Assumptions C16_executed_sensor_noise_is_theorem_model.
Print Assumptions C16_executed_trajectory_is_theorem_model.
Print Assumptions C16_executed_trajectory_columns_is_theorem_model.
Print Assumptions C16_executed_serving_is_theorem_model.
Print Assumptions C16_executed_sensor_output_is_theorem_model.
Print Assumptions C16_executed_sensor_descriptions_is_theorem_model.
Print Assumptions C16_executed_user_model_trajectory_is_theorem_model.
Print Assumptions C16_executed_grid_is_theorem_model.
