Require Import ZArith List.
Require Import BFL.Ops BFL.C16_Model BFL.C16_Proofs.

Section C16.
Variable O : MatOps.
Theorem C16_lti_state_ctor_validation fr fc qr qc (F : M O fr fc) (Q : M O qr qc) :
  match lti_state_ctor F Q with
  | inr (F', Q') => F' = F /\ Q' = Q /\ 0 < fr /\ fr = fc /\ qr = qc /\ fr = qr
  | inl ErrFEmpty => fr = 0 \/ fc = 0
  | inl ErrQEmpty => ~ (fr = 0 \/ fc = 0) /\ (qr = 0 \/ qc = 0)
  | inl ErrFNotSquare => 0 < fr /\ 0 < fc /\ 0 < qr /\ 0 < qc /\ fr <> fc
  | inl ErrQNotSquare => 0 < fr /\ fr = fc /\ 0 < qr /\ 0 < qc /\ qr <> qc
  | inl ErrFQMismatch => 0 < fr /\ fr = fc /\ 0 < qr /\ qr = qc /\ fr <> qr
  end.
Proof. exact (lti_state_ctor_spec O fr fc qr qc F Q). Qed.
End C16.
Print Assumptions C16_lti_state_ctor_validation.
