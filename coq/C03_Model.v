(* C03_Model.v — model of the unscented transform:
     UTWeight / unscented_weights          (sigma_point.cpp:21-81)
     VectorDescription::dof_size           (VectorDescription.cpp:72-82)
     sigma_point()                         (sigma_point.cpp:84-122)
     unscented_transform(), all overloads  (sigma_point.cpp:125-314)
     directional_add / _sub / _mean        (directional_statistics.cpp:17-42)
     rotation_vector_to_quaternion, quaternion_to_rotation_vector,
     sum_quaternion_rotation_vector, diff_quaternion, mean_quaternion (utils.h:98-268)
     GaussianMixture::augmentWithNoise at component level (GaussianMixture.cpp:190-252;
       the relocation inside the concatenated storage is C11's subject)
   Polymorphic in the arithmetic (MatOps).  Sigma points are a LIST of columns;
   a mixture is a list of (mean, covariance) pairs.  Row dimensions (d storage
   rows, dc covariance / tangent rows, dx = dc - noise rows) are explicit
   parameters; the entry points instantiate them from the layout by l_dim,
   l_dcov, l_dx.  No proofs here. *)
Require Import ZArith List Bool Arith.
Require Import BFL.Ops.
Import ListNotations.
Local Open Scope bool_scope.

(* layout of a vector: GaussianMixture{dim_linear, dim_circular, use_quaternion, dim_noise}
   and VectorDescription{linear, circular, noise components, circular_type} *)
Record layout := mkLayout { l_lin : nat; l_circ : nat; l_quat : bool; l_noise : nat }.
(* dim_circular_component: 4 numbers per quaternion, 1 per angle *)
Definition l_cw (L : layout) : nat := if l_quat L then 4 else 1.
(* tangent-space width of one circular component *)
Definition l_tw (L : layout) : nat := if l_quat L then 3 else 1.
(* GaussianMixture::dim / VectorDescription::total_size *)
Definition l_dim (L : layout) : nat := (l_circ L * l_cw L + l_lin L) + l_noise L.
(* dim_covariance - dim_noise *)
Definition l_dx (L : layout) : nat := l_circ L * l_tw L + l_lin L.
(* GaussianMixture::dim_covariance / VectorDescription::dof_size *)
Definition l_dcov (L : layout) : nat := l_dx L + l_noise L.
(* VectorDescription::noiseless_description / add_noise_components *)
Definition l_noiseless (L : layout) : layout := mkLayout (l_lin L) (l_circ L) (l_quat L) 0.
Definition l_add_noise (L : layout) (q : nat) : layout :=
  mkLayout (l_lin L) (l_circ L) (l_quat L) (l_noise L + q).

Section UT.
Variable O : MatOps.
Notation S := (sc O).
Notation t := (T (sc O)).

(* ------------------------------------------------------------------ *)
(* weights                                                             *)
Record utw := mkUtw { w_mean : list t; w_cov : list t; w_c : t }.

(* lambda = pow(alpha, 2) * (n + kappa) - n *)
Definition ut_lambda (n : nat) (alpha kappa : t) : t :=
  ssub S (smul S (smul S alpha alpha) (sadd S (sofnat S n) kappa)) (sofnat S n).

Definition ut_weights (n : nat) (alpha beta kappa : t) : utw :=
  let lam := ut_lambda n alpha kappa in
  let c := sadd S (sofnat S n) lam in
  let w0 := sdiv S lam c in
  let wi := sdiv S (s1 S) (smul S (s2 S) c) in
  mkUtw (w0 :: repeat wi (2 * n))
        (sadd S w0 (sadd S (ssub S (s1 S) (smul S alpha alpha)) beta) :: repeat wi (2 * n))
        c.

(* UTWeight(VectorDescription, ...) *)
Definition ut_weights_of (L : layout) (alpha beta kappa : t) : utw :=
  ut_weights (l_dcov L) alpha beta kappa.

(* ------------------------------------------------------------------ *)
(* scalar helpers: circle                                              *)
Definition colget {r} (x : M O r 1) (i : nat) : t := mget x i 0.

(* arg(exp(j x)) *)
Definition wrap (x : t) : t := satan2 S (ssin S x) (scos S x).
Definition dir_add (a b : t) : t := wrap (sadd S a b).
Definition dir_sub (a b : t) : t := wrap (sadd S a (sopp S b)).
(* one row of directional_mean: a single column is returned as is *)
Definition dir_mean (ws angles : list t) : t :=
  match angles with
  | [a] => a
  | _ => satan2 S (ssum S (map (fun p => smul S (ssin S (snd p)) (fst p)) (combine ws angles)))
                  (ssum S (map (fun p => smul S (scos S (snd p)) (fst p)) (combine ws angles)))
  end.

(* ------------------------------------------------------------------ *)
(* scalar helpers: quaternions (a, b, c, d), a the real part           *)
Definition quat := (t * t * t * t)%type.
Definition rvec := (t * t * t)%type.
Definition q_nth (q : quat) (k : nat) : t :=
  let '(a, b, c, d) := q in match k with 0 => a | 1 => b | 2 => c | _ => d end.
Definition rv_nth (r : rvec) (k : nat) : t :=
  let '(x, y, z) := r in match k with 0 => x | 1 => y | _ => z end.
Definition quat_at {r} (x : M O r 1) (o : nat) : quat :=
  (colget x o, colget x (o + 1), colget x (o + 2), colget x (o + 3)).
Definition rv_at {r} (x : M O r 1) (o : nat) : rvec :=
  (colget x o, colget x (o + 1), colget x (o + 2)).
Definition q_col (q : quat) : M O 4 1 := mbuild 4 1 (fun k _ => q_nth q k).

Definition eps4 : t := srat S 1 10000.   (* 1e-4 *)

(* Eigen::Quaternion product *)
Definition qmul (p q : quat) : quat :=
  let '(aw, ax, ay, az) := p in let '(bw, bx, by_, bz) := q in
  let m := smul S in let a := sadd S in let s := ssub S in
  (s (s (s (m aw bw) (m ax bx)) (m ay by_)) (m az bz),
   s (a (a (m aw bx) (m ax bw)) (m ay bz)) (m az by_),
   s (a (a (m aw by_) (m ay bw)) (m az bx)) (m ax bz),
   s (a (a (m aw bz) (m az bw)) (m ax by_)) (m ay bx)).
Definition qconj (q : quat) : quat :=
  let '(a, b, c, d) := q in (a, sopp S b, sopp S c, sopp S d).
Definition norm3 (x y z : t) : t :=
  ssqrt S (sadd S (sadd S (smul S x x) (smul S y y)) (smul S z z)).

(* rotation_vector_to_quaternion, one column *)
Definition rotvec_to_quat (r : rvec) : quat :=
  let '(x, y, z) := r in
  let n := norm3 x y z in
  if sltb S eps4 n then
    let h := sdiv S n (s2 S) in
    let sn := ssin S h in
    (scos S h, sdiv S (smul S sn x) n, sdiv S (smul S sn y) n, sdiv S (smul S sn z) n)
  else (s1 S, s0 S, s0 S, s0 S).

(* quaternion_to_rotation_vector, one column *)
Definition quat_to_rotvec (q : quat) : rvec :=
  let '(w, x, y, z) := q in
  let n := norm3 x y z in
  if sltb S eps4 n then
    let k := if sltb S w (s0 S) then smul S (sopp S (s2 S)) (sacos S (sopp S w))
             else smul S (s2 S) (sacos S w) in
    (sdiv S (smul S k x) n, sdiv S (smul S k y) n, sdiv S (smul S k z) n)
  else (s0 S, s0 S, s0 S).

(* sum_quaternion_rotation_vector: exp(r/2) * q ; diff_quaternion: 2 log(ql * conj qr) *)
Definition qsum (q : quat) (r : rvec) : quat := qmul (rotvec_to_quat r) q.
Definition qdiff (ql qr : quat) : rvec := quat_to_rotvec (qmul ql (qconj qr)).

(* mean_quaternion: eigenvector of sum_i w_i q_i q_i^T for the largest eigenvalue *)
Definition quat_outer (ws : list t) (qs : list quat) : M O 4 4 :=
  fold_left (fun acc p => madd acc (mscale (fst p) (mmul (q_col (snd p)) (mtr (q_col (snd p))))))
            (combine ws qs) (mzero 4 4).
Definition mean_quaternion (ws : list t) (qs : list quat) : M O 4 1 := meigmax (quat_outer ws qs).

(* ------------------------------------------------------------------ *)
(* weighted sums over lists of columns                                 *)
(* Y * w *)
Definition wsum {r} (ws : list t) (xs : list (M O r 1)) : M O r 1 :=
  fold_left (fun acc p => madd acc (mscale (fst p) (snd p))) (combine ws xs) (mzero r 1).
(* U * diag(w) * V^T *)
Definition wouter {a b} (ws : list t) (us : list (M O a 1)) (vs : list (M O b 1)) : M O a b :=
  fold_left (fun acc p => madd acc (mscale (fst p) (mmul (fst (snd p)) (mtr (snd (snd p))))))
            (combine ws (combine us vs)) (mzero a b).

(* ------------------------------------------------------------------ *)
(* sigma points of one component, sigma_point.cpp:90-118               *)
(* storage row i of "mean (+) perturbation"; the regions are topRows(dim_linear),
   middleRows(dim_linear, circular size), bottomRows(dim_noise); a row no
   region covers keeps the zero the matrix was allocated with *)
Definition add_mean_row (L : layout) (d dc : nat) (central : bool)
           (m : M O d 1) (p : M O dc 1) (i : nat) : t :=
  if i <? l_lin L then sadd S (colget p i) (colget m i)
  else if i <? l_lin L + l_circ L * l_cw L then
    if l_quat L then
      let j := (i - l_lin L) / 4 in
      let k := (i - l_lin L) mod 4 in
      if central then colget m i     (* first sigma point forced to the mean quaternion *)
      else q_nth (qsum (quat_at m (l_lin L + j * 4)) (rv_at p (l_lin L + j * 3))) k
    else dir_add (colget p i) (colget m i)
  else if d - l_noise L <=? i then sadd S (colget p (i - (d - dc))) (colget m i)
  else s0 S.

Definition add_mean (L : layout) (d dc : nat) (central : bool) (m : M O d 1) (p : M O dc 1)
  : M O d 1 := mbuild d 1 (fun i _ => add_mean_row L d dc central m p i).

(* perturbations << 0, sqrt(c) * A, -sqrt(c) * A   with A = U sqrt(S) of the SVD (oracle msqrt) *)
Definition perturbations (dc : nat) (c : t) (P : M O dc dc) : list (M O dc 1) :=
  let A := msqrt P in
  let pA := mscale (ssqrt S c) A in
  let nA := mscale (sopp S (ssqrt S c)) A in
  map (fun k => mcol k pA) (seq 0 dc) ++ map (fun k => mcol k nA) (seq 0 dc).

Definition sigma_comp (L : layout) (d dc : nat) (c : t) (m : M O d 1) (P : M O dc dc)
  : list (M O d 1) :=
  add_mean L d dc true m (mzero dc 1)
  :: map (add_mean L d dc false m) (perturbations dc c P).

(* sigma_point(): the columns of all components, component after component *)
Definition sigma_points (L : layout) (d dc : nat) (c : t) (comps : list (M O d 1 * M O dc dc))
  : list (M O d 1) :=
  concat (map (fun mc => sigma_comp L d dc c (fst mc) (snd mc)) comps).

(* ------------------------------------------------------------------ *)
(* the transform of one component, sigma_point.cpp:158-199             *)
(* output mean: linear rows Y * wm, angles directional_mean, quaternions mean_quaternion *)
Definition out_mean (L : layout) (p : nat) (wm : list t) (Ys : list (M O p 1)) : M O p 1 :=
  let lm := wsum wm Ys in
  mbuild p 1 (fun i _ =>
    if i <? l_lin L then colget lm i
    else if i <? l_lin L + l_circ L * l_cw L then
      if l_quat L then
        let j := (i - l_lin L) / 4 in
        let k := (i - l_lin L) mod 4 in
        colget (mean_quaternion wm (map (fun y => quat_at y (l_lin L + j * 4)) Ys)) k
      else dir_mean wm (map (fun y => colget y i) Ys)
    else s0 S).

(* tangent-space offset of a vector from a reference: rows [0, lin) plain
   difference, then directional_sub on angles / diff_quaternion on quaternion
   blocks.  Used with the output layout (offsets_from_mean) and with the
   input layout restricted to its non-noise rows (input_offsets_from_mean). *)
Definition offset_row (L : layout) {p} (y ref : M O p 1) (i : nat) : t :=
  if i <? l_lin L then ssub S (colget y i) (colget ref i)
  else if i <? l_lin L + l_circ L * l_tw L then
    if l_quat L then
      let j := (i - l_lin L) / 3 in
      let k := (i - l_lin L) mod 3 in
      rv_nth (qdiff (quat_at y (l_lin L + j * 4)) (quat_at ref (l_lin L + j * 4))) k
    else dir_sub (colget y i) (colget ref i)
  else s0 S.
Definition offsets (L : layout) {p} (pc : nat) (y ref : M O p 1) : M O pc 1 :=
  mbuild pc 1 (fun i _ => offset_row L y ref i).

Record ut_comp (p pc dx : nat) := mkUtComp {
  uc_mean : M O p 1;        (* output.mean(i) *)
  uc_cov : M O pc pc;       (* output.covariance(i) *)
  uc_cross : M O dx pc      (* cross_covariance.middleCols(pc * i, pc) *)
}.
Arguments mkUtComp {p pc dx}. Arguments uc_mean {p pc dx}. Arguments uc_cov {p pc dx}.
Arguments uc_cross {p pc dx}.

Definition ut_component (Lin Lout : layout) {d p} (pc dx : nat) (w : utw)
           (m : M O d 1) (Xs : list (M O d 1)) (Ys : list (M O p 1)) : ut_comp p pc dx :=
  let ybar := out_mean Lout p (w_mean w) Ys in
  let offs := map (fun y => offsets Lout pc y ybar) Ys in
  let ioffs := map (fun x => offsets Lin dx x m) Xs in
  mkUtComp ybar (wouter (w_cov w) offs offs) (wouter (w_cov w) ioffs offs).

(* middleCols(base * i, base) of a matrix kept as a list of columns *)
Definition chunk {A} (base i : nat) (l : list A) : list A := firstn base (skipn (base * i) l).

(* the transformed mixture: components, and the uniform weights of the freshly
   constructed output GaussianMixture *)
Record ut_result (p pc dx : nat) := mkUtResult {
  ur_comps : list (ut_comp p pc dx);
  ur_weights : list t
}.
Arguments mkUtResult {p pc dx}. Arguments ur_comps {p pc dx}. Arguments ur_weights {p pc dx}.

(* lines 148-202, once the propagated sigma points Y are available *)
Definition ut_core (Lin Lout : layout) {d dc p} (pc dx : nat) (w : utw)
           (comps : list (M O d 1 * M O dc dc)) (X : list (M O d 1)) (Y : list (M O p 1))
  : ut_result p pc dx :=
  let base := 2 * dc + 1 in
  let k := length comps in
  mkUtResult
    (map (fun ic : nat * (M O d 1 * M O dc dc) =>
            ut_component Lin Lout pc dx w (fst (snd ic)) (chunk base (fst ic) X) (chunk base (fst ic) Y))
         (combine (seq 0 k) comps))
    (repeat (sdiv S (s1 S) (sofnat S k)) k).

(* unscented_transform(input, weight, FunctionEvaluation): the function sees all
   sigma points of all components at once; a failed evaluation yields no belief *)
Definition ut_generic (Lin Lout : layout) {d dc p} (pc dx : nat) (w : utw)
           (comps : list (M O d 1 * M O dc dc))
           (f : list (M O d 1) -> option (list (M O p 1))) : option (ut_result p pc dx) :=
  let X := sigma_points Lin d dc (w_c w) comps in
  match f X with
  | None => None
  | Some Y => Some (ut_core Lin Lout pc dx w comps X Y)
  end.

(* adding the noise covariance to every component (additive overloads) *)
Definition add_noise_cov {p pc dx} (N : M O pc pc) (r : ut_result p pc dx) : ut_result p pc dx :=
  mkUtResult (map (fun u => mkUtComp (uc_mean u) (madd (uc_cov u) N) (uc_cross u)) (ur_comps r))
             (ur_weights r).

(* overload for StateModel: the lambda wrapped around motion() always reports success and
   the caller discards the flag (std::tie(std::ignore, ...)): no failure path *)
Definition ut_state (Lin Lout : layout) {d dc p} (pc dx : nat) (w : utw)
           (comps : list (M O d 1 * M O dc dc)) (motion : list (M O d 1) -> list (M O p 1))
  : ut_result p pc dx :=
  let X := sigma_points Lin d dc (w_c w) comps in
  ut_core Lin Lout pc dx w comps X (motion X).

(* overload for AdditiveStateModel: propagate() (flag constant true, discarded as above),
   then covariance(i) += Q *)
Definition ut_additive_state (Lin Lout : layout) {d dc p} (pc dx : nat) (w : utw)
           (comps : list (M O d 1 * M O dc dc)) (propagate : list (M O d 1) -> list (M O p 1))
           (Q : M O pc pc) : ut_result p pc dx :=
  add_noise_cov Q (ut_state Lin Lout pc dx w comps propagate).

(* overload for MeasurementModel: the validity flag of predictedMeasure is forwarded *)
Definition ut_meas (Lin Lout : layout) {d dc p} (pc dx : nat) (w : utw)
           (comps : list (M O d 1 * M O dc dc))
           (predicted : list (M O d 1) -> option (list (M O p 1))) : option (ut_result p pc dx) :=
  ut_generic Lin Lout pc dx w comps predicted.

(* overload for AdditiveMeasurementModel: flag forwarded; on failure it returns
   before the post-processing, otherwise covariance(i) += R *)
Definition ut_additive_meas (Lin Lout : layout) {d dc p} (pc dx : nat) (w : utw)
           (comps : list (M O d 1 * M O dc dc))
           (predicted : list (M O d 1) -> option (list (M O p 1))) (R : M O pc pc)
  : option (ut_result p pc dx) :=
  match ut_generic Lin Lout pc dx w comps predicted with
  | None => None
  | Some r => Some (add_noise_cov R r)
  end.

(* ------------------------------------------------------------------ *)
(* GaussianMixture::augmentWithNoise, one component: mean [m; 0],
   covariance blockdiag(P, Q) *)
Definition augment_comp {d dc q} (Q : M O q q) (mc : M O d 1 * M O dc dc)
  : M O (d + q) 1 * M O (dc + q) (dc + q) :=
  (mvcat (fst mc) (mzero q 1),
   mvcat (mhcat (snd mc) (mzero dc q)) (mhcat (mzero q dc) Q)).

(* the affine functions of the correspondence harness, column by column *)
Definition affine_cols {d p} (A : M O p d) (b : M O p 1) (X : list (M O d 1)) : list (M O p 1) :=
  map (fun x => madd (mmul A x) b) X.

(* a non-affine family of the correspondence harness: A x + b + g o (G x) o (G x)
   (component-wise products); with it the central sigma point is off the output mean,
   so the central covariance weight matters *)
Definition quadratic_cols {d p} (A G : M O p d) (b g : M O p 1) (X : list (M O d 1)) : list (M O p 1) :=
  map (fun x => let u := mmul G x in
                madd (madd (mmul A x) b)
                     (mbuild p 1 (fun i _ => smul S (colget g i) (smul S (colget u i) (colget u i))))) X.

(* harness-side write mix.mean().bottomRows(q) = nm.col(i): non-zero means on the noise rows *)
Definition set_noise_rows {d dc q} (nm : M O q 1) (mc : M O d 1 * M O dc dc) : M O d 1 * M O dc dc :=
  (mbuild d 1 (fun i _ => if i <? d - q then colget (fst mc) i else colget nm (i - (d - q))), snd mc).
End UT.

Arguments mkUtw {_}. Arguments w_mean {_}. Arguments w_cov {_}. Arguments w_c {_}.
Arguments ut_lambda {_}. Arguments ut_weights {_}. Arguments ut_weights_of {_}.
Arguments colget {_ r}. Arguments wrap {_}. Arguments dir_add {_}. Arguments dir_sub {_}. Arguments dir_mean {_}.
Arguments qmul {_}. Arguments qconj {_}. Arguments rotvec_to_quat {_}. Arguments quat_to_rotvec {_}.
Arguments qsum {_}. Arguments qdiff {_}. Arguments quat_outer {_}. Arguments mean_quaternion {_}.
Arguments quat_at {_ r}. Arguments rv_at {_ r}. Arguments q_nth {_}. Arguments rv_nth {_}. Arguments q_col {_}.
Arguments wsum {_ r}. Arguments wouter {_ a b}.
Arguments add_mean_row {_}. Arguments add_mean {_}. Arguments perturbations {_}.
Arguments sigma_comp {_}. Arguments sigma_points {_}.
Arguments out_mean {_}. Arguments offset_row {_} L {p}. Arguments offsets {_} L {p}.
Arguments mkUtComp {_ p pc dx}. Arguments uc_mean {_ p pc dx}. Arguments uc_cov {_ p pc dx}.
Arguments uc_cross {_ p pc dx}.
Arguments mkUtResult {_ p pc dx}. Arguments ur_comps {_ p pc dx}. Arguments ur_weights {_ p pc dx}.
Arguments ut_component {_} Lin Lout {d p}. Arguments chunk {A}.
Arguments ut_core {_} Lin Lout {d dc p}. Arguments ut_generic {_} Lin Lout {d dc p}.
Arguments add_noise_cov {_ p pc dx}.
Arguments ut_state {_} Lin Lout {d dc p}. Arguments ut_additive_state {_} Lin Lout {d dc p}.
Arguments ut_meas {_} Lin Lout {d dc p}. Arguments ut_additive_meas {_} Lin Lout {d dc p}.
Arguments augment_comp {_ d dc q}. Arguments affine_cols {_ d p}.
Arguments quadratic_cols {_ d p}. Arguments set_noise_rows {_ d dc q}.
