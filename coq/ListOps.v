(* ListOps.v — the executable instance of MatOps: matrices are lists of rows
   over an arbitrary scalar record.  Structural code only; the two numerical
   routines (inverse, determinant) are a Gauss-Jordan elimination with partial
   pivoting written here over SOps; the square-root and eigenvector oracles
   are parameters (supplied by the OCaml driver).  Nothing here is proved to
   meet a contract: theorems are about the model at the MathComp / R
   instances, this instance is what the correspondence check runs. *)
Require Import ZArith List.
Require Import BFL.Ops.
Import ListNotations.

Section L.
Variable S : SOps.
Notation t := (T S).
Definition lrow := list t.
Definition lmx := list lrow.

Definition sabs (x : t) : t := if sltb S x (s0 S) then sopp S x else x.

Definition lbuild (m n : nat) (f : nat -> nat -> t) : lmx :=
  map (fun i => map (fun j => f i j) (seq 0 n)) (seq 0 m).
Definition lget (A : lmx) (i j : nat) : t := nth j (nth i A []) (s0 S).

Fixpoint zipw (f : t -> t -> t) (a b : lrow) : lrow :=
  match a, b with
  | x :: a', y :: b' => f x y :: zipw f a' b'
  | _, _ => []
  end.
Fixpoint zipw2 (f : t -> t -> t) (a b : lmx) : lmx :=
  match a, b with
  | x :: a', y :: b' => zipw f x y :: zipw2 f a' b'
  | _, _ => []
  end.

Definition ltr (m n : nat) (A : lmx) : lmx := lbuild n m (fun i j => lget A j i).
Definition ldot (r c : lrow) : t :=
  fold_left (fun acc p => sadd S acc (smul S (fst p) (snd p))) (combine r c) (s0 S).
Definition lmul (m n p : nat) (A B : lmx) : lmx :=
  let Bt := ltr n p B in map (fun r => map (fun c => ldot r c) Bt) (firstn m A).

Definition lhcat (A B : lmx) : lmx := map (fun p => fst p ++ snd p) (combine A B).
Definition lvcat (A B : lmx) : lmx := A ++ B.

(* Gauss-Jordan on an augmented matrix [A | B]; returns the reduced rows and
   the determinant of A accumulated from the pivots. *)
Fixpoint argmax_col (k : nat) (rows : lmx) (i best : nat) (bestv : t) : nat :=
  match rows with
  | [] => best
  | r :: rs =>
      let v := sabs (nth k r (s0 S)) in
      if sltb S bestv v then argmax_col k rs (Datatypes.S i) i v
      else argmax_col k rs (Datatypes.S i) best bestv
  end.

Definition swap_rows (i j : nat) (A : lmx) : lmx :=
  map (fun idx => nth (if Nat.eqb idx i then j else if Nat.eqb idx j then i else idx) A [])
      (seq 0 (length A)).

Definition gj_step (st : lmx * t) (k : nat) : lmx * t :=
  let '(A, d) := st in
  let p := argmax_col k (skipn k A) k k (sabs (lget A k k)) in
  let A1 := if Nat.eqb p k then A else swap_rows k p A in
  let d1 := if Nat.eqb p k then d else sopp S d in
  let rk := nth k A1 [] in
  let piv := nth k rk (s0 S) in
  let rk' := map (fun x => sdiv S x piv) rk in
  let A2 := map (fun ir =>
                   let '(i, r) := ir in
                   if Nat.eqb i k then rk'
                   else let c := nth k r (s0 S) in zipw (fun x y => ssub S x (smul S c y)) r rk')
                (combine (seq 0 (length A1)) A1) in
  (A2, smul S d1 piv).

Definition gauss_jordan (n : nat) (Aug : lmx) : lmx * t :=
  fold_left gj_step (seq 0 n) (Aug, s1 S).

Definition lid (n : nat) : lmx :=
  lbuild n n (fun i j => if Nat.eqb i j then s1 S else s0 S).
Definition linv (n : nat) (A : lmx) : lmx :=
  map (skipn n) (fst (gauss_jordan n (lhcat (firstn n A) (lid n)))).
Definition ldet (n : nat) (A : lmx) : t :=
  snd (gauss_jordan n (firstn n A)).
(* X with A X = B, for callers that want a solve rather than an inverse *)
Definition lsolve (n : nat) (A B : lmx) : lmx :=
  map (skipn n) (fst (gauss_jordan n (lhcat (firstn n A) B))).

Variable sqrt_oracle : nat -> lmx -> lmx.
Variable eig_oracle : nat -> lmx -> lmx.

Definition ListMat : MatOps := {|
  sc := S;
  M := fun _ _ => lmx;
  mbuild := lbuild;
  mget := fun _ _ A i j => lget A i j;
  mzero := fun m n => lbuild m n (fun _ _ => s0 S);
  mid := lid;
  madd := fun _ _ => zipw2 (sadd S);
  msub := fun _ _ => zipw2 (ssub S);
  mopp := fun _ _ => map (map (sopp S));
  mscale := fun _ _ c => map (map (smul S c));
  mmul := lmul;
  mtr := ltr;
  mhcat := fun _ _ _ => lhcat;
  mvcat := fun _ _ _ => lvcat;
  minv := linv;
  mdet := ldet;
  msqrt := sqrt_oracle;
  meigmax := eig_oracle
|}.
End L.

(* Exact sanity run over Q-like integers is not possible without division;
   a smoke test over Z with truncating division on a unimodular matrix. *)
Definition ZOps : SOps := {|
  T := Z; s0 := 0%Z; s1 := 1%Z; sadd := Z.add; ssub := Z.sub; smul := Z.mul; sdiv := Z.div;
  sopp := Z.opp; sleb := Z.leb; sltb := Z.ltb; sofZ := fun z => z;
  ssqrt := Z.sqrt; sexp := fun z => z; sln := fun z => z; scos := fun z => z; ssin := fun z => z;
  sacos := fun z => z; satan2 := fun y _ => y; spi := 3%Z; stiny := 0%Z |}.

(* Exact rational scalars: used by Examples and by vm_compute witnesses.
   The transcendental fields are dummies (never used over Q). *)
Require Import QArith Qreduction.
Definition Qleb' (a b : Q) : bool := Qle_bool a b.
Definition Qltb' (a b : Q) : bool := negb (Qle_bool b a).
Definition QOps : SOps := {|
  T := Q; s0 := 0%Q; s1 := 1%Q;
  sadd := fun a b => Qred (a + b); ssub := fun a b => Qred (a - b);
  smul := fun a b => Qred (a * b); sdiv := fun a b => Qred (a / b);
  sopp := fun a => Qred (- a); sleb := Qleb'; sltb := Qltb'; sofZ := inject_Z;
  ssqrt := fun z => z; sexp := fun z => z; sln := fun z => z; scos := fun z => z;
  ssin := fun z => z; sacos := fun z => z; satan2 := fun y _ => y; spi := 3%Q; stiny := 0%Q |}.

Example linv_smoke :
  let A := [[2;1];[1;3]]%Q in
  linv QOps 2 A = [[3#5; -1#5];[-1#5; 2#5]]%Q /\ ldet QOps 2 A = 5%Q
  /\ lmul QOps 2 2 2 A (linv QOps 2 A) = [[1;0];[0;1]]%Q.
Proof. vm_compute. repeat split. Qed.

(* boolean equality of rational matrices, for Examples closed by vm_compute *)
Fixpoint qrow_eqb (a b : list Q) : bool :=
  match a, b with
  | [], [] => true
  | x :: a', y :: b' => Qeq_bool x y && qrow_eqb a' b'
  | _, _ => false
  end.
Fixpoint qmx_eqb (A B : list (list Q)) : bool :=
  match A, B with
  | [], [] => true
  | r :: A', s :: B' => qrow_eqb r s && qmx_eqb A' B'
  | _, _ => false
  end.
