(* C09_Extract.v — executable entry points of the C09 lifecycle model.
   ExtrOcamlBasic only.  [c09_unused] only pulls the datatypes that the shared
   ocaml/float_ops.ml fragment mentions (sOps, z, positive) into the extracted
   module; the lifecycle model itself uses no arithmetic interface. *)
Require Import ZArith List.
Require Import BFL.Ops BFL.C09_Model.
Require Import Extraction ExtrOcamlBasic.

Definition c09_unused (S : SOps) (x : Z) : T S := sofZ S x.

Extraction "C09_model.ml" c09_unused init step do_token run_word finish free_run thread_token
  good all_good last_thr pend rbm tdm rae runreq last_rc exit_cause observable mutex_free complete_reboot run_moves qstep_ok can_be_false.
