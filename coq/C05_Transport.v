(* C05_Transport.v — the serial unscented correction model (C05_Model.v: sukf_correct, its
   likelihood sukf_likelihood through the UVR density, and the spec side ukf_correct /
   ukf_likelihood_comp) executed at the LIST instance  ListMat (FOps tr) sqL egL  (arbitrary
   list-level oracles; the instance that is extracted and run) represents what the same Gallina
   terms compute at the MathComp instance  MxMat tr sq eg  (the instance the C05 theorems are
   about), on well-formed inputs, under
     - the correspondence of the square-root oracles on the covariances actually factored,
     - the correspondence of the measurement functions (corresponding columns to
       corresponding columns),
     - the invertibility, on the MathComp side, of every matrix the step inverts: the noise
       blocks, I + sum_j Y_j^T R_j^-1 Y_j (exactly the matrix of Properties_C05.C05_Cinv_invertible),
       Pyy for the spec side (C05_Pyy_invertible); for the likelihood: the argument of std::log
       is non-zero (C05_sukf_log_argument_positive), which implies the invertibility of
       everything the UVR density inverts.
   Section SPD derives all invertibility premises for a measurement of k blocks of size s > 0
   with SPD noise blocks (lemmas of C05_Proofs.v).  Axiom-free. *)
Require Import ZArith List Bool Arith.
Require Import BFL.Ops BFL.ListOps BFL.Density BFL.C05_Model.
From mathcomp Require Import all_ssreflect all_algebra.
Require Import BFL.MxOps BFL.LinAlg BFL.ListOpsCorrect BFL.C02_Transport BFL.C01_Transport BFL.UT_Transport.
Require Import BFL.C05_Proofs.
Set Implicit Arguments.
Unset Strict Implicit.
Unset Printing Implicit Defensive.
Import GRing.Theory Num.Theory.
Local Open Scope ring_scope.

Lemma F2_map_in (A B : Type) (R : A -> B -> Prop) (f : nat -> A) (g : nat -> B) (s : list nat) :
  (forall i, List.In i s -> R (f i) (g i)) -> List.Forall2 R (List.map f s) (List.map g s).
Proof.
elim: s => [|i s IH] H /=; first exact: List.Forall2_nil.
apply: List.Forall2_cons; first by apply: H; left.
by apply: IH => j Hj; apply: H; right.
Qed.

Lemma fold_left_ext_in (A B : Type) (f g : A -> B -> A) (l : list B) (a : A) :
  (forall a b, List.In b l -> f a b = g a b) -> List.fold_left f l a = List.fold_left g l a.
Proof.
elim: l a => [|b l IH] a H //=.
rewrite H; last by left.
by apply: IH => a' b' Hb; apply: H; right.
Qed.

Lemma in_seq0 i q : List.In i (List.seq 0 q) -> (i < q)%N.
Proof. by move/List.in_seq => [_ /ltP]. Qed.

(* ---- the UVR density, cut into named pieces (every arithmetic instance) ---- *)
Section UVRPieces.
Variable O : MatOps.
Notation Sc := (sc O).
Variables (s m L : nat).

Definition u_Rblk (R : M O s m) (i : nat) : M O s s := mslice 0 (s * i) s s R.
Definition u_invR (R : M O s m) : list (M O s s) :=
  if Nat.eqb m s then let single := minv (u_Rblk R 0) in List.map (fun _ => single) (List.seq 0 (Nat.div m s))
  else List.map (fun i => minv (u_Rblk R i)) (List.seq 0 (Nat.div m s)).
Definition u_iR (R : M O s m) (i : nat) : M O s s := List.nth i (u_invR R) (mzero s s).
Definition u_VinvR (V : M O L m) (R : M O s m) : M O L m :=
  mbuild L m (fun a b =>
    mget (List.nth (Nat.div b s)
                   (List.map (fun i => mmul (mslice 0 (i * s) L s V) (u_iR R i)) (List.seq 0 (Nat.div m s)))
                   (mzero L s)) a (Nat.modulo b s)).
Definition u_dTinvR (diff : M O m 1) (R : M O s m) : M O 1 m :=
  mbuild 1 m (fun a b =>
    mget (List.nth (Nat.div b s)
                   (List.map (fun i => mmul (mtr (mslice (i * s) 0 s 1 diff)) (u_iR R i)) (List.seq 0 (Nat.div m s)))
                   (mzero 1 s)) a (Nat.modulo b s)).
Definition u_IVRU (U : M O m L) (V : M O L m) (R : M O s m) : M O L L :=
  madd (mid L) (mmul (u_VinvR V R) U).
Definition u_detR (R : M O s m) : T Sc :=
  if Nat.eqb m s then spow (mdet (u_Rblk R 0)) (Nat.div m s)
  else List.fold_left (fun acc i => smul Sc acc (mdet (u_Rblk R i))) (List.seq 0 (Nat.div m s)) (s1 Sc).

Lemma uvr_termsE (input mean : M O m 1) (U : M O m L) (V : M O L m) (R : M O s m) :
  uvr_terms input mean U V R =
  (smul Sc (u_detR R) (mdet (u_IVRU U V R)),
   mget (mmul (mmul (u_dTinvR (mcolwise_sub input mean) R)
                    (msub (mid m) (mmul (mmul U (minv (u_IVRU U V R))) (u_VinvR V R))))
              (mcolwise_sub input mean)) 0 0).
Proof. by []. Qed.
End UVRPieces.

Section T.
Variable F : realFieldType.
Variable tr : Transc F.
Variable sq : forall n, 'M[F]_n -> 'M[F]_n.
Variable eg : forall n, 'M[F]_n -> 'M[F]_(n,1).
Variables sqL egL : nat -> lmxF F -> lmxF F.
Let S := FOps tr.
Let OL := ListMat S sqL egL.
Let OM := MxMat tr sq eg.
Notation repr m n l A := (@C02_Transport.repr F m n l A) (only parsing).
Local Notation Rget := (@rget F tr sq eg sqL egL).
Local Notation Rbuild := (@rbuild F tr sq eg sqL egL).
Local Notation Radd := (@r_add F tr sq eg sqL egL).
Local Notation Rsub := (@r_sub F tr sq eg sqL egL).
Local Notation Rscale := (@r_scale F tr sq eg sqL egL).
Local Notation Rmul := (@r_mul F tr sq eg sqL egL).
Local Notation Rtr := (@r_tr F tr sq eg sqL egL).
Local Notation Rzero := (@r_zero F tr sq eg sqL egL).
Local Notation Rid := (@r_id F tr sq eg sqL egL).
Local Notation Rhcat := (@r_hcat F tr sq eg sqL egL).
Local Notation Rinv := (@r_inv F tr sq eg sqL egL).
Local Notation Rdet := (@r_det F tr sq eg sqL egL).
Local Notation Rslice := (@r_slice F tr sq eg sqL egL).
Local Notation Rcol := (@r_col F tr sq eg sqL egL).

(* ---- weights: scalars only ---- *)
Definition repr_utw5 (wl : utw OL) (wm : utw OM) : Prop :=
  [/\ wm0 wl = wm0 wm, wmi wl = wmi wm, wc0 wl = wc0 wm, wci wl = wci wm & utc wl = utc wm].

Lemma ut_weights5_transport n a b k : repr_utw5 (@ut_weights OL n a b k) (@ut_weights OM n a b k).
Proof. by []. Qed.

Lemma wm_atE wl wm j : repr_utw5 wl wm -> @wm_at OL wl j = @wm_at OM wm j.
Proof. by move=> [E0 Ei _ _ _]; rewrite /wm_at E0 Ei. Qed.
Lemma wc_atE wl wm j : repr_utw5 wl wm -> @wc_at OL wl j = @wc_at OM wm j.
Proof. by move=> [_ _ E0 Ei _]; rewrite /wc_at E0 Ei. Qed.

Lemma wmean_col_repr L wl wm : repr_utw5 wl wm -> repr L 1 (@wmean_col OL L wl) (@wmean_col OM L wm).
Proof. by move=> rw; apply: Rbuild => i j _ _; exact: wm_atE. Qed.
Lemma wcov_diag_repr L wl wm : repr_utw5 wl wm -> repr L L (@wcov_diag OL L wl) (@wcov_diag OM L wm).
Proof. by move=> rw; apply: Rbuild => i j _ _; rewrite (wc_atE _ rw). Qed.
Lemma sqrt_wcov_diag_repr L wl wm : repr_utw5 wl wm ->
  repr L L (@sqrt_wcov_diag OL L wl) (@sqrt_wcov_diag OM L wm).
Proof. by move=> rw; apply: Rbuild => i j _ _; rewrite (wc_atE _ rw). Qed.

(* ---- layout-aware column operations: mbuild over mget ---- *)
Lemma lay_add_repr r c nl lX (X : 'M[F]_(r,c)) lv (v : 'cV[F]_r) : repr r c lX X -> repr r 1 lv v ->
  repr r c (@lay_add OL r c nl lX lv) (@lay_add OM r c nl X v).
Proof. by move=> rX rv; apply: Rbuild => i j _ _; rewrite !(Rget rX) !(Rget rv). Qed.
Lemma lay_sub_repr r c nl lX (X : 'M[F]_(r,c)) lv (v : 'cV[F]_r) : repr r c lX X -> repr r 1 lv v ->
  repr r c (@lay_sub OL r c nl lX lv) (@lay_sub OM r c nl X v).
Proof. by move=> rX rv; apply: Rbuild => i j _ _; rewrite !(Rget rX) !(Rget rv). Qed.
Lemma mcolwise_add_repr r c lX (X : 'M[F]_(r,c)) lv (v : 'cV[F]_r) : repr r c lX X -> repr r 1 lv v ->
  repr r c (@mcolwise_add OL r c lX lv) (@mcolwise_add OM r c X v).
Proof. by move=> rX rv; apply: Rbuild => i j _ _; rewrite !(Rget rX) !(Rget rv). Qed.
Lemma mcolwise_sub_repr r c lX (X : 'M[F]_(r,c)) lv (v : 'cV[F]_r) : repr r c lX X -> repr r 1 lv v ->
  repr r c (@mcolwise_sub OL r c lX lv) (@mcolwise_sub OM r c X v).
Proof. by move=> rX rv; apply: Rbuild => i j _ _; rewrite !(Rget rX) !(Rget rv). Qed.

Lemma lay_mean_repr r c ml lY (Y : 'M[F]_(r,c)) lw (w : 'cV[F]_c) : repr r c lY Y -> repr c 1 lw w ->
  repr r 1 (@lay_mean OL r c ml lY lw) (@lay_mean OM r c ml Y w).
Proof.
move=> rY rw; rewrite /lay_mean.
have rsn : repr r c (@mbuild OL r c (fun i j => ssin S (@mget OL r c lY i j)))
                    (@mbuild OM r c (fun i j => ssin S (@mget OM r c Y i j))).
  by apply: Rbuild => i j _ _; rewrite (Rget rY).
have rcs : repr r c (@mbuild OL r c (fun i j => scos S (@mget OL r c lY i j)))
                    (@mbuild OM r c (fun i j => scos S (@mget OM r c Y i j))).
  by apply: Rbuild => i j _ _; rewrite (Rget rY).
apply: Rbuild => i j _ _.
by rewrite (Rget (Rmul rY rw)) (Rget (Rmul rsn rw)) (Rget (Rmul rcs rw)).
Qed.

(* ---- sigma points ---- *)
Definition sq_corr5 n (lP : lmxF F) (P : 'M[F]_n) : Prop := repr n n (sqL n lP) (sq P).

Lemma perturbations5_repr n c lP (P : 'M[F]_n) : sq_corr5 lP P ->
  repr n (nsig n) (@perturbations OL n c lP) (@perturbations OM n c P).
Proof.
move=> rsq; rewrite /perturbations /nsig.
by apply: Rhcat; [exact: Rzero | apply: Rhcat; exact: Rscale].
Qed.

Lemma sigma_points5_repr n nl c lx (x : 'cV[F]_n) lP (P : 'M[F]_n) : repr n 1 lx x -> sq_corr5 lP P ->
  repr n (nsig n) (@sigma_points OL n nl c lx lP) (@sigma_points OM n nl c x P).
Proof. by move=> rx rsq; apply: lay_add_repr => //; exact: perturbations5_repr. Qed.

(* the measurement function: corresponding columns to corresponding columns *)
Definition h_corr n m (hL : lmxF F -> lmxF F) (hM : 'cV[F]_n -> 'cV[F]_m) : Prop :=
  forall l x, repr n 1 l x -> repr m 1 (hL l) (hM x).

Lemma propagate_repr n m L hL hM lSP (SP : 'M[F]_(n,L)) : @h_corr n m hL hM -> repr n L lSP SP ->
  repr m L (@propagate OL n m L hL lSP) (@propagate OM n m L hM SP).
Proof. by move=> Hh rSP; apply: Rbuild => i j _ _; apply: Rget; apply: Hh; exact: Rcol. Qed.

Lemma h_family_corr n m kind lH (H : 'M[F]_(m,n)) lG (G : 'M[F]_(m,n)) lG2 (G2 : 'M[F]_(m,n))
      lb (b : 'cV[F]_m) lg (g : 'cV[F]_m) :
  repr m n lH H -> repr m n lG G -> repr m n lG2 G2 -> repr m 1 lb b -> repr m 1 lg g ->
  @h_corr n m (@h_family OL n m kind lH lG lG2 lb lg) (@h_family OM n m kind H G G2 b g).
Proof.
move=> rH rG rG2 rb rg l x rx; rewrite /h_family.
have rlin := Radd (Rmul rH rx) rb.
case: kind => [|[|kind]] //.
- by apply: Rbuild => i j _ _; rewrite (Rget rlin) (Rget rg) (Rget (Rmul rG rx)).
- by apply: Rbuild => i j _ _; rewrite (Rget rlin) (Rget rg) (Rget (Rmul rG rx)) (Rget (Rmul rG2 rx)).
Qed.

(* ---- noise covariance ---- *)
Definition repr_noise s m (nzl : noise OL s m) (nzm : noise OM s m) : Prop :=
  match nzl, nzm with
  | NoiseReduced lR, NoiseReduced R => repr s s lR R
  | NoiseFull lR, NoiseFull R => repr m m lR R
  | _, _ => False
  end.

Lemma noise_block_repr s m nzl nzm j : @repr_noise s m nzl nzm ->
  repr s s (@noise_block OL s m nzl j) (@noise_block OM s m nzm j).
Proof. by case: nzl nzm => [lR|lR] [R|R] //= rR; exact: Rslice. Qed.

(* every noise block the serial accumulation inverts is invertible (MathComp side) *)
Definition noise_units s m (nzm : noise OM s m) : Prop :=
  forall j, (j < Nat.div m s)%N -> (@noise_block OM s m nzm j : 'M[F]_s) \in unitmx.

(* ---- serial accumulation ---- *)
Definition repr_acc L (al : lmxF F * lmxF F) (am : 'M[F]_L * 'cV[F]_L) : Prop :=
  repr L L al.1 am.1 /\ repr L 1 al.2 am.2.

Lemma sukf_accum_step_repr s m L lY (Y : 'M[F]_(m,L)) lnu (nu : 'cV[F]_m) nzl nzm al am j :
  repr m L lY Y -> repr m 1 lnu nu -> @repr_noise s m nzl nzm ->
  (@noise_block OM s m nzm j : 'M[F]_s) \in unitmx -> @repr_acc L al am ->
  repr_acc (@sukf_accum_step OL s m L lY lnu nzl al j) (@sukf_accum_step OM s m L Y nu nzm am j).
Proof.
move=> rY rnu rnz uj [r1 r2]; rewrite /sukf_accum_step.
have rYj := Rslice (s * j) 0 s L rY.
have rtmp := Rmul (Rtr rYj) (Rinv (noise_block_repr j rnz) uj).
have rnuj := Rslice (s * j) 0 s 1 rnu.
split.
- by apply: (Radd r1); exact: (Rmul rtmp rYj).
- by apply: (Radd r2); exact: (Rmul rtmp rnuj).
Qed.

Lemma sukf_accum_repr s m L lY (Y : 'M[F]_(m,L)) lnu (nu : 'cV[F]_m) nzl nzm :
  repr m L lY Y -> repr m 1 lnu nu -> @repr_noise s m nzl nzm -> noise_units nzm ->
  repr_acc (@sukf_accum OL s m L lY lnu nzl) (@sukf_accum OM s m L Y nu nzm).
Proof.
move=> rY rnu rnz Hu; rewrite /sukf_accum.
have gen : forall (js : list nat) al am, (forall j, List.In j js -> (j < Nat.div m s)%N) -> @repr_acc L al am ->
  repr_acc (List.fold_left (@sukf_accum_step OL s m L lY lnu nzl) js al)
           (List.fold_left (@sukf_accum_step OM s m L Y nu nzm) js am).
  elim=> [|j js IH] al am Hin ra //.
  apply: IH; first by move=> i Hi; apply: Hin; right.
  by apply: sukf_accum_step_repr => //; apply: Hu; apply: Hin; left.
apply: gen; first by move=> j; exact: in_seq0.
by split; [exact: Rid | exact: Rzero].
Qed.

(* ---- one component of the serial correction ---- *)
Definition repr_so n m (ol : sukf_out OL n m) (om : sukf_out OM n m) : Prop :=
  [/\ repr n 1 (so_mean ol) (so_mean om : 'cV[F]_n),
      repr n n (so_cov ol) (so_cov om : 'M[F]_n),
      repr m 1 (so_innov ol) (so_innov om : 'cV[F]_m) &
      repr m (nsig n) (so_Y ol) (so_Y om : 'M[F]_(m, nsig n))].

(* the matrix  I + sum_j Y_j^T R_j^-1 Y_j  the component inverts (C05_Cinv_invertible) *)
Definition Cinv_unit n m s nl ml (w : utw OM) (h : 'cV[F]_n -> 'cV[F]_m) (y : 'cV[F]_m)
           (nz : noise OM s m) (x : 'cV[F]_n) (P : 'M[F]_n) : Prop :=
  ((@sukf_accum OM s m (nsig n) (so_Y (@sukf_correct_comp_lay OM n m s nl ml w h y nz x P))
                (so_innov (@sukf_correct_comp_lay OM n m s nl ml w h y nz x P)) nz).1 : 'M[F]_(nsig n))
  \in unitmx.

Theorem sukf_correct_comp_lay_transport n m s nl ml wl wm hL hM ly (y : 'cV[F]_m) nzl nzm
        lx (x : 'cV[F]_n) lP (P : 'M[F]_n) :
  repr_utw5 wl wm -> @h_corr n m hL hM -> repr m 1 ly y -> @repr_noise s m nzl nzm ->
  repr n 1 lx x -> repr n n lP P -> sq_corr5 lP P ->
  noise_units nzm -> Cinv_unit nl ml wm hM y nzm x P ->
  repr_so (@sukf_correct_comp_lay OL n m s nl ml wl hL ly nzl lx lP)
          (@sukf_correct_comp_lay OM n m s nl ml wm hM y nzm x P).
Proof.
move=> rw Hh ry rnz rx rP rsq Hu HC.
have Ec : utc wl = utc wm by case: rw.
move: HC; rewrite /Cinv_unit /sukf_correct_comp_lay /= Ec => HC.
have rSP := sigma_points5_repr nl (utc wm) rx rsq.
have rYraw := propagate_repr Hh rSP.
have rybar := lay_mean_repr ml rYraw (wmean_col_repr (nsig n) rw).
have rnu := Rsub ry rybar.
have rD := sqrt_wcov_diag_repr (nsig n) rw.
have rY := Rmul (lay_sub_repr ml rYraw rybar) rD.
have [ra1 ra2] := sukf_accum_repr rY rnu rnz Hu.
have rX := Rmul (lay_sub_repr nl rSP rx) rD.
have rXC := Rmul rX (Rinv ra1 HC).
split=> //.
- by apply: Radd => //; exact: Rmul.
- by apply: Rmul => //; exact: Rtr.
Qed.

(* ---- the mixture and the step ---- *)
Definition repr_comp5 n (cl : lmxF F * lmxF F) (cm : 'cV[F]_n * 'M[F]_n) : Prop :=
  repr n 1 cl.1 cm.1 /\ repr n n cl.2 cm.2.

Definition repr_mix5 n (ml : mixture OL n) (mm : mixture OM n) : Prop :=
  List.Forall2 (@repr_comp5 n) (mix_comps ml) (mix_comps mm) /\ mix_weights ml = mix_weights mm.

Definition repr_members n m (bl : members OL n m) (bm : members OM n m) : Prop :=
  match bl, bm with
  | Some ol, Some om => List.Forall2 (@repr_so n m) ol om
  | None, None => True
  | _, _ => False
  end.

Lemma overwrite_prefix5_repr (A B : Type) (R : A -> B -> Prop) n1 n2 o1 o2 :
  List.Forall2 R n1 n2 -> List.Forall2 R o1 o2 ->
  List.Forall2 R (C05_Model.overwrite_prefix n1 o1) (C05_Model.overwrite_prefix n2 o2).
Proof.
move=> rn ro; rewrite /C05_Model.overwrite_prefix (F2_length rn).
by apply: List.Forall2_app => //; exact: F2_skipn.
Qed.

Theorem sukf_correct_transport n m s nl ml wl wm hL hM ly (y : 'cV[F]_m) nzl nzm
        (predl corrl : mixture OL n) (predm corrm : mixture OM n) :
  repr_utw5 wl wm -> @h_corr n m hL hM -> repr m 1 ly y -> @repr_noise s m nzl nzm ->
  repr_mix5 predl predm -> repr_mix5 corrl corrm ->
  (Nat.modulo m s = 0%N ->
   [/\ List.Forall2 (fun cl cm => sq_corr5 cl.2 cm.2) (mix_comps predl) (mix_comps predm),
       noise_units nzm &
       List.Forall (fun c : 'cV[F]_n * 'M[F]_n => Cinv_unit nl ml wm hM y nzm c.1 c.2) (mix_comps predm)]) ->
  repr_mix5 (@sukf_correct OL n m s nl ml wl hL ly nzl predl corrl).1
            (@sukf_correct OM n m s nl ml wm hM y nzm predm corrm).1 /\
  repr_members (@sukf_correct OL n m s nl ml wl hL ly nzl predl corrl).2
               (@sukf_correct OM n m s nl ml wm hM y nzm predm corrm).2.
Proof.
move=> rw Hh ry rnz [rpc rpw] [rcc rcw] Hprem; rewrite /sukf_correct.
case E: (Nat.eqb _ _) => //=.
have [Hsq Hu HC] := Hprem (proj1 (Nat.eqb_eq _ _) E).
have routs : List.Forall2 (@repr_so n m)
    (List.map (fun c => @sukf_correct_comp_lay OL n m s nl ml wl hL ly nzl c.1 c.2) (mix_comps predl))
    (List.map (fun c => @sukf_correct_comp_lay OM n m s nl ml wm hM y nzm c.1 c.2) (mix_comps predm)).
  apply: F2_map.
  have H1 : List.Forall2 (fun cl cm => [/\ @repr_comp5 n cl cm, sq_corr5 cl.2 cm.2 & Cinv_unit nl ml wm hM y nzm cm.1 cm.2])
                         (mix_comps predl) (mix_comps predm).
    elim: rpc Hsq HC => [|cl cm csl csm rc _ IH] Hsq HC; first exact: List.Forall2_nil.
    inversion Hsq; subst; inversion HC; subst.
    by apply: List.Forall2_cons => //; exact: IH.
  apply: F2_impl H1 => cl cm [[r1 r2] rs hc].
  exact: sukf_correct_comp_lay_transport.
split=> //; split=> //=.
apply: overwrite_prefix5_repr => //.
by apply: F2_map; apply: F2_impl routs => ol om [r1 r2 _ _].
Qed.

(* ---- likelihood ---- *)
Lemma lik_Rcat_repr s m nzl nzm : @repr_noise s m nzl nzm ->
  repr s m (@lik_Rcat OL s m nzl) (@lik_Rcat OM s m nzm).
Proof.
move=> rnz; apply: Rbuild => i j _ _; apply: Rget; apply: F2_nth; last exact: Rzero.
by apply: F2_map_seq => k; exact: noise_block_repr.
Qed.

Section UVR.
Variables (s m L : nat).
Variables (lR : lmxF F) (R : 'M[F]_(s,m)).
Hypothesis rR : repr s m lR R.
Let nb := Nat.div m s.

Lemma u_Rblk_repr i : repr s s (@u_Rblk OL s m lR i) (@u_Rblk OM s m R i).
Proof. exact: Rslice. Qed.

(* a non-zero product of determinants: every factor is invertible *)
Lemma fold_prod_neq0 (f : nat -> F) (js : list nat) (a : F) :
  List.fold_left (fun acc i => acc * f i) js a != 0 -> a != 0 /\ forall i, List.In i js -> f i != 0.
Proof.
elim: js a => [|j js IH] a //= H.
have [] := IH _ H; rewrite mulf_eq0 negb_or => /andP [a0 fj] Hjs; split=> // i [<-|Hi] //.
exact: Hjs.
Qed.

Lemma spow_neq0 (x : F) k : (0 < k)%N -> @spow OM x k != 0 -> x != 0.
Proof. by case: k => // k _ /=; rewrite mulf_eq0 negb_or => /andP []. Qed.

Hypothesis detR_neq0 : (@u_detR OM s m R : F) != 0.

Lemma Rblk_units i : (i < nb)%N ->
  (@u_Rblk OM s m R (if Nat.eqb m s then 0%N else i) : 'M[F]_s) \in unitmx.
Proof.
move=> ib; move: detR_neq0; rewrite /u_detR -/nb unitmxE unitfE.
case: (Nat.eqb m s).
- by apply: spow_neq0; exact: leq_ltn_trans ib.
- move=> H; have [_ Hall] := fold_prod_neq0 H.
  by apply: Hall; apply/List.in_seq; split; [exact/leP | exact/ltP].
Qed.

Lemma u_invR_repr : @repr_list F s s (@u_invR OL s m lR) (@u_invR OM s m R).
Proof.
rewrite /u_invR -/nb; move: Rblk_units; case: (Nat.eqb m s) => Hu.
- by apply: F2_map_in => i /in_seq0 ib; apply: Rinv; [exact: u_Rblk_repr | exact: (Hu i)].
- by apply: F2_map_in => i /in_seq0 ib; apply: Rinv; [exact: u_Rblk_repr | exact: (Hu i)].
Qed.

Lemma u_iR_repr i : repr s s (@u_iR OL s m lR i) (@u_iR OM s m R i).
Proof. by apply: F2_nth; [exact: u_invR_repr | exact: Rzero]. Qed.

Lemma u_VinvR_repr lV (V : 'M[F]_(L,m)) : repr L m lV V ->
  repr L m (@u_VinvR OL s m L lV lR) (@u_VinvR OM s m L V R).
Proof.
move=> rV; apply: Rbuild => a b _ _; apply: Rget; apply: F2_nth; last exact: Rzero.
by apply: F2_map_seq => i; apply: Rmul; [exact: Rslice | exact: u_iR_repr].
Qed.

Lemma u_dTinvR_repr ld (d : 'cV[F]_m) : repr m 1 ld d ->
  repr 1 m (@u_dTinvR OL s m ld lR) (@u_dTinvR OM s m d R).
Proof.
move=> rd; apply: Rbuild => a b _ _; apply: Rget; apply: F2_nth; last exact: Rzero.
by apply: F2_map_seq => i; apply: Rmul; [apply: Rtr; exact: Rslice | exact: u_iR_repr].
Qed.

Lemma u_IVRU_repr lU (U : 'M[F]_(m,L)) lV (V : 'M[F]_(L,m)) : repr m L lU U -> repr L m lV V ->
  repr L L (@u_IVRU OL s m L lU lV lR) (@u_IVRU OM s m L U V R).
Proof. by move=> rU rV; apply: Radd; [exact: Rid | apply: Rmul => //; exact: u_VinvR_repr]. Qed.

Lemma u_detR_eq : @u_detR OL s m lR = @u_detR OM s m R.
Proof.
rewrite /u_detR -/nb; move: Rblk_units; case: (Nat.eqb m s) => Hu.
- case E: nb => [|k] //; rewrite (Rdet (u_Rblk_repr 0)) //.
  by apply: (Hu 0%N); rewrite E.
- apply: fold_left_ext_in => acc i /in_seq0 ib.
  by rewrite (Rdet (u_Rblk_repr i)) //; exact: (Hu i).
Qed.
End UVR.

(* the UVR terms (argument of the logarithm, weighted difference): equal at both instances as
   soon as the argument of the logarithm is non-zero at the MathComp instance *)
Theorem uvr_terms_transport s m L lin (input : 'cV[F]_m) lmean (mean : 'cV[F]_m)
        lU (U : 'M[F]_(m,L)) lV (V : 'M[F]_(L,m)) lR (R : 'M[F]_(s,m)) :
  repr m 1 lin input -> repr m 1 lmean mean -> repr m L lU U -> repr L m lV V -> repr s m lR R ->
  ((@uvr_terms OM s m L input mean U V R).1 : F) != 0 ->
  @uvr_terms OL s m L lin lmean lU lV lR = @uvr_terms OM s m L input mean U V R.
Proof.
move=> rin rmean rU rV rR H0.
have : (@u_detR OM s m R : F) * \det (@u_IVRU OM s m L U V R : 'M[F]_L) != 0 by move: H0; rewrite uvr_termsE.
rewrite mulf_eq0 negb_or => /andP [dR0 dI0]; rewrite !uvr_termsE.
have uI : (@u_IVRU OM s m L U V R : 'M[F]_L) \in unitmx by rewrite unitmxE unitfE.
have rI := u_IVRU_repr rR dR0 rU rV.
have rd := mcolwise_sub_repr rin rmean.
have rVR := u_VinvR_repr rR dR0 rV.
congr (_, _); first by rewrite (u_detR_eq rR dR0) (Rdet rI uI).
apply: (Rget (m:=1) (n:=1)).
apply: Rmul => //; apply: Rmul; first exact: u_dTinvR_repr.
apply: Rsub; first exact: Rid.
by apply: Rmul => //; apply: Rmul => //; exact: Rinv.
Qed.

(* the argument of std::log in getLikelihood(), component o (C05_sukf_log_argument_positive) *)
Definition log_arg n m s (nz : noise OM s m) (o : sukf_out OM n m) : F :=
  (@uvr_terms OM s m (nsig n) (so_innov o) (@mzero OM m 1) (so_Y o) (@mtr OM m (nsig n) (so_Y o)) (@lik_Rcat OM s m nz)).1.

Theorem sukf_likelihood_comp_transport n m s nzl nzm (ol : sukf_out OL n m) (om : sukf_out OM n m) :
  @repr_noise s m nzl nzm -> repr_so ol om -> log_arg nzm om != 0 ->
  @sukf_likelihood_comp OL n m s nzl ol = @sukf_likelihood_comp OM n m s nzm om.
Proof.
move=> rnz [_ _ rnu rY] H0; rewrite /sukf_likelihood_comp /uvr_log_density.
by rewrite (uvr_terms_transport rnu (Rzero m 1) rY (Rtr rY) (lik_Rcat_repr rnz) H0).
Qed.

Theorem sukf_likelihood_transport n m s nzl nzm (bl : members OL n m) (bm : members OM n m) :
  @repr_noise s m nzl nzm -> repr_members bl bm ->
  (forall outs, bm = Some outs -> List.Forall (fun o => log_arg nzm o != 0) outs) ->
  @sukf_likelihood OL n m s nzl bl = @sukf_likelihood OM n m s nzm bm.
Proof.
move=> rnz; case: bl bm => [ol|] [om|] //= ro H; congr Some.
move: (H om erefl) => {H}; elim: ro => [|l o ls os rlo _ IH] //= H.
have [H1 H2] : log_arg nzm o != 0 /\ List.Forall (fun o => log_arg nzm o != 0) os by inversion H.
by rewrite (sukf_likelihood_comp_transport rnz rlo H1) IH.
Qed.

(* ---- the spec side: the standard additive unscented correction of C05_Model ---- *)
Definition repr_uo n m (ol : ukf_out OL n m) (om : ukf_out OM n m) : Prop :=
  [/\ repr n 1 (uo_mean ol) (uo_mean om : 'cV[F]_n),
      repr n n (uo_cov ol) (uo_cov om : 'M[F]_n),
      repr m 1 (uo_innov ol) (uo_innov om : 'cV[F]_m) &
      repr m m (uo_Pyy ol) (uo_Pyy om : 'M[F]_m)].

Theorem ukf_correct_comp_lay_transport n m nl ml wl wm hL hM ly (y : 'cV[F]_m) lR (R : 'M[F]_m)
        lx (x : 'cV[F]_n) lP (P : 'M[F]_n) :
  repr_utw5 wl wm -> @h_corr n m hL hM -> repr m 1 ly y -> repr m m lR R ->
  repr n 1 lx x -> repr n n lP P -> sq_corr5 lP P ->
  (uo_Pyy (@ukf_correct_comp_lay OM n m nl ml wm hM y R x P) : 'M[F]_m) \in unitmx ->
  repr_uo (@ukf_correct_comp_lay OL n m nl ml wl hL ly lR lx lP)
          (@ukf_correct_comp_lay OM n m nl ml wm hM y R x P).
Proof.
move=> rw Hh ry rR rx rP rsq.
have Ec : utc wl = utc wm by case: rw.
rewrite /ukf_correct_comp_lay /= Ec => uPyy.
have rSP := sigma_points5_repr nl (utc wm) rx rsq.
have rYraw := propagate_repr Hh rSP.
have rybar := lay_mean_repr ml rYraw (wmean_col_repr (nsig n) rw).
have roff := lay_sub_repr ml rYraw rybar.
have rW := wcov_diag_repr (nsig n) rw.
have rPyy := Radd (Rmul (Rmul roff rW) (Rtr roff)) rR.
have rin := lay_sub_repr nl rSP rx.
have rPxy := Rmul (Rmul rin rW) (Rtr roff).
have rnu := Rsub ry rybar.
have rK := Rmul rPxy (Rinv rPyy uPyy).
split=> //.
- by apply: Radd => //; exact: Rmul.
- by apply: Rsub => //; apply: Rmul; [exact: Rmul | exact: Rtr].
Qed.

Theorem ukf_likelihood_comp_transport n m (ol : ukf_out OL n m) (om : ukf_out OM n m) :
  repr_uo ol om -> (uo_Pyy om : 'M[F]_m) \in unitmx ->
  @ukf_likelihood_comp OL n m ol = @ukf_likelihood_comp OM n m om.
Proof.
move=> [_ _ rnu rP] uP; rewrite /ukf_likelihood_comp.
exact: (density_transport tr sq eg rnu (repr_mzero tr m 1) rP uP).
Qed.

Theorem ukf_correct_transport n m nl ml wl wm hL hM ly (y : 'cV[F]_m) lR (R : 'M[F]_m)
        (predl corrl : mixture OL n) (predm corrm : mixture OM n) :
  repr_utw5 wl wm -> @h_corr n m hL hM -> repr m 1 ly y -> repr m m lR R ->
  repr_mix5 predl predm -> repr_mix5 corrl corrm ->
  List.Forall2 (fun cl cm => sq_corr5 cl.2 cm.2) (mix_comps predl) (mix_comps predm) ->
  List.Forall (fun c : 'cV[F]_n * 'M[F]_n =>
                 (uo_Pyy (@ukf_correct_comp_lay OM n m nl ml wm hM y R c.1 c.2) : 'M[F]_m) \in unitmx)
              (mix_comps predm) ->
  repr_mix5 (@ukf_correct OL n m nl ml wl hL ly lR predl corrl).1
            (@ukf_correct OM n m nl ml wm hM y R predm corrm).1 /\
  List.Forall2 (@repr_uo n m) (@ukf_correct OL n m nl ml wl hL ly lR predl corrl).2
                              (@ukf_correct OM n m nl ml wm hM y R predm corrm).2.
Proof.
move=> rw Hh ry rR [rpc rpw] [rcc rcw] Hsq HP; rewrite /ukf_correct /=.
have routs : List.Forall2 (@repr_uo n m)
    (List.map (fun c => @ukf_correct_comp_lay OL n m nl ml wl hL ly lR c.1 c.2) (mix_comps predl))
    (List.map (fun c => @ukf_correct_comp_lay OM n m nl ml wm hM y R c.1 c.2) (mix_comps predm)).
  apply: F2_map.
  have H1 : List.Forall2 (fun cl cm => [/\ @repr_comp5 n cl cm, sq_corr5 cl.2 cm.2 &
                              (uo_Pyy (@ukf_correct_comp_lay OM n m nl ml wm hM y R cm.1 cm.2) : 'M[F]_m) \in unitmx])
                         (mix_comps predl) (mix_comps predm).
    elim: rpc Hsq HP => [|cl cm csl csm rc _ IH] Hsq HP; first exact: List.Forall2_nil.
    inversion Hsq; subst; inversion HP; subst.
    by apply: List.Forall2_cons => //; exact: IH.
  apply: F2_impl H1 => cl cm [[r1 r2] rs hc].
  exact: ukf_correct_comp_lay_transport.
split=> //; split=> //=.
apply: overwrite_prefix5_repr => //.
by apply: F2_map; apply: F2_impl routs => ol om [r1 r2 _ _].
Qed.

(* ---- k blocks of size s > 0 with SPD noise blocks: every invertibility premise is derived ---- *)
Section SPD.
Variables (n nl ml k s : nat).
Notation m := (k * s)%N.
Hypothesis s_gt0 : (0 < s)%N.
Variables (nzl : noise OL s m) (nzm : noise OM s m) (Rb : nat -> 'M[F]_s).
Hypothesis rnz : repr_noise nzl nzm.
Hypothesis Hnz : noise_blocks nzm Rb.
Hypothesis spdRb : forall j, (j < k)%N -> spd (Rb j).

Lemma spd_noise_units : noise_units nzm.
Proof.
move=> j; rewrite div_ks // => jk; rewrite (noise_blockE Hnz jk).
by apply: spd_unit; exact: spdRb.
Qed.

Lemma spd_Cinv_unit (w : utw OM) (h : 'cV[F]_n -> 'cV[F]_m) (y : 'cV[F]_m) (x : 'cV[F]_n) (P : 'M[F]_n) :
  Cinv_unit nl ml w h y nzm x P.
Proof. exact: (sukf_comp_Cinv_unit nl ml w h y x P s_gt0 Hnz spdRb). Qed.

Lemma spd_log_arg (o : sukf_out OM n m) : log_arg nzm o != 0.
Proof. by rewrite /log_arg; apply: lt0r_neq0; exact: (uvr_det_gt0 s_gt0 Hnz spdRb). Qed.

(* the whole step and its likelihood: executed model = theorem model *)
Theorem sukf_step_transport_spd wl wm hL hM ly (y : 'cV[F]_m)
        (predl corrl : mixture OL n) (predm corrm : mixture OM n) :
  repr_utw5 wl wm -> @h_corr n m hL hM -> repr m 1 ly y ->
  repr_mix5 predl predm -> repr_mix5 corrl corrm ->
  List.Forall2 (fun cl cm => sq_corr5 cl.2 cm.2) (mix_comps predl) (mix_comps predm) ->
  [/\ repr_mix5 (@sukf_correct OL n m s nl ml wl hL ly nzl predl corrl).1
                (@sukf_correct OM n m s nl ml wm hM y nzm predm corrm).1,
      repr_members (@sukf_correct OL n m s nl ml wl hL ly nzl predl corrl).2
                   (@sukf_correct OM n m s nl ml wm hM y nzm predm corrm).2 &
      @sukf_likelihood OL n m s nzl (@sukf_correct OL n m s nl ml wl hL ly nzl predl corrl).2 =
      @sukf_likelihood OM n m s nzm (@sukf_correct OM n m s nl ml wm hM y nzm predm corrm).2].
Proof.
move=> rw Hh ry rp rc Hsq.
have [r1 r2] : _ /\ _ := sukf_correct_transport (nl:=nl) (ml:=ml) rw Hh ry rnz rp rc
  (fun _ => And3 Hsq spd_noise_units
     (proj2 (List.Forall_forall _ _) (fun c _ => spd_Cinv_unit wm hM y c.1 c.2))).
split=> //; apply: sukf_likelihood_transport => // outs _.
by apply/List.Forall_forall => o _; exact: spd_log_arg.
Qed.
End SPD.

End T.

(* ---- non-vacuity: the premises of sukf_step_transport_spd hold together on a concrete family of
   instances: identity functions as the two square-root oracles, one component with zero mean
   and identity covariance, the reduced noise constructor with an identity block (k blocks of
   size s.+1), the harness' affine measurement function with H = 0, b = 0 ---- *)
Section NonVacuity.
Variable F : realFieldType.
Variable tr : Transc F.
Local Notation id_sq := (@id_sq F).
Local Notation zero_eg := (@zero_eg F).
Local Notation id_sqL := (@id_sqL F).
Local Notation zero_egL := (@zero_egL F tr).
Let OL := ListMat (FOps tr) id_sqL zero_egL.
Let OM := MxMat tr id_sq zero_eg.
Local Notation Uzero := (@r_zero F tr id_sq zero_eg id_sqL zero_egL).
Local Notation Uid := (@r_id F tr id_sq zero_eg id_sqL zero_egL).
Variables (n k s : nat).
Notation m := (k * s.+1)%N.
Definition unit_mix5L : mixture OL n := @mkMix OL n (cons (@mzero OL n 1, @mid OL n) nil) (cons 1 nil).
Definition unit_mix5M : mixture OM n := @mkMix OM n (cons (0 : 'cV[F]_n, 1%:M : 'M[F]_n) nil) (cons 1 nil).
Definition zero_hL : lmxF F -> lmxF F :=
  @h_family OL n m 0 (@mzero OL m n) (@mzero OL m n) (@mzero OL m n) (@mzero OL m 1) (@mzero OL m 1).
Definition zero_hM : 'cV[F]_n -> 'cV[F]_m :=
  @h_family OM n m 0 (0 : 'M[F]_(m,n)) (0 : 'M[F]_(m,n)) (0 : 'M[F]_(m,n)) (0 : 'cV[F]_m) (0 : 'cV[F]_m).

Lemma sukf_premises_satisfiable :
  [/\ @h_corr F n m zero_hL zero_hM,
      @repr_noise F tr id_sq zero_eg id_sqL zero_egL s.+1 m (@NoiseReduced OL s.+1 m (@mid OL s.+1))
                  (@NoiseReduced OM s.+1 m (1%:M : 'M[F]_s.+1)),
      noise_blocks (@NoiseReduced OM s.+1 m (1%:M : 'M[F]_s.+1)) (fun _ => 1%:M : 'M[F]_s.+1) /\
      (forall j, (j < k)%N -> spd (1%:M : 'M[F]_s.+1)),
      repr_mix5 unit_mix5L unit_mix5M &
      List.Forall2 (fun (cl : lmxF F * lmxF F) (cm : 'cV[F]_n * 'M[F]_n) => sq_corr5 id_sq id_sqL cl.2 cm.2)
                   (mix_comps unit_mix5L) (mix_comps unit_mix5M)].
Proof.
split.
- by apply: (h_family_corr tr id_sq zero_eg id_sqL zero_egL 0); exact: Uzero.
- exact: Uid.
- by split=> // j _; exact: spd1.
- split=> //=; apply: List.Forall2_cons; last exact: List.Forall2_nil.
  by split; [exact: Uzero | exact: Uid].
- by apply: List.Forall2_cons; [exact: Uid | exact: List.Forall2_nil].
Qed.

(* ... and the transport theorem applies to this instance (measurement y = 0) *)
Lemma sukf_step_unit_instance nl ml (a b kp : F) :
  let wl := @ut_weights OL n a b kp in let wm := @ut_weights OM n a b kp in
  let nzl := @NoiseReduced OL s.+1 m (@mid OL s.+1) in let nzm := @NoiseReduced OM s.+1 m (1%:M : 'M[F]_s.+1) in
  let rl := @sukf_correct OL n m s.+1 nl ml wl zero_hL (@mzero OL m 1) nzl unit_mix5L unit_mix5L in
  let rm := @sukf_correct OM n m s.+1 nl ml wm zero_hM (0 : 'cV[F]_m) nzm unit_mix5M unit_mix5M in
  [/\ @repr_mix5 F tr id_sq zero_eg id_sqL zero_egL n rl.1 rm.1,
      @repr_members F tr id_sq zero_eg id_sqL zero_egL n m rl.2 rm.2 &
      @sukf_likelihood OL n m s.+1 nzl rl.2 = @sukf_likelihood OM n m s.+1 nzm rm.2].
Proof.
have [Hh rnz [Hnz Hspd] rp Hsq] := sukf_premises_satisfiable.
move=> wl wm nzl nzm rl rm.
apply: (sukf_step_transport_spd nl ml (ltn0Sn s) rnz Hnz Hspd) => //.
exact: Uzero.
Qed.
End NonVacuity.

Print Assumptions sukf_correct_transport.
Print Assumptions sukf_likelihood_transport.
Print Assumptions ukf_correct_transport.
Print Assumptions sukf_step_transport_spd.
