(* C18_Mean.v — the mean clause of C18 over the Coq reals (extension of C18_Proofs):
   (a) the accumulated matrix sum_k w_k q_k q_k^T is invariant under negation of any inputs and under
       permutation; two vectors meeting the eigen-solver contract on (entrywise) equal matrices span the same
       line (v' = +-v, the same rotation) as soon as the largest eigenvalue is simple;
   (b) all inputs +-q, positive total weight: the matrix is W q q^T, its spectrum is {W, 0}, W is simple,
       q meets the contract;
   (c) symmetric sets qc, a_j qc, conj(a_j) qc with weights w0, w_j, w_j: centre dominant and simple under the
       explicit premise 2 sum_j w_j |vec a_j|^2 < w0 + 2 sum_j w_j Re(a_j)^2 (w0 of ANY sign, w_j > 0); for the
       library's own sigma-point layout qc, exp(d_j/2) qc, exp(-d_j/2) qc this reads 0 < w0 + 2 sum_j w_j cos|d_j|;
       without the premise the clause is false for an unscented weight set (refutation). *)
Require Import ZArith Reals Lra Lia List Permutation.
Require Import BFL.Ops BFL.C19_ROps BFL.C18_Model BFL.C18_Proofs.
Import ListNotations.
Local Open Scope R_scope.

Notation M4 := (mat4 ROps).

(* ---------------------------------------------------------------- what the contract fixes *)

Definition mat_eq (A B : M4) : Prop := forall i j, A i j = B i j.
(* lam dominates every eigenvalue of A *)
Definition is_top (A : M4) (lam : R) : Prop := forall x mu, qnorm2 x <> 0 -> is_eigvec A x mu -> mu <= lam.
(* the largest eigenvalue of A is simple: its eigenvectors are collinear *)
Definition top_simple (A : M4) : Prop :=
  forall lam u u', is_top A lam -> qnorm2 u <> 0 -> is_eigvec A u lam -> is_eigvec A u' lam -> exists k, u' = qscale k u.

Lemma mat_eq_sym A B : mat_eq A B -> mat_eq B A.
Proof. intros H i j. symmetry. apply H. Qed.

Lemma is_eigvec_ext A B v lam : mat_eq A B -> is_eigvec A v lam -> is_eigvec B v lam.
Proof.
  intros H [E0 [E1 [E2 E3]]]. unfold is_eigvec.
  rewrite <- !(mv_ext A B v _ H). auto.
Qed.

Lemma qnorm2_scale k (v : Q) : qnorm2 (qscale k v) = k * k * qnorm2 v.
Proof. unfold qnorm2, qscale. simpl. ring. Qed.

Lemma qnorm2_nonneg (v : Q) : 0 <= qnorm2 v.
Proof. unfold qnorm2. nra. Qed.

Lemma qnorm2_zero (v : Q) : qnorm2 v = 0 -> v = mkQR 0 0 0 0.
Proof.
  unfold qnorm2. intros H. apply sumsq4_zero in H. destruct H as [H0 [H1 [H2 H3]]].
  destruct v as [a b c d]. simpl in *. now subst.
Qed.

Lemma qscale_0 (v : Q) : qscale 0 v = mkQR 0 0 0 0.
Proof. unfold qscale. f_equal; ring. Qed.

Lemma qscale_scale k l (v : Q) : qscale k (qscale l v) = qscale (k * l) v.
Proof. unfold qscale. simpl. f_equal; ring. Qed.

Lemma unit_scale_pm (v : Q) k : qnorm2 v = 1 -> qnorm2 (qscale k v) = 1 -> qscale k v = v \/ qscale k v = qneg v.
Proof.
  intros Hv Hk. rewrite qnorm2_scale, Hv in Hk.
  assert (H0 : (k - 1) * (k + 1) = 0) by lra. apply Rmult_integral in H0.
  destruct v as [a b c d]. unfold qscale, qneg. simpl.
  destruct H0 as [H0|H0]; [left; replace k with 1 by lra | right; replace k with (-1) by lra]; f_equal; ring.
Qed.

(* two answers meeting the contract on equal matrices are the same rotation when the top eigenvalue is simple *)
Lemma contract_line A B v v' : mat_eq A B -> top_simple A ->
  max_eig_contract A v -> max_eig_contract B v' -> v' = v \/ v' = qneg v.
Proof.
  intros HAB Hs [Hv [lam [Hev Hmax]]] [Hv' [lam' [Hev' Hmax']]].
  pose proof (is_eigvec_ext B A v' lam' (mat_eq_sym A B HAB) Hev') as Hev'A.
  assert (H1 : lam' <= lam) by (apply (Hmax v'); [rewrite Hv'; lra | exact Hev'A]).
  assert (H2 : lam <= lam') by (apply (Hmax' v); [rewrite Hv; lra | now apply (is_eigvec_ext A B)]).
  assert (E : lam' = lam) by lra. subst lam'.
  destruct (Hs lam v v') as [k Hk]; [exact Hmax | rewrite Hv; lra | exact Hev | exact Hev'A |].
  subst v'. now apply unit_scale_pm.
Qed.

(* without simplicity the contract does not fix the rotation: M = I/4 (the four basis quaternions, equal weights) *)
Lemma contract_not_unique_without_simplicity :
  let w := [1/4; 1/4; 1/4; 1/4] in
  let qs := [mkQR 1 0 0 0; mkQR 0 1 0 0; mkQR 0 0 1 0; mkQR 0 0 0 1] in
  max_eig_contract (outer_sum ROps w qs) (mkQR 1 0 0 0) /\ max_eig_contract (outer_sum ROps w qs) (mkQR 0 1 0 0).
Proof.
  intros w qs.
  assert (E : forall u i, mv (outer_sum ROps w qs) u i = 1 / 4 * qcomp ROps u i).
  { intros u i. rewrite (mv_ext _ (osum (combine w qs))) by (intros; apply outer_sum_R).
    rewrite mv_osum. unfold w, qs. destruct i as [|[|[|i]]]; simpl; unfold qdot; simpl; field. }
  assert (T : forall u mu, qnorm2 u <> 0 -> is_eigvec (outer_sum ROps w qs) u mu -> mu <= 1 / 4).
  { intros u mu Hu [E0 [E1 [E2 E3]]]. rewrite E in E0, E1, E2, E3. simpl in *.
    destruct (Rle_dec mu (1 / 4)) as [|Hgt]; [assumption|]. exfalso.
    assert (qw u = 0) by nra. assert (qx u = 0) by nra. assert (qy u = 0) by nra. assert (qz u = 0) by nra.
    apply Hu. unfold qnorm2. nra. }
  split; (split; [unfold qnorm2; simpl; lra|]); exists (1 / 4); (split; [|exact T]);
    unfold is_eigvec; rewrite !E; simpl; repeat split; ring.
Qed.

(* ---------------------------------------------------------------- (a) negation and permutation *)

Lemma outer_sum_flip bs w qs : mat_eq (outer_sum ROps w (flip bs qs)) (outer_sum ROps w qs).
Proof. intros i j. rewrite !outer_sum_R. apply osum_flip. Qed.

Lemma outer_sum_perm w qs w' qs' : Permutation (combine w qs) (combine w' qs') ->
  mat_eq (outer_sum ROps w' qs') (outer_sum ROps w qs).
Proof. intros H i j. rewrite !outer_sum_R. now apply osum_perm. Qed.

Lemma mean_negation_rotation bs w qs v v' :
  top_simple (outer_sum ROps w qs) ->
  max_eig_contract (outer_sum ROps w qs) v -> max_eig_contract (outer_sum ROps w (flip bs qs)) v' ->
  v' = v \/ v' = qneg v.
Proof. intros Hs Hv Hv'. apply (contract_line _ _ v v' (mat_eq_sym _ _ (outer_sum_flip bs w qs)) Hs Hv Hv'). Qed.

Lemma mean_permutation_rotation w qs w' qs' v v' :
  Permutation (combine w qs) (combine w' qs') -> top_simple (outer_sum ROps w qs) ->
  max_eig_contract (outer_sum ROps w qs) v -> max_eig_contract (outer_sum ROps w' qs') v' ->
  v' = v \/ v' = qneg v.
Proof. intros Hp Hs Hv Hv'. apply (contract_line _ _ v v' (mat_eq_sym _ _ (outer_sum_perm w qs w' qs' Hp)) Hs Hv Hv'). Qed.

(* ---------------------------------------------------------------- (b) all inputs +-q *)

Lemma all_pm_matrix q w qs i j : all_pm q qs ->
  outer_sum ROps w qs i j = wtot w qs * qcomp ROps q i * qcomp ROps q j.
Proof.
  intros H. rewrite outer_sum_R. revert w. induction H as [|p qs Hp Hq IH]; intros [|x w]; simpl; try ring.
  rewrite IH. destruct Hp as [->| ->]; [ring|]. rewrite !qcomp_neg. ring.
Qed.

Lemma mv_all_pm q w qs u i : all_pm q qs ->
  mv (outer_sum ROps w qs) u i = wtot w qs * qdot q u * qcomp ROps q i.
Proof.
  intros H. rewrite (mv_ext _ (osum (combine w qs))) by (intros; apply outer_sum_R).
  rewrite mv_osum. now apply osum_v_all_pm.
Qed.

Lemma qdot_self (q : Q) : qdot q q = qnorm2 q.
Proof. reflexivity. Qed.

Lemma all_pm_eigvec q w qs : qnorm2 q = 1 -> all_pm q qs -> is_eigvec (outer_sum ROps w qs) q (wtot w qs).
Proof.
  intros Hq H. unfold is_eigvec. rewrite !(mv_all_pm q) by assumption. rewrite qdot_self, Hq. simpl. repeat split; ring.
Qed.

(* the whole spectrum: eigenvalue W on the line of q, eigenvalue 0 on its orthogonal complement *)
Lemma all_pm_spectrum q w qs u mu : qnorm2 q = 1 -> all_pm q qs -> 0 < wtot w qs -> qnorm2 u <> 0 ->
  is_eigvec (outer_sum ROps w qs) u mu ->
  (mu = wtot w qs /\ u = qscale (qdot q u) q) \/ (mu = 0 /\ qdot q u = 0).
Proof.
  intros Hq Hall HW Hu [E0 [E1 [E2 E3]]]. rewrite !(mv_all_pm q) in E0, E1, E2, E3 by assumption.
  set (W := wtot w qs) in *. set (d := qdot q u) in *. simpl in *.
  (* dot the eigen-equation with q *)
  assert (Hd : W * d = mu * d).
  { replace (mu * d) with (qw q * (mu * qw u) + qx q * (mu * qx u) + qy q * (mu * qy u) + qz q * (mu * qz u)) by (unfold d, qdot; ring).
    rewrite <- E0, <- E1, <- E2, <- E3. unfold qnorm2 in Hq.
    replace (qw q * (W * d * qw q) + qx q * (W * d * qx q) + qy q * (W * d * qy q) + qz q * (W * d * qz q))
      with (W * d * (qw q * qw q + qx q * qx q + qy q * qy q + qz q * qz q)) by ring.
    rewrite Hq. ring. }
  destruct (Req_dec d 0) as [Hd0|Hd0].
  - right. split; [|exact Hd0]. rewrite Hd0 in E0, E1, E2, E3.
    assert (Hn : mu * qnorm2 u = 0).
    { unfold qnorm2. replace (mu * (qw u * qw u + qx u * qx u + qy u * qy u + qz u * qz u))
        with (qw u * (mu * qw u) + qx u * (mu * qx u) + qy u * (mu * qy u) + qz u * (mu * qz u)) by ring.
      rewrite <- E0, <- E1, <- E2, <- E3. ring. }
    apply Rmult_integral in Hn. destruct Hn; [assumption | contradiction].
  - assert (Hmu : mu = W) by (apply (Rmult_eq_reg_r d); [lra | assumption]).
    left. split; [exact Hmu|]. subst mu.
    destruct u as [a b c e]. unfold qscale. simpl in *. f_equal; apply (Rmult_eq_reg_l W); lra.
Qed.

Lemma all_pm_is_top q w qs : qnorm2 q = 1 -> all_pm q qs -> 0 < wtot w qs -> is_top (outer_sum ROps w qs) (wtot w qs).
Proof.
  intros Hq Hall HW u mu Hu He. destruct (all_pm_spectrum q w qs u mu Hq Hall HW Hu He) as [[-> _]|[-> _]]; lra.
Qed.

Lemma all_pm_contract q w qs : qnorm2 q = 1 -> all_pm q qs -> 0 < wtot w qs -> max_eig_contract (outer_sum ROps w qs) q.
Proof.
  intros Hq Hall HW. split; [exact Hq|]. exists (wtot w qs). split; [now apply all_pm_eigvec | now apply (all_pm_is_top q)].
Qed.

Lemma all_pm_top_simple q w qs : qnorm2 q = 1 -> all_pm q qs -> 0 < wtot w qs -> top_simple (outer_sum ROps w qs).
Proof.
  intros Hq Hall HW lam u u' Htop Hu He He'.
  assert (HWl : wtot w qs <= lam) by (apply (Htop q); [rewrite Hq; lra | now apply all_pm_eigvec]).
  destruct (all_pm_spectrum q w qs u lam Hq Hall HW Hu He) as [[_ Eu]|[E0 _]]; [|lra].
  set (d := qdot q u) in *.
  assert (Hd : d <> 0).
  { intros Hd. apply Hu. rewrite Eu, Hd, qscale_0. unfold qnorm2. simpl. ring. }
  destruct (Req_dec (qnorm2 u') 0) as [Hz|Hnz].
  - exists 0. rewrite qscale_0. now apply qnorm2_zero.
  - destruct (all_pm_spectrum q w qs u' lam Hq Hall HW Hnz He') as [[_ Eu']|[E0 _]]; [|lra].
    exists (qdot q u' / d). rewrite Eu' at 1. rewrite Eu, qscale_scale. f_equal. field. exact Hd.
Qed.

Lemma wtot_sum (w : list R) (qs : list Q) : length w = length qs -> wtot w qs = fold_right Rplus 0 w.
Proof.
  revert qs. induction w as [|x w IH]; intros [|q qs] H; simpl in *; try discriminate; [reflexivity|].
  rewrite (IH qs) by now injection H. reflexivity.
Qed.

(* the property's form: weights summing to one *)
Lemma mean_all_equal_sum_one eig (w : list R) (qs : list Q) (q : Q) :
  qnorm2 q = 1 -> all_pm q qs -> length w = length qs -> fold_right Rplus 0 w = 1 ->
  max_eig_contract (outer_sum ROps w qs) (qmean ROps eig w qs) ->
  qmean ROps eig w qs = q \/ qmean ROps eig w qs = qneg q.
Proof.
  intros Hq Hall Hlen Hsum Hc. apply (mean_all_equal eig w qs q Hq Hall); [|exact Hc].
  rewrite wtot_sum, Hsum by assumption. lra.
Qed.

(* ---------------------------------------------------------------- (c) symmetric sets, any sign of the central weight *)

Lemma sym_gap_gen (qc : Q) w0 ws al :
  qnorm2 qc = 1 -> length ws = length al -> Forall (fun w => 0 < w) ws ->
  2 * vcoef ws al < w0 + 2 * sym_coef ws al ->
  forall u mu, is_eigvec (outer_sum ROps (sym_weights w0 ws) (sym_quats qc al)) u mu ->
               (forall k, u <> qscale k qc) -> mu < w0 + 2 * sym_coef ws al.
Proof.
  intros Hq Hlen Hws Hprem u mu Hu Hnp.
  set (l := combine (sym_weights w0 ws) (sym_quats qc al)).
  set (lamc := w0 + 2 * sym_coef ws al) in *.
  apply eig_osum in Hu. fold l in Hu. destruct Hu as [U0 [U1 [U2 U3]]].
  pose proof (sym_centre_eigvec qc w0 ws al Hlen) as Hc. rewrite Hq, Rmult_1_l in Hc.
  apply eig_osum in Hc. fold l lamc in Hc. destruct Hc as [C0 [C1 [C2 C3]]].
  set (alpha := qdot qc u).
  assert (Buc : bil l u qc = mu * alpha).
  { rewrite <- dot_osum_v, U0, U1, U2, U3. unfold alpha, qdot. ring. }
  assert (Bcu : bil l qc u = lamc * alpha).
  { rewrite <- dot_osum_v, C0, C1, C2, C3. unfold alpha, qdot. ring. }
  assert (Buu : bil l u u = mu * qnorm2 u).
  { rewrite <- dot_osum_v, U0, U1, U2, U3. unfold qnorm2. ring. }
  assert (Bcc : bil l qc qc = lamc).
  { rewrite <- dot_osum_v, C0, C1, C2, C3. unfold qnorm2 in Hq.
    replace (qw qc * (lamc * qw qc) + qx qc * (lamc * qx qc) + qy qc * (lamc * qy qc) + qz qc * (lamc * qz qc))
      with (lamc * (qw qc * qw qc + qx qc * qx qc + qy qc * qy qc + qz qc * qz qc)) by ring.
    rewrite Hq. ring. }
  assert (Hsym : mu * alpha = lamc * alpha) by (rewrite <- Buc, <- Bcu; apply bil_sym).
  set (x := qsubs u alpha qc).
  assert (Hox : qdot qc x = 0).
  { unfold x. rewrite qdot_qsubs. fold alpha. rewrite qdot_self, Hq. ring. }
  assert (HX : qnorm2 x = qnorm2 u - alpha * alpha).
  { unfold x, qsubs, qnorm2. simpl. unfold qnorm2 in Hq.
    replace ((qw u - alpha * qw qc) * (qw u - alpha * qw qc) + (qx u - alpha * qx qc) * (qx u - alpha * qx qc) +
             (qy u - alpha * qy qc) * (qy u - alpha * qy qc) + (qz u - alpha * qz qc) * (qz u - alpha * qz qc))
      with (qw u * qw u + qx u * qx u + qy u * qy u + qz u * qz u - 2 * alpha * qdot qc u
            + alpha * alpha * (qw qc * qw qc + qx qc * qx qc + qy qc * qy qc + qz qc * qz qc)) by (unfold qdot; ring).
    rewrite Hq. fold alpha. ring. }
  assert (Bxx : bil l x x = mu * qnorm2 x).
  { unfold x. rewrite bil_qsubs, Buu, Buc, Bcc. fold x. rewrite HX.
    replace (alpha * alpha * lamc) with (alpha * (lamc * alpha)) by ring. rewrite <- Hsym. ring. }
  (* the Rayleigh quotient of x, orthogonal to the centre, only sees the vector parts of the offsets: the
     central term w0 (qc . x)^2 vanishes whatever the sign of w0 *)
  assert (Hb : bil l x x <= 2 * vcoef ws al * qnorm2 x).
  { unfold l, sym_weights, sym_quats. simpl. rewrite combine_app_eq by now rewrite map_length.
    rewrite bil_app, Hox. pose proof (sym_rayleigh_bound ws al qc x Hox Hq Hws). lra. }
  assert (Hxpos : 0 < qnorm2 x).
  { destruct (Req_dec (qnorm2 x) 0) as [E|E].
    - exfalso. apply (Hnp alpha). now apply qsubs_zero.
    - pose proof (qnorm2_nonneg x). lra. }
  assert (Hmu : mu <= 2 * vcoef ws al).
  { apply (Rmult_le_reg_r (qnorm2 x)); [assumption | lra]. }
  lra.
Qed.

(* a non-zero multiple of the centre that is an eigenvector has the centre's eigenvalue *)
Lemma sym_centre_multiple (qc : Q) w0 ws al k mu :
  qnorm2 qc = 1 -> length ws = length al -> k <> 0 ->
  is_eigvec (outer_sum ROps (sym_weights w0 ws) (sym_quats qc al)) (qscale k qc) mu -> mu = w0 + 2 * sym_coef ws al.
Proof.
  intros Hq Hlen Hk Hu.
  set (l := combine (sym_weights w0 ws) (sym_quats qc al)).
  apply eig_osum in Hu. fold l in Hu. destruct Hu as [U0 [U1 [U2 U3]]].
  pose proof (sym_centre_eigvec qc w0 ws al Hlen) as Hc. rewrite Hq, Rmult_1_l in Hc.
  apply eig_osum in Hc. fold l in Hc. destruct Hc as [C0 [C1 [C2 C3]]].
  set (lamc := w0 + 2 * sym_coef ws al) in *.
  assert (B1 : bil l (qscale k qc) qc = mu * k).
  { rewrite <- dot_osum_v, U0, U1, U2, U3. unfold qscale. simpl. unfold qnorm2 in Hq.
    replace (qw qc * (mu * (k * qw qc)) + qx qc * (mu * (k * qx qc)) + qy qc * (mu * (k * qy qc)) + qz qc * (mu * (k * qz qc)))
      with (mu * k * (qw qc * qw qc + qx qc * qx qc + qy qc * qy qc + qz qc * qz qc)) by ring.
    rewrite Hq. ring. }
  assert (B2 : bil l qc (qscale k qc) = lamc * k).
  { rewrite <- dot_osum_v, C0, C1, C2, C3. unfold qscale. simpl. unfold qnorm2 in Hq.
    replace (k * qw qc * (lamc * qw qc) + k * qx qc * (lamc * qx qc) + k * qy qc * (lamc * qy qc) + k * qz qc * (lamc * qz qc))
      with (lamc * k * (qw qc * qw qc + qx qc * qx qc + qy qc * qy qc + qz qc * qz qc)) by ring.
    rewrite Hq. ring. }
  rewrite bil_sym, B2 in B1. apply (Rmult_eq_reg_r k); [lra | exact Hk].
Qed.

Lemma sym_is_top (qc : Q) w0 ws al :
  qnorm2 qc = 1 -> length ws = length al -> Forall (fun w => 0 < w) ws ->
  2 * vcoef ws al < w0 + 2 * sym_coef ws al ->
  is_top (outer_sum ROps (sym_weights w0 ws) (sym_quats qc al)) (w0 + 2 * sym_coef ws al).
Proof.
  intros Hq Hlen Hws Hprem u mu Hu He.
  destruct (Classical_Prop.classic (exists k, u = qscale k qc)) as [[k Hk]|Hn].
  - subst u. assert (k <> 0) by (intros ->; apply Hu; rewrite qscale_0; unfold qnorm2; simpl; ring).
    rewrite (sym_centre_multiple qc w0 ws al k mu Hq Hlen H He). lra.
  - apply Rlt_le. apply (sym_gap_gen qc w0 ws al Hq Hlen Hws Hprem u mu He). intros k Hk. apply Hn. now exists k.
Qed.

(* the centre itself meets the eigen-solver contract: the premise of the mean theorem is satisfiable *)
Lemma sym_centre_contract (qc : Q) w0 ws al :
  qnorm2 qc = 1 -> length ws = length al -> Forall (fun w => 0 < w) ws ->
  2 * vcoef ws al < w0 + 2 * sym_coef ws al ->
  max_eig_contract (outer_sum ROps (sym_weights w0 ws) (sym_quats qc al)) qc.
Proof.
  intros Hq Hlen Hws Hprem. split; [exact Hq|]. exists (w0 + 2 * sym_coef ws al). split.
  - pose proof (sym_centre_eigvec qc w0 ws al Hlen) as Hc. now rewrite Hq, Rmult_1_l in Hc.
  - now apply sym_is_top.
Qed.

Lemma sym_top_simple (qc : Q) w0 ws al :
  qnorm2 qc = 1 -> length ws = length al -> Forall (fun w => 0 < w) ws ->
  2 * vcoef ws al < w0 + 2 * sym_coef ws al ->
  top_simple (outer_sum ROps (sym_weights w0 ws) (sym_quats qc al)).
Proof.
  intros Hq Hlen Hws Hprem lam u u' Htop Hu He He'.
  pose proof (sym_centre_eigvec qc w0 ws al Hlen) as Hc. rewrite Hq, Rmult_1_l in Hc.
  assert (Hle : w0 + 2 * sym_coef ws al <= lam) by (apply (Htop qc); [rewrite Hq; lra | exact Hc]).
  assert (Hpar : forall y, is_eigvec (outer_sum ROps (sym_weights w0 ws) (sym_quats qc al)) y lam -> exists k, y = qscale k qc).
  { intros y Hy. destruct (Classical_Prop.classic (exists k, y = qscale k qc)) as [|Hn]; [assumption|]. exfalso.
    assert (lam < w0 + 2 * sym_coef ws al); [|lra].
    apply (sym_gap_gen qc w0 ws al Hq Hlen Hws Hprem y lam Hy). intros k Hk. apply Hn. now exists k. }
  destruct (Hpar u He) as [k Hk]. destruct (Hpar u' He') as [k' Hk'].
  assert (k <> 0) by (intros ->; apply Hu; rewrite Hk, qscale_0; unfold qnorm2; simpl; ring).
  exists (k' / k). rewrite Hk', Hk, qscale_scale. f_equal. field. assumption.
Qed.

Lemma mean_symmetric_gen eig (qc : Q) w0 ws al :
  qnorm2 qc = 1 -> length ws = length al -> Forall (fun w => 0 < w) ws ->
  2 * vcoef ws al < w0 + 2 * sym_coef ws al ->
  max_eig_contract (outer_sum ROps (sym_weights w0 ws) (sym_quats qc al)) (qmean ROps eig (sym_weights w0 ws) (sym_quats qc al)) ->
  qmean ROps eig (sym_weights w0 ws) (sym_quats qc al) = qc \/
  qmean ROps eig (sym_weights w0 ws) (sym_quats qc al) = qneg qc.
Proof.
  intros Hq Hlen Hws Hprem Hc. apply (mean_symmetric_partial eig qc w0 ws al Hq Hlen Hc).
  now apply sym_gap_gen.
Qed.

(* ---- the same for the library's own sigma-point layout: qc, qc (+) d_j, qc (+) (-d_j) *)

(* cos of the rotation angle of exp(d/2) as the code computes it: cos|d| outside the cut-off, 1 inside *)
Definition rcos (d : V) : R := 2 * (qw (rv_to_q ROps d) * qw (rv_to_q ROps d)) - 1.

Lemma rcos_big d : cut < n3 d -> rcos d = cos (n3 d).
Proof.
  intros H. unfold rcos. rewrite rv_to_q_big by assumption. simpl.
  replace (n3 d) with (2 * (n3 d / 2)) at 3 by field. rewrite cos_2a_cos. ring.
Qed.

Lemma rcos_zone d : n3 d <= cut -> rcos d = 1.
Proof. intros H. unfold rcos. rewrite rv_to_q_zone by assumption. simpl. ring. Qed.

Lemma exp_neg d : rv_to_q ROps (vneg d) = qconj ROps (rv_to_q ROps d).
Proof.
  destruct (Rlt_dec cut (n3 d)) as [H|H].
  - rewrite (rv_to_q_big (vneg d)) by (now rewrite n3_vneg). rewrite (rv_to_q_big d) by assumption.
    rewrite n3_vneg, qconj_R. pose proof cut_pos. simpl. f_equal; field; lra.
  - rewrite (rv_to_q_zone (vneg d)) by (rewrite n3_vneg; lra). rewrite (rv_to_q_zone d) by lra.
    rewrite qconj_R. unfold Q1. simpl. f_equal; ring.
Qed.

Definition sigma_quats (qc : Q) (ds : list V) : list Q := qc :: qsum ROps qc ds ++ qsum ROps qc (map vneg ds).

Lemma sigma_quats_sym qc ds : sigma_quats qc ds = sym_quats qc (map (rv_to_q ROps) ds).
Proof.
  unfold sigma_quats, sym_quats, qsum. rewrite !map_map. f_equal. f_equal.
  apply map_ext. intros d. unfold qsum_one. now rewrite exp_neg.
Qed.

Fixpoint wcos (ws : list R) (ds : list V) : R :=
  match ws, ds with
  | x :: ws', d :: ds' => x * rcos d + wcos ws' ds'
  | _, _ => 0
  end.

Lemma sigma_margin ws ds :
  2 * sym_coef ws (map (rv_to_q ROps) ds) - 2 * vcoef ws (map (rv_to_q ROps) ds) = 2 * wcos ws ds.
Proof.
  revert ds. induction ws as [|x ws IH]; intros [|d ds]; simpl; try ring.
  specialize (IH ds). rewrite exp_unit. unfold rcos. lra.
Qed.

Lemma mean_sigma_set eig (qc : Q) w0 ws ds :
  qnorm2 qc = 1 -> length ws = length ds -> Forall (fun w => 0 < w) ws ->
  0 < w0 + 2 * wcos ws ds ->
  max_eig_contract (outer_sum ROps (sym_weights w0 ws) (sigma_quats qc ds)) (qmean ROps eig (sym_weights w0 ws) (sigma_quats qc ds)) ->
  qmean ROps eig (sym_weights w0 ws) (sigma_quats qc ds) = qc \/
  qmean ROps eig (sym_weights w0 ws) (sigma_quats qc ds) = qneg qc.
Proof.
  intros Hq Hlen Hws Hprem. rewrite sigma_quats_sym. apply mean_symmetric_gen; try assumption.
  - now rewrite map_length.
  - pose proof (sigma_margin ws ds). lra.
Qed.

(* weights summing to one (w0 + 2 sum w_j = 1): the premise reads 2 sum_j w_j (1 - cos|d_j|) < 1 *)
Fixpoint wvers (ws : list R) (ds : list V) : R :=
  match ws, ds with
  | x :: ws', d :: ds' => x * (1 - rcos d) + wvers ws' ds'
  | _, _ => 0
  end.

Lemma margin_sum_one w0 ws (ds : list V) : length ws = length ds -> w0 + 2 * fold_right Rplus 0 ws = 1 ->
  w0 + 2 * wcos ws ds = 1 - 2 * wvers ws ds.
Proof.
  intros Hlen Hs. assert (E : forall ws (ds : list V), length ws = length ds -> wcos ws ds = fold_right Rplus 0 ws - wvers ws ds).
  { clear. induction ws as [|x ws IH]; intros [|d ds] H; simpl in *; try discriminate; [ring|].
    rewrite (IH ds) by now injection H. ring. }
  rewrite (E ws ds Hlen). lra.
Qed.

(* ---- without the premise the clause is false: the unscented weight set of n = 1, n + lambda = 1/2
   (weights -1, 1, 1, summing to one), offsets +-2 atan(3/4) (about 74 degrees, within a quarter turn) around the
   identity: the matrix is diag(7/25, 18/25, 0, 0) and every vector meeting the contract is +-i, orthogonal to the centre *)
Lemma mean_symmetric_negative_weight_refuted :
  let qc := Q1 in let al := [mkQR (4/5) (3/5) 0 0] in let ws := [1] in let w0 := -1 in
  qnorm2 qc = 1 /\ length ws = length al /\ Forall (fun w => 0 < w) ws /\ Forall tight al /\
  w0 + 2 * fold_right Rplus 0 ws = 1 /\
  (forall v, max_eig_contract (outer_sum ROps (sym_weights w0 ws) (sym_quats qc al)) v ->
             (v = mkQR 0 1 0 0 \/ v = mkQR 0 (-1) 0 0) /\ v <> qc /\ v <> qneg qc) /\
  max_eig_contract (outer_sum ROps (sym_weights w0 ws) (sym_quats qc al)) (mkQR 0 1 0 0).
Proof.
  intros qc al ws w0.
  assert (E : forall u, mv (outer_sum ROps (sym_weights w0 ws) (sym_quats qc al)) u 0 = 7 / 25 * qw u /\
                        mv (outer_sum ROps (sym_weights w0 ws) (sym_quats qc al)) u 1 = 18 / 25 * qx u /\
                        mv (outer_sum ROps (sym_weights w0 ws) (sym_quats qc al)) u 2 = 0 /\
                        mv (outer_sum ROps (sym_weights w0 ws) (sym_quats qc al)) u 3 = 0).
  { assert (E' : forall u i, mv (outer_sum ROps (sym_weights w0 ws) (sym_quats qc al)) u i = osum_v (combine (sym_weights w0 ws) (sym_quats qc al)) u i)
      by (intros u i; rewrite (mv_ext _ (osum (combine (sym_weights w0 ws) (sym_quats qc al)))) by (intros; apply outer_sum_R); apply mv_osum).
    intros u. rewrite !E'. unfold sym_weights, sym_quats, qc, al, ws, w0. cbn [map app combine osum_v fst snd].
    rewrite !qmul_R, qconj_R. unfold qdot, Q1. simpl. repeat split; field. }
  assert (T : forall u mu, qnorm2 u <> 0 -> is_eigvec (outer_sum ROps (sym_weights w0 ws) (sym_quats qc al)) u mu -> mu <= 18 / 25).
  { intros u mu Hu [E0 [E1 [E2 E3]]]. destruct (E u) as [F0 [F1 [F2 F3]]]. rewrite F0 in E0. rewrite F1 in E1. rewrite F2 in E2. rewrite F3 in E3.
    destruct (Rle_dec mu (18 / 25)) as [|Hgt]; [assumption|]. exfalso.
    assert (qw u = 0) by nra. assert (qx u = 0) by nra. assert (qy u = 0) by nra. assert (qz u = 0) by nra.
    apply Hu. unfold qnorm2. nra. }
  assert (I : is_eigvec (outer_sum ROps (sym_weights w0 ws) (sym_quats qc al)) (mkQR 0 1 0 0) (18 / 25)).
  { destruct (E (mkQR 0 1 0 0)) as [F0 [F1 [F2 F3]]]. unfold is_eigvec. rewrite F0, F1, F2, F3. simpl. repeat split; ring. }
  split; [unfold qc, qnorm2; simpl; lra|]. split; [reflexivity|]. split; [repeat constructor; lra|].
  split; [repeat constructor; unfold qnorm2; simpl; lra|]. split; [unfold w0, ws; simpl; lra|]. split.
  - intros v [Hv [lam [[E0 [E1 [E2 E3]]] Hmax]]].
    destruct (E v) as [F0 [F1 [F2 F3]]]. rewrite F0 in E0. rewrite F1 in E1. rewrite F2 in E2. rewrite F3 in E3.
    assert (Hl : 18 / 25 <= lam) by (apply (Hmax (mkQR 0 1 0 0)); [unfold qnorm2; simpl; lra | exact I]).
    destruct v as [a b c d]. unfold qnorm2 in Hv. simpl in *.
    assert (a = 0) by nra. assert (c = 0) by nra. assert (d = 0) by nra. subst a c d.
    assert (Hb : (b - 1) * (b + 1) = 0) by lra. apply Rmult_integral in Hb.
    split; [destruct Hb; [left|right]; f_equal; lra|].
    unfold qc, Q1, qneg. simpl. split; intros Hx; injection Hx; intros; lra.
  - split; [unfold qnorm2; simpl; lra|]. exists (18 / 25). split; [exact I | exact T].
Qed.

(* non-vacuity of the generalised symmetric statement with a NEGATIVE central weight: the unscented set n = 1,
   n + lambda = 1/4 (weights -3, 2, 2), offsets (35/37, +-12/37, 0, 0) around the identity *)
Lemma example_negative_weight_premises :
  let qc := Q1 in let al := [mkQR (35/37) (12/37) 0 0] in let ws := [2] in let w0 := -3 in
  qnorm2 qc = 1 /\ length ws = length al /\ Forall (fun w => 0 < w) ws /\ w0 < 0 /\
  w0 + 2 * fold_right Rplus 0 ws = 1 /\ 2 * vcoef ws al < w0 + 2 * sym_coef ws al.
Proof.
  intros qc al ws w0. unfold qc, al, ws, w0.
  split; [unfold qnorm2; simpl; lra|]. split; [reflexivity|]. split; [repeat constructor; lra|].
  split; [lra|]. split; [simpl; lra|]. simpl. unfold qnorm2. simpl. lra.
Qed.
