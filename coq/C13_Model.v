(* C13_Model.v — state-machine model of the skip commands (no arithmetic):
     layer 1  GaussianFilter::skip / ParticleFilter::skip   (GaussianFilter.cpp:19-41, ParticleFilter.cpp:28-50)
     layer 2  GaussianPrediction::skip / PFPrediction::skip (GaussianPrediction.cpp:27-59, PFPrediction.cpp:26-58; same text)
              GaussianCorrection::skip / PFCorrection::skip (GaussianCorrection.cpp:26-31, PFCorrection.cpp:24-29)
     layer 3  StateModel::skip, have_exogenous_model, exogenous_model (StateModel.cpp:14-63)
     layer 4  ExogenousModel::skip                           (ExogenousModel.cpp:14-22)
   as they are after "fix: skip commands no longer throw when no exogenous model is attached",
   and of the places where the flags are read:
     GaussianPrediction::predict / PFPrediction::predict, GaussianCorrection::correct / PFCorrection::correct,
     KFPrediction::predictStep / UKFPrediction::predictStep (own test of the state model's flag),
     GPFPrediction::predictStep (calls the wrapped GaussianPrediction::predict),
     DrawParticles::predictStep (motion -> propagate), LinearStateModel::propagate (four-way branch).
   An exception is a result constructor.  A flag update made before a throw persists. *)
Require Import List Bool.
Import ListNotations.
Local Open Scope bool_scope.

(* what_step: the five words the code compares against, and "any other string" *)
Inductive name := NPrediction | NState | NExogenous | NCorrection | NAll | NOther.

Definition name_eqb (a b : name) : bool :=
  match a, b with
  | NPrediction, NPrediction | NState, NState | NExogenous, NExogenous
  | NCorrection, NCorrection | NAll, NAll | NOther, NOther => true
  | _, _ => false
  end.

Inductive res := Ok (b : bool) | Throws.

Record flags := mkFlags {
  f_pred : bool;        (* GaussianPrediction::skip_ / PFPrediction::skip_ of the filter's prediction step *)
  f_inner : bool;       (* Gaussian-particle filter only: skip_ of the GaussianPrediction wrapped by GPFPrediction *)
  f_state : bool;       (* StateModel::skip_ *)
  f_exo : option bool;  (* None: exogenous_model_ is null;  Some e: ExogenousModel::skip_ = e *)
  f_corr : bool         (* GaussianCorrection::skip_ / PFCorrection::skip_ *)
}.

Definition set_pred (b : bool) (f : flags) := mkFlags b (f_inner f) (f_state f) (f_exo f) (f_corr f).
Definition set_state (b : bool) (f : flags) := mkFlags (f_pred f) (f_inner f) b (f_exo f) (f_corr f).
Definition set_exo (e : bool) (f : flags) := mkFlags (f_pred f) (f_inner f) (f_state f) (Some e) (f_corr f).
Definition set_corr (b : bool) (f : flags) := mkFlags (f_pred f) (f_inner f) (f_state f) (f_exo f) b.

(* a freshly constructed filter, with or without exogenous model *)
Definition init (have : bool) : flags :=
  mkFlags false false false (if have then Some false else None) false.

(* How the user hands an exogenous model to a filter: StateModel::add_exogenous_model, or the
   two-argument constructor DrawParticles(state_model, exogenous_model) (DrawParticles.cpp:21-26), which
   since "fix: DrawParticles attaches the exogenous model it is constructed with" calls
   state_model_->add_exogenous_model itself.  Either way the model ends up in the state model, the only
   place the skip commands and propagate look at.  (The constructor as it was before, which only stored
   the model in a member nothing reads, is in C13_Regress.) *)
Inductive assembly := ViaStateModel (have : bool) | ViaDrawParticlesCtor.
Definition init_of (a : assembly) : flags :=
  match a with
  | ViaStateModel have => init have
  | ViaDrawParticlesCtor => init true
  end.
Definition exo_supplied (a : assembly) : bool :=
  match a with
  | ViaStateModel have => have
  | ViaDrawParticlesCtor => true
  end.

(* sequencing of calls that may throw *)
Definition bind (x : res * flags) (k : bool -> flags -> res * flags) : res * flags :=
  match fst x with
  | Ok b => k b (snd x)
  | Throws => (Throws, snd x)
  end.

(* ---- layer 4: ExogenousModel::skip, on the flag of the exogenous model ---- *)
Definition exo_skip (w : name) (b : bool) (e : bool) : bool * bool :=
  match w with
  | NExogenous => (true, b)
  | _ => (false, e)
  end.

(* ---- layer 3: StateModel ----
   Two DIFFERENT member functions read the exogenous pointer:
     have_exogenous_model()  total, noexcept: is the pointer non-null
     exogenous_model()       partial: returns the model, THROWS when the pointer is null
   The dispatch code is safe only because every call of the partial accessor sits behind a
   test of the total one.  There are three such tests ("guards"); the dispatch functions are
   written once, parameterised by which guards are present, so that the theorems about the
   code as it is (all three present) visibly depend on them, and the snapshot before
   "fix: skip commands no longer throw when no exogenous model is attached" (none present)
   is an instance of the same definitions (C13_Regress). *)
Definition have_exo (f : flags) : bool := match f_exo f with Some _ => true | None => false end.
(* StateModel::exogenous_model(): None stands for the throw *)
Definition exo_model (f : flags) : option bool := f_exo f.

Record guards := mkGuards {
  g_sm : bool;      (* StateModel::skip, "exogenous":       if (!have_exogenous_model()) return false;      StateModel.cpp:20-21 *)
  g_state : bool;   (* Prediction::skip, "state":           ... & (!have_exogenous_model() || ...)          GaussianPrediction.cpp:42, PFPrediction.cpp:41 *)
  g_exo : bool      (* Prediction::skip, "exogenous":       if (!have_exogenous_model()) return false;      GaussianPrediction.cpp:46-47, PFPrediction.cpp:45-46 *)
}.
Definition guards_now := mkGuards true true true.

Definition sm_skip_g (G : guards) (w : name) (b : bool) (f : flags) : res * flags :=
  match w with
  | NState => (Ok true, set_state b f)
  | NExogenous =>
      if g_sm G && negb (have_exo f) then (Ok false, f)
      else match exo_model f with
           | None => (Throws, f)
           | Some e => (Ok true, set_exo (snd (exo_skip w b e)) f)   (* the callee's result is ignored *)
           end
  | _ => (Ok false, f)
  end.

(* ---- layer 2: GaussianPrediction::skip = PFPrediction::skip ---- *)
Definition pred_skip_g (G : guards) (w : name) (b : bool) (f : flags) : res * flags :=
  match w with
  | NPrediction =>
      bind (sm_skip_g G NState b (set_pred b f)) (fun _ f2 =>
      bind (sm_skip_g G NExogenous b f2) (fun _ f3 => (Ok true, f3)))
  | NState =>
      bind (sm_skip_g G NState b f) (fun _ f1 =>
        (* skip_ = sm.is_skipping() & (!sm.have_exogenous_model() || sm.exogenous_model().is_skipping()) *)
        if g_state G && negb (have_exo f1) then (Ok true, set_pred (f_state f1 && true) f1)
        else match exo_model f1 with
             | None => (Throws, f1)
             | Some e => (Ok true, set_pred (f_state f1 && e) f1)
             end)
  | NExogenous =>
      if g_exo G && negb (have_exo f) then (Ok false, f)
      else bind (sm_skip_g G NExogenous b f) (fun _ f1 =>
             match exo_model f1 with
             | None => (Throws, f1)
             | Some e => (Ok true, set_pred (f_state f1 && e) f1)
             end)
  | _ => (Ok false, f)
  end.

(* GaussianCorrection::skip = PFCorrection::skip *)
Definition corr_skip (b : bool) (f : flags) : res * flags := (Ok true, set_corr b f).

(* ---- layer 1: GaussianFilter::skip = ParticleFilter::skip ---- *)
Definition filter_skip_g (G : guards) (w : name) (b : bool) (f : flags) : res * flags :=
  match w with
  | NPrediction | NState | NExogenous => pred_skip_g G w b f
  | NCorrection => corr_skip b f
  | NAll =>
      bind (pred_skip_g G NPrediction b f) (fun r1 f1 =>
      bind (corr_skip b f1) (fun r2 f2 => (Ok (true && r1 && r2), f2)))
  | NOther => (Ok false, f)
  end.

(* the code as it is now *)
Definition sm_skip := sm_skip_g guards_now.
Definition pred_skip := pred_skip_g guards_now.
Definition filter_skip := filter_skip_g guards_now.

(* a command word *)
Definition cmd := (name * bool)%type.
Fixpoint run (cs : list cmd) (f : flags) : list res * flags :=
  match cs with
  | [] => ([], f)
  | c :: cs' =>
      let x := filter_skip (fst c) (snd c) f in
      let y := run cs' (snd x) in
      (fst x :: fst y, snd y)
  end.
Definition final (cs : list cmd) (f : flags) : flags := snd (run cs f).

(* ---- where the flags are read ---- *)
Inductive kind := KF | UKF | Boot | GPF.

(* what LinearStateModel::propagate does, by branch (the last one writes nothing) *)
Inductive prop_mode := MCopy | MFull | MStateOnly | MExoOnly | MNothing.
Definition prop_mode_of (f : flags) : prop_mode :=
  let e := match exo_model f with Some e => e | None => false end in   (* read only under have_exo *)
  if f_state f && (have_exo f && e) then MCopy
  else if negb (f_state f) && (have_exo f && negb e) then MFull
  else if negb (f_state f) then MStateOnly
  else if have_exo f && negb e then MExoOnly
  else MNothing.

Section Steps.
Variable B : Type.    (* beliefs: Gaussian mixtures or particle sets *)
(* the numerical body of predictStep / correctStep once every flag test has been passed:
   kind of step, what propagate does, input, previous content of the output object *)
Variable pstep : kind -> prop_mode -> B -> B -> B.
Variable cstep : kind -> B -> B -> B.
(* Output objects are in-out and may have ANY shape on entry.  A whole-object assignment
   (pred_state = prev_state on objects of their dynamic type) makes the output equal to the input
   whatever its previous shape.  GPFPrediction::predictStep is different: the wrapped Gaussian
   prediction sees the particle sets as GaussianMixture&, so its "pred_state = prev_state" is a
   SLICED assignment (mean, covariance, weight and the shape fields; not ParticleSet::state_), after
   which "pred.state() = prev.state()" writes through an Eigen::Ref that cannot resize.  With an
   output object of the input's shape the result is the input; otherwise it is [gpf_sliced prev old]
   (an inconsistent object: undefined behaviour in NDEBUG builds, Eigen assertion otherwise). *)
Variable same_shape : B -> B -> bool.
Variable gpf_sliced : B -> B -> B.

Definition gpf_inner_identity (prev old : B) : B :=
  if same_shape prev old then prev else gpf_sliced prev old.

(* KFPrediction / UKFPrediction / DrawParticles / GPFPrediction ::predictStep *)
Definition predict_step (k : kind) (f : flags) (prev old : B) : B :=
  match k with
  | KF | UKF => if f_state f then prev else pstep k (prop_mode_of f) prev old
  | Boot => pstep k (prop_mode_of f) prev old
  | GPF =>
      (* gaussian_prediction_->predict(prev, pred); pred.weight() = prev.weight(); pred.state() = prev.state() *)
      if negb (f_inner f) then (if f_state f then gpf_inner_identity prev old else pstep k (prop_mode_of f) prev old)
      else gpf_inner_identity prev old
  end.

(* GaussianPrediction::predict / PFPrediction::predict: a whole-object assignment when skipped *)
Definition predict (k : kind) (f : flags) (prev old : B) : B :=
  if negb (f_pred f) then predict_step k f prev old else prev.

(* GaussianCorrection::correct / PFCorrection::correct *)
Definition correct (k : kind) (f : flags) (pred old : B) : B :=
  if negb (f_corr f) then cstep k pred old else pred.
End Steps.

(* ---- the derived rule: the status of the last command that touches a flag ---- *)
Definition mem_name (w : name) (l : list name) : bool := existsb (name_eqb w) l.
Definition last_status (names : list name) (d : bool) (cs : list cmd) : bool :=
  fold_left (fun acc c => if mem_name (fst c) names then snd c else acc) cs d.

Definition state_names := [NPrediction; NState; NAll].
Definition exo_names := [NPrediction; NExogenous; NAll].
Definition corr_names := [NCorrection; NAll].

(* ---- the measurement path: freeze_measurements is NOT gated by the skip flag ----
   GaussianCorrection::freeze_measurements / PFCorrection::freeze_measurements
   (GaussianCorrection.cpp:34-37, PFCorrection.cpp:32-35) forward to MeasurementModel::freeze whatever skip_ is.
   With a stream-like sensor every freeze advances the source (SimulatedLinearSensor::freeze ->
   SimulatedStateModel::bufferData); correctStep uses the measurement frozen last.  The machine state is
   therefore the flags plus the cursor of the measurement source (= number of freeze calls so far). *)
Record mstate := mkM { ms_flags : flags; ms_cursor : nat }.
Definition m_init (have : bool) : mstate := mkM (init have) 0.

(* observable instantiation used by the correspondence check: a belief is a
   marker saying which computation produced it; the output object handed in has
   either the input's shape (OOld) or another one (OOldOther) *)
Inductive outcome := OInput | OOld | OOldOther | ORan (k : kind) (m : prop_mode) | OCorrected (k : kind) (meas : nat) | OSliced.
Definition same_shape_o (_ old : outcome) : bool := match old with OOldOther => false | _ => true end.
Definition obs_predict (k : kind) (f : flags) (other_shape : bool) : outcome :=
  predict outcome (fun k m _ _ => ORan k m) same_shape_o (fun _ _ => OSliced) k f OInput (if other_shape then OOldOther else OOld).

Section Measured.
Variable B : Type.
(* correctStep with the measurement frozen by the n-th freeze call *)
Variable cstepm : kind -> nat -> B -> B -> B.
Definition correct_m (k : kind) (st : mstate) (pred old : B) : B :=
  correct B (fun k => cstepm k (ms_cursor st)) k (ms_flags st) pred old.
End Measured.

Definition obs_correct (k : kind) (st : mstate) (other_shape : bool) : outcome :=
  correct_m outcome (fun k n _ _ => OCorrected k n) k st OInput (if other_shape then OOldOther else OOld).

(* OpPredict true / OpCorrect true: the output object has a different shape than the input *)
Inductive op := OpSkip (w : name) (b : bool) | OpPredict (other_shape : bool) | OpCorrect (other_shape : bool) | OpFreeze.
Inductive obs := ObsSkip (r : res) (f : flags) | ObsStep (o : outcome) | ObsFreeze (cursor : nat).

Definition next (o : op) (st : mstate) : mstate :=
  match o with
  | OpSkip w b => mkM (snd (filter_skip w b (ms_flags st))) (ms_cursor st)
  | OpFreeze => mkM (ms_flags st) (S (ms_cursor st))        (* the skip flag is not consulted *)
  | OpPredict _ | OpCorrect _ => st
  end.
Definition observe (k : kind) (o : op) (st : mstate) : obs :=
  match o with
  | OpSkip w b => let x := filter_skip w b (ms_flags st) in ObsSkip (fst x) (snd x)
  | OpPredict x => ObsStep (obs_predict k (ms_flags st) x)
  | OpCorrect x => ObsStep (obs_correct k st x)
  | OpFreeze => ObsFreeze (S (ms_cursor st))
  end.
Fixpoint run_ops (k : kind) (ops : list op) (st : mstate) : list obs :=
  match ops with
  | [] => []
  | o :: r => observe k o st :: run_ops k r (next o st)
  end.
Definition final_m (ops : list op) (st : mstate) : mstate := fold_left (fun s o => next o s) ops st.

(* the skip commands of a word of operations, and the word a never-skipped twin receives:
   the same freeze / predict / correct calls without the skip commands *)
Definition is_skip (o : op) : bool := match o with OpSkip _ _ => true | _ => false end.
Fixpoint skips_of (ops : list op) : list cmd :=
  match ops with
  | [] => []
  | OpSkip w b :: r => (w, b) :: skips_of r
  | _ :: r => skips_of r
  end.
Definition calls_of (ops : list op) : list op := filter (fun o => negb (is_skip o)) ops.
Definition freezes_of (ops : list op) : nat :=
  length (filter (fun o => match o with OpFreeze => true | _ => false end) ops).
