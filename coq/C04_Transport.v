(* C04_Transport.v — transport for the Kalman prediction used as the spec side of C04's
   prediction half: kf_predict_comp at the LIST instance represents the MathComp one on
   well-formed inputs (any realFieldType).  Built on ListOpsCorrect.v / C02_Transport.v.
   Second part (Section UKF): the unscented Kalman steps themselves — ukf_predict_additive,
   ukf_predict_generic, ukf_correct_additive, ukf_correct_generic, ukf_likelihood — for
   ARBITRARY list-level oracles and all layouts: the executed list instance represents the
   MathComp instance, under the per-call correspondence premises of C03_Transport.v (square
   root on the covariances actually factored, eigenvector oracle only with quaternion outputs,
   the model functions) and with the invertibility of the inverted matrices (the predicted
   measurement covariances Pyy_i of the MathComp run) as an explicit premise. *)
Require Import ZArith List Bool Lia.
Require Import BFL.Ops BFL.ListOps BFL.Density BFL.C01_Model BFL.C03_Model BFL.C04_Model.
From mathcomp Require Import all_ssreflect all_algebra.
Require Import BFL.MxOps BFL.LinAlg BFL.ListOpsCorrect BFL.C02_Transport BFL.C01_Transport BFL.UT_Transport BFL.C03_Transport.
Require Import BFL.C03_Proofs BFL.C04_Proofs.
Set Implicit Arguments.
Unset Strict Implicit.
Unset Printing Implicit Defensive.
Import GRing.Theory.
Local Open Scope ring_scope.

Section T.
Variable F : realFieldType.
Variable tr : Transc F.
Variable sq : forall n, 'M[F]_n -> 'M[F]_n.
Variable eg : forall n, 'M[F]_n -> 'M[F]_(n,1).
Let S := FOps tr.
Let OL := ListMat S (fun _ X => X) (fun _ X => X).
Let OM := MxMat tr sq eg.
Notation repr m n l A := (@C02_Transport.repr F m n l A) (only parsing).

(* the Kalman prediction of one component (C04's spec side) *)
Lemma kf_predict_comp_transport n lF (Fm : 'M[F]_n) lQ (Q : 'M[F]_n) lx (x : 'cV[F]_n) lP (P : 'M[F]_n) :
  repr n n lF Fm -> repr n n lQ Q -> repr n 1 lx x -> repr n n lP P ->
  repr n 1 (@kf_predict_comp OL n lF lQ (lx, lP)).1 (@kf_predict_comp OM n Fm Q (x, P)).1 /\
  repr n n (@kf_predict_comp OL n lF lQ (lx, lP)).2 (@kf_predict_comp OM n Fm Q (x, P)).2.
Proof.
move=> HF HQ Hx HP; rewrite /kf_predict_comp /=; split; first exact: (repr_mul tr).
by apply: (repr_add tr) => //; apply: (repr_mul tr); [exact: (repr_mul tr) | exact: (repr_tr tr)].
Qed.
End T.

(* ====================================================================== *)
Lemma F2_and (A B : Type) (R Q : A -> B -> Prop) l1 l2 :
  List.Forall2 R l1 l2 -> List.Forall2 Q l1 l2 -> List.Forall2 (fun a b => R a b /\ Q a b) l1 l2.
Proof.
elim=> [|a b l1' l2' Hab _ IH] H2; first exact: List.Forall2_nil.
by inversion H2; subst; apply: List.Forall2_cons => //; exact: IH.
Qed.

Lemma F2_and_r (A B : Type) (R : A -> B -> Prop) (P : B -> Prop) l1 l2 :
  List.Forall2 R l1 l2 -> List.Forall P l2 -> List.Forall2 (fun a b => R a b /\ P b) l1 l2.
Proof.
elim=> [|a b l1' l2' Hab _ IH] H2; first exact: List.Forall2_nil.
by inversion H2; subst; apply: List.Forall2_cons => //; exact: IH.
Qed.

Section UKF.
Variable F : realFieldType.
Variable tr : Transc F.
Variable sq : forall n, 'M[F]_n -> 'M[F]_n.
Variable eg : forall n, 'M[F]_n -> 'M[F]_(n,1).
Variables sqL egL : nat -> lmxF F -> lmxF F.
Let S := FOps tr.
Let OL := ListMat S sqL egL.
Let OM := MxMat tr sq eg.
Notation repr m n l A := (@C02_Transport.repr F m n l A) (only parsing).
Notation rcols r := (@repr_list F r 1) (only parsing).
Local Notation Rget := (@rget F tr sq eg sqL egL).
Local Notation Rbuild := (@rbuild F tr sq eg sqL egL).
Local Notation Radd := (@r_add F tr sq eg sqL egL).
Local Notation Rsub := (@r_sub F tr sq eg sqL egL).
Local Notation Ropp := (@r_opp F tr sq eg sqL egL).
Local Notation Rmul := (@r_mul F tr sq eg sqL egL).
Local Notation Rtr := (@r_tr F tr sq eg sqL egL).
Local Notation Rzero := (@r_zero F tr sq eg sqL egL).
Local Notation Rinv := (@r_inv F tr sq eg sqL egL).
Local Notation Rdet := (@r_det F tr sq eg sqL egL).
Local Notation Rcomp d dc := (@repr_comp F d dc) (only parsing).
Local Notation Sqc dc := (@sq_corr F sq sqL dc) (only parsing).
Local Notation Egc := (@eg_corr F eg egL) (only parsing).
Local Notation Rutres p pc dx := (@repr_utres F tr sq eg sqL egL p pc dx) (only parsing).

(* ---- mixtures ---- *)
Definition repr_mix d dc (ml : mixture OL d dc) (mm : mixture OM d dc) : Prop :=
  [/\ mx_layout ml = mx_layout mm,
      List.Forall2 (@repr_comp F d dc) (mx_comps ml) (mx_comps mm) &
      mx_weights ml = mx_weights mm].

(* the square-root oracles correspond on every covariance of the list *)
Definition sq_corr_comps d dc (csl : list (lmxF F * lmxF F)) (csm : list ('cV[F]_d * 'M[F]_dc)) : Prop :=
  List.Forall2 (fun cl cm => Sqc dc cl.2 cm.2) csl csm.

Lemma comps_sq d dc (csl : list (lmxF F * lmxF F)) (csm : list ('cV[F]_d * 'M[F]_dc)) :
  List.Forall2 (@repr_comp F d dc) csl csm -> sq_corr_comps csl csm ->
  List.Forall2 (@repr_comp_sq F sq sqL d dc) csl csm.
Proof. exact: F2_and. Qed.

Lemma mix_of_result_repr Lout p pc dx (rl : ut_result OL p pc dx) (rm : ut_result OM p pc dx) :
  Rutres p pc dx rl rm -> repr_mix (@mix_of_result OL Lout p pc dx rl) (@mix_of_result OM Lout p pc dx rm).
Proof.
move=> [rcs rws]; split=> //=.
by apply: F2_map; apply: F2_impl rcs => ul um [r1 r2 _].
Qed.

Lemma linear_cols_corr d p lA (A : 'M[F]_(p,d)) : repr p d lA A ->
  @f_corr F d p (@linear_cols OL d p lA) (@linear_cols OM d p A).
Proof.
move=> rA lX X rX; rewrite /linear_cols; apply: F2_map; apply: F2_impl rX => l x rx; exact: Rmul.
Qed.

(* ---- prediction ---- *)
Theorem ukf_predict_additive_transport n (Lstate : layout) (a b k : F) (sp ss : bool) fL fM lQ (Q : 'M[F]_n) q
        (prevl : mixture OL n n) (prevm : mixture OM n n) :
  Egc (l_noiseless Lstate) -> @f_corr F n n fL fM -> repr n n lQ Q -> repr_mix prevl prevm ->
  (sp || ss = false -> sq_corr_comps (mx_comps prevl) (mx_comps prevm)) ->
  repr_mix (@ukf_predict_additive OL n Lstate a b k sp ss fL lQ q prevl)
           (@ukf_predict_additive OM n Lstate a b k sp ss fM Q q prevm).
Proof.
move=> Heg Hf rQ rp Hsq; rewrite /ukf_predict_additive; case E: (sp || ss) => //.
have [El rc Ew] := rp; rewrite El.
apply: mix_of_result_repr; apply: ut_additive_state_transport => //.
by apply: comps_sq => //; exact: Hsq.
Qed.

Theorem ukf_predict_generic_transport n q (Ldesc Lstate : layout) (a b k : F) (sp ss : bool) fL fM lQ (Q : 'M[F]_q)
        (prevl : mixture OL n n) (prevm : mixture OM n n) :
  Egc (l_noiseless Lstate) -> @f_corr F (n + q) n fL fM -> repr q q lQ Q -> repr_mix prevl prevm ->
  (sp || ss = false ->
   sq_corr_comps (List.map (@augment_comp OL n n q lQ) (mx_comps prevl))
                 (List.map (@augment_comp OM n n q Q) (mx_comps prevm))) ->
  repr_mix (@ukf_predict_generic OL n q Ldesc Lstate a b k sp ss fL lQ prevl)
           (@ukf_predict_generic OM n q Ldesc Lstate a b k sp ss fM Q prevm).
Proof.
move=> Heg Hf rQ rp Hsq; rewrite /ukf_predict_generic; case E: (sp || ss) => //.
have [El rc Ew] := rp; rewrite El.
apply: mix_of_result_repr; apply: ut_state_transport => //.
apply: comps_sq; last exact: Hsq.
by apply: F2_map; apply: F2_impl rc => cl cm rcc; exact: augment_comp_repr.
Qed.

(* ---- correction ---- *)
Definition repr_ukfst m (sl : ukf_state OL m) (sm : ukf_state OM m) : Prop :=
  rcols m (us_innov sl) (us_innov sm) /\ @repr_list F m m (us_Pyy sl) (us_Pyy sm).

Definition repr_kfo n m (ol : kf_out OL n m) (om : kf_out OM n m) : Prop :=
  [/\ repr n 1 (gmean (ko_comp ol)) (gmean (ko_comp om) : 'cV[F]_n),
      repr n n (gcov (ko_comp ol)) (gcov (ko_comp om) : 'M[F]_n),
      repr m 1 (ko_innov ol) (ko_innov om : 'cV[F]_m) &
      repr m m (ko_Py ol) (ko_Py om : 'M[F]_m)].

Definition repr_corr n m (xl : mixture OL n n * ukf_state OL m * list (kf_out OL n m))
           (xm : mixture OM n n * ukf_state OM m * list (kf_out OM n m)) : Prop :=
  [/\ repr_mix xl.1.1 xm.1.1, repr_ukfst xl.1.2 xm.1.2 & List.Forall2 (@repr_kfo n m) xl.2 xm.2].

Lemma repr_ukfst_nil m lPs (Ps : list 'M[F]_m) : @repr_list F m m lPs Ps ->
  repr_ukfst (@mkUkfState OL m nil lPs) (@mkUkfState OM m nil Ps).
Proof. by move=> rP; split=> //; exact: List.Forall2_nil. Qed.

Lemma repr_corr_idle n m (ml : mixture OL n n) (mm : mixture OM n n) (sl : ukf_state OL m) (sm : ukf_state OM m) :
  repr_mix ml mm -> repr_ukfst sl sm -> @repr_corr n m (ml, sl, nil) (mm, sm, nil).
Proof. by move=> rm rs; split=> //; exact: List.Forall2_nil. Qed.

(* the stored cross-covariance: entries agree everywhere *)
Lemma cross_storage_get dx pc (cl : list (lmxF F)) (cm : list 'M[F]_(dx,pc)) r c :
  @repr_list F dx pc cl cm ->
  @mget OL _ _ (@cross_storage OL dx pc cl) r c = @mget OM _ _ (@cross_storage OM dx pc cm) r c.
Proof.
move=> rc; rewrite /cross_storage -(F2_length rc).
apply: (Rget (Rbuild (m:=dx) (n:=pc * length cl) _)) => i j _ _.
by apply: Rget; apply: F2_nth => //; exact: Rzero.
Qed.

Lemma ukf_gain_repr dx pc (cl : list (lmxF F)) (cm : list 'M[F]_(dx,pc)) mcs i lPyy (Pyy : 'M[F]_pc) :
  @repr_list F dx pc cl cm -> repr pc pc lPyy Pyy -> Pyy \in unitmx ->
  repr dx pc (@ukf_gain OL dx pc _ (@cross_storage OL dx pc cl) mcs i lPyy)
             (@ukf_gain OM dx pc _ (@cross_storage OM dx pc cm) mcs i Pyy).
Proof.
move=> rc rP uP; rewrite /ukf_gain; apply: Rmul; last exact: Rinv.
by apply: Rbuild => r c _ _; exact: cross_storage_get.
Qed.

Lemma ukf_correct_comp_repr n m (cl : list (lmxF F)) (cm : list 'M[F]_(n,m)) mcs i
      xPl (xPm : 'cV[F]_n * 'M[F]_n) lPyy (Pyy : 'M[F]_m) lnu (nu : 'cV[F]_m) :
  @repr_list F n m cl cm -> Rcomp n n xPl xPm -> repr m m lPyy Pyy -> Pyy \in unitmx -> repr m 1 lnu nu ->
  repr_kfo (@ukf_correct_comp OL n m _ (@cross_storage OL n m cl) mcs i xPl lPyy lnu)
           (@ukf_correct_comp OM n m _ (@cross_storage OM n m cm) mcs i xPm Pyy nu).
Proof.
move=> rc [rx rP] rPyy uP rnu; have rK := ukf_gain_repr mcs i rc rPyy uP.
rewrite /ukf_correct_comp; split=> //=.
- by apply: Radd => //; exact: Rmul.
- by apply: Rsub => //; apply: Rmul; [exact: Rmul | exact: Rtr].
Qed.

Lemma ukf_correct_loop_repr n m mcs (predl : list (lmxF F * lmxF F)) (predm : list ('cV[F]_n * 'M[F]_n))
      (rl : ut_result OL m m n) (rm : ut_result OM m m n) lnus (nus : list 'cV[F]_m) :
  List.Forall2 (@repr_comp F n n) predl predm -> Rutres m m n rl rm ->
  List.Forall (fun u : ut_comp OM m m n => (uc_cov u : 'M[F]_m) \in unitmx) (ur_comps rm) ->
  rcols m lnus nus ->
  List.Forall2 (@repr_kfo n m) (@ukf_correct_loop OL n m mcs predl rl lnus)
                               (@ukf_correct_loop OM n m mcs predm rm nus).
Proof.
move=> rp [rcs _] Hu rnu; rewrite /ukf_correct_loop (F2_length rp).
have rcross : @repr_list F n m (List.map (fun u => uc_cross u) (ur_comps rl))
                               (List.map (fun u => uc_cross u) (ur_comps rm)).
  by apply: F2_map; apply: F2_impl rcs => ul um [].
apply: F2_map.
apply: F2_impl (F2_combine_eq (List.seq 0 (length predm)) (F2_combine rp (F2_combine (F2_and_r rcs Hu) rnu))).
move=> [il [xl [ul nl]]] [im [xm [um nm]]] /= [-> [rx [[[_ rcov _] uc] rn]]].
exact: ukf_correct_comp_repr.
Qed.

Lemma overwrite_prefix_repr (A B : Type) (R : A -> B -> Prop) n1 n2 o1 o2 :
  List.Forall2 R n1 n2 -> List.Forall2 R o1 o2 ->
  List.Forall2 R (C04_Model.overwrite_prefix n1 o1) (C04_Model.overwrite_prefix n2 o2).
Proof.
move=> rn ro; rewrite /C04_Model.overwrite_prefix (F2_length rn).
by apply: List.Forall2_app => //; exact: F2_skipn.
Qed.

(* the innovation function of the measurement model: corresponding inputs to corresponding
   outputs, with agreeing validity flags *)
Definition inn_corr m (gL : list (lmxF F) -> lmxF F -> option (list (lmxF F)))
           (gM : list 'cV[F]_m -> 'cV[F]_m -> option (list 'cV[F]_m)) : Prop :=
  forall lP P ly y, rcols m lP P -> repr m 1 ly y -> @repr_opt _ _ (rcols m) (gL lP ly) (gM P y).

(* every matrix the correction inverts: the predicted measurement covariances of the MathComp run *)
Definition Pyy_invertible m n (ut : option (ut_result OM m m n)) : Prop :=
  match ut with
  | None => True
  | Some r => List.Forall (fun u : ut_comp OM m m n => (uc_cov u : 'M[F]_m) \in unitmx) (ur_comps r)
  end.

Lemma ukf_correct_finish_repr n m mcs ly (y : 'cV[F]_m) gL gM
      (utl : option (ut_result OL m m n)) (utm : option (ut_result OM m m n))
      (predl corrl : mixture OL n n) (predm corrm : mixture OM n n)
      (stl : ukf_state OL m) (stm : ukf_state OM m) :
  repr m 1 ly y -> @inn_corr m gL gM -> @repr_opt _ _ (Rutres m m n) utl utm -> Pyy_invertible utm ->
  repr_mix predl predm -> repr_mix corrl corrm ->
  repr_corr (@ukf_correct_finish OL n m mcs ly gL utl predl corrl stl)
            (@ukf_correct_finish OM n m mcs y gM utm predm corrm stm).
Proof.
move=> ry Hg rut Hu rp rco; rewrite /ukf_correct_finish.
case: utl utm rut Hu => [rl|] [rm|] //= rr Hu; last first.
  by apply: repr_corr_idle => //; apply: repr_ukfst_nil; exact: List.Forall2_nil.
have [rcs _] := rr.
have rPyy : @repr_list F m m (List.map (fun u => uc_cov u) (ur_comps rl)) (List.map (fun u => uc_cov u) (ur_comps rm)).
  by apply: F2_map; apply: F2_impl rcs => ul um [].
have rmeans : rcols m (List.map (fun u => uc_mean u) (ur_comps rl)) (List.map (fun u => uc_mean u) (ur_comps rm)).
  by apply: F2_map; apply: F2_impl rcs => ul um [].
move: (Hg _ _ _ _ rmeans ry).
case: (gL _ _) => [lnus|]; case: (gM _ _) => [nus|] //= rnu; last first.
  by apply: repr_corr_idle => //; exact: repr_ukfst_nil.
have [Elp rpc Ewp] := rp; have [Elc rcc Ewc] := rco.
have routs := ukf_correct_loop_repr mcs rpc rr Hu rnu.
split=> //; split=> //=.
apply: overwrite_prefix_repr => //.
by apply: F2_map; apply: F2_impl routs => ol om [r1 r2 _ _].
Qed.

Section Correct.
Variables (n m : nat) (Ldesc Lmeas : layout) (a b k : F) (skip : bool).
Variables (measl : option (lmxF F)) (measm : option 'cV[F]_m).
Variables (gL : list (lmxF F) -> lmxF F -> option (list (lmxF F)))
          (gM : list 'cV[F]_m -> 'cV[F]_m -> option (list 'cV[F]_m)).
Variables (predl corrl : mixture OL n n) (predm corrm : mixture OM n n).
Variables (stl : ukf_state OL m) (stm : ukf_state OM m).
Hypothesis Heg : Egc (l_noiseless Lmeas).
Hypothesis rmeas : @repr_opt _ _ (fun l (y : 'cV[F]_m) => repr m 1 l y) measl measm.
Hypothesis Hg : @inn_corr m gL gM.
Hypothesis rp : repr_mix predl predm.
Hypothesis rco : repr_mix corrl corrm.
Hypothesis rst : repr_ukfst stl stm.

Theorem ukf_correct_additive_transport fL fM lR (R : 'M[F]_m) :
  @fopt_corr F n m fL fM -> repr m m lR R ->
  (skip = false -> measm <> None -> sq_corr_comps (mx_comps predl) (mx_comps predm)) ->
  (skip = false -> forall y, measm = Some y ->
     Pyy_invertible (@ut_additive_meas OM (mx_layout predm) (l_noiseless Lmeas) n n m m n
                       (@ut_weights_of OM (l_noiseless Ldesc) a b k) (mx_comps predm) fM R)) ->
  repr_corr (@ukf_correct_additive OL n m Ldesc Lmeas a b k skip measl fL gL lR predl corrl stl)
            (@ukf_correct_additive OM n m Ldesc Lmeas a b k skip measm fM gM R predm corrm stm).
Proof.
move=> Hf rR Hsq Hu; rewrite /ukf_correct_additive; case E: skip; first exact: repr_corr_idle.
case: measl measm rmeas Hsq Hu => [ly|] [y|] //= ry Hsq Hu; last first.
  by case: rst => _ rPyy; apply: repr_corr_idle => //; exact: repr_ukfst_nil.
have [El rc Ew] := rp; rewrite El.
apply: ukf_correct_finish_repr => //; last exact: (Hu E y erefl).
apply: ut_additive_meas_transport => //.
by apply: comps_sq => //; exact: Hsq.
Qed.

Theorem ukf_correct_generic_transport q fL fM lRv (Rv : 'M[F]_q) :
  @fopt_corr F (n + q) m fL fM -> repr q q lRv Rv ->
  (skip = false -> measm <> None ->
   sq_corr_comps (List.map (@augment_comp OL n n q lRv) (mx_comps predl))
                 (List.map (@augment_comp OM n n q Rv) (mx_comps predm))) ->
  (skip = false -> forall y, measm = Some y ->
     Pyy_invertible (@ut_meas OM (l_add_noise (mx_layout predm) q) (l_noiseless Lmeas) (n + q) (n + q) m m n
                       (@ut_weights_of OM Ldesc a b k) (List.map (@augment_comp OM n n q Rv) (mx_comps predm)) fM)) ->
  repr_corr (@ukf_correct_generic OL n q m Ldesc Lmeas a b k skip measl fL gL lRv predl corrl stl)
            (@ukf_correct_generic OM n q m Ldesc Lmeas a b k skip measm fM gM Rv predm corrm stm).
Proof.
move=> Hf rR Hsq Hu; rewrite /ukf_correct_generic; case E: skip; first exact: repr_corr_idle.
case: measl measm rmeas Hsq Hu => [ly|] [y|] //= ry Hsq Hu; last first.
  by case: rst => _ rPyy; apply: repr_corr_idle => //; exact: repr_ukfst_nil.
have [El rc Ew] := rp; rewrite El.
apply: ukf_correct_finish_repr => //; last exact: (Hu E y erefl).
apply: ut_meas_transport => //.
apply: comps_sq; last exact: Hsq.
by apply: F2_map; apply: F2_impl rc => cl cm rcc; exact: augment_comp_repr.
Qed.
End Correct.

(* ---- likelihood ---- *)
Theorem ukf_likelihood_transport m (stl : ukf_state OL m) (stm : ukf_state OM m) :
  repr_ukfst stl stm ->
  List.Forall (fun P : 'M[F]_m => P \in unitmx) (List.firstn (length (us_innov stm)) (us_Pyy stm)) ->
  @ukf_likelihood OL m stl = @ukf_likelihood OM m stm.
Proof.
move=> [rnu rP]; rewrite /ukf_likelihood.
case: rnu => [|ln nu lns nus rn rns] // Hu; congr Some.
move: rP Hu (List.Forall2_cons _ _ rn rns).
move: (ln :: lns) (nu :: nus) => {ln nu lns nus rn rns} lns nus rP Hu rns.
elim: rns (us_Pyy stl) (us_Pyy stm) rP Hu => [|ln nu lns' nus' rn _ IH] lPs Ps rP //= Hu.
case: rP Hu => [|lP P lPs' Ps' rP rPs] //= Hu.
have [uP Hu'] : P \in unitmx /\ List.Forall (fun P : 'M[F]_m => P \in unitmx) (List.firstn (length nus') Ps').
  by inversion Hu.
rewrite (IH _ _ rPs Hu'); congr cons.
exact: (density_transport tr sq eg rn (repr_mzero tr m 1) rP uP).
Qed.

Lemma lin_innovation_cols_corr m :
  @inn_corr m (@lin_innovation_cols OL m) (@lin_innovation_cols OM m).
Proof.
move=> lP P ly y rP ry; rewrite /lin_innovation_cols /=.
apply: F2_map; apply: F2_impl rP => l p rp; rewrite /lin_innovation.
by apply: Ropp; exact: Rsub.
Qed.

(* ---- linear measurement models (the scope of C04): the invertibility premise is derived ----
   y = H x + v with an SPD noise covariance R, plain (linear, noise-free) state layout, PSD
   covariances factored exactly by the MathComp-side square-root oracle: every predicted
   measurement covariance is H P_i H^T + R, invertible (C04_Proofs.ukf_Pyy_unit). *)
Section Linear.
Variables (n m : nat) (Ldesc Lmeas : layout) (a b k : F).
Variables (H : 'M[F]_(m,n)) (R : 'M[F]_m) (predm : mixture OM n n).
Hypothesis pred_plain : plain_layout (mx_layout predm) n.
Hypothesis Lmeas_lin : l_lin Lmeas = m.
Hypothesis Lmeas_circ : l_circ Lmeas = 0%N.
Hypothesis Ldesc_lin : l_lin Ldesc = n.
Hypothesis Ldesc_circ : l_circ Ldesc = 0%N.
Let w := @ut_weights OM n a b k.
Hypothesis c_ne0 : w_c w != 0.
Hypothesis sqrt_c : t_sqrt tr (w_c w) * t_sqrt tr (w_c w) = w_c w.
Hypothesis factor_ok : forall mc : 'cV[F]_n * 'M[F]_n, List.In mc (mx_comps predm) -> sq mc.2 *m (sq mc.2)^T = mc.2.
Hypothesis psdP : forall mc : 'cV[F]_n * 'M[F]_n, List.In mc (mx_comps predm) -> psd mc.2.
Hypothesis spdR : spd R.

Lemma Pyy_invertible_additive_linear :
  Pyy_invertible (@ut_additive_meas OM (mx_layout predm) (l_noiseless Lmeas) n n m m n
                    (@ut_weights_of OM (l_noiseless Ldesc) a b k) (mx_comps predm)
                    (fun X => Some (@linear_cols OM n m H X)) R).
Proof.
rewrite /ut_weights_of.
have -> : l_dcov (l_noiseless Ldesc) = n by rewrite /l_dcov /l_dx /= Ldesc_lin Ldesc_circ; lia.
rewrite /ut_additive_meas /ut_generic linear_cols_affine.
have Hn : l_lin (mx_layout predm) = n by case: pred_plain.
have Hm : l_lin (l_noiseless Lmeas) = m by [].
rewrite (ut_core_affine (plain_linear pred_plain) Hn Hm c_ne0 sqrt_c _ _ factor_ok) add_noise_affine /=.
apply/List.Forall_forall => u /List.in_map_iff [mc [<- Hin]] /=.
by apply: ukf_Pyy_unit => //; exact: psdP.
Qed.
End Linear.

End UKF.

(* ---- non-vacuity: all premises of the correction transport hold together on a concrete
   family of instances: identity functions as the two square-root oracles, identity prior
   covariance, identity measurement matrix and noise covariance, any dimension, any field with
   sqrt 1 = 1 (alpha = 1, kappa = 1 - n, so that c = n + lambda = 1) ---- *)
Section NonVacuity.
Variable F : realFieldType.
Variable tr : Transc F.
Local Notation id_sq := (@id_sq F).
Local Notation zero_eg := (@zero_eg F).
Local Notation id_sqL := (@id_sqL F).
Local Notation zero_egL := (@zero_egL F tr).
Let OL := ListMat (FOps tr) id_sqL zero_egL.
Let OM := MxMat tr id_sq zero_eg.
Definition plainL (n : nat) : layout := mkLayout n 0 false 0.
Definition unit_mixL n : mixture OL n n :=
  @mkMix OL n n (plainL n) (cons (@mzero OL n 1, @mid OL n) nil) (cons 1 nil).
Definition unit_mixM n : mixture OM n n :=
  @mkMix OM n n (plainL n) (cons (0 : 'cV[F]_n, 1%:M : 'M[F]_n) nil) (cons 1 nil).
Definition unit_kappa (n : nat) : F := 1 - sofnat (FOps tr) n.
Local Notation Uzero := (@r_zero F tr id_sq zero_eg id_sqL zero_egL).
Local Notation Uid := (@r_id F tr id_sq zero_eg id_sqL zero_egL).

Lemma unit_mix_repr n : repr_mix (unit_mixL n) (unit_mixM n).
Proof.
split=> //=; apply: List.Forall2_cons; last exact: List.Forall2_nil.
by split; [exact: Uzero | exact: Uid].
Qed.

Lemma unit_sq_corr n : sq_corr_comps id_sq id_sqL (mx_comps (unit_mixL n)) (mx_comps (unit_mixM n)).
Proof. by apply: List.Forall2_cons; [exact: Uid | exact: List.Forall2_nil]. Qed.

Lemma unit_c n : w_c (@ut_weights OM n 1 0 (unit_kappa n)) = 1.
Proof.
rewrite /ut_weights /ut_lambda /unit_kappa /=; set x := _%:~R.
by rewrite !mul1r (addrC x (1 - x)) subrK addrC subrK.
Qed.

Lemma ukf_correct_premises_satisfiable n : t_sqrt tr 1 = 1 ->
  [/\ eg_corr zero_eg zero_egL (l_noiseless (plainL n)),
      @inn_corr F n (@lin_innovation_cols OL n) (@lin_innovation_cols OM n),
      repr_mix (unit_mixL n) (unit_mixM n) /\
      sq_corr_comps id_sq id_sqL (mx_comps (unit_mixL n)) (mx_comps (unit_mixM n)),
      @fopt_corr F n n (fun X => Some (@linear_cols OL n n (@mid OL n) X))
                       (fun X => Some (@linear_cols OM n n (1%:M : 'M[F]_n) X)) &
      Pyy_invertible (@ut_additive_meas OM (mx_layout (unit_mixM n)) (l_noiseless (plainL n)) n n n n n
                        (@ut_weights_of OM (l_noiseless (plainL n)) 1 0 (unit_kappa n)) (mx_comps (unit_mixM n))
                        (fun X => Some (@linear_cols OM n n (1%:M : 'M[F]_n) X)) (1%:M : 'M[F]_n))].
Proof.
move=> sqrt1; split.
- by [].
- exact: lin_innovation_cols_corr.
- by split; [exact: unit_mix_repr | exact: unit_sq_corr].
- by move=> lX X rX; apply: (linear_cols_corr tr id_sq zero_eg id_sqL zero_egL) => //; exact: Uid.
- apply: Pyy_invertible_additive_linear => //.
  + by rewrite unit_c oner_neq0.
  + by rewrite unit_c sqrt1 mulr1.
  + by move=> mc [<-|[]] /=; rewrite /id_sq mul1mx trmx1.
  + by move=> mc [<-|[]] /=; apply: spd_psd; exact: spd1.
  + exact: spd1.
Qed.

(* ... and the transport theorem applies: the executed correction of this instance represents
   the MathComp one (measurement y = 0) *)
Lemma ukf_correct_unit_instance n : t_sqrt tr 1 = 1 ->
  repr_corr (@ukf_correct_additive OL n n (plainL n) (plainL n) 1 0 (unit_kappa n) false (Some (@mzero OL n 1))
               (fun X => Some (@linear_cols OL n n (@mid OL n) X)) (@lin_innovation_cols OL n) (@mid OL n)
               (unit_mixL n) (unit_mixL n) (@mkUkfState OL n nil nil))
            (@ukf_correct_additive OM n n (plainL n) (plainL n) 1 0 (unit_kappa n) false (Some (0 : 'cV[F]_n))
               (fun X => Some (@linear_cols OM n n (1%:M : 'M[F]_n) X)) (@lin_innovation_cols OM n) (1%:M : 'M[F]_n)
               (unit_mixM n) (unit_mixM n) (@mkUkfState OM n nil nil)).
Proof.
move=> sqrt1; have [Heg Hg [rp Hsq] Hf HP] := ukf_correct_premises_satisfiable n sqrt1.
apply: ukf_correct_additive_transport => //.
- exact: Uzero.
- by apply: repr_ukfst_nil; exact: List.Forall2_nil.
- exact: Uid.
Qed.
End NonVacuity.

Print Assumptions ukf_predict_additive_transport.
Print Assumptions ukf_predict_generic_transport.
Print Assumptions ukf_correct_additive_transport.
Print Assumptions ukf_correct_generic_transport.
Print Assumptions ukf_likelihood_transport.
