(* C04_Transport.v — transport for the Kalman prediction used as the spec side of C04's
   prediction half: kf_predict_comp at the LIST instance represents the MathComp one on
   well-formed inputs (any realFieldType).  Built on ListOpsCorrect.v / C02_Transport.v. *)
Require Import ZArith List Bool.
Require Import BFL.Ops BFL.ListOps BFL.C01_Model BFL.C03_Model BFL.C04_Model.
From mathcomp Require Import all_ssreflect all_algebra.
Require Import BFL.MxOps BFL.ListOpsCorrect BFL.C02_Transport.
Set Implicit Arguments.
Unset Strict Implicit.
Unset Printing Implicit Defensive.
Import GRing.Theory.
Local Open Scope ring_scope.

Section T.
Variable F : realFieldType.
Variable tr : Transc F.
Variable sq : forall n, 'M[F]_n -> 'M[F]_n.
Variable eg : forall n, 'M[F]_n -> 'M[F]_(n,1).
Let S := FOps tr.
Let OL := ListMat S (fun _ X => X) (fun _ X => X).
Let OM := MxMat tr sq eg.
Notation repr m n l A := (@C02_Transport.repr F m n l A) (only parsing).

(* the Kalman prediction of one component (C04's spec side) *)
Lemma kf_predict_comp_transport n lF (Fm : 'M[F]_n) lQ (Q : 'M[F]_n) lx (x : 'cV[F]_n) lP (P : 'M[F]_n) :
  repr n n lF Fm -> repr n n lQ Q -> repr n 1 lx x -> repr n n lP P ->
  repr n 1 (@kf_predict_comp OL n lF lQ (lx, lP)).1 (@kf_predict_comp OM n Fm Q (x, P)).1 /\
  repr n n (@kf_predict_comp OL n lF lQ (lx, lP)).2 (@kf_predict_comp OM n Fm Q (x, P)).2.
Proof.
move=> HF HQ Hx HP; rewrite /kf_predict_comp /=; split; first exact: (repr_mul tr).
by apply: (repr_add tr) => //; apply: (repr_mul tr); [exact: (repr_mul tr) | exact: (repr_tr tr)].
Qed.
End T.
