(* Properties_C02.v — property C02: the Kalman prediction is the exact
   linear-Gaussian time update.  Statements only; each is closed by a lemma of
   C02_Proofs.  All hold for every realFieldType F, every state dimension n,
   every number of components k, arbitrary square F, arbitrary Q, arbitrary
   exogenous function u (applied to the whole n x k matrix of means). *)
Require Import ZArith QArith List Bool.
Require Import BFL.Ops BFL.ListOps BFL.C02_Model BFL.C02_Entry.
From mathcomp Require Import all_ssreflect all_algebra.
Require Import BFL.MxOps BFL.LinAlg BFL.C02_Proofs BFL.ListOpsCorrect BFL.C02_Transport BFL.C02_TransportEntry.
Import GRing.Theory.
Local Open Scope ring_scope.

Section C02.
Variable F : realFieldType.
Variable tr : Transc F.
Variable sq : forall n, 'M[F]_n -> 'M[F]_n.
Variable eg : forall n, 'M[F]_n -> 'M[F]_(n,1).
Let O := MxMat tr sq eg.
Variables (n k : nat) (Ft Q : M O n n).

(* mean, all components at once: F X + u(X) *)
Theorem C02_means_exo (u : M O n k -> M O n k) (prev old : gmix O n k) :
  (gm_means (kf_predict Ft Q (Some u) prev old) : 'M[F]_(n,k)) =
  Ft *m gm_means prev + u (gm_means prev).
Proof. exact: kfp_means_exo. Qed.

(* mean of component i: F m_i + u_i, u_i the i-th column of the exogenous output *)
Theorem C02_mean (u : M O n k -> M O n k) (prev old : gmix O n k) (i : nat) :
  (gm_mean_i (kf_predict Ft Q (Some u) prev old) i : 'cV[F]_n) =
  Ft *m gm_mean_i prev i + mcol (O:=O) i (u (gm_means prev)).
Proof. exact: kfp_mean_i_exo. Qed.

(* without exogenous model: F m_i *)
Theorem C02_mean_noexo (prev old : gmix O n k) (i : nat) :
  (gm_mean_i (kf_predict Ft Q None prev old) i : 'cV[F]_n) = Ft *m gm_mean_i prev i.
Proof. exact: kfp_mean_i_noexo. Qed.

(* covariance of component i: F P_i F^T + Q, with or without exogenous model *)
Theorem C02_cov (exo : option (M O n k -> M O n k)) (prev old : gmix O n k) (i : nat) d :
  (i < length (gm_covs prev))%coq_nat ->
  (List.nth i (gm_covs (kf_predict Ft Q exo prev old)) d : 'M[F]_n) =
  Ft *m List.nth i (gm_covs prev) d *m Ft^T + Q.
Proof. exact: kfp_cov_i. Qed.

(* symmetric and PSD whenever P_i and Q are *)
Theorem C02_cov_psd (exo : option (M O n k -> M O n k)) (prev old : gmix O n k) (i : nat) d :
  (i < length (gm_covs prev))%coq_nat ->
  psd (List.nth i (gm_covs prev) d : 'M[F]_n) -> psd (Q : 'M[F]_n) ->
  psd (List.nth i (gm_covs (kf_predict Ft Q exo prev old)) d : 'M[F]_n).
Proof. exact: kfp_cov_i_psd. Qed.

Theorem C02_cov_sym (exo : option (M O n k -> M O n k)) (prev old : gmix O n k) (i : nat) d :
  (i < length (gm_covs prev))%coq_nat ->
  sym (List.nth i (gm_covs prev) d : 'M[F]_n) -> sym (Q : 'M[F]_n) ->
  sym (List.nth i (gm_covs (kf_predict Ft Q exo prev old)) d : 'M[F]_n).
Proof. exact: kfp_cov_i_sym. Qed.

(* component-wise: on an output object of the same shape, the covariances are
   exactly the per-component images, same order, same count *)
Theorem C02_componentwise (exo : option (M O n k -> M O n k)) (prev old : gmix O n k) :
  length (gm_covs old) = length (gm_covs prev) ->
  gm_covs (kf_predict Ft Q exo prev old) = List.map (kf_predict_cov Ft Q) (gm_covs prev).
Proof. exact: kfp_covs_same_shape. Qed.

(* components do not influence one another *)
Theorem C02_cov_independent (exo : option (M O n k -> M O n k)) (prev prev' old old' : gmix O n k) (i : nat) d :
  (i < length (gm_covs prev))%coq_nat -> (i < length (gm_covs prev'))%coq_nat ->
  List.nth i (gm_covs prev) d = List.nth i (gm_covs prev') d ->
  List.nth i (gm_covs (kf_predict Ft Q exo prev old)) d =
  List.nth i (gm_covs (kf_predict Ft Q exo prev' old')) d.
Proof. exact: kfp_cov_independent. Qed.

Theorem C02_mean_independent (prev prev' old old' : gmix O n k) (i : nat) :
  gm_mean_i prev i = gm_mean_i prev' i ->
  gm_mean_i (kf_predict Ft Q None prev old) i = gm_mean_i (kf_predict Ft Q None prev' old') i.
Proof. exact: kfp_mean_independent. Qed.

(* no exogenous model = an exogenous model contributing zero (any skip flags) *)
Theorem C02_no_exo_equals_zero_exo sp ss se (prev old : gmix O n k) :
  gaussian_predict Ft Q None sp ss se prev old =
  gaussian_predict Ft Q (Some (fun _ : M O n k => (0 : 'M[F]_(n,k)))) sp ss false prev old.
Proof. exact: kfp_noexo_is_zero_exo. Qed.

(* frame: the weights of the output object, and covariance slots beyond the
   input's component count, keep their previous content *)
Theorem C02_frame_weights (exo : option (M O n k -> M O n k)) (prev old : gmix O n k) :
  gm_weights (kf_predict Ft Q exo prev old) = gm_weights old.
Proof. exact: kfp_weights_kept. Qed.

Theorem C02_frame_covs_beyond (exo : option (M O n k -> M O n k)) (prev old : gmix O n k) (i : nat) d :
  (length (gm_covs prev) <= i)%coq_nat ->
  List.nth i (gm_covs (kf_predict Ft Q exo prev old)) d = List.nth i (gm_covs old) d.
Proof. exact: kfp_covs_beyond_kept. Qed.

(* the branches of LinearStateModel::propagate (the last one writes nothing) *)
Theorem C02_propagate_branches (exo : option (M O n k -> M O n k)) ss se (cur old : M O n k) :
  (lin_propagate Ft exo ss se cur old : 'M[F]_(n,k)) =
  match exo, ss, se with
  | Some u, false, false => Ft *m cur + u cur
  | Some u, false, true => Ft *m cur
  | Some u, true, false => u cur
  | Some u, true, true => cur
  | None, false, _ => Ft *m cur
  | None, true, _ => old
  end.
Proof. exact: lin_propagate_cases. Qed.

(* skipped prediction (or skipped state model): the whole input object is returned *)
Theorem C02_skipped_identity (exo : option (M O n k -> M O n k)) sp ss se (prev old : gmix O n k) :
  sp || ss -> gaussian_predict Ft Q exo sp ss se prev old = prev.
Proof. exact: kfp_skipped. Qed.

(* ---- the layout of the returned object ----
   The prediction does not size its output (no resize in predict / predictStep):
   a step that is not skipped leaves the descriptors of the output object as they
   were ... *)
Theorem C02_layout_kept (exo : option (M O n k -> M O n k)) (prev old : gmix O n k) :
  gm_layout (kf_predict Ft Q exo prev old) = gm_layout old.
Proof. exact: kfp_layout_kept. Qed.

(* ... so on an output object with the component count, dim and dim_covariance of the
   input - whatever its linear/circular split, quaternion flag or noise size - the
   predicted mixture reports the component count and sizes of the input belief *)
Theorem C02_layout_of_input (exo : option (M O n k -> M O n k)) (prev old : gmix O n k) :
  gl_same_shape (gm_layout old) (gm_layout prev) ->
  [/\ gl_components (gm_layout (kf_predict Ft Q exo prev old)) = gl_components (gm_layout prev),
      gl_dim (gm_layout (kf_predict Ft Q exo prev old)) = gl_dim (gm_layout prev) &
      gl_dim_cov (gm_layout (kf_predict Ft Q exo prev old)) = gl_dim_cov (gm_layout prev)].
Proof. exact: kfp_layout_of_input. Qed.

(* with the flags: a skipped step reports the descriptors of the input, whatever the
   output object was; any other step those of the output object *)
Theorem C02_layout_flags (exo : option (M O n k -> M O n k)) sp ss se (prev old : gmix O n k) :
  gm_layout (gaussian_predict Ft Q exo sp ss se prev old) =
  if sp || ss then gm_layout prev else gm_layout old.
Proof. exact: kfp_layout_flags. Qed.

(* descriptors and storage of the returned object agree (one covariance and one weight
   per reported component, reported sizes = actual sizes), for every flag combination *)
Theorem C02_layout_consistent (exo : option (M O n k -> M O n k)) sp ss se (prev old : gmix O n k) :
  gm_shaped prev -> gm_shaped old -> gm_shaped (gaussian_predict Ft Q exo sp ss se prev old).
Proof. exact: kfp_shaped. Qed.

(* the whole returned object at once (means, every covariance, weights, descriptors) *)
Theorem C02_whole_object (exo : option (M O n k -> M O n k)) (prev old : gmix O n k) :
  length (gm_covs old) = length (gm_covs prev) ->
  kf_predict Ft Q exo prev old =
  mkGmix (O:=O)
    (match exo with
     | Some u => (Ft *m gm_means prev + u (gm_means prev) : 'M[F]_(n,k))
     | None => Ft *m gm_means prev
     end)
    (List.map (kf_predict_cov Ft Q) (gm_covs prev)) (gm_weights old) (gm_layout old).
Proof. exact: kfp_whole. Qed.

(* the spec function evaluated by the violation search (kf_spec, extracted as c02_spec)
   is component i of the model, for the affine exogenous model of the harness or none *)
Theorem C02_spec_is_model (e : option (M O n n * M O n 1)) (prev old : gmix O n k) (i : nat) dm dc :
  (i < k)%N -> (i < length (gm_covs prev))%coq_nat ->
  (gm_mean_i (kf_predict Ft Q (affine_exo_opt e) prev old) i,
   List.nth i (gm_covs (kf_predict Ft Q (affine_exo_opt e) prev old)) dc) =
  List.nth i (kf_spec Ft Q e (gm_means prev) (gm_covs prev)) (dm, dc).
Proof. exact: kfp_model_is_spec. Qed.

End C02.

(* ---- one prediction object, several calls: time-varying model, flags and model
   replaced between the calls (kf_predict_seq, extracted as c02_seq) ---- *)
Section C02_sequences.
Variable F : realFieldType.
Variable tr : Transc F.
Variable sq : forall n, 'M[F]_n -> 'M[F]_n.
Variable eg : forall n, 'M[F]_n -> 'M[F]_(n,1).
Let O := MxMat tr sq eg.

(* the answer to call s is the step on the inputs of call s ... *)
Theorem C02_seq_stepwise (calls : list (kf_call O)) (s : nat) (d : kf_call O) :
  List.nth s (kf_predict_seq calls) (kf_call_run d) = kf_call_run (List.nth s calls d).
Proof. exact: kf_seq_nth. Qed.

(* ... whatever was asked before and is asked after it *)
Theorem C02_seq_no_hidden_memory (calls1 : list (kf_call O)) (c : kf_call O) (calls2 : list (kf_call O)) :
  kf_predict_seq (calls1 ++ c :: calls2) = kf_predict_seq calls1 ++ kf_call_run c :: kf_predict_seq calls2.
Proof. exact: kf_seq_app. Qed.

(* ... with the matrices the model holds at that call *)
Theorem C02_call_time_varying_cov (c : kf_call O) (i : nat) d :
  ~~ kc_sp c -> ~~ kc_ss c -> (i < length (gm_covs (kc_prev c)))%coq_nat ->
  (List.nth i (gm_covs (kr_mix (kf_call_run c))) d : 'M[F]_(kc_n c)) =
  kc_F c *m List.nth i (gm_covs (kc_prev c)) d *m (kc_F c)^T + kc_Q c.
Proof. exact: kf_call_cov. Qed.

Theorem C02_call_time_varying_means (c : kf_call O) :
  ~~ kc_sp c -> ~~ kc_ss c ->
  (gm_means (kr_mix (kf_call_run c)) : 'M[F]_(kc_n c, kc_k c)) =
  match kc_exo c, kc_se c with
  | Some u, false => kc_F c *m gm_means (kc_prev c) + u (gm_means (kc_prev c))
  | _, _ => kc_F c *m gm_means (kc_prev c)
  end.
Proof. exact: kf_call_means. Qed.

Theorem C02_call_skipped (c : kf_call O) :
  kc_sp c || kc_ss c -> kr_mix (kf_call_run c) = kc_prev c.
Proof. exact: kf_call_skipped. Qed.

End C02_sequences.

(* The tie between the two instances of the one model, proved for EVERY extracted
   entry point (C02_Entry.v; C02_Extract.v extracts exactly these): run on lists with
   the scalars of any realFieldType, each returns a representation (well-formed
   lists, same entries, same weights, same descriptors) of what the MathComp
   instance - the one the theorems above are about - returns, for every dimension,
   component count, skip-flag combination, with or without the harness' affine
   exogenous model u(X) = B X + c 1^T.  What remains between the executed model and
   the theorems is rounding. *)
Section C02_executed.
Variable F : realFieldType.
Variable tr : Transc F.
Variable sq : forall n, 'M[F]_n -> 'M[F]_n.
Variable eg : forall n, 'M[F]_n -> 'M[F]_(n,1).
Let S := FOps tr.
Let OM := MxMat tr sq eg.

(* c02_run = GaussianPrediction::predict: means, covariances, weights, descriptors *)
Theorem C02_executed_model_is_theorem_model n k (lF lQ : lmxF F) (Fm Q : 'M[F]_n)
        (le : option (lmxF F * lmxF F)) (me : option ('M[F]_n * 'cV[F]_n)) (sp ss se : bool)
        (rprev rold : rawmix S) (prevm oldm : gmix OM n k) :
  @repr F n n lF Fm -> @repr F n n lQ Q -> repr_aff le me ->
  repr_raw rprev prevm -> repr_raw rold oldm ->
  repr_raw (c02_run S n k lF lQ le sp ss se rprev rold)
           (gaussian_predict (O:=OM) Fm Q (affine_exo_opt (O:=OM) me) sp ss se prevm oldm).
Proof. exact: c02_run_transport. Qed.

(* a skipped call does not look at the output object it is given: it need not represent
   anything (default-constructed, other component count / dimension / layout) ... *)
Theorem C02_executed_skipped_ignores_output_object n k (lF lQ : lmxF F) (Fm Q : 'M[F]_n)
        le (me : option (M OM n k -> M OM n k)) (sp ss se : bool)
        (rprev rold : rawmix S) (prevm oldm : gmix OM n k) :
  sp || ss -> repr_raw rprev prevm ->
  repr_raw (c02_run S n k lF lQ le sp ss se rprev rold)
           (gaussian_predict (O:=OM) Fm Q me sp ss se prevm oldm).
Proof. exact: c02_run_skipped_transport. Qed.

(* ... and returns the belief it was given, for any scalars (floats included) *)
Theorem C02_executed_skipped_is_identity (S' : SOps) n k (lF lQ : lmx S') e sp ss se (prev old : rawmix S') :
  sp || ss -> c02_run S' n k lF lQ e sp ss se prev old = prev.
Proof. exact: c02_run_skipped. Qed.

(* c02_propagate = LinearStateModel::propagate, all branches *)
Theorem C02_executed_propagate_is_theorem_propagate n k (lF : lmxF F) (Fm : 'M[F]_n)
        (le : option (lmxF F * lmxF F)) (me : option ('M[F]_n * 'cV[F]_n)) (ss se : bool)
        (lcur lold : lmxF F) (cur old : 'M[F]_(n,k)) :
  @repr F n n lF Fm -> repr_aff le me -> @repr F n k lcur cur -> @repr F n k lold old ->
  @repr F n k (c02_propagate S n k lF le ss se lcur lold)
              (lin_propagate (O:=OM) Fm (affine_exo_opt (O:=OM) me) ss se cur old).
Proof. exact: c02_propagate_transport. Qed.

(* c02_spec = the component-by-component spec of the violation search *)
Theorem C02_executed_spec_is_theorem_spec n k (lF lQ : lmxF F) (Fm Q : 'M[F]_n)
        (le : option (lmxF F * lmxF F)) (me : option ('M[F]_n * 'cV[F]_n))
        (lmeans : lmxF F) (means : 'M[F]_(n,k)) (lcovs : list (lmxF F)) (covs : list 'M[F]_n) :
  @repr F n n lF Fm -> @repr F n n lQ Q -> repr_aff le me -> @repr F n k lmeans means -> repr_covs lcovs covs ->
  List.Forall2 (@repr_comp F n) (c02_spec S n k lF lQ le lmeans lcovs) (kf_spec (O:=OM) Fm Q me means covs).
Proof. exact: c02_spec_transport. Qed.

(* c02_seq = one object driven through several calls (per-call matrices, exogenous
   parameters, flags, dimensions, component counts) *)
Theorem C02_executed_sequence_is_theorem_sequence (rcs : list (c02_call S)) (cms : list (kf_call OM)) :
  List.Forall2 (repr_call (sq:=sq) (eg:=eg)) rcs cms ->
  List.Forall2 (repr_ret (sq:=sq) (eg:=eg)) (c02_seq S rcs) (kf_predict_seq cms).
Proof. exact: c02_seq_transport. Qed.

(* the core step for an arbitrary exogenous function respecting the representation
   (the statement the other properties' transports build on) *)
Theorem C02_executed_step_is_theorem_step n k (lF lQ : lmxF F) (Fm Q : 'M[F]_n)
        (ul : option (lmxF F -> lmxF F)) (um : option ('M[F]_(n,k) -> 'M[F]_(n,k)))
        (prevl oldl : gmix (ListMat S (fun _ X => X) (fun _ X => X)) n k)
        (prevm oldm : gmix OM n k) (sp ss se : bool) :
  @repr F n n lF Fm -> @repr F n n lQ Q -> repr_exo ul um ->
  repr_gmix prevl prevm -> repr_gmix oldl oldm ->
  repr_gmix (gaussian_predict (O:=ListMat S (fun _ X => X) (fun _ X => X)) (n:=n) (k:=k) lF lQ ul sp ss se prevl oldl)
            (gaussian_predict (O:=OM) Fm Q um sp ss se prevm oldm).
Proof. exact: kf_predict_transport. Qed.

End C02_executed.

(* non-vacuity: PSD premises are satisfiable in every dimension, including by
   singular matrices *)
Example C02_premises_satisfiable (F : realFieldType) n :
  psd (0 : 'M[F]_n) /\ psd (1%:M : 'M[F]_n).
Proof. by split; [exact: psd0 | apply: spd_psd; exact: spd1]. Qed.

(* the executable instance of the same model over exact rationals: 2 states,
   2 components, singular Q, exogenous model u(X) = B X + c 1^T; the output
   object held unrelated content and another linear/circular split
   (input: 1 linear + 1 circular, output object: 2 linear).  Means are F m_i + B m_i + c, covariances
   F P_i F^T + Q, weights and descriptors those of the output object. *)
Definition QM := ListMat QOps (fun _ A => A) (fun _ A => A).
Example C02_concrete_Q :
  let Fm := [:: [:: 1#1; 1#2]; [:: 0#1; 1#1]]%Q in
  let Qm := [:: [:: 1#4; 1#2]; [:: 1#2; 1#1]]%Q in
  let B := [:: [:: 0#1; 1#1]; [:: 2#1; 0#1]]%Q in
  let c := [:: [:: 1#3]; [:: -1#1]]%Q in
  let prev := @mkGmix QM 2 2 [:: [:: 1#1; -2#1]; [:: 3#1; 1#2]]%Q
                [:: [:: [:: 2#1; 1#1]; [:: 1#1; 3#1]]; [:: [:: 1#1; 0#1]; [:: 0#1; 0#1]]]%Q
                [:: 1#4; 3#4]%Q (mkGlayout 2 1 1 false 0) in
  let old := @mkGmix QM 2 2 [:: [:: 7#1; 7#1]; [:: 7#1; 7#1]]%Q
                [:: [:: [:: 9#1; 9#1]; [:: 9#1; 9#1]]; [:: [:: 9#1; 9#1]; [:: 9#1; 9#1]]]%Q
                [:: 1#8; 7#8]%Q (mkGlayout 2 2 0 false 0) in
  let r := @kf_predict QM 2 2 Fm Qm (Some (@affine_exo QM 2 2 B c)) prev old in
  qmx_eqb (gm_means r) [:: [:: 35#6; -11#12]; [:: 4#1; -9#2]]%Q
  && qmx_eqb (List.nth 0 (gm_covs r) [::]) [:: [:: 4#1; 3#1]; [:: 3#1; 4#1]]%Q
  && qmx_eqb (List.nth 1 (gm_covs r) [::]) [:: [:: 5#4; 1#2]; [:: 1#2; 1#1]]%Q
  && qrow_eqb (gm_weights r) [:: 1#8; 7#8]%Q
  && gl_same_shape (gm_layout old) (gm_layout prev)
  && (Nat.eqb (gl_components (gm_layout r)) 2 && Nat.eqb (gl_dim (gm_layout r)) 2 && Nat.eqb (gl_dim_linear (gm_layout r)) 2)
  && qmx_eqb (gm_means (@kf_predict QM 2 2 Fm Qm None prev old)) [:: [:: 5#2; -7#4]; [:: 3#1; 1#2]]%Q
  = true.
Proof. vm_compute. reflexivity. Qed.

(* the extracted entry points themselves over exact rationals: (1) a skipped call handed a
   default-constructed output object (1 component, dimension 1) returns the 2-component
   belief, descriptors included; (2) one object, two calls: first F1 (2 states), then - the
   model replaced - F2 (1 state, with exogenous input): each answer uses its own call's matrices *)
Example C02_entry_points_Q :
  let Fm := [:: [:: 1#1; 1#2]; [:: 0#1; 1#1]]%Q in
  let Qm := [:: [:: 1#4; 1#2]; [:: 1#2; 1#1]]%Q in
  let prev : rawmix QOps := ([:: [:: 1#1; -2#1]; [:: 3#1; 1#2]]%Q,
                [:: [:: [:: 2#1; 1#1]; [:: 1#1; 3#1]]; [:: [:: 1#1; 0#1]; [:: 0#1; 0#1]]]%Q,
                [:: 1#4; 3#4]%Q, mkGlayout 2 1 1 false 0) in
  let dflt : rawmix QOps := ([:: [:: 0#1]]%Q, [:: [:: [:: 0#1]]]%Q, [:: 1#1]%Q, mkGlayout 1 1 0 false 0) in
  let old : rawmix QOps := ([:: [:: 7#1; 7#1]; [:: 7#1; 7#1]]%Q,
                [:: [:: [:: 9#1; 9#1]; [:: 9#1; 9#1]]; [:: [:: 9#1; 9#1]; [:: 9#1; 9#1]]]%Q,
                [:: 1#8; 7#8]%Q, mkGlayout 2 2 0 false 0) in
  let skipped := c02_run QOps 2 2 Fm Qm None false true false prev dflt in
  let prev1 : rawmix QOps := ([:: [:: 3#1]]%Q, [:: [:: [:: 2#1]]]%Q, [:: 1#1]%Q, mkGlayout 1 0 1 false 0) in
  let old1 : rawmix QOps := ([:: [:: 5#1]]%Q, [:: [:: [:: 5#1]]]%Q, [:: 1#1]%Q, mkGlayout 1 1 0 false 0) in
  let calls := [:: @mkRawCall QOps 2 2 Fm Qm None false false false prev old;
                   @mkRawCall QOps 1 1 [:: [:: 1#2]]%Q [:: [:: 1#3]]%Q (Some ([:: [:: 1#1]]%Q, [:: [:: -1#1]]%Q)) false false false prev1 old1] in
  let rs := c02_seq QOps calls in
  let r0 := List.nth 0 rs dflt in let r1 := List.nth 1 rs dflt in
  qmx_eqb skipped.1.1.1 prev.1.1.1 && Nat.eqb (gl_components skipped.2) 2 && Nat.eqb (gl_dim_circular skipped.2) 1
  && Nat.eqb (length skipped.1.1.2) 2
  && qmx_eqb r0.1.1.1 [:: [:: 5#2; -7#4]; [:: 3#1; 1#2]]%Q
  && qmx_eqb (List.nth 0 r0.1.1.2 [::]) [:: [:: 4#1; 3#1]; [:: 3#1; 4#1]]%Q
  && qmx_eqb r1.1.1.1 [:: [:: 7#2]]%Q                      (* 1/2*3 + (1*3 - 1) *)
  && qmx_eqb (List.nth 0 r1.1.1.2 [::]) [:: [:: 5#6]]%Q      (* 1/2*2*1/2 + 1/3 *)
  && Nat.eqb (gl_dim_linear r1.2) 1
  = true.
Proof. vm_compute. reflexivity. Qed.

Print Assumptions C02_means_exo.
Print Assumptions C02_mean.
Print Assumptions C02_mean_noexo.
Print Assumptions C02_cov.
Print Assumptions C02_cov_psd.
Print Assumptions C02_cov_sym.
Print Assumptions C02_componentwise.
Print Assumptions C02_cov_independent.
Print Assumptions C02_mean_independent.
Print Assumptions C02_no_exo_equals_zero_exo.
Print Assumptions C02_frame_weights.
Print Assumptions C02_frame_covs_beyond.
Print Assumptions C02_propagate_branches.
Print Assumptions C02_skipped_identity.
Print Assumptions C02_layout_kept.
Print Assumptions C02_layout_of_input.
Print Assumptions C02_layout_flags.
Print Assumptions C02_layout_consistent.
Print Assumptions C02_whole_object.
Print Assumptions C02_spec_is_model.
Print Assumptions C02_seq_stepwise.
Print Assumptions C02_seq_no_hidden_memory.
Print Assumptions C02_call_time_varying_cov.
Print Assumptions C02_call_time_varying_means.
Print Assumptions C02_call_skipped.
Print Assumptions C02_executed_model_is_theorem_model.
Print Assumptions C02_executed_skipped_ignores_output_object.
Print Assumptions C02_executed_skipped_is_identity.
Print Assumptions C02_executed_propagate_is_theorem_propagate.
Print Assumptions C02_executed_spec_is_theorem_spec.
Print Assumptions C02_executed_sequence_is_theorem_sequence.
Print Assumptions C02_executed_step_is_theorem_step.
