(* Properties_C02.v — property C02: the Kalman prediction is the exact
   linear-Gaussian time update.  Statements only; each is closed by a lemma of
   C02_Proofs.  All hold for every realFieldType F, every state dimension n,
   every number of components k, arbitrary square F, arbitrary Q, arbitrary
   exogenous function u (applied to the whole n x k matrix of means). *)
Require Import ZArith QArith List Bool.
Require Import BFL.Ops BFL.ListOps BFL.C02_Model.
From mathcomp Require Import all_ssreflect all_algebra.
Require Import BFL.MxOps BFL.LinAlg BFL.C02_Proofs BFL.ListOpsCorrect BFL.C02_Transport.
Import GRing.Theory.
Local Open Scope ring_scope.

Section C02.
Variable F : realFieldType.
Variable tr : Transc F.
Variable sq : forall n, 'M[F]_n -> 'M[F]_n.
Variable eg : forall n, 'M[F]_n -> 'M[F]_(n,1).
Let O := MxMat tr sq eg.
Variables (n k : nat) (Ft Q : M O n n).

(* mean, all components at once: F X + u(X) *)
Theorem C02_means_exo (u : M O n k -> M O n k) (prev old : gmix O n k) :
  (gm_means (kf_predict Ft Q (Some u) prev old) : 'M[F]_(n,k)) =
  Ft *m gm_means prev + u (gm_means prev).
Proof. exact: kfp_means_exo. Qed.

(* mean of component i: F m_i + u_i, u_i the i-th column of the exogenous output *)
Theorem C02_mean (u : M O n k -> M O n k) (prev old : gmix O n k) (i : nat) :
  (gm_mean_i (kf_predict Ft Q (Some u) prev old) i : 'cV[F]_n) =
  Ft *m gm_mean_i prev i + mcol (O:=O) i (u (gm_means prev)).
Proof. exact: kfp_mean_i_exo. Qed.

(* without exogenous model: F m_i *)
Theorem C02_mean_noexo (prev old : gmix O n k) (i : nat) :
  (gm_mean_i (kf_predict Ft Q None prev old) i : 'cV[F]_n) = Ft *m gm_mean_i prev i.
Proof. exact: kfp_mean_i_noexo. Qed.

(* covariance of component i: F P_i F^T + Q, with or without exogenous model *)
Theorem C02_cov (exo : option (M O n k -> M O n k)) (prev old : gmix O n k) (i : nat) d :
  (i < length (gm_covs prev))%coq_nat ->
  (List.nth i (gm_covs (kf_predict Ft Q exo prev old)) d : 'M[F]_n) =
  Ft *m List.nth i (gm_covs prev) d *m Ft^T + Q.
Proof. exact: kfp_cov_i. Qed.

(* symmetric and PSD whenever P_i and Q are *)
Theorem C02_cov_psd (exo : option (M O n k -> M O n k)) (prev old : gmix O n k) (i : nat) d :
  (i < length (gm_covs prev))%coq_nat ->
  psd (List.nth i (gm_covs prev) d : 'M[F]_n) -> psd (Q : 'M[F]_n) ->
  psd (List.nth i (gm_covs (kf_predict Ft Q exo prev old)) d : 'M[F]_n).
Proof. exact: kfp_cov_i_psd. Qed.

Theorem C02_cov_sym (exo : option (M O n k -> M O n k)) (prev old : gmix O n k) (i : nat) d :
  (i < length (gm_covs prev))%coq_nat ->
  sym (List.nth i (gm_covs prev) d : 'M[F]_n) -> sym (Q : 'M[F]_n) ->
  sym (List.nth i (gm_covs (kf_predict Ft Q exo prev old)) d : 'M[F]_n).
Proof. exact: kfp_cov_i_sym. Qed.

(* component-wise: on an output object of the same shape, the covariances are
   exactly the per-component images, same order, same count *)
Theorem C02_componentwise (exo : option (M O n k -> M O n k)) (prev old : gmix O n k) :
  length (gm_covs old) = length (gm_covs prev) ->
  gm_covs (kf_predict Ft Q exo prev old) = List.map (kf_predict_cov Ft Q) (gm_covs prev).
Proof. exact: kfp_covs_same_shape. Qed.

(* components do not influence one another *)
Theorem C02_cov_independent (exo : option (M O n k -> M O n k)) (prev prev' old old' : gmix O n k) (i : nat) d :
  (i < length (gm_covs prev))%coq_nat -> (i < length (gm_covs prev'))%coq_nat ->
  List.nth i (gm_covs prev) d = List.nth i (gm_covs prev') d ->
  List.nth i (gm_covs (kf_predict Ft Q exo prev old)) d =
  List.nth i (gm_covs (kf_predict Ft Q exo prev' old')) d.
Proof. exact: kfp_cov_independent. Qed.

Theorem C02_mean_independent (prev prev' old old' : gmix O n k) (i : nat) :
  gm_mean_i prev i = gm_mean_i prev' i ->
  gm_mean_i (kf_predict Ft Q None prev old) i = gm_mean_i (kf_predict Ft Q None prev' old') i.
Proof. exact: kfp_mean_independent. Qed.

(* no exogenous model = an exogenous model contributing zero (any skip flags) *)
Theorem C02_no_exo_equals_zero_exo sp ss se (prev old : gmix O n k) :
  gaussian_predict Ft Q None sp ss se prev old =
  gaussian_predict Ft Q (Some (fun _ : M O n k => (0 : 'M[F]_(n,k)))) sp ss false prev old.
Proof. exact: kfp_noexo_is_zero_exo. Qed.

(* frame: the weights of the output object, and covariance slots beyond the
   input's component count, keep their previous content *)
Theorem C02_frame_weights (exo : option (M O n k -> M O n k)) (prev old : gmix O n k) :
  gm_weights (kf_predict Ft Q exo prev old) = gm_weights old.
Proof. exact: kfp_weights_kept. Qed.

Theorem C02_frame_covs_beyond (exo : option (M O n k -> M O n k)) (prev old : gmix O n k) (i : nat) d :
  (length (gm_covs prev) <= i)%coq_nat ->
  List.nth i (gm_covs (kf_predict Ft Q exo prev old)) d = List.nth i (gm_covs old) d.
Proof. exact: kfp_covs_beyond_kept. Qed.

(* the branches of LinearStateModel::propagate (the last one writes nothing) *)
Theorem C02_propagate_branches (exo : option (M O n k -> M O n k)) ss se (cur old : M O n k) :
  (lin_propagate Ft exo ss se cur old : 'M[F]_(n,k)) =
  match exo, ss, se with
  | Some u, false, false => Ft *m cur + u cur
  | Some u, false, true => Ft *m cur
  | Some u, true, false => u cur
  | Some u, true, true => cur
  | None, false, _ => Ft *m cur
  | None, true, _ => old
  end.
Proof. exact: lin_propagate_cases. Qed.

(* skipped prediction (or skipped state model): the whole input object is returned *)
Theorem C02_skipped_identity (exo : option (M O n k -> M O n k)) sp ss se (prev old : gmix O n k) :
  sp || ss -> gaussian_predict Ft Q exo sp ss se prev old = prev.
Proof. exact: kfp_skipped. Qed.

End C02.

(* The tie between the two instances of the one model, proved: the prediction
   step executed at the LIST instance (the one that is extracted and run
   against the library), with the scalars of any realFieldType, returns a
   mixture that represents (well-formed lists, same entries, same weights) the
   mixture the MathComp instance returns - for every dimension, component
   count, skip-flag combination and exogenous model that respects the
   representation.  Together with the theorems above this makes the executed
   model exact up to rounding. *)
Theorem C02_executed_model_is_theorem_model (F : realFieldType) (tr : Transc F)
        (sq : forall n, 'M[F]_n -> 'M[F]_n) (eg : forall n, 'M[F]_n -> 'M[F]_(n,1))
        n k (lF lQ : lmxF F) (Fm Q : 'M[F]_n)
        (ul : option (lmxF F -> lmxF F)) (um : option ('M[F]_(n,k) -> 'M[F]_(n,k)))
        (prevl oldl : gmix (ListMat (FOps tr) (fun _ X => X) (fun _ X => X)) n k)
        (prevm oldm : gmix (MxMat tr sq eg) n k) (sp ss se : bool) :
  @repr F n n lF Fm -> @repr F n n lQ Q -> repr_exo ul um ->
  repr_gmix prevl prevm -> repr_gmix oldl oldm ->
  repr_gmix (gaussian_predict (O:=ListMat (FOps tr) (fun _ X => X) (fun _ X => X)) (n:=n) (k:=k) lF lQ ul sp ss se prevl oldl)
            (gaussian_predict (O:=MxMat tr sq eg) Fm Q um sp ss se prevm oldm).
Proof. exact: kf_predict_transport. Qed.

(* non-vacuity: PSD premises are satisfiable in every dimension, including by
   singular matrices *)
Example C02_premises_satisfiable (F : realFieldType) n :
  psd (0 : 'M[F]_n) /\ psd (1%:M : 'M[F]_n).
Proof. by split; [exact: psd0 | apply: spd_psd; exact: spd1]. Qed.

(* the executable instance of the same model over exact rationals: 2 states,
   2 components, singular Q, exogenous model u(X) = B X + c 1^T; the output
   object held unrelated content.  Means are F m_i + B m_i + c, covariances
   F P_i F^T + Q, weights those of the output object. *)
Definition QM := ListMat QOps (fun _ A => A) (fun _ A => A).
Example C02_concrete_Q :
  let Fm := [:: [:: 1#1; 1#2]; [:: 0#1; 1#1]]%Q in
  let Qm := [:: [:: 1#4; 1#2]; [:: 1#2; 1#1]]%Q in
  let B := [:: [:: 0#1; 1#1]; [:: 2#1; 0#1]]%Q in
  let c := [:: [:: 1#3]; [:: -1#1]]%Q in
  let prev := @mkGmix QM 2 2 [:: [:: 1#1; -2#1]; [:: 3#1; 1#2]]%Q
                [:: [:: [:: 2#1; 1#1]; [:: 1#1; 3#1]]; [:: [:: 1#1; 0#1]; [:: 0#1; 0#1]]]%Q
                [:: 1#4; 3#4]%Q in
  let old := @mkGmix QM 2 2 [:: [:: 7#1; 7#1]; [:: 7#1; 7#1]]%Q
                [:: [:: [:: 9#1; 9#1]; [:: 9#1; 9#1]]; [:: [:: 9#1; 9#1]; [:: 9#1; 9#1]]]%Q
                [:: 1#8; 7#8]%Q in
  let r := @kf_predict QM 2 2 Fm Qm (Some (@affine_exo QM 2 2 B c)) prev old in
  qmx_eqb (gm_means r) [:: [:: 35#6; -11#12]; [:: 4#1; -9#2]]%Q
  && qmx_eqb (List.nth 0 (gm_covs r) [::]) [:: [:: 4#1; 3#1]; [:: 3#1; 4#1]]%Q
  && qmx_eqb (List.nth 1 (gm_covs r) [::]) [:: [:: 5#4; 1#2]; [:: 1#2; 1#1]]%Q
  && qrow_eqb (gm_weights r) [:: 1#8; 7#8]%Q
  && qmx_eqb (gm_means (@kf_predict QM 2 2 Fm Qm None prev old)) [:: [:: 5#2; -7#4]; [:: 3#1; 1#2]]%Q
  = true.
Proof. vm_compute. reflexivity. Qed.

Print Assumptions C02_means_exo.
Print Assumptions C02_mean.
Print Assumptions C02_mean_noexo.
Print Assumptions C02_cov.
Print Assumptions C02_cov_psd.
Print Assumptions C02_cov_sym.
Print Assumptions C02_componentwise.
Print Assumptions C02_cov_independent.
Print Assumptions C02_mean_independent.
Print Assumptions C02_no_exo_equals_zero_exo.
Print Assumptions C02_frame_weights.
Print Assumptions C02_frame_covs_beyond.
Print Assumptions C02_propagate_branches.
Print Assumptions C02_skipped_identity.
Print Assumptions C02_executed_model_is_theorem_model.
