(* C07_Regress.v — regression specification: the transcription of
   ResamplingWithPrior::resample BEFORE /repo commit d9796b9 (parents of the
   resampled part reported as positions in the weight-sorted order, offset by
   the number of prior particles), and the proof that it violates "each output
   is a copy of the parent it reports".  Not part of any property theorem; kept
   so that a reintroduction of the defect is recognised (the check reports it as
   C07:prior-parent-not-source). *)
Require Import Reals ZArith List Bool Lia Lra.
Require Import BFL.Ops BFL.C07_Model BFL.C07_ROps BFL.C07_Proofs.
Import ListNotations.
Local Open Scope R_scope.

Definition resample_prior_old (S : SOps) {P : Type} (init : nat -> list P) (ratio : T S)
           (ps : list P) (lw : list (T S)) (u1 : T S) : pset S P * list Z :=
  let N := length ps in
  let np := num_prior S N ratio in
  let kept := skipn np (sort_idx S (map (sexp S) lw)) in
  let tmp_ps := match ps with [] => [] | d :: _ => map (fun i => nth i ps d) kept end in
  let tmp_lw := lse_normalise S (map (fun i => nth i lw (s0 S)) kept) in
  (fst (@resample_prior S P init ratio ps lw u1),
   (* res_parents_right.array() += num_prior_particles *)
   repeat (-1)%Z np ++ map (fun p => Z.of_nat (p + np)) (res_parents S tmp_lw u1)).

Lemma num_prior_zero N : (0 < N)%nat -> num_prior ROps N 0 = 0%nat.
Proof.
  intro HN. destruct (num_prior_spec exp N 0 HN ltac:(lra)) as [[H _] _].
  rewrite Rmult_0_r in H. change (num_prior (ROpsE exp) N 0) with (num_prior ROps N 0) in H.
  destruct (num_prior ROps N 0) as [|n]; auto. rewrite S_INR in H.
  pose proof (pos_INR n). lra.
Qed.

Lemma sort_two : sort_idx ROps (map (sexp ROps) [ln (3 / 4); ln (/ 4)]) = [1; 0]%nat.
Proof.
  change (sexp ROps) with exp. simpl map. rewrite !exp_ln by lra. unfold sort_idx, sort_pairs. simpl.
  unfold Rleb. destruct (Rle_dec (3 / 4) (/ 4)); [lra | reflexivity].
Qed.

Theorem C07p_old_parent_is_source_refuted :
  exists (lw : list R) (ratio u1 : R),
    0 <= ratio < 1 /\ sumR (map exp lw) = 1 /\ 0 < u1 /\ u1 * INR (length lw) < 1 /\
    let ps := [0; 1]%nat in
    let r := @resample_prior_old ROps nat (fun _ => []) ratio ps lw u1 in
    nth 0 (pparts (fst r)) 0%nat <> nth (Z.to_nat (nth 0 (snd r) 0%Z)) ps 0%nat.
Proof.
  exists [ln (3 / 4); ln (/ 4)], 0, (/ 4).
  split; [lra|]. split; [simpl; rewrite !exp_ln by lra; lra|]. split; [lra|]. split; [simpl; lra|].
  intros ps r.
  set (lw := [ln (3 / 4); ln (/ 4)]) in *.
  assert (Hnp : num_prior ROps (length ps) 0%R = 0%nat) by (apply num_prior_zero; simpl; lia).
  assert (Hlen : length lw = length ps) by reflexivity.
  assert (Npos : (0 < length ps)%nat) by (simpl; lia).
  assert (Hinit : length ((fun _ : nat => @nil nat) (num_prior ROps (length ps) 0%R)) = num_prior ROps (length ps) 0%R)
    by (rewrite Hnp; reflexivity).
  assert (H0 : (0 < length ps - num_prior ROps (length ps) 0%R)%nat) by (rewrite Hnp; simpl; lia).
  pose proof (prior_copy ROps (fun _ => []) 0%R ps lw (/ 4) Hlen Npos Hinit 0%nat 0%nat H0) as C.
  destruct (prior_parents_right ROps (fun _ => @nil nat) 0%R ps lw (/ 4) Hlen Npos Hinit 0%nat H0) as [E _].
  pose proof (rpar_range ROps (fun _ => @nil nat) 0%R ps lw (/ 4) Hlen Npos Hinit 0%nat H0) as Rr.
  set (rp0 := nth 0 (rpar ROps 0%R ps lw (/ 4)) 0%nat) in *.
  rewrite E, Nat2Z.id in C. rewrite Hnp in C, Rr. unfold lw in C at 2. rewrite sort_two in C.
  rewrite !Nat.add_0_l in C.
  assert (G1 : nth 0 (pparts (fst r)) 0%nat = nth (nth rp0 [1; 0]%nat 0%nat) ps 0%nat) by exact C.
  assert (G2 : nth 0 (snd r) 0%Z = Z.of_nat (rp0 + 0)).
  { change (snd r) with (repeat (-1)%Z (num_prior ROps (length ps) 0%R)
                          ++ map (fun p => Z.of_nat (p + num_prior ROps (length ps) 0%R)) (rpar ROps 0%R ps lw (/ 4))).
    rewrite Hnp. change (repeat (-1)%Z 0) with (@nil Z). rewrite app_nil_l.
    assert (Lr : length (rpar ROps 0%R ps lw (/ 4)) = 2%nat).
    { rewrite (rpar_length ROps 0%R ps lw (/ 4) Hlen), Hnp. reflexivity. }
    rewrite (nth_indep _ 0%Z (Z.of_nat (0 + 0))) by (rewrite map_length, Lr; lia).
    rewrite (map_nth (fun p => Z.of_nat (p + 0)) (rpar ROps 0%R ps lw (/ 4)) 0%nat 0). reflexivity. }
  rewrite G1, G2, Nat2Z.id. simpl in Rr.
  destruct rp0 as [|[|k]]; simpl; lia.
Qed.
