(* C07_Extract.v — executable entry points of the C07 model (scalars abstract,
   floats supplied by the OCaml driver).  ExtrOcamlBasic only.  The payload of
   a particle is instantiated with its original index (Z), fresh prior particles
   are numbered -1, -2, ...: the comparison rebuilds state/mean/covariance. *)
Require Import ZArith List.
Require Import BFL.Ops BFL.C07_Model.
Require Import Extraction ExtrOcamlBasic.
Import ListNotations.

Definition c07_ids (n : nat) : list Z := map Z.of_nat (seq 0 n).

Definition c07_csw (S : SOps) (lw : list (T S)) : list (T S) := csw S lw.
Definition c07_comb (S : SOps) (N : nat) (u1 : T S) : list (T S) :=
  map (comb S N u1) (seq 0 N).

(* plain resampling: sources of the copied state / mean / covariance (three separate members), weights, parents *)
Definition c07_resample (S : SOps) (lw : list (T S)) (u1 : T S) : list (particle Z Z Z) * list (T S) * list nat :=
  resample3 (map (fun i => mkParticle i i i) (c07_ids (length lw))) lw u1.

Definition c07_neff (S : SOps) (lw : list (T S)) : T S := neff S lw.
Definition c07_lse (S : SOps) (lw : list (T S)) : T S := lse S lw.

Definition c07_fresh (n : nat) : list Z := map (fun k => (- Z.of_nat (Datatypes.S k))%Z) (seq 0 n).

(* prior variant: (component count, sources, weights), parents *)
Definition c07_prior (S : SOps) (ratio : T S) (lw : list (T S)) (u1 : T S)
  : (nat * list Z * list (T S)) * list Z :=
  let '(r, par) := resample_prior c07_fresh ratio (c07_ids (length lw)) lw u1 in
  ((pcount r, pparts r, plw r), par).

(* intermediate values of the prior variant, for the near-boundary rule and the
   relational comparison under ties: num_prior, sorted indices, normalised kept weights *)
Definition c07_prior_parts (S : SOps) (ratio : T S) (lw : list (T S))
  : nat * list nat * list (T S) :=
  let N := length lw in
  let np := num_prior S N ratio in
  let srt := sort_idx S (map (sexp S) lw) in
  (np, srt, lse_normalise S (map (fun i => nth i lw (s0 S)) (skipn np srt))).

Extraction "C07_model.ml" c07_csw c07_comb c07_resample c07_neff c07_lse c07_prior c07_prior_parts.
