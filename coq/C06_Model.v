(* C06_Model.v — model of one SIS::filtering_step (SIS.cpp:52-83) with
   PFPrediction::predict / DrawParticles::predictStep (weights copied, states
   moved), PFCorrection::correct / BootstrapCorrection::correctStep
   (BootstrapCorrection.cpp:45-53), utils::log_sum_exp and the resampling
   trigger; resample / neff / lse are the C07 model.  Everything the
   environment decides is carried by the event: the skip flags in force, the
   result of freeze_measurements(), the likelihood vector (None = invalid), the
   prediction as a function on (index, state), and the random offset u1.
   Polymorphic in the scalar arithmetic and in the type St of a particle's
   state column; no proofs here. *)
Require Import ZArith List Bool.
Require Import BFL.Ops BFL.C07_Model.
Import ListNotations.

Section C06.
Variable S : SOps.
Variable St : Type.    (* a particle's state column *)
Variable Aux : Type.   (* the rest of a particle: its mean and covariance blocks *)
Notation T := (T S).

(* a ParticleSet at algorithm level: layout fields, particles (state column, mean/covariance blocks), log-weights *)
Record sset := mkSset { s_lin : nat; s_circ : nat; s_parts : list (St * Aux); s_lw : list T }.

Record event := mkEvent {
  ev_skip_pred : bool;            (* PFPrediction::skip_ *)
  ev_skip_corr : bool;            (* PFCorrection::skip_ *)
  ev_freeze : bool;               (* result of correction().freeze_measurements() *)
  ev_lik : option (list T);       (* LikelihoodModel::likelihood: Some l = (true, l), None = (false, _) *)
  ev_pred : nat -> St -> St;      (* state model's motion on particle i *)
  ev_u1 : T                       (* the offset drawn by Resampling::resample, if it is called *)
}.

Record sis_state := mkSis { step : nat; pred : sset; cor : sset }.

Fixpoint mapi_from {A B} (f : nat -> A -> B) (i : nat) (l : list A) : list B :=
  match l with [] => [] | x :: r => f i x :: mapi_from f (Datatypes.S i) r end.

(* PFPrediction::predict(prev = cor_particle_, pred = pred_particle_) *)
Definition predict (ev : event) (prev pr : sset) : sset :=
  if ev_skip_pred ev then prev                              (* pred_particles = prev_particles *)
  else mkSset (s_lin pr) (s_circ pr)                        (* layout of the output object is not touched *)
              (* motion(prev.state(), pred.state()): the states are replaced, mean and covariance of the
                 output object keep their previous content *)
              (combine (mapi_from (ev_pred ev) 0 (map fst (s_parts prev))) (map snd (s_parts pr)))
              (s_lw prev).                                  (* pred.weight() = prev.weight() *)

(* the arguments handed to log by the re-weighting: likelihood + numeric_limits<double>::min() *)
Definition lik_args (l : list T) : list T := map (fun a => sadd S a (stiny S)) l.

Fixpoint add_logs (lw args : list T) : list T :=
  match lw, args with
  | w :: lw', a :: args' => sadd S w (sln S a) :: add_logs lw' args'
  | _, _ => []
  end.

(* PFCorrection::correct with BootstrapCorrection::correctStep *)
Definition correct (ev : event) (pr : sset) : sset :=
  if ev_skip_corr ev then pr                                (* cor_particles = pred_particles *)
  else match ev_lik ev with
       | Some l => mkSset (s_lin pr) (s_circ pr) (s_parts pr) (add_logs (s_lw pr) (lik_args l))
       | None => pr                                         (* invalid likelihood: weights untouched *)
       end.

Definition normalise (c : sset) : sset :=
  mkSset (s_lin c) (s_circ c) (s_parts c) (lse_normalise S (s_lw c)).

(* the part of filtering_step before the resampling test *)
Definition sis_mid (st : sis_state) (ev : event) : sis_state :=
  let pr := if Nat.eqb (step st) 0 then pred st else predict ev (cor st) (pred st) in
  let c := if ev_freeze ev then normalise (correct ev pr) else pr in
  mkSis (step st) pr c.

(* resampling().neff(cor_particle_.weight()) < static_cast<double>(num_particle_)/3.0 *)
Definition needs_resampling (Nf : nat) (c : sset) : bool :=
  sltb S (neff S (s_lw c)) (sdiv S (sofnat S Nf) (sofnat S 3)).

(* ParticleSet res_particle(num_particle_, cor.dim_linear, cor.dim_circular); resample; cor = res *)
Definition resampled (c : sset) (u1 : T) : sset :=
  let '(out, w, par) := resample (s_parts c) (s_lw c) u1 in   (* state, mean and covariance of the parent are copied *)
  mkSset (s_lin c) (s_circ c) out w.

(* one filtering_step followed by the step counter increment of the filtering loop *)
Definition sis_step (Nf : nat) (st : sis_state) (ev : event) : sis_state :=
  let m := sis_mid st ev in
  let c := if needs_resampling Nf (cor m) then resampled (cor m) (ev_u1 ev) else cor m in
  mkSis (Datatypes.S (step st)) (pred m) c.

Definition sis_run (Nf : nat) (st : sis_state) (evs : list event) : sis_state :=
  fold_left (sis_step Nf) evs st.

(* the states after every step, for the correspondence check *)
Fixpoint sis_trace (Nf : nat) (st : sis_state) (evs : list event) : list sis_state :=
  match evs with
  | [] => []
  | ev :: r => let st' := sis_step Nf st ev in st' :: sis_trace Nf st' r
  end.

(* per step: the corrected set before the resampling test, the decision, the state after the step
   (what the driver prints; C06_Proofs.trace_full_bridge: its third components are sis_trace) *)
Fixpoint sis_trace_full (Nf : nat) (st : sis_state) (evs : list event) : list (sset * bool * sis_state) :=
  match evs with
  | [] => []
  | ev :: r =>
      let m := sis_mid st ev in
      let st' := sis_step Nf st ev in
      (cor m, needs_resampling Nf (cor m), st') :: sis_trace_full Nf st' r
  end.

End C06.
Arguments mkSset {_ St Aux}. Arguments s_lin {_ St Aux}. Arguments s_circ {_ St Aux}. Arguments s_parts {_ St Aux}. Arguments s_lw {_ St Aux}.
Arguments mkEvent {_ St}. Arguments ev_skip_pred {_ St}. Arguments ev_skip_corr {_ St}. Arguments ev_freeze {_ St}.
Arguments ev_lik {_ St}. Arguments ev_pred {_ St}. Arguments ev_u1 {_ St}.
Arguments mkSis {_ St Aux}. Arguments step {_ St Aux}. Arguments pred {_ St Aux}. Arguments cor {_ St Aux}.
Arguments predict {_ St Aux}. Arguments correct {_ St Aux}. Arguments normalise {_ St Aux}. Arguments sis_mid {_ St Aux}.
Arguments needs_resampling {_ St Aux}. Arguments resampled {_ St Aux}. Arguments sis_step {_ St Aux}. Arguments sis_run {_ St Aux}.
Arguments sis_trace {_ St Aux}.
Arguments sis_trace_full {_ St Aux}.
