(* C16_Transport.v — every model function of C16_Model.v that is extracted and run
   (C16_Extract.v: F and Q of the white-noise-acceleration model, its noise sample, motion and
   transition density, the spec-level density of the violation search, the LTI / LinearModel
   constructors with the 0/1 selector, the simulated trajectory with its serving cursor, the
   linear sensor over it with its descriptions, the grid initialiser), executed at the LIST
   instance  OL = ListMat (FOps tr) sqL egL  over the scalars of an arbitrary realFieldType and
   for ARBITRARY list-level oracles, computes a representation of what the same Gallina term
   computes at the MathComp instance  OM = MxMat tr sq eg  the C16 theorems are about.
   Premises, all per call:
     * the square-root oracles correspond ON THE MATRIX ACTUALLY FACTORED (Q of the model, R of
       the sensor) — UT_Transport.oracle_counterpart_exists shows this excludes no list oracle;
     * the transition density inverts Q by Gauss-Jordan (ListGauss.v): Q is PROVED invertible
       for T, q > 0 (C16_Proofs.wna_Q_unit), for a general covariance it is a premise.
   Built on UT_Transport.v's r_* lemmas and C01_Transport.v's density transport.  Only rounding
   separates the executed model from the theorem model.  Axiom-free. *)
Require Import ZArith List Bool Arith.
Require Import BFL.Ops BFL.ListOps BFL.Density BFL.C16_Model BFL.C16_ProofsSM BFL.C16_Extract.
From mathcomp Require Import all_ssreflect all_algebra.
Require Import BFL.MxOps BFL.LinAlg BFL.ListOpsCorrect BFL.ListGauss BFL.C02_Transport BFL.C01_Transport
               BFL.UT_Transport BFL.C16_Proofs.
Set Implicit Arguments.
Unset Strict Implicit.
Unset Printing Implicit Defensive.
Import GRing.Theory Num.Theory.
Local Open Scope ring_scope.

(* relations between results of the two instances *)
Section Rel.
Variables (A B : Type) (R : A -> B -> Prop).
Definition orel (a : option A) (b : option B) : Prop :=
  match a, b with
  | Some x, Some y => R x y
  | None, None => True
  | _, _ => False
  end.
Definition srel (E : Type) (a : E + A) (b : E + B) : Prop :=
  match a, b with
  | inr x, inr y => R x y
  | inl e1, inl e2 => e1 = e2
  | _, _ => False
  end.
Lemma orel_nth_error l1 l2 k : List.Forall2 R l1 l2 -> orel (List.nth_error l1 k) (List.nth_error l2 k).
Proof. by move=> r; elim: r k => [|x y l1' l2' rxy _ IH] [|k] //=. Qed.
End Rel.

Section T.
Variable F : realFieldType.
Variable tr : Transc F.
Variable sq : forall n, 'M[F]_n -> 'M[F]_n.
Variable eg : forall n, 'M[F]_n -> 'M[F]_(n,1).
Variables sqL egL : nat -> lmxF F -> lmxF F.
Let S := FOps tr.
Let OL := ListMat S sqL egL.
Let OM := MxMat tr sq eg.
Notation repr m n l A := (@C02_Transport.repr F m n l A) (only parsing).
Local Notation rb := (rbuild tr sq eg sqL egL).
Local Notation rg := (rget tr sq eg sqL egL).
Local Notation rmul := (r_mul tr sq eg sqL egL).
Local Notation radd := (r_add tr sq eg sqL egL).
Local Notation rsub := (r_sub tr sq eg sqL egL).
Local Notation rscale := (@r_scale F tr sq eg sqL egL).
Local Notation rzero := (r_zero tr sq eg sqL egL).
Local Notation rhcat := (r_hcat tr sq eg sqL egL).
Local Notation rvcat := (r_vcat tr sq eg sqL egL).
Local Notation rcol := (r_col tr sq eg sqL egL).
Local Notation rtr := (r_tr tr sq eg sqL egL).

(* ---------------------------------------------------------------- structural helpers *)
Lemma mof_lists_repr m n (ll : list (list F)) :
  repr m n (mof_lists OL m n ll) (mof_lists OM m n ll : 'M[F]_(m,n)).
Proof. exact: rb. Qed.

Lemma mconst_repr m n (c : F) : repr m n (mconst OL m n c) (mconst OM m n c : 'M[F]_(m,n)).
Proof. exact: rb. Qed.

Lemma fill_colmajor_repr rows num (zs : list F) :
  repr rows num (fill_colmajor (O:=OL) rows num zs) (fill_colmajor (O:=OM) rows num zs : 'M[F]_(rows,num)).
Proof. exact: rb. Qed.

Lemma mset_repr r c lA (A : 'M[F]_(r,c)) i j (v : F) : repr r c lA A ->
  repr r c (mset (O:=OL) (r:=r) (c:=c) lA i j v) (mset (O:=OM) A i j v : 'M[F]_(r,c)).
Proof. by move=> rA; apply: rb => a b _ _; rewrite (rg rA). Qed.

Lemma set_col_repr r c lA (A : 'M[F]_(r,c)) k (v : nat -> F) : repr r c lA A ->
  repr r c (set_col (O:=OL) (r:=r) (c:=c) lA k v) (set_col (O:=OM) A k v : 'M[F]_(r,c)).
Proof. by move=> rA; apply: rb => a b _ _; rewrite (rg rA). Qed.

(* ---------------------------------------------------------------- WNA: F, Q, sqrt_Q *)
Lemma blocks_repr d lB (B : 'M[F]_2) : repr 2 2 lB B ->
  repr (dim_n d) (dim_n d) (blocks (O:=OL) d lB) (blocks (O:=OM) d B : 'M[F]_(dim_n d)).
Proof.
move=> rB; have rZ : repr 2 2 (Z2 OL) (Z2 OM : 'M[F]_2) by exact: rzero.
case: d => //.
- exact: (rvcat (rhcat rB rZ) (rhcat rZ rB)).
- exact: (rvcat (rhcat rB (rhcat rZ rZ)) (rvcat (rhcat rZ (rhcat rB rZ)) (rhcat rZ (rhcat rZ rB)))).
Qed.

Theorem wna_F_repr d (Ts : F) :
  repr (dim_n d) (dim_n d) (wna_F (O:=OL) d Ts) (wna_F (O:=OM) d Ts : 'M[F]_(dim_n d)).
Proof. by apply: blocks_repr; exact: mof_lists_repr. Qed.

Theorem wna_Q_repr d (Ts q : F) :
  repr (dim_n d) (dim_n d) (wna_Q (O:=OL) d Ts q) (wna_Q (O:=OM) d Ts q : 'M[F]_(dim_n d)).
Proof. by rewrite /wna_Q; apply: rscale; apply: blocks_repr; exact: mof_lists_repr. Qed.

(* the oracles correspond on the covariance actually factored *)
Definition sq_corr_Q d (Ts q : F) : Prop :=
  repr (dim_n d) (dim_n d) (sqL (dim_n d) (wna_Q (O:=OL) d Ts q))
                           (sq (wna_Q (O:=OM) d Ts q : 'M[F]_(dim_n d))).

Theorem wna_sqrtQ_repr d (Ts q : F) : sq_corr_Q d Ts q ->
  repr (dim_n d) (dim_n d) (wna_sqrtQ (O:=OL) d Ts q) (wna_sqrtQ (O:=OM) d Ts q : 'M[F]_(dim_n d)).
Proof. by []. Qed.

(* ---------------------------------------------------------------- sampling and motion *)
Theorem noise_sample_repr d lL (L : 'M[F]_d) num (zs : list F) : repr d d lL L ->
  repr d num (noise_sample (O:=OL) (d:=d) lL num zs).1 ((noise_sample (O:=OM) L num zs).1 : 'M[F]_(d,num))
  /\ (noise_sample (O:=OL) (d:=d) lL num zs).2 = (noise_sample (O:=OM) L num zs).2.
Proof. by move=> rL; split=> //=; apply: rmul => //; exact: fill_colmajor_repr. Qed.

Theorem additive_motion_repr d c lF (Fm : 'M[F]_d) lL (L : 'M[F]_d) lX (X : 'M[F]_(d,c)) (zs : list F) :
  repr d d lF Fm -> repr d d lL L -> repr d c lX X ->
  repr d c (additive_motion (O:=OL) (d:=d) (c:=c) lF lL lX zs).1
           ((additive_motion (O:=OM) Fm L X zs).1 : 'M[F]_(d,c))
  /\ (additive_motion (O:=OL) (d:=d) (c:=c) lF lL lX zs).2 = (additive_motion (O:=OM) Fm L X zs).2.
Proof.
move=> rF rL rX; rewrite /additive_motion /noise_sample /=; split=> //.
by apply: radd; apply: rmul => //; exact: fill_colmajor_repr.
Qed.

Theorem wna_noise_sample_repr d (Ts q : F) num zs : sq_corr_Q d Ts q ->
  repr (dim_n d) num (wna_noise_sample (O:=OL) d Ts q num zs).1
                     ((wna_noise_sample (O:=OM) d Ts q num zs).1 : 'M[F]_(dim_n d,num))
  /\ (wna_noise_sample (O:=OL) d Ts q num zs).2 = (wna_noise_sample (O:=OM) d Ts q num zs).2.
Proof. by move=> c; apply: noise_sample_repr; exact: wna_sqrtQ_repr. Qed.

Theorem wna_motion_repr d (Ts q : F) c lX (X : 'M[F]_(dim_n d,c)) zs : sq_corr_Q d Ts q ->
  repr (dim_n d) c lX X ->
  repr (dim_n d) c (wna_motion (O:=OL) d Ts q (c:=c) lX zs).1
                   ((wna_motion (O:=OM) d Ts q X zs).1 : 'M[F]_(dim_n d,c))
  /\ (wna_motion (O:=OL) d Ts q (c:=c) lX zs).2 = (wna_motion (O:=OM) d Ts q X zs).2.
Proof.
by move=> cq rX; exact: (additive_motion_repr zs (wna_F_repr d Ts) (wna_sqrtQ_repr cq) rX).
Qed.

(* ---------------------------------------------------------------- transition density *)
Lemma density_any_oracle d lx (x : 'cV[F]_d) lmu (mu : 'cV[F]_d) lc (cov : 'M[F]_d) :
  repr d 1 lx x -> repr d 1 lmu mu -> repr d d lc cov -> cov \in unitmx ->
  density (O:=OL) (d:=d) lx lmu lc = density (O:=OM) x mu cov.
Proof. exact: (density_transport tr sq eg). Qed.

Theorem transition_probability_transport d c lF (Fm : 'M[F]_d) lQ (Q : 'M[F]_d)
        lp (prev : 'M[F]_(d,c)) lc (cur : 'M[F]_(d,c)) :
  repr d d lF Fm -> repr d d lQ Q -> repr d c lp prev -> repr d c lc cur -> Q \in unitmx ->
  transition_probability (O:=OL) (d:=d) (c:=c) lF lQ lp lc = transition_probability (O:=OM) Fm Q prev cur.
Proof.
move=> rF rQ rp rc uQ; rewrite /transition_probability.
apply: List.map_ext => j; apply: density_any_oracle => //; last exact: rzero.
by apply: rcol; apply: rsub => //; apply: rmul.
Qed.

Theorem wna_transition_probability_transport d (Ts q : F) c lp (prev : 'M[F]_(dim_n d,c)) lc (cur : 'M[F]_(dim_n d,c)) :
  0 < Ts -> 0 < q -> repr (dim_n d) c lp prev -> repr (dim_n d) c lc cur ->
  wna_transition_probability (O:=OL) d Ts q (c:=c) lp lc = wna_transition_probability (O:=OM) d Ts q prev cur.
Proof.
move=> T0 q0 rp rc; apply: transition_probability_transport => //.
- exact: wna_F_repr.
- exact: wna_Q_repr.
- exact: wna_Q_unit.
Qed.

(* the spec-level density of the violation search: N(cur_j; F prev_j, Q) pair by pair *)
Definition spec_tp (O : MatOps) (d : Dim) (Ts q : T (sc O)) (c : nat) (prev cur : M O (dim_n d) c) : list (T (sc O)) :=
  List.map (fun j => density (O:=O) (mcol (O:=O) j cur) (mmul (wna_F (O:=O) d Ts) (mcol (O:=O) j prev)) (wna_Q (O:=O) d Ts q))
           (List.seq 0 c).
Arguments spec_tp : clear implicits.

Theorem spec_tp_transport d (Ts q : F) c lp (prev : 'M[F]_(dim_n d,c)) lc (cur : 'M[F]_(dim_n d,c)) :
  0 < Ts -> 0 < q -> repr (dim_n d) c lp prev -> repr (dim_n d) c lc cur ->
  spec_tp OL d Ts q c lp lc = spec_tp OM d Ts q c prev cur.
Proof.
move=> T0 q0 rp rc; apply: List.map_ext => j; apply: density_any_oracle.
- exact: rcol.
- by apply: rmul; [exact: wna_F_repr | exact: rcol].
- exact: wna_Q_repr.
- exact: wna_Q_unit.
Qed.

(* ---------------------------------------------------------------- constructors *)
Definition rel_pair m1 n1 m2 n2 (l : lmxF F * lmxF F) (A : 'M[F]_(m1,n1) * 'M[F]_(m2,n2)) : Prop :=
  repr m1 n1 l.1 A.1 /\ repr m2 n2 l.2 A.2.

Theorem lti_state_ctor_transport fr fc qr qc lF (Fm : 'M[F]_(fr,fc)) lQ (Q : 'M[F]_(qr,qc)) :
  repr fr fc lF Fm -> repr qr qc lQ Q ->
  srel (@rel_pair fr fc qr qc) (lti_state_ctor (O:=OL) (fr:=fr) (fc:=fc) (qr:=qr) (qc:=qc) lF lQ)
                               (lti_state_ctor (O:=OM) Fm Q).
Proof.
move=> rF rQ; rewrite /lti_state_ctor.
case: (is_empty fr fc) => //; case: (is_empty qr qc) => //.
by case: (negb (Nat.eqb fr fc)) => //; case: (negb (Nat.eqb qr qc)) => //; case: (negb (Nat.eqb fr qr)).
Qed.

Theorem lti_meas_ctor_transport hr hc rr rc lH (H : 'M[F]_(hr,hc)) lR (R : 'M[F]_(rr,rc)) :
  repr hr hc lH H -> repr rr rc lR R ->
  srel (@rel_pair hr hc rr rc) (lti_meas_ctor (O:=OL) (hr:=hr) (hc:=hc) (rr:=rr) (rc:=rc) lH lR)
                               (lti_meas_ctor (O:=OM) H R).
Proof.
move=> rH rR; rewrite /lti_meas_ctor.
case: (is_empty hr hc) => //; case: (is_empty rr rc) => //.
by case: (negb (Nat.eqb rr rc)) => //; case: (negb (Nat.eqb hr rr)).
Qed.

(* the selector loop *)
Lemma lm_fill_transport m n idxs : forall i lH (H : 'M[F]_(m,n)), repr m n lH H ->
  srel (fun l (A : 'M[F]_(m,n)) => repr m n l A)
       (lm_fill (O:=OL) (m:=m) (n:=n) i idxs lH) (lm_fill (O:=OM) i idxs H).
Proof.
elim: idxs => [|ci rest IH] i lH H rH //=.
by case: (Nat.ltb ci n) => //; apply: IH; exact: mset_repr.
Qed.

Definition rel_lm m n rr rc (l : lmxF F * lmxF F * lmxF F) (A : 'M[F]_(m,n) * 'M[F]_(rr,rc) * 'M[F]_rr) : Prop :=
  [/\ repr m n l.1.1 A.1.1, repr rr rc l.1.2 A.1.2 & repr rr rr l.2 A.2].

(* the oracles correspond on the matrix LinearModel's constructor factors *)
Definition sq_corr_R rr rc lR (R : 'M[F]_(rr,rc)) : Prop :=
  repr rr rr (sqL rr (@mbuild OL rr rr (fun i j => @mget OL rr rc lR i j)))
             (sq (@mbuild OM rr rr (fun i j => @mget OM rr rc R i j) : 'M[F]_rr)).

Theorem linear_model_ctor_transport n idxs rr rc lR (R : 'M[F]_(rr,rc)) :
  repr rr rc lR R -> sq_corr_R lR R ->
  srel (@rel_lm (length idxs) n rr rc) (linear_model_ctor (O:=OL) n idxs (rr:=rr) (rc:=rc) lR)
                                       (linear_model_ctor (O:=OM) n idxs R).
Proof.
move=> rR cR; rewrite /linear_model_ctor /lti_meas_ctor.
case: (is_empty (length idxs) n) => //; case: (is_empty rr rc) => //.
case: (negb (Nat.eqb rr rc)) => //; case: (negb (Nat.eqb (length idxs) rr)) => //.
have := lm_fill_transport idxs 0%N (rzero (length idxs) n).
by case: (lm_fill _ _ _) => [e1|lH]; case: (lm_fill _ _ _) => [e2|H].
Qed.

(* ---------------------------------------------------------------- simulated trajectory *)
Section Sim.
Variable d : nat.
Variable motL : lmxF F -> list F -> lmxF F * list F.
Variable motM : 'cV[F]_d -> list F -> 'cV[F]_d * list F.
(* the motion functions correspond: representations to representations, same draws left *)
Hypothesis mot_corr : forall l (x : 'cV[F]_d) zs, repr d 1 l x ->
  repr d 1 (motL l zs).1 (motM x zs).1 /\ (motL l zs).2 = (motM x zs).2.

Notation rcols := (List.Forall2 (fun l (x : 'cV[F]_d) => repr d 1 l x)).
Notation rdata := (orel (fun l (x : 'cV[F]_d) => repr d 1 l x)).

Lemma sim_columns_transport k : forall l (x : 'cV[F]_d) zs, repr d 1 l x ->
  rcols (sim_columns (O:=OL) (d:=d) motL k l zs) (sim_columns (O:=OM) motM k x zs).
Proof.
elim: k => [|k IH] l x zs rx /=; first exact: List.Forall2_nil.
have [r1 e] := mot_corr zs rx.
case EL: (motL l zs) r1 e => [l' zl]; case EM: (motM x zs) => [x' zm] /= r1 e; rewrite e.
by apply: List.Forall2_cons => //; exact: IH.
Qed.

Definition rel_sim (sl : sim_state (O:=OL) d) (sm : sim_state (O:=OM) d) : Prop :=
  [/\ rcols (sim_target sl) (sim_target sm), sim_time sl = sim_time sm,
      sim_cur sl = sim_cur sm & rdata (sim_data sl) (sim_data sm)].

Theorem sim_ctor_transport l (x0 : 'cV[F]_d) len zs : repr d 1 l x0 ->
  srel rel_sim (sim_ctor (O:=OL) (d:=d) motL l len zs) (sim_ctor (O:=OM) motM x0 len zs).
Proof.
move=> rx; case: len => [|k] //=; split=> //=.
by apply: List.Forall2_cons => //; exact: sim_columns_transport.
Qed.

Lemma sim_step_transport sl sm op : rel_sim sl sm ->
  rel_sim (sim_step (O:=OL) sl op).1 (sim_step (O:=OM) sm op).1
  /\ (sim_step (O:=OL) sl op).2 = (sim_step (O:=OM) sm op).2.
Proof.
case: sl => tl nl cl dl; case: sm => tm nm cm dm [/= rt -> -> rd].
case: op => /=; last by split.
- case: (Nat.leb nm cm) => /=; first by split.
  by split=> //; split=> //=; exact: orel_nth_error.
- by split.
Qed.

(* the return value and getData() after every call, and the final state *)
Definition rel_out (o : bool * option (lmxF F)) (p : bool * option 'cV[F]_d) : Prop :=
  o.1 = p.1 /\ rdata o.2 p.2.

Theorem sim_run_transport ops : forall sl sm, rel_sim sl sm ->
  List.Forall2 rel_out (sim_run (O:=OL) sl ops).1 (sim_run (O:=OM) sm ops).1
  /\ rel_sim (sim_run (O:=OL) sl ops).2 (sim_run (O:=OM) sm ops).2.
Proof.
elim: ops => [|op rest IH] sl sm rs /=; first by split=> //; exact: List.Forall2_nil.
have [rs' eb] := sim_step_transport op rs.
case EL: (sim_step sl op) rs' eb => [sl' bl]; case EM: (sim_step sm op) => [sm' bm] /= rs' eb.
have [ro rf] := IH _ _ rs'.
case ERL: (sim_run sl' rest) ro rf => [ol fl]; case ERM: (sim_run sm' rest) => [om fm] /= ro rf.
split=> //; apply: List.Forall2_cons => //; split=> //=.
by case: rs'.
Qed.

(* ---------------------------------------------------------------- linear sensor over it *)
Variable m : nat.
Notation rmeas := (orel (fun l (y : 'cV[F]_m) => repr m 1 l y)).

Definition rel_sens (sl : sens_state (O:=OL) d m) (sm : sens_state (O:=OM) d m) : Prop :=
  [/\ rel_sim (sens_sim sl) (sens_sim sm), sens_zs sl = sens_zs sm & rmeas (sens_meas sl) (sens_meas sm)].

Lemma sensor_step_transport lH (H : 'M[F]_(m,d)) lLR (LR : 'M[F]_m) sl sm op :
  repr m d lH H -> repr m m lLR LR -> rel_sens sl sm ->
  rel_sens (sensor_step (O:=OL) (d:=d) (m:=m) lH lLR sl op).1 (sensor_step (O:=OM) H LR sm op).1
  /\ (sensor_step (O:=OL) (d:=d) (m:=m) lH lLR sl op).2 = (sensor_step (O:=OM) H LR sm op).2.
Proof.
move=> rH rL [rs ez rm].
case: op; rewrite /sensor_step /sensor_freeze.
- have [] := sim_step_transport SimBuffer rs.
  case: (sim_step (sens_sim sl) SimBuffer) => sl' bl; case: (sim_step (sens_sim sm) SimBuffer) => sm' bm /= rs' <-.
  case: bl; last by split.
  have [_ _ _] := rs'; case Dl: (sim_data sl') => [xl|]; case Dm: (sim_data sm') => [xm|] //= rx.
  rewrite -ez; split=> //; split=> //=.
  by apply: radd; apply: rmul => //; exact: fill_colmajor_repr.
- have [] := sim_step_transport SimReset rs.
  by case: (sim_step (sens_sim sl) SimReset) => sl' bl; case: (sim_step (sens_sim sm) SimReset) => sm' bm /= rs' <-; split.
- have [] := sim_step_transport SimOther rs.
  by case: (sim_step (sens_sim sl) SimOther) => sl' bl; case: (sim_step (sens_sim sm) SimOther) => sm' bm /= rs' <-; split.
Qed.

Theorem sensor_run_transport lH (H : 'M[F]_(m,d)) lLR (LR : 'M[F]_m) ops : repr m d lH H -> repr m m lLR LR ->
  forall sl sm, rel_sens sl sm ->
  List.Forall2 (fun (o : bool * option (lmxF F)) (p : bool * option 'cV[F]_m) => o.1 = p.1 /\ rmeas o.2 p.2)
               (sensor_run (O:=OL) (d:=d) (m:=m) lH lLR sl ops).1 (sensor_run (O:=OM) H LR sm ops).1
  /\ rel_sens (sensor_run (O:=OL) (d:=d) (m:=m) lH lLR sl ops).2 (sensor_run (O:=OM) H LR sm ops).2.
Proof.
move=> rH rL; elim: ops => [|op rest IH] sl sm rs /=; first by split=> //; exact: List.Forall2_nil.
have [rs' eb] := sensor_step_transport op rH rL rs.
case EL: (sensor_step (O:=OL) (d:=d) (m:=m) lH lLR sl op) rs' eb => [sl' bl]; case EM: (sensor_step (O:=OM) H LR sm op) => [sm' bm] /= rs' eb.
have [ro rf] := IH _ _ rs'.
case ERL: (sensor_run (O:=OL) (d:=d) (m:=m) lH lLR sl' rest) ro rf => [ol fl]; case ERM: (sensor_run (O:=OM) H LR sm' rest) => [om fm] /= ro rf.
split=> //; apply: List.Forall2_cons => //; split=> //=.
by case: rs'.
Qed.
End Sim.


(* the trajectory and the sensor over the white-noise-acceleration model: its one-column motion
   respects the representation as soon as the oracles correspond on Q *)
Lemma wna_motion1_corr d (Ts q : F) : sq_corr_Q d Ts q ->
  forall l (x : 'cV[F]_(dim_n d)) zs, repr (dim_n d) 1 l x ->
  repr (dim_n d) 1 (wna_motion (O:=OL) d Ts q (c:=1) l zs).1 ((wna_motion (O:=OM) d Ts q x zs).1 : 'cV[F]_(dim_n d))
  /\ (wna_motion (O:=OL) d Ts q (c:=1) l zs).2 = (wna_motion (O:=OM) d Ts q x zs).2.
Proof. by move=> cq l x zs rx; exact: wna_motion_repr. Qed.

(* ---------------------------------------------------------------- sensor descriptions *)
Lemma argmax_from_ext (f g : nat -> F) : (forall j, f j = g j) -> forall k j best bv,
  argmax_from (O:=OL) f j k best bv = argmax_from (O:=OM) g j k best bv.
Proof. by move=> E; elim=> [|k IH] j best bv //=; rewrite E; case: ifP => _; exact: IH. Qed.

Lemma row_argmax_abs_transport m n lH (H : 'M[F]_(m,n)) i : repr m n lH H ->
  row_argmax_abs (O:=OL) (m:=m) (n:=n) lH i = row_argmax_abs (O:=OM) H i.
Proof.
case: n lH H => [|k] lH H rH //; rewrite /row_argmax_abs (rg rH).
by apply: argmax_from_ext => j; rewrite (rg rH).
Qed.

Lemma fold_left_ext (A B : Type) (f g : A -> B -> A) (l : list B) :
  (forall a b, f a b = g a b) -> forall a, List.fold_left f l a = List.fold_left g l a.
Proof. by move=> E; elim: l => [|b l IH] a //=; rewrite E IH. Qed.

Theorem sensor_descriptions_transport m n lH (H : 'M[F]_(m,n)) sd nr : repr m n lH H ->
  sensor_descriptions (O:=OL) (m:=m) (n:=n) lH sd nr = sensor_descriptions (O:=OM) H sd nr.
Proof.
move=> rH; rewrite /sensor_descriptions.
rewrite (@fold_left_ext _ _ _
  (fun acc i => if Nat.ltb (row_argmax_abs (O:=OM) H i) (desc_linear_size (desc_add_noise sd nr))
                then (Datatypes.S (fst acc), snd acc) else (fst acc, Datatypes.S (snd acc)))) //.
by move=> acc i; rewrite (row_argmax_abs_transport i rH).
Qed.

(* ---------------------------------------------------------------- grid initialiser *)
Definition rel_grid r np (l : lmxF F * lmxF F) (A : 'M[F]_(r,np) * 'cV[F]_np) : Prop :=
  repr r np l.1 A.1 /\ repr np 1 l.2 A.2.

Theorem grid_initialize_rows_transport (xinf xsup yinf ysup : F) nx ny r np lst (st : 'M[F]_(r,np)) lw (w : 'cV[F]_np) :
  repr r np lst st ->
  orel (@rel_grid r np)
       (grid_initialize_rows (O:=OL) xinf xsup yinf ysup nx ny (r:=r) (np:=np) lst lw)
       (grid_initialize_rows (O:=OM) xinf xsup yinf ysup nx ny st w).
Proof.
move=> rs; rewrite /grid_initialize_rows.
case: (negb (Nat.eqb np _)) => //; case: (negb (Nat.eqb r 4)) => //=; split=> /=; last exact: mconst_repr.
elim: (grid_pairs nx ny) lst st rs => [|p ps IH] lst st rs //=.
by apply: IH; exact: set_col_repr.
Qed.

End T.

(* ================================================================================
   The extracted entry points (C16_Extract.v; their oracle record is
   c16_O S sqL = ListMat S sqL (fun _ A => A)): each one, run on lists over the scalars of a
   realFieldType, represents the model function of the theorems. *)
Section Entries.
Variable F : realFieldType.
Variable tr : Transc F.
Variable sq : forall n, 'M[F]_n -> 'M[F]_n.
Variable eg : forall n, 'M[F]_n -> 'M[F]_(n,1).
Variable sqL : nat -> lmxF F -> lmxF F.
Let S := FOps tr.
Let egL : nat -> lmxF F -> lmxF F := fun _ A => A.
Let OL := c16_O S sqL.
Let OM := MxMat tr sq eg.
Notation repr m n l A := (@C02_Transport.repr F m n l A) (only parsing).
Notation corrQ := (@sq_corr_Q F tr sq eg sqL egL).

Theorem entry_wna_F d (Ts : F) :
  repr (dim_n d) (dim_n d) (c16_wna_F S sqL d Ts) (wna_F (O:=OM) d Ts : 'M[F]_(dim_n d)).
Proof. exact: (@wna_F_repr F tr sq eg sqL egL). Qed.

Theorem entry_wna_Q d (Ts q : F) :
  repr (dim_n d) (dim_n d) (c16_wna_Q S sqL d Ts q) (wna_Q (O:=OM) d Ts q : 'M[F]_(dim_n d)).
Proof. exact: (@wna_Q_repr F tr sq eg sqL egL). Qed.

Theorem entry_wna_sqrtQ d (Ts q : F) : corrQ d Ts q ->
  repr (dim_n d) (dim_n d) (c16_wna_sqrtQ S sqL d Ts q) (wna_sqrtQ (O:=OM) d Ts q : 'M[F]_(dim_n d)).
Proof. by []. Qed.

Theorem entry_wna_noise d (Ts q : F) num zs : corrQ d Ts q ->
  repr (dim_n d) num (c16_wna_noise S sqL d Ts q num zs).1
                     ((wna_noise_sample (O:=OM) d Ts q num zs).1 : 'M[F]_(dim_n d,num))
  /\ (c16_wna_noise S sqL d Ts q num zs).2 = (wna_noise_sample (O:=OM) d Ts q num zs).2.
Proof. exact: (@wna_noise_sample_repr F tr sq eg sqL egL). Qed.

Theorem entry_wna_motion d (Ts q : F) c lX (X : 'M[F]_(dim_n d,c)) zs : corrQ d Ts q ->
  repr (dim_n d) c lX X ->
  repr (dim_n d) c (c16_wna_motion S sqL d Ts q c lX zs).1 ((wna_motion (O:=OM) d Ts q X zs).1 : 'M[F]_(dim_n d,c))
  /\ (c16_wna_motion S sqL d Ts q c lX zs).2 = (wna_motion (O:=OM) d Ts q X zs).2.
Proof. exact: (@wna_motion_repr F tr sq eg sqL egL). Qed.

Theorem entry_wna_tp d (Ts q : F) c lp (prev : 'M[F]_(dim_n d,c)) lc (cur : 'M[F]_(dim_n d,c)) :
  0 < Ts -> 0 < q -> repr (dim_n d) c lp prev -> repr (dim_n d) c lc cur ->
  c16_wna_tp S sqL d Ts q c lp lc = wna_transition_probability (O:=OM) d Ts q prev cur.
Proof. exact: (@wna_transition_probability_transport F tr sq eg sqL egL). Qed.

Theorem entry_spec_tp d (Ts q : F) c lp (prev : 'M[F]_(dim_n d,c)) lc (cur : 'M[F]_(dim_n d,c)) :
  0 < Ts -> 0 < q -> repr (dim_n d) c lp prev -> repr (dim_n d) c lc cur ->
  c16_spec_tp S sqL d Ts q c lp lc =
  List.map (fun j => density (O:=OM) (mcol (O:=OM) j cur)
                             ((wna_F (O:=OM) d Ts : 'M[F]_(dim_n d)) *m (mcol (O:=OM) j prev : 'cV[F]_(dim_n d)))
                             (wna_Q (O:=OM) d Ts q)) (List.seq 0 c).
Proof. exact: (@spec_tp_transport F tr sq eg sqL egL). Qed.

Theorem entry_LLt n lL (L : 'M[F]_n) : repr n n lL L -> repr n n (c16_LLt S sqL n lL) (L *m L^T).
Proof. by move=> rL; exact: (r_mul tr sq eg sqL egL rL (r_tr tr sq eg sqL egL rL)). Qed.

Theorem entry_lti_state fr fc qr qc lF (Fm : 'M[F]_(fr,fc)) lQ (Q : 'M[F]_(qr,qc)) :
  repr fr fc lF Fm -> repr qr qc lQ Q ->
  srel (@rel_pair F fr fc qr qc) (c16_lti_state S sqL fr fc qr qc lF lQ) (lti_state_ctor (O:=OM) Fm Q).
Proof. exact: (@lti_state_ctor_transport F tr sq eg sqL egL). Qed.

Theorem entry_lti_meas hr hc rr rc lH (H : 'M[F]_(hr,hc)) lR (R : 'M[F]_(rr,rc)) :
  repr hr hc lH H -> repr rr rc lR R ->
  srel (@rel_pair F hr hc rr rc) (c16_lti_meas S sqL hr hc rr rc lH lR) (lti_meas_ctor (O:=OM) H R).
Proof. exact: (@lti_meas_ctor_transport F tr sq eg sqL egL). Qed.

Theorem entry_linear_model n idxs rr rc lR (R : 'M[F]_(rr,rc)) :
  repr rr rc lR R -> @sq_corr_R F tr sq eg sqL egL rr rc lR R ->
  srel (@rel_lm F (length idxs) n rr rc) (c16_linear_model S sqL n idxs rr rc lR) (linear_model_ctor (O:=OM) n idxs R).
Proof. exact: (@linear_model_ctor_transport F tr sq eg sqL egL). Qed.

Theorem entry_noise d lL (L : 'M[F]_d) num zs : repr d d lL L ->
  repr d num (c16_noise S sqL d lL num zs).1 ((noise_sample (O:=OM) L num zs).1 : 'M[F]_(d,num))
  /\ (c16_noise S sqL d lL num zs).2 = (noise_sample (O:=OM) L num zs).2.
Proof. exact: (@noise_sample_repr F tr sq eg sqL egL). Qed.

(* SimulatedStateModel over the white-noise-acceleration model *)
Notation wmotM d Ts q := (fun (x : 'cV[F]_(dim_n d)) z => wna_motion (O:=OM) d Ts q (c:=1) x z).

Theorem entry_sim_ctor d (Ts q : F) lx (x0 : 'cV[F]_(dim_n d)) len zs : corrQ d Ts q -> repr (dim_n d) 1 lx x0 ->
  srel (@rel_sim F tr sq eg sqL egL (dim_n d))
       (c16_sim_ctor S sqL d Ts q lx len zs) (sim_ctor (O:=OM) (wmotM d Ts q) x0 len zs).
Proof.
move=> cq rx.
exact: (@sim_ctor_transport F tr sq eg sqL egL
          (dim_n d) _ _ (@wna_motion1_corr F tr sq eg sqL egL d Ts q cq) lx x0 len zs rx).
Qed.

Theorem entry_sim_target n sl (sm : sim_state (O:=OM) n) : @rel_sim F tr sq eg sqL egL n sl sm ->
  List.Forall2 (fun l (x : 'cV[F]_n) => repr n 1 l x) (c16_sim_target S sqL n sl) (sim_target sm).
Proof. by case. Qed.

Theorem entry_sim_run n sl (sm : sim_state (O:=OM) n) ops : @rel_sim F tr sq eg sqL egL n sl sm ->
  List.Forall2 (@rel_out F n) (c16_sim_run S sqL n sl ops) (sim_run (O:=OM) sm ops).1.
Proof. by move=> rs; case: (@sim_run_transport F tr sq eg sqL egL n ops sl sm rs). Qed.

Theorem entry_sensor_run n m lH (H : 'M[F]_(m,n)) lLR (LR : 'M[F]_m) sl (sm : sim_state (O:=OM) n) zs ops :
  repr m n lH H -> repr m m lLR LR -> @rel_sim F tr sq eg sqL egL n sl sm ->
  List.Forall2 (fun (o : bool * option (lmxF F)) (p : bool * option 'cV[F]_m) =>
                  o.1 = p.1 /\ orel (fun l (y : 'cV[F]_m) => repr m 1 l y) o.2 p.2)
               (c16_sensor_run S sqL n m lH lLR sl zs ops)
               (sensor_run (O:=OM) H LR (mkSens (O:=OM) (m:=m) sm zs None) ops).1.
Proof.
move=> rH rL rs.
have rss : @rel_sens F tr sq eg sqL egL n m (mkSens (O:=OL) (m:=m) sl zs None) (mkSens (O:=OM) (m:=m) sm zs None) by split.
by case: (@sensor_run_transport F tr sq eg sqL egL n m lH H lLR LR ops rH rL _ _ rss).
Qed.

Theorem entry_lti_sim_ctor n lF (Fm : 'M[F]_n) lx (x0 : 'cV[F]_n) len zs : repr n n lF Fm -> repr n 1 lx x0 ->
  srel (@rel_sim F tr sq eg sqL egL n)
       (c16_lti_sim_ctor S sqL n lF lx len zs)
       (sim_ctor (O:=OM) (fun (x : 'cV[F]_n) z => additive_motion (O:=OM) (c:=1) Fm (1%:M : 'M[F]_n) x z) x0 len zs).
Proof.
move=> rF rx.
have mc : forall l (x : 'cV[F]_n) zs', repr n 1 l x ->
    repr n 1 (additive_motion (O:=OL) (d:=n) (c:=1) lF (@mid OL n) l zs').1
             ((additive_motion (O:=OM) (c:=1) Fm (1%:M : 'M[F]_n) x zs').1 : 'cV[F]_n)
    /\ (additive_motion (O:=OL) (d:=n) (c:=1) lF (@mid OL n) l zs').2 = (additive_motion (O:=OM) (c:=1) Fm (1%:M : 'M[F]_n) x zs').2.
  by move=> l x zs' rl; exact: (@additive_motion_repr F tr sq eg sqL egL n 1 lF Fm _ _ l x zs' rF (r_id tr sq eg sqL egL n) rl).
exact: (@sim_ctor_transport F tr sq eg sqL egL n _ _ mc lx x0 len zs rx).
Qed.

Theorem entry_sensor_descs m n lH (H : 'M[F]_(m,n)) lin circ nr : repr m n lH H ->
  c16_sensor_descs S sqL m n lH lin circ nr = sensor_descriptions (O:=OM) H (mkDesc lin circ 0) nr.
Proof. exact: (@sensor_descriptions_transport F tr sq eg sqL egL). Qed.

Theorem entry_grid (xinf xsup yinf ysup : F) nx ny r np lst (st : 'M[F]_(r,np)) lw (w : 'cV[F]_np) :
  repr r np lst st ->
  orel (@rel_grid F r np) (c16_grid S sqL xinf xsup yinf ysup nx ny r np lst lw)
       (grid_initialize_rows (O:=OM) xinf xsup yinf ysup nx ny st w).
Proof. exact: (@grid_initialize_rows_transport F tr sq eg sqL egL). Qed.

End Entries.

(* non-vacuity of the oracle premises: with the identity as square-root oracle at both levels
   (UT_Transport.id_sqL / id_sq) the correspondence premises hold for every Dim, T, q and every
   represented R; and for ANY list-level oracle that keeps well-formedness a matrix-level
   counterpart exists (UT_Transport.oracle_counterpart_exists) *)
Lemma sq_corr_Q_id (F : realFieldType) (tr : Transc F) eg egL d (Ts q : F) :
  @sq_corr_Q F tr (@id_sq F) eg (@id_sqL F) egL d Ts q.
Proof. exact: (wna_Q_repr tr (@id_sq F) eg (@id_sqL F) egL). Qed.

Lemma sq_corr_R_id (F : realFieldType) (tr : Transc F) eg egL rr rc lR (R : 'M[F]_(rr,rc)) :
  @C02_Transport.repr F rr rc lR R -> @sq_corr_R F tr (@id_sq F) eg (@id_sqL F) egL rr rc lR R.
Proof. by move=> rR; apply: (rbuild tr (@id_sq F) eg (@id_sqL F) egL) => i j _ _; rewrite (rget tr (@id_sq F) eg (@id_sqL F) egL rR). Qed.

Print Assumptions entry_wna_motion.
Print Assumptions entry_wna_tp.
Print Assumptions entry_sim_ctor.
Print Assumptions entry_sensor_run.
Print Assumptions entry_grid.
