(* C15_Model.v — model of the Gaussian density utilities and log_sum_exp of
   utils.h, polymorphic in the arithmetic.
     utils::log_sum_exp                              utils.h:71-77
     utils::multivariate_gaussian_log_density        utils.h:296-306   (Density.v, shared)
     utils::multivariate_gaussian_log_density_UVR    utils.h:330-406
     utils::multivariate_gaussian_density(_UVR)      utils.h:418-450
   The direct density of one evaluation point is Density.log_density / density
   (shared file); here are the batch (matrix-input) forms, the factorised
   "UVR" variant with R kept in the code's layout (block_size rows, the
   diagonal blocks side by side: block_size x (num_blocks*block_size), or one
   block_size x block_size block when all blocks are equal), the spec-level
   assembly of S = U V + blockdiag(R), and log_sum_exp.
   No proofs in this file. *)
Require Import ZArith List.
Require Import BFL.Ops BFL.Density.
Import ListNotations.

Section Scalars.
Variable Sc : SOps.

(* std::pow(x, n) for a non-negative integer exponent: repeated product *)
Fixpoint spow (x : T Sc) (n : nat) : T Sc :=
  match n with
  | O => s1 Sc
  | Datatypes.S n' => smul Sc x (spow x n')
  end.

(* log_sum_exp(data), data = x0 :: l (Eigen's maxCoeff needs a non-empty vector):
     double max = data.maxCoeff();
     return max + std::log((data.array() - max).exp().sum());                *)
Definition lse (x0 : T Sc) (l : list (T Sc)) : T Sc :=
  let mx := smaxl Sc x0 l in
  sadd Sc mx (sln Sc (ssum Sc (map (fun a => sexp Sc (ssub Sc a mx)) (x0 :: l)))).

(* the shifted exponents the code feeds to exp (for the no-overflow facts) *)
Definition lse_shifted (x0 : T Sc) (l : list (T Sc)) : list (T Sc) :=
  let mx := smaxl Sc x0 l in map (fun a => ssub Sc a mx) (x0 :: l).

(* the final expression shared by the direct and the factorised log-density:
   - 0.5 * (rows * log(2 pi) + log(det) + quadratic form) *)
Definition gauss_log_value (d : nat) (det q : T Sc) : T Sc :=
  smul Sc (sopp Sc (shalf Sc))
       (sadd Sc (sadd Sc (smul Sc (sofnat Sc d) (sln Sc (smul Sc (s2 Sc) (spi Sc))))
                         (sln Sc det))
                q).
End Scalars.
Arguments spow {_} x n.
Arguments lse {_} x0 l.
Arguments lse_shifted {_} x0 l.
Arguments gauss_log_value {_} d det q.

Section UVR.
Variable O : MatOps.
Notation Sc := (sc O).

(* A.block(r0, c0, r, c) = B   (Eigen block assignment; the rest of A is kept) *)
Definition mset_block {m n r c} (A : M O m n) (r0 c0 : nat) (B : M O r c) : M O m n :=
  mbuild m n (fun i j =>
    if (Nat.leb r0 i && Nat.ltb i (r0 + r) && Nat.leb c0 j && Nat.ltb j (c0 + c))%bool
    then mget B (i - r0) (j - c0)
    else mget A i j).

(* input.colwise() - mean *)
Definition mcolwise_sub {d b} (X : M O d b) (mean : M O d 1) : M O d b :=
  mbuild d b (fun i j => ssub Sc (mget X i j) (mget mean i 0)).

(* ---- direct form on a batch: the loop over diff.col(i), utils.h:302-303 ---- *)
Definition log_density_mat {d b} (input : M O d b) (mean : M O d 1) (cov : M O d d)
  : list (T Sc) :=
  map (fun i => log_density (mcol i input) mean cov) (seq 0 b).
Definition density_mat {d b} (input : M O d b) (mean : M O d 1) (cov : M O d d)
  : list (T Sc) :=
  map (sexp Sc) (log_density_mat input mean cov).

(* ---- factorised form, utils.h:330-406 ---- *)

(* R.block(0, block_size * i, block_size, block_size); in the shared encoding
   (R.cols() == block_size) the code uses R itself *)
Definition uvr_R_block {bs rc} (R : M O bs rc) (i : nat) : M O bs bs :=
  mslice 0 (bs * i) bs bs R.
Definition uvr_R_single {bs rc} (R : M O bs rc) : M O bs bs := mslice 0 0 bs bs R.

(* "Evaluate inv(R)": Eigen::MatrixXd inv_R(block_size, input_size), zero-initialised
   (EIGEN_INITIALIZE_MATRICES_BY_ZERO), filled block by block *)
Definition uvr_inv_R (d : nat) {bs rc} (nb : nat) (R : M O bs rc) : M O bs d :=
  if Nat.eqb rc bs then
    let inv_R_single := minv (uvr_R_single R) in
    fold_left (fun acc i => mset_block acc 0 (bs * i) inv_R_single) (seq 0 nb) (mzero bs d)
  else
    fold_left (fun acc i => mset_block acc 0 (bs * i) (minv (uvr_R_block R i)))
              (seq 0 nb) (mzero bs d).

(* "Evaluate V * inv(R)": loop bound V.cols() / block_size *)
Definition uvr_V_inv_R {k d bs} (V : M O k d) (inv_R : M O bs d) : M O k d :=
  fold_left (fun acc i =>
               mset_block acc 0 (i * bs)
                 (mmul (mslice 0 (i * bs) k bs V) (mslice 0 (bs * i) bs bs inv_R)))
            (seq 0 (d / bs)) (mzero k d).

(* "Evaluate diff^T * inv(R)" *)
Definition uvr_diffT_inv_R {d b bs} (nb : nat) (diff : M O d b) (inv_R : M O bs d) : M O b d :=
  fold_left (fun acc i =>
               mset_block acc 0 (i * bs)
                 (mmul (mtr (mslice (i * bs) 0 bs b diff)) (mslice 0 (bs * i) bs bs inv_R)))
            (seq 0 nb) (mzero b d).

(* "Evaluate I + V * inv(R) * U" *)
Definition uvr_I_V_inv_R_U {k d} (V_inv_R : M O k d) (U : M O d k) : M O k k :=
  madd (mid k) (mmul V_inv_R U).

(* weighted_diffs(i) = diff_T_inv_R.row(i) * (I - U * inv(I_V_inv_R_U) * V_inv_R) * diff.col(i) *)
Definition uvr_weighted_diff {d b k} (dTiR : M O b d) (U : M O d k) (IVRU : M O k k)
           (V_inv_R : M O k d) (diff : M O d b) (i : nat) : T Sc :=
  mget (mmul (mmul (mrow i dTiR) (msub (mid d) (mmul (mmul U (minv IVRU)) V_inv_R)))
             (mcol i diff)) 0 0.

(* det_R: pow(R.determinant(), num_blocks) or the running product over the blocks *)
Definition uvr_det_R {bs rc} (nb : nat) (R : M O bs rc) : T Sc :=
  if Nat.eqb rc bs then spow (mdet (uvr_R_single R)) nb
  else fold_left (fun acc i => smul Sc acc (mdet (uvr_R_block R i))) (seq 0 nb) (s1 Sc).

Definition uvr_det_S {d k bs rc} (U : M O d k) (V : M O k d) (R : M O bs rc) : T Sc :=
  let nb := d / bs in
  let inv_R := uvr_inv_R d nb R in
  let V_inv_R := uvr_V_inv_R V inv_R in
  smul Sc (uvr_det_R nb R) (mdet (uvr_I_V_inv_R_U V_inv_R U)).

(* the whole function; input_size = d = input.rows(), block_size = bs = R.rows() *)
Definition log_density_uvr {d b k bs rc} (input : M O d b) (mean : M O d 1)
           (U : M O d k) (V : M O k d) (R : M O bs rc) : list (T Sc) :=
  let num_blocks := d / bs in
  let diff := mcolwise_sub input mean in
  let inv_R := uvr_inv_R d num_blocks R in
  let V_inv_R := uvr_V_inv_R V inv_R in
  let diff_T_inv_R := uvr_diffT_inv_R num_blocks diff inv_R in
  let I_V_inv_R_U := uvr_I_V_inv_R_U V_inv_R U in
  let det_S := smul Sc (uvr_det_R num_blocks R) (mdet I_V_inv_R_U) in
  map (fun i =>
         gauss_log_value d det_S
           (uvr_weighted_diff diff_T_inv_R U I_V_inv_R_U V_inv_R diff i))
      (seq 0 b).

Definition density_uvr {d b k bs rc} (input : M O d b) (mean : M O d 1)
           (U : M O d k) (V : M O k d) (R : M O bs rc) : list (T Sc) :=
  map (sexp Sc) (log_density_uvr input mean U V R).

(* ---- spec level: the covariance the factorised form stands for ----
   blockdiag(R): the d x d matrix with block i of R (or R itself, in the shared
   encoding) at rows/columns [bs*i, bs*i + bs) and zero elsewhere *)
Definition blockdiag (d : nat) {bs rc} (R : M O bs rc) : M O d d :=
  fold_left (fun acc i =>
               mset_block acc (bs * i) (bs * i)
                 (if Nat.eqb rc bs then uvr_R_single R else uvr_R_block R i))
            (seq 0 (d / bs)) (mzero d d).

Definition assembled_S {d k bs rc} (U : M O d k) (V : M O k d) (R : M O bs rc) : M O d d :=
  madd (mmul U V) (blockdiag d R).
End UVR.
Arguments mset_block {_ m n r c} A r0 c0 B.
Arguments mcolwise_sub {_ d b} X mean.
Arguments log_density_mat {_ d b} input mean cov.
Arguments density_mat {_ d b} input mean cov.
Arguments uvr_R_block {_ bs rc} R i.
Arguments uvr_R_single {_ bs rc} R.
Arguments uvr_inv_R {_} d {bs rc} nb R.
Arguments uvr_V_inv_R {_ k d bs} V inv_R.
Arguments uvr_diffT_inv_R {_ d b bs} nb diff inv_R.
Arguments uvr_I_V_inv_R_U {_ k d} V_inv_R U.
Arguments uvr_weighted_diff {_ d b k} dTiR U IVRU V_inv_R diff i.
Arguments uvr_det_R {_ bs rc} nb R.
Arguments uvr_det_S {_ d k bs rc} U V R.
Arguments log_density_uvr {_ d b k bs rc} input mean U V R.
Arguments density_uvr {_ d b k bs rc} input mean U V R.
Arguments blockdiag {_} d {bs rc} R.
Arguments assembled_S {_ d k bs rc} U V R.
