(* C14_Proofs.v — safety of the shape programs of C14_Model.v (lia only). *)
Require Import Arith List Bool String Lia.
Require Import BFL.C14_Model.
Import ListNotations.
Open Scope nat_scope.

(* ---------- generic facts about [run] ---------- *)
Definition item_ok (x : item) : Prop :=
  match what x with Guard b => b = true | o => ok o = true end.

Lemma run_safe_iff (p : prog) : run p = Safe <-> Forall item_ok p.
Proof.
  induction p as [|x r IH]; simpl.
  - split; auto.
  - unfold item_ok at 1. destruct (what x) eqn:E; simpl;
      try (match goal with |- context [if ?b then _ else _] => destruct b eqn:B end);
      try (destruct b);
      split; intro H;
      try (constructor; [unfold item_ok; rewrite E; simpl; auto | apply IH; auto]);
      try discriminate;
      try (inversion H as [|? ? H1 H2]; subst; unfold item_ok in H1; rewrite E in H1; simpl in H1;
           first [ apply IH; assumption | congruence ]).
Qed.

Lemma check_none_of_safe (p : prog) : run p = Safe -> check_shapes p = None.
Proof. unfold check_shapes. intros ->. reflexivity. Qed.

(* ---------- structural lemmas ---------- *)
Lemma Forall_for_ (P : item -> Prop) n f : (forall i, i < n -> Forall P (f i)) -> Forall P (for_ n f).
Proof.
  intro H. unfold for_. apply Forall_flat_map, Forall_forall. intros i Hi.
  apply in_seq in Hi. apply H. lia.
Qed.
Lemma Forall_when (P : item -> Prop) b p : (b = true -> Forall P p) -> Forall P (when b p).
Proof. destruct b; simpl; auto. Qed.
Lemma Forall_relabel e p : Forall item_ok p -> Forall item_ok (relabel e p).
Proof.
  unfold relabel. intro H. apply Forall_map. eapply Forall_impl; [|exact H].
  intros x Hx. unfold item_ok in *. simpl. exact Hx.
Qed.
Lemma mul_slot b i n : i < n -> b * i + b <= b * n.
Proof. intro H. nia. Qed.
Lemma mul_slot' b i n : i < n -> i * b + b <= n * b.
Proof. intro H. nia. Qed.
Lemma div_slot m s j : 0 < s -> j < m / s -> s * j + s <= m.
Proof.
  intros Hs Hj. pose proof (Nat.mul_div_le m s ltac:(lia)). nia.
Qed.

(* boolean hypotheses / goals to arithmetic *)
Ltac b2p :=
  repeat match goal with
  | H : pos _ = true |- _ => unfold pos in H
  | H : (_ <? _) = true |- _ => apply Nat.ltb_lt in H
  | H : (_ <? _) = false |- _ => apply Nat.ltb_ge in H
  | H : (_ <=? _) = true |- _ => apply Nat.leb_le in H
  | H : (_ <=? _) = false |- _ => apply Nat.leb_gt in H
  | H : (_ =? _) = true |- _ => apply Nat.eqb_eq in H
  | H : (_ =? _) = false |- _ => apply Nat.eqb_neq in H
  | H : (_ && _) = true |- _ => apply andb_true_iff in H; destruct H
  | H : negb _ = true |- _ => apply negb_true_iff in H
  end.
Ltac ok_goal :=
  match goal with |- item_ok _ => idtac end;
  unfold item_ok; cbn [what ok]; unfold pos;
  repeat (rewrite andb_true_iff); repeat split;
  first [ reflexivity | apply Nat.eqb_eq | apply Nat.leb_le | apply Nat.ltb_lt ].
Ltac step :=
  first
    [ match goal with |- Forall _ [] => apply Forall_nil end
    | match goal with |- Forall _ (_ :: _) => apply Forall_cons end
    | match goal with |- Forall _ (_ ++ _) => apply Forall_app; split end
    | match goal with |- Forall _ (for_ _ _) => apply Forall_for_; intros ? ? end
    | match goal with |- Forall _ (when _ _) => apply Forall_when; intro end
    | match goal with |- Forall _ (relabel _ _) => apply Forall_relabel end
    | match goal with |- Forall _ (if ?b then _ else _) => destruct b eqn:? end
    | match goal with |- Forall _ (match ?v with _ => _ end) => destruct v eqn:? end ].

Ltac finish := b2p; try ok_goal; b2p; try lia; try nia.
Ltac safe_by unf := apply run_safe_iff; unf; cbv zeta; repeat step; finish.

(* ---------- WhiteNoiseAcceleration ---------- *)
Lemma wna_ctor_ok D : Forall item_ok (p_wna_ctor D).
Proof. unfold p_wna_ctor, wna_d; cbv zeta; repeat step; finish. Qed.
Lemma wna_noise_ok e D num : Forall item_ok (p_wna_noise e D num).
Proof. unfold p_wna_noise, wna_d; cbv zeta; repeat step; finish. Qed.
Lemma lin_propagate_ok e d sc : Forall item_ok (p_lin_propagate e d d sc d sc).
Proof. unfold p_lin_propagate; repeat step; finish. Qed.
Lemma wna_motion_ok e D sc : Forall item_ok (p_wna_motion e D (wna_d D) sc (wna_d D) sc).
Proof.
  unfold p_wna_motion. repeat step; try apply lin_propagate_ok; try apply wna_noise_ok; finish.
Qed.
Lemma density_ok e r c : Forall item_ok (p_density e r c r r r).
Proof. unfold p_density; repeat step; finish. Qed.
Lemma wna_tp_ok D pc : Forall item_ok (p_wna_tp D (wna_d D) pc (wna_d D) pc).
Proof. unfold p_wna_tp; cbv zeta; repeat step; try apply density_ok; finish. Qed.

Lemma case_wna_safe D num sc pc :
  run (case_wna D num (wna_d D) sc (wna_d D) sc (wna_d D) pc (wna_d D) pc) = Safe.
Proof.
  apply run_safe_iff. unfold case_wna. repeat step.
  - apply wna_ctor_ok. - apply wna_noise_ok. - apply lin_propagate_ok.
  - apply wna_motion_ok. - apply wna_tp_ok.
Qed.

(* ---------- SimulatedStateModel ---------- *)
Lemma sim_ctor_ok D T : 0 < T -> Forall item_ok (p_sim_ctor D T (wna_d D)).
Proof.
  intro HT. unfold p_sim_ctor. repeat step; try apply wna_motion_ok; finish.
Qed.
Lemma sim_buffer_ok e T cur : Forall item_ok (p_sim_buffer e T cur).
Proof. unfold p_sim_buffer, sim_buffer_ret. repeat step; finish. Qed.
Lemma sim_run_ok f T ops : (forall c, Forall item_ok (f c)) -> forall cur, Forall item_ok (sim_run f T cur ops).
Proof.
  intro Hf. induction ops as [|o r IH]; intro cur; simpl; [constructor|].
  destruct o; [apply Forall_app; split; [apply Hf | apply IH] | apply IH].
Qed.

Lemma case_simstate_safe D T ops : 0 < T -> run (case_simstate D T (wna_d D) ops) = Safe.
Proof.
  intro HT. apply run_safe_iff. unfold case_simstate. repeat step.
  - apply wna_ctor_ok. - apply sim_ctor_ok; assumption.
  - apply sim_run_ok. intro c. apply sim_buffer_ok.
Qed.

(* exhaustion is reported by the return value.  The cursor is the transcribed state machine [sim_next]; that
   without a reset call number k (from 0) returns true iff k < T is a theorem about it, by induction. *)
Lemma sim_rets_from T calls : forall cur k, k < calls ->
  nth k (sim_rets T cur (repeat SBuf calls)) false = (cur + k <? T).
Proof.
  induction calls as [|n IH]; intros cur k Hk; [lia|]. simpl.
  destruct k as [|k'].
  - unfold sim_buffer_ret. rewrite Nat.add_0_r. reflexivity.
  - rewrite IH by lia. unfold sim_next. destruct (cur <? T) eqn:E; b2p.
    + replace (S cur + k') with (cur + S k') by lia. reflexivity.
    + transitivity false; [|symmetry]; apply Nat.ltb_ge; lia.
Qed.
Lemma sim_returns_spec T calls k : k < calls -> nth k (sim_returns T calls) false = (k <? T).
Proof. intro Hk. unfold sim_returns. rewrite sim_rets_from by exact Hk. reflexivity. Qed.
(* after a reset the trajectory is served again from its first column *)
Lemma sim_rets_reset T cur ops : sim_rets T cur (SReset :: ops) = sim_rets T 0 ops.
Proof. reflexivity. Qed.

(* ---------- LinearModel / SimulatedLinearSensor ---------- *)
Lemma lm_noise_ok e m num : Forall item_ok (p_lm_noise e m num).
Proof. unfold p_lm_noise; repeat step; finish. Qed.

Lemma sls_ctor_ok sn ms : ms <> [] -> 0 < sn -> Forall (fun c => c < sn) ms ->
  Forall item_ok (p_sls_ctor sn ms (List.length ms) (List.length ms)).
Proof.
  intros Hne Hsn Hms. unfold p_sls_ctor. cbv zeta.
  assert (0 < List.length ms) by (destruct ms; [congruence | simpl; lia]).
  repeat step; finish.
  apply Forall_flat_map. eapply Forall_impl; [|exact Hms]. intros c Hc.
  repeat step. unfold item_ok; cbn [what]. apply Nat.ltb_lt; exact Hc.
Qed.

Lemma sls_freeze_ok T cur sn m : Forall item_ok (p_sls_freeze T cur sn m sn).
Proof.
  unfold p_sls_freeze. repeat step; try apply sim_buffer_ok; try apply lm_noise_ok; finish.
Qed.

Lemma case_linsensor_safe D T ms calls num sc :
  0 < T -> ms <> [] -> Forall (fun c => c < wna_d D) ms -> 0 < D ->
  run (case_linsensor D T (wna_d D) (wna_d D) ms (List.length ms) (List.length ms) calls num (wna_d D) sc) = Safe.
Proof.
  intros HT Hne Hms HD. apply run_safe_iff. unfold case_linsensor. cbv zeta. repeat step.
  - apply wna_ctor_ok.
  - apply sim_ctor_ok; assumption.
  - apply sls_ctor_ok; auto. unfold wna_d; lia.
  - apply sim_run_ok. intro c. apply sls_freeze_ok.
  - apply lm_noise_ok.
  - unfold p_lmm_pred; repeat step; finish.
  - unfold p_lmm_innov; repeat step; finish.
Qed.

(* ---------- HistoryBuffer: every operation sequence ---------- *)
Lemma h_shrink_ok e sz tmp : Forall item_ok (p_h_shrink e sz tmp).
Proof. unfold p_h_shrink; repeat step; finish. Qed.
Lemma h_set_ok e s w : Forall item_ok (fst (h_set e s w)).
Proof. unfold h_set. destruct (w =? hwin s); simpl; [constructor | apply h_shrink_ok]. Qed.
Lemma h_step_ok ssz s o : Forall item_ok (fst (h_step ssz s o)).
Proof.
  destruct o; simpl; try apply h_set_ok; try constructor.
  destruct (hwin s <? S (hsz s)); simpl; repeat step; finish.
Qed.

Definition adds_sized (ssz : nat) (ops : list hop) : Prop :=
  forall esz, In (HAdd esz) ops -> esz = ssz.

Lemma Forall_firstn {A} (P : A -> Prop) n l : Forall P l -> Forall P (firstn n l).
Proof. intro H. revert n. induction H; intros [|n]; simpl; constructor; auto. Qed.

Lemma h_run_ok ssz ops : adds_sized ssz ops ->
  forall s els, Forall (fun e => e = ssz) els -> Forall item_ok (fst (h_run ssz s els ops)).
Proof.
  induction ops as [|o r IH]; intros Hadd s els Hels; simpl.
  - constructor.
  - pose proof (h_step_ok ssz s o) as Hstep.
    destruct (h_step ssz s o) as [p s'] eqn:Es. simpl in Hstep.
    set (els' := match o with HAdd esz => firstn (hsz s') (esz :: els) | HClear => [] | _ => firstn (hsz s') els end).
    assert (Hels' : Forall (fun e => e = ssz) els').
    { subst els'. destruct o; try (apply Forall_firstn; assumption); try constructor.
      apply Forall_firstn. constructor; [apply Hadd; left; reflexivity | assumption]. }
    assert (Hlen : List.length els' <= hsz s').
    { subst els'. destruct o; simpl; try apply firstn_le_length; lia. }
    assert (Hr : adds_sized ssz r) by (intros esz Hin; apply Hadd; right; exact Hin).
    specialize (IH Hr s' els' Hels').
    destruct (h_run ssz s' els' r) as [p2 fin] eqn:Er. simpl in IH. simpl.
    apply Forall_app; split; [exact Hstep|]. apply Forall_app; split; [|exact IH].
    destruct o; try constructor.
    apply Forall_flat_map, Forall_forall. intros [i e0] Hin.
    pose proof (in_combine_l _ _ _ _ Hin) as Hi. pose proof (in_combine_r _ _ _ _ Hin) as He.
    apply in_seq in Hi. rewrite Forall_forall in Hels'. specialize (Hels' _ He). simpl.
    repeat step; finish.
Qed.

Lemma case_history_safe ssz ops : adds_sized ssz ops -> run (case_history ssz ops) = Safe.
Proof. intro H. apply run_safe_iff. unfold case_history. apply h_run_ok; [exact H | constructor]. Qed.

(* ---------- InitSurveillanceAreaGrid ---------- *)
Lemma case_grid_safe nx ny n l : run (case_grid nx ny n l) = Safe.
Proof.
  apply run_safe_iff. unfold case_grid, p_grid, grid_ret. repeat step; finish.
Qed.

(* ---------- sigma points and the unscented transform: every layout ---------- *)
Ltac lay_cbn := unfold ldim, lcov, csz, tsz, augment, noiseless in *; cbn [lin circ quat noise] in *.
Ltac finish2 := b2p; lay_cbn; try ok_goal; b2p; try lia; try nia.

Lemma sigma_ok e l comps : Forall item_ok (p_sigma e l comps).
Proof.
  destruct l as [L C q N]; destruct q; unfold p_sigma, g_cov, g_mean; cbv zeta; lay_cbn;
  repeat step; finish2.
Qed.
Lemma case_sigma_safe l comps : run (case_sigma l comps) = Safe.
Proof. apply run_safe_iff, sigma_ok. Qed.

Lemma utweight_ok e dof : Forall item_ok (p_utweight e dof).
Proof. unfold p_utweight. repeat step; finish. Qed.
Lemma augment_gm_ok e l comps qr qc : Forall item_ok (p_augment_gm e l comps qr qc).
Proof.
  unfold p_augment_gm, aug_ret. cbv zeta. destruct l as [L C q N]; destruct q; lay_cbn; repeat step; finish2.
Qed.

Lemma ut_core_ok e li comps valid pr pc lo :
  noise lo = 0 -> (valid = true -> pr = ldim lo /\ pc = (2 * lcov li + 1) * comps) ->
  Forall item_ok (p_ut_core e li comps (lcov li) valid pr pc lo).
Proof.
  intros Hn Hv. unfold p_ut_core. cbv zeta. apply Forall_app; split; [apply sigma_ok|].
  apply Forall_when; intro Hval. destruct (Hv Hval) as [-> ->]. clear Hv.
  destruct li as [L C q N]; destruct lo as [L' C' q' N']; simpl in Hn; subst N';
  destruct q, q'; unfold g_cov, g_mean; lay_cbn; repeat step; finish2.
Qed.

Lemma ut_add_noise_ok e comps lo : Forall item_ok (p_ut_add_noise e comps true lo (lcov lo) (lcov lo)).
Proof. unfold p_ut_add_noise. cbv zeta. repeat step; finish2. Qed.

(* what "valid" means for a call of one of the five overloads *)
Definition ut_valid (variant : nat) (li : layout) (comps w : nat) (valid : bool) (pr pc : nat) (lo : layout) (qr qc : nat) : Prop :=
  noise lo = 0 /\ w = lcov li /\
  match variant with
  | 0 | 3 => valid = true -> pr = ldim lo /\ pc = (2 * lcov li + 1) * comps
  | 1 => True
  | 2 => ldim li = ldim lo /\ qr = lcov lo /\ qc = lcov lo
  | _ => (valid = true -> pr = ldim lo /\ pc = (2 * lcov li + 1) * comps) /\ qr = lcov lo /\ qc = lcov lo
  end.

Lemma case_ut_safe variant li comps w valid pr pc lo qr qc :
  ut_valid variant li comps w valid pr pc lo qr qc ->
  run (case_ut variant li comps w valid pr pc lo qr qc) = Safe.
Proof.
  intros (Hn & -> & Hv). apply run_safe_iff. unfold case_ut, ut_prop_shape, p_ut.
  destruct variant as [|[|[|[|v]]]]; cbv beta iota zeta; (apply Forall_app; split; [apply utweight_ok|]).
  - rewrite app_nil_r. apply ut_core_ok; assumption.
  - rewrite app_nil_r. apply ut_core_ok; auto.
  - destruct Hv as (Hd & -> & ->). apply Forall_app; split; [|apply ut_add_noise_ok].
    apply ut_core_ok; auto.
  - rewrite app_nil_r. apply ut_core_ok; assumption.
  - destruct Hv as (Hv & -> & ->). apply Forall_app; split.
    + apply ut_core_ok; auto.
    + destruct v; [apply Forall_when; intro; apply ut_add_noise_ok | constructor].
Qed.

(* ---------- Kalman steps ---------- *)
Lemma lmm_innov_ok e m yc : 0 < yc -> Forall item_ok (p_lmm_innov e m m yc).
Proof. intro. unfold p_lmm_innov; repeat step; finish. Qed.

Lemma case_kfp_safe l comps : quat l = false ->
  run (case_kfp (ldim l) l comps l comps) = Safe.
Proof.
  intro Hq. apply run_safe_iff. unfold case_kfp, p_kf_predict, p_lin_propagate, g_cov.
  destruct l as [L C q N]; simpl in Hq; subst q. lay_cbn. repeat step; finish2.
Qed.

Lemma kf_lik_ok m comps : Forall item_ok (p_kf_lik m comps).
Proof. unfold p_kf_lik. repeat step; try apply density_ok; finish. Qed.

Lemma case_kfc_safe m l comps yc again : quat l = false -> 0 < yc ->
  run (case_kfc m (ldim l) l comps l comps m yc again) = Safe.
Proof.
  intros Hq Hy. apply run_safe_iff. unfold case_kfc, p_kf_correct, g_cov, g_mean. cbv zeta.
  destruct l as [L C q N]; simpl in Hq; subst q. lay_cbn.
  repeat step; try apply lmm_innov_ok; try apply kf_lik_ok; finish2.
Qed.

(* ---------- UKF steps ---------- *)
Lemma case_ukfp_additive_safe l comps : noise l = 0 ->
  run (case_ukfp true l comps (lcov l) l) = Safe.
Proof.
  intro Hn. apply run_safe_iff. unfold case_ukfp, p_ukf_predict, p_ut. cbv beta iota zeta.
  apply Forall_app; split; [apply utweight_ok|]. apply Forall_relabel.
  apply Forall_app; split; [|apply ut_add_noise_ok]. apply ut_core_ok; auto.
Qed.
Lemma case_ukfp_generic_safe l comps q : noise l = 0 ->
  run (case_ukfp false l comps q l) = Safe.
Proof.
  intro Hn. apply run_safe_iff. unfold case_ukfp, p_ukf_predict, p_ut. cbv beta iota zeta.
  apply Forall_app; split; [apply utweight_ok|]. apply Forall_app; split; [apply augment_gm_ok|]. apply Forall_relabel.
  rewrite app_nil_r.
  replace (lcov l + q) with (lcov (augment l q)) by (unfold lcov, tsz, augment; simpl; lia).
  apply ut_core_ok; auto.
Qed.

Lemma ukf_lik_ok comps m : Forall item_ok (p_ukf_lik comps m m).
Proof. unfold p_ukf_lik. repeat step; try apply density_ok; finish. Qed.

Definition ukfc_valid (additive : bool) (lp : layout) (r : nat) (valid : bool) (lm : layout) : Prop :=
  quat lp = false /\ noise lp = 0 /\ noise lm = 0 /\
  (additive = true -> r = lcov lm).

Lemma ukf_correct_ok additive online lp comps r valid lm :
  ukfc_valid additive lp r valid lm ->
  Forall item_ok (p_ukf_correct additive online lp comps (if additive then lcov lp else lcov lp + r) r valid lm (lcov lm) lp comps).
Proof.
  intros (Hqp & Hnp & Hnm & Hadd). unfold p_ukf_correct. cbv zeta.
  apply Forall_app; split; [|apply Forall_app; split].
  - apply Forall_when; intro. apply Forall_app; split; [apply augment_gm_ok | apply Forall_when; intro; apply utweight_ok].
  - apply Forall_relabel. unfold p_ut. destruct additive; cbv beta iota zeta.
    + rewrite (Hadd eq_refl). apply Forall_app; split; [|apply Forall_when; intro; apply ut_add_noise_ok].
      apply ut_core_ok; auto.
    + rewrite app_nil_r.
      replace (lcov lp + r) with (lcov (augment lp r)) by (unfold lcov, tsz, augment; simpl; lia).
      apply ut_core_ok; auto.
  - destruct lp as [L C q N]; destruct lm as [L' C' q' N']; simpl in *; subst.
    destruct additive, q'; unfold g_cov, g_mean; lay_cbn; repeat step; finish2.
Qed.

Lemma case_ukfc_safe additive lp comps r valid lm again online :
  ukfc_valid additive lp r valid lm ->
  run (case_ukfc additive lp comps r valid lm (lcov lm) lp comps again online) = Safe.
Proof.
  intro Hv. apply run_safe_iff. unfold case_ukfc. cbv zeta.
  apply Forall_app; split; [apply utweight_ok|].
  apply Forall_app; split; [apply ukf_correct_ok; exact Hv|].
  apply Forall_app; split; apply Forall_when; intro; [apply ukf_lik_ok|].
  apply ukf_correct_ok. destruct Hv as (? & ? & ? & ?). repeat split; assumption.
Qed.

(* the configuration class on which the statement fails: quaternion states *)
Lemma ukfc_quaternion_state_refuted :
  run (case_ukfc true (Lay 2 1 true 0) 1 2 true (Lay 2 0 false 0) 2 (Lay 2 1 true 0) 1 false false)
  = Fails e_ukfc "pred.mean(i)+K*innovation".
Proof. vm_compute. reflexivity. Qed.

(* ---------- SUKFCorrection on linear / Euler states ---------- *)
Lemma uvr_ok e r c s bs rc : 0 < bs -> (rc = bs \/ rc = r) ->
  Forall item_ok (p_uvr e r c r r s s r bs rc).
Proof.
  intros Hbs Hrc. unfold p_uvr. cbv zeta.
  repeat step; finish;
    try (match goal with H : _ < _ / bs |- _ => pose proof (div_slot _ _ _ Hbs H) end; lia).
Qed.

(* the noise covariance handed to the step: the full msz x msz one, or (reduced) one sub x sub block *)
Definition sukf_r (reduced : bool) (msz sub : nat) : nat := if reduced then sub else msz.

Lemma sukf_lik_ok reduced lp comps msz sub : 0 < sub ->
  Forall item_ok (p_sukf_lik reduced lp comps msz sub (sukf_r reduced msz sub) msz).
Proof.
  intro Hs. unfold p_sukf_lik, sukf_r. cbv zeta. destruct reduced; repeat step; try (apply uvr_ok; auto); finish;
    try (match goal with H : _ < _ / sub |- _ => pose proof (div_slot _ _ _ Hs H) end; lia).
Qed.

Lemma case_sukf_safe reduced lp comps msz sub again :
  quat lp = false -> noise lp = 0 -> 0 < sub ->
  run (case_sukf reduced lp comps msz sub (sukf_r reduced msz sub) msz lp comps again) = Safe.
Proof.
  intros Hq Hn Hsub. apply run_safe_iff. unfold case_sukf, p_sukf, sukf_runs, sukf_r. cbv zeta.
  apply Forall_app; split; [apply utweight_ok|].
  apply Forall_app; split; [|apply Forall_app; split].
  - apply Forall_app; split; [repeat step; finish|]. apply Forall_when; intro Hr; b2p.
    apply Forall_app; split; [apply sigma_ok|].
    destruct lp as [L C q N]; simpl in *; subst. unfold g_cov, g_mean. lay_cbn.
    destruct reduced; repeat step; finish2;
      try (match goal with Hs : 0 < ?s, H : _ < _ / ?s |- _ => pose proof (div_slot _ _ _ Hs H) end; lia).
  - apply Forall_when; intro. apply sukf_lik_ok; assumption.
  - apply Forall_when; intro. apply Forall_app; split; [repeat step; finish|]. apply Forall_when; intro. apply sigma_ok.
Qed.

Lemma sukf_quaternion_state_refuted :
  run (case_sukf false (Lay 2 1 true 0) 1 2 1 2 2 (Lay 2 1 true 0) 1 false)
  = Fails e_sukf "propagated.middleCols(size_sigmas*i,size_sigmas)".
Proof. vm_compute. reflexivity. Qed.
(* a sub-measurement size of 0 is accepted by the (noexcept) constructor; the step then computes meas_size % 0 *)
Lemma sukf_zero_sub_size_refuted :
  run (case_sukf false (Lay 3 0 false 0) 1 2 0 2 2 (Lay 3 0 false 0) 1 false)
  = Fails e_sukf "meas_size % measurement_sub_size_".
Proof. vm_compute. reflexivity. Qed.

(* ---------- Resampling ---------- *)
Lemma resample_ok e l n : 0 < n -> Forall item_ok (p_resample e l n l n n).
Proof.
  intro Hn. unfold p_resample, g_cov, g_mean. repeat step; finish2.
Qed.
Lemma case_resample_safe l n : 0 < n -> run (case_resample l n l n n) = Safe.
Proof. intro. apply run_safe_iff. unfold case_resample. repeat step; [finish | apply resample_ok; assumption]. Qed.

Lemma case_resprior_safe l n k : noise l = 0 -> k < n ->
  run (case_resprior l n k n) = Safe.
Proof.
  intros Hn Hk. apply run_safe_iff. unfold case_resprior, p_resample_prior. cbv zeta.
  destruct l as [L C q N]; simpl in *; subst. destruct q;
  repeat step; try (apply resample_ok; lia); unfold g_cov; finish2.
Qed.
(* ---------- density utilities ---------- *)
Lemma case_density_safe r c : run (case_density r c r r r) = Safe.
Proof. apply run_safe_iff, density_ok. Qed.
Lemma case_uvr_safe r c s bs rc : 0 < bs -> (rc = bs \/ rc = r) ->
  run (case_uvr r c r r s s r bs rc) = Safe.
Proof. intros. apply run_safe_iff, uvr_ok; assumption. Qed.

(* ---------- EstimatesExtraction: any number of calls ---------- *)
Lemma ext_mean_ok el ec n : Forall item_ok (p_ext_mean el ec (el + ec) n n).
Proof. unfold p_ext_mean. repeat step; finish. Qed.

Definition ext_valid (stat el ec pr n wn pw ln tr tc : nat) : Prop :=
  pr = el + ec /\ wn = n /\ 0 < n /\ (stat >= 2 -> pw = tc /\ ln = n /\ tr = n /\ 0 < tc).

Lemma ext_stat_ok stat el ec pr n wn pw ln tr tc :
  ext_valid stat el ec pr n wn pw ln tr tc ->
  Forall item_ok (p_ext_stat stat el ec pr n wn pw ln tr tc).
Proof.
  intros (-> & -> & Hn & Hm). unfold p_ext_stat. destruct stat as [|[|s]].
  - apply ext_mean_ok.
  - unfold p_ext_mode. repeat step; finish.
  - destruct (Hm ltac:(lia)) as (-> & -> & -> & Ht). unfold p_ext_map. repeat step; finish.
Qed.

Lemma ext_call_ok stat avg el ec pr n wn pw ln tr tc hs :
  ext_valid stat el ec pr n wn pw ln tr tc ->
  Forall item_ok (fst (p_ext_call stat avg el ec pr n wn pw ln tr tc hs)).
Proof.
  intro Hv. pose proof (ext_stat_ok _ _ _ _ _ _ _ _ _ _ Hv) as Hs. unfold p_ext_call. cbv zeta.
  destruct avg; [exact Hs|].
  pose proof (h_step_ok (el + ec) hs (HAdd (ext_stat_rows stat el ec pr))) as Hh.
  destruct (h_step (el + ec) hs (HAdd (ext_stat_rows stat el ec pr))) as [pa hs'] eqn:E. simpl in Hh. simpl.
  destruct Hv as (-> & _).
  assert (ext_stat_rows stat el ec (el + ec) = el + ec) as -> by (destruct stat; reflexivity).
  repeat step; try exact Hs; try exact Hh; try apply ext_mean_ok; finish.
Qed.

Lemma ext_calls_ok calls stat avg el ec pr n wn pw ln tr tc :
  ext_valid stat el ec pr n wn pw ln tr tc ->
  forall hs, Forall item_ok (p_ext_calls calls stat avg el ec pr n wn pw ln tr tc hs).
Proof.
  intro Hv. induction calls as [|c IH]; intro hs; simpl; [constructor|].
  pose proof (ext_call_ok stat avg el ec pr n wn pw ln tr tc hs Hv) as Hc.
  destruct (p_ext_call stat avg el ec pr n wn pw ln tr tc hs) as [p hs']. simpl in Hc.
  apply Forall_app; split; [exact Hc | apply IH].
Qed.

Lemma case_extract_safe w calls stat avg el ec pr n wn pw ln tr tc :
  ext_valid stat el ec pr n wn pw ln tr tc ->
  run (case_extract w calls stat avg el ec pr n wn pw ln tr tc) = Safe.
Proof.
  intro Hv. apply run_safe_iff. unfold case_extract.
  destruct (pos w).
  - pose proof (h_set_ok "EstimatesExtraction::setMobileAverageWindowSize" h_init w) as H0.
    destruct (h_set "EstimatesExtraction::setMobileAverageWindowSize" h_init w) as [p0 hs]. simpl in H0.
    apply Forall_app; split; [exact H0 | apply ext_calls_ok; exact Hv].
  - simpl. apply ext_calls_ok; exact Hv.
Qed.

(* ---------- EstimatesExtraction: EVERY operation sequence on one object ---------- *)
(* what "valid" means for one operation: the arguments of extract have the declared shapes *)
Definition xop_valid (el ec : nat) (o : xop) : Prop :=
  match o with
  | XExtract full pr n wn pw ln tr tc =>
      pr = el + ec /\ wn = n /\ 0 < n /\ (full = true -> pw = tc /\ ln = n /\ tr = n /\ 0 < tc)
  | _ => True
  end.

(* invariant of the object: the window is at least 2, every stored estimate has state_size_ rows, and there are
   as many of them as the buffer says.  NOTHING is assumed about the three cached weight vectors: whatever
   their lengths, the call that uses one brings it to the number of stored estimates first. *)
Definition x_inv (ssz : nat) (s : xstate) : Prop :=
  2 <= hwin (xh s) /\ Forall (fun e => e = ssz) (xels s) /\ List.length (xels s) <= hsz (xh s).

Lemma h_get_ok e ssz k els : Forall (fun x => x = ssz) els -> List.length els <= k ->
  Forall item_ok (p_h_get e ssz k els).
Proof.
  intros Hels Hlen. unfold p_h_get. apply Forall_flat_map, Forall_forall. intros [i e0] Hin.
  pose proof (in_combine_l _ _ _ _ Hin) as Hi. pose proof (in_combine_r _ _ _ _ Hin) as He.
  apply in_seq in Hi. rewrite Forall_forall in Hels. specialize (Hels _ He). simpl.
  repeat step; finish.
Qed.

Lemma avg_tail_ok avg el ec k c : 0 < k ->
  Forall item_ok (fst (x_avg_tail avg el ec k c c)) /\ snd (x_avg_tail avg el ec k c c) = k.
Proof.
  intro Hk. unfold x_avg_tail. cbv zeta. cbn [fst snd].
  destruct (c =? k) eqn:E.
  - b2p. subst c. split; [|reflexivity]. simpl. apply ext_mean_ok.
  - split; [|reflexivity]. apply Forall_app; split; [|apply ext_mean_ok].
    cbn [negb when]. destruct avg as [|[|a]]; repeat step; finish.
Qed.

Lemma h_set_win e s w : 2 <= hwin s -> 2 <= hwin (snd (h_set e s w)).
Proof.
  intro H. unfold h_set, h_target. destruct (w =? hwin s) eqn:E; cbn [snd hwin]; [exact H|].
  destruct (w <? 2) eqn:E2; [lia|]. destruct (h_max <=? w) eqn:E3; unfold h_max in *; b2p; lia.
Qed.

Lemma x_inv_cache avg s h els c ssz :
  x_inv ssz (XS (xstat s) (xavg s) h els (xsm s) (xwm s) (xem s)) -> x_inv ssz (x_set_cache avg s h els c).
Proof. unfold x_inv. destruct avg as [|[|[|a]]]; simpl; auto. Qed.

Lemma x_step_ok el ec s o : xop_valid el ec o -> x_inv (el + ec) s ->
  Forall item_ok (fst (fst (x_step el ec s o))) /\ x_inv (el + ec) (snd (fst (x_step el ec s o))).
Proof.
  intros Hv Hinv. pose proof Hinv as (Hw & Hels & Hlen).
  destruct o as [stat avg | w | | full pr n wn pw ln tr tc]; unfold x_step; cbv zeta.
  - split; [constructor | exact Hinv].
  - destruct (pos w).
    + pose proof (h_set_ok e_ext_win (xh s) w) as H0. pose proof (h_set_win e_ext_win (xh s) w Hw) as H1.
      destruct (h_set e_ext_win (xh s) w) as [p h']. cbn [fst snd] in *. split; [exact H0|].
      repeat split; cbn [xh xels]; [exact H1 | apply Forall_firstn; exact Hels | apply firstn_le_length].
    + split; [constructor | exact Hinv].
  - split; [constructor|]. cbn [fst snd]. repeat split; cbn [xh xels hwin hsz List.length]; auto.
  - destruct Hv as (-> & -> & Hn & Hfull).
    destruct ((2 <=? xstat s) && negb full) eqn:Eg; [split; [constructor | exact Hinv]|].
    assert (Hev : ext_valid (xstat s) el ec (el + ec) n n pw ln tr tc).
    { unfold ext_valid. split; [reflexivity|]. split; [reflexivity|]. split; [exact Hn|]. intro Hs. apply Hfull.
      destruct full; [reflexivity|]. apply andb_false_iff in Eg. destruct Eg as [Eg|Eg]; [b2p; lia | discriminate]. }
    pose proof (ext_stat_ok _ _ _ _ _ _ _ _ _ _ Hev) as Hs.
    assert (Hcur : ext_stat_rows (xstat s) el ec (el + ec) = el + ec) by (destruct (xstat s); reflexivity).
    rewrite Hcur.
    destruct (xavg s) as [|a] eqn:Ea; [split; [exact Hs | exact Hinv]|].
    pose proof (h_step_ok (el + ec) (xh s) (HAdd (el + ec))) as Hh.
    assert (Hk : 0 < hsz (snd (h_step (el + ec) (xh s) (HAdd (el + ec)))) /\
                 2 <= hwin (snd (h_step (el + ec) (xh s) (HAdd (el + ec))))).
    { cbn [h_step]. destruct (hwin (xh s) <? S (hsz (xh s))) eqn:E; cbn [snd hsz hwin]; b2p; lia. }
    destruct (h_step (el + ec) (xh s) (HAdd (el + ec))) as [pa h']. cbn [fst snd] in *. destruct Hk as (Hk & Hw').
    pose proof (avg_tail_ok (S a) el ec (hsz h') (x_cache (S a) s) Hk) as (Ht & Hc).
    destruct (x_avg_tail (S a) el ec (hsz h') (x_cache (S a) s) (x_cache (S a) s)) as [pt c']. cbn [fst snd] in *.
    assert (Hels' : Forall (fun e => e = el + ec) (firstn (hsz h') ((el + ec) :: xels s)))
      by (apply Forall_firstn; constructor; [reflexivity | exact Hels]).
    split.
    + repeat step; try exact Hs; try exact Hh; try exact Ht.
      apply h_get_ok; [exact Hels' | apply firstn_le_length].
    + apply x_inv_cache. repeat split; cbn [xh xels]; [exact Hw' | exact Hels' | apply firstn_le_length].
Qed.

Lemma x_run_ok el ec ops : Forall (xop_valid el ec) ops ->
  forall s, x_inv (el + ec) s -> Forall item_ok (fst (fst (x_run el ec s ops))).
Proof.
  induction 1 as [|o r Ho Hr IH]; intros s Hs; simpl; [constructor|].
  pose proof (x_step_ok el ec s o Ho Hs) as (Hp & Hs').
  destruct (x_step el ec s o) as [[p s'] ob]. cbn [fst snd] in *.
  specialize (IH s' Hs'). destruct (x_run el ec s' r) as [[p2 ob2] w2]. cbn [fst snd] in *.
  apply Forall_app; split; assumption.
Qed.

Lemma x_init_inv ssz : x_inv ssz x_init.
Proof. unfold x_inv, x_init, h_init; simpl. repeat split; [lia | constructor | lia]. Qed.

Lemma case_extseq_safe el ec ops : Forall (xop_valid el ec) ops -> run (case_extseq el ec ops) = Safe.
Proof. intro H. apply run_safe_iff. unfold case_extseq. apply x_run_ok; [exact H | apply x_init_inv]. Qed.

(* the cached weight vector a windowed call multiplies with has one entry per stored estimate afterwards:
   the length the call leaves in its family's cache is the number of history columns, whatever it was before *)
Lemma x_avg_tail_len avg el ec k c : snd (x_avg_tail avg el ec k c c) = k.
Proof. unfold x_avg_tail. cbn [snd]. destruct (c =? k) eqn:E; b2p; congruence. Qed.

(* ---------- augmentWithNoise (GaussianMixture part and the ParticleSet override) ---------- *)
Lemma augment_ok l comps qr qc : Forall item_ok (p_augment l comps qr qc).
Proof.
  unfold p_augment. apply Forall_app; split; [apply augment_gm_ok|]. unfold aug_ret.
  destruct l as [L C q N]; destruct q; lay_cbn; repeat step; finish2.
Qed.
Lemma case_psaug_safe l comps qr qc qr2 qc2 : run (case_psaug l comps qr qc qr2 qc2) = Safe.
Proof.
  apply run_safe_iff. unfold case_psaug. cbv zeta. repeat step; try apply augment_ok; apply sigma_ok.
Qed.

(* ---------- statements that are false of the code (open items) ---------- *)
(* an empty noise covariance gives block_size = 0 in the UVR density: input_size / 0 *)
Lemma uvr_zero_block_size_refuted : run (case_uvr 2 1 2 2 3 3 2 0 0) = Fails e_uvr "input_size / block_size".
Proof. vm_compute. reflexivity. Qed.
