(* Properties_C03.v — property C03 (stub while the pipeline is brought up). *)
Require Import ZArith QArith List.
Require Import BFL.Ops BFL.ListOps BFL.C03_Model.
From mathcomp Require Import all_ssreflect all_algebra.
Require Import BFL.MxOps BFL.LinAlg BFL.C03_Proofs.

Theorem C03_failure_propagates (O : MatOps) Lin Lout d dc p pc dx (w : utw O)
      (comps : list (M O d 1 * M O dc dc)) (f : list (M O d 1) -> option (list (M O p 1))) :
  f (sigma_points Lin d dc (w_c w) comps) = None ->
  ut_generic Lin Lout pc dx w comps f = None.
Proof. exact: ut_generic_failure. Qed.

Print Assumptions C03_failure_propagates.
