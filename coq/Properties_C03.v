(* Properties_C03.v — property C03: the unscented transform preserves moments
   and is exact for affine maps.  Statements only; each is closed by a lemma
   of C03_Proofs.  F is an arbitrary realFieldType; tr carries the (uninterpreted)
   scalar functions, sq the SVD square-root oracle, eg the eigenvector oracle.
   The theorems below cover the linear layout with or without appended noise
   rows (linear_layout L d: no circular component, l_lin L + l_noise L = d), any
   dimension, any mixture, any PSD covariance (singular included), any
   (alpha, beta, kappa) with c = n + lambda > 0.  The oracles enter only through
   their contracts, stated as premises:
     sqrt_contract : 0 <= x -> sqrt x * sqrt x = x
     sq_contract   : psd P -> sq n P *m (sq n P)^T = P.
   Circular (Euler) rows and quaternion blocks: this file proves the first sigma point for every layout
   (C03_first_sigma_point_partial, MathComp instance, transcendental functions uninterpreted) and, at the
   Coq-reals instance (the four standard real-number axioms), the per-row / per-block facts C03_circular_row
   and C03_quaternion_block on top of C19 and C18.  The WHOLE-LAYOUT statements for these layouts (moments
   preserved, exactness on affine maps for whole mixtures and all overloads, smallness premises explicit) are
   in Properties_C03_Real.v (theorems C03_euler_... and C03_quat_...), which is part of this check (EXTRA_PROPERTIES). *)
Require Import ZArith QArith List.
Require Import BFL.Ops BFL.ListOps BFL.C03_Model.
From mathcomp Require Import all_ssreflect all_algebra.
Require Import BFL.MxOps BFL.LinAlg BFL.C03_Proofs BFL.C03_Circular.
Require BFL.C03_Real.
Require Import BFL.ListOpsCorrect BFL.C02_Transport BFL.C03_Transport.
Import Order.Theory GRing.Theory Num.Theory.
Local Open Scope ring_scope.

Section C03.
Variable F : realFieldType.
Variable tr : Transc F.
Variable sq : forall n, 'M[F]_n -> 'M[F]_n.
Variable eg : forall n, 'M[F]_n -> 'M[F]_(n,1).
Let O := MxMat tr sq eg.

(* weights sum to one whenever n + lambda <> 0 *)
Theorem C03_weights_sum (n : nat) (alpha beta kappa : F) :
  n%:R + (alpha * alpha * (n%:R + kappa) - n%:R) != 0 ->
  ssum (FOps tr) (w_mean (ut_weights (O:=O) n alpha beta kappa)) = 1.
Proof. exact: ut_weights_sum. Qed.

(* 2n+1 weights of each kind; c = n + lambda = alpha^2 (n + kappa) *)
Theorem C03_weights_shape (n : nat) (alpha beta kappa : F) :
  [/\ length (w_mean (ut_weights (O:=O) n alpha beta kappa)) = Nat.add (Nat.mul 2 n) 1,
      length (w_cov (ut_weights (O:=O) n alpha beta kappa)) = Nat.add (Nat.mul 2 n) 1 &
      w_c (ut_weights (O:=O) n alpha beta kappa) = alpha * alpha * (n%:R + kappa)].
Proof. exact: ut_weights_shape. Qed.

(* sigma points: 2d+1 of them, the first is the mean, and under the weights they
   reproduce the mean and the covariance they were drawn from *)
Theorem C03_sigma_moments_linear (L : layout) (d : nat) (alpha beta kappa : F)
        (m : 'cV[F]_d) (P : 'M[F]_d) :
  linear_layout L d ->
  let w := ut_weights (O:=O) d alpha beta kappa in
  w_c w != 0 -> t_sqrt tr (w_c w) * t_sqrt tr (w_c w) = w_c w ->
  sq d P *m (sq d P)^T = P ->
  let Xs := sigma_comp (O:=O) L d d (w_c w) m P in
  [/\ length Xs = Nat.add (Nat.mul 2 d) 1,
      forall x, List.nth 0 Xs x = m,
      wsum (O:=O) (w_mean w) Xs = m &
      wouter (O:=O) (w_cov w) (List.map (fun x => x - m) Xs) (List.map (fun x => x - m) Xs) = P].
Proof. by move=> HL w cp sc fo; exact: sigma_moments_linear. Qed.

(* exactness on affine maps, whole mixture, generic overload: mean A m + b,
   covariance A P A^T, cross-covariance = the non-noise rows of P A^T; the output
   mixture has as many components, in the same order, and uniform weights *)
Theorem C03_affine_exact (Lin Lout : layout) (d dx p : nat) (alpha beta kappa : F)
        (A : 'M[F]_(p,d)) (b : 'cV[F]_p) (comps : list ('cV[F]_d * 'M[F]_d)) :
  linear_layout Lin d -> l_lin Lin = dx -> l_lin Lout = p ->
  let w := ut_weights (O:=O) d alpha beta kappa in
  w_c w != 0 -> t_sqrt tr (w_c w) * t_sqrt tr (w_c w) = w_c w ->
  (forall mc, In mc comps -> sq d mc.2 *m (sq d mc.2)^T = mc.2) ->
  ut_generic (O:=O) Lin Lout p dx w comps (fun X => Some (affine_cols (O:=O) A b X)) =
  Some (mkUtResult (O:=O)
          (List.map (fun mc => mkUtComp (O:=O) (A *m mc.1 + b : 'cV[F]_p) (A *m mc.2 *m A^T + 0)
                                        (sel F d dx *m mc.2 *m A^T)) comps)
          (repeat (1 / (length comps)%:R) (length comps))).
Proof. by move=> HL Hdx HLo w cp sc fo; exact: ut_generic_affine. Qed.

(* the StateModel and MeasurementModel overloads are the generic one; the two StateModel
   overloads (this one and the additive one below) have no failure path: their wrapped
   function always reports success and the caller discards the validity flag *)
Theorem C03_affine_exact_models (Lin Lout : layout) (d dx p : nat) (alpha beta kappa : F)
        (A : 'M[F]_(p,d)) (b : 'cV[F]_p) (comps : list ('cV[F]_d * 'M[F]_d)) :
  linear_layout Lin d -> l_lin Lin = dx -> l_lin Lout = p ->
  let w := ut_weights (O:=O) d alpha beta kappa in
  w_c w != 0 -> t_sqrt tr (w_c w) * t_sqrt tr (w_c w) = w_c w ->
  (forall mc, In mc comps -> sq d mc.2 *m (sq d mc.2)^T = mc.2) ->
  let r := mkUtResult (O:=O) (List.map (affine_image tr sq eg dx A b 0) comps)
                      (repeat (1 / (length comps)%:R) (length comps)) in
  ut_state (O:=O) Lin Lout p dx w comps (affine_cols (O:=O) A b) = r /\
  ut_meas (O:=O) Lin Lout p dx w comps (fun X => Some (affine_cols (O:=O) A b X)) = Some r.
Proof. by move=> HL Hdx HLo w cp sc fo; exact: ut_models_affine. Qed.

(* additive overloads: the noise covariance is added once to every component *)
Theorem C03_affine_exact_additive (Lin Lout : layout) (d dx p : nat) (alpha beta kappa : F)
        (A : 'M[F]_(p,d)) (b : 'cV[F]_p) (N : 'M[F]_p) (comps : list ('cV[F]_d * 'M[F]_d)) :
  linear_layout Lin d -> l_lin Lin = dx -> l_lin Lout = p ->
  let w := ut_weights (O:=O) d alpha beta kappa in
  w_c w != 0 -> t_sqrt tr (w_c w) * t_sqrt tr (w_c w) = w_c w ->
  (forall mc, In mc comps -> sq d mc.2 *m (sq d mc.2)^T = mc.2) ->
  let r := mkUtResult (O:=O)
             (List.map (fun mc => mkUtComp (O:=O) (A *m mc.1 + b : 'cV[F]_p) (A *m mc.2 *m A^T + N)
                                           (sel F d dx *m mc.2 *m A^T)) comps)
             (repeat (1 / (length comps)%:R) (length comps)) in
  ut_additive_state (O:=O) Lin Lout p dx w comps (affine_cols (O:=O) A b) N = r /\
  ut_additive_meas (O:=O) Lin Lout p dx w comps (fun X => Some (affine_cols (O:=O) A b X)) N = Some r.
Proof. by move=> HL Hdx HLo w cp sc fo; exact: ut_additive_affine. Qed.

(* augmented variant: belief augmented with the noise statistics, f [x; w] = A x + B w + b *)
Theorem C03_affine_exact_augmented (Lin Lout : layout) (n q p : nat) (alpha beta kappa : F)
        (A : 'M[F]_(p,n)) (B : 'M[F]_(p,q)) (b : 'cV[F]_p) (Q : 'M[F]_q)
        (comps : list ('cV[F]_n * 'M[F]_n)) :
  linear_layout Lin (n + q) -> l_lin Lin = n -> l_lin Lout = p ->
  let w := ut_weights (O:=O) (n + q) alpha beta kappa in
  w_c w != 0 -> t_sqrt tr (w_c w) * t_sqrt tr (w_c w) = w_c w ->
  (forall mc, In mc comps ->
     sq (n + q) (block_mx mc.2 0 0 Q) *m (sq (n + q) (block_mx mc.2 0 0 Q))^T = block_mx mc.2 0 0 Q) ->
  ut_generic (O:=O) Lin Lout p n w (List.map (augment_comp (O:=O) Q) comps)
             (fun X => Some (affine_cols (O:=O) (row_mx A B) b X)) =
  Some (mkUtResult (O:=O)
          (List.map (fun mc => mkUtComp (O:=O) (A *m mc.1 + b : 'cV[F]_p)
                                        (A *m mc.2 *m A^T + B *m Q *m B^T + 0) (mc.2 *m A^T)) comps)
          (repeat (1 / (length comps)%:R) (length comps))).
Proof. by move=> HL Hn HLo w cp sc fo; exact: ut_generic_affine_augmented. Qed.

(* every layout (Euler-circular rows, quaternion blocks, noise rows), every dimension and
   covariance, whatever the square-root oracle returns: the first sigma point of a
   component is its mean — exactly on linear, quaternion and noise rows, and
   arg(exp(j m_i)) on Euler rows.  PARTIAL for the property's circular / quaternion
   clauses in that it says nothing about the other sigma points: moment preservation and
   affine exactness on circular and quaternion rows for spreads within a half turn are
   proved over Coq's reals in Properties_C03_Real.v (C03_euler_sigma_moments,
   C03_euler_affine_exact_small_cov, C03_quat_affine_exact). *)
Theorem C03_first_sigma_point_partial (L : layout) (c : F) (m : 'cV[F]_(l_dim L)) (P : 'M[F]_(l_dcov L)) x :
  List.nth 0 (sigma_comp (O:=O) L (l_dim L) (l_dcov L) c m P) x =
  \matrix_(i, j) (if euler_row L i then C03_Model.wrap (O:=O) (m i 0) else m i j).
Proof. exact: first_sigma_point. Qed.
End C03.

(* a failed function evaluation is reported as failure, never as a belief:
   every arithmetic instance, every layout, every overload that can fail *)
Theorem C03_failure_propagates (O : MatOps) Lin Lout d dc p pc dx (w : utw O)
        (comps : list (M O d 1 * M O dc dc)) (f : list (M O d 1) -> option (list (M O p 1))) R :
  f (sigma_points Lin d dc (w_c w) comps) = None ->
  [/\ ut_generic Lin Lout pc dx w comps f = None,
      ut_meas Lin Lout pc dx w comps f = None &
      ut_additive_meas Lin Lout pc dx w comps f R = None].
Proof. exact: ut_failure_all. Qed.

(* ... and a successful one is never reported as failure *)
Theorem C03_success_propagates (O : MatOps) Lin Lout d dc p pc dx (w : utw O)
        (comps : list (M O d 1 * M O dc dc)) (f : list (M O d 1) -> option (list (M O p 1))) Y :
  f (sigma_points Lin d dc (w_c w) comps) = Some Y ->
  ut_generic Lin Lout pc dx w comps f =
  Some (ut_core Lin Lout pc dx w comps (sigma_points Lin d dc (w_c w) comps) Y).
Proof. exact: ut_generic_success. Qed.

(* non-vacuity: the layout premise is the layout the entry points compute
   (l_dim = l_dcov = n + q, l_dx = n for a linear layout with q noise rows) *)
Example C03_layout_premise (n q : nat) :
  let L := mkLayout n 0 false q in
  linear_layout L (n + q) /\ l_dim L = (n + q)%N /\ l_dcov L = (n + q)%N /\ l_dx L = n /\ l_lin L = n.
Proof. by []. Qed.

(* ... the oracle premises follow from the usual contracts (c > 0 and a square root that
   is one on non-negative arguments; a PSD covariance and a factor oracle that is one on
   PSD matrices) — here for alpha = 1, kappa = 0, where c = n + 1 *)
Example C03_weight_premise (F : realFieldType) (tr : Transc F) sq eg (n : nat) (beta : F) :
  (forall x : F, 0 <= x -> t_sqrt tr x * t_sqrt tr x = x) ->
  let w := ut_weights (O:=MxMat tr sq eg) n.+1 1 beta 0 in
  w_c w != 0 /\ t_sqrt tr (w_c w) * t_sqrt tr (w_c w) = w_c w.
Proof.
move=> Hs w; have cp : 0 < w_c w by rewrite ut_weights_c ut_weights_c_alt !mul1r addr0 ltr0n.
by split; [rewrite gt_eqF | apply: Hs; apply: ltW].
Qed.

(* ... and they are satisfiable at the MathComp instance itself, over the rationals, with
   an explicit exact factor: d = 2, alpha = 1, kappa = 2 (c = 4, sqrt c = 2), covariance
   P = 4 I with factor 2 I; the theorem then yields the closed form for y = A x + b *)
Definition rat_tr : Transc [realFieldType of rat] :=
  @mkTransc [realFieldType of rat] (fun x => if x == 4%:R then 2%:R else 0) id id id id id (fun y _ => y) 3%:R 0.
Definition rat_sq (n : nat) (P : 'M[rat]_n) : 'M[rat]_n := 2%:R%:M.
Definition rat_eg (n : nat) (P : 'M[rat]_n) : 'M[rat]_(n,1) := 0.
Example C03_premises_rat (A : 'M[rat]_(1,2)) (b : 'cV[rat]_1) (x : 'cV[rat]_2) :
  let O := MxMat rat_tr rat_sq rat_eg in
  let L := mkLayout 2 0 false 0 in
  let w := ut_weights (O:=O) 2 1 0 2%:R in
  let P : 'M[rat]_2 := 4%:R%:M in
  ut_generic (O:=O) L (mkLayout 1 0 false 0) 1 2 w [:: (x, P)]
             (fun X => Some (affine_cols (O:=O) A b X)) =
  Some (mkUtResult (O:=O)
          [:: mkUtComp (O:=O) (A *m x + b : 'cV[rat]_1) (A *m P *m A^T + 0)
                       (sel [realFieldType of rat] 2 2 *m P *m A^T)]
          (repeat (1 / 1%:R) 1)).
Proof.
move=> O L w P.
have Hc : w_c w = 4%:R by rewrite ut_weights_c ut_weights_c_alt !mul1r -natrD.
apply: (@C03_affine_exact [realFieldType of rat] rat_tr rat_sq rat_eg L (mkLayout 1 0 false 0) 2 2 1 1 0 2%:R A b [:: (x, P)]) => //.
by move=> mc [<-|[]] /=; rewrite /rat_sq /P tr_scalar_mx -scalar_mxM -natrM.
Qed.

(* ... and the executable instance of the same model, run over exact rationals
   with a square-root oracle returning an exact factor (P = A A^T, A = [[2,0],[1,1]],
   c = 4 so that sqrt c = 2 is exact: alpha = 1, kappa = 2, n = 2), reproduces the
   moments and the affine closed form y = [1 2] x + 3: mean 2, covariance 20 = A P A^T,
   cross-covariance P A^T = [8; 6]. *)
Definition QsqOps : SOps :=
  {| T := Q; s0 := s0 QOps; s1 := s1 QOps; sadd := sadd QOps; ssub := ssub QOps; smul := smul QOps; sdiv := sdiv QOps;
     sopp := sopp QOps; sleb := sleb QOps; sltb := sltb QOps; sofZ := sofZ QOps;
     ssqrt := fun x => if Qeq_bool x (4#1) then (2#1) else x;
     sexp := sexp QOps; sln := sln QOps; scos := scos QOps; ssin := ssin QOps; sacos := sacos QOps;
     satan2 := satan2 QOps; spi := spi QOps; stiny := stiny QOps |}.
Definition QM3 := ListMat QsqOps (fun _ _ => [:: [:: 2#1; 0#1]; [:: 1#1; 1#1]]%Q) (fun _ A => A).
Example C03_concrete_Q :
  let L := mkLayout 2 0 false 0 in
  let Lo := mkLayout 1 0 false 0 in
  let P := [:: [:: 4#1; 2#1]; [:: 2#1; 2#1]]%Q in
  let m := [:: [:: 1#1]; [:: -1#1]]%Q in
  let w := @ut_weights QM3 2 (1#1)%Q (2#1)%Q (2#1)%Q in
  let Xs := @sigma_comp QM3 L 2 2 (w_c w) m P in
  let r := @ut_generic QM3 L Lo 2 2 1 1 2 w [:: (m, P)]
             (fun X => Some (@affine_cols QM3 2 1 [:: [:: 1#1; 2#1]]%Q [:: [:: 3#1]]%Q X)) in
  Qeq_bool (w_c w) (4#1) && qmx_eqb (@wsum QM3 2 (w_mean w) Xs) m
  && qmx_eqb (@wouter QM3 2 2 (w_cov w) (List.map (fun x => @msub QM3 2 1 x m) Xs)
                      (List.map (fun x => @msub QM3 2 1 x m) Xs)) P
  && match r with
     | Some r => match ur_comps r with
                 | [:: u] => qmx_eqb (uc_mean u) [:: [:: 2#1]]%Q && qmx_eqb (uc_cov u) [:: [:: 20#1]]%Q
                             && qmx_eqb (uc_cross u) [:: [:: 8#1]; [:: 6#1]]%Q
                 | _ => false
                 end
     | None => false
     end = true.
Proof. vm_compute. reflexivity. Qed.

(* ---- transport: the structural core executed at the LIST instance (the one that is extracted
   and run) represents what the same definitions compute at the MathComp instance, on
   well-formed inputs, over any realFieldType: only rounding separates the two.  Not covered:
   the per-row builders (mbuild over mget), chunking, the square-root / eigenvector oracles. *)
Theorem C03_transport_weighted_sums (F : realFieldType) (tr : Transc F) sq eg (r a b : nat) (ws : list F)
        ls (As : list 'cV[F]_r) lu (Us : list 'cV[F]_a) lv (Vs : list 'cV[F]_b) :
  let OL := ListMat (FOps tr) (fun _ X => X) (fun _ X => X) in
  let OM := MxMat tr sq eg in
  repr_cols ls As -> repr_cols lu Us -> repr_cols lv Vs ->
  repr (@wsum OL r ws ls) (@wsum OM r ws As : 'cV[F]_r) /\
  repr (@wouter OL a b ws lu lv) (@wouter OM a b ws Us Vs : 'M[F]_(a,b)).
Proof. by move=> OL OM H1 H2 H3; split; [exact: wsum_transport | exact: wouter_transport]. Qed.

Theorem C03_transport_affine_map (F : realFieldType) (tr : Transc F) sq eg (d p : nat)
        lA (A : 'M[F]_(p,d)) lb (b : 'cV[F]_p) ls (Xs : list 'cV[F]_d) :
  repr lA A -> repr lb b -> repr_cols ls Xs ->
  repr_cols (@affine_cols (ListMat (FOps tr) (fun _ X => X) (fun _ X => X)) d p lA lb ls)
            (@affine_cols (MxMat tr sq eg) d p A b Xs).
Proof. exact: affine_cols_transport. Qed.

(* ---- circular rows and quaternion blocks at the Coq-reals instance (World B) ---- *)
Require Import Reals.
Section C03Real.
Local Open Scope R_scope.
Import C03_Real C19_ROps C19_Proofs C18_Proofs.

(* One Euler row of a component's sigma points: mean angle m, tangent perturbations
   0, +p_k, -p_k (the row of [0 | sqrt(c) A | -sqrt(c) A]) with every |p_k| within a half
   turn, weights w0 :: wi ... wi, and a positive weighted resultant w0 + 2 wi sum cos p_k
   (stated, not hidden: w0 is negative for small alpha).  Then the directional mean of
   the row is arg(exp(j m)) and directional_sub recovers every perturbation exactly: the
   row contributes to the covariance sums exactly as a linear row does. *)
Theorem C03_circular_row (m w0 wi : R) (ps : list R) :
  let perts := 0 :: app ps (List.map Ropp ps) in
  let xs := List.map (fun p => C03_Model.dir_add (O:=RM) p m) perts in
  let ws := w0 :: repeat wi (Nat.add (length ps) (length ps)) in
  Forall in_range ps -> Forall (fun p => in_range (- p)) ps -> ps <> nil ->
  0 < w0 + 2 * wi * fold_right (fun p acc => cos p + acc) 0 ps ->
  C03_Model.dir_mean (O:=RM) ws xs = C19_Model.wrap ROps m /\
  List.map (fun x => C03_Model.dir_sub (O:=RM) x (C03_Model.dir_mean (O:=RM) ws xs)) xs = perts.
Proof.
by move=> perts xs ws H1 H2 H3 H4; split; [exact: circular_row_mean | exact: circular_row_offsets].
Qed.

(* A sigma quaternion exp(p/2) q built by sum_quaternion_rotation_vector from the unit mean
   quaternion q is read back as p by diff_quaternion when p is outside the 1e-4 cut-off zone
   and within a half turn; in every case the error is at most 2 asin(1e-4). *)
Theorem C03_quaternion_block (q : C03_Model.quat RM) (p : C03_Model.rvec RM) :
  qnorm2 (toQ q) = 1 -> n3 (toV p) <= PI ->
  (cut < sin (n3 (toV p) / 2) -> C03_Model.qdiff (O:=RM) (C03_Model.qsum (O:=RM) q p) q = p) /\
  vdist (toV (C03_Model.qdiff (O:=RM) (C03_Model.qsum (O:=RM) q p) q)) (toV p) <= 2 * asin cut.
Proof. exact: quaternion_block. Qed.

(* the scalar helpers of C03_Model used above are C19's / C18's transcriptions of the same code *)
Theorem C03_scalar_helpers_are_C19_C18 :
  (forall x, C03_Model.wrap (O:=RM) x = C19_Model.wrap ROps x) /\
  (forall ws a b l, C03_Model.dir_mean (O:=RM) ws (a :: b :: l) = C19_Model.mean_row ROps (a :: b :: l) ws) /\
  (forall q r, toQ (C03_Model.qsum (O:=RM) q r) = C18_Model.qsum_one ROps (toQ q) (toV r)) /\
  (forall a b, toV (C03_Model.qdiff (O:=RM) a b) = C18_Model.qdiff_one ROps (toQ a) (toQ b)).
Proof. exact: scalar_helpers_link. Qed.

(* non-vacuity of C03_circular_row: p = 1/2, w0 = -1/2, wi = 3/4 (resultant -1/2 + 3/2 cos(1/2) > 0) *)
Example C03_circular_row_premises :
  let ps := (1/2) :: nil in
  Forall in_range ps /\ Forall (fun p => in_range (- p)) ps /\ ps <> nil /\
  0 < -(1/2) + 2 * (3/4) * fold_right (fun p acc => cos p + acc) 0 ps.
Proof. exact: circular_row_premises_example. Qed.
End C03Real.

Print Assumptions C03_weights_sum.
Print Assumptions C03_weights_shape.
Print Assumptions C03_sigma_moments_linear.
Print Assumptions C03_affine_exact.
Print Assumptions C03_affine_exact_models.
Print Assumptions C03_affine_exact_additive.
Print Assumptions C03_affine_exact_augmented.
Print Assumptions C03_first_sigma_point_partial.
Print Assumptions C03_failure_propagates.
Print Assumptions C03_success_propagates.
Print Assumptions C03_transport_weighted_sums.
Print Assumptions C03_transport_affine_map.
Print Assumptions C03_circular_row.
Print Assumptions C03_quaternion_block.
Print Assumptions C03_scalar_helpers_are_C19_C18.
