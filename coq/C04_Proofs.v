(* C04_Proofs.v — the unscented Kalman steps at the MathComp instance. *)
Require Import ZArith List Bool Lia.
Require Import BFL.Ops BFL.Density BFL.C01_Model BFL.C03_Model BFL.C04_Model.
From mathcomp Require Import all_ssreflect all_algebra.
Require Import BFL.MxOps BFL.LinAlg BFL.C03_Proofs.
Set Implicit Arguments.
Unset Strict Implicit.
Unset Printing Implicit Defensive.
Import Order.Theory GRing.Theory Num.Theory.
Local Open Scope ring_scope.

Section Generic.
Variable O : MatOps.
Lemma ukf_predict_additive_skip n (L : layout) a b k sp ss f (Q : M O n n) q prev :
  sp || ss -> ukf_predict_additive L a b k sp ss f Q q prev = prev.
Proof. by rewrite /ukf_predict_additive => ->. Qed.
End Generic.
