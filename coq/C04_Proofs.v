(* C04_Proofs.v — the unscented Kalman steps at the MathComp instance: on linear
   models they are the Kalman steps (corollaries of C03's affine exactness). *)
Require Import ZArith List Bool Lia.
Require Import BFL.Ops BFL.Density BFL.C01_Model BFL.C02_Model BFL.C03_Model BFL.C04_Model.
From mathcomp Require Import all_ssreflect all_algebra.
Require Import BFL.MxOps BFL.LinAlg BFL.C03_Proofs.
Set Implicit Arguments.
Unset Strict Implicit.
Unset Printing Implicit Defensive.
Import Order.Theory GRing.Theory Num.Theory.
Local Open Scope ring_scope.

(* a layout without circular components and without noise rows, n linear rows *)
Definition plain_layout (L : layout) (n : nat) : Prop :=
  [/\ l_lin L = n, l_circ L = 0%N & l_noise L = 0%N].

Section Generic.
Variable O : MatOps.
(* skip flags: the previous belief is handed back, whatever the model *)
Lemma ukf_predict_additive_skip n (L : layout) a b k sp ss f (Q : M O n n) q prev :
  sp || ss -> ukf_predict_additive L a b k sp ss f Q q prev = prev.
Proof. by rewrite /ukf_predict_additive => ->. Qed.

Lemma ukf_predict_generic_skip n q (Ld L : layout) a b k sp ss f (Q : M O q q) (prev : mixture O n n) :
  sp || ss -> ukf_predict_generic Ld L a b k sp ss f Q prev = prev.
Proof. by rewrite /ukf_predict_generic => ->. Qed.

(* a skipped correction (GaussianCorrection::skip_) hands back the predicted belief and
   touches nothing; a correction that finds no measurement hands back the predicted
   belief and reports no likelihood afterwards *)
Lemma ukf_correct_additive_idle n m (Ld Lm : layout) a b k (skip : bool) (y : option (M O m 1)) f g (R : M O m m)
      (pred old : mixture O n n) st :
  (skip -> ukf_correct_additive Ld Lm a b k skip y f g R pred old st = (pred, st, [::])) /\
  (~~ skip -> y = None ->
   ukf_correct_additive Ld Lm a b k skip y f g R pred old st = (pred, mkUkfState [::] (us_Pyy st), [::])).
Proof. by rewrite /ukf_correct_additive; split=> [->|/negbTE ->] // ->. Qed.

Lemma ukf_correct_generic_idle n q m (Ld Lm : layout) a b k (skip : bool) (y : option (M O m 1)) f g (R : M O q q)
      (pred old : mixture O n n) st :
  (skip -> ukf_correct_generic Ld Lm a b k skip y f g R pred old st = (pred, st, [::])) /\
  (~~ skip -> y = None ->
   ukf_correct_generic Ld Lm a b k skip y f g R pred old st = (pred, mkUkfState [::] (us_Pyy st), [::])).
Proof. by rewrite /ukf_correct_generic; split=> [->|/negbTE ->] // ->. Qed.

Lemma ukf_idle_identity n q m (Ld Lm : layout) a b k (skip : bool) (y : option (M O m 1))
      f f' g (R : M O m m) (Rv : M O q q) (pred old : mixture O n n) st :
  let ra := ukf_correct_additive Ld Lm a b k skip y f g R pred old st in
  let rg := ukf_correct_generic Ld Lm a b k skip y f' g Rv pred old st in
  (skip -> ra = (pred, st, [::]) /\ rg = (pred, st, [::])) /\
  (~~ skip -> y = None ->
   [/\ ra.1.1 = pred, rg.1.1 = pred, ukf_likelihood ra.1.2 = None & ukf_likelihood rg.1.2 = None]).
Proof.
move=> ra rg; split=> [Hs|Hs Hy].
  by split; [case: (ukf_correct_additive_idle Ld Lm a b k skip y f g R pred old st) => /(_ Hs)
            | case: (ukf_correct_generic_idle Ld Lm a b k skip y f' g Rv pred old st) => /(_ Hs)].
case: (ukf_correct_additive_idle Ld Lm a b k skip y f g R pred old st) => _ /(_ Hs Hy) Ea.
case: (ukf_correct_generic_idle Ld Lm a b k skip y f' g Rv pred old st) => _ /(_ Hs Hy) Eg.
by rewrite /ra /rg Ea Eg.
Qed.

(* a failed predicted measurement or a failed innovation leaves the belief untouched
   and no likelihood is reported afterwards *)
Lemma ukf_correct_finish_unusable n m ms (y : M O m 1) g (ut : option (ut_result O m m n))
      (pred old : mixture O n n) st :
  (ut = None \/ exists r, ut = Some r /\ g (List.map (fun u => uc_mean u) (ur_comps r)) y = None) ->
  let res := ukf_correct_finish ms y g ut pred old st in
  [/\ res.1.1 = pred, res.2 = [::] & ukf_likelihood res.1.2 = None].
Proof. by case=> [->|[r [-> E]]] //=; rewrite /ukf_correct_finish E. Qed.

Lemma ukf_skip_identity n q (L Ld : layout) a b k sp ss f g (Q : M O n n) (Qw : M O q q) qn
      (prev : mixture O n n) :
  sp || ss ->
  ukf_predict_additive L a b k sp ss f Q qn prev = prev /\
  ukf_predict_generic Ld L a b k sp ss g Qw prev = prev.
Proof. by move=> Hs; split; [exact: ukf_predict_additive_skip | exact: ukf_predict_generic_skip]. Qed.
End Generic.

Section UKFMx.
Variable F : realFieldType.
Variable tr : Transc F.
Variable sq : forall n, 'M[F]_n -> 'M[F]_n.
Variable eg : forall n, 'M[F]_n -> 'M[F]_(n,1).
Let O := MxMat tr sq eg.

Lemma linear_cols_affine d p (A : 'M[F]_(p,d)) X :
  linear_cols (O:=O) A X = affine_cols (O:=O) A 0 X.
Proof. by apply: map_ext => x /=; rewrite addr0. Qed.

Lemma sel_id n : sel F n n = 1%:M.
Proof. by apply/matrixP=> i j; rewrite !mxE. Qed.

Lemma plain_linear L n : plain_layout L n -> linear_layout L n.
Proof. by case=> H1 H2 H3; split=> //; rewrite H1 H3; lia. Qed.

Lemma plain_noiseless L n : l_lin L = n -> l_circ L = 0%N -> plain_layout (l_noiseless L) n.
Proof. by move=> H1 H2; split. Qed.

Lemma add_noise_linear L n q : plain_layout L n -> linear_layout (l_add_noise L q) (n + q).
Proof. by case=> H1 H2 H3; split=> //=; rewrite H1 H3 -plusE; lia. Qed.

Lemma dcov_plain L n : plain_layout L n -> l_dcov L = n.
Proof. by case=> H1 H2 H3; rewrite /l_dcov /l_dx H1 H2 H3; lia. Qed.

(* the spec-side Kalman prediction of one component is C02's *)
Lemma kf_predict_comp_C02 n (Ft Q : 'M[F]_n) (xP : 'cV[F]_n * 'M[F]_n) :
  kf_predict_comp (O:=O) Ft Q xP = (Ft *m xP.1, kf_predict_cov (O:=O) Ft Q xP.2).
Proof. by []. Qed.

(* ... and its mean is LinearStateModel::propagate of C02 on the one-column matrix, without
   exogenous model, resp. with the constant exogenous input u(X) = c 1^T *)
Lemma kf_predict_mean_C02 n (Ft : 'M[F]_n) (x old : 'cV[F]_n) :
  lin_propagate (O:=O) Ft None false false x old = Ft *m x.
Proof. by []. Qed.

Lemma kf_predict_mean_exo_C02 n (Ft : 'M[F]_n) (c x old : 'cV[F]_n) :
  lin_propagate (O:=O) Ft (Some (affine_exo (O:=O) (0 : 'M[F]_n) c)) false false x old = Ft *m x + c.
Proof.
rewrite /lin_propagate /= /affine_exo /= mul0mx add0r; congr (_ + _).
apply/matrixP=> i j; rewrite !mxE big_ord1 /mconst /= !mxE mulr1; congr (c _ _).
by rewrite !ord1.
Qed.

(* ---------------- prediction ---------------- *)
Section Predict.
Variables (n : nat) (alpha beta kappa : F).
Variable prev : mixture O n n.
Hypothesis prev_plain : plain_layout (mx_layout prev) n.
Variable Lstate : layout.
Hypothesis Lstate_lin : l_lin Lstate = n.
Hypothesis Lstate_circ : l_circ Lstate = 0%N.
Let k := length (mx_comps prev).

(* additive model x' = F x + b + w (b: a constant exogenous input; b = 0 without one) *)
Lemma ukf_predict_additive_affine (Ft Q : 'M[F]_n) (b : 'cV[F]_n) q :
  let w := ut_weights (O:=O) n alpha beta kappa in
  w_c w != 0 -> t_sqrt tr (w_c w) * t_sqrt tr (w_c w) = w_c w ->
  (forall mc, In mc (mx_comps prev) -> sq mc.2 *m (sq mc.2)^T = mc.2) ->
  ukf_predict_additive (O:=O) Lstate alpha beta kappa false false (affine_cols (O:=O) Ft b) Q q prev =
  mkMix (O:=O) (l_noiseless Lstate)
        (List.map (fun xP => (Ft *m xP.1 + b, kf_predict_cov (O:=O) Ft Q xP.2)) (mx_comps prev))
        (repeat (1 / k%:R) k).
Proof.
move=> w cp sc fo; rewrite /ukf_predict_additive /= /ut_weights_of.
have -> : l_dcov (l_noiseless (additive_input_description Lstate q)) = n.
  by rewrite /l_dcov /l_dx /= Lstate_lin Lstate_circ; lia.
rewrite /ut_additive_state /ut_state.
rewrite (ut_core_affine (plain_linear prev_plain) _ _ cp sc _ _ fo) //; last by case: prev_plain.
by rewrite add_noise_affine /mix_of_result /= map_map.
Qed.

Lemma ukf_predict_additive_linear (Ft Q : 'M[F]_n) q :
  let w := ut_weights (O:=O) n alpha beta kappa in
  w_c w != 0 -> t_sqrt tr (w_c w) * t_sqrt tr (w_c w) = w_c w ->
  (forall mc, In mc (mx_comps prev) -> sq mc.2 *m (sq mc.2)^T = mc.2) ->
  ukf_predict_additive (O:=O) Lstate alpha beta kappa false false (linear_cols (O:=O) Ft) Q q prev =
  mkMix (O:=O) (l_noiseless Lstate) (List.map (kf_predict_comp (O:=O) Ft Q) (mx_comps prev))
        (repeat (1 / k%:R) k).
Proof.
move=> w cp sc fo.
have E : ukf_predict_additive (O:=O) Lstate alpha beta kappa false false (linear_cols (O:=O) Ft) Q q prev =
         ukf_predict_additive (O:=O) Lstate alpha beta kappa false false (affine_cols (O:=O) Ft 0) Q q prev.
  by rewrite /ukf_predict_additive /= /ut_additive_state /ut_state linear_cols_affine.
rewrite E ukf_predict_additive_affine //; congr mkMix.
by apply: map_ext => mc; rewrite /kf_predict_comp /= addr0.
Qed.

Lemma ukf_predict_generic_linear q (Ldesc : layout) (Ft : 'M[F]_n) (B : 'M[F]_(n,q)) (Qw : 'M[F]_q) :
  l_dcov Ldesc = (n + q)%N ->
  let w := ut_weights (O:=O) (n + q) alpha beta kappa in
  w_c w != 0 -> t_sqrt tr (w_c w) * t_sqrt tr (w_c w) = w_c w ->
  (forall mc, In mc (mx_comps prev) ->
     sq (block_mx mc.2 0 0 Qw) *m (sq (block_mx mc.2 0 0 Qw))^T = block_mx mc.2 0 0 Qw) ->
  ukf_predict_generic (O:=O) Ldesc Lstate alpha beta kappa false false
                      (linear_cols (O:=O) (row_mx Ft B)) Qw prev =
  mkMix (O:=O) (l_noiseless Lstate)
        (List.map (kf_predict_comp (O:=O) Ft (B *m Qw *m B^T)) (mx_comps prev))
        (repeat (1 / k%:R) k).
Proof.
move=> Hd w cp sc fo; rewrite /ukf_predict_generic /= /ut_weights_of Hd.
rewrite /ut_state linear_cols_affine.
have Hl := add_noise_linear q prev_plain.
have Hx : l_lin (l_add_noise (mx_layout prev) q) = n by case: prev_plain.
have := @ut_state_affine_augmented F tr sq eg _ (l_noiseless Lstate) n q n Hl Hx Lstate_lin
          alpha beta kappa cp sc Ft B 0 Qw (mx_comps prev) fo.
rewrite /ut_state => ->.
rewrite /mix_of_result /= map_map; congr mkMix.
by apply: map_ext => mc; rewrite /kf_predict_comp /= !addr0.
Qed.
End Predict.

(* ---------------- correction ---------------- *)
(* the slice Pxy.middleCols(m * i, m) of the stored cross-covariance is component i *)
Lemma cross_slice n m (cs : list 'M[F]_(n,m)) (i : nat) : (i < length cs)%coq_nat ->
  mslice (O:=O) 0 (Nat.mul m i) n m (cross_storage (O:=O) cs) = List.nth i cs 0.
Proof.
move=> Hi; apply/matrixP=> r c; rewrite /mslice /cross_storage /= mxE.
have Hm : (0 < m)%coq_nat by case: c => c' /= /ssrnat.ltP; lia.
have Hc : (c < m)%coq_nat by apply/ssrnat.ltP.
rewrite mx_get_build /=; last 2 first.
- by [].
- apply/ssrnat.ltP.
  have : lt (Nat.add (Nat.mul m i) c) (Nat.mul m (Datatypes.S i)) by rewrite Nat.mul_succ_r; lia.
  move=> H1; apply: (Nat.lt_le_trans _ _ _ H1); apply: Nat.mul_le_mono_l; lia.
have -> : Nat.div (Nat.add (Nat.mul m i) c) m = i.
  by rewrite Nat.mul_comm Nat.div_add_l ?Nat.div_small //; lia.
have -> : Nat.modulo (Nat.add (Nat.mul m i) c) m = c.
  by rewrite Nat.add_comm Nat.mul_comm Nat.mod_add ?Nat.mod_small //; lia.
exact: mx_get_ord.
Qed.

Lemma combine_self_map A B (g : A -> B) (l : list A) :
  combine l (List.map g l) = List.map (fun x => (x, g x)) l.
Proof. by elim: l => [|x l IH] //=; rewrite IH. Qed.

Lemma map_indexed3 A B C D (h : nat -> A -> B -> C -> D) (f : A -> B) (g : B -> C) (l : list A) a :
  List.map (fun q : nat * (A * (B * C)) => h q.1 q.2.1 q.2.2.1 q.2.2.2)
           (combine (List.seq a (length l)) (combine l (combine (List.map f l) (List.map g (List.map f l))))) =
  List.map (fun iq : nat * A => h iq.1 iq.2 (f iq.2) (g (f iq.2))) (combine (List.seq a (length l)) l).
Proof. by elim: l a => [|x l IH] a //=; rewrite IH. Qed.

Section Correct.
Variables (n m : nat) (H : 'M[F]_(m,n)) (Reff : 'M[F]_m) (y : 'cV[F]_m).
Variables (pred old : mixture O n n) (st : ukf_state O m).
Let comps := mx_comps pred.

(* what the transform through a linear measurement model returns, per component *)
Definition meas_image (xP : 'cV[F]_n * 'M[F]_n) : ut_comp O m m n :=
  mkUtComp (O:=O) (H *m xP.1 : 'cV[F]_m) (H *m xP.2 *m H^T + Reff) (xP.2 *m H^T).

Let kf_outs := kf_correct (O:=O) H Reff y (List.map (fun xP => mkGcomp (O:=O) xP.1 xP.2) comps).

Lemma ukf_correct_comp_kf (cs : list 'M[F]_(n,m)) i (xP : 'cV[F]_n * 'M[F]_n) :
  (i < length cs)%coq_nat -> List.nth i cs 0 = xP.2 *m H^T ->
  ukf_correct_comp (O:=O) (cross_storage (O:=O) cs) m i xP (H *m xP.2 *m H^T + Reff)
                   (lin_innovation (O:=O) (H *m xP.1 : 'cV[F]_m) y) =
  kf_correct_one (O:=O) H Reff y (mkGcomp (O:=O) xP.1 xP.2).
Proof.
move=> Hi Hn; rewrite /ukf_correct_comp /ukf_gain (cross_slice Hi) Hn.
by rewrite /kf_correct_one /kf_correct_comp /lin_predicted /=.
Qed.

Lemma ukf_correct_loop_kf ws :
  ukf_correct_loop (O:=O) m comps (mkUtResult (O:=O) (List.map meas_image comps) ws)
                   (List.map (fun yp : 'cV[F]_m => lin_innovation (O:=O) yp y)
                             (List.map (fun u : ut_comp O m m n => uc_mean u) (List.map meas_image comps))) = kf_outs.
Proof.
rewrite (map_map (fun u : ut_comp O m m n => uc_mean u) (fun yp : 'cV[F]_m => lin_innovation (O:=O) yp y)).
rewrite /ukf_correct_loop /kf_outs /kf_correct ![ur_comps _]/=.
set cs := List.map (fun u => uc_cross u) _.
etransitivity.
  exact: (@map_indexed3 _ _ _ _
            (fun i xP (u : ut_comp O m m n) (nu : 'cV[F]_m) =>
               ukf_correct_comp (O:=O) (cross_storage (O:=O) cs) m i xP (uc_cov u) nu)
            meas_image (fun u : ut_comp O m m n => lin_innovation (O:=O) (uc_mean u) y) comps 0).
rewrite [RHS]map_map.
pose h (i : nat) (xP : 'cV[F]_n * 'M[F]_n) : kf_out O n m :=
  ukf_correct_comp (O:=O) (cross_storage (O:=O) cs) m i xP (H *m xP.2 *m H^T + Reff)
                   (lin_innovation (O:=O) (H *m xP.1 : 'cV[F]_m) y).
apply: (@map_indexed _ _ h (fun xP => kf_correct_one (O:=O) H Reff y (mkGcomp (O:=O) xP.1 xP.2)) comps (0, 0)).
move=> i Hi; rewrite /h; apply: ukf_correct_comp_kf; first by rewrite /cs !map_length.
rewrite /cs map_map.
rewrite (nth_indep _ _ ((fun xP : 'cV[F]_n * 'M[F]_n => xP.2 *m H^T) (0, 0))) ?map_length //.
by rewrite (map_nth (fun xP : 'cV[F]_n * 'M[F]_n => xP.2 *m H^T)).
Qed.

Lemma ukf_correct_finish_kf ws :
  ukf_correct_finish (O:=O) m y (lin_innovation_cols (O:=O))
                     (Some (mkUtResult (O:=O) (List.map meas_image comps) ws)) pred old st =
  (mkMix (O:=O) (mx_layout old)
         (overwrite_prefix (List.map (fun o => (gmean (ko_comp o), gcov (ko_comp o))) kf_outs) (mx_comps old))
         (mx_weights old),
   mkUkfState (O:=O) (List.map (fun o => ko_innov o) kf_outs) (List.map (fun o => ko_Py o) kf_outs),
   kf_outs).
Proof.
rewrite /ukf_correct_finish /lin_innovation_cols ![ur_comps _]/=.
rewrite ukf_correct_loop_kf.
congr (_, _, _); congr mkUkfState; rewrite /kf_outs /kf_correct !map_map; apply: map_ext => xP //.
Qed.
End Correct.

(* ---------------- the two constructors of UKFCorrection on linear models ---------------- *)
Section CorrectTop.
Variables (n m : nat) (alpha beta kappa : F).
Variables (H : 'M[F]_(m,n)) (y : 'cV[F]_m).
Variables (pred old : mixture O n n) (st : ukf_state O m).
Hypothesis pred_plain : plain_layout (mx_layout pred) n.
Variable Lmeas : layout.
(* the measurement description: m linear components, no circular ones; its noise
   components are irrelevant (the transformed mixture drops them) *)
Hypothesis Lmeas_lin : l_lin Lmeas = m.
Hypothesis Lmeas_circ : l_circ Lmeas = 0%N.
Let comps := mx_comps pred.
Let gcomps := List.map (fun xP : 'cV[F]_n * 'M[F]_n => mkGcomp (O:=O) xP.1 xP.2) comps.

Definition kf_result (Reff : 'M[F]_m) : mixture O n n * ukf_state O m * list (kf_out O n m) :=
  let outs := kf_correct (O:=O) H Reff y gcomps in
  (mkMix (O:=O) (mx_layout old)
         (overwrite_prefix (List.map (fun o => (gmean (ko_comp o), gcov (ko_comp o))) outs) (mx_comps old))
         (mx_weights old),
   mkUkfState (O:=O) (List.map (fun o => ko_innov o) outs) (List.map (fun o => ko_Py o) outs),
   outs).

Lemma dcov_meas : l_dcov (l_noiseless Lmeas) = m.
Proof. by rewrite /l_dcov /l_dx /= Lmeas_lin Lmeas_circ; lia. Qed.

Lemma ukf_correct_additive_linear (Ldesc : layout) (R : 'M[F]_m) :
  l_lin Ldesc = n -> l_circ Ldesc = 0%N ->
  let w := ut_weights (O:=O) n alpha beta kappa in
  w_c w != 0 -> t_sqrt tr (w_c w) * t_sqrt tr (w_c w) = w_c w ->
  (forall mc, In mc (mx_comps pred) -> sq mc.2 *m (sq mc.2)^T = mc.2) ->
  ukf_correct_additive (O:=O) Ldesc Lmeas alpha beta kappa false (Some y)
                       (fun X => Some (linear_cols (O:=O) H X)) (lin_innovation_cols (O:=O))
                       R pred old st = kf_result R.
Proof.
move=> Hl Hc w cp sc fo; rewrite /ukf_correct_additive /ut_weights_of dcov_meas.
have -> : l_dcov (l_noiseless Ldesc) = n by rewrite /l_dcov /l_dx /= Hl Hc; lia.
rewrite /ut_additive_meas /ut_generic linear_cols_affine.
have Hn : l_lin (mx_layout pred) = n by case: pred_plain.
have Hm : l_lin (l_noiseless Lmeas) = m by [].
rewrite (ut_core_affine (plain_linear pred_plain) Hn Hm cp sc _ _ fo).
rewrite add_noise_affine.
rewrite (map_ext _ (meas_image H R)); last first.
  by move=> xP; rewrite /affine_image /meas_image sel_id mul1mx addr0.
exact: ukf_correct_finish_kf.
Qed.

Lemma ukf_correct_generic_linear q (Ldesc : layout) (D : 'M[F]_(m,q)) (Rv : 'M[F]_q) :
  l_dcov Ldesc = (n + q)%N ->
  let w := ut_weights (O:=O) (n + q) alpha beta kappa in
  w_c w != 0 -> t_sqrt tr (w_c w) * t_sqrt tr (w_c w) = w_c w ->
  (forall mc, In mc (mx_comps pred) ->
     sq (block_mx mc.2 0 0 Rv) *m (sq (block_mx mc.2 0 0 Rv))^T = block_mx mc.2 0 0 Rv) ->
  ukf_correct_generic (O:=O) Ldesc Lmeas alpha beta kappa false (Some y)
                      (fun X => Some (linear_cols (O:=O) (row_mx H D) X)) (lin_innovation_cols (O:=O))
                      Rv pred old st = kf_result (D *m Rv *m D^T).
Proof.
move=> Hd w cp sc fo; rewrite /ukf_correct_generic /ut_weights_of dcov_meas Hd.
rewrite /ut_meas /ut_generic linear_cols_affine.
have Hl := add_noise_linear q pred_plain.
have Hx : l_lin (l_add_noise (mx_layout pred) q) = n by case: pred_plain.
have Hm : l_lin (l_noiseless Lmeas) = m by [].
have := @ut_generic_affine_augmented F tr sq eg _ (l_noiseless Lmeas) n q m Hl Hx Hm
          alpha beta kappa cp sc H D 0 Rv (mx_comps pred) fo.
rewrite /ut_generic => /Some_inj ->.
rewrite (map_ext _ (meas_image H (D *m Rv *m D^T))); last first.
  by move=> xP; rewrite /augmented_image /meas_image !addr0.
exact: ukf_correct_finish_kf.
Qed.

(* the likelihood reported afterwards is the Kalman one *)
Lemma ukf_likelihood_kf (Reff : 'M[F]_m) : comps <> [::] ->
  ukf_likelihood (O:=O) (kf_result Reff).1.2 =
  Some (List.map (kf_likelihood (O:=O)) (kf_correct (O:=O) H Reff y gcomps)).
Proof.
rewrite /kf_result /ukf_likelihood /= /kf_correct /gcomps => Hne.
set outs := List.map (kf_correct_one (O:=O) H Reff y) _.
have : outs <> [::] by rewrite /outs; case: (comps) Hne.
by case: outs => [|o os] // _; rewrite combine_map2 map_map.
Qed.

Lemma ukf_likelihood_additive_linear (Ldesc : layout) (R : 'M[F]_m) :
  l_lin Ldesc = n -> l_circ Ldesc = 0%N ->
  let w := ut_weights (O:=O) n alpha beta kappa in
  w_c w != 0 -> t_sqrt tr (w_c w) * t_sqrt tr (w_c w) = w_c w ->
  (forall mc, In mc (mx_comps pred) -> sq mc.2 *m (sq mc.2)^T = mc.2) -> comps <> [::] ->
  ukf_likelihood (O:=O)
    (ukf_correct_additive (O:=O) Ldesc Lmeas alpha beta kappa false (Some y)
       (fun X => Some (linear_cols (O:=O) H X)) (lin_innovation_cols (O:=O)) R pred old st).1.2 =
  Some (List.map (kf_likelihood (O:=O)) (kf_correct (O:=O) H R y gcomps)).
Proof. by move=> *; rewrite ukf_correct_additive_linear //; exact: ukf_likelihood_kf. Qed.

Lemma ukf_likelihood_generic_linear q (Ldesc : layout) (D : 'M[F]_(m,q)) (Rv : 'M[F]_q) :
  l_dcov Ldesc = (n + q)%N ->
  let w := ut_weights (O:=O) (n + q) alpha beta kappa in
  w_c w != 0 -> t_sqrt tr (w_c w) * t_sqrt tr (w_c w) = w_c w ->
  (forall mc, In mc (mx_comps pred) ->
     sq (block_mx mc.2 0 0 Rv) *m (sq (block_mx mc.2 0 0 Rv))^T = block_mx mc.2 0 0 Rv) -> comps <> [::] ->
  ukf_likelihood (O:=O)
    (ukf_correct_generic (O:=O) Ldesc Lmeas alpha beta kappa false (Some y)
       (fun X => Some (linear_cols (O:=O) (row_mx H D) X)) (lin_innovation_cols (O:=O)) Rv pred old st).1.2 =
  Some (List.map (kf_likelihood (O:=O)) (kf_correct (O:=O) H (D *m Rv *m D^T) y gcomps)).
Proof. by move=> *; rewrite ukf_correct_generic_linear //; exact: ukf_likelihood_kf. Qed.

(* the innovation covariance the step inverts is invertible when R is SPD *)
Lemma ukf_Pyy_unit (Reff : 'M[F]_m) (P : 'M[F]_n) : psd P -> spd Reff ->
  H *m P *m H^T + Reff \in unitmx.
Proof. by move=> pP sR; apply: spd_unit; apply: psd_spd_add => //; apply: psd_congr. Qed.
End CorrectTop.

End UKFMx.
