(* C13_Link.v — what the abstract propagate modes of the skip model mean: they
   are exactly the branches of C02's model of LinearStateModel::propagate, for
   every arithmetic instance. *)
Require Import List Bool.
Require Import BFL.Ops BFL.C02_Model BFL.C13_Model.

Section Link.
Variable O : MatOps.

Definition interp_mode {n k} (F : M O n n) (exo : option (M O n k -> M O n k)) (m : prop_mode)
           (cur old : M O n k) : M O n k :=
  let u := match exo with Some u => u | None => fun _ => old end in
  match m with
  | MCopy => cur
  | MFull => madd (mmul F cur) (u cur)
  | MStateOnly => mmul F cur
  | MExoOnly => u cur
  | MNothing => old
  end.

(* flags of a state model whose exogenous part is present exactly when exo is *)
Definition flags_of {A} (exo : option A) (p i ss se c : bool) : flags :=
  mkFlags p i ss (option_map (fun _ => se) exo) c.

Lemma lin_propagate_is_mode {n k} (F : M O n n) (exo : option (M O n k -> M O n k)) p i ss se c (cur old : M O n k) :
  lin_propagate F exo ss se cur old = interp_mode F exo (prop_mode_of (flags_of exo p i ss se c)) cur old.
Proof. destruct exo as [u|]; destruct ss; destruct se; reflexivity. Qed.
End Link.
