(* C03_Quat.v — whole-layout exactness of the unscented transform for layouts with linear rows,
   QUATERNION blocks and an appended noise block, at the real matrix instance RF (C03_RFun.v), on top
   of C18's quaternion theory and C03_QuatAlg.v.
   Setting: input layout (lin linear rows, circ quaternions, noise rows; storage d = lin + 4 circ + noise,
   tangent dc = lin + 3 circ + noise), output layout (olin linear rows, the same number circ of
   quaternions).  The propagated function is x -> Am x + b column by column in storage coordinates where
     - a linear output row does not read the quaternion rows                        (map_lin)
     - the t-th output quaternion is rl_t * (t-th input quaternion) * rr_t for unit quaternions
       rl_t, rr_t (what the harness' L(r) / R(r) blocks do)                          (map_quat)
   and J (pc x dc) is the matrix of the tangent map: on a linear output row it is Am restricted to the
   linear and noise columns (tangent_lin), on the rotation rows of block t it is the rotation by rl_t of
   the t-th rotation-vector block (tangent_rot).
   Smallness, per component, in terms of the factor A = sq P the oracle returned (small_rot): every
   rotation-vector block sqrt(c) A_[t],k of a sigma offset is zero, or outside the 1e-4 cut-off zone of
   the exp / log pair and strictly within a half turn (ok_rv); and every block has a positive weighted
   resultant w0 + 2 wi sum_k cos |sqrt(c) A_[t],k|.  The eigen-solver oracle enters through its contract
   (max_eig_contract: unit eigenvector of the largest eigenvalue), a per-instance premise.
   Result: mean Am m + b on linear rows and +- rl_t q_t rr_t on quaternion blocks (the same rotation),
   covariance J P J^T (+ N), cross-covariance the non-noise rows of P J^T, all overloads.
   Axioms: the four standard axioms of Coq's Reals. *)
Require Import ZArith Reals Lra Lia List Bool Arith.
Require Import BFL.Ops BFL.C03_Model BFL.C19_ROps BFL.C18_Model BFL.C18_Proofs BFL.C03_Real.
Require Import BFL.C03_RFun BFL.C03_Euler BFL.C03_QuatAlg.
Import ListNotations.
Local Open Scope R_scope.

(* ------------------------------------------------------------------ small helpers *)
Lemma divmod4 t k : (k < 4)%nat -> ((t * 4 + k) / 4 = t /\ (t * 4 + k) mod 4 = k)%nat.
Proof.
  intros Hk. split.
  - rewrite Nat.add_comm, Nat.div_add by lia. rewrite Nat.div_small by lia. lia.
  - rewrite Nat.add_comm, Nat.mod_add by lia. apply Nat.mod_small. lia.
Qed.
Lemma divmod3 t k : (k < 3)%nat -> ((t * 3 + k) / 3 = t /\ (t * 3 + k) mod 3 = k)%nat.
Proof.
  intros Hk. split.
  - rewrite Nat.add_comm, Nat.div_add by lia. rewrite Nat.div_small by lia. lia.
  - rewrite Nat.add_comm, Nat.mod_add by lia. apply Nat.mod_small. lia.
Qed.

Definition vcomp (v : V) (k : nat) : R := match k with 0%nat => vx v | 1%nat => vy v | _ => vz v end.

Lemma rv_nth_toV (r : C03_Model.rvec RM) k : rv_nth (O:=RM) r k = vcomp (toV r) k.
Proof. destruct r as [[x y] z]. destruct k as [|[|k]]; reflexivity. Qed.

Lemma q_nth_tuple (q : C03_Model.quat RM) :
  (q_nth (O:=RM) q 0, q_nth (O:=RM) q 1, q_nth (O:=RM) q 2, q_nth (O:=RM) q 3) = q.
Proof. destruct q as [[[a b] c] d]. reflexivity. Qed.

Lemma q_nth_qcomp (q : C03_Model.quat RM) k : q_nth (O:=RM) q k = qcomp ROps (toQ q) k.
Proof. destruct q as [[[a b] c] d]. destruct k as [|[|[|k]]]; reflexivity. Qed.

Lemma qmul_neg_r a b : C18_Model.qmul ROps a (qneg b) = qneg (C18_Model.qmul ROps a b).
Proof. rewrite !qmul_R. unfold qneg. simpl. f_equal; ring. Qed.
Lemma qconj_neg a : C18_Model.qconj ROps (qneg a) = qneg (C18_Model.qconj ROps a).
Proof. rewrite !qconj_R. unfold qneg. simpl. reflexivity. Qed.

(* the tangent difference from +-qc of a quaternion a * qc is 2 log a *)
Lemma qdiff_pm (a qc : Q) : qnorm2 qc = 1 ->
  qdiff_one ROps (C18_Model.qmul ROps a qc) qc = q_to_rv ROps a /\
  qdiff_one ROps (C18_Model.qmul ROps a qc) (qneg qc) = q_to_rv ROps (qneg a).
Proof.
  intros H. split; [now apply left_convention_diff|].
  unfold qdiff_one. rewrite qconj_neg, qmul_neg_r, qmul_cancel_r by assumption. reflexivity.
Qed.

(* sums of C18's coefficients over equal weights *)
Lemma vcoef_seq wi (a : nat -> Q) n s0 :
  vcoef (repeat wi n) (map a (seq s0 n)) = wi * lsumR (fun k => qnorm2 (a k) - qw (a k) * qw (a k)) (seq s0 n).
Proof. revert s0. induction n as [|n IH]; intros s0; simpl; [lra|]. rewrite IH. lra. Qed.
Lemma sym_coef_seq wi (a : nat -> Q) n s0 :
  sym_coef (repeat wi n) (map a (seq s0 n)) = wi * lsumR (fun k => qw (a k) * qw (a k)) (seq s0 n).
Proof. revert s0. induction n as [|n IH]; intros s0; simpl; [lra|]. rewrite IH. lra. Qed.
Lemma lsumR_seq_id (g : nat -> R) n : lsumR g (seq 0 n) = rsum n g.
Proof. rewrite <- (map_id (seq 0 n)). apply (lsumR_seq g (fun k => k)). Qed.

(* ------------------------------------------------------------------ one component *)
Section QuatComponent.
Variables sq eg : nat -> fmx -> fmx.
Notation O := (RF sq eg).
Variables lin circ noise olin : nat.
Let Lin := mkLayout lin circ true noise.
Let Lout := mkLayout olin circ true 0.
Variables d dc dx p pc : nat.
Hypothesis Hd : d = (lin + circ * 4 + noise)%nat.
Hypothesis Hdc : dc = (lin + circ * 3 + noise)%nat.
Hypothesis Hdx : dx = (lin + circ * 3)%nat.
Hypothesis Hp : p = (olin + circ * 4)%nat.
Hypothesis Hpc : pc = (olin + circ * 3)%nat.

Variables (c : R) (m P : fmx) (Am b J : fmx).
Variables rl rr : nat -> Q.
Let s := sqrt c.
Let A := sq dc P.
Hypothesis c_pos : 0 < c.
Hypothesis factor : forall a b', (a < dc)%nat -> (b' < dc)%nat -> rsum dc (fun k => A a k * A b' k) = P a b'.

(* a quaternion read from four consecutive rows of a column; the t-th rotation-vector block of a
   tangent vector *)
Definition qraw (x : fmx) (o : nat) : Q := mkQR (x o 0%nat) (x (o + 1)%nat 0%nat) (x (o + 2)%nat 0%nat) (x (o + 3)%nat 0%nat).
Definition blk (o : nat) (e : nat -> R) (t : nat) : V :=
  mkVR (e (o + t * 3)%nat) (e (o + t * 3 + 1)%nat) (e (o + t * 3 + 2)%nat).
Notation qbar t := (qraw m (lin + t * 4)).

Lemma quat_at_raw rows (x : fmx) o : (o + 3 < rows)%nat -> toQ (quat_at (O:=O) (r:=rows) x o) = qraw x o.
Proof.
  intros Ho. unfold quat_at, colget, toQ, qraw. change (@mget O rows 1) with (fget rows 1). unfold fget.
  rewrite !inb_true by lia. reflexivity.
Qed.

Lemma rv_at_raw rows (x : fmx) o : (o + 2 < rows)%nat ->
  toV (rv_at (O:=O) (r:=rows) x o) = mkVR (x o 0%nat) (x (o + 1)%nat 0%nat) (x (o + 2)%nat 0%nat).
Proof.
  intros Ho. unfold rv_at, colget, toV. change (@mget O rows 1) with (fget rows 1). unfold fget.
  rewrite !inb_true by lia. reflexivity.
Qed.

Hypothesis mean_unit : forall t, (t < circ)%nat -> qnorm2 (qbar t) = 1.
Hypothesis rl_unit : forall t, (t < circ)%nat -> qnorm2 (rl t) = 1.
Hypothesis rr_unit : forall t, (t < circ)%nat -> qnorm2 (rr t) = 1.

(* ---- sigma points: mean (+) tangent offset e *)
Definition is_sigma_q (e : nat -> R) (x : fmx) : Prop :=
  (forall j, (j < lin)%nat -> x j 0%nat = e j + m j 0%nat) /\
  (forall t, (t < circ)%nat -> qraw x (lin + t * 4) = qsum_one ROps (qbar t) (blk lin e t)) /\
  (forall n, (n < noise)%nat ->
     x (lin + circ * 4 + n)%nat 0%nat = e (lin + circ * 3 + n)%nat + m (lin + circ * 4 + n)%nat 0%nat).

Lemma add_mean_entry central (pt : fmx) i : (i < d)%nat ->
  add_mean (O:=O) Lin d dc central m pt i 0%nat = add_mean_row (O:=O) Lin d dc central m pt i.
Proof. intros Hi. unfold add_mean. change (@mbuild O d 1) with (fbuild d 1). unfold fbuild. now rewrite inb_true by lia. Qed.

Lemma add_mean_lin central (pt : fmx) j : (j < lin)%nat ->
  add_mean (O:=O) Lin d dc central m pt j 0%nat = pt j 0%nat + m j 0%nat.
Proof.
  intros Hj. rewrite add_mean_entry by lia. unfold add_mean_row, colget. change (@mget O) with fget.
  change (l_lin Lin) with lin. rewrite (proj2 (Nat.ltb_lt _ _) Hj). unfold fget. rewrite !inb_true by lia. reflexivity.
Qed.

Lemma add_mean_noise central (pt : fmx) n : (n < noise)%nat ->
  add_mean (O:=O) Lin d dc central m pt (lin + circ * 4 + n)%nat 0%nat =
  pt (lin + circ * 3 + n)%nat 0%nat + m (lin + circ * 4 + n)%nat 0%nat.
Proof.
  intros Hn. rewrite add_mean_entry by lia. unfold add_mean_row, colget. change (@mget O) with fget.
  change (l_lin Lin) with lin. change (l_circ Lin) with circ. change (l_cw Lin) with 4%nat. change (l_noise Lin) with noise.
  replace (lin + circ * 4 + n <? lin)%nat with false by (symmetry; apply Nat.ltb_ge; lia).
  replace (lin + circ * 4 + n <? lin + circ * 4)%nat with false by (symmetry; apply Nat.ltb_ge; lia).
  replace (d - noise <=? lin + circ * 4 + n)%nat with true by (symmetry; apply Nat.leb_le; lia).
  replace (lin + circ * 4 + n - (d - dc))%nat with (lin + circ * 3 + n)%nat by lia.
  unfold fget. rewrite !inb_true by lia. reflexivity.
Qed.

Lemma add_mean_quat_row central (pt : fmx) t k : (t < circ)%nat -> (k < 4)%nat ->
  add_mean (O:=O) Lin d dc central m pt (lin + t * 4 + k)%nat 0%nat =
  if central then m (lin + t * 4 + k)%nat 0%nat
  else q_nth (O:=O) (C03_Model.qsum (O:=O) (quat_at (O:=O) (r:=d) m (lin + t * 4)) (rv_at (O:=O) (r:=dc) pt (lin + t * 3))) k.
Proof.
  intros Ht Hk. rewrite add_mean_entry by nia. unfold add_mean_row.
  change (l_lin Lin) with lin. change (l_circ Lin) with circ. change (l_cw Lin) with 4%nat. change (l_quat Lin) with true.
  replace (lin + t * 4 + k <? lin)%nat with false by (symmetry; apply Nat.ltb_ge; lia).
  replace (lin + t * 4 + k <? lin + circ * 4)%nat with true by (symmetry; apply Nat.ltb_lt; nia).
  cbv iota. replace (lin + t * 4 + k - lin)%nat with (t * 4 + k)%nat by lia.
  destruct (divmod4 t k Hk) as [-> ->].
  destruct central; [|reflexivity].
  unfold colget. change (@mget O d 1) with (fget d 1). unfold fget. rewrite inb_true by nia. reflexivity.
Qed.

Lemma add_mean_sigma_q (pt : fmx) :
  is_sigma_q (fun j => pt j 0%nat) (add_mean (O:=O) Lin d dc false m pt).
Proof.
  split; [|split].
  - intros j Hj. apply add_mean_lin; exact Hj.
  - intros t Ht. unfold qraw at 1.
    rewrite <- (Nat.add_0_r (lin + t * 4)) at 1.
    rewrite !(add_mean_quat_row false pt t) by (assumption || lia).
    set (qq := C03_Model.qsum (O:=O) _ _).
    assert (E : toQ qq = qsum_one ROps (qbar t) (blk lin (fun j => pt j 0%nat) t)).
    { unfold qq. etransitivity;
        [exact (qsum_is_C18 (quat_at (O:=O) (r:=d) m (lin + t * 4)) (rv_at (O:=O) (r:=dc) pt (lin + t * 3)))|].
      rewrite quat_at_raw by nia. rewrite rv_at_raw by nia. reflexivity. }
    rewrite <- E. destruct qq as [[[qa qb] qc'] qd]. reflexivity.
  - intros n Hn. apply add_mean_noise; exact Hn.
Qed.

Lemma blk_zero t : blk lin (fun _ => 0) t = V0.
Proof. reflexivity. Qed.

Lemma qsum_zero q : qsum_one ROps q V0 = q.
Proof.
  unfold qsum_one. rewrite rv_to_q_zone by (rewrite n3_V0; pose proof cut_pos; lra). apply qmul_1_l.
Qed.

Definition X0q : fmx := add_mean (O:=O) Lin d dc true m (@mzero O dc 1).
Definition Xpq (k : nat) : fmx :=
  add_mean (O:=O) Lin d dc false m (@mcol O dc dc k (@mscale O dc dc (ssqrt ROps c) (@msqrt O dc P))).
Definition Xnq (k : nat) : fmx :=
  add_mean (O:=O) Lin d dc false m (@mcol O dc dc k (@mscale O dc dc (sopp ROps (ssqrt ROps c)) (@msqrt O dc P))).

Lemma sigma_comp_eq_q :
  sigma_comp (O:=O) Lin d dc c m P = X0q :: (map Xpq (seq 0 dc) ++ map Xnq (seq 0 dc)).
Proof. unfold sigma_comp, perturbations. rewrite map_app, !map_map. reflexivity. Qed.

Lemma sigma_comp_len_q : length (sigma_comp (O:=O) Lin d dc c m P) = (2 * dc + 1)%nat.
Proof. rewrite sigma_comp_eq_q. simpl. rewrite app_length, !map_length, !seq_length. lia. Qed.

Lemma is_sigma_q_ext e e' x : (forall j, (j < dc)%nat -> e j = e' j) -> is_sigma_q e x -> is_sigma_q e' x.
Proof.
  intros E (H1 & H2 & H3). split; [|split].
  - intros j Hj. rewrite (H1 j Hj), E by lia. reflexivity.
  - intros t Ht. rewrite (H2 t Ht). unfold blk. rewrite !E by nia. reflexivity.
  - intros n Hn. rewrite (H3 n Hn), E by lia. reflexivity.
Qed.

Lemma X0q_sigma : is_sigma_q (fun _ => 0) X0q.
Proof.
  split; [|split].
  - intros j Hj. unfold X0q. rewrite add_mean_lin by exact Hj. reflexivity.
  - intros t Ht. rewrite blk_zero, qsum_zero. unfold qraw, X0q.
    rewrite <- (Nat.add_0_r (lin + t * 4)) at 1 5.
    rewrite !(add_mean_quat_row true _ t) by (assumption || lia). reflexivity.
  - intros n Hn. unfold X0q. rewrite add_mean_noise by exact Hn. reflexivity.
Qed.

Lemma Xpq_sigma k : (k < dc)%nat -> is_sigma_q (fun j => s * A j k) (Xpq k).
Proof.
  intros Hk. eapply is_sigma_q_ext; [|apply add_mean_sigma_q]. intros j Hj. cbv beta.
  pose proof (pert_get sq eg dc (ssqrt ROps c) (@msqrt O dc P) k j Hj Hk) as E.
  unfold colget in E. change (@mget O dc 1) with (fget dc 1) in E. unfold fget in E.
  rewrite inb_true in E by lia. exact E.
Qed.

Lemma Xnq_sigma k : (k < dc)%nat -> is_sigma_q (fun j => - (s * A j k)) (Xnq k).
Proof.
  intros Hk. eapply is_sigma_q_ext; [|apply add_mean_sigma_q]. intros j Hj. cbv beta.
  pose proof (pert_get sq eg dc (sopp ROps (ssqrt ROps c)) (@msqrt O dc P) k j Hj Hk) as E.
  unfold colget in E. change (@mget O dc 1) with (fget dc 1) in E. unfold fget in E.
  rewrite inb_true in E by lia. rewrite E. simpl. fold s. unfold A. simpl. ring.
Qed.

(* ---- the code's difference operator recovers the offset on the non-noise rows *)
Lemma vcomp_blk o e t k : (k < 3)%nat -> vcomp (blk o e t) k = e (o + t * 3 + k)%nat.
Proof.
  intros Hk. destruct k as [|[|[|k]]]; try lia; simpl; [now rewrite Nat.add_0_r | reflexivity | reflexivity].
Qed.

Lemma blk_neg e t : blk lin (fun j => - e j) t = vneg (blk lin e t).
Proof. reflexivity. Qed.

Lemma offsets_entry (L : layout) rows pc' (y ref : fmx) i : (i < pc')%nat ->
  offsets (O:=O) L (p:=rows) pc' y ref i 0%nat = offset_row (O:=O) L (p:=rows) y ref i.
Proof. intros Hi. unfold offsets. change (@mbuild O pc' 1) with (fbuild pc' 1). unfold fbuild. now rewrite inb_true by lia. Qed.

(* a tangent row index of the rotation part splits into block and component *)
Lemma rot_index o n i : (o <= i)%nat -> (i < o + n * 3)%nat ->
  exists t k, (t < n)%nat /\ (k < 3)%nat /\ i = (o + t * 3 + k)%nat /\ ((i - o) / 3 = t)%nat /\ ((i - o) mod 3 = k)%nat.
Proof.
  intros H1 H2. exists ((i - o) / 3)%nat, ((i - o) mod 3)%nat.
  pose proof (Nat.div_mod (i - o) 3 ltac:(lia)) as E. pose proof (Nat.mod_upper_bound (i - o) 3 ltac:(lia)) as Hm.
  repeat split; try lia; apply Nat.div_lt_upper_bound; lia.
Qed.

Lemma quat_index o n i : (o <= i)%nat -> (i < o + n * 4)%nat ->
  exists t k, (t < n)%nat /\ (k < 4)%nat /\ i = (o + t * 4 + k)%nat /\ ((i - o) / 4 = t)%nat /\ ((i - o) mod 4 = k)%nat.
Proof.
  intros H1 H2. exists ((i - o) / 4)%nat, ((i - o) mod 4)%nat.
  pose proof (Nat.div_mod (i - o) 4 ltac:(lia)) as E. pose proof (Nat.mod_upper_bound (i - o) 4 ltac:(lia)) as Hm.
  repeat split; try lia; apply Nat.div_lt_upper_bound; lia.
Qed.

Lemma qdiff_toV (a b' : C03_Model.quat RM) k :
  rv_nth (O:=RM) (C03_Model.qdiff (O:=RM) a b') k = vcomp (qdiff_one ROps (toQ a) (toQ b')) k.
Proof. rewrite rv_nth_toV, qdiff_is_C18. reflexivity. Qed.

Lemma input_offset_q e x i : is_sigma_q e x -> (forall t, (t < circ)%nat -> ok_rv (blk lin e t)) -> (i < dx)%nat ->
  offsets (O:=O) Lin (p:=d) dx x m i 0%nat = e i.
Proof.
  intros (S1 & S2 & S3) Hok Hi. rewrite offsets_entry by exact Hi. unfold offset_row.
  change (l_lin Lin) with lin. change (l_circ Lin) with circ. change (l_tw Lin) with 3%nat. change (l_quat Lin) with true.
  destruct (Nat.ltb_spec i lin) as [H1|H1].
  - unfold colget. change (@mget O d 1) with (fget d 1). unfold fget. rewrite !inb_true by lia.
    rewrite (S1 i H1). simpl. ring.
  - replace (i <? lin + circ * 3)%nat with true by (symmetry; apply Nat.ltb_lt; lia). cbv iota.
    destruct (rot_index lin circ i H1 ltac:(lia)) as (t & k & Ht & Hk & Ei & Ed & Em). rewrite Ed, Em.
    etransitivity; [exact (qdiff_toV (quat_at (O:=O) (r:=d) x (lin + t * 4)) (quat_at (O:=O) (r:=d) m (lin + t * 4)) k)|].
    rewrite !quat_at_raw by nia. rewrite (S2 t Ht), (diff_sum_one _ _ (mean_unit t Ht)).
    destruct (log_pm_exp _ (Hok t Ht)) as [-> _]. rewrite vcomp_blk by exact Hk. now rewrite Ei.
Qed.

(* ---- one column through the map *)
Definition Yfq (x : fmx) : fmx := @madd O p 1 (@mmul O p d 1 Am x) b.
Definition mu_q (i : nat) : R := rsum d (fun j => Am i j * m j 0%nat) + b i 0%nat.
(* a tangent vector written on the storage rows (zero on the quaternion rows) *)
Definition es (e : nat -> R) (j : nat) : R :=
  if (j <? lin)%nat then e j else if (j <? lin + circ * 4)%nat then 0 else e (j - circ)%nat.
Definition qJ (e : nat -> R) (i : nat) : R := rsum dc (fun a => J i a * e a).

Hypothesis map_lin : forall i j, (i < olin)%nat -> (lin <= j)%nat -> (j < lin + circ * 4)%nat -> Am i j = 0.
Hypothesis map_quat : forall x t, (t < circ)%nat ->
  qraw (Yfq x) (olin + t * 4) = C18_Model.qmul ROps (C18_Model.qmul ROps (rl t) (qraw x (lin + t * 4))) (rr t).
Hypothesis tangent_lin : forall e i, (i < olin)%nat -> rsum d (fun j => Am i j * es e j) = qJ e i.
Hypothesis tangent_rot : forall e t k, (t < circ)%nat -> (k < 3)%nat ->
  qJ e (olin + t * 3 + k) = vcomp (rotv (rl t) (blk lin e t)) k.

Lemma Yfq_get x i : (i < p)%nat -> Yfq x i 0%nat = rsum d (fun j => Am i j * x j 0%nat) + b i 0%nat.
Proof.
  intros Hi. pose proof (affine_get sq eg d p Am b x i Hi) as E. unfold colget in E.
  change (@mget O p 1) with (fget p 1) in E. unfold fget in E. rewrite inb_true in E by lia. exact E.
Qed.

Lemma Yq_lin e x i : is_sigma_q e x -> (i < olin)%nat -> Yfq x i 0%nat = mu_q i + qJ e i.
Proof.
  intros (S1 & S2 & S3) Hi. rewrite Yfq_get by lia. unfold mu_q. rewrite <- (tangent_lin e i Hi).
  rewrite (rsum_ext d (fun j => Am i j * x j 0%nat) (fun j => Am i j * m j 0%nat + Am i j * es e j)).
  - rewrite rsum_plus. lra.
  - intros j Hj. unfold es. destruct (Nat.ltb_spec j lin) as [H1|H1].
    + rewrite (S1 j H1). ring.
    + destruct (Nat.ltb_spec j (lin + circ * 4)) as [H2|H2].
      * rewrite (map_lin i j Hi H1 H2). ring.
      * replace j with (lin + circ * 4 + (j - (lin + circ * 4)))%nat at 2 by lia.
        rewrite (S3 (j - (lin + circ * 4))%nat) by lia.
        replace (lin + circ * 4 + (j - (lin + circ * 4)))%nat with j by lia.
        replace (lin + circ * 3 + (j - (lin + circ * 4)))%nat with (j - circ)%nat by lia. ring.
Qed.

Definition qc (t : nat) : Q := C18_Model.qmul ROps (C18_Model.qmul ROps (rl t) (qbar t)) (rr t).

Lemma qc_unit t : (t < circ)%nat -> qnorm2 (qc t) = 1.
Proof. intros Ht. unfold qc. rewrite !qnorm2_mul, rl_unit, rr_unit, mean_unit by assumption. ring. Qed.

Lemma Yq_quat e x t : is_sigma_q e x -> (t < circ)%nat ->
  qraw (Yfq x) (olin + t * 4) = C18_Model.qmul ROps (rv_to_q ROps (rotv (rl t) (blk lin e t))) (qc t).
Proof.
  intros (S1 & S2 & S3) Ht. rewrite (map_quat x t Ht), (S2 t Ht). apply sandwich_sigma. now apply rl_unit.
Qed.

Lemma qJ_zero i : qJ (fun _ => 0) i = 0.
Proof. unfold qJ. transitivity (rsum dc (fun _ => 0)); [apply rsum_ext; intros; ring | apply rsum_0]. Qed.
Lemma qJ_plus k i : qJ (fun j => s * A j k) i = s * AmA sq dc dc P J i k.
Proof. unfold qJ, AmA. fold A. rewrite <- rsum_scal. apply rsum_ext. intros; ring. Qed.
Lemma qJ_minus k i : qJ (fun j => - (s * A j k)) i = - (s * AmA sq dc dc P J i k).
Proof. unfold qJ, AmA. fold A. rewrite <- rsum_scal, <- rsum_opp. apply rsum_ext. intros; ring. Qed.

(* ---- smallness *)
Hypothesis small_rot : forall t k, (t < circ)%nat -> (k < dc)%nat -> ok_rv (blk lin (fun j => s * A j k) t).

Lemma ok_e0 t : (t < circ)%nat -> ok_rv (blk lin (fun _ => 0) t).
Proof. intros _. left. reflexivity. Qed.
Lemma ok_ep k : (k < dc)%nat -> forall t, (t < circ)%nat -> ok_rv (blk lin (fun j => s * A j k) t).
Proof. intros Hk t Ht. now apply small_rot. Qed.
Lemma ok_en k : (k < dc)%nat -> forall t, (t < circ)%nat -> ok_rv (blk lin (fun j => - (s * A j k)) t).
Proof. intros Hk t Ht. rewrite blk_neg. apply ok_rv_neg. now apply small_rot. Qed.

(* ---- weights of the symmetric set *)
Variables (w0 w0c wi : R).
Let wm := w0 :: repeat wi (2 * dc).
Let wc := w0c :: repeat wi (2 * dc).
Hypothesis w_sum : w0 + 2 * INR dc * wi = 1.
Hypothesis w_i : 2 * wi * c = 1.
Hypothesis dc_pos : (0 < dc)%nat.
Hypothesis resultant_q : forall t, (t < circ)%nat ->
  0 < w0 + 2 * wi * rsum dc (fun k => cos (n3 (blk lin (fun j => s * A j k) t))).

Lemma wi_pos : 0 < wi.
Proof. assert (0 < wi * c) by lra. nra. Qed.

Let Xs := sigma_comp (O:=O) Lin d dc c m P.
Let Ys := affine_cols (O:=O) (d:=d) (p:=p) Am b Xs.
Let ybar := out_mean (O:=O) Lout p wm Ys.

Lemma Ysq_eq : Ys = map Yfq Xs.
Proof. reflexivity. Qed.

Lemma sigma_sumRq (G : R * fmx -> R) (u0 : R) :
  lsumR G (combine (u0 :: repeat wi (2 * dc)) Xs) =
  G (u0, X0q) + rsum dc (fun k => G (wi, Xpq k)) + rsum dc (fun k => G (wi, Xnq k)).
Proof. unfold Xs. rewrite sigma_comp_eq_q. apply sym_sum. Qed.

Lemma ybar_entry i : (i < p)%nat ->
  ybar i 0%nat =
  if (i <? olin)%nat then colget (O:=O) (wsum (O:=O) (r:=p) wm Ys) i
  else colget (O:=O) (mean_quaternion (O:=O) wm (map (fun y => quat_at (O:=O) (r:=p) y (olin + (i - olin) / 4 * 4)) Ys))
              ((i - olin) mod 4).
Proof.
  intros Hi. unfold ybar, out_mean. change (@mbuild O p 1) with (fbuild p 1). unfold fbuild.
  rewrite inb_true by lia. change (l_lin Lout) with olin. change (l_circ Lout) with circ.
  change (l_quat Lout) with true. change (l_cw Lout) with 4%nat.
  destruct (Nat.ltb_spec i olin) as [H1|H1]; [reflexivity|].
  replace (i <? olin + circ * 4)%nat with true by (symmetry; apply Nat.ltb_lt; lia). reflexivity.
Qed.

Lemma ybar_lin_q i : (i < olin)%nat -> ybar i 0%nat = mu_q i.
Proof.
  intros Hi. rewrite ybar_entry by lia. rewrite (proj2 (Nat.ltb_lt _ _) Hi).
  rewrite wsum_get by lia. rewrite Ysq_eq, combine_map_r, lsumR_map. cbn [fst snd].
  unfold wm. rewrite sigma_sumRq. cbn [fst snd].
  rewrite (Yq_lin _ _ i X0q_sigma Hi), qJ_zero.
  rewrite (rsum_ext dc (fun k => wi * Yfq (Xpq k) i 0%nat) (fun k => wi * mu_q i + wi * s * AmA sq dc dc P J i k)).
  2:{ intros k Hk. rewrite (Yq_lin _ _ i (Xpq_sigma k Hk) Hi), qJ_plus. ring. }
  rewrite (rsum_ext dc (fun k => wi * Yfq (Xnq k) i 0%nat) (fun k => wi * mu_q i + - (wi * s * AmA sq dc dc P J i k))).
  2:{ intros k Hk. rewrite (Yq_lin _ _ i (Xnq_sigma k Hk) Hi), qJ_minus. ring. }
  rewrite !rsum_plus, rsum_opp, !rsum_const.
  replace (mu_q i) with ((w0 + 2 * INR dc * wi) * mu_q i) at 4 by (rewrite w_sum; ring). ring.
Qed.

(* the output mean quaternion of block t, as the eigenvector oracle returned it *)
Definition qs_out (t : nat) : list (C03_Model.quat O) := map (fun y => quat_at (O:=O) (r:=p) y (olin + t * 4)) Ys.
Definition mquat (t : nat) : Q :=
  let M := mean_quaternion (O:=O) wm (qs_out t) in
  mkQR (colget (O:=O) (r:=4) M 0) (colget (O:=O) (r:=4) M 1) (colget (O:=O) (r:=4) M 2) (colget (O:=O) (r:=4) M 3).

Lemma ybar_quat t : (t < circ)%nat -> qraw ybar (olin + t * 4) = mquat t.
Proof.
  intros Ht. unfold qraw, mquat. cbv zeta.
  rewrite <- (Nat.add_0_r (olin + t * 4)) at 1.
  assert (E : forall k, (k < 4)%nat ->
     ybar (olin + t * 4 + k)%nat 0%nat = colget (O:=O) (r:=4) (mean_quaternion (O:=O) wm (qs_out t)) k).
  { intros k Hk. rewrite ybar_entry by nia.
    replace (olin + t * 4 + k <? olin)%nat with false by (symmetry; apply Nat.ltb_ge; lia).
    replace (olin + t * 4 + k - olin)%nat with (t * 4 + k)%nat by lia.
    destruct (divmod4 t k Hk) as [-> ->]. reflexivity. }
  rewrite !E by lia. reflexivity.
Qed.

(* the eigen-solver contract, per block, on the matrix the model hands to the oracle *)
Hypothesis eig_contract : forall t, (t < circ)%nat ->
  max_eig_contract (fun i j => fget 4 4 (quat_outer (O:=O) wm (qs_out t)) i j) (mquat t).

Definition vrot (t k : nat) : V := rotv (rl t) (blk lin (fun j => s * A j k) t).

Lemma rotv_V0 r : rotv r V0 = V0.
Proof. unfold rotv, V0, pureq. rewrite !qmul_R, qconj_R. unfold qvec. simpl. f_equal; ring. Qed.

Lemma osum_lsumR l i j : osum l i j = lsumR (fun pq : R * Q => fst pq * qcomp ROps (snd pq) i * qcomp ROps (snd pq) j) l.
Proof. induction l as [|x l IH]; simpl; [reflexivity|]. now rewrite IH. Qed.

Lemma quat_outer_entry ws (qs : list (C03_Model.quat O)) i j : (i < 4)%nat -> (j < 4)%nat ->
  fget 4 4 (quat_outer (O:=O) ws qs) i j = outer_sum ROps ws (map toQ qs) i j.
Proof.
  intros Hi Hj. unfold quat_outer. rewrite fold_add_get. rewrite outer_sum_R, osum_lsumR, combine_map_r, lsumR_map.
  simpl fget at 1. unfold fget at 1. rewrite inb_true by assumption. rewrite Rplus_0_l.
  apply lsumR_ext. intros [w q] _. cbn [fst snd].
  rewrite <- !(q_nth_qcomp q). simpl. unfold fget, fbuild. rewrite !inb_true by (assumption || lia). simpl.
  assert (E : forall X Y : R, w * (0 + X * Y) = w * X * Y) by (intros; ring). apply E.
Qed.

Lemma qs_out_sym t : (t < circ)%nat ->
  map toQ (qs_out t) =
  sym_quats (qc t) (map (fun k => rv_to_q ROps (vrot t k)) (seq 0 dc)).
Proof.
  intros Ht. unfold qs_out, sym_quats. rewrite Ysq_eq, !map_map. unfold Xs. rewrite sigma_comp_eq_q.
  cbn [map]. rewrite map_app, !map_map.
  assert (Ho : (olin + t * 4 + 3 < p)%nat) by nia.
  f_equal; [|f_equal].
  - rewrite quat_at_raw by exact Ho. rewrite (Yq_quat _ _ t X0q_sigma Ht), blk_zero, rotv_V0.
    rewrite rv_to_q_zone by (rewrite n3_V0; pose proof cut_pos; lra). apply qmul_1_l.
  - apply map_ext_in. intros k Hk. apply in_seq in Hk.
    rewrite quat_at_raw by exact Ho. rewrite (Yq_quat _ _ t (Xpq_sigma k ltac:(lia)) Ht). reflexivity.
  - apply map_ext_in. intros k Hk. apply in_seq in Hk.
    rewrite quat_at_raw by exact Ho. rewrite (Yq_quat _ _ t (Xnq_sigma k ltac:(lia)) Ht).
    rewrite blk_neg, rotv_neg, exp_neg. reflexivity.
Qed.

Definition al_out (t : nat) : list Q := map (fun k => rv_to_q ROps (vrot t k)) (seq 0 dc).

Lemma wi_all_pos : Forall (fun w => 0 < w) (repeat wi dc).
Proof. pose proof wi_pos as Hw. clear - Hw. induction dc; simpl; constructor; assumption. Qed.

Lemma resultant_coef t : (t < circ)%nat ->
  2 * vcoef (repeat wi dc) (al_out t) < w0 + 2 * sym_coef (repeat wi dc) (al_out t).
Proof.
  intros Ht. unfold al_out. rewrite vcoef_seq, sym_coef_seq, !lsumR_seq_id.
  rewrite (rsum_ext dc (fun k => qnorm2 (rv_to_q ROps (vrot t k)) - qw (rv_to_q ROps (vrot t k)) * qw (rv_to_q ROps (vrot t k)))
                       (fun k => 1 + - (qw (rv_to_q ROps (vrot t k)) * qw (rv_to_q ROps (vrot t k))))).
  2:{ intros k _. rewrite exp_unit. ring. }
  rewrite rsum_plus, rsum_opp, rsum_const.
  set (S2 := rsum dc (fun k => qw (rv_to_q ROps (vrot t k)) * qw (rv_to_q ROps (vrot t k)))).
  assert (Hle : rsum dc (fun k => cos (n3 (blk lin (fun j => s * A j k) t))) <= 2 * S2 - INR dc).
  { apply Rle_trans with (rsum dc (fun k => 2 * (qw (rv_to_q ROps (vrot t k)) * qw (rv_to_q ROps (vrot t k))) + -1)).
    - apply rsum_le. intros k _.
      pose proof (exp_w_cos (vrot t k)) as H. unfold vrot in H at 1. rewrite n3_rotv in H by (now apply rl_unit). lra.
    - rewrite rsum_plus, rsum_scal, rsum_const. unfold S2. lra. }
  pose proof (resultant_q t Ht) as Hr. pose proof wi_pos as Hw. nra.
Qed.

Lemma outer_matrix_sym t i j : (t < circ)%nat -> (i < 4)%nat -> (j < 4)%nat ->
  fget 4 4 (quat_outer (O:=O) wm (qs_out t)) i j =
  outer_sum ROps (sym_weights w0 (repeat wi dc)) (sym_quats (qc t) (al_out t)) i j.
Proof.
  intros Ht Hi Hj. rewrite quat_outer_entry by assumption. rewrite (qs_out_sym t Ht).
  unfold wm, sym_weights. replace (2 * dc)%nat with (dc + dc)%nat by lia. rewrite repeat_app. reflexivity.
Qed.

Lemma al_out_len t : length (repeat wi dc) = length (al_out t).
Proof. unfold al_out. now rewrite repeat_length, map_length, seq_length. Qed.

(* an oracle that returns the centre meets its contract: the premise eig_contract is satisfiable *)
Lemma oracle_centre_ok t : (t < circ)%nat -> mquat t = qc t ->
  max_eig_contract (fun i j => fget 4 4 (quat_outer (O:=O) wm (qs_out t)) i j) (mquat t).
Proof.
  intros Ht E. rewrite E.
  apply (max_eig_contract_ext4 (outer_sum ROps (sym_weights w0 (repeat wi dc)) (sym_quats (qc t) (al_out t)))).
  - intros i j Hi Hj. symmetry. now apply outer_matrix_sym.
  - apply centre_meets_contract; [now apply qc_unit | apply al_out_len | apply wi_all_pos | now apply resultant_coef].
Qed.

Lemma mquat_pm t : (t < circ)%nat -> mquat t = qc t \/ mquat t = qneg (qc t).
Proof.
  intros Ht.
  apply (centre_dominant (fun i j => fget 4 4 (quat_outer (O:=O) wm (qs_out t)) i j) (qc t) (mquat t) w0 (repeat wi dc) (al_out t)).
  - now apply qc_unit.
  - apply al_out_len.
  - apply wi_all_pos.
  - now apply resultant_coef.
  - intros i j Hi Hj. now apply outer_matrix_sym.
  - now apply eig_contract.
Qed.

(* ---- the output offsets are the propagated tangent offsets *)
Lemma output_offset_q e x i : is_sigma_q e x -> (forall t, (t < circ)%nat -> ok_rv (blk lin e t)) -> (i < pc)%nat ->
  offsets (O:=O) Lout (p:=p) pc (Yfq x) ybar i 0%nat = qJ e i.
Proof.
  intros Hx Hok Hi. rewrite offsets_entry by exact Hi. unfold offset_row.
  change (l_lin Lout) with olin. change (l_circ Lout) with circ. change (l_tw Lout) with 3%nat. change (l_quat Lout) with true.
  destruct (Nat.ltb_spec i olin) as [H1|H1].
  - unfold colget. change (@mget O p 1) with (fget p 1). unfold fget. rewrite !inb_true by lia.
    rewrite (Yq_lin e x i Hx H1), (ybar_lin_q i H1). simpl. ring.
  - replace (i <? olin + circ * 3)%nat with true by (symmetry; apply Nat.ltb_lt; lia). cbv iota.
    destruct (rot_index olin circ i H1 ltac:(lia)) as (t & k & Ht & Hk & Ei & Ed & Em). rewrite Ed, Em.
    etransitivity; [exact (qdiff_toV (quat_at (O:=O) (r:=p) (Yfq x) (olin + t * 4)) (quat_at (O:=O) (r:=p) ybar (olin + t * 4)) k)|].
    rewrite !quat_at_raw by nia. rewrite (Yq_quat e x t Hx Ht), (ybar_quat t Ht).
    set (v := rotv (rl t) (blk lin e t)).
    assert (Hv : ok_rv v) by (apply ok_rv_rotv; [now apply rl_unit | now apply Hok]).
    destruct (log_pm_exp v Hv) as [L1 L2]. destruct (qdiff_pm (rv_to_q ROps v) (qc t) (qc_unit t Ht)) as [D1 D2].
    rewrite Ei, (tangent_rot e t k Ht Hk). fold v.
    destruct (mquat_pm t Ht) as [-> | ->]; [rewrite D1, L1 | rewrite D2, L2]; reflexivity.
Qed.

(* ---- the transformed component *)
Let u := ut_component (O:=O) Lin Lout (d:=d) (p:=p) pc dx (mkUtw (O:=O) wm wc c) m Xs Ys.

Lemma comp_mean_lin_q i : (i < olin)%nat -> colget (O:=O) (r:=p) (uc_mean u) i = mu_q i.
Proof.
  intros Hi. unfold u, ut_component. cbn [uc_mean w_mean]. fold ybar.
  unfold colget. change (@mget O p 1) with (fget p 1). unfold fget. rewrite inb_true by lia. now apply ybar_lin_q.
Qed.

Lemma comp_mean_quat_q t : (t < circ)%nat ->
  qraw (uc_mean u) (olin + t * 4) = qc t \/ qraw (uc_mean u) (olin + t * 4) = qneg (qc t).
Proof.
  intros Ht. unfold u, ut_component. cbn [uc_mean w_mean]. fold ybar. rewrite (ybar_quat t Ht). now apply mquat_pm.
Qed.

Lemma s_sq_q : s * s = c.
Proof. unfold s. apply sqrt_sqrt. lra. Qed.

Lemma comp_cov_q i j : (i < pc)%nat -> (j < pc)%nat -> @mget O pc pc (uc_cov u) i j = cov_image dc P J i j.
Proof.
  intros Hi Hj. unfold u, ut_component. cbn [uc_cov w_cov w_mean]. fold ybar.
  rewrite wouter_get by assumption.
  rewrite Ysq_eq, map_map, combine_map2, combine_map_r, lsumR_map. cbn [fst snd].
  unfold wc. rewrite sigma_sumRq. cbn [fst snd].
  rewrite !(output_offset_q _ _ _ X0q_sigma ok_e0) by assumption. rewrite !qJ_zero.
  rewrite (rsum_ext dc (fun k => wi * (offsets (O:=O) Lout (p:=p) pc (Yfq (Xpq k)) ybar i 0%nat * offsets (O:=O) Lout (p:=p) pc (Yfq (Xpq k)) ybar j 0%nat))
                   (fun k => wi * (s * s) * (AmA sq dc dc P J i k * AmA sq dc dc P J j k))).
  2:{ intros k Hk. rewrite !(output_offset_q _ _ _ (Xpq_sigma k Hk) (ok_ep k Hk)) by assumption. rewrite !qJ_plus. ring. }
  rewrite (rsum_ext dc (fun k => wi * (offsets (O:=O) Lout (p:=p) pc (Yfq (Xnq k)) ybar i 0%nat * offsets (O:=O) Lout (p:=p) pc (Yfq (Xnq k)) ybar j 0%nat))
                   (fun k => wi * (s * s) * (AmA sq dc dc P J i k * AmA sq dc dc P J j k))).
  2:{ intros k Hk. rewrite !(output_offset_q _ _ _ (Xnq_sigma k Hk) (ok_en k Hk)) by assumption. rewrite !qJ_minus. ring. }
  rewrite !rsum_scal, s_sq_q.
  rewrite (gram_cov sq dc 0 0 0 0 dc dc dc 0 0 ltac:(lia) eq_refl ltac:(lia) eq_refl eq_refl P J factor dc_pos i j).
  fold (cov_image dc P J i j).
  assert (E : wi * c = 1 / 2) by lra. rewrite E. lra.
Qed.

Lemma comp_cross_q i j : (i < dx)%nat -> (j < pc)%nat -> @mget O dx pc (uc_cross u) i j = cross_image dc P J i j.
Proof.
  intros Hi Hj. unfold u, ut_component. cbn [uc_cross w_cov w_mean]. fold ybar.
  rewrite wouter_get by assumption.
  rewrite Ysq_eq, map_map, combine_map2, combine_map_r, lsumR_map. cbn [fst snd].
  unfold wc. rewrite sigma_sumRq. cbn [fst snd].
  rewrite (output_offset_q _ _ _ X0q_sigma ok_e0) by assumption. rewrite qJ_zero.
  rewrite (rsum_ext dc (fun k => wi * (offsets (O:=O) Lin (p:=d) dx (Xpq k) m i 0%nat * offsets (O:=O) Lout (p:=p) pc (Yfq (Xpq k)) ybar j 0%nat))
                   (fun k => wi * (s * s) * (A i k * AmA sq dc dc P J j k))).
  2:{ intros k Hk. rewrite (output_offset_q _ _ _ (Xpq_sigma k Hk) (ok_ep k Hk)) by assumption.
      rewrite (input_offset_q _ _ _ (Xpq_sigma k Hk) (ok_ep k Hk)) by assumption. rewrite qJ_plus. ring. }
  rewrite (rsum_ext dc (fun k => wi * (offsets (O:=O) Lin (p:=d) dx (Xnq k) m i 0%nat * offsets (O:=O) Lout (p:=p) pc (Yfq (Xnq k)) ybar j 0%nat))
                   (fun k => wi * (s * s) * (A i k * AmA sq dc dc P J j k))).
  2:{ intros k Hk. rewrite (output_offset_q _ _ _ (Xnq_sigma k Hk) (ok_en k Hk)) by assumption.
      rewrite (input_offset_q _ _ _ (Xnq_sigma k Hk) (ok_en k Hk)) by assumption. rewrite qJ_minus. ring. }
  rewrite !rsum_scal, s_sq_q. unfold A.
  rewrite (gram_cross sq dc 0 0 0 0 dc dc dc 0 0 ltac:(lia) eq_refl ltac:(lia) eq_refl eq_refl P J factor dc_pos i j ltac:(lia)).
  fold (cross_image dc P J i j).
  assert (E : wi * c = 1 / 2) by lra. rewrite E. lra.
Qed.
End QuatComponent.

(* ------------------------------------------------------------------ component i of the transformed mixture, any layout *)
Section CoreGeneric.
Variables sq eg : nat -> fmx -> fmx.
Notation O := (RF sq eg).
Variables (Lin Lout : layout) (d dc dx p pc : nat) (w : utw O) (Am b : fmx) (comps : list (fmx * fmx)).
Hypothesis sigma_len : forall mc, length (sigma_comp (O:=O) Lin d dc (w_c w) (fst mc) (snd mc)) = (2 * dc + 1)%nat.
Let X := sigma_points (O:=O) Lin d dc (w_c w) comps.
Let r := ut_core (O:=O) Lin Lout (d:=d) (dc:=dc) (p:=p) pc dx w comps X (affine_cols (O:=O) (d:=d) (p:=p) Am b X).

Lemma core_chunk i mc0 : (i < length comps)%nat ->
  chunk (2 * dc + 1) i X = sigma_comp (O:=O) Lin d dc (w_c w) (fst (nth i comps mc0)) (snd (nth i comps mc0)).
Proof.
  intros Hi. unfold X, sigma_points. rewrite chunk_concatR.
  - rewrite (nth_indep _ _ (sigma_comp (O:=O) Lin d dc (w_c w) (fst mc0) (snd mc0))) by (now rewrite map_length).
    apply (map_nth (fun mc => sigma_comp (O:=O) Lin d dc (w_c w) (fst mc) (snd mc))).
  - intros l Hl. apply in_map_iff in Hl. destruct Hl as [mc [<- _]]. apply sigma_len.
  - now rewrite map_length.
Qed.

Lemma core_comp i u0 mc0 : (i < length comps)%nat ->
  nth i (ur_comps r) u0 =
  ut_component (O:=O) Lin Lout (d:=d) (p:=p) pc dx w (fst (nth i comps mc0))
    (sigma_comp (O:=O) Lin d dc (w_c w) (fst (nth i comps mc0)) (snd (nth i comps mc0)))
    (affine_cols (O:=O) (d:=d) (p:=p) Am b (sigma_comp (O:=O) Lin d dc (w_c w) (fst (nth i comps mc0)) (snd (nth i comps mc0)))).
Proof.
  intros Hi. unfold r, ut_core. cbn [ur_comps].
  pose (h := fun (i : nat) (mc : fmx * fmx) => ut_component (O:=O) Lin Lout (d:=d) (p:=p) pc dx w (fst mc)
             (chunk (2 * dc + 1) i X) (chunk (2 * dc + 1) i (affine_cols (O:=O) (d:=d) (p:=p) Am b X))).
  etransitivity; [exact (map_indexedR h comps mc0 u0 i Hi)|]. unfold h.
  unfold affine_cols at 1. rewrite chunk_mapR, (core_chunk i mc0 Hi). reflexivity.
Qed.

Lemma core_length : length (ur_comps r) = length comps.
Proof. unfold r, ut_core. cbn [ur_comps]. rewrite map_length, combine_length, seq_length. apply Nat.min_id. Qed.

Lemma core_weights : ur_weights r = repeat (1 / INR (length comps)) (length comps).
Proof. unfold r, ut_core. cbn [ur_weights]. change (sc O) with ROps. rewrite sofnat_R. reflexivity. Qed.
End CoreGeneric.

(* ------------------------------------------------------------------ the whole mixture, all overloads *)
(* the map: unit quaternions on both sides of every quaternion block, linear rows that do not read the
   quaternion rows, and J the matrix of the tangent map *)
Definition quat_map_ok (sq eg : nat -> fmx -> fmx) (lin circ olin d dc p : nat) (Am b J : fmx) (rl rr : nat -> Q) : Prop :=
  (forall t, (t < circ)%nat -> qnorm2 (rl t) = 1) /\
  (forall t, (t < circ)%nat -> qnorm2 (rr t) = 1) /\
  (forall i j, (i < olin)%nat -> (lin <= j)%nat -> (j < lin + circ * 4)%nat -> Am i j = 0) /\
  (forall x t, (t < circ)%nat ->
     qraw (Yfq sq eg d p Am b x) (olin + t * 4) =
     C18_Model.qmul ROps (C18_Model.qmul ROps (rl t) (qraw x (lin + t * 4))) (rr t)) /\
  (forall e i, (i < olin)%nat -> rsum d (fun j => Am i j * es lin circ e j) = qJ dc J e i) /\
  (forall e t k, (t < circ)%nat -> (k < 3)%nat -> qJ dc J e (olin + t * 3 + k) = vcomp (rotv (rl t) (blk lin e t)) k).

(* one component: factor contract, unit mean quaternions, every rotation-vector block of every sigma offset
   readable by the exp / log pair (zero, or outside the cut-off zone and within a half turn), positive
   weighted resultant per block, eigen-solver contract per block *)
Definition quat_comp_ok (sq eg : nat -> fmx -> fmx) (lin circ noise olin d dc p : nat) (c w0 wi : R) (Am b : fmx)
           (mc : fmx * fmx) : Prop :=
  factor_ok sq dc (snd mc) /\
  (forall t, (t < circ)%nat -> qnorm2 (qraw (fst mc) (lin + t * 4)) = 1) /\
  (forall t k, (t < circ)%nat -> (k < dc)%nat -> ok_rv (blk lin (fun j => sqrt c * sq dc (snd mc) j k) t)) /\
  (forall t, (t < circ)%nat ->
     0 < w0 + 2 * wi * rsum dc (fun k => cos (n3 (blk lin (fun j => sqrt c * sq dc (snd mc) j k) t)))) /\
  (forall t, (t < circ)%nat ->
     max_eig_contract
       (fun i j => fget 4 4 (quat_outer (O:=RF sq eg) (w0 :: repeat wi (2 * dc))
                               (qs_out sq eg lin circ noise olin d dc p c (fst mc) (snd mc) Am b t)) i j)
       (mquat sq eg lin circ noise olin d dc p c (fst mc) (snd mc) Am b w0 wi t)).

Section QuatMixture.
Variables sq eg : nat -> fmx -> fmx.
Notation O := (RF sq eg).
Variables lin circ noise olin : nat.
Let Lin := mkLayout lin circ true noise.
Let Lout := mkLayout olin circ true 0.
Let d := l_dim Lin.
Let dc := l_dcov Lin.
Let dx := l_dx Lin.
Let p := l_dim Lout.
Let pc := l_dcov Lout.
Variables alpha beta kappa : R.
Let w := ut_weights (O:=O) dc alpha beta kappa.
Let c := w_c w.
Let w0 := nth 0 (w_mean w) 0.
Let wi := nth 1 (w_mean w) 0.
Variables Am b J : fmx.
Variables rl rr : nat -> Q.
Variable comps : list (fmx * fmx).
Let k := length comps.

Hypothesis dc_pos : (0 < dc)%nat.
Hypothesis c_pos : 0 < c.
Hypothesis map_ok : quat_map_ok sq eg lin circ olin d dc p Am b J rl rr.
Hypothesis comps_ok : forall mc, In mc comps -> quat_comp_ok sq eg lin circ noise olin d dc p c w0 wi Am b mc.

(* what the property states about one transformed component *)
Definition quat_image (N : fmx) (mc : fmx * fmx) (u : ut_comp O p pc dx) : Prop :=
  (forall i, (i < olin)%nat -> colget (O:=O) (r:=p) (uc_mean u) i = mu_q d (fst mc) Am b i) /\
  (forall t, (t < circ)%nat ->
     qraw (uc_mean u) (olin + t * 4) = qc lin (fst mc) rl rr t \/
     qraw (uc_mean u) (olin + t * 4) = qneg (qc lin (fst mc) rl rr t)) /\
  (forall i j, (i < pc)%nat -> (j < pc)%nat -> @mget O pc pc (uc_cov u) i j = cov_image dc (snd mc) J i j + N i j) /\
  (forall i j, (i < dx)%nat -> (j < pc)%nat -> @mget O dx pc (uc_cross u) i j = cross_image dc (snd mc) J i j).

Let X := sigma_points (O:=O) Lin d dc c comps.
Let r := ut_core (O:=O) Lin Lout (d:=d) (dc:=dc) (p:=p) pc dx w comps X (affine_cols (O:=O) (d:=d) (p:=p) Am b X).

Lemma dims_q : d = (lin + circ * 4 + noise)%nat /\ dc = (lin + circ * 3 + noise)%nat /\ dx = (lin + circ * 3)%nat /\
               p = (olin + circ * 4)%nat /\ pc = (olin + circ * 3)%nat.
Proof. unfold d, dc, dx, p, pc, l_dim, l_dcov, l_dx, l_cw, l_tw, Lin, Lout. simpl. lia. Qed.

Lemma w_form_q : w = mkUtw (O:=O) (w0 :: repeat wi (2 * dc)) (nth 0 (w_cov w) 0 :: repeat wi (2 * dc)) c.
Proof. exact (ut_weights_R_form sq eg dc alpha beta kappa dc_pos). Qed.

Lemma w_facts_q : w0 + 2 * INR dc * wi = 1 /\ 2 * wi * c = 1.
Proof. apply (ut_weights_R_sums sq eg dc alpha beta kappa dc_pos). unfold c in c_pos. fold w. lra. Qed.

Lemma sigma_len_q mc : length (sigma_comp (O:=O) Lin d dc (w_c w) (fst mc) (snd mc)) = (2 * dc + 1)%nat.
Proof.
  destruct dims_q as (E1 & E2 & E3 & E4 & E5).
  eapply (sigma_comp_len_q sq eg lin circ noise); eassumption.
Qed.

Lemma r_image_q i u0 mc0 : (i < k)%nat -> quat_image (fun _ _ => 0) (nth i comps mc0) (nth i (ur_comps r) u0).
Proof.
  intros Hi. destruct dims_q as (E1 & E2 & E3 & E4 & E5). destruct w_facts_q as [W1 W2].
  assert (Hin : In (nth i comps mc0) comps) by (apply nth_In; exact Hi).
  destruct (comps_ok _ Hin) as (HF & HU & HS & HR & HE).
  destruct map_ok as (M1 & M2 & M3 & M4 & M5 & M6).
  unfold r, X, c. rewrite (core_comp sq eg Lin Lout d dc dx p pc w Am b comps sigma_len_q i u0 mc0 Hi).
  fold c. rewrite w_form_q.
  split; [|split; [|split]].
  - intros i' Hi'.
    first [eapply comp_mean_lin_q with (rl := rl) (rr := rr) (J := J) | eapply comp_mean_lin_q with (rl := rl) (rr := rr) | eapply comp_mean_lin_q with (J := J)]; try eassumption.
  - intros t Ht.
    first [eapply comp_mean_quat_q with (rl := rl) (rr := rr) (J := J) | eapply comp_mean_quat_q with (rl := rl) (rr := rr) | eapply comp_mean_quat_q with (J := J)]; try eassumption.
  - intros i' j' Hi' Hj'. rewrite Rplus_0_r.
    first [eapply comp_cov_q with (rl := rl) (rr := rr) (J := J) | eapply comp_cov_q with (rl := rl) (rr := rr) | eapply comp_cov_q with (J := J)]; try eassumption.
  - intros i' j' Hi' Hj'.
    first [eapply comp_cross_q with (rl := rl) (rr := rr) (J := J) | eapply comp_cross_q with (rl := rl) (rr := rr) | eapply comp_cross_q with (J := J)]; try eassumption.
Qed.

Lemma r_length_q : length (ur_comps r) = k.
Proof. apply (core_length sq eg). Qed.

Lemma r_weights_q : ur_weights r = repeat (1 / INR k) k.
Proof. apply (core_weights sq eg). Qed.

Lemma noise_image_q N i u0 mc0 : (i < k)%nat ->
  quat_image N (nth i comps mc0) (nth i (ur_comps (add_noise_cov (O:=O) N r)) u0).
Proof.
  intros Hi. unfold add_noise_cov. cbn [ur_comps].
  set (f := fun u : ut_comp O p pc dx => mkUtComp (O:=O) (uc_mean u) (@madd O pc pc (uc_cov u) N) (uc_cross u)).
  rewrite (nth_indep _ u0 (f u0)) by (rewrite map_length, r_length_q; exact Hi).
  rewrite (map_nth f). unfold f. destruct (r_image_q i u0 mc0 Hi) as (M1 & M1' & M2 & M3).
  split; [|split; [|split]]; cbn [uc_mean uc_cov uc_cross]; [exact M1 | exact M1' | | exact M3].
  intros i' j' Hi' Hj'. change (@mget O pc pc) with (fget pc pc). rewrite fget_add.
  change (fget pc pc (uc_cov (nth i (ur_comps r) u0))) with (@mget O pc pc (uc_cov (nth i (ur_comps r) u0))).
  rewrite (M2 i' j' Hi' Hj'), Rplus_0_r. unfold fget. rewrite inb_true by assumption. reflexivity.
Qed.

Definition quat_exact_statement : Prop :=
  ut_generic (O:=O) Lin Lout (d:=d) (dc:=dc) (p:=p) pc dx w comps
             (fun X => Some (affine_cols (O:=O) (d:=d) (p:=p) Am b X)) = Some r /\
  ut_meas (O:=O) Lin Lout (d:=d) (dc:=dc) (p:=p) pc dx w comps
          (fun X => Some (affine_cols (O:=O) (d:=d) (p:=p) Am b X)) = Some r /\
  ut_state (O:=O) Lin Lout (d:=d) (dc:=dc) (p:=p) pc dx w comps (affine_cols (O:=O) (d:=d) (p:=p) Am b) = r /\
  (forall N, ut_additive_state (O:=O) Lin Lout (d:=d) (dc:=dc) (p:=p) pc dx w comps
               (affine_cols (O:=O) (d:=d) (p:=p) Am b) N = add_noise_cov (O:=O) N r /\
             ut_additive_meas (O:=O) Lin Lout (d:=d) (dc:=dc) (p:=p) pc dx w comps
               (fun X => Some (affine_cols (O:=O) (d:=d) (p:=p) Am b X)) N = Some (add_noise_cov (O:=O) N r)) /\
  ur_weights r = repeat (1 / INR k) k /\ length (ur_comps r) = k /\
  (forall N, ur_weights (add_noise_cov (O:=O) N r) = repeat (1 / INR k) k /\
             length (ur_comps (add_noise_cov (O:=O) N r)) = k) /\
  (forall i u0 mc0, (i < k)%nat -> quat_image (fun _ _ => 0) (nth i comps mc0) (nth i (ur_comps r) u0)) /\
  (forall N i u0 mc0, (i < k)%nat ->
     quat_image N (nth i comps mc0) (nth i (ur_comps (add_noise_cov (O:=O) N r)) u0)).

Theorem quat_affine_exact : quat_exact_statement.
Proof.
  split; [reflexivity|]. split; [reflexivity|]. split; [reflexivity|].
  split; [intros N; split; reflexivity|].
  split; [exact r_weights_q|]. split; [exact r_length_q|].
  split; [intros N; split; [exact r_weights_q | unfold add_noise_cov; cbn [ur_comps]; rewrite map_length; exact r_length_q]|].
  split; [exact r_image_q | exact noise_image_q].
Qed.
End QuatMixture.
