(* C02_Model.v — model of the Kalman prediction step:
     GaussianPrediction::predict        (GaussianPrediction.cpp:18-24)
     KFPrediction::predictStep          (KFPrediction.cpp:46-63)
     LinearStateModel::propagate        (LinearStateModel.cpp:16-38)
     LTIStateModel::getStateTransitionMatrix / getNoiseCovarianceMatrix
   Polymorphic in the arithmetic (MatOps).  The exogenous model is an arbitrary
   function of the whole n x k matrix of means (ExogenousProcess::propagate is
   called once, on all columns).  Output objects are in-out: every function
   takes the previous content of the object it writes into. *)
Require Import ZArith List Bool.
Require Import BFL.Ops.
Import ListNotations.
Local Open Scope bool_scope.

Section KFP.
Variable O : MatOps.
Notation S := (sc O).

(* a Gaussian mixture with k components of dimension n at algorithm level:
   GaussianMixture::mean() is the n x k matrix of means; covariance(i) and
   weight(i) are the entries of two lists (C11 ties this view to the storage) *)
Record gmix (n k : nat) := mkGmix {
  gm_means : M O n k;
  gm_covs : list (M O n n);
  gm_weights : list (T S)
}.
Arguments mkGmix {n k}. Arguments gm_means {n k}. Arguments gm_covs {n k}. Arguments gm_weights {n k}.

(* LinearStateModel::propagate.  [exo] = None: no exogenous model attached
   (have_exogenous_model() = false); Some u: attached, u its propagate.
   [prop_old] is the content of prop_states on entry (kept when no branch fires). *)
Definition lin_propagate {n k} (F : M O n n) (exo : option (M O n k -> M O n k))
           (skip_state skip_exo : bool) (cur prop_old : M O n k) : M O n k :=
  match exo with
  | Some u =>
      if skip_state && skip_exo then cur
      else if negb skip_state && negb skip_exo then madd (mmul F cur) (u cur)
      else if negb skip_state then mmul F cur
      else if negb skip_exo then u cur
      else prop_old
  | None =>
      (* every test on the exogenous model is short-circuited to false *)
      if negb skip_state then mmul F cur else prop_old
  end.

(* body of the covariance loop, KFPrediction.cpp:61-62 *)
Definition kf_predict_cov {n} (F Q P : M O n n) : M O n n :=
  madd (mmul (mmul F P) (mtr F)) Q.

(* "for i < prev.components: pred.covariance(i) = ..." on an output object that
   already holds [old]: the first (length new) entries are overwritten *)
Definition overwrite_prefix {A} (new old : list A) : list A := new ++ skipn (length new) old.

(* KFPrediction::predictStep *)
Definition kf_predict_step {n k} (F Q : M O n n) (exo : option (M O n k -> M O n k))
           (skip_state skip_exo : bool) (prev pred_old : gmix n k) : gmix n k :=
  if skip_state then prev                      (* pred_state = prev_state *)
  else mkGmix (lin_propagate F exo skip_state skip_exo (gm_means prev) (gm_means pred_old))
              (overwrite_prefix (map (kf_predict_cov F Q) (gm_covs prev)) (gm_covs pred_old))
              (gm_weights pred_old).           (* weights are not written *)

(* GaussianPrediction::predict; skip_pred is GaussianPrediction::skip_ *)
Definition gaussian_predict {n k} (F Q : M O n n) (exo : option (M O n k -> M O n k))
           (skip_pred skip_state skip_exo : bool) (prev pred_old : gmix n k) : gmix n k :=
  if negb skip_pred then kf_predict_step F Q exo skip_state skip_exo prev pred_old
  else prev.

(* the step with nothing skipped: what the property speaks about *)
Definition kf_predict {n k} (F Q : M O n n) (exo : option (M O n k -> M O n k))
           (prev pred_old : gmix n k) : gmix n k :=
  gaussian_predict F Q exo false false false prev pred_old.

(* component i of a mixture: mean column and covariance *)
Definition gm_mean_i {n k} (g : gmix n k) (i : nat) : M O n 1 := mcol i (gm_means g).

(* the exogenous model of the correspondence harness: u(X) = B X + c 1^T *)
Definition affine_exo {n k} (B : M O n n) (c : M O n 1) (X : M O n k) : M O n k :=
  madd (mmul B X) (mmul c (mconst O 1 k (s1 S))).

(* spec-level prediction of one component, computed column by column *)
Definition spec_mean {n} (F : M O n n) (u : M O n 1) (x : M O n 1) : M O n 1 := madd (mmul F x) u.
End KFP.

Arguments mkGmix {_ n k}. Arguments gm_means {_ n k}. Arguments gm_covs {_ n k}. Arguments gm_weights {_ n k}.
Arguments lin_propagate {_ n k}. Arguments kf_predict_cov {_ n}. Arguments overwrite_prefix {A}.
Arguments kf_predict_step {_ n k}. Arguments gaussian_predict {_ n k}. Arguments kf_predict {_ n k}.
Arguments gm_mean_i {_ n k}. Arguments affine_exo {_ n k}. Arguments spec_mean {_ n}.
