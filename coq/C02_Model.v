(* C02_Model.v — model of the Kalman prediction step:
     GaussianPrediction::predict        (GaussianPrediction.cpp:18-24)
     KFPrediction::predictStep          (KFPrediction.cpp:46-63)
     LinearStateModel::propagate        (LinearStateModel.cpp:16-38)
     LTIStateModel::getStateTransitionMatrix / getNoiseCovarianceMatrix
   Polymorphic in the arithmetic (MatOps).  The exogenous model is an arbitrary
   function of the whole n x k matrix of means (ExogenousProcess::propagate is
   called once, on all columns).  Output objects are in-out: every function
   takes the previous content of the object it writes into.

   Layout.  A GaussianMixture carries descriptors (components, dim_linear,
   dim_circular, use_quaternion, dim_noise; dim and dim_covariance follow from
   them, C11).  Neither predict nor predictStep sizes the output object:
     - a skipped prediction (GaussianPrediction::skip_ or the state model's flag)
       copy-assigns the input belief, descriptors included, whatever the output
       object was;
     - otherwise the mean is written through a fixed-size view of the output's
       storage (Ref<MatrixXd>) and covariance(i), i < prev.components, through
       fixed-size blocks: the descriptors of the output object are NOT written.
       The step is therefore only defined on an output object with the
       components / dim / dim_covariance of the input (gl_same_shape); its
       linear/circular split, quaternion flag, noise size, weights and content
       are arbitrary, and the first three stay what they were. *)
Require Import ZArith List Bool.
Require Import BFL.Ops.
Import ListNotations.
Local Open Scope bool_scope.

(* descriptors of a GaussianMixture (GaussianMixture.h: components, dim_linear,
   dim_circular, use_quaternion, dim_noise) *)
Record glayout := mkGlayout {
  gl_components : nat;
  gl_dim_linear : nat;
  gl_dim_circular : nat;
  gl_quat : bool;
  gl_dim_noise : nat
}.
(* dim and dim_covariance as the constructor / resize / augmentWithNoise keep them *)
Definition gl_dim (l : glayout) : nat :=
  gl_dim_linear l + gl_dim_circular l * (if gl_quat l then 4 else 1) + gl_dim_noise l.
Definition gl_dim_cov (l : glayout) : nat :=
  gl_dim_linear l + gl_dim_circular l * (if gl_quat l then 3 else 1) + gl_dim_noise l.
(* what the fixed-size views of a non-skipped step need *)
Definition gl_same_shape (a b : glayout) : bool :=
  Nat.eqb (gl_components a) (gl_components b) && Nat.eqb (gl_dim a) (gl_dim b) && Nat.eqb (gl_dim_cov a) (gl_dim_cov b).

Section KFP.
Variable O : MatOps.
Notation S := (sc O).

(* a Gaussian mixture with k components of dimension n at algorithm level:
   GaussianMixture::mean() is the n x k matrix of means; covariance(i) and
   weight(i) are the entries of two lists (C11 ties this view to the storage);
   gm_layout are the descriptors the object reports *)
Record gmix (n k : nat) := mkGmix {
  gm_means : M O n k;
  gm_covs : list (M O n n);
  gm_weights : list (T S);
  gm_layout : glayout
}.
Arguments mkGmix {n k}. Arguments gm_means {n k}. Arguments gm_covs {n k}. Arguments gm_weights {n k}.
Arguments gm_layout {n k}.

(* the object is as C11 leaves it: one covariance and one weight per reported
   component, means and covariances of the reported sizes *)
Definition gm_shaped {n k} (g : gmix n k) : Prop :=
  length (gm_covs g) = gl_components (gm_layout g) /\
  length (gm_weights g) = gl_components (gm_layout g) /\
  gl_components (gm_layout g) = k /\ gl_dim (gm_layout g) = n /\ gl_dim_cov (gm_layout g) = n.

(* LinearStateModel::propagate.  [exo] = None: no exogenous model attached
   (have_exogenous_model() = false); Some u: attached, u its propagate.
   [prop_old] is the content of prop_states on entry (kept when no branch fires). *)
Definition lin_propagate {n k} (F : M O n n) (exo : option (M O n k -> M O n k))
           (skip_state skip_exo : bool) (cur prop_old : M O n k) : M O n k :=
  match exo with
  | Some u =>
      if skip_state && skip_exo then cur
      else if negb skip_state && negb skip_exo then madd (mmul F cur) (u cur)
      else if negb skip_state then mmul F cur
      else if negb skip_exo then u cur
      else prop_old
  | None =>
      (* every test on the exogenous model is short-circuited to false *)
      if negb skip_state then mmul F cur else prop_old
  end.

(* body of the covariance loop, KFPrediction.cpp:61-62 *)
Definition kf_predict_cov {n} (F Q P : M O n n) : M O n n :=
  madd (mmul (mmul F P) (mtr F)) Q.

(* "for i < prev.components: pred.covariance(i) = ..." on an output object that
   already holds [old]: the first (length new) entries are overwritten *)
Definition overwrite_prefix {A} (new old : list A) : list A := new ++ skipn (length new) old.

(* KFPrediction::predictStep *)
Definition kf_predict_step {n k} (F Q : M O n n) (exo : option (M O n k -> M O n k))
           (skip_state skip_exo : bool) (prev pred_old : gmix n k) : gmix n k :=
  if skip_state then prev                      (* pred_state = prev_state: the whole object, descriptors included *)
  else mkGmix (lin_propagate F exo skip_state skip_exo (gm_means prev) (gm_means pred_old))
              (overwrite_prefix (map (kf_predict_cov F Q) (gm_covs prev)) (gm_covs pred_old))
              (gm_weights pred_old)            (* weights are not written *)
              (gm_layout pred_old).            (* descriptors are not written: no resize *)

(* GaussianPrediction::predict; skip_pred is GaussianPrediction::skip_ *)
Definition gaussian_predict {n k} (F Q : M O n n) (exo : option (M O n k -> M O n k))
           (skip_pred skip_state skip_exo : bool) (prev pred_old : gmix n k) : gmix n k :=
  if negb skip_pred then kf_predict_step F Q exo skip_state skip_exo prev pred_old
  else prev.

(* the step with nothing skipped: what the property speaks about *)
Definition kf_predict {n k} (F Q : M O n n) (exo : option (M O n k -> M O n k))
           (prev pred_old : gmix n k) : gmix n k :=
  gaussian_predict F Q exo false false false prev pred_old.

(* component i of a mixture: mean column and covariance *)
Definition gm_mean_i {n k} (g : gmix n k) (i : nat) : M O n 1 := mcol i (gm_means g).

(* the exogenous model of the correspondence harness: u(X) = B X + c 1^T *)
Definition affine_exo {n k} (B : M O n n) (c : M O n 1) (X : M O n k) : M O n k :=
  madd (mmul B X) (mmul c (mconst O 1 k (s1 S))).
(* ... attached or not *)
Definition affine_exo_opt {n k} (e : option (M O n n * M O n 1)) : option (M O n k -> M O n k) :=
  match e with
  | Some (B, c) => Some (affine_exo B c)
  | None => None
  end.

(* spec-level prediction of one component, computed column by column *)
Definition spec_mean {n} (F : M O n n) (u : M O n 1) (x : M O n 1) : M O n 1 := madd (mmul F x) u.

(* spec of the whole step, component by component: (F m_i + u_i, F P_i F^T + Q),
   u_i = B m_i + c for the affine exogenous model, 0 without one *)
Definition kf_spec {n k} (F Q : M O n n) (e : option (M O n n * M O n 1))
           (means : M O n k) (covs : list (M O n n)) : list (M O n 1 * M O n n) :=
  map (fun ip : nat * M O n n =>
         let x := mcol (fst ip) means in
         let u := match e with
                  | Some (B, c) => madd (mmul B x) c
                  | None => mzero n 1
                  end in
         (spec_mean F u x, kf_predict_cov F Q (snd ip)))
      (combine (seq 0 (length covs)) covs).

(* ONE prediction object driven through several calls.  Between the calls the
   owner may change everything the object reads: the matrices of the (time
   varying) state model, its exogenous model, the three skip flags, even the
   model itself (move assignment from another prediction) and with it the
   state dimension; the beliefs and output objects are those of the call.  The
   object keeps nothing from one call to the next (KFPrediction has no member
   besides the model): the answer to call s is the step on the inputs of call s. *)
Record kf_call := mkCall {
  kc_n : nat; kc_k : nat;
  kc_F : M O kc_n kc_n; kc_Q : M O kc_n kc_n;
  kc_exo : option (M O kc_n kc_k -> M O kc_n kc_k);
  kc_sp : bool; kc_ss : bool; kc_se : bool;
  kc_prev : gmix kc_n kc_k; kc_old : gmix kc_n kc_k
}.
Record kf_ret := mkRet { kr_n : nat; kr_k : nat; kr_mix : gmix kr_n kr_k }.
Definition kf_call_run (c : kf_call) : kf_ret :=
  mkRet (kc_n c) (kc_k c)
        (gaussian_predict (kc_F c) (kc_Q c) (kc_exo c) (kc_sp c) (kc_ss c) (kc_se c) (kc_prev c) (kc_old c)).
Definition kf_predict_seq (calls : list kf_call) : list kf_ret := map kf_call_run calls.
End KFP.

Arguments mkGmix {_ n k}. Arguments gm_means {_ n k}. Arguments gm_covs {_ n k}. Arguments gm_weights {_ n k}.
Arguments gm_layout {_ n k}. Arguments gm_shaped {_ n k}.
Arguments lin_propagate {_ n k}. Arguments kf_predict_cov {_ n}. Arguments overwrite_prefix {A}.
Arguments kf_predict_step {_ n k}. Arguments gaussian_predict {_ n k}. Arguments kf_predict {_ n k}.
Arguments gm_mean_i {_ n k}. Arguments affine_exo {_ n k}. Arguments affine_exo_opt {_ n k}. Arguments spec_mean {_ n}.
Arguments kf_spec {_ n k}.
Arguments mkCall {_}. Arguments kc_n {_}. Arguments kc_k {_}. Arguments kc_F {_}. Arguments kc_Q {_}. Arguments kc_exo {_}.
Arguments kc_sp {_}. Arguments kc_ss {_}. Arguments kc_se {_}. Arguments kc_prev {_}. Arguments kc_old {_}.
Arguments mkRet {_}. Arguments kr_n {_}. Arguments kr_k {_}. Arguments kr_mix {_}.
Arguments kf_call_run {_}. Arguments kf_predict_seq {_}.
