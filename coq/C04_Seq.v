(* C04_Seq.v — several calls on ONE UKFCorrection object: what a call that is not skipped
   returns (output object, per-component outcomes, what getLikelihood reports afterwards)
   does not depend on what earlier calls left in the object, for every arithmetic instance
   and every model (linear or not).  Hence a sequence of non-skipped calls on one object,
   the model changing freely between them, returns call by call what a fresh object returns.
   (UKFPrediction keeps nothing but the weights: its model, ukf_predict_additive /
   ukf_predict_generic, has no state argument at all.) *)
Require Import ZArith List Bool.
Require Import BFL.Ops BFL.Density BFL.C01_Model BFL.C03_Model BFL.C04_Model.
From mathcomp Require Import all_ssreflect.
Set Implicit Arguments.
Unset Strict Implicit.
Unset Printing Implicit Defensive.

Section Seq.
Variable O : MatOps.

Lemma ukf_correct_history_independent n q m (Ld Lm : layout) a b k (y : option (M O m 1)) f f' g
      (R : M O m m) (Rv : M O q q) (pred old : mixture O n n) (st st' : ukf_state O m) :
  let ra := ukf_correct_additive Ld Lm a b k false y f g R pred old in
  let rg := ukf_correct_generic Ld Lm a b k false y f' g Rv pred old in
  [/\ (ra st).1.1 = (ra st').1.1, (ra st).2 = (ra st').2 &
      ukf_likelihood (ra st).1.2 = ukf_likelihood (ra st').1.2] /\
  [/\ (rg st).1.1 = (rg st').1.1, (rg st).2 = (rg st').2 &
      ukf_likelihood (rg st).1.2 = ukf_likelihood (rg st').1.2] /\
  (y <> None -> ra st = ra st' /\ rg st = rg st').
Proof.
rewrite /ukf_correct_additive /ukf_correct_generic.
by case: y => [y|] /=; do !split.
Qed.

(* one call of an object, as a transformer of the kept state *)
Definition ccall (n m : nat) : Type :=
  ukf_state O m -> mixture O n n * ukf_state O m * list (kf_out O n m).

(* what the caller sees of a call: the output object and the answer of getLikelihood *)
Definition observed n m (r : mixture O n n * ukf_state O m * list (kf_out O n m)) :=
  (r.1.1, r.2, ukf_likelihood r.1.2).

Fixpoint run_calls n m (calls : list (ccall n m)) (st : ukf_state O m) :=
  match calls with
  | nil => nil
  | c :: cs => observed (c st) :: run_calls cs (c st).1.2
  end.

Definition fresh_call n m (c : ccall n m) := observed (c (mkUkfState nil nil)).

Definition history_independent n m (c : ccall n m) : Prop :=
  forall s s', observed (c s) = observed (c s').

Lemma run_calls_fresh n m (calls : list (ccall n m)) st :
  (forall c, In c calls -> history_independent c) ->
  run_calls calls st = List.map (@fresh_call n m) calls.
Proof.
elim: calls st => [//|c cs IH] st Hc /=.
rewrite (Hc c (or_introl erefl) st (mkUkfState nil nil)) IH // => c' Hc'.
by apply: Hc; right.
Qed.

(* the calls the sequences of the correspondence check are made of *)
Definition additive_call n m (Ld Lm : layout) a b k y f g (R : M O m m) (pred old : mixture O n n) : ccall n m :=
  ukf_correct_additive Ld Lm a b k false y f g R pred old.
Definition generic_call n q m (Ld Lm : layout) a b k y f g (Rv : M O q q) (pred old : mixture O n n) : ccall n m :=
  ukf_correct_generic Ld Lm a b k false y f g Rv pred old.

Lemma additive_call_hi n m Ld Lm a b k y f g R pred old :
  history_independent (@additive_call n m Ld Lm a b k y f g R pred old).
Proof.
move=> s s'; rewrite /observed /additive_call.
have [[-> -> ->] _] := @ukf_correct_history_independent n 0 m Ld Lm a b k y f (fun _ => None) g R (mzero 0 0) pred old s s'.
by [].
Qed.

Lemma generic_call_hi n q m Ld Lm a b k y f g Rv pred old :
  history_independent (@generic_call n q m Ld Lm a b k y f g Rv pred old).
Proof.
move=> s s'; rewrite /observed /generic_call.
have [_ [[-> -> ->] _]] := @ukf_correct_history_independent n q m Ld Lm a b k y (fun _ => None) f g (mzero m m) Rv pred old s s'.
by [].
Qed.

Lemma run_unskipped_calls_fresh n m (calls : list (ccall n m)) st :
  (forall c, In c calls ->
     (exists Ld Lm a b k y f g R pred old, c = @additive_call n m Ld Lm a b k y f g R pred old) \/
     (exists q Ld Lm a b k y f g Rv pred old, c = @generic_call n q m Ld Lm a b k y f g Rv pred old)) ->
  run_calls calls st = List.map (@fresh_call n m) calls.
Proof.
move=> H; apply: run_calls_fresh => c /H [] .
  by move=> [Ld [Lm [a [b [k [y [f [g [R [pred [old ->]]]]]]]]]]]; exact: additive_call_hi.
by move=> [q [Ld [Lm [a [b [k [y [f [g [Rv [pred [old ->]]]]]]]]]]]]; exact: generic_call_hi.
Qed.
End Seq.
