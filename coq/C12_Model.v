(* C12_Model.v — control skeletons of the correction classes under a fault pattern.

   Transcribed (HEAD of /repo):
     KFCorrection::correctStep / getLikelihood            KFCorrection.cpp:31-122
     UKFCorrection::correctStep / getLikelihood           UKFCorrection.cpp:64-163   (generic and additive ctor)
     sigma_point::unscented_transform, base + the two measurement overloads
                                                          sigma_point.cpp:125-203, 258-318
     SUKFCorrection::correctStep / getLikelihood          SUKFCorrection.cpp:48-193
   (HEAD includes the repairs 201e1b4 and 49d7ed0; the transcription of the
   code before them is kept in C12_Regress.v)
     GaussianLikelihood::likelihood                       GaussianLikelihood.cpp:25-75
     BootstrapCorrection::correctStep / getLikelihood     BootstrapCorrection.cpp:50-64
     GPFCorrection::correctStep / getLikelihood           GPFCorrection.cpp:92-130
     SIS::filtering_step                                  SIS.cpp:58-84

   What is modelled: the ORDER of the calls into the measurement / likelihood
   model, the early returns, what has been written to the output object and to
   the members kept for getLikelihood (innovations_, meas_covariances_,
   predicted_meas_, propagated_sigma_points_, valid_likelihood_, likelihood_)
   at each return.  What is abstract: every datum (beliefs, measurements,
   innovations, ...) is an element of a type parameter, every numerical routine
   a function parameter.  The property is about identity, not arithmetic.

   A "belief" of the Gaussian classes is the WHOLE GaussianMixture object
   (mean_, covariance_, weight_ and the eight shape descriptors): the early
   returns execute `corr_state = pred_state`, the implicit copy assignment of
   GaussianMixture, which copies all of them.  A particle set is a pair
   (GaussianMixture part, state_ matrix): when GPFCorrection hands ParticleSets
   to the wrapped GaussianCorrection the static type there is GaussianMixture&,
   so `corr_state = pred_state` copies the mixture part only (slicing); the
   state_ matrix of the output keeps its previous content.

   Output objects are in-out: every step takes the previous content of the
   output object.  No proofs in this file. *)
Require Import List Bool Arith.
Import ListNotations.
Local Open Scope bool_scope.

(* the calls at which unavailability can be signalled *)
Inductive site := Measure | Predicted | Innovation | NoiseCov | Freeze | Likelihood.

Definition site_eqb (a b : site) : bool :=
  match a, b with
  | Measure, Measure | Predicted, Predicted | Innovation, Innovation
  | NoiseCov, NoiseCov | Freeze, Freeze | Likelihood, Likelihood => true
  | _, _ => false
  end.

(* fault pattern: true = that call reports "unavailable" *)
Definition pattern := site -> bool.
Definition no_fault : pattern := fun _ => false.
Definition fails_any (p : pattern) (l : list site) : bool := existsb p l.

(* prefix of the call sequence [l] up to and including the first failing call *)
Fixpoint upto_first_failure (p : pattern) (l : list site) : list site :=
  match l with
  | [] => []
  | s :: r => if p s then [s] else s :: upto_first_failure p r
  end.

Section Skeleton.
(* G : GaussianMixture object (whole).  St : ParticleSet::state_.
   Y measurement, X argument of predictedMeasure, YP its result (also the type of
   the matrix of predicted means passed to innovation), NU innovations, RC noise
   covariance, PY meas_covariances_, PM predicted_meas_ (a GaussianMixture over
   the measurement space), PXY cross covariance, LK likelihood vector,
   RNG state of the mt19937_64 + normal_distribution of GPFCorrection. *)
Variables G St Y X YP NU RC PY PM PXY LK RNG : Type.

(* ------------------------------------------------------------------ *)
(* measurement model as seen by the library: every call returns a validity
   flag; getNoiseCovarianceMatrix returns flag AND matrix because UKF/SUKF and
   the additive unscented transform read the matrix and ignore the flag
   (std::tie(std::ignore, R)). *)
Record mmodel := mkMM {
  mm_freeze : bool;
  mm_measure : option Y;
  mm_predicted : X -> option YP;
  mm_innovation : YP -> Y -> option NU;
  mm_noisecov : bool * RC
}.

(* a sensor that always succeeds *)
Definition total_mm (y : Y) (h : X -> YP) (inn : YP -> Y -> NU) (R : RC) : mmodel :=
  mkMM true (Some y) (fun x => Some (h x)) (fun a b => Some (inn a b)) (true, R).

(* fault injection: the calls selected by the pattern report failure *)
Definition inject (p : pattern) (mm : mmodel) : mmodel :=
  mkMM (if p Freeze then false else mm_freeze mm)
       (if p Measure then None else mm_measure mm)
       (fun x => if p Predicted then None else mm_predicted mm x)
       (fun a b => if p Innovation then None else mm_innovation mm a b)
       (if p NoiseCov then (false, snd (mm_noisecov mm)) else mm_noisecov mm).

(* the same, but a failing getNoiseCovarianceMatrix returns the matrix [g] next to
   its false flag (e.g. an empty matrix): what a consumer that ignores the flag then reads *)
Definition inject_g (g : RC) (p : pattern) (mm : mmodel) : mmodel :=
  mkMM (if p Freeze then false else mm_freeze mm)
       (if p Measure then None else mm_measure mm)
       (fun x => if p Predicted then None else mm_predicted mm x)
       (fun a b => if p Innovation then None else mm_innovation mm a b)
       (if p NoiseCov then (false, g) else mm_noisecov mm).

(* result of one correction step: output object, members left behind, call log *)
Record result (B S : Type) := mkRes { r_out : B; r_st : S; r_log : list site }.
Arguments mkRes {B S}. Arguments r_out {B S}. Arguments r_st {B S}. Arguments r_log {B S}.

(* GaussianCorrection::correct / PFCorrection::correct (GaussianCorrection.cpp:16-23,
   PFCorrection.cpp:14-21): the step is run unless skip_ is set (C13's subject);
   a skipped correction makes no call at all *)
Definition correct_wrapper {B S : Type} (skip : bool) (step : B -> B -> S -> result B S)
           (pred out : B) (st : S) : result B S :=
  if skip then mkRes pred st [] else step pred out st.

(* ------------------------------------------------------------------ *)
(* KFCorrection *)
Variable kf_px : G -> X.                        (* pred_state.mean() *)
(* lines 91-118: H, meas_covariances_.resize, per-component loop writing
   corr_state.mean(i) / covariance(i) into the existing output object;
   returns the new output object and meas_covariances_ *)
Variable kf_upd : G -> NU -> RC -> G -> G * PY.
Variable kf_lik : NU -> PY -> LK.               (* the loop of getLikelihood *)

(* innovations_ (None = the 0 x 0 matrix of a fresh object) and meas_covariances_ *)
Record kf_state := mkKfSt { kf_innov : option NU; kf_py : PY }.

Definition kf_step (mm : mmodel) (pred out : G) (st0 : kf_state) : result G kf_state :=
  (* :48-49 innovations_.resize(0, 0): no likelihood until this correction has used a measurement *)
  let st := mkKfSt None (kf_py st0) in
  match mm_measure mm with
  | None => mkRes pred st [Measure]                                   (* :56-60 *)
  | Some y =>
    match mm_predicted mm (kf_px pred) with
    | None => mkRes pred st [Measure; Predicted]                      (* :67-71 *)
    | Some yp =>
      match mm_innovation mm yp y with
      | None => mkRes pred st [Measure; Predicted; Innovation]        (* :78-82 *)
      | Some nu =>
        let '(okR, R) := mm_noisecov mm in
        if okR then
          let '(g, py) := kf_upd pred nu R out in
          mkRes g (mkKfSt (Some nu) py) [Measure; Predicted; Innovation; NoiseCov]
        else mkRes pred st [Measure; Predicted; Innovation; NoiseCov] (* :88-92 *)
      end
    end
  end.

(* getLikelihood: (false, empty) iff innovations_ is empty *)
Definition kf_get_lik (st : kf_state) : option LK :=
  match kf_innov st with None => None | Some nu => Some (kf_lik nu (kf_py st)) end.

(* ------------------------------------------------------------------ *)
(* unscented transform, measurement overloads *)
Variable sigma_of : G -> X.                     (* sigma_point::sigma_point(input, weight.c) *)
Variable ut_moments : G -> YP -> PM * PXY.      (* sigma_point.cpp:146-201 *)
Variable pm_default : PM.                       (* GaussianMixture(): 1 component, 1 x 1 *)
Variable pxy_empty : PXY.                       (* MatrixXd(0, 0) *)
Variable pm_add_noise : PM -> RC -> PM.         (* for i < state.components: output.covariance(i) += noise_cov *)

(* base overload: sigma points, evaluate, stop if the evaluation failed (:141-143) *)
Definition ut_base (mm : mmodel) (input : G) : bool * PM * PXY :=
  match mm_predicted mm (sigma_of input) with
  | None => (false, pm_default, pxy_empty)
  | Some yp => let '(pm, pxy) := ut_moments input yp in (true, pm, pxy)
  end.

(* MeasurementModel overload (:258-282): forwards *)
Definition ut_generic (mm : mmodel) (input : G) : bool * PM * PXY * list site :=
  (ut_base mm input, [Predicted]).

(* AdditiveMeasurementModel overload (:285-318): returns before any
   post-processing when the evaluation failed (:306-308); otherwise
   getNoiseCovarianceMatrix is called (flag ignored) and added to every
   output covariance *)
Definition ut_additive (mm : mmodel) (input : G) : bool * PM * PXY * list site :=
  let '(valid, pm, pxy) := ut_base mm input in
  if valid then (true, pm_add_noise pm (snd (mm_noisecov mm)), pxy, [Predicted; NoiseCov])
  else (false, pm, pxy, [Predicted]).

(* ------------------------------------------------------------------ *)
(* UKFCorrection *)
Variable ukf_augment : G -> RC -> G.            (* copy of pred_state + augmentWithNoise *)
Variable pm_mean : PM -> YP.                    (* y_p = predicted_meas_.mean() (a copy: the Ref cannot be moved from) *)
Variable ukf_upd : G -> PM -> PXY -> NU -> G -> G.   (* :130-146, into the existing output object *)
Variable ukf_lik : NU -> PM -> LK.

Record ukf_state := mkUkfSt { u_innov : option NU; u_pm : PM }.

Definition ukf_step (additive : bool) (mm : mmodel) (pred out : G) (st : ukf_state) : result G ukf_state :=
  (* :88-89 innovations_.resize(0, 0) on entry: every early return leaves u_innov = None *)
  match mm_measure mm with
  | None => mkRes pred (mkUkfSt None (u_pm st)) [Measure]             (* :77-81 *)
  | Some y =>
    (* predicted_meas_ is assigned from the transform's result even when invalid (:98, :102) *)
    let '(valid, pm, pxy, l) :=
      if additive then ut_additive mm pred
      else let '(v, pm, pxy, l) := ut_generic mm (ukf_augment pred (snd (mm_noisecov mm))) in
           (v, pm, pxy, NoiseCov :: l)                                 (* :92 flag ignored *)
    in
    if valid then
      match mm_innovation mm (pm_mean pm) y with
      | None => mkRes pred (mkUkfSt None pm) (Measure :: l ++ [Innovation])   (* :124-128 *)
      | Some nu => mkRes (ukf_upd pred pm pxy nu out) (mkUkfSt (Some nu) pm) (Measure :: l ++ [Innovation])
      end
    else mkRes pred (mkUkfSt None pm) (Measure :: l)                  (* :108-112 *)
  end.

Definition ukf_get_lik (st : ukf_state) : option LK :=
  match u_innov st with None => None | Some nu => Some (ukf_lik nu (u_pm st)) end.

(* ------------------------------------------------------------------ *)
(* SUKFCorrection.  sub_ok: meas_size % measurement_sub_size_ == 0.
   ncalls: components * (meas_size / sub_size) calls of getNoiseCovarianceMatrix
   inside the loop (flag ignored each time). *)
Variable sukf_pred_mean : YP -> YP.             (* :114-122 *)
(* :138-189; returns the output object and propagated_sigma_points_ as left by
   the in-place centring/weighting *)
Variable sukf_upd : G -> X -> YP -> NU -> RC -> G -> G * YP.
Variable sukf_lik : NU -> YP -> RC -> LK.

(* innovations_, propagated_sigma_points_ (None = 0 x 0) *)
Record sukf_state := mkSukfSt { s_innov : option NU; s_prop : option YP }.

Definition sukf_step (sub_ok : bool) (ncalls : nat) (mm : mmodel) (pred out : G) (st0 : sukf_state)
  : result G sukf_state :=
  (* :79-80 innovations_.resize(0, 0) on entry *)
  let st := mkSukfSt None (s_prop st0) in
  match mm_measure mm, sub_ok with
  | Some y, true =>
    let sp := sigma_of pred in
    match mm_predicted mm sp with
    | None => mkRes pred st [Measure; Predicted]                      (* :104-108 *)
    | Some yp =>
      (* :111 propagated_sigma_points_ is overwritten before the innovation is known *)
      match mm_innovation mm (sukf_pred_mean yp) y with
      | None => mkRes pred (mkSukfSt None (Some yp)) [Measure; Predicted; Innovation]  (* :132-136 *)
      | Some nu =>
        let '(g, yp') := sukf_upd pred sp yp nu (snd (mm_noisecov mm)) out in
        mkRes g (mkSukfSt (Some nu) (Some yp')) ([Measure; Predicted; Innovation] ++ repeat NoiseCov ncalls)
      end
    end
  | _, _ => mkRes pred st [Measure]                                   (* :88-94 *)
  end.

(* getLikelihood; lcalls = innovations_.rows() / sub_size calls of getNoiseCovarianceMatrix *)
Definition sukf_get_lik (lcalls : nat) (mm : mmodel) (st : sukf_state) : option LK * list site :=
  match s_innov st with
  | None => (None, [])
  | Some nu =>
    match s_prop st with
    | Some yp => (Some (sukf_lik nu yp (snd (mm_noisecov mm))), repeat NoiseCov lcalls)
    | None => (None, [])      (* unreachable: innovations_ is only set after propagated_sigma_points_ *)
    end
  end.

(* ------------------------------------------------------------------ *)
(* GaussianLikelihood::likelihood and likelihood models in general *)
Variable st_px : St -> X.                       (* pred_states as argument of predictedMeasure *)
Variable gl_dens : NU -> RC -> LK.              (* scale_factor_ * density(innovations, 0, R) *)
Variable lk_zero1 : LK.                         (* VectorXd::Zero(1) *)

Definition gl_likelihood (mm : mmodel) (s : St) : option LK * list site :=
  match mm_measure mm with
  | None => (None, [Measure])
  | Some y =>
    match mm_predicted mm (st_px s) with
    | None => (None, [Measure; Predicted])
    | Some yp =>
      match mm_innovation mm yp y with
      | None => (None, [Measure; Predicted; Innovation])
      | Some nu =>
        let '(okR, R) := mm_noisecov mm in
        if okR then (Some (gl_dens nu R), [Measure; Predicted; Innovation; NoiseCov])
        else (None, [Measure; Predicted; Innovation; NoiseCov])
      end
    end
  end.

(* what the caller receives: std::pair<bool, VectorXd> *)
Definition lik_pair (o : option LK) : bool * LK :=
  match o with Some l => (true, l) | None => (false, lk_zero1) end.

(* a LikelihoodModel: the shipped Gaussian one over the measurement model, or a
   user-supplied one: its own validity flag and its own vector (whatever it
   returns next to a false flag is stored in likelihood_); it may ignore the
   measurement model *)
Inductive likmodel := LGauss | LCustom (f : St -> bool * LK).

(* the fault-injecting double returns (false, z) *)
Definition inject_lik (z : LK) (p : pattern) (lm : likmodel) : likmodel :=
  match lm with
  | LGauss => LGauss
  | LCustom f => LCustom (fun s => if p Likelihood then (false, z) else f s)
  end.

Definition lik_eval (lm : likmodel) (mm : mmodel) (s : St) : (bool * LK) * list site :=
  match lm with
  | LGauss => let '(o, l) := gl_likelihood mm s in (lik_pair o, l)
  | LCustom f => (f s, [Likelihood])
  end.

(* valid_likelihood_, likelihood_ *)
Record pf_state := mkPfSt { pf_valid : bool; pf_lik : LK }.
Definition pf_state_of (vl : bool * LK) : pf_state := mkPfSt (fst vl) (snd vl).
Definition pf_get_lik (st : pf_state) : bool * LK := (pf_valid st, pf_lik st).

(* ------------------------------------------------------------------ *)
(* BootstrapCorrection::correctStep *)
Definition pset := (G * St)%type.
Variable boot_wupd : G -> LK -> G.              (* weight() += log(likelihood_ + min) *)

Definition boot_step (lm : likmodel) (mm : mmodel) (pred out : pset) (st : pf_state) : result pset pf_state :=
  let '(vl, l) := lik_eval lm mm (snd pred) in
  if fst vl then mkRes (boot_wupd (fst pred) (snd vl), snd pred) (pf_state_of vl) l
  else mkRes pred (pf_state_of vl) l.                    (* cor_particles = pred_particles, nothing else *)

(* ------------------------------------------------------------------ *)
(* GPFCorrection::correctStep.  GS: members of the wrapped Gaussian correction. *)
Variable GS : Type.
(* for i < pred.components: corr.state(i) = sampleFromProposal(corr.mean(i), corr.covariance(i)),
   written into the existing state_ matrix; consumes random numbers *)
Variable gpf_sample : RNG -> G -> St -> St * RNG.
(* :119-129 weights from pred weights, likelihood, transition probability, proposal *)
Variable gpf_wupd : pset -> LK -> pset -> G.

Record gpf_state := mkGpfSt { g_pf : pf_state; g_inner : GS; g_rng : RNG }.

Definition gpf_step (gc : G -> G -> GS -> result G GS) (lm : likmodel) (mm : mmodel)
           (pred out : pset) (st : gpf_state) : result pset gpf_state :=
  (* :101 the wrapped correction sees the mixture parts only *)
  let r := gc (fst pred) (fst out) (g_inner st) in
  (* :104-107 new states are drawn BEFORE the likelihood is known *)
  let '(states, rng') := gpf_sample (g_rng st) (r_out r) (snd out) in
  let corr := (r_out r, states) in
  (* :110 *)
  let '(vl, l) := lik_eval lm mm states in
  let st' := mkGpfSt (pf_state_of vl) (r_st r) rng' in
  if fst vl then mkRes (gpf_wupd pred (snd vl) corr, states) st' (r_log r ++ l)
  else mkRes pred st' (r_log r ++ l).                     (* :112-117 corr_particles = pred_particles *)

(* the same call with ONE object passed as predicted and as corrected set
   (correct(p, p)): every write to the output is a write to the input.  The
   wrapped correction's `corr = pred` and the final restore are self-assignments;
   the states drawn at :104-107 overwrite the predicted states, and the
   transition probability at :120 is evaluated between the new states and themselves. *)
Definition gpf_step_aliased (gc : G -> G -> GS -> result G GS) (lm : likmodel) (mm : mmodel)
           (pred : pset) (st : gpf_state) : result pset gpf_state :=
  let r := gc (fst pred) (fst pred) (g_inner st) in
  let '(states, rng') := gpf_sample (g_rng st) (r_out r) (snd pred) in
  let both := (r_out r, states) in                 (* the one object, as both arguments see it now *)
  let '(vl, l) := lik_eval lm mm states in
  let st' := mkGpfSt (pf_state_of vl) (r_st r) rng' in
  if fst vl then mkRes (gpf_wupd both (snd vl) both, states) st' (r_log r ++ l)
  else mkRes both st' (r_log r ++ l).

(* ------------------------------------------------------------------ *)
(* SIS::filtering_step up to log() (:63-71) followed by the resampling test *)
Inductive sis_event := EvPredict | EvFreeze | EvCorrect | EvNormalise | EvResample.

Variable sis_predict : pset -> pset -> pset.       (* prediction().predict(cor, pred) : new pred *)
Variable sis_correct : pset -> pset -> pset.       (* correction().correct(pred, cor) : new cor *)
Variable sis_normalise : pset -> pset.             (* weight -= log_sum_exp(weight) *)
Variable sis_degenerate : pset -> bool.            (* neff(weight) < N / 3 *)
Variable sis_resample : pset -> pset.

(* state: (pred_particle_, cor_particle_) *)
Definition sis_step (freeze_ok : bool) (step : nat) (pc : pset * pset) : pset * pset * list sis_event :=
  let '(pred0, cor0) := pc in
  let '(pred, l1) := if Nat.eqb step 0 then (pred0, []) else (sis_predict cor0 pred0, [EvPredict]) in
  let '(cor, l2) :=
    if freeze_ok then (sis_normalise (sis_correct pred cor0), [EvFreeze; EvCorrect; EvNormalise])
    else (pred, [EvFreeze]) in
  if sis_degenerate cor then (pred, sis_resample cor, l1 ++ l2 ++ [EvResample])
  else (pred, cor, l1 ++ l2).

(* the value of cor_particle_ at log(), i.e. before the resampling test *)
Definition sis_cor_at_log (freeze_ok : bool) (step : nat) (pc : pset * pset) : pset :=
  let '(pred0, cor0) := pc in
  let pred := if Nat.eqb step 0 then pred0 else sis_predict cor0 pred0 in
  if freeze_ok then sis_normalise (sis_correct pred cor0) else pred.

End Skeleton.

Arguments mkMM {Y X YP NU RC}. Arguments mm_freeze {Y X YP NU RC}. Arguments mm_measure {Y X YP NU RC}.
Arguments mm_predicted {Y X YP NU RC}. Arguments mm_innovation {Y X YP NU RC}. Arguments mm_noisecov {Y X YP NU RC}.
Arguments total_mm {Y X YP NU RC}. Arguments inject {Y X YP NU RC}.
Arguments mkRes {B S}. Arguments r_out {B S}. Arguments r_st {B S}. Arguments r_log {B S}.
Arguments mkKfSt {NU PY}. Arguments kf_innov {NU PY}. Arguments kf_py {NU PY}.
Arguments mkUkfSt {NU PM}. Arguments u_innov {NU PM}. Arguments u_pm {NU PM}.
Arguments mkSukfSt {YP NU}. Arguments s_innov {YP NU}. Arguments s_prop {YP NU}.
Arguments mkPfSt {LK}. Arguments pf_valid {LK}. Arguments pf_lik {LK}.
Arguments LGauss {St LK}. Arguments LCustom {St LK}.
Arguments mkGpfSt {LK RNG GS}. Arguments g_pf {LK RNG GS}. Arguments g_inner {LK RNG GS}. Arguments g_rng {LK RNG GS}.
Arguments correct_wrapper {B S}.
Arguments kf_step {G Y X YP NU RC PY}. Arguments kf_get_lik {NU PY LK}.
Arguments ut_base {G Y X YP NU RC PM PXY}. Arguments ut_generic {G Y X YP NU RC PM PXY}.
Arguments ut_additive {G Y X YP NU RC PM PXY}.
Arguments ukf_step {G Y X YP NU RC PM PXY}. Arguments ukf_get_lik {NU PM LK}.
Arguments sukf_step {G Y X YP NU RC}. Arguments sukf_get_lik {Y X YP NU RC LK}.
Arguments gl_likelihood {St Y X YP NU RC LK}. Arguments lik_pair {LK}. Arguments inject_lik {St LK}.
Arguments lik_eval {St Y X YP NU RC LK}. Arguments pf_state_of {LK}. Arguments pf_get_lik {LK}.
Arguments boot_step {G St Y X YP NU RC LK}. Arguments gpf_step {G St Y X YP NU RC LK RNG} _ _ _ {GS}.
Arguments gpf_step_aliased {G St Y X YP NU RC LK RNG} _ _ _ {GS}. Arguments inject_g {Y X YP NU RC}.
Arguments sis_step {G St}. Arguments sis_cor_at_log {G St}.
