(* C17_Proofs.v — lemmas about the C17 model.
   Part 1 (HistoryBuffer) and Part 2 (state-machine invariants of
   EstimatesExtraction, cache coherence, the history as a trace of the recent
   calls) hold for EVERY scalar record S (in particular for IEEE doubles): no
   axioms.  Part 3 (what the statistics and the window weights are) is over
   Coq's reals (C19_ROps.ROps): the four standard axioms of Reals. *)
Require Import ZArith List Lia Bool.
Require Import BFL.Ops BFL.C19_Model BFL.C17_Model.
Import ListNotations.

(* ================================================================== *)
(* Part 1 — HistoryBuffer                                             *)
(* ================================================================== *)
Section HistProofs.
Variable A : Type.
Implicit Types (h : hist A) (b : list A).

Definition hinv h : Prop := length (buf h) <= window h /\ 2 <= window h <= 30.

Lemma removelast_length b : length (removelast b) = pred (length b).
Proof. rewrite removelast_firstn_len, firstn_length. lia. Qed.

Lemma shrink_loop_firstn fuel : forall b tmp, length b <= tmp + fuel ->
  shrink_loop fuel b tmp = firstn tmp b.
Proof.
  induction fuel as [|f IH]; intros b tmp Hl; simpl.
  - symmetry. apply firstn_all2. lia.
  - destruct (Nat.ltb tmp (length b)) eqn:E.
    + apply Nat.ltb_lt in E. rewrite IH by (rewrite removelast_length; lia).
      rewrite removelast_firstn_len, firstn_firstn. f_equal. lia.
    + apply Nat.ltb_ge in E. symmetry. apply firstn_all2. lia.
Qed.

Lemma clamp_window_range w : 2 <= clamp_window w <= 30.
Proof.
  unfold clamp_window, max_window.
  destruct (Z.ltb_spec w 2); [lia|]. destruct (Z.leb_spec 30 w); simpl; lia.
Qed.

Lemma clamp_window_id w : (2 <= w <= 30)%Z -> clamp_window w = Z.to_nat w.
Proof.
  intros H. unfold clamp_window, max_window.
  destruct (Z.ltb_spec w 2); [lia|]. destruct (Z.leb_spec 30 w); [|reflexivity].
  assert (w = 30%Z) by lia. subst. reflexivity.
Qed.

(* the window after a request, and what is kept *)
Lemma set_size_window w h : hinv h -> window (hist_set_size w h) = clamp_window w.
Proof.
  intros [_ Hw]. unfold hist_set_size. destruct (Z.eqb_spec w (Z.of_nat (window h))) as [E|E]; [|reflexivity].
  rewrite clamp_window_id by lia. subst. now rewrite Nat2Z.id.
Qed.

Lemma set_size_buf w h : hinv h ->
  buf (hist_set_size w h) = firstn (window (hist_set_size w h)) (buf h).
Proof.
  intros [Hl Hw]. unfold hist_set_size. destruct (Z.eqb_spec w (Z.of_nat (window h))) as [E|E].
  - symmetry. apply firstn_all2. exact Hl.
  - simpl. apply shrink_loop_firstn. lia.
Qed.

Lemma set_size_inv w h : hinv h -> hinv (hist_set_size w h).
Proof.
  intros Hi. unfold hinv. rewrite set_size_buf, set_size_window by exact Hi.
  split; [rewrite firstn_length; lia | apply clamp_window_range].
Qed.

(* growing (or keeping) the window loses nothing *)
Lemma set_size_grow w h : hinv h -> window h <= clamp_window w -> buf (hist_set_size w h) = buf h.
Proof.
  intros Hi Hg. rewrite set_size_buf, set_size_window by exact Hi.
  apply firstn_all2. destruct Hi. lia.
Qed.

Lemma add_buf x h : hinv h -> buf (hist_add x h) = firstn (window h) (x :: buf h).
Proof.
  intros [Hl Hw]. unfold hist_add. cbn [buf window].
  destruct (Nat.ltb (window h) (length (x :: buf h))) eqn:E.
  - apply Nat.ltb_lt in E. rewrite removelast_firstn_len. f_equal. simpl in *. lia.
  - apply Nat.ltb_ge in E. symmetry. apply firstn_all2. exact E.
Qed.

Lemma add_window x h : window (hist_add x h) = window h.
Proof. reflexivity. Qed.

Lemma add_inv x h : hinv h -> hinv (hist_add x h).
Proof.
  intros Hi. unfold hinv. rewrite add_buf, add_window by exact Hi. destruct Hi.
  split; [rewrite firstn_length; lia | assumption].
Qed.

Lemma add_length x h : hinv h -> length (buf (hist_add x h)) = Nat.min (S (length (buf h))) (window h).
Proof. intros Hi. rewrite add_buf by exact Hi. rewrite firstn_length. cbn [length]. lia. Qed.

Lemma clear_inv h : hinv h -> hinv (hist_clear h).
Proof. intros [_ Hw]. split; simpl; [lia | exact Hw]. Qed.

Lemma init_inv : hinv (hist_init A).
Proof. unfold hinv. simpl. lia. Qed.

Lemma hstep_inv h o : hinv h -> hinv (hstep h o).
Proof.
  intros Hi. destruct o; simpl.
  - now apply add_inv. - now apply set_size_inv.
  - now apply set_size_inv. - now apply set_size_inv. - now apply clear_inv.
Qed.

Lemma hrun_inv ops : forall h, hinv h -> hinv (hrun h ops).
Proof. induction ops as [|o ops IH]; intros h Hi; simpl; [exact Hi | apply IH, hstep_inv, Hi]. Qed.

(* decrease / increase move the window by one inside [2,30] and saturate at the ends *)
Lemma decrease_window h : hinv h -> window (hist_decrease h) = Nat.max 2 (window h - 1).
Proof.
  intros Hi. unfold hist_decrease. rewrite set_size_window by exact Hi. destruct Hi as [_ Hw].
  unfold clamp_window, max_window. destruct (Z.ltb_spec (Z.of_nat (window h) - 1) 2); [lia|].
  destruct (Z.leb_spec 30 (Z.of_nat (window h) - 1)); change (Z.to_nat 30) with 30; lia.
Qed.
Lemma increase_window h : hinv h -> window (hist_increase h) = Nat.min 30 (window h + 1).
Proof.
  intros Hi. unfold hist_increase. rewrite set_size_window by exact Hi. destruct Hi as [_ Hw].
  unfold clamp_window, max_window. destruct (Z.ltb_spec (Z.of_nat (window h) + 1) 2); [lia|].
  destruct (Z.leb_spec 30 (Z.of_nat (window h) + 1)); change (Z.to_nat 30) with 30; lia.
Qed.

(* the statement of DESIGN §6 F-hist-shrink, now true: 3 stored, window 5 -> 2 keeps the 2 most recent *)
Lemma shrink_example (a b c : A) :
  buf (hist_set_size 2 (mkHist 5 [a; b; c])) = [a; b].
Proof. reflexivity. Qed.
End HistProofs.
Arguments hinv {A}.

(* ================================================================== *)
(* Part 2 — EstimatesExtraction as a state machine, any scalar record *)
(* ================================================================== *)
Section EstProofs.
Variable S : SOps.
Variables lin circ : nat.
Notation t := (T S).
Notation est := (est S).
Notation op := (op S).
Notation step := (step S lin circ).
Notation run := (run S lin circ).

Lemma sm_weights_length n : length (sm_weights S n) = n.
Proof. apply repeat_length. Qed.
Lemma sub_lse_length l : length (sub_lse S l) = length l.
Proof. unfold sub_lse. apply map_length. Qed.
Lemma wm_weights_length n : length (wm_weights S n) = n.
Proof. unfold wm_weights. now rewrite sub_lse_length, map_length, seq_length. Qed.
Lemma em_weights_length n : length (em_weights S n) = n.
Proof. unfold em_weights. now rewrite sub_lse_length, map_length, seq_length. Qed.
Lemma win_weights_length v n : length (win_weights S v n) = n.
Proof. destruct v; [apply sm_weights_length | apply wm_weights_length | apply em_weights_length]. Qed.

(* a cached vector is never stale: it is the weight vector of its own length *)
Definition cache_ok (c : list t) (f : nat -> list t) : Prop := c = f (length c).

Lemma cached_ok c n f : (forall k, length (f k) = k) -> cache_ok c f -> cached S c n f = f n.
Proof.
  intros Hf Hc. unfold cached. destruct (Nat.eqb_spec (length c) n) as [E|E]; [|reflexivity].
  rewrite Hc. now rewrite E.
Qed.
Lemma cached_cache_ok c n f : (forall k, length (f k) = k) -> cache_ok c f -> cache_ok (cached S c n f) f.
Proof. intros Hf Hc. rewrite cached_ok by assumption. unfold cache_ok. now rewrite Hf. Qed.

Definition est_inv (st : est) : Prop :=
  hinv (hb st) /\ cache_ok (smw st) (sm_weights S) /\ cache_ok (wmw st) (wm_weights S)
  /\ cache_ok (emw st) (em_weights S).

Lemma est_init_inv : est_inv (est_init S).
Proof. repeat split; simpl; lia. Qed.

(* what a windowed call does: push the base estimate, average the stored
   estimates with the weights of the CURRENT number of stored estimates *)
Lemma windowed_spec v s st ps lw plw lik Tm : est_inv st ->
  let cur := base_est S lin circ s ps lw plw lik Tm in
  let h := hist_add cur (hb st) in
  let r := windowed S lin circ v s st ps lw plw lik Tm in
  hb (fst r) = h /\ meth (fst r) = meth st /\ est_inv (fst r)
  /\ snd r = mean S lin circ (buf h) (win_weights S v (length (buf h))).
Proof.
  intros (Hh & Hs & Hw & He) cur h r. subst r. unfold windowed. fold cur. fold h.
  unfold hist_get.
  assert (Hh' : hinv h) by now apply add_inv.
  destruct v; cbn [fst snd hb meth win_weights].
  - rewrite (cached_ok _ _ _ sm_weights_length Hs).
    split; [reflexivity|split; [reflexivity|split; [|reflexivity]]].
    unfold est_inv; cbn [hb smw wmw emw]. split; [assumption|split; [|split; assumption]].
    unfold cache_ok. now rewrite sm_weights_length.
  - rewrite (cached_ok _ _ _ wm_weights_length Hw).
    split; [reflexivity|split; [reflexivity|split; [|reflexivity]]].
    unfold est_inv; cbn [hb smw wmw emw]. split; [assumption|split; [assumption|split; [|assumption]]].
    unfold cache_ok. now rewrite wm_weights_length.
  - rewrite (cached_ok _ _ _ em_weights_length He).
    split; [reflexivity|split; [reflexivity|split; [|reflexivity]]].
    unfold est_inv; cbn [hb smw wmw emw]. split; [assumption|split; [assumption|split; [assumption|]]].
    unfold cache_ok. now rewrite em_weights_length.
Qed.

(* the estimate a call pushes on the history, if it pushes one *)
Definition pushed (st : est) (o : op) : option (vec S) :=
  match o with
  | OExtract2 ps lw =>
      match meth_win (meth st), meth_stat (meth st) with
      | Some _, Smap => None
      | Some _, s => Some (base_est S lin circ s ps lw [] [] [])
      | None, _ => None
      end
  | OExtract5 ps lw plw lik Tm =>
      match meth_win (meth st), meth_stat (meth st) with
      | Some _, Smap => Some (base_est S lin circ Smap ps lw plw lik Tm)
      | Some _, s => Some (base_est S lin circ s ps lw [] [] [])
      | None, _ => None
      end
  | _ => None
  end.

(* the history buffer after one operation *)
Definition hist_after (st : est) (o : op) : hist (vec S) :=
  match o with
  | OClear => hist_clear (hb st)
  | OSetWindow w => if (0 <? w)%Z then hist_set_size w (hb st) else hb st
  | _ => match pushed st o with Some e => hist_add e (hb st) | None => hb st end
  end.

Lemma step_hist st o : est_inv st -> hb (fst (step st o)) = hist_after st o /\ est_inv (fst (step st o)).
Proof.
  intros Hi. destruct o as [ps lw|ps lw plw lik Tm|m|w|]; unfold step, hist_after, pushed.
  - unfold extract2. destruct (meth st) eqn:Em; cbn [meth_win meth_stat avail fst snd];
      try (split; [reflexivity|exact Hi]);
      match goal with |- context [windowed S lin circ ?v ?s st ps lw [] [] []] =>
        destruct (windowed_spec v s st ps lw [] [] [] Hi) as (H1 & _ & H3 & _); split; [exact H1|exact H3] end.
  - unfold extract5, extract2. destruct (meth st) eqn:Em; cbn [meth_win meth_stat avail fst snd];
      try (split; [reflexivity|exact Hi]);
      match goal with |- context [windowed S lin circ ?v ?s st ps lw ?a ?b ?c] =>
        destruct (windowed_spec v s st ps lw a b c Hi) as (H1 & _ & H3 & _); split; [exact H1|exact H3] end.
  - split; [reflexivity|]. destruct Hi as (? & ? & ? & ?). unfold est_inv. cbn [fst set_method hb smw wmw emw]. auto.
  - unfold set_window. destruct (0 <? w)%Z; cbn [fst snd]; split; try reflexivity; try exact Hi.
    destruct Hi as (? & ? & ? & ?). unfold est_inv. cbn [hb smw wmw emw]. auto using set_size_inv.
  - split; [reflexivity|]. destruct Hi as (? & ? & ? & ?). unfold est_inv. cbn [fst est_clear hb smw wmw emw]. auto using clear_inv.
Qed.

Lemma step_inv st o : est_inv st -> est_inv (fst (step st o)).
Proof. intros Hi. apply (step_hist st o Hi). Qed.

Lemma run_inv ops : forall st, est_inv st -> est_inv (run st ops).
Proof. induction ops as [|o ops IH]; intros st Hi; simpl; [exact Hi | apply IH, step_inv, Hi]. Qed.

(* the method is changed by set_method only *)
Lemma step_meth st o : est_inv st ->
  meth (fst (step st o)) = match o with OSetMethod m => m | _ => meth st end.
Proof.
  intros Hi. destruct o as [ps lw|ps lw plw lik Tm|m|w|]; unfold step.
  - unfold extract2. destruct (meth st) eqn:Em; cbn [avail fst]; try exact Em;
      match goal with |- context [windowed S lin circ ?v ?s st ps lw [] [] []] =>
        destruct (windowed_spec v s st ps lw [] [] [] Hi) as (_ & H2 & _); rewrite H2; exact Em end.
  - unfold extract5, extract2. destruct (meth st) eqn:Em; cbn [avail fst]; try exact Em;
      match goal with |- context [windowed S lin circ ?v ?s st ps lw ?a ?b ?c] =>
        destruct (windowed_spec v s st ps lw a b c Hi) as (_ & H2 & _); rewrite H2; exact Em end.
  - reflexivity.
  - unfold set_window. destruct (0 <? w)%Z; reflexivity.
  - reflexivity.
Qed.

(* ---- the history is the trace of the most recent pushing calls ---- *)
(* ghost: all estimates pushed since the last clear, newest first *)
Definition ghost_after (st : est) (o : op) (g : list (vec S)) : list (vec S) :=
  match o with
  | OClear => []
  | _ => match pushed st o with Some e => e :: g | None => g end
  end.
Fixpoint trace (st : est) (ops : list op) (g : list (vec S)) : est * list (vec S) :=
  match ops with
  | [] => (st, g)
  | o :: ops' => trace (fst (step st o)) ops' (ghost_after st o g)
  end.

Lemma trace_state ops : forall st g, fst (trace st ops g) = run st ops.
Proof. induction ops as [|o ops IH]; intros; simpl; [reflexivity | apply IH]. Qed.

Definition prefix_of (b g : list (vec S)) : Prop := b = firstn (length b) g.

Lemma prefix_firstn n b g : prefix_of b g -> prefix_of (firstn n b) g.
Proof.
  unfold prefix_of. intros H. rewrite firstn_length. rewrite H at 1.
  rewrite firstn_firstn. reflexivity.
Qed.
Lemma prefix_cons n e b g : prefix_of b g -> prefix_of (firstn n (e :: b)) (e :: g).
Proof.
  unfold prefix_of. intros H. destruct n as [|n]; [reflexivity|].
  rewrite firstn_cons. simpl length. rewrite firstn_cons. f_equal. apply prefix_firstn. exact H.
Qed.

Lemma step_prefix st o g : est_inv st -> prefix_of (buf (hb st)) g ->
  prefix_of (buf (hb (fst (step st o)))) (ghost_after st o g).
Proof.
  intros Hi Hp. destruct (step_hist st o Hi) as [-> _]. destruct Hi as (Hh & _).
  unfold hist_after, ghost_after.
  destruct o as [ps lw|ps lw plw lik Tm|m|w|].
  - destruct (pushed st (OExtract2 ps lw)); [rewrite add_buf by exact Hh; now apply prefix_cons | exact Hp].
  - destruct (pushed st (OExtract5 ps lw plw lik Tm)); [rewrite add_buf by exact Hh; now apply prefix_cons | exact Hp].
  - exact Hp.
  - cbn [pushed]. destruct (0 <? w)%Z; [rewrite set_size_buf by exact Hh; now apply prefix_firstn | exact Hp].
  - reflexivity.
Qed.

Lemma trace_prefix ops : forall st g, est_inv st -> prefix_of (buf (hb st)) g ->
  prefix_of (buf (hb (fst (trace st ops g)))) (snd (trace st ops g)).
Proof.
  induction ops as [|o ops IH]; intros st g Hi Hp; simpl; [exact Hp|].
  apply IH; [now apply step_inv | now apply step_prefix].
Qed.

(* how many estimates are stored: +1 (saturating at the window) per pushing
   call, cut to the new window on a change, 0 after clear *)
Lemma step_stored st o : est_inv st ->
  length (buf (hb (fst (step st o)))) =
  match o with
  | OClear => 0
  | OSetWindow w => if (0 <? w)%Z then Nat.min (length (buf (hb st))) (clamp_window w) else length (buf (hb st))
  | _ => match pushed st o with
         | Some _ => Nat.min (Datatypes.S (length (buf (hb st)))) (window (hb st))
         | None => length (buf (hb st))
         end
  end.
Proof.
  intros Hi. destruct (step_hist st o Hi) as [-> _]. destruct Hi as (Hh & _). unfold hist_after.
  destruct o as [ps lw|ps lw plw lik Tm|m|w|].
  - destruct (pushed st (OExtract2 ps lw)); [now apply add_length | reflexivity].
  - destruct (pushed st (OExtract5 ps lw plw lik Tm)); [now apply add_length | reflexivity].
  - reflexivity.
  - destruct (0 <? w)%Z; [|reflexivity].
    rewrite set_size_buf, set_size_window, firstn_length by exact Hh. lia.
  - reflexivity.
Qed.

(* with the window left alone since the buffer was last empty, exactly
   min(calls, window) estimates are stored: those of the most recent calls *)
Definition quiet (o : op) : Prop := match o with OClear | OSetWindow _ => False | _ => True end.

Lemma step_window_quiet st o : est_inv st -> quiet o -> window (hb (fst (step st o))) = window (hb st).
Proof.
  intros Hi Hq. destruct (step_hist st o Hi) as [-> _]. unfold hist_after.
  destruct o as [ps lw|ps lw plw lik Tm|m|w|]; try contradiction.
  - destruct (pushed st (OExtract2 ps lw)); reflexivity.
  - destruct (pushed st (OExtract5 ps lw plw lik Tm)); reflexivity.
  - reflexivity.
Qed.

Lemma firstn_cons_min w n e (g : list (vec S)) : 1 <= w ->
  firstn w (e :: firstn (Nat.min n w) g) = firstn (Nat.min (Datatypes.S n) w) (e :: g).
Proof.
  intros Hw. destruct w as [|w]; [lia|].
  replace (Nat.min (Datatypes.S n) (Datatypes.S w)) with (Datatypes.S (Nat.min n w)) by lia.
  rewrite !firstn_cons, firstn_firstn. f_equal. f_equal. lia.
Qed.

Lemma trace_quiet ops : forall st g, est_inv st -> Forall quiet ops ->
  buf (hb st) = firstn (Nat.min (length g) (window (hb st))) g ->
  let r := trace st ops g in
  window (hb (fst r)) = window (hb st) /\
  buf (hb (fst r)) = firstn (Nat.min (length (snd r)) (window (hb st))) (snd r).
Proof.
  induction ops as [|o ops IH]; intros st g Hi Hq Hb; simpl; [split; [reflexivity|exact Hb]|].
  inversion Hq as [|? ? Hqo Hqr]; subst.
  pose proof (step_window_quiet st o Hi Hqo) as Hw.
  destruct (IH (fst (step st o)) (ghost_after st o g) (step_inv st o Hi) Hqr) as [H1 H2].
  - rewrite Hw. destruct (step_hist st o Hi) as [-> _]. destruct Hi as (Hh & _).
    unfold hist_after, ghost_after.
    destruct o as [ps lw|ps lw plw lik Tm|m|w|]; try contradiction.
    + destruct (pushed st (OExtract2 ps lw)); [|exact Hb].
      rewrite add_buf by exact Hh. rewrite Hb. simpl length. apply firstn_cons_min. destruct Hh; lia.
    + destruct (pushed st (OExtract5 ps lw plw lik Tm)); [|exact Hb].
      rewrite add_buf by exact Hh. rewrite Hb. simpl length. apply firstn_cons_min. destruct Hh; lia.
    + exact Hb.
  - rewrite Hw in H1, H2. split; assumption.
Qed.

(* dispatch facts *)
Definition is_map (m : method) : bool :=
  match m with Mmap | Msmap | Mwmap | Memap => true | _ => false end.

Lemma extract2_map_unavailable st ps lw : is_map (meth st) = true ->
  extract2 S lin circ st ps lw = (st, (false, repeat (s0 S) (lin + circ))).
Proof. unfold extract2. destruct (meth st); intros H; try discriminate H; reflexivity. Qed.

Lemma extract5_nonmap st ps lw plw lik Tm : is_map (meth st) = false ->
  extract5 S lin circ st ps lw plw lik Tm = extract2 S lin circ st ps lw.
Proof. unfold extract5. destruct (meth st); intros H; try discriminate H; reflexivity. Qed.

(* every available estimate is the base statistic (no window) or the
   average of the stored estimates with the weights of their number *)
Lemma extract_value st o : est_inv st ->
  match o with OExtract2 _ _ | OExtract5 _ _ _ _ _ => True | _ => False end ->
  let r := step st o in
  match meth_win (meth st), pushed st o with
  | Some v, Some e =>
      fst (snd r) = true /\
      hb (fst r) = hist_add e (hb st) /\
      snd (snd r) = mean S lin circ (buf (hb (fst r))) (win_weights S v (length (buf (hb (fst r)))))
  | Some _, None => fst (snd r) = false /\ fst r = st
  | None, _ =>
      fst r = st /\
      match o, meth_stat (meth st) with
      | OExtract2 ps lw, Smean | OExtract5 ps lw _ _ _, Smean => snd r = (true, mean S lin circ ps lw)
      | OExtract2 ps lw, Smode | OExtract5 ps lw _ _ _, Smode => snd r = (true, mode S ps lw)
      | OExtract5 ps _ plw lik Tm, Smap => snd r = (true, map_est S ps plw lik Tm)
      | _, _ => fst (snd r) = false
      end
  end.
Proof.
  intros Hi Ho r. subst r. destruct o as [ps lw|ps lw plw lik Tm|m|w|]; try contradiction; unfold step, pushed.
  - unfold extract2. destruct (meth st) eqn:Em; cbn [meth_win meth_stat avail fst snd];
      try (split; reflexivity);
      match goal with |- context [windowed S lin circ ?v ?s st ps lw [] [] []] =>
        destruct (windowed_spec v s st ps lw [] [] [] Hi) as (H1 & _ & _ & H4);
        split; [reflexivity|split; [exact H1|]]; rewrite H1; exact H4 end.
  - unfold extract5, extract2. destruct (meth st) eqn:Em; cbn [meth_win meth_stat avail fst snd];
      try (split; reflexivity);
      match goal with |- context [windowed S lin circ ?v ?s st ps lw ?a ?b ?c] =>
        destruct (windowed_spec v s st ps lw a b c Hi) as (H1 & _ & _ & H4);
        split; [reflexivity|split; [exact H1|]]; rewrite H1; exact H4 end.
Qed.

End EstProofs.

(* ================================================================== *)
(* Part 3 — what is computed, over Coq's reals                        *)
(* ================================================================== *)
Require Import Reals Lra.
Require Import BFL.C19_ROps BFL.C19_Proofs.
Local Open Scope R_scope.

Ltac rops := cbn [T s0 s1 sadd ssub smul sdiv sopp sleb sltb sofZ ssqrt sexp sln scos ssin sacos satan2 spi stiny ROps] in *.

Fixpoint rdot (xs ws : list R) : R :=
  match xs, ws with x :: xs', w :: ws' => x * w + rdot xs' ws' | _, _ => 0 end.
Definition rsum (l : list R) : R := fold_right Rplus 0 l.

Lemma nth_map_lt {A B} (f : A -> B) l i d d' : (i < length l)%nat -> nth i (map f l) d = f (nth i l d').
Proof. intros H. rewrite (nth_indep _ d (f d')) by (now rewrite map_length). apply map_nth. Qed.

Lemma nth_map_seq {B} (f : nat -> B) a n i d : (i < n)%nat -> nth i (map f (seq a n)) d = f (a + i)%nat.
Proof. intros H. rewrite (nth_map_lt f _ i d 0%nat) by (now rewrite seq_length). now rewrite seq_nth. Qed.

Lemma wsum_acc xs : forall ws a,
  fold_left (fun acc p => sadd ROps acc (smul ROps (fst p) (snd p))) (combine xs ws) a = a + rdot xs ws.
Proof.
  induction xs as [|x xs IH]; intros [|w ws] a; cbn [combine fold_left rdot]; try lra.
  rewrite IH. rops. cbn [fst snd]. lra.
Qed.
Lemma wsum_R xs ws : wsum ROps xs ws = rdot xs ws.
Proof. unfold wsum. rewrite wsum_acc. rops. lra. Qed.

Lemma ssum_acc l : forall a, fold_left (sadd ROps) l a = a + rsum l.
Proof. induction l as [|x l IH]; intros a; cbn [fold_left rsum fold_right]; [lra|]. rewrite IH. rops. fold (rsum l). lra. Qed.
Lemma ssum_R l : ssum ROps l = rsum l.
Proof. unfold ssum. rewrite ssum_acc. rops. lra. Qed.

Lemma rsum_map_scale c l : rsum (map (fun x => c * x) l) = c * rsum l.
Proof. induction l as [|x l IH]; cbn [map rsum fold_right]; [lra|]. fold (rsum (map (fun x => c * x) l)). fold (rsum l). rewrite IH. lra. Qed.

Lemma rsum_exp_pos l : l <> [] -> 0 < rsum (map exp l).
Proof.
  intros H. destruct l as [|x l]; [contradiction|]. clear H. revert x.
  induction l as [|y l IH]; intros x; cbn [map rsum fold_right].
  - pose proof (exp_pos x). lra.
  - pose proof (exp_pos x). specialize (IH y). cbn [map rsum fold_right] in IH. lra.
Qed.

Lemma rdot_nil_r xs : rdot xs [] = 0.
Proof. destruct xs; reflexivity. Qed.

(* a convex combination lies between the extremes *)
Lemma rdot_between lo hi : forall xs ws, length xs = length ws ->
  Forall (fun x => lo <= x <= hi) xs -> Forall (fun w => 0 <= w) ws ->
  lo * rsum ws <= rdot xs ws <= hi * rsum ws.
Proof.
  induction xs as [|x xs IH]; intros [|w ws] Hl Hx Hw; try discriminate; cbn [rdot rsum fold_right]; [lra|].
  inversion Hx; inversion Hw; subst. injection Hl as Hl. specialize (IH ws Hl H2 H6).
  fold (rsum ws). nra.
Qed.

Section RealProofs.
Variables lin circ : nat.
Notation meanR := (mean ROps lin circ).

Lemma dir_mean_length cols (a : list (list R)) w : length (dir_mean ROps cols a w) = length a.
Proof. unfold dir_mean. destruct (Nat.eqb cols 1); apply map_length. Qed.

Lemma mean_length ps lw : length (meanR ps lw) = (lin + circ)%nat.
Proof. unfold mean. rewrite app_length, dir_mean_length, !map_length, !seq_length. reflexivity. Qed.

(* linear rows: sum_i exp(lw_i) x_i *)
Lemma mean_linear ps lw r : (r < lin)%nat ->
  nth r (meanR ps lw) 0 = rdot (prow ROps r ps) (map exp lw).
Proof.
  intros H. unfold mean. rewrite app_nth1 by (now rewrite map_length, seq_length).
  rewrite nth_map_seq by exact H. rewrite wsum_R. reflexivity.
Qed.

Lemma resultant_acc row : forall w a b,
  fold_left (fun acc aw => cadd ROps acc (cscale ROps (cexp ROps (cj_times ROps (fst aw))) (snd aw)))
            (combine row w) (a, b)
  = (a + rdot (map cos row) w, b + rdot (map sin row) w).
Proof.
  induction row as [|x row IH]; intros [|y w] a b; cbn [combine fold_left map rdot]; try (f_equal; lra).
  match goal with |- fold_left ?f ?l ?acc = _ =>
    let acc' := eval cbv beta iota delta [cadd cscale cexp cj_times fst snd] in acc in change acc with acc' end.
  rewrite IH. rops. rewrite exp_0. f_equal; lra.
Qed.

Lemma mean_row_R row w : mean_row ROps row w = atan2 (rdot (map sin row) w) (rdot (map cos row) w).
Proof.
  unfold mean_row, resultant, carg. rops. rewrite resultant_acc. cbn [fst snd]. f_equal; lra.
Qed.

(* circular rows: the particle itself when there is one, otherwise the
   argument of the weighted resultant  sum_i exp(lw_i) e^{j a_i} *)
Lemma mean_circular ps lw r : (lin <= r < lin + circ)%nat ->
  nth r (meanR ps lw) 0 =
  if Nat.eqb (length ps) 1 then atan2 (sin (nth r (nth 0 ps []) 0)) (cos (nth r (nth 0 ps []) 0))
  else atan2 (rdot (map sin (prow ROps r ps)) (map exp lw)) (rdot (map cos (prow ROps r ps)) (map exp lw)).
Proof.
  intros H. unfold mean. rewrite app_nth2 by (rewrite map_length, seq_length; lia).
  rewrite map_length, seq_length. unfold dir_mean.
  destruct (Nat.eqb_spec (length ps) 1) as [E|E]; rewrite map_map, nth_map_seq by lia;
    replace (lin + (r - lin))%nat with r by lia.
  - destruct ps as [|p [|q ps]]; try discriminate E. cbn [prow map nth]. rewrite wrap_R. rops. now rewrite Rplus_0_r.
  - apply mean_row_R.
Qed.
End RealProofs.

(* ---------------- first maximum (Eigen maxCoeff(&i)) ---------------- *)
Definition is_first_max (L : list R) (r : nat) : Prop :=
  (r < length L)%nat /\ (forall j, (j < length L)%nat -> nth j L 0 <= nth r L 0)
  /\ (forall j, (j < r)%nat -> nth j L 0 < nth r L 0).

Lemma argmax_from_spec l : forall pre best, (best < length pre)%nat ->
  (forall j, (j < length pre)%nat -> nth j pre 0 <= nth best pre 0) ->
  (forall j, (j < best)%nat -> nth j pre 0 < nth best pre 0) ->
  is_first_max (pre ++ l) (argmax_from ROps l (length pre) best (nth best pre 0)).
Proof.
  induction l as [|v l IH]; intros pre best Hb Hle Hlt; cbn [argmax_from].
  - rewrite app_nil_r. repeat split; assumption.
  - rops. replace (pre ++ v :: l) with ((pre ++ [v]) ++ l) by (now rewrite <- app_assoc).
    assert (Hlen : length (pre ++ [v]) = Datatypes.S (length pre)) by (rewrite app_length; simpl; lia).
    destruct (Rltb (nth best pre 0) v) eqn:E.
    + apply Rltb_true in E.
      assert (Hv : nth (length pre) (pre ++ [v]) 0 = v) by (rewrite app_nth2, Nat.sub_diag by lia; reflexivity).
      specialize (IH (pre ++ [v]) (length pre)). rewrite Hlen, Hv in IH. apply IH.
      * lia.
      * intros j Hj. destruct (Nat.eq_dec j (length pre)) as [->|Hn].
        -- rewrite Hv. lra.
        -- rewrite app_nth1 by lia. specialize (Hle j ltac:(lia)). lra.
      * intros j Hj. rewrite app_nth1 by lia. specialize (Hle j Hj). lra.
    + apply Rltb_false in E.
      assert (Hbst : nth best (pre ++ [v]) 0 = nth best pre 0) by (now rewrite app_nth1).
      specialize (IH (pre ++ [v]) best). rewrite Hlen, Hbst in IH. apply IH.
      * lia.
      * intros j Hj. destruct (Nat.eq_dec j (length pre)) as [->|Hn].
        -- rewrite app_nth2, Nat.sub_diag by lia. exact E.
        -- rewrite app_nth1 by lia. apply Hle. lia.
      * intros j Hj. rewrite app_nth1 by lia. now apply Hlt.
Qed.

Lemma argmax_spec L : L <> [] -> is_first_max L (argmax ROps L).
Proof.
  destruct L as [|x l]; [contradiction|]. intros _. unfold argmax.
  change (x :: l) with ([x] ++ l). change 1%nat with (length [x]). change x with (nth 0 [x] 0) at 2.
  apply argmax_from_spec; simpl.
  - lia.
  - intros j Hj. assert (j = 0%nat) by lia. subst. lra.
  - intros j Hj. lia.
Qed.

(* mode: a particle of largest weight (the first one) *)
Lemma mode_spec ps lw : lw <> [] ->
  mode ROps ps lw = nth (argmax ROps lw) ps [] /\ is_first_max lw (argmax ROps lw).
Proof. intros H. split; [reflexivity | now apply argmax_spec]. Qed.

(* ---------------- log-sum-exp and the map score ---------------- *)
Lemma lse_R l : l <> [] -> lse ROps l = ln (rsum (map exp l)).
Proof.
  intros H. unfold lse. set (m := lmax ROps l). rewrite ssum_R. rops.
  replace (rsum (map (fun x => exp (x - m)) l)) with (exp (- m) * rsum (map exp l)).
  - rewrite ln_mult by (try apply exp_pos; now apply rsum_exp_pos). rewrite ln_exp. lra.
  - rewrite <- rsum_map_scale, map_map. f_equal. apply map_ext. intros a. rewrite <- exp_plus. f_equal. lra.
Qed.

Definition eps : R := stiny ROps.
Lemma eps_pos : 0 < eps.
Proof.
  unfold eps. rops. apply Rinv_0_lt_compat. apply IZR_lt. apply Z.pow_pos_nonneg; lia.
Qed.

Lemma rsum_exp_combine : forall trow plw, Forall (fun x => 0 <= x) trow ->
  rsum (map exp (map (fun tp => ln (fst tp + eps) + snd tp) (combine trow plw)))
  = rdot (map (fun x => x + eps) trow) (map exp plw).
Proof.
  pose proof eps_pos as He.
  induction trow as [|x trow IH]; intros [|p plw] Hf; cbn [combine map rsum fold_right rdot]; try reflexivity.
  inversion Hf; subst. fold (rsum (map exp (map (fun tp => ln (fst tp + eps) + snd tp) (combine trow plw)))).
  rewrite IH by assumption. cbn [fst snd]. rewrite exp_plus, exp_ln by lra. reflexivity.
Qed.

(* the coded score is the logarithm of
   (lik_i + eps) * sum_j (T_ij + eps) * exp(previous log-weight_j) *)
Definition map_product (plw : list R) (l : R) (trow : list R) : R :=
  (l + eps) * rdot (map (fun x => x + eps) trow) (map exp plw).

Lemma map_product_pos plw l trow : 0 <= l -> Forall (fun x => 0 <= x) trow ->
  combine trow plw <> [] -> 0 < map_product plw l trow.
Proof.
  intros Hl Ht Hne. pose proof eps_pos. unfold map_product. apply Rmult_lt_0_compat; [lra|].
  rewrite <- rsum_exp_combine by assumption. apply rsum_exp_pos.
  destruct (combine trow plw); [contradiction|discriminate].
Qed.

Lemma map_value_R plw l trow : 0 <= l -> Forall (fun x => 0 <= x) trow -> combine trow plw <> [] ->
  map_value ROps plw l trow = ln (map_product plw l trow).
Proof.
  intros Hl Ht Hne. pose proof eps_pos as He. unfold map_value.
  rewrite lse_R by (intro Hm; apply map_eq_nil in Hm; contradiction).
  rops. fold eps. rewrite rsum_exp_combine by assumption.
  unfold map_product. rewrite ln_mult; [reflexivity|lra|].
  pose proof (map_product_pos plw l trow Hl Ht Hne) as Hp. unfold map_product in Hp.
  assert (0 < l + eps) by lra. nra.
Qed.

Lemma ln_le_inv' a b : 0 < a -> 0 < b -> ln a <= ln b -> a <= b.
Proof.
  intros Ha Hb H. destruct (Rle_or_lt a b) as [|Hlt]; [assumption|].
  apply ln_increasing in Hlt; [lra|assumption].
Qed.
Lemma ln_le' a b : 0 < a -> a <= b -> ln a <= ln b.
Proof. intros Ha [H| ->]; [left; now apply ln_increasing | lra]. Qed.

Lemma combine_nth_lt {A B} : forall (l : list A) (l' : list B) n x y, (n < length l)%nat -> (n < length l')%nat ->
  nth n (combine l l') (x, y) = (nth n l x, nth n l' y).
Proof.
  induction l as [|a l IH]; intros [|b l'] n x y H1 H2; simpl in *; try lia.
  destruct n; [reflexivity|]. apply IH; lia.
Qed.

Lemma map_values_length plw lik Tm : length (map_values ROps plw lik Tm) = Nat.min (length lik) (length Tm).
Proof. unfold map_values. now rewrite map_length, combine_length. Qed.

Lemma map_values_nth plw lik Tm j : (j < length lik)%nat -> (j < length Tm)%nat ->
  nth j (map_values ROps plw lik Tm) 0 = map_value ROps plw (nth j lik 0) (nth j Tm []).
Proof.
  intros H1 H2. unfold map_values.
  rewrite (nth_map_lt _ _ j 0 (0, [])) by (rewrite combine_length; lia).
  now rewrite combine_nth_lt.
Qed.

(* map: the returned particle is the first maximiser of the coded score ... *)
Lemma map_spec ps plw lik Tm : lik <> [] -> Tm <> [] ->
  map_est ROps ps plw lik Tm = nth (argmax ROps (map_values ROps plw lik Tm)) ps []
  /\ is_first_max (map_values ROps plw lik Tm) (argmax ROps (map_values ROps plw lik Tm)).
Proof.
  intros H1 H2. split; [reflexivity|]. apply argmax_spec. unfold map_values.
  destruct lik; [contradiction|]. destruct Tm; [contradiction|]. discriminate.
Qed.

(* ... hence a maximiser of (lik_i + eps) * sum_j (T_ij + eps) w_j *)
Lemma map_maximises_product ps plw lik Tm :
  length lik = length Tm -> lik <> [] -> plw <> [] ->
  Forall (fun l => 0 <= l) lik ->
  Forall (fun row => Forall (fun x => 0 <= x) row /\ row <> []) Tm ->
  let i := argmax ROps (map_values ROps plw lik Tm) in
  (i < length lik)%nat /\ map_est ROps ps plw lik Tm = nth i ps [] /\
  (forall j, (j < length lik)%nat ->
     nth j (map_values ROps plw lik Tm) 0 = ln (map_product plw (nth j lik 0) (nth j Tm []))) /\
  (forall j, (j < length lik)%nat ->
     map_product plw (nth j lik 0) (nth j Tm []) <= map_product plw (nth i lik 0) (nth i Tm [])).
Proof.
  intros Hlen Hl Hp Hlik HT i.
  assert (HTne : Tm <> []) by (destruct Tm; [destruct lik; [contradiction|discriminate]|discriminate]).
  destruct (map_spec ps plw lik Tm Hl HTne) as [Hm (Hi & Hmax & _)]. fold i in Hm, Hi, Hmax.
  pose proof (map_values_length plw lik Tm) as HL. change (T ROps) with R in *.
  rewrite <- Hlen, Nat.min_id in HL. rewrite HL in Hi, Hmax.
  assert (Hrow : forall j, (j < length lik)%nat ->
            0 <= nth j lik 0 /\ Forall (fun x => 0 <= x) (nth j Tm []) /\ combine (nth j Tm []) plw <> []).
  { intros j Hj. split; [|split].
    - apply (proj1 (Forall_nth _ lik) Hlik). exact Hj.
    - apply (proj1 (Forall_nth _ Tm) HT j []). lia.
    - destruct (proj1 (Forall_nth _ Tm) HT j [] ltac:(lia)) as [_ Hne].
      destruct (nth j Tm []); [contradiction|]. destruct plw; [contradiction|]. discriminate. }
  assert (Hval : forall j, (j < length lik)%nat ->
            nth j (map_values ROps plw lik Tm) 0 = ln (map_product plw (nth j lik 0) (nth j Tm []))).
  { intros j Hj. destruct (Hrow j Hj) as (A & B & C). rewrite map_values_nth by (change (T ROps) with R; lia). now apply map_value_R. }
  change (T ROps) with R in *.
  split; [exact Hi|]. split; [exact Hm|]. split; [exact Hval|].
  intros j Hj. specialize (Hmax j Hj). rewrite (Hval j Hj), (Hval i Hi) in Hmax.
  destruct (Hrow j Hj) as (A & B & C). destruct (Hrow i Hi) as (A' & B' & C').
  apply ln_le_inv'; try assumption; now apply map_product_pos.
Qed.

(* ---------------- the window weights ---------------- *)
Definition weights_ok (n : nat) (w : list R) : Prop :=
  length w = n /\ (forall i, (i < n)%nat -> 0 < nth i w 0) /\ rsum w = 1
  /\ (forall i j, (i <= j)%nat -> (j < n)%nat -> nth j w 0 <= nth i w 0).

Lemma rsum_map_div l c : rsum (map (fun x => x / c) l) = rsum l / c.
Proof.
  induction l as [|x l IH]; cbn [map rsum fold_right]; [unfold Rdiv; lra|].
  fold (rsum (map (fun x => x / c) l)). fold (rsum l). rewrite IH. unfold Rdiv. lra.
Qed.

Lemma sub_lse_exp l : l <> [] ->
  map exp (sub_lse ROps l) = map (fun x => exp x / rsum (map exp l)) l.
Proof.
  intros H. unfold sub_lse. cbv zeta. rewrite map_map. apply map_ext. intros a. rops.
  rewrite lse_R by assumption. unfold Rminus, Rdiv.
  rewrite exp_plus, exp_Ropp, exp_ln by (now apply rsum_exp_pos). reflexivity.
Qed.

Lemma exp_le a b : a <= b -> exp a <= exp b.
Proof. intros [H| ->]; [left; now apply exp_increasing | lra]. Qed.

Lemma normalized_ok l n : length l = n -> (1 <= n)%nat ->
  (forall i j, (i <= j)%nat -> (j < n)%nat -> nth j l 0 <= nth i l 0) ->
  weights_ok n (map exp (sub_lse ROps l)) /\
  (forall i, (i < n)%nat -> nth i (map exp (sub_lse ROps l)) 0 = exp (nth i l 0) / rsum (map exp l)).
Proof.
  intros Hn H1 Hmono.
  assert (Hne : l <> []) by (destruct l; [simpl in Hn; lia | discriminate]).
  pose proof (rsum_exp_pos l Hne) as Hs. rewrite sub_lse_exp by exact Hne.
  set (sm := rsum (map exp l)) in *.
  assert (Hnth : forall i, (i < n)%nat -> nth i (map (fun x => exp x / sm) l) 0 = exp (nth i l 0) / sm).
  { intros i Hi. apply (nth_map_lt (fun x => exp x / sm) l i 0 0). lia. }
  split; [|exact Hnth]. split; [now rewrite map_length|]. split; [|split].
  - intros i Hi. rewrite Hnth by exact Hi. apply Rdiv_lt_0_compat; [apply exp_pos|exact Hs].
  - replace (map (fun x => exp x / sm) l) with (map (fun y => y / sm) (map exp l)) by (now rewrite map_map).
    rewrite rsum_map_div. fold sm. field. lra.
  - intros i j Hij Hj. rewrite !Hnth by lia. unfold Rdiv.
    apply Rmult_le_compat_r; [left; now apply Rinv_0_lt_compat | apply exp_le, Hmono; assumption].
Qed.

Lemma INR_sofnat n : sofnat ROps n = INR n.
Proof. unfold sofnat. rops. symmetry. apply INR_IZR_INZ. Qed.

Lemma rsum_repeat a n : rsum (repeat a n) = INR n * a.
Proof.
  induction n as [|n IH]; [simpl; lra|]. rewrite S_INR. cbn [repeat rsum fold_right].
  fold (rsum (repeat a n)). rewrite IH. lra.
Qed.

Lemma nth_repeat_lt (a : R) n i d : (i < n)%nat -> nth i (repeat a n) d = a.
Proof. revert i. induction n as [|n IH]; intros i H; [lia|]. destruct i; [reflexivity|]. simpl. apply IH. lia. Qed.

Lemma map_repeat' {A B} (f : A -> B) a n : map f (repeat a n) = repeat (f a) n.
Proof. induction n as [|n IH]; [reflexivity|]. simpl. now rewrite IH. Qed.

(* simple: all weights equal 1/n *)
Lemma sm_ok n : (1 <= n)%nat ->
  weights_ok n (map exp (sm_weights ROps n)) /\
  (forall i, (i < n)%nat -> nth i (map exp (sm_weights ROps n)) 0 = / INR n).
Proof.
  intros H1. assert (Hn : 0 < INR n) by (apply lt_0_INR; lia).
  unfold sm_weights. rewrite map_repeat'. rops. rewrite INR_sofnat, exp_Ropp, exp_ln by exact Hn.
  assert (Hnth : forall i, (i < n)%nat -> nth i (repeat (/ INR n) n) 0 = / INR n)
    by (intros; now apply nth_repeat_lt).
  split; [|exact Hnth]. split; [apply repeat_length|]. split; [|split].
  - intros i Hi. rewrite Hnth by exact Hi. now apply Rinv_0_lt_compat.
  - rewrite rsum_repeat. field. lra.
  - intros i j Hij Hj. rewrite !Hnth by lia. lra.
Qed.

(* weighted: weight of the i-th most recent estimate proportional to n - i *)
Lemma wm_ok n : (1 <= n)%nat ->
  weights_ok n (map exp (wm_weights ROps n)) /\
  (forall i, (i < n)%nat -> nth i (map exp (wm_weights ROps n)) 0
                           = INR (n - i) / rsum (map (fun k => INR (n - k)) (seq 0 n))).
Proof.
  intros H1. unfold wm_weights.
  set (raw := map (fun i => sln ROps (sofnat ROps (n - i))) (seq 0 n)).
  assert (Hraw : forall i, (i < n)%nat -> nth i raw 0 = ln (INR (n - i))).
  { intros i Hi. unfold raw. rewrite nth_map_seq by exact Hi. rops. now rewrite INR_sofnat. }
  assert (Hpos : forall i, (i < n)%nat -> 0 < INR (n - i)) by (intros; apply lt_0_INR; lia).
  destruct (normalized_ok raw n) as [Hok Hcf].
  - unfold raw. now rewrite map_length, seq_length.
  - exact H1.
  - intros i j Hij Hj. rewrite !Hraw by lia. apply ln_le'; [apply Hpos; lia | apply le_INR; lia].
  - split; [exact Hok|]. intros i Hi. rewrite Hcf, Hraw by exact Hi. rewrite exp_ln by (now apply Hpos).
    f_equal. f_equal. unfold raw. rewrite map_map. apply map_ext_in. intros k Hk. apply in_seq in Hk.
    rops. rewrite INR_sofnat. apply exp_ln. apply Hpos. lia.
Qed.

(* exponential: weight of the i-th most recent estimate proportional to exp(-i/n) *)
Lemma em_ok n : (1 <= n)%nat ->
  weights_ok n (map exp (em_weights ROps n)) /\
  (forall i, (i < n)%nat -> nth i (map exp (em_weights ROps n)) 0
                           = exp (- (INR i / INR n)) / rsum (map (fun k => exp (- (INR k / INR n))) (seq 0 n))).
Proof.
  intros H1. assert (Hn : 0 < INR n) by (apply lt_0_INR; lia). unfold em_weights.
  set (raw := map (fun i => sopp ROps (sdiv ROps (sofnat ROps i) (sofnat ROps n))) (seq 0 n)).
  assert (Hraw : forall i, (i < n)%nat -> nth i raw 0 = - (INR i / INR n)).
  { intros i Hi. unfold raw. rewrite nth_map_seq by exact Hi. rops. now rewrite !INR_sofnat. }
  destruct (normalized_ok raw n) as [Hok Hcf].
  - unfold raw. now rewrite map_length, seq_length.
  - exact H1.
  - intros i j Hij Hj. rewrite !Hraw by lia. apply Ropp_le_contravar. unfold Rdiv.
    apply Rmult_le_compat_r; [left; now apply Rinv_0_lt_compat | apply le_INR; lia].
  - split; [exact Hok|]. intros i Hi. rewrite Hcf, Hraw by exact Hi.
    f_equal. f_equal. unfold raw. rewrite map_map. apply map_ext. intros k. rops. now rewrite !INR_sofnat.
Qed.

Lemma win_weights_ok v n : (1 <= n)%nat -> weights_ok n (map exp (win_weights ROps v n)).
Proof. intros H. destruct v; [apply sm_ok | apply wm_ok | apply em_ok]; exact H. Qed.

(* positive weights summing to one: the weighted value lies between the extremes *)
Lemma weights_ok_between n w xs lo hi : weights_ok n w -> length xs = n ->
  Forall (fun x => lo <= x <= hi) xs -> lo <= rdot xs w <= hi.
Proof.
  intros (Hl & Hp & Hs & _) Hx Hb.
  assert (Hw : Forall (fun a => 0 <= a) w).
  { apply Forall_nth. intros i d Hi. rewrite (nth_indep _ d 0) by exact Hi. left. apply Hp. lia. }
  pose proof (rdot_between lo hi xs w ltac:(lia) Hb Hw) as H. rewrite Hs in H. lra.
Qed.

(* ---------------- the windowed estimate ---------------- *)
Section Windowed.
Variables lin circ : nat.

Lemma windowed_convex v s st ps lw plw lik Tm : est_inv ROps st ->
  let e := base_est ROps lin circ s ps lw plw lik Tm in
  let r := windowed ROps lin circ v s st ps lw plw lik Tm in
  let H := buf (hb (fst r)) in
  let n := length H in
  let W := map exp (win_weights ROps v n) in
  H = firstn (window (hb st)) (e :: buf (hb st)) /\
  n = Nat.min (Datatypes.S (length (buf (hb st)))) (window (hb st)) /\
  (1 <= n)%nat /\
  weights_ok n W /\
  (v = Wsimple -> forall i, (i < n)%nat -> nth i W 0 = / INR n) /\
  (forall k, (k < lin)%nat -> nth k (snd r) 0 = rdot (prow ROps k H) W) /\
  (forall k, (lin <= k < lin + circ)%nat ->
     nth k (snd r) 0 = if Nat.eqb n 1 then atan2 (sin (nth k (nth 0 H []) 0)) (cos (nth k (nth 0 H []) 0))
                       else atan2 (rdot (map sin (prow ROps k H)) W) (rdot (map cos (prow ROps k H)) W)).
Proof.
  intros Hi e r H n W.
  destruct (windowed_spec ROps lin circ v s st ps lw plw lik Tm Hi) as (H1 & _ & _ & H4).
  fold e in H1, H4. fold r in H1, H4. destruct Hi as (Hh & _).
  assert (HH : H = firstn (window (hb st)) (e :: buf (hb st))) by (unfold H; rewrite H1; now apply add_buf).
  assert (Hn : n = Nat.min (Datatypes.S (length (buf (hb st)))) (window (hb st)))
    by (unfold n, H; rewrite H1; now apply add_length).
  assert (Hn1 : (1 <= n)%nat) by (destruct Hh; lia).
  split; [exact HH|]. split; [exact Hn|]. split; [exact Hn1|]. split; [now apply win_weights_ok|].
  split; [intros -> i Hlt; now apply sm_ok|].
  rewrite <- H1 in H4. fold H in H4. fold n in H4. rewrite H4. split.
  - intros k Hk. apply mean_linear. exact Hk.
  - intros k Hk. apply mean_circular. exact Hk.
Qed.
End Windowed.

(* the direction of the weighted resultant, when there is one (C19_ROps.atan2_polar) *)
Lemma circular_mean_is_resultant_direction (a w : list R) :
  let C := rdot (map cos a) w in let Sn := rdot (map sin a) w in
  (C <> 0 \/ Sn <> 0) ->
  let th := atan2 Sn C in
  - PI < th <= PI /\ C = sqrt (C² + Sn²) * cos th /\ Sn = sqrt (C² + Sn²) * sin th.
Proof. intros C Sn Hnz th. apply (atan2_polar Sn C Hnz). Qed.

(* normalised weights: the linear rows are the weighted arithmetic mean, which
   lies between the smallest and the largest particle coordinate *)
Lemma mean_linear_normalised lin circ ps lw r : (r < lin)%nat -> rsum (map exp lw) = 1 ->
  nth r (mean ROps lin circ ps lw) 0 = rdot (prow ROps r ps) (map exp lw) / rsum (map exp lw).
Proof. intros Hr Hs. rewrite mean_linear by exact Hr. rewrite Hs. change (T ROps) with R. field. Qed.

Lemma mean_linear_between lin circ ps lw r lo hi : (r < lin)%nat -> length lw = length ps ->
  rsum (map exp lw) = 1 -> Forall (fun p => lo <= nth r p 0 <= hi) ps ->
  lo <= nth r (mean ROps lin circ ps lw) 0 <= hi.
Proof.
  intros Hr Hl Hs Hb. rewrite mean_linear by exact Hr.
  assert (H : lo * rsum (map exp lw) <= rdot (prow ROps r ps) (map exp lw) <= hi * rsum (map exp lw)).
  { apply rdot_between.
    - unfold prow. now rewrite !map_length.
    - unfold prow. apply Forall_map. exact Hb.
    - apply Forall_map. apply Forall_forall. intros x _. left. apply exp_pos. }
  rewrite Hs in H. lra.
Qed.

(* reachable states *)
Lemma reachable_inv S lin circ ops : est_inv S (run S lin circ (est_init S) ops).
Proof. apply run_inv, est_init_inv. Qed.

Lemma reachable_prefix S lin circ ops :
  let r := trace S lin circ (est_init S) ops [] in
  fst r = run S lin circ (est_init S) ops /\
  buf (hb (fst r)) = firstn (length (buf (hb (fst r)))) (snd r).
Proof.
  split; [apply trace_state|]. apply trace_prefix; [apply est_init_inv | reflexivity].
Qed.

Lemma hreachable_inv A ops : hinv (hrun (hist_init A) ops).
Proof. apply hrun_inv, init_inv. Qed.

Lemma stored_fixed_window S lin circ (pre post : list (op S)) :
  let st := run S lin circ (est_init S) pre in
  buf (hb st) = [] -> Forall (quiet S) post ->
  let r := trace S lin circ st post [] in
  window (hb (fst r)) = window (hb st) /\
  buf (hb (fst r)) = firstn (Nat.min (length (snd r)) (window (hb st))) (snd r).
Proof.
  intros st He Hq. apply (trace_quiet S lin circ post st [] (reachable_inv S lin circ pre) Hq).
  rewrite He. reflexivity.
Qed.

(* the count "min(calls since the last clear, window)" fails across a window change *)
Require Import QArith.
Require Import BFL.ListOps.
Lemma min_calls_window_refuted :
  exists ops : list (op QOps),
    let r := trace QOps 1 0 (est_init QOps) ops [] in
    length (buf (hb (fst r))) <> Nat.min (length (snd r)) (window (hb (fst r))).
Proof.
  exists [@OSetMethod QOps Msmode; @OExtract2 QOps [[1%Q]] [0%Q]; @OExtract2 QOps [[2%Q]] [0%Q]; @OExtract2 QOps [[3%Q]] [0%Q];
          OSetWindow 2; OSetWindow 5].
  vm_compute. discriminate.
Qed.

Local Open Scope R_scope.
(* end to end: a windowed extract on a reachable state, row by row *)
Lemma extract_windowed_rows lin circ (ops : list (op ROps)) (o : op ROps) v e :
  let st := run ROps lin circ (est_init ROps) ops in
  match o with OExtract2 _ _ | OExtract5 _ _ _ _ _ => True | _ => False end ->
  meth_win (meth st) = Some v -> pushed ROps lin circ st o = Some e ->
  let r := step ROps lin circ st o in
  let H := buf (hb (fst r)) in
  let n := length H in
  let W := map exp (win_weights ROps v n) in
  fst (snd r) = true /\
  H = firstn (window (hb st)) (e :: buf (hb st)) /\
  n = Nat.min (Datatypes.S (length (buf (hb st)))) (window (hb st)) /\ (1 <= n)%nat /\
  weights_ok n W /\
  (v = Wsimple -> forall i, (i < n)%nat -> nth i W 0 = / INR n) /\
  (forall k, (k < lin)%nat -> nth k (snd (snd r)) 0 = rdot (prow ROps k H) W) /\
  (forall k, (lin <= k < lin + circ)%nat ->
     nth k (snd (snd r)) 0 = if Nat.eqb n 1 then atan2 (sin (nth k (nth 0 H []) 0)) (cos (nth k (nth 0 H []) 0))
                             else atan2 (rdot (map sin (prow ROps k H)) W) (rdot (map cos (prow ROps k H)) W)).
Proof.
  intros st Ho Hv He r H n W.
  pose proof (reachable_inv ROps lin circ ops) as Hi. fold st in Hi.
  pose proof (extract_value ROps lin circ st o Hi Ho) as X. cbv zeta in X. fold r in X.
  rewrite Hv, He in X. destruct X as (X1 & X2 & X3). destruct Hi as (Hh & _).
  assert (HH : H = firstn (window (hb st)) (e :: buf (hb st))) by (unfold H; rewrite X2; now apply add_buf).
  assert (Hn : n = Nat.min (Datatypes.S (length (buf (hb st)))) (window (hb st)))
    by (unfold n, H; rewrite X2; now apply add_length).
  assert (Hn1 : (1 <= n)%nat) by (destruct Hh; lia).
  split; [exact X1|]. split; [exact HH|]. split; [exact Hn|]. split; [exact Hn1|].
  split; [now apply win_weights_ok|]. split; [intros -> i Hlt; now apply sm_ok|].
  fold H in X3. fold n in X3. rewrite X3. split.
  - intros k Hk. apply mean_linear. exact Hk.
  - intros k Hk. apply mean_circular. exact Hk.
Qed.

(* sum_{k<n} (n-k) = n(n+1)/2: the weighted variant gives 2(n-i)/(n(n+1)) *)
Lemma rsum_descending n : rsum (map (fun k => INR (n - k)) (seq 0 n)) = INR n * (INR n + 1) / 2.
Proof.
  induction n as [|n IH]; [simpl; lra|].
  rewrite <- cons_seq. cbn [map rsum fold_right]. rewrite <- seq_shift, map_map.
  replace (map (fun k => INR (Datatypes.S n - Datatypes.S k)) (seq 0 n)) with (map (fun k => INR (n - k)) (seq 0 n))
    by (apply map_ext; intros; reflexivity).
  fold (rsum (map (fun k => INR (n - k)) (seq 0 n))). rewrite IH.
  rewrite Nat.sub_0_r, !S_INR. lra.
Qed.

Lemma wm_closed_form n i : (1 <= n)%nat -> (i < n)%nat ->
  nth i (map exp (wm_weights ROps n)) 0 = 2 * INR (n - i) / (INR n * (INR n + 1)).
Proof.
  intros Hn Hi. rewrite (proj2 (wm_ok n Hn) i Hi), rsum_descending.
  assert (0 < INR n) by (apply lt_0_INR; lia). field. lra.
Qed.

(* setMobileAverageWindowSize on a reachable state *)
Lemma set_window_spec S lin circ (ops : list (op S)) (w : Z) :
  let st := run S lin circ (est_init S) ops in
  let r := set_window S w st in
  if (0 <? w)%Z then
    snd r = true /\ window (hb (fst r)) = clamp_window w /\
    buf (hb (fst r)) = firstn (clamp_window w) (buf (hb st)) /\
    meth (fst r) = meth st /\ smw (fst r) = smw st /\ wmw (fst r) = wmw st /\ emw (fst r) = emw st
  else r = (st, false).
Proof.
  intros st r. subst r. unfold set_window. destruct (0 <? w)%Z; [|reflexivity].
  pose proof (proj1 (reachable_inv S lin circ ops)) as Hh. fold st in Hh. cbn [fst snd hb meth smw wmw emw].
  rewrite <- (set_size_window _ w (hb st) Hh) at 2.
  repeat split; [now apply set_size_window | now apply set_size_buf].
Qed.

(* ---------------- review round: moves, one stored estimate, constant coordinates ---------------- *)
Lemma hist_move_target A (h : hist A) : fst (hist_move h) = h.
Proof. destruct h; reflexivity. Qed.
Lemma est_move_target S (st : est S) : fst (est_move S st) = st.
Proof. destruct st as [m [w b] a1 a2 a3]; reflexivity. Qed.
(* the moved-from object is outside the invariant: using it is out of scope *)
Lemma est_moved_from S (st : est S) :
  window (hb (snd (est_move S st))) = 0%nat /\ ~ hinv (hb (snd (est_move S st))).
Proof. split; [reflexivity|]. intros [_ [H _]]. simpl in H. lia. Qed.

Lemma atan2_range y x : in_range (atan2 y x).
Proof.
  destruct (Req_dec x 0) as [Hx|Hx]; [destruct (Req_dec y 0) as [Hy|Hy]|].
  - subst. rewrite atan2_0_0. unfold in_range. pose proof PI_RGT_0. lra.
  - apply (atan2_polar y x). now right.
  - apply (atan2_polar y x). now left.
Qed.

(* one angle with a positive weight: its directional mean is the angle itself, modulo 2 PI *)
Lemma single_angle_cong a w : 0 < w ->
  cong2pi a (atan2 (rdot (map sin [a]) [w]) (rdot (map cos [a]) [w])).
Proof.
  intros Hw. cbn [map rdot]. rewrite !Rplus_0_r, (Rmult_comm (sin a)), (Rmult_comm (cos a)).
  rewrite atan2_scale by exact Hw. apply atan2_sin_cos.
Qed.

(* circular rows of mean (HEAD, after dee9c81): ALWAYS in (-PI, PI]; with exactly one particle the result is
   the principal value of the particle's angle (congruent to it modulo 2 PI) *)
Lemma mean_circular_on_circle lin circ ps lw r : (lin <= r < lin + circ)%nat ->
  let x := nth r (mean ROps lin circ ps lw) 0 in
  in_range x /\
  (forall p, ps = [p] -> x = atan2 (sin (nth r p 0)) (cos (nth r p 0)) /\ cong2pi (nth r p 0) x).
Proof.
  intros Hr x. unfold x. rewrite (mean_circular lin circ ps lw r Hr). split.
  - destruct (Nat.eqb (length ps) 1); apply atan2_range.
  - intros p ->. cbn [length Nat.eqb nth]. split; [reflexivity | apply atan2_sin_cos].
Qed.

(* a coordinate that is the same for every particle is returned unchanged (normalised weights) *)
Lemma mean_linear_const lin circ ps lw r c : (r < lin)%nat -> length lw = length ps ->
  rsum (map exp lw) = 1 -> Forall (fun p => nth r p 0 = c) ps ->
  nth r (mean ROps lin circ ps lw) 0 = c.
Proof.
  intros Hr Hl Hs Hc.
  assert (H : c <= nth r (mean ROps lin circ ps lw) 0 <= c).
  { apply mean_linear_between; try assumption.
    apply Forall_forall. intros p Hp. rewrite (proj1 (Forall_forall _ ps) Hc p Hp). lra. }
  lra.
Qed.

(* windowed circular output: ALWAYS in (-PI, PI]; with exactly one stored estimate it is the principal value
   of that estimate's angle *)
Lemma windowed_circular_on_circle lin circ (ops : list (op ROps)) (o : op ROps) v e :
  let st := run ROps lin circ (est_init ROps) ops in
  match o with OExtract2 _ _ | OExtract5 _ _ _ _ _ => True | _ => False end ->
  meth_win (meth st) = Some v -> pushed ROps lin circ st o = Some e ->
  let r := step ROps lin circ st o in
  let n := length (buf (hb (fst r))) in
  forall k, (lin <= k < lin + circ)%nat ->
    in_range (nth k (snd (snd r)) 0) /\
    (n = 1%nat -> nth k (snd (snd r)) 0 = atan2 (sin (nth k e 0)) (cos (nth k e 0)) /\
                  cong2pi (nth k e 0) (nth k (snd (snd r)) 0)).
Proof.
  intros st Ho Hv He r n k Hk.
  destruct (extract_windowed_rows lin circ ops o v e Ho Hv He) as (_ & HH & _ & _ & _ & _ & _ & Hc).
  fold st in HH, Hc. fold r in HH, Hc. fold n in Hc. rewrite (Hc k Hk). split.
  - destruct (Nat.eqb n 1); apply atan2_range.
  - intros Hn. rewrite Hn. cbn [Nat.eqb].
    assert (E : nth 0 (buf (hb (fst r))) [] = e).
    { rewrite HH. destruct (window (hb st)) eqn:Ew.
      - exfalso. pose proof (proj1 (reachable_inv ROps lin circ ops)) as [_ [Hw _]]. fold st in Hw. lia.
      - reflexivity. }
    rewrite E. split; [reflexivity | apply atan2_sin_cos].
Qed.
