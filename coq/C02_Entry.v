(* C02_Entry.v — the executable entry points of the C02 model: the model
   functions of C02_Model.v at the list instance of the matrix interface
   (scalars S left abstract), on plain lists.  C02_Extract.v extracts exactly
   these definitions; C02_TransportEntry.v proves that, with the scalars of a
   real field, they compute the MathComp instance the C02 theorems are about. *)
Require Import ZArith List.
Require Import BFL.Ops BFL.ListOps BFL.C02_Model.
Import ListNotations.

Definition c02_O (S : SOps) : MatOps := ListMat S (fun _ A => A) (fun _ A => A).

(* a mixture as the driver hands it over: means, covariances, weights, descriptors *)
Definition rawmix (S : SOps) : Type := (lmx S * list (lmx S) * list (T S) * glayout)%type.

Definition c02_mix (S : SOps) (n k : nat) (g : rawmix S) : gmix (c02_O S) n k :=
  @mkGmix (c02_O S) n k (fst (fst (fst g))) (snd (fst (fst g))) (snd (fst g)) (snd g).
Definition c02_unmix (S : SOps) (n k : nat) (r : gmix (c02_O S) n k) : rawmix S :=
  (gm_means r, gm_covs r, gm_weights r, gm_layout r).

(* the harness' exogenous model u(X) = B X + c 1^T, or none *)
Definition c02_exo (S : SOps) (n k : nat) (e : option (lmx S * lmx S))
  : option (M (c02_O S) n k -> M (c02_O S) n k) := @affine_exo_opt (c02_O S) n k e.

(* GaussianPrediction::predict with the three skip flags as given *)
Definition c02_run (S : SOps) (n k : nat) (F Q : lmx S) (e : option (lmx S * lmx S))
           (sp ss se : bool) (prev old : rawmix S) : rawmix S :=
  c02_unmix S n k
    (@gaussian_predict (c02_O S) n k F Q (c02_exo S n k e) sp ss se (c02_mix S n k prev) (c02_mix S n k old)).

(* LinearStateModel::propagate alone *)
Definition c02_propagate (S : SOps) (n k : nat) (F : lmx S) (e : option (lmx S * lmx S))
           (ss se : bool) (cur old : lmx S) : lmx S :=
  @lin_propagate (c02_O S) n k F (c02_exo S n k e) ss se cur old.

(* spec, component by component: (F m_i + u_i, F P_i F^T + Q) with u_i = B m_i + c *)
Definition c02_spec (S : SOps) (n k : nat) (F Q : lmx S) (e : option (lmx S * lmx S))
           (means : lmx S) (covs : list (lmx S)) : list (lmx S * lmx S) :=
  @kf_spec (c02_O S) n k F Q e means covs.

(* one prediction object, several calls: the inputs of each call *)
Record c02_call (S : SOps) := mkRawCall {
  rc_n : nat; rc_k : nat;
  rc_F : lmx S; rc_Q : lmx S;
  rc_exo : option (lmx S * lmx S);
  rc_sp : bool; rc_ss : bool; rc_se : bool;
  rc_prev : rawmix S; rc_old : rawmix S
}.
Arguments mkRawCall {S}. Arguments rc_n {S}. Arguments rc_k {S}. Arguments rc_F {S}. Arguments rc_Q {S}.
Arguments rc_exo {S}. Arguments rc_sp {S}. Arguments rc_ss {S}. Arguments rc_se {S}. Arguments rc_prev {S}. Arguments rc_old {S}.

Definition c02_pack (S : SOps) (c : c02_call S) : kf_call (c02_O S) :=
  @mkCall (c02_O S) (rc_n c) (rc_k c) (rc_F c) (rc_Q c) (c02_exo S (rc_n c) (rc_k c) (rc_exo c))
          (rc_sp c) (rc_ss c) (rc_se c) (c02_mix S (rc_n c) (rc_k c) (rc_prev c)) (c02_mix S (rc_n c) (rc_k c) (rc_old c)).
Definition c02_unpack (S : SOps) (r : kf_ret (c02_O S)) : rawmix S := c02_unmix S (kr_n r) (kr_k r) (kr_mix r).

Definition c02_seq (S : SOps) (cs : list (c02_call S)) : list (rawmix S) :=
  map (c02_unpack S) (kf_predict_seq (map (c02_pack S) cs)).
