(* Properties_C05.v — property C05 (temporary skeleton) *)
Require Import ZArith QArith List.
Require Import BFL.Ops BFL.ListOps BFL.Density BFL.C05_Model.
From mathcomp Require Import all_ssreflect all_algebra.
Require Import BFL.MxOps BFL.LinAlg BFL.C05_Proofs.
Import GRing.Theory.
Local Open Scope ring_scope.

Section C05.
Variable F : realFieldType.
Variable tr : Transc F.
Variable sq : forall n, 'M[F]_n -> 'M[F]_n.
Variable eg : forall n, 'M[F]_n -> 'M[F]_(n,1).
Let O := MxMat tr sq eg.

Theorem C05_size_mismatch_identity n m s (w : utw O) (h : M O n 1 -> M O m 1) (y : M O m 1)
      (nz : noise O s m) prev (pred corr_prev : mixture O n) :
  Nat.modulo m s <> 0%N ->
  sukf_correct w h y nz prev pred corr_prev = (pred, prev).
Proof. exact: sukf_size_mismatch. Qed.
End C05.

Example C05_ex : Nat.modulo 7 3 <> 0%N. Proof. by []. Qed.

Print Assumptions C05_size_mismatch_identity.
