(* Properties_C05.v — property C05: the serial (sub-measurement by sub-measurement)
   unscented correction returns the same corrected mean, covariance and likelihood
   as the standard additive unscented correction.  Statements only; each is closed
   by a lemma of C05_Proofs.

   All theorems hold for every realFieldType F, every state size n, every number k
   of sub-measurements of size s > 0 (meas = k*s), EVERY measurement function h
   (any function on columns), every component (x, P), every (alpha, beta, kappa)
   with c = n + lambda > 0 and wc_0 >= 0.  The noise covariance handed to the SUKF
   (nz: one shared s x s block with the reduced constructor, or the complete
   matrix with the full constructor) has diagonal blocks Rb 0 .. Rb (k-1), all SPD
   (noise_blocks nz Rb); the UKF is given the block-diagonal matrix bdiag k Rb.
   Oracles enter through their contracts: sqrt_ok (std::sqrt on non-negative
   numbers), sq_contract (the SVD factor A of a PSD matrix satisfies A A^T = P).
   Scope: linear layouts -- SUKFCorrection sizes its sigma set from pred_state.dim
   (2*dim+1) whereas sigma_point() produces 2*dim_covariance+1 columns; the model
   has dim = dim_covariance = n and nsig n = 1 + (n + n) sigma points.

   REMARK (no stale state).  The model of one correct() call, sukf_correct, is a pure
   function of THAT call's inputs: weights (fixed at construction), h, y, the noise
   covariance the measurement model returns at that call, the predicted belief and the
   previous content of the output object.  It takes no argument standing for what an
   earlier call left in the object: correctStep recomputes everything from the
   measurement model's current outputs and begins with innovations_.resize(0, 0), and
   getLikelihood() reads only what the last call stored (the `members` component of
   the result).  Hence for a sequence of calls on one object the theorems below apply
   to every call separately, and "the implementation's t-th call equals sukf_correct on
   the t-th inputs" IS the absence of stale state; there is nothing further to prove in
   Coq, it is the correspondence check that must establish it.  It does so on sequence
   cases (kind sukf_seq: one SUKFCorrection object per constructor and one UKFCorrection
   object driven through 2-4 calls while R, y, h, the belief and the sizes change). *)
Require Import ZArith QArith List.
Require Import BFL.Ops BFL.ListOps BFL.Density BFL.C05_Model.
From mathcomp Require Import all_ssreflect all_algebra.
Require Import BFL.MxOps BFL.LinAlg BFL.C05_Proofs.
Import GRing.Theory Num.Theory.
Local Open Scope ring_scope.

Section C05.
Variable F : realFieldType.
Variable tr : Transc F.
Variable sq : forall n, 'M[F]_n -> 'M[F]_n.
Variable eg : forall n, 'M[F]_n -> 'M[F]_(n,1).
Let O := MxMat tr sq eg.

(* contracts of the two square-root oracles *)
Hypothesis sqrt_ok : forall x : F, 0 <= x -> t_sqrt tr x * t_sqrt tr x = x.
Hypothesis sq_contract : forall d (P : 'M[F]_d), psd P -> @sq d P *m (@sq d P)^T = P.

Variables (n k s : nat).
Notation m := (k * s)%N.
Hypothesis s_gt0 : (0 < s)%N.

(* (i) the serial accumulation is the block sum: C^-1 = I + Y^T R^-1 Y, d = Y^T R^-1 nu,
   for ANY Y, nu (every block only needs to be invertible) *)
Theorem C05_block_sum L (Y : M O m L) (nu : M O m 1) (nz : noise O s m) (Rb : nat -> 'M[F]_s) :
  noise_blocks nz Rb -> (forall j, (j < k)%N -> Rb j \in unitmx) ->
  sukf_accum Y nu nz =
  (1%:M + Y^T *m invmx (bdiag k Rb) *m Y, Y^T *m invmx (bdiag k Rb) *m nu).
Proof. by move=> Hnz uR; exact: sukf_accum_blocks. Qed.

(* (ii), algebraic core: X (I + Y^T R^-1 Y)^-1 X^T = X X^T - X Y^T (Y Y^T + R)^-1 Y X^T *)
Theorem C05_serial_cov_identity a b L (X : 'M[F]_(a, L)) (Y : 'M[F]_(b, L)) (R : 'M[F]_b) : spd R ->
  X *m invmx (1%:M + Y^T *m invmx R *m Y) *m X^T =
  X *m X^T - X *m Y^T *m invmx (Y *m Y^T + R) *m Y *m X^T.
Proof. exact: serial_cov_identity. Qed.

(* (iii), algebraic core: the push-through identity *)
Theorem C05_push_through b L (Y : 'M[F]_(b, L)) (R : 'M[F]_b) : spd R ->
  invmx (1%:M + Y^T *m invmx R *m Y) *m (Y^T *m invmx R) = Y^T *m invmx (Y *m Y^T + R).
Proof. exact: serial_push_through. Qed.

Variables (alpha beta kappa : F).
Let w : utw O := @ut_weights O n alpha beta kappa.
Hypothesis c_gt0 : 0 < utc w.
Hypothesis wc0_ge0 : 0 <= wc0 w.

Variables (h : M O n 1 -> M O m 1) (y : M O m 1) (nz : noise O s m) (Rb : nat -> 'M[F]_s).
Hypothesis Hnz : noise_blocks nz Rb.
Hypothesis spdRb : forall j, (j < k)%N -> spd (Rb j).

(* the weighted state offsets reproduce the prior covariance: X X^T = P *)
Theorem C05_sigma_cov (x : M O n 1) (P : M O n n) : psd (P : 'M[F]_n) ->
  Xw w x P *m (Xw w x P)^T = P.
Proof. exact: step_sigma_cov. Qed.

(* (ii) covariance *)
Theorem C05_cov (x : M O n 1) (P : M O n n) : psd (P : 'M[F]_n) ->
  so_cov (sukf_correct_comp w h y nz x P) =
  uo_cov (ukf_correct_comp w h y (bdiag k Rb : M O m m) x P).
Proof. exact: step_comp_cov. Qed.

(* (iii) mean (no condition on P or on the SVD factor) *)
Theorem C05_mean (x : M O n 1) (P : M O n n) :
  so_mean (sukf_correct_comp w h y nz x P) =
  uo_mean (ukf_correct_comp w h y (bdiag k Rb : M O m m) x P).
Proof. exact: step_comp_mean. Qed.

(* (iv) likelihood: the UVR (Woodbury + determinant lemma) density of getLikelihood()
   equals N(y; ybar, Pyy) of UKFCorrection::getLikelihood() -- proved here for the
   call SUKFCorrection makes (one column, U = Y, V = Y^T), not taken from C15 *)
Theorem C05_likelihood (x : M O n 1) (P : M O n n) :
  sukf_likelihood_comp nz (sukf_correct_comp w h y nz x P) =
  ukf_likelihood_comp (ukf_correct_comp w h y (bdiag k Rb : M O m m) x P).
Proof. exact: (@step_comp_likelihood F tr sq eg sqrt_ok n k s alpha beta kappa h y nz Rb s_gt0 c_gt0 wc0_ge0 Hnz spdRb x P). Qed.

(* the matrices the two algorithms invert are invertible (invmx's totalisation is not used) *)
Theorem C05_Cinv_invertible (x : M O n 1) (P : M O n n) :
  (sukf_accum (so_Y (sukf_correct_comp w h y nz x P))
              (so_innov (sukf_correct_comp w h y nz x P)) nz).1 \in unitmx.
Proof. exact: (@step_Cinv_unit F tr sq eg n k s alpha beta kappa h y nz Rb s_gt0 Hnz spdRb x P). Qed.

Theorem C05_Pyy_invertible (x : M O n 1) (P : M O n n) :
  uo_Pyy (ukf_correct_comp w h y (bdiag k Rb : M O m m) x P) \in unitmx.
Proof. exact: (@step_Pyy_unit F tr sq eg sqrt_ok n k s alpha beta kappa h y Rb c_gt0 wc0_ge0 spdRb x P). Qed.

(* the whole step on a mixture: same components (mean, covariance) in the same order,
   the weights of the output object kept, same likelihood vector *)
Theorem C05_step_equals_ukf (pred corr_prev : mixture O n) :
  (forall c, List.In c (mix_comps pred) -> psd (c.2 : 'M[F]_n)) ->
  (sukf_correct w h y nz pred corr_prev).1 =
    (ukf_correct w h y (bdiag k Rb : M O m m) pred corr_prev).1 /\
  sukf_likelihood nz (sukf_correct w h y nz pred corr_prev).2 =
    Some (List.map (@ukf_likelihood_comp O n m)
                   (ukf_correct w h y (bdiag k Rb : M O m m) pred corr_prev).2).
Proof. exact: (@sukf_step_is_ukf F tr sq eg sqrt_ok n k s alpha beta kappa h y nz Rb s_gt0 c_gt0 wc0_ge0 Hnz spdRb sq_contract pred corr_prev). Qed.

(* (v) reduced constructor (one shared block) = full constructor with equal blocks:
   the whole step and the likelihood, for any weights, any h, no premise on R0 *)
Theorem C05_reduced_eq_full (w' : utw O) (R0 : 'M[F]_s) (pred corr_prev : mixture O n) :
  sukf_correct w' h y (@NoiseReduced O s m R0) pred corr_prev =
  sukf_correct w' h y (@NoiseFull O s m (bdiag k (fun _ => R0))) pred corr_prev.
Proof. exact: sukf_correct_reduced. Qed.

Theorem C05_reduced_eq_full_likelihood (R0 : 'M[F]_s) (mb : members O n m) :
  sukf_likelihood (@NoiseReduced O s m R0) mb =
  sukf_likelihood (@NoiseFull O s m (bdiag k (fun _ => R0))) mb.
Proof. exact: sukf_likelihood_reduced. Qed.

End C05.

(* (vi) a measurement size that is not a multiple of the block size: the output is
   the predicted belief (components AND weights), and no likelihood is available
   afterwards, whatever an earlier step left behind (the step clears innovations_ first) *)
Theorem C05_size_mismatch_identity (F : realFieldType) (tr : Transc F)
        (sq : forall n, 'M[F]_n -> 'M[F]_n) (eg : forall n, 'M[F]_n -> 'M[F]_(n,1))
        n m' s (w : utw (MxMat tr sq eg)) (h : M (MxMat tr sq eg) n 1 -> M (MxMat tr sq eg) m' 1)
        (y : M (MxMat tr sq eg) m' 1) (nz : noise (MxMat tr sq eg) s m')
        (pred corr_prev : mixture (MxMat tr sq eg) n) :
  Nat.modulo m' s <> 0%N ->
  sukf_correct w h y nz pred corr_prev = (pred, None) /\
  sukf_likelihood nz (sukf_correct w h y nz pred corr_prev).2 = None.
Proof. by move=> ne; rewrite sukf_size_mismatch. Qed.

(* ---- non-vacuity ---- *)
(* the diagonal blocks of bdiag are the given blocks (so "noise_blocks (NoiseFull R) Rb"
   says what it should), and SPD blocks exist in every size *)
Example C05_bdiag_blocks (F : realFieldType) s k (Rb : nat -> 'M[F]_s) j : (j < k)%N ->
  dblk s j (bdiag k Rb) = Rb j.
Proof. exact: dblk_bdiag. Qed.

Example C05_bdiag_offdiag (F : realFieldType) s k (Rb : nat -> 'M[F]_s) a b : (0 < s)%N ->
  (a %/ s != b %/ s)%N -> mx_get (bdiag k Rb) a b = 0.
Proof. exact: bdiag_offdiag. Qed.

Example C05_premises_satisfiable (F : realFieldType) s k :
  (forall j, (j < k)%N -> spd ((fun _ => 1%:M) j : 'M[F]_s)) /\ psd (1%:M : 'M[F]_s).
Proof. by split=> [j _|]; [exact: spd1 | apply: spd_psd; exact: spd1]. Qed.

(* the std::sqrt contract holds for Num.sqrt in every real closed field *)
Example C05_sqrt_contract_rcf (K : rcfType) (x : K) : 0 <= x -> Num.sqrt x * Num.sqrt x = x.
Proof. by move=> x0; rewrite -expr2 sqr_sqrtr. Qed.

(* the executable instance of the same model over exact rationals: serial accumulation
   over two DIFFERENT 2x2 blocks equals I + Y^T R^-1 Y, d = Y^T R^-1 nu computed with
   the full inverse, and the reduced constructor equals the full one with equal blocks *)
Definition QM := ListMat QOps (fun _ A => A) (fun _ A => A).
Example C05_concrete_Q :
  let Y := [:: [:: 1#1; 2#1; 0#1]; [:: 0#1; 1#1; 1#1]; [:: 3#1; -1#1; 2#1]; [:: 1#2; 0#1; 1#1]]%Q in
  let nu := [:: [:: 1#1]; [:: -1#1]; [:: 2#1]; [:: 1#3]]%Q in
  let R := [:: [:: 2#1; 1#1; 0#1; 0#1]; [:: 1#1; 3#1; 0#1; 0#1];
               [:: 0#1; 0#1; 1#1; 1#2]; [:: 0#1; 0#1; 1#2; 4#1]]%Q in
  let R0 := [:: [:: 2#1; 1#1]; [:: 1#1; 3#1]]%Q in
  let RR := [:: [:: 2#1; 1#1; 0#1; 0#1]; [:: 1#1; 3#1; 0#1; 0#1];
                [:: 0#1; 0#1; 2#1; 1#1]; [:: 0#1; 0#1; 1#1; 3#1]]%Q in
  let acc := @sukf_accum QM 2 4 3 Y nu (@NoiseFull QM 2 4 R) in
  let Ri := @minv QM 4 R in
  let YtRi := @mmul QM 3 4 4 (@mtr QM 4 3 Y) Ri in
  let accr := @sukf_accum QM 2 4 3 Y nu (@NoiseReduced QM 2 4 R0) in
  let accf := @sukf_accum QM 2 4 3 Y nu (@NoiseFull QM 2 4 RR) in
  qmx_eqb (fst acc) (@madd QM 3 3 (@mid QM 3) (@mmul QM 3 4 3 YtRi Y))
  && qmx_eqb (snd acc) (@mmul QM 3 4 1 YtRi nu)
  && qmx_eqb (fst accr) (fst accf) && qmx_eqb (snd accr) (snd accf) = true.
Proof. vm_compute. reflexivity. Qed.

Print Assumptions C05_block_sum.
Print Assumptions C05_serial_cov_identity.
Print Assumptions C05_push_through.
Print Assumptions C05_sigma_cov.
Print Assumptions C05_cov.
Print Assumptions C05_mean.
Print Assumptions C05_likelihood.
Print Assumptions C05_Cinv_invertible.
Print Assumptions C05_Pyy_invertible.
Print Assumptions C05_step_equals_ukf.
Print Assumptions C05_reduced_eq_full.
Print Assumptions C05_reduced_eq_full_likelihood.
Print Assumptions C05_size_mismatch_identity.
