(* Properties_C05.v — property C05: the serial (sub-measurement by sub-measurement)
   unscented correction returns the same corrected mean, covariance and likelihood
   as the standard additive unscented correction.  Statements only; each is closed
   by a lemma of C05_Proofs.

   All theorems hold for every realFieldType F, every state size n, every number k
   of sub-measurements of size s > 0 (meas = k*s), EVERY measurement function h
   (any function on columns), every component (x, P), every (alpha, beta, kappa)
   with c = n + lambda > 0 and wc_0 >= 0.  The noise covariance handed to the SUKF
   (nz: one shared s x s block with the reduced constructor, or the complete
   matrix with the full constructor) has diagonal blocks Rb 0 .. Rb (k-1), all SPD
   (noise_blocks nz Rb); the UKF is given the block-diagonal matrix bdiag k Rb.
   Oracles enter through their contracts: sqrt_ok (std::sqrt on non-negative
   numbers), sq_contract (the SVD factor A of a PSD matrix satisfies A A^T = P).
   Scope: linear and Euler STATE layouts (nl linear rows, then n - nl angles), linear and
   Euler MEASUREMENT layouts (ml linear rows, then m - ml angles: both corrections use
   directional_mean / directional_sub there, and every theorem below holds for any ml
   without further premise) -- SUKFCorrection sizes its sigma set from pred_state.dim
   (2*dim+1) whereas sigma_point() produces 2*dim_covariance+1 columns; the model
   has dim = dim_covariance = n and nsig n = 1 + (n + n) sigma points.  With angle rows
   the covariance clause carries the explicit premise state_roundtrip (the sigma-point
   perturbations are recovered by directional_sub after directional_add, i.e. they lie in
   (-pi, pi]); it is an identity for a linear layout (C05_linear_roundtrip).  Mean and
   likelihood need no such premise.  Before the fix "SUKFCorrection treats circular measurement
   components on the circle" the SUKF ignored the circular part of the measurement
   description; that transcription is C05_Model.sukf_correct_comp (= the present one at
   ml := m) and C05_ignoring_circular_measurement_refuted below keeps the counterexample.

   REMARK (no stale state).  The model of one correct() call, sukf_correct, is a pure
   function of THAT call's inputs: weights (fixed at construction), h, y, the noise
   covariance the measurement model returns at that call, the predicted belief and the
   previous content of the output object.  It takes no argument standing for what an
   earlier call left in the object: correctStep recomputes everything from the
   measurement model's current outputs and begins with innovations_.resize(0, 0), and
   getLikelihood() reads only what the last call stored (the `members` component of
   the result).  Hence for a sequence of calls on one object the theorems below apply
   to every call separately, and "the implementation's t-th call equals sukf_correct on
   the t-th inputs" IS the absence of stale state; there is nothing further to prove in
   Coq, it is the correspondence check that must establish it.  It does so on sequence
   cases (kind sukf_seq: one SUKFCorrection object per constructor and one UKFCorrection
   object driven through 2-4 calls while R, y, h, the belief and the sizes change). *)
Require Import ZArith QArith Qround List.
Require Import BFL.Ops BFL.ListOps BFL.Density BFL.C05_Model.
From mathcomp Require Import all_ssreflect all_algebra.
Require Import BFL.MxOps BFL.LinAlg BFL.C05_Proofs.
Import GRing.Theory Num.Theory.
Local Open Scope ring_scope.

Section C05.
Variable F : realFieldType.
Variable tr : Transc F.
Variable sq : forall n, 'M[F]_n -> 'M[F]_n.
Variable eg : forall n, 'M[F]_n -> 'M[F]_(n,1).
Let O := MxMat tr sq eg.

(* contracts of the two square-root oracles *)
Hypothesis sqrt_ok : forall x : F, 0 <= x -> t_sqrt tr x * t_sqrt tr x = x.
Hypothesis sq_contract : forall d (P : 'M[F]_d), psd P -> @sq d P *m (@sq d P)^T = P.

Variables (n nl ml k s : nat).
Notation m := (k * s)%N.
Hypothesis s_gt0 : (0 < s)%N.

(* (i) the serial accumulation is the block sum: C^-1 = I + Y^T R^-1 Y, d = Y^T R^-1 nu,
   for ANY Y, nu (every block only needs to be invertible) *)
Theorem C05_block_sum L (Y : M O m L) (nu : M O m 1) (nz : noise O s m) (Rb : nat -> 'M[F]_s) :
  noise_blocks nz Rb -> (forall j, (j < k)%N -> Rb j \in unitmx) ->
  sukf_accum Y nu nz =
  (1%:M + Y^T *m invmx (bdiag k Rb) *m Y, Y^T *m invmx (bdiag k Rb) *m nu).
Proof. by move=> Hnz uR; exact: sukf_accum_blocks. Qed.

(* (ii), algebraic core: X (I + Y^T R^-1 Y)^-1 X^T = X X^T - X Y^T (Y Y^T + R)^-1 Y X^T *)
Theorem C05_serial_cov_identity a b L (X : 'M[F]_(a, L)) (Y : 'M[F]_(b, L)) (R : 'M[F]_b) : spd R ->
  X *m invmx (1%:M + Y^T *m invmx R *m Y) *m X^T =
  X *m X^T - X *m Y^T *m invmx (Y *m Y^T + R) *m Y *m X^T.
Proof. exact: serial_cov_identity. Qed.

(* (iii), algebraic core: the push-through identity *)
Theorem C05_push_through b L (Y : 'M[F]_(b, L)) (R : 'M[F]_b) : spd R ->
  invmx (1%:M + Y^T *m invmx R *m Y) *m (Y^T *m invmx R) = Y^T *m invmx (Y *m Y^T + R).
Proof. exact: serial_push_through. Qed.

Variables (alpha beta kappa : F).
Let w : utw O := @ut_weights O n alpha beta kappa.
Hypothesis c_gt0 : 0 < utc w.
Hypothesis wc0_ge0 : 0 <= wc0 w.

Variables (h : M O n 1 -> M O m 1) (y : M O m 1) (nz : noise O s m) (Rb : nat -> 'M[F]_s).
Hypothesis Hnz : noise_blocks nz Rb.
Hypothesis spdRb : forall j, (j < k)%N -> spd (Rb j).

(* the weighted state offsets reproduce the prior covariance: X X^T = P *)
Theorem C05_sigma_cov (x : M O n 1) (P : M O n n) : psd (P : 'M[F]_n) -> state_roundtrip nl w x P ->
  Xw nl w x P *m (Xw nl w x P)^T = P.
Proof. exact: step_sigma_cov. Qed.

(* the layout premise holds for a linear state layout (all n rows linear) *)
Theorem C05_linear_roundtrip (x : M O n 1) (P : M O n n) : (n <= nl)%N -> state_roundtrip nl w x P.
Proof. exact: state_roundtrip_linear. Qed.

(* (ii) covariance *)
Theorem C05_cov (x : M O n 1) (P : M O n n) : psd (P : 'M[F]_n) -> state_roundtrip nl w x P ->
  so_cov (sukf_correct_comp_lay nl ml w h y nz x P) =
  uo_cov (ukf_correct_comp_lay nl ml w h y (bdiag k Rb : M O m m) x P).
Proof. exact: step_comp_cov. Qed.

(* (iii) mean (no condition on P or on the SVD factor) *)
Theorem C05_mean (x : M O n 1) (P : M O n n) :
  so_mean (sukf_correct_comp_lay nl ml w h y nz x P) =
  uo_mean (ukf_correct_comp_lay nl ml w h y (bdiag k Rb : M O m m) x P).
Proof. exact: step_comp_mean. Qed.

(* (iv) likelihood: the UVR (Woodbury + determinant lemma) density of getLikelihood()
   equals N(y; ybar, Pyy) of UKFCorrection::getLikelihood() -- proved here for the
   call SUKFCorrection makes (one column, U = Y, V = Y^T), not taken from C15 *)
Theorem C05_likelihood (x : M O n 1) (P : M O n n) :
  sukf_likelihood_comp nz (sukf_correct_comp_lay nl ml w h y nz x P) =
  ukf_likelihood_comp (ukf_correct_comp_lay nl ml w h y (bdiag k Rb : M O m m) x P).
Proof. exact: (@step_comp_likelihood F tr sq eg sqrt_ok n nl ml k s alpha beta kappa h y nz Rb s_gt0 c_gt0 wc0_ge0 Hnz spdRb x P). Qed.

(* the matrices the two algorithms invert are invertible (invmx's totalisation is not used) *)
Theorem C05_Cinv_invertible (x : M O n 1) (P : M O n n) :
  (sukf_accum (so_Y (sukf_correct_comp_lay nl ml w h y nz x P))
              (so_innov (sukf_correct_comp_lay nl ml w h y nz x P)) nz).1 \in unitmx.
Proof. exact: (@step_Cinv_unit F tr sq eg n nl ml k s alpha beta kappa h y nz Rb s_gt0 Hnz spdRb x P). Qed.

(* the arguments of the two logarithms are positive: det_S = det R det(I + Y^T R^-1 Y) in the
   UVR density of SUKFCorrection::getLikelihood, det Pyy in UKFCorrection::getLikelihood
   (so Coq's totalised ln is used inside its domain only) *)
Theorem C05_sukf_log_argument_positive (x : M O n 1) (P : M O n n) :
  0 < (uvr_terms (so_innov (sukf_correct_comp_lay nl ml w h y nz x P)) (mzero m 1)
                 (so_Y (sukf_correct_comp_lay nl ml w h y nz x P))
                 (@mtr O m (nsig n) (so_Y (sukf_correct_comp_lay nl ml w h y nz x P))) (lik_Rcat nz)).1.
Proof. exact: (@step_sukf_lndet_gt0 F tr sq eg n nl ml k s alpha beta kappa h y nz Rb s_gt0 Hnz spdRb x P). Qed.

Theorem C05_ukf_log_argument_positive (x : M O n 1) (P : M O n n) :
  0 < \det (uo_Pyy (ukf_correct_comp_lay nl ml w h y (bdiag k Rb : M O m m) x P) : 'M[F]_m).
Proof. exact: (@step_ukf_lndet_gt0 F tr sq eg sqrt_ok n nl ml k s alpha beta kappa h y Rb c_gt0 wc0_ge0 spdRb x P). Qed.

Theorem C05_Pyy_invertible (x : M O n 1) (P : M O n n) :
  uo_Pyy (ukf_correct_comp_lay nl ml w h y (bdiag k Rb : M O m m) x P) \in unitmx.
Proof. exact: (@step_Pyy_unit F tr sq eg sqrt_ok n nl ml k s alpha beta kappa h y Rb c_gt0 wc0_ge0 spdRb x P). Qed.

(* the whole step on a mixture: same components (mean, covariance) in the same order, written over
   the first components of the output object (its further components and its weights are kept),
   same likelihood vector *)
Theorem C05_step_equals_ukf (pred corr_prev : mixture O n) :
  (forall c, List.In c (mix_comps pred) -> psd (c.2 : 'M[F]_n) /\ state_roundtrip nl w c.1 c.2) ->
  (sukf_correct nl ml w h y nz pred corr_prev).1 =
    (ukf_correct nl ml w h y (bdiag k Rb : M O m m) pred corr_prev).1 /\
  sukf_likelihood nz (sukf_correct nl ml w h y nz pred corr_prev).2 =
    Some (List.map (@ukf_likelihood_comp O n m)
                   (ukf_correct nl ml w h y (bdiag k Rb : M O m m) pred corr_prev).2).
Proof. exact: (@sukf_step_is_ukf F tr sq eg sqrt_ok n nl ml k s alpha beta kappa h y nz Rb s_gt0 c_gt0 wc0_ge0 Hnz spdRb sq_contract pred corr_prev). Qed.

(* (v) reduced constructor (one shared block) = full constructor with equal blocks:
   the whole step and the likelihood, for any weights, any h, no premise on R0 *)
Theorem C05_reduced_eq_full (w' : utw O) (R0 : 'M[F]_s) (pred corr_prev : mixture O n) :
  sukf_correct nl ml w' h y (@NoiseReduced O s m R0) pred corr_prev =
  sukf_correct nl ml w' h y (@NoiseFull O s m (bdiag k (fun _ => R0))) pred corr_prev.
Proof. exact: sukf_correct_reduced. Qed.

Theorem C05_reduced_eq_full_likelihood (R0 : 'M[F]_s) (mb : members O n m) :
  sukf_likelihood (@NoiseReduced O s m R0) mb =
  sukf_likelihood (@NoiseFull O s m (bdiag k (fun _ => R0))) mb.
Proof. exact: sukf_likelihood_reduced. Qed.

End C05.

(* (vi) a measurement size that is not a multiple of the block size (0 < s: the code
   computes meas_size % s, undefined for s = 0, whereas Coq's m mod 0 is m): the output is
   the predicted belief (components AND weights), and no likelihood is available
   afterwards, whatever an earlier step left behind (the step clears innovations_ first) *)
Theorem C05_size_mismatch_identity (F : realFieldType) (tr : Transc F)
        (sq : forall n, 'M[F]_n -> 'M[F]_n) (eg : forall n, 'M[F]_n -> 'M[F]_(n,1))
        n m' s nl ml (w : utw (MxMat tr sq eg)) (h : M (MxMat tr sq eg) n 1 -> M (MxMat tr sq eg) m' 1)
        (y : M (MxMat tr sq eg) m' 1) (nz : noise (MxMat tr sq eg) s m')
        (pred corr_prev : mixture (MxMat tr sq eg) n) :
  (0 < s)%N -> Nat.modulo m' s <> 0%N ->
  sukf_correct nl ml w h y nz pred corr_prev = (pred, None) /\
  sukf_likelihood nz (sukf_correct nl ml w h y nz pred corr_prev).2 = None.
Proof. by move=> _ ne; rewrite sukf_size_mismatch. Qed.

(* ---- non-vacuity ---- *)
(* the diagonal blocks of bdiag are the given blocks (so "noise_blocks (NoiseFull R) Rb"
   says what it should), and SPD blocks exist in every size *)
Example C05_bdiag_blocks (F : realFieldType) s k (Rb : nat -> 'M[F]_s) j : (j < k)%N ->
  dblk s j (bdiag k Rb) = Rb j.
Proof. exact: dblk_bdiag. Qed.

Example C05_bdiag_offdiag (F : realFieldType) s k (Rb : nat -> 'M[F]_s) a b : (0 < s)%N ->
  (a %/ s != b %/ s)%N -> mx_get (bdiag k Rb) a b = 0.
Proof. exact: bdiag_offdiag. Qed.

Example C05_premises_satisfiable (F : realFieldType) s k :
  (forall j, (j < k)%N -> spd ((fun _ => 1%:M) j : 'M[F]_s)) /\ psd (1%:M : 'M[F]_s).
Proof. by split=> [j _|]; [exact: spd1 | apply: spd_psd; exact: spd1]. Qed.

(* sqrt_ok and sq_contract instantiated TOGETHER, with every other premise of C05_cov, over any
   real closed field K: std::sqrt := Num.sqrt (contract for every x >= 0), the matrix square
   root oracle := the identity, which meets its contract on the prior P = I (the SVD factor
   of the identity is the identity).  sq_contract is stated for all PSD matrices in the
   section above only for convenience: every proof uses it at the component's P alone
   (C05_Proofs.sukf_comp_cov takes the single equation sq P (sq P)^T = P), so this instance
   exercises exactly what the proofs need.  n = 2 states, k = 2 blocks of size 1, alpha = 1,
   beta = 2, kappa = 1: c = 3 > 0, wc_0 = 1/3 + 2 > 0. *)
Example C05_all_premises_rcf (K : rcfType) :
  let tr := @mkTransc K Num.sqrt id id id id id (fun a _ => a) 0 0 in
  let sq := fun d (A : 'M[K]_d) => A in
  let O := MxMat tr sq (fun d (A : 'M[K]_d) => 0) in
  let w := @ut_weights O 2 1 (1 + 1) 1 in
  let P : 'M[K]_2 := 1%:M in
  [/\ forall x : K, 0 <= x -> t_sqrt tr x * t_sqrt tr x = x,
      psd P /\ sq 2%N P *m (sq 2%N P)^T = P,
      0 < utc w /\ 0 <= wc0 w,
      forall x : 'cV[K]_2, @state_roundtrip K tr sq (fun d (A : 'M[K]_d) => 0) 2 2 w x P
    & forall j, (j < 2)%N -> spd ((fun _ => 1%:M) j : 'M[K]_1)].
Proof.
split.
- by move=> x x0; rewrite -expr2 sqr_sqrtr.
- by split; [apply: spd_psd; exact: spd1 | rewrite mul1mx trmx1].
- have E : utc (@ut_weights (MxMat (@mkTransc K Num.sqrt id id id id id (fun a _ => a) 0 0)
                 (fun d (A : 'M[K]_d) => A) (fun d (A : 'M[K]_d) => 0)) 2 1 (1 + 1) 1) = 1 + 1 + 1.
    by rewrite /= !mul1r addrC subrK.
  rewrite E /= !mul1r; split; first by rewrite !addr_gt0 ?ltr01.
  rewrite subrr add0r addr_ge0 ?addr_ge0 ?ler01 // divr_ge0 //.
    by rewrite [X in 0 <= X - _]addrC addrK ler01.
  have -> : (1 + 1 : K) + (1 + 1 + 1 - (1 + 1)) = 1 + 1 + 1 by rewrite addrC subrK.
  by rewrite !addr_ge0 ?ler01.
- by move=> x; apply: state_roundtrip_linear.
- by move=> j _; exact: spd1.
Qed.

(* the executable instance of the same model over exact rationals: serial accumulation
   over two DIFFERENT 2x2 blocks equals I + Y^T R^-1 Y, d = Y^T R^-1 nu computed with
   the full inverse, and the reduced constructor equals the full one with equal blocks *)
Definition QM := ListMat QOps (fun _ A => A) (fun _ A => A).
Example C05_concrete_Q :
  let Y := [:: [:: 1#1; 2#1; 0#1]; [:: 0#1; 1#1; 1#1]; [:: 3#1; -1#1; 2#1]; [:: 1#2; 0#1; 1#1]]%Q in
  let nu := [:: [:: 1#1]; [:: -1#1]; [:: 2#1]; [:: 1#3]]%Q in
  let R := [:: [:: 2#1; 1#1; 0#1; 0#1]; [:: 1#1; 3#1; 0#1; 0#1];
               [:: 0#1; 0#1; 1#1; 1#2]; [:: 0#1; 0#1; 1#2; 4#1]]%Q in
  let R0 := [:: [:: 2#1; 1#1]; [:: 1#1; 3#1]]%Q in
  let RR := [:: [:: 2#1; 1#1; 0#1; 0#1]; [:: 1#1; 3#1; 0#1; 0#1];
                [:: 0#1; 0#1; 2#1; 1#1]; [:: 0#1; 0#1; 1#1; 3#1]]%Q in
  let acc := @sukf_accum QM 2 4 3 Y nu (@NoiseFull QM 2 4 R) in
  let Ri := @minv QM 4 R in
  let YtRi := @mmul QM 3 4 4 (@mtr QM 4 3 Y) Ri in
  let accr := @sukf_accum QM 2 4 3 Y nu (@NoiseReduced QM 2 4 R0) in
  let accf := @sukf_accum QM 2 4 3 Y nu (@NoiseFull QM 2 4 RR) in
  qmx_eqb (fst acc) (@madd QM 3 3 (@mid QM 3) (@mmul QM 3 4 3 YtRi Y))
  && qmx_eqb (snd acc) (@mmul QM 3 4 1 YtRi nu)
  && qmx_eqb (fst accr) (fst accf) && qmx_eqb (snd accr) (snd accf) = true.
Proof. vm_compute. reflexivity. Qed.

(* ---- regression spec: the SUKF that ignores the circular part of the measurement description ----
   (the code before the fix "SUKFCorrection treats circular measurement components on the circle").
   The executable instance over exact rationals with angles measured in TURNS: wrap t = t - round t
   is obtained by interpreting sin := id and atan2 y _ := y - floor (y + 1/2) (so that
   atan2 (sin t) (cos t) = t - round t, and directional_mean = the wrapped weighted mean); sqrt is
   only needed at c = 4.  One state, one circular measurement h(x) = x + 9/20, prior mean 1/10,
   SVD factor 1/10, alpha = 1, kappa = 3 (c = 4, sigma points 1/10, 3/10, -1/10): the propagated
   angles 11/20, 3/4, 7/20 have plain weighted mean 11/20 but circular mean -9/20, so the old
   serial correction and the standard one compute different innovations (and everything after).
   This is a counter-model for "the SUKF that ignores the layout equals the UKF" as a statement
   about the model functions; the numerical disagreement of the library itself is reproduced by the
   check on the reverted commit (signatures C05:sukf-ne-ukf:...). *)
Definition TurnOps : SOps := {|
  T := T QOps; s0 := s0 QOps; s1 := s1 QOps;
  sadd := sadd QOps; ssub := ssub QOps; smul := smul QOps; sdiv := sdiv QOps; sopp := sopp QOps;
  sleb := sleb QOps; sltb := sltb QOps; sofZ := sofZ QOps;
  ssqrt := fun z : Q => if Qeq_bool z (4#1) then (2#1) else z;
  sexp := fun z => z; sln := fun z => z; scos := fun _ => (1#1); ssin := fun z => z; sacos := fun z => z;
  satan2 := fun (y _ : Q) => ssub QOps y (inject_Z (Qfloor (sadd QOps y (1#2))));
  spi := (1#2); stiny := (0#1) |}.
Definition TM := ListMat TurnOps (fun _ _ => [:: [:: 1#10]]%Q) (fun _ A => A).

Example C05_ignoring_circular_measurement_refuted :
  let w := @ut_weights TM 1 (1#1) (0#1) (3#1) in
  let h := fun x : M TM 1 1 => @madd TM 1 1 x [:: [:: 9#20]]%Q in
  let y := [:: [:: -2#5]]%Q in
  let R := [:: [:: 1#100]]%Q in
  let x := [:: [:: 1#10]]%Q in
  let P := [:: [:: 1#100]]%Q in
  let old := @sukf_correct_comp TM 1 1 1 1 w h y (@NoiseFull TM 1 1 R) x P in       (* layout ignored *)
  let new := @sukf_correct_comp_lay TM 1 1 1 1 0 w h y (@NoiseFull TM 1 1 R) x P in (* one circular row *)
  let ukf := @ukf_correct_comp_lay TM 1 1 1 0 w h y R x P in
  qmx_eqb (so_innov new) (uo_innov ukf) && qmx_eqb (uo_innov ukf) [:: [:: 1#20]]%Q
  && qmx_eqb (so_innov old) [:: [:: -19#20]]%Q && negb (qmx_eqb (so_innov old) (uo_innov ukf)) = true.
Proof. vm_compute. reflexivity. Qed.

Print Assumptions C05_block_sum.
Print Assumptions C05_serial_cov_identity.
Print Assumptions C05_push_through.
Print Assumptions C05_sigma_cov.
Print Assumptions C05_linear_roundtrip.
Print Assumptions C05_cov.
Print Assumptions C05_mean.
Print Assumptions C05_likelihood.
Print Assumptions C05_Cinv_invertible.
Print Assumptions C05_sukf_log_argument_positive.
Print Assumptions C05_ukf_log_argument_positive.
Print Assumptions C05_Pyy_invertible.
Print Assumptions C05_step_equals_ukf.
Print Assumptions C05_reduced_eq_full.
Print Assumptions C05_reduced_eq_full_likelihood.
Print Assumptions C05_size_mismatch_identity.
