(* C03_Transport.v — transport for the structural core of the unscented transform: the
   weighted column sum Y * w, the weighted outer sum U diag(w) V^T and the harness' affine
   map, executed at the
   LIST instance (the one extracted and run) over an arbitrary realFieldType, represent
   what the same definitions compute at the MathComp instance (the one the theorems are
   about), on well-formed inputs.  Built on ListOpsCorrect.v and C02_Transport.v.
   Second part (Section UT): the unscented transform proper, for ARBITRARY list-level oracles
   sqL / egL and ALL layouts (linear, circular, quaternion, noise rows): weights, sigma-point
   generation, output mean, offsets, the per-component transform and the five entry points
   ut_generic / ut_state / ut_additive_state / ut_meas / ut_additive_meas, under per-call
   correspondence premises for the oracles (the square root on the covariances actually
   passed; the eigenvector oracle only when the output layout has quaternions) and for the
   transformed function (corresponding columns to corresponding columns). *)
Require Import ZArith List Bool.
Require Import BFL.Ops BFL.ListOps BFL.C03_Model.
From mathcomp Require Import all_ssreflect all_algebra.
Require Import BFL.MxOps BFL.ListOpsCorrect BFL.C02_Transport BFL.UT_Transport.
Set Implicit Arguments.
Unset Strict Implicit.
Unset Printing Implicit Defensive.
Import GRing.Theory.
Local Open Scope ring_scope.

Section T.
Variable F : realFieldType.
Variable tr : Transc F.
Variable sq : forall n, 'M[F]_n -> 'M[F]_n.
Variable eg : forall n, 'M[F]_n -> 'M[F]_(n,1).
Let S := FOps tr.
Let OL := ListMat S (fun _ X => X) (fun _ X => X).
Let OM := MxMat tr sq eg.
Notation repr m n l A := (@C02_Transport.repr F m n l A) (only parsing).

Lemma repr_scale m n c l (A : 'M[F]_(m,n)) : repr m n l A -> repr m n (@mscale OL m n c l) (c *: A).
Proof. by move=> [w <-]; split; [exact: map_wf | exact: toM_mscale]. Qed.

Lemma repr_zero m n : repr m n (@mzero OL m n) (0 : 'M[F]_(m,n)).
Proof. by split; [exact: lbuild_wf | exact: toM_mzero]. Qed.

Definition repr_cols r (ls : list (lmxF F)) (As : list 'cV[F]_r) : Prop :=
  List.Forall2 (fun l A => repr r 1 l A) ls As.

(* Y * w *)
Lemma wsum_transport r (ws : list F) ls (As : list 'cV[F]_r) : repr_cols ls As ->
  repr r 1 (@wsum OL r ws ls) (@wsum OM r ws As : 'cV[F]_r).
Proof.
rewrite /wsum => H.
have gen : forall accl (accm : 'cV[F]_r), repr r 1 accl accm ->
  repr r 1 (fold_left (fun acc p => @madd OL r 1 acc (@mscale OL r 1 p.1 p.2)) (combine ws ls) accl)
           (fold_left (fun acc p => @madd OM r 1 acc (@mscale OM r 1 p.1 p.2)) (combine ws As) accm : 'cV[F]_r).
  elim: H ws => [|l A ls' As' HlA _ IH] [|w ws] accl accm Hacc //=.
  by apply: IH; apply: (repr_add tr) => //; apply: repr_scale.
by apply: gen; exact: repr_zero.
Qed.

(* U diag(w) V^T *)
Lemma wouter_transport a b (ws : list F) lu (Us : list 'cV[F]_a) lv (Vs : list 'cV[F]_b) :
  repr_cols lu Us -> repr_cols lv Vs ->
  repr a b (@wouter OL a b ws lu lv) (@wouter OM a b ws Us Vs : 'M[F]_(a,b)).
Proof.
rewrite /wouter => Hu Hv.
have gen : forall accl (accm : 'M[F]_(a,b)), repr a b accl accm ->
  repr a b (fold_left (fun acc p => @madd OL a b acc (@mscale OL a b p.1 (@mmul OL a 1 b p.2.1 (@mtr OL b 1 p.2.2))))
                      (combine ws (combine lu lv)) accl)
           (fold_left (fun acc p => @madd OM a b acc (@mscale OM a b p.1 (@mmul OM a 1 b p.2.1 (@mtr OM b 1 p.2.2))))
                      (combine ws (combine Us Vs)) accm : 'M[F]_(a,b)).
  elim: Hu lv Vs Hv ws => [|l A ls' As' HlA _ IH] lv' Vs' Hv' ws' accl accm Hacc.
    by case: ws'.
  case: Hv' => [|l2 A2 lv2 Vs2 H2 Hv2]; first by case: ws'.
  case: ws' => [|w ws'] //=.
  apply: IH => //; apply: (repr_add tr) => //; apply: repr_scale; apply: (repr_mul tr) => //; exact: (repr_tr tr).
by apply: gen; exact: repr_zero.
Qed.

(* x -> A x + b, column by column *)
Lemma affine_cols_transport d p lA (A : 'M[F]_(p,d)) lb (b : 'cV[F]_p) ls (Xs : list 'cV[F]_d) :
  repr p d lA A -> repr p 1 lb b -> repr_cols ls Xs ->
  repr_cols (@affine_cols OL d p lA lb ls) (@affine_cols OM d p A b Xs).
Proof.
move=> HA Hb; rewrite /affine_cols /repr_cols.
elim=> [|l X ls' Xs' HX _ IH] /=; first exact: List.Forall2_nil.
by apply: List.Forall2_cons => //; apply: (repr_add tr) => //; apply: (repr_mul tr).
Qed.

End T.

(* ====================================================================== *)
(* the unscented transform proper                                          *)
Section UT.
Variable F : realFieldType.
Variable tr : Transc F.
Variable sq : forall n, 'M[F]_n -> 'M[F]_n.
Variable eg : forall n, 'M[F]_n -> 'M[F]_(n,1).
Variables sqL egL : nat -> lmxF F -> lmxF F.
Let S := FOps tr.
Let OL := ListMat S sqL egL.
Let OM := MxMat tr sq eg.
Notation repr m n l A := (@C02_Transport.repr F m n l A) (only parsing).
Notation rcols r := (@repr_list F r 1) (only parsing).
Local Notation Rget := (@rget F tr sq eg sqL egL).
Local Notation Rbuild := (@rbuild F tr sq eg sqL egL).
Local Notation Radd := (@r_add F tr sq eg sqL egL).
Local Notation Rscale := (@r_scale F tr sq eg sqL egL).
Local Notation Rmul := (@r_mul F tr sq eg sqL egL).
Local Notation Rtr := (@r_tr F tr sq eg sqL egL).
Local Notation Rzero := (@r_zero F tr sq eg sqL egL).
Local Notation Rcol := (@r_col F tr sq eg sqL egL).

(* ---- weights: scalars only ---- *)
Definition repr_utw (wl : utw OL) (wm : utw OM) : Prop :=
  [/\ w_mean wl = w_mean wm, w_cov wl = w_cov wm & w_c wl = w_c wm].

Lemma ut_weights_transport n a b k : repr_utw (@ut_weights OL n a b k) (@ut_weights OM n a b k).
Proof. by []. Qed.

Lemma ut_weights_of_transport L a b k : repr_utw (@ut_weights_of OL L a b k) (@ut_weights_of OM L a b k).
Proof. by []. Qed.

(* ---- entries of columns ---- *)
Lemma colgetE r l (x : 'cV[F]_r) : repr r 1 l x -> forall i, @colget OL r l i = @colget OM r x i.
Proof. by move=> rx i; exact: (Rget rx). Qed.

Lemma quat_atE r l (x : 'cV[F]_r) : repr r 1 l x -> forall o, @quat_at OL r l o = @quat_at OM r x o.
Proof. by move=> rx o; rewrite /quat_at !(colgetE rx). Qed.

Lemma rv_atE r l (x : 'cV[F]_r) : repr r 1 l x -> forall o, @rv_at OL r l o = @rv_at OM r x o.
Proof. by move=> rx o; rewrite /rv_at !(colgetE rx). Qed.

(* ---- weighted sums, any oracle pair ---- *)
Lemma wsum_repr r (ws : list F) ls (As : list 'cV[F]_r) : rcols r ls As ->
  repr r 1 (@wsum OL r ws ls) (@wsum OM r ws As : 'cV[F]_r).
Proof.
rewrite /wsum => H.
have gen : forall accl (accm : 'cV[F]_r), repr r 1 accl accm ->
  repr r 1 (fold_left (fun acc p => @madd OL r 1 acc (@mscale OL r 1 p.1 p.2)) (combine ws ls) accl)
           (fold_left (fun acc p => @madd OM r 1 acc (@mscale OM r 1 p.1 p.2)) (combine ws As) accm : 'cV[F]_r).
  elim: H ws => [|l A ls' As' HlA _ IH] [|w ws] accl accm Hacc //=.
  by apply: IH; apply: Radd => //; apply: Rscale.
by apply: gen; exact: Rzero.
Qed.

Lemma wouter_repr a b (ws : list F) lu (Us : list 'cV[F]_a) lv (Vs : list 'cV[F]_b) :
  rcols a lu Us -> rcols b lv Vs ->
  repr a b (@wouter OL a b ws lu lv) (@wouter OM a b ws Us Vs : 'M[F]_(a,b)).
Proof.
rewrite /wouter => Hu Hv.
have gen : forall accl (accm : 'M[F]_(a,b)), repr a b accl accm ->
  repr a b (fold_left (fun acc p => @madd OL a b acc (@mscale OL a b p.1 (@mmul OL a 1 b p.2.1 (@mtr OL b 1 p.2.2))))
                      (combine ws (combine lu lv)) accl)
           (fold_left (fun acc p => @madd OM a b acc (@mscale OM a b p.1 (@mmul OM a 1 b p.2.1 (@mtr OM b 1 p.2.2))))
                      (combine ws (combine Us Vs)) accm : 'M[F]_(a,b)).
  elim: Hu lv Vs Hv ws => [|l A ls' As' HlA _ IH] lv' Vs' Hv' ws' accl accm Hacc.
    by case: ws'.
  case: Hv' => [|l2 A2 lv2 Vs2 H2 Hv2]; first by case: ws'.
  case: ws' => [|w ws'] //=.
  by apply: IH => //; apply: Radd => //; apply: Rscale; apply: Rmul => //; exact: Rtr.
by apply: gen; exact: Rzero.
Qed.

(* ---- sigma points ---- *)
Lemma add_mean_rowE L d dc central lm (m : 'cV[F]_d) lp (p : 'cV[F]_dc) i :
  repr d 1 lm m -> repr dc 1 lp p ->
  @add_mean_row OL L d dc central lm lp i = @add_mean_row OM L d dc central m p i.
Proof.
by move=> rm rp; rewrite /add_mean_row !(quat_atE rm) !(rv_atE rp) !(colgetE rm) !(colgetE rp).
Qed.

Lemma add_mean_repr L d dc central lm (m : 'cV[F]_d) lp (p : 'cV[F]_dc) :
  repr d 1 lm m -> repr dc 1 lp p ->
  repr d 1 (@add_mean OL L d dc central lm lp) (@add_mean OM L d dc central m p).
Proof. by move=> rm rp; apply: Rbuild => i j _ _; exact: add_mean_rowE. Qed.

(* the square-root oracles correspond on this covariance *)
Definition sq_corr dc (lP : lmxF F) (P : 'M[F]_dc) : Prop := repr dc dc (sqL dc lP) (sq P).

Lemma perturbations_repr dc c lP (P : 'M[F]_dc) : sq_corr lP P ->
  rcols dc (@perturbations OL dc c lP) (@perturbations OM dc c P).
Proof.
move=> rsq; rewrite /perturbations.
by apply: List.Forall2_app; apply: F2_map_seq => k; apply: Rcol; apply: Rscale.
Qed.

Lemma sigma_comp_repr L d dc c lm (m : 'cV[F]_d) lP (P : 'M[F]_dc) :
  repr d 1 lm m -> sq_corr lP P ->
  rcols d (@sigma_comp OL L d dc c lm lP) (@sigma_comp OM L d dc c m P).
Proof.
move=> rm rsq; rewrite /sigma_comp; apply: List.Forall2_cons.
  by apply: add_mean_repr => //; exact: Rzero.
apply: F2_map; apply: F2_impl (perturbations_repr c rsq) => lp p rp.
exact: add_mean_repr.
Qed.

(* a component: mean, covariance; the square-root oracles correspond on the covariance *)
Definition repr_comp d dc (cl : lmxF F * lmxF F) (cm : 'cV[F]_d * 'M[F]_dc) : Prop :=
  repr d 1 cl.1 cm.1 /\ repr dc dc cl.2 cm.2.
Definition repr_comp_sq d dc (cl : lmxF F * lmxF F) (cm : 'cV[F]_d * 'M[F]_dc) : Prop :=
  repr_comp cl cm /\ sq_corr cl.2 cm.2.

Lemma sigma_points_repr L d dc c (csl : list (lmxF F * lmxF F)) (csm : list ('cV[F]_d * 'M[F]_dc)) :
  List.Forall2 (@repr_comp_sq d dc) csl csm ->
  rcols d (@sigma_points OL L d dc c csl) (@sigma_points OM L d dc c csm).
Proof.
move=> H; rewrite /sigma_points; apply: F2_concat; apply: F2_map.
by apply: F2_impl H => cl cm [[rm _] rsq]; exact: sigma_comp_repr.
Qed.

(* ---- output mean ---- *)
(* the eigenvector oracles correspond; needed only where the output layout has quaternions *)
Definition eg_corr (L : layout) : Prop :=
  l_quat L = true -> forall l (A : 'M[F]_4), repr 4 4 l A -> repr 4 1 (egL 4 l) (eg A).

Lemma q_col_repr (q : F * F * F * F) : repr 4 1 (@q_col OL q) (@q_col OM q).
Proof. exact: Rbuild. Qed.

Lemma quat_outer_repr (ws : list F) (qs : list (F * F * F * F)) :
  repr 4 4 (@quat_outer OL ws qs) (@quat_outer OM ws qs).
Proof.
rewrite /quat_outer.
have gen : forall l accl (accm : 'M[F]_4), repr 4 4 accl accm ->
  repr 4 4 (fold_left (fun acc p => @madd OL 4 4 acc (@mscale OL 4 4 p.1 (@mmul OL 4 1 4 (@q_col OL p.2) (@mtr OL 4 1 (@q_col OL p.2))))) l accl)
           (fold_left (fun acc p => @madd OM 4 4 acc (@mscale OM 4 4 p.1 (@mmul OM 4 1 4 (@q_col OM p.2) (@mtr OM 4 1 (@q_col OM p.2))))) l accm : 'M[F]_4).
  elim=> [|[w q] l IH] accl accm Hacc //.
  apply: IH; apply: Radd => //; apply: Rscale; apply: Rmul; first exact: q_col_repr.
  by apply: Rtr; exact: q_col_repr.
by apply: gen; exact: Rzero.
Qed.

Lemma mean_quaternion_repr L (ws : list F) (qs : list (F * F * F * F)) : eg_corr L -> l_quat L = true ->
  repr 4 1 (@mean_quaternion OL ws qs) (@mean_quaternion OM ws qs).
Proof. by move=> Heg Hq; apply: Heg => //; exact: quat_outer_repr. Qed.

Lemma out_mean_repr L p (wm : list F) lYs (Ys : list 'cV[F]_p) : eg_corr L -> rcols p lYs Ys ->
  repr p 1 (@out_mean OL L p wm lYs) (@out_mean OM L p wm Ys).
Proof.
move=> Heg rY; rewrite /out_mean; apply: Rbuild => i j _ _.
case: (i <? l_lin L); first exact: (colgetE (wsum_repr wm rY)).
case: (i <? _) => //; case Eq: (l_quat L).
- have -> : List.map (fun y => @quat_at OL p y (l_lin L + (i - l_lin L) / 4 * 4)) lYs
          = List.map (fun y => @quat_at OM p y (l_lin L + (i - l_lin L) / 4 * 4)) Ys.
    by apply: F2_map_eq; apply: F2_impl rY => l y ry; exact: quat_atE.
  exact: (colgetE (mean_quaternion_repr _ _ Heg Eq)).
- have -> : List.map (fun y => @colget OL p y i) lYs = List.map (fun y => @colget OM p y i) Ys.
    by apply: F2_map_eq; apply: F2_impl rY => l y ry; exact: colgetE.
  by [].
Qed.

(* ---- offsets ---- *)
Lemma offset_rowE L p ly (y : 'cV[F]_p) lr (ref : 'cV[F]_p) i : repr p 1 ly y -> repr p 1 lr ref ->
  @offset_row OL L p ly lr i = @offset_row OM L p y ref i.
Proof.
by move=> ry rr; rewrite /offset_row !(quat_atE ry) !(quat_atE rr) !(colgetE ry) !(colgetE rr).
Qed.

Lemma offsets_repr L p pc ly (y : 'cV[F]_p) lr (ref : 'cV[F]_p) : repr p 1 ly y -> repr p 1 lr ref ->
  repr pc 1 (@offsets OL L p pc ly lr) (@offsets OM L p pc y ref).
Proof. by move=> ry rr; apply: Rbuild => i j _ _; exact: offset_rowE. Qed.

(* ---- one component of the transform ---- *)
Definition repr_utcomp p pc dx (ul : ut_comp OL p pc dx) (um : ut_comp OM p pc dx) : Prop :=
  [/\ repr p 1 (uc_mean ul) (uc_mean um : 'cV[F]_p),
      repr pc pc (uc_cov ul) (uc_cov um : 'M[F]_pc) &
      repr dx pc (uc_cross ul) (uc_cross um : 'M[F]_(dx,pc))].

Definition repr_utres p pc dx (rl : ut_result OL p pc dx) (rm : ut_result OM p pc dx) : Prop :=
  List.Forall2 (@repr_utcomp p pc dx) (ur_comps rl) (ur_comps rm) /\ ur_weights rl = ur_weights rm.

Lemma ut_component_repr Lin Lout d p pc dx (wl : utw OL) (wm : utw OM)
      lm (m : 'cV[F]_d) lXs (Xs : list 'cV[F]_d) lYs (Ys : list 'cV[F]_p) :
  eg_corr Lout -> repr_utw wl wm -> repr d 1 lm m -> rcols d lXs Xs -> rcols p lYs Ys ->
  repr_utcomp (@ut_component OL Lin Lout d p pc dx wl lm lXs lYs)
              (@ut_component OM Lin Lout d p pc dx wm m Xs Ys).
Proof.
move=> Heg [Ewm Ewc _] rm rX rY; rewrite /ut_component /= Ewm Ewc.
have rybar := out_mean_repr (w_mean wm) Heg rY.
have roffs : rcols pc (List.map (fun y => @offsets OL Lout p pc y (@out_mean OL Lout p (w_mean wm) lYs)) lYs)
                      (List.map (fun y => @offsets OM Lout p pc y (@out_mean OM Lout p (w_mean wm) Ys)) Ys).
  by apply: F2_map; apply: F2_impl rY => l y ry; exact: offsets_repr.
have rioffs : rcols dx (List.map (fun x => @offsets OL Lin d dx x lm) lXs)
                       (List.map (fun x => @offsets OM Lin d dx x m) Xs).
  by apply: F2_map; apply: F2_impl rX => l x rx; exact: offsets_repr.
by split=> //; exact: wouter_repr.
Qed.

Lemma chunk_repr r base i ls (As : list 'cV[F]_r) : rcols r ls As ->
  rcols r (chunk base i ls) (chunk base i As).
Proof. by move=> H; rewrite /chunk; apply: F2_firstn; apply: F2_skipn. Qed.

(* ---- the transform of a mixture, once the propagated sigma points are available ---- *)
Lemma ut_core_repr Lin Lout d dc p pc dx (wl : utw OL) (wm : utw OM)
      (csl : list (lmxF F * lmxF F)) (csm : list ('cV[F]_d * 'M[F]_dc))
      lX (X : list 'cV[F]_d) lY (Y : list 'cV[F]_p) :
  eg_corr Lout -> repr_utw wl wm -> List.Forall2 (@repr_comp d dc) csl csm ->
  rcols d lX X -> rcols p lY Y ->
  repr_utres (@ut_core OL Lin Lout d dc p pc dx wl csl lX lY)
             (@ut_core OM Lin Lout d dc p pc dx wm csm X Y).
Proof.
move=> Heg rw rc rX rY; rewrite /ut_core /repr_utres /= (F2_length rc); split=> //.
apply: F2_map; apply: F2_impl (F2_combine_seq _ rc) => -[il cl] [im cm] /= [-> [rm _]].
by apply: ut_component_repr => //; exact: chunk_repr.
Qed.

(* the function being transformed: corresponding columns to corresponding columns *)
Definition f_corr d p (fL : list (lmxF F) -> list (lmxF F)) (fM : list 'cV[F]_d -> list 'cV[F]_p) : Prop :=
  forall lX X, rcols d lX X -> rcols p (fL lX) (fM X).

Definition repr_opt (A B : Type) (R : A -> B -> Prop) (a : option A) (b : option B) : Prop :=
  match a, b with
  | Some x, Some y => R x y
  | None, None => True
  | _, _ => False
  end.

(* ... with a validity flag (measurement models): the flags agree *)
Definition fopt_corr d p (fL : list (lmxF F) -> option (list (lmxF F)))
           (fM : list 'cV[F]_d -> option (list 'cV[F]_p)) : Prop :=
  forall lX X, rcols d lX X -> repr_opt (rcols p) (fL lX) (fM X).

Lemma comp_sq_comp d dc (csl : list (lmxF F * lmxF F)) (csm : list ('cV[F]_d * 'M[F]_dc)) :
  List.Forall2 (@repr_comp_sq d dc) csl csm -> List.Forall2 (@repr_comp d dc) csl csm.
Proof. by apply: F2_impl => cl cm []. Qed.

Section Entry.
Variables (Lin Lout : layout) (d dc p pc dx : nat).
Variables (wl : utw OL) (wm : utw OM).
Variables (csl : list (lmxF F * lmxF F)) (csm : list ('cV[F]_d * 'M[F]_dc)).
Hypothesis Heg : eg_corr Lout.
Hypothesis rw : repr_utw wl wm.
Hypothesis rc : List.Forall2 (@repr_comp_sq d dc) csl csm.

Lemma sigma_points_w_repr :
  rcols d (@sigma_points OL Lin d dc (w_c wl) csl) (@sigma_points OM Lin d dc (w_c wm) csm).
Proof. by case: rw => _ _ ->; exact: sigma_points_repr. Qed.

Theorem ut_generic_transport fL fM : @fopt_corr d p fL fM ->
  repr_opt (@repr_utres p pc dx) (@ut_generic OL Lin Lout d dc p pc dx wl csl fL)
                                 (@ut_generic OM Lin Lout d dc p pc dx wm csm fM).
Proof.
move=> Hf; rewrite /ut_generic.
have rX := sigma_points_w_repr; move: (Hf _ _ rX).
case: (fL _) => [lY|]; case: (fM _) => [Y|] //= rY.
by apply: ut_core_repr => //; exact: comp_sq_comp.
Qed.

Theorem ut_state_transport fL fM : @f_corr d p fL fM ->
  repr_utres (@ut_state OL Lin Lout d dc p pc dx wl csl fL)
             (@ut_state OM Lin Lout d dc p pc dx wm csm fM).
Proof.
move=> Hf; rewrite /ut_state.
have rX := sigma_points_w_repr.
by apply: ut_core_repr => //; [exact: comp_sq_comp | exact: Hf].
Qed.

Lemma add_noise_cov_repr lN (N : 'M[F]_pc) (rl : ut_result OL p pc dx) (rm : ut_result OM p pc dx) :
  repr pc pc lN N -> repr_utres rl rm ->
  repr_utres (@add_noise_cov OL p pc dx lN rl) (@add_noise_cov OM p pc dx N rm).
Proof.
move=> rN [rcs rws]; split=> //=.
apply: F2_map; apply: F2_impl rcs => ul um [r1 r2 r3]; split=> //=.
exact: Radd.
Qed.

Theorem ut_additive_state_transport fL fM lQ (Q : 'M[F]_pc) : @f_corr d p fL fM -> repr pc pc lQ Q ->
  repr_utres (@ut_additive_state OL Lin Lout d dc p pc dx wl csl fL lQ)
             (@ut_additive_state OM Lin Lout d dc p pc dx wm csm fM Q).
Proof. by move=> Hf rQ; apply: add_noise_cov_repr => //; exact: ut_state_transport. Qed.

Theorem ut_meas_transport fL fM : @fopt_corr d p fL fM ->
  repr_opt (@repr_utres p pc dx) (@ut_meas OL Lin Lout d dc p pc dx wl csl fL)
                                 (@ut_meas OM Lin Lout d dc p pc dx wm csm fM).
Proof. exact: ut_generic_transport. Qed.

Theorem ut_additive_meas_transport fL fM lR (R : 'M[F]_pc) : @fopt_corr d p fL fM -> repr pc pc lR R ->
  repr_opt (@repr_utres p pc dx) (@ut_additive_meas OL Lin Lout d dc p pc dx wl csl fL lR)
                                 (@ut_additive_meas OM Lin Lout d dc p pc dx wm csm fM R).
Proof.
move=> Hf rR; rewrite /ut_additive_meas.
move: (ut_generic_transport Hf).
case: (@ut_generic OL _ _ _ _ _ _ _ _ _ _) => [rl|]; case: (@ut_generic OM _ _ _ _ _ _ _ _ _ _) => [rm|] //= rr.
exact: add_noise_cov_repr.
Qed.
End Entry.

(* ---- augmentation with noise statistics, harness functions ---- *)
Lemma augment_comp_repr d dc q lQ (Q : 'M[F]_q) cl (cm : 'cV[F]_d * 'M[F]_dc) :
  repr q q lQ Q -> repr_comp cl cm ->
  @repr_comp (d + q) (dc + q) (@augment_comp OL d dc q lQ cl) (@augment_comp OM d dc q Q cm).
Proof.
move=> rQ [rm rP]; split; rewrite /augment_comp /=.
- by apply: (r_vcat tr sq eg sqL egL) => //; exact: Rzero.
- apply: (r_vcat tr sq eg sqL egL); apply: (r_hcat tr sq eg sqL egL) => //; exact: Rzero.
Qed.

Lemma affine_cols_corr d p lA (A : 'M[F]_(p,d)) lb (b : 'cV[F]_p) :
  repr p d lA A -> repr p 1 lb b -> @f_corr d p (@affine_cols OL d p lA lb) (@affine_cols OM d p A b).
Proof.
move=> rA rb lX X rX; rewrite /affine_cols; apply: F2_map; apply: F2_impl rX => l x rx.
by apply: Radd => //; exact: Rmul.
Qed.

Lemma quadratic_cols_corr d p lA (A : 'M[F]_(p,d)) lG (G : 'M[F]_(p,d)) lb (b : 'cV[F]_p) lg (g : 'cV[F]_p) :
  repr p d lA A -> repr p d lG G -> repr p 1 lb b -> repr p 1 lg g ->
  @f_corr d p (@quadratic_cols OL d p lA lG lb lg) (@quadratic_cols OM d p A G b g).
Proof.
move=> rA rG rb rg lX X rX; rewrite /quadratic_cols; apply: F2_map; apply: F2_impl rX => l x rx.
apply: Radd; first by apply: Radd => //; exact: Rmul.
apply: Rbuild => i j _ _.
by rewrite (colgetE rg) !(colgetE (Rmul rG rx)).
Qed.

End UT.

Print Assumptions ut_additive_meas_transport.
Print Assumptions ut_additive_state_transport.
