(* C03_Transport.v — transport for the structural core of the unscented transform: the
   weighted column sum Y * w, the weighted outer sum U diag(w) V^T and the harness' affine
   map, executed at the
   LIST instance (the one extracted and run) over an arbitrary realFieldType, represent
   what the same definitions compute at the MathComp instance (the one the theorems are
   about), on well-formed inputs.  Built on ListOpsCorrect.v and C02_Transport.v.
   Not covered: the per-row builders (add_mean, out_mean, offsets: mbuild over mget),
   chunk arithmetic, and everything that goes through the square-root / inverse oracles. *)
Require Import ZArith List Bool.
Require Import BFL.Ops BFL.ListOps BFL.C03_Model.
From mathcomp Require Import all_ssreflect all_algebra.
Require Import BFL.MxOps BFL.ListOpsCorrect BFL.C02_Transport.
Set Implicit Arguments.
Unset Strict Implicit.
Unset Printing Implicit Defensive.
Import GRing.Theory.
Local Open Scope ring_scope.

Section T.
Variable F : realFieldType.
Variable tr : Transc F.
Variable sq : forall n, 'M[F]_n -> 'M[F]_n.
Variable eg : forall n, 'M[F]_n -> 'M[F]_(n,1).
Let S := FOps tr.
Let OL := ListMat S (fun _ X => X) (fun _ X => X).
Let OM := MxMat tr sq eg.
Notation repr m n l A := (@C02_Transport.repr F m n l A) (only parsing).

Lemma repr_scale m n c l (A : 'M[F]_(m,n)) : repr m n l A -> repr m n (@mscale OL m n c l) (c *: A).
Proof. by move=> [w <-]; split; [exact: map_wf | exact: toM_mscale]. Qed.

Lemma repr_zero m n : repr m n (@mzero OL m n) (0 : 'M[F]_(m,n)).
Proof. by split; [exact: lbuild_wf | exact: toM_mzero]. Qed.

Definition repr_cols r (ls : list (lmxF F)) (As : list 'cV[F]_r) : Prop :=
  List.Forall2 (fun l A => repr r 1 l A) ls As.

(* Y * w *)
Lemma wsum_transport r (ws : list F) ls (As : list 'cV[F]_r) : repr_cols ls As ->
  repr r 1 (@wsum OL r ws ls) (@wsum OM r ws As : 'cV[F]_r).
Proof.
rewrite /wsum => H.
have gen : forall accl (accm : 'cV[F]_r), repr r 1 accl accm ->
  repr r 1 (fold_left (fun acc p => @madd OL r 1 acc (@mscale OL r 1 p.1 p.2)) (combine ws ls) accl)
           (fold_left (fun acc p => @madd OM r 1 acc (@mscale OM r 1 p.1 p.2)) (combine ws As) accm : 'cV[F]_r).
  elim: H ws => [|l A ls' As' HlA _ IH] [|w ws] accl accm Hacc //=.
  by apply: IH; apply: (repr_add tr) => //; apply: repr_scale.
by apply: gen; exact: repr_zero.
Qed.

(* U diag(w) V^T *)
Lemma wouter_transport a b (ws : list F) lu (Us : list 'cV[F]_a) lv (Vs : list 'cV[F]_b) :
  repr_cols lu Us -> repr_cols lv Vs ->
  repr a b (@wouter OL a b ws lu lv) (@wouter OM a b ws Us Vs : 'M[F]_(a,b)).
Proof.
rewrite /wouter => Hu Hv.
have gen : forall accl (accm : 'M[F]_(a,b)), repr a b accl accm ->
  repr a b (fold_left (fun acc p => @madd OL a b acc (@mscale OL a b p.1 (@mmul OL a 1 b p.2.1 (@mtr OL b 1 p.2.2))))
                      (combine ws (combine lu lv)) accl)
           (fold_left (fun acc p => @madd OM a b acc (@mscale OM a b p.1 (@mmul OM a 1 b p.2.1 (@mtr OM b 1 p.2.2))))
                      (combine ws (combine Us Vs)) accm : 'M[F]_(a,b)).
  elim: Hu lv Vs Hv ws => [|l A ls' As' HlA _ IH] lv' Vs' Hv' ws' accl accm Hacc.
    by case: ws'.
  case: Hv' => [|l2 A2 lv2 Vs2 H2 Hv2]; first by case: ws'.
  case: ws' => [|w ws'] //=.
  apply: IH => //; apply: (repr_add tr) => //; apply: repr_scale; apply: (repr_mul tr) => //; exact: (repr_tr tr).
by apply: gen; exact: repr_zero.
Qed.

(* x -> A x + b, column by column *)
Lemma affine_cols_transport d p lA (A : 'M[F]_(p,d)) lb (b : 'cV[F]_p) ls (Xs : list 'cV[F]_d) :
  repr p d lA A -> repr p 1 lb b -> repr_cols ls Xs ->
  repr_cols (@affine_cols OL d p lA lb ls) (@affine_cols OM d p A b Xs).
Proof.
move=> HA Hb; rewrite /affine_cols /repr_cols.
elim=> [|l X ls' Xs' HX _ IH] /=; first exact: List.Forall2_nil.
by apply: List.Forall2_cons => //; apply: (repr_add tr) => //; apply: (repr_mul tr).
Qed.

End T.
