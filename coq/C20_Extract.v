(* C20_Extract.v — executable entry points of the C20 model (bfl::any::any
   ownership machine) for the correspondence check.  ExtrOcamlBasic only.
   c20_sops only makes the extracted module carry the SOps record type that the
   shared ocaml/float_ops.ml fragment mentions; the model itself is integer-valued. *)
Require Import ZArith List.
Require Import BFL.Ops BFL.C20_Model.
Require Import Extraction ExtrOcamlBasic.

Definition c20_sops (S : SOps) : T S := s0 S.

Extraction "C20_model.ml" c20_sops init step spec_step views view_of live_count destroy_all
  st_heap st_faults st_alog st_dlog st_pool st_ctors.
