(* C10_Proofs.v — the lock-set / atomic / fork-join discipline checked by
   [race_freeb] is sound for the trace semantics of C10_Model, for EVERY table:
   in every execution of the table, every data race (conflicting, not both
   atomic, not ordered by happens-before) is between a pair of accesses that the
   checker reports.  Plain lists and strings; no axioms. *)
Require Import List String Bool Arith Lia.
Import ListNotations.
Require Import BFL.C10_Model.
Local Open Scope list_scope.

(* ------------------------------------------------------------------ lists *)

Lemma firstn_snoc {A} (l : list A) i x :
  nth_error l i = Some x -> firstn (S i) l = firstn i l ++ [x].
Proof.
  revert i; induction l as [|a l IH]; intros [|i] H; simpl in *; try discriminate.
  - inversion H; reflexivity.
  - f_equal. apply IH; assumption.
Qed.

Lemma nth_error_lt {A} (l : list A) i : i < List.length l -> exists x, nth_error l i = Some x.
Proof.
  intros H. destruct (nth_error l i) eqn:E; eauto.
  apply nth_error_None in E. lia.
Qed.

Lemma nth_error_some_lt {A} (l : list A) i x : nth_error l i = Some x -> i < List.length l.
Proof. intros H. apply nth_error_Some. rewrite H. discriminate. Qed.

Lemma filter_nil_all {A} (f : A -> bool) l : filter f l = [] -> forall x, In x l -> f x = false.
Proof.
  induction l as [|a l IH]; simpl; intros H x Hx; [contradiction|].
  destruct (f a) eqn:E; [discriminate|]. destruct Hx as [->|Hx]; auto.
Qed.

Lemma all_filter_nil {A} (f : A -> bool) l : (forall x, In x l -> f x = false) -> filter f l = [].
Proof.
  induction l as [|a l IH]; simpl; intros H; [reflexivity|].
  rewrite (H a (or_introl eq_refl)). apply IH. intros x Hx. apply H. right; assumption.
Qed.

(* ------------------------------------------------------------------ states along a trace *)

Lemma state_at_S tr i s : nth_error tr i = Some s -> state_at tr (S i) = apply (state_at tr i) s.
Proof.
  intros H. unfold state_at. rewrite (firstn_snoc _ _ _ H), fold_left_app. reflexivity.
Qed.

Lemma apply_forked st s : forked st = true -> forked (apply st s) = true.
Proof. destruct s as [t []]; unfold apply; simpl; auto. Qed.

Lemma apply_joined st s : joined st = true -> joined (apply st s) = true.
Proof. destruct s as [t []]; unfold apply; simpl; auto. Qed.

Lemma apply_forked_inv st s : forked st = false -> forked (apply st s) = true -> snd s = EFork.
Proof. destruct s as [t []]; unfold apply; simpl; intros H1 H2; congruence. Qed.

Lemma apply_joined_inv st s : joined st = false -> joined (apply st s) = true -> snd s = EJoin.
Proof. destruct s as [t []]; unfold apply; simpl; intros H1 H2; congruence. Qed.

Lemma forked_mono tr i j : i <= j -> j <= List.length tr ->
  forked (state_at tr i) = true -> forked (state_at tr j) = true.
Proof.
  induction 1 as [|m Hle IH]; intros Hl H; [assumption|].
  destruct (nth_error_lt tr m) as [s Hs]; [lia|].
  rewrite (state_at_S _ _ _ Hs). apply apply_forked. apply IH; [lia|assumption].
Qed.

Lemma joined_mono tr i j : i <= j -> j <= List.length tr ->
  joined (state_at tr i) = true -> joined (state_at tr j) = true.
Proof.
  induction 1 as [|m Hle IH]; intros Hl H; [assumption|].
  destruct (nth_error_lt tr m) as [s Hs]; [lia|].
  rewrite (state_at_S _ _ _ Hs). apply apply_joined. apply IH; [lia|assumption].
Qed.

Lemma fork_between tbl tr i j : valid tbl tr -> i <= j -> j <= List.length tr ->
  forked (state_at tr i) = false -> forked (state_at tr j) = true ->
  exists k, i <= k /\ k < j /\ nth_error tr k = Some (Ctl, EFork).
Proof.
  intros V. induction 1 as [|m Hle IH]; intros Hl H0 H1; [congruence|].
  destruct (nth_error_lt tr m) as [s Hs]; [lia|].
  destruct (forked (state_at tr m)) eqn:E.
  - destruct IH as (k & ? & ? & ?); auto; [lia|]. exists k; repeat split; auto.
  - rewrite (state_at_S _ _ _ Hs) in H1.
    pose proof (apply_forked_inv _ _ E H1) as Hev.
    pose proof (V _ _ Hs) as [_ Hok]. destruct s as [t e]; simpl in *. subst e.
    destruct Hok as [-> _]. exists m; repeat split; auto.
Qed.

Lemma join_between tbl tr i j : valid tbl tr -> i <= j -> j <= List.length tr ->
  joined (state_at tr i) = false -> joined (state_at tr j) = true ->
  exists k, i <= k /\ k < j /\ nth_error tr k = Some (Ctl, EJoin).
Proof.
  intros V. induction 1 as [|m Hle IH]; intros Hl H0 H1; [congruence|].
  destruct (nth_error_lt tr m) as [s Hs]; [lia|].
  destruct (joined (state_at tr m)) eqn:E.
  - destruct IH as (k & ? & ? & ?); auto; [lia|]. exists k; repeat split; auto.
  - rewrite (state_at_S _ _ _ Hs) in H1.
    pose proof (apply_joined_inv _ _ E H1) as Hev.
    pose proof (V _ _ Hs) as [_ Hok]. destruct s as [t e]; simpl in *. subst e.
    destruct Hok as [-> _]. exists m; repeat split; auto.
Qed.

(* ------------------------------------------------------------------ mutex ownership *)

Lemma thread_eq_dec (a b : thread) : {a = b} + {a <> b}.
Proof. decide equality. Qed.

Lemma othread_eq_dec (a b : option thread) : {a = b} + {a <> b}.
Proof. decide equality. apply thread_eq_dec. Qed.

(* the first release after a point where t holds m is by t *)
Lemma rel_between tbl tr m t i j : valid tbl tr -> i <= j -> j <= List.length tr ->
  owner (state_at tr i) m = Some t -> owner (state_at tr j) m <> Some t ->
  exists k, i <= k /\ k < j /\ nth_error tr k = Some (t, ERel m).
Proof.
  intros V. induction 1 as [|n Hle IH]; intros Hl H0 H1; [congruence|].
  destruct (nth_error_lt tr n) as [s Hs]; [lia|].
  destruct (othread_eq_dec (owner (state_at tr n) m) (Some t)) as [E|E].
  - rewrite (state_at_S _ _ _ Hs) in H1.
    pose proof (V _ _ Hs) as [_ Hok]. destruct s as [t' e]; simpl in *.
    destruct e as [m'|m'|o| |]; unfold apply in H1; simpl in H1; try congruence.
    + unfold set_owner in H1. destruct (String.eqb m m') eqn:Em; [|congruence].
      apply String.eqb_eq in Em. subst m'. congruence.
    + unfold set_owner in H1. destruct (String.eqb m m') eqn:Em; [|congruence].
      apply String.eqb_eq in Em. subst m'.
      assert (t' = t) by congruence. subst t'. exists n; repeat split; auto.
  - destruct IH as (k & ? & ? & ?); auto; [lia|]. exists k; repeat split; auto.
Qed.

(* if t does not hold m at a and holds it at j, it acquired it in between *)
Lemma acq_between tr m t a j : a <= j -> j <= List.length tr ->
  owner (state_at tr a) m <> Some t -> owner (state_at tr j) m = Some t ->
  exists l, a <= l /\ l < j /\ nth_error tr l = Some (t, EAcq m).
Proof.
  induction 1 as [|n Hle IH]; intros Hl H0 H1; [congruence|].
  destruct (nth_error_lt tr n) as [s Hs]; [lia|].
  destruct (othread_eq_dec (owner (state_at tr n) m) (Some t)) as [E|E].
  - destruct IH as (l & ? & ? & ?); auto; [lia|]. exists l; repeat split; auto.
  - rewrite (state_at_S _ _ _ Hs) in H1. destruct s as [t' e]; simpl in *.
    destruct e as [m'|m'|o| |]; unfold apply in H1; simpl in H1; try congruence.
    + unfold set_owner in H1. destruct (String.eqb m m') eqn:Em; [|congruence].
      apply String.eqb_eq in Em. subst m'.
      assert (t' = t) by congruence. subst t'. exists n; repeat split; auto.
    + unfold set_owner in H1. destruct (String.eqb m m') eqn:Em; congruence.
Qed.

(* two accesses made under the same mutex by different threads are ordered *)
Lemma lock_hb tbl tr m i j t1 t2 o1 e2 : valid tbl tr -> i < j ->
  nth_error tr i = Some (t1, EAcc o1) -> nth_error tr j = Some (t2, e2) -> t1 <> t2 ->
  owner (state_at tr i) m = Some t1 -> owner (state_at tr j) m = Some t2 ->
  hb tr i j.
Proof.
  intros V Hij Hi Hj Hne O1 O2.
  pose proof (nth_error_some_lt _ _ _ Hj) as Hjl.
  destruct (rel_between tbl tr m t1 i j) as (k & Hik & Hkj & Hk); auto; try lia.
  { rewrite O2. congruence. }
  assert (i <> k) by (intros ->; rewrite Hi in Hk; discriminate).
  assert (Ok1 : owner (state_at tr (S k)) m <> Some t2).
  { rewrite (state_at_S _ _ _ Hk). unfold apply; simpl. unfold set_owner. rewrite String.eqb_refl. discriminate. }
  destruct (acq_between tr m t2 (S k) j) as (l & Hkl & Hlj & Hl); auto; try lia.
  apply hb_trans with k; [apply hb_po with t1 (EAcc o1) (ERel m); auto; lia|].
  apply hb_trans with l; [apply hb_lock with t1 t2 m; auto; lia|].
  apply hb_po with t2 (EAcq m) e2; auto.
Qed.

(* ------------------------------------------------------------------ symmetry of the pair predicates *)

Lemma may_alias_sym v w : may_alias v w = may_alias w v.
Proof. destruct v, w; simpl; auto. apply String.eqb_sym. Qed.

Lemma conflicting_sym a b : conflicting a b = conflicting b a.
Proof. unfold conflicting. rewrite may_alias_sym, orb_comm. reflexivity. Qed.

Lemma both_atomic_sym a b : both_atomic a b = both_atomic b a.
Proof. unfold both_atomic. destruct (a_prot a), (a_prot b); reflexivity. Qed.

Lemma common_mutex_inv a b : common_mutex a b = true ->
  exists m, a_prot a = Mutex m /\ a_prot b = Mutex m.
Proof.
  unfold common_mutex. destruct (a_prot a) as [m| |], (a_prot b) as [n| |]; try discriminate.
  intros H. apply String.eqb_eq in H. subst n. eauto.
Qed.

Lemma thread_eqb_eq a b : thread_eqb a b = true <-> a = b.
Proof. destruct a, b; simpl; split; congruence. Qed.

Lemma in_ctl_occs tbl o : In o (ctl_occs tbl) <-> In o (occs tbl) /\ o_thread o = Ctl.
Proof. unfold ctl_occs. rewrite filter_In, thread_eqb_eq. tauto. Qed.

Lemma in_flt_occs tbl o : In o (flt_occs tbl) <-> In o (occs tbl) /\ o_thread o = Flt.
Proof. unfold flt_occs. rewrite filter_In, thread_eqb_eq. tauto. Qed.

Lemma in_race_freeb tbl c f : In (c, f) (race_freeb tbl) <->
  In c (occs tbl) /\ o_thread c = Ctl /\ In f (occs tbl) /\ o_thread f = Flt /\ pair_ok c f = false.
Proof.
  unfold race_freeb. rewrite filter_In, in_prod_iff, in_ctl_occs, in_flt_occs. simpl.
  rewrite negb_true_iff. tauto.
Qed.

(* ------------------------------------------------------------------ checker <-> Prop reading *)

Lemma race_freeb_race_free tbl : race_freeb tbl = [] -> race_free tbl.
Proof.
  intros H c f Hc Hf Tc Tf Hconf.
  destruct (pair_ok c f) eqn:P.
  - unfold pair_ok in P. rewrite Hconf in P. simpl in P.
    apply orb_true_iff in P. destruct P as [P|P].
    + apply orb_true_iff in P. destruct P as [P|P]; [left; assumption|].
      right; left. apply common_mutex_inv; assumption.
    + right; right. destruct (o_phase c); simpl in P; congruence.
  - assert (In (c, f) (race_freeb tbl)) by (apply in_race_freeb; auto).
    rewrite H in *. contradiction.
Qed.

Lemma race_free_race_freeb tbl : race_free tbl -> race_freeb tbl = [].
Proof.
  intros H. unfold race_freeb. apply all_filter_nil. intros [c f] Hin. simpl.
  apply in_prod_iff in Hin. destruct Hin as [Hc Hf].
  apply in_ctl_occs in Hc. apply in_flt_occs in Hf. destruct Hc as [Hc Tc], Hf as [Hf Tf].
  apply negb_false_iff. unfold pair_ok.
  destruct (conflicting (o_acc c) (o_acc f)) eqn:Hconf; [|reflexivity]. simpl.
  destruct (H c f Hc Hf Tc Tf Hconf) as [A|[(m & A & B)|A]].
  - rewrite A. reflexivity.
  - unfold common_mutex. rewrite A, B, String.eqb_refl. rewrite orb_true_r. reflexivity.
  - destruct (o_phase c); try congruence; simpl; rewrite orb_true_r; reflexivity.
Qed.

(* ------------------------------------------------------------------ soundness *)

(* a pair the checker accepts is never a race of an execution: Ctl access first *)
Lemma ok_pair_hb_cf tbl tr i j c f : valid tbl tr -> i < j ->
  nth_error tr i = Some (Ctl, EAcc c) -> nth_error tr j = Some (Flt, EAcc f) ->
  conflicting (o_acc c) (o_acc f) = true -> both_atomic (o_acc c) (o_acc f) = false ->
  pair_ok c f = true -> hb tr i j.
Proof.
  intros V Hij Hi Hj Hconf Hat P.
  pose proof (V _ _ Hi) as [_ (_ & _ & Phi & Li)]. pose proof (V _ _ Hj) as [[Fj Jj] (_ & _ & _ & Lj)].
  simpl in *. pose proof (nth_error_some_lt _ _ _ Hj) as Hjl.
  unfold pair_ok in P. rewrite Hconf, Hat in P. simpl in P.
  apply orb_true_iff in P. destruct P as [P|P].
  - apply common_mutex_inv in P. destruct P as (m & A & B).
    eapply lock_hb with (m := m) (t1 := Ctl) (t2 := Flt); eauto; discriminate.
  - destruct (o_phase c) eqn:Ph; simpl in P; try discriminate; simpl in Phi.
    + destruct (fork_between tbl tr i j) as (k & Hik & Hkj & Hk); auto; try lia.
      assert (i <> k) by (intros ->; rewrite Hi in Hk; discriminate).
      apply hb_trans with k; [apply hb_po with Ctl (EAcc c) EFork; auto; lia|].
      apply hb_fork with (EAcc f); auto.
    + rewrite (joined_mono tr i j) in Jj; auto; try lia; try discriminate.
Qed.

(* ... Flt access first *)
Lemma ok_pair_hb_fc tbl tr i j c f : valid tbl tr -> i < j ->
  nth_error tr i = Some (Flt, EAcc f) -> nth_error tr j = Some (Ctl, EAcc c) ->
  conflicting (o_acc c) (o_acc f) = true -> both_atomic (o_acc c) (o_acc f) = false ->
  pair_ok c f = true -> hb tr i j.
Proof.
  intros V Hij Hi Hj Hconf Hat P.
  pose proof (V _ _ Hi) as [[Fi Ji] (_ & _ & _ & Li)]. pose proof (V _ _ Hj) as [_ (_ & _ & Phj & Lj)].
  simpl in *. pose proof (nth_error_some_lt _ _ _ Hj) as Hjl.
  unfold pair_ok in P. rewrite Hconf, Hat in P. simpl in P.
  apply orb_true_iff in P. destruct P as [P|P].
  - apply common_mutex_inv in P. destruct P as (m & A & B).
    eapply lock_hb with (m := m) (t1 := Flt) (t2 := Ctl); eauto; discriminate.
  - destruct (o_phase c) eqn:Ph; simpl in P; try discriminate; simpl in Phj.
    + rewrite (forked_mono tr i j) in Phj; auto; try lia; try discriminate.
    + destruct (join_between tbl tr i j) as (k & Hik & Hkj & Hk); auto; try lia.
      assert (i <> k) by (intros ->; rewrite Hi in Hk; discriminate).
      apply hb_trans with k; [apply hb_join with (EAcc f); auto; lia|].
      apply hb_po with Ctl EJoin (EAcc c); auto.
Qed.

(* MAIN THEOREM (all tables, all executions): every race of every execution is
   between a pair of table accesses that the checker reports. *)
Theorem races_confined tbl tr i j o1 o2 : valid tbl tr -> race tr i j o1 o2 ->
  exists c f, In (c, f) (race_freeb tbl) /\ ((o1 = c /\ o2 = f) \/ (o1 = f /\ o2 = c)).
Proof.
  intros V (t1 & t2 & Hij & Hi & Hj & Hne & Hconf & Hat & Hnhb).
  pose proof (V _ _ Hi) as [_ (In1 & T1 & _)]. pose proof (V _ _ Hj) as [_ (In2 & T2 & _)].
  simpl in *.
  destruct t1, t2; try congruence.
  - exists o1, o2. split; [|left; auto]. apply in_race_freeb. repeat split; auto.
    destruct (pair_ok o1 o2) eqn:P; auto. exfalso. apply Hnhb.
    eapply ok_pair_hb_cf; eauto.
  - exists o2, o1. split; [|right; auto]. apply in_race_freeb. repeat split; auto.
    destruct (pair_ok o2 o1) eqn:P; auto. exfalso. apply Hnhb.
    eapply ok_pair_hb_fc; eauto.
    + rewrite conflicting_sym; assumption.
    + rewrite both_atomic_sym; assumption.
Qed.

Theorem race_freeb_sound tbl : race_freeb tbl = [] ->
  forall tr, valid tbl tr -> forall i j o1 o2, ~ race tr i j o1 o2.
Proof.
  intros H tr V i j o1 o2 R.
  destruct (races_confined _ _ _ _ _ _ V R) as (c & f & Hin & _).
  rewrite H in Hin. contradiction.
Qed.

(* the racy variables of any execution are among [racy_vars tbl] *)
Lemma mem_str_in s l : mem_str s l = true <-> In s l.
Proof.
  induction l as [|x l IH]; simpl; [split; [discriminate|contradiction]|].
  rewrite orb_true_iff, IH, String.eqb_eq. split; intros [H|H]; auto.
Qed.

Lemma dedup_in l : forall seen x, In x l -> In x seen \/ In x (dedup l seen).
Proof.
  induction l as [|a l IH]; simpl; intros seen x Hx; [contradiction|].
  destruct (mem_str a seen) eqn:E.
  - destruct Hx as [->|Hx]; [left; apply mem_str_in; assumption|]. apply IH; assumption.
  - destruct Hx as [->|Hx]; [right; left; reflexivity|].
    destruct (IH (a :: seen) x Hx) as [[->|H]|H]; auto.
    + right; left; reflexivity.
    + right; right; assumption.
Qed.

Theorem race_vars_confined tbl tr i j o1 o2 : valid tbl tr -> race tr i j o1 o2 ->
  In (var_name (a_var (o_acc o1))) (racy_vars tbl) /\ In (var_name (a_var (o_acc o2))) (racy_vars tbl).
Proof.
  intros V R. destruct (races_confined _ _ _ _ _ _ V R) as (c & f & Hin & Hcf).
  assert (Hc : In (var_name (a_var (o_acc c))) (racy_vars tbl)).
  { unfold racy_vars. destruct (dedup_in (flat_map pair_vars (race_freeb tbl)) [] (var_name (a_var (o_acc c)))) as [[]|H]; auto.
    apply in_flat_map. exists (c, f). split; auto. simpl; auto. }
  assert (Hf : In (var_name (a_var (o_acc f))) (racy_vars tbl)).
  { unfold racy_vars. destruct (dedup_in (flat_map pair_vars (race_freeb tbl)) [] (var_name (a_var (o_acc f)))) as [[]|H]; auto.
    apply in_flat_map. exists (c, f). split; auto. simpl; auto. }
  destruct Hcf as [[-> ->]|[-> ->]]; auto.
Qed.

(* ------------------------------------------------------------------ adjacency reading *)

Lemma hb_lt tr i j : hb tr i j -> i < j.
Proof. induction 1; lia. Qed.

Lemma hb_adjacent_acc tr i t1 t2 o1 o2 : hb tr i (S i) ->
  nth_error tr i = Some (t1, EAcc o1) -> nth_error tr (S i) = Some (t2, EAcc o2) -> t1 = t2.
Proof.
  intros H. remember (S i) as j eqn:Ej. revert Ej.
  induction H as [i j t e1 e2 _ A B|i j u1 u2 m _ A B|i j e _ A B|i j e _ A B|i j k H1 IH1 H2 IH2];
    intros Ej Hi Hj; subst.
  - rewrite A in Hi. rewrite B in Hj. congruence.
  - rewrite A in Hi. discriminate.
  - rewrite A in Hi. discriminate.
  - rewrite B in Hj. discriminate.
  - apply hb_lt in H1. apply hb_lt in H2. lia.
Qed.

(* with an empty offender list, two accesses of different threads that are next
   to each other in an execution either do not conflict or are both atomic *)
Theorem no_adjacent_conflict tbl : race_freeb tbl = [] ->
  forall tr, valid tbl tr -> forall i t1 t2 o1 o2,
    nth_error tr i = Some (t1, EAcc o1) -> nth_error tr (S i) = Some (t2, EAcc o2) -> t1 <> t2 ->
    conflicting (o_acc o1) (o_acc o2) = true -> both_atomic (o_acc o1) (o_acc o2) = true.
Proof.
  intros H tr V i t1 t2 o1 o2 Hi Hj Hne Hconf.
  destruct (both_atomic (o_acc o1) (o_acc o2)) eqn:Hat; [reflexivity|]. exfalso.
  apply (race_freeb_sound _ H _ V i (S i) o1 o2).
  exists t1, t2. repeat split; auto.
  intros Hhb. apply Hne. eapply hb_adjacent_acc; eauto.
Qed.

(* ------------------------------------------------------------------ boolean validity *)

Lemma rw_eqb_eq a b : rw_eqb a b = true -> a = b.
Proof. destruct a, b; simpl; congruence. Qed.
Lemma phase_eqb_eq a b : phase_eqb a b = true -> a = b.
Proof. destruct a, b; simpl; congruence. Qed.
Lemma var_eqb_eq a b : var_eqb a b = true -> a = b.
Proof. destruct a, b; simpl; try congruence. intros H; apply String.eqb_eq in H; congruence. Qed.
Lemma prot_eqb_eq a b : prot_eqb a b = true -> a = b.
Proof. destruct a, b; simpl; try congruence. intros H; apply String.eqb_eq in H; congruence. Qed.
Lemma access_eqb_eq a b : access_eqb a b = true -> a = b.
Proof.
  destruct a, b; unfold access_eqb; simpl. rewrite !andb_true_iff. intros [[[A B] C] D].
  apply var_eqb_eq in A. apply rw_eqb_eq in B. apply prot_eqb_eq in C. apply String.eqb_eq in D. congruence.
Qed.
Lemma occ_eqb_eq a b : occ_eqb a b = true -> a = b.
Proof.
  destruct a, b; unfold occ_eqb; simpl. rewrite !andb_true_iff. intros [[[A B] C] D].
  apply thread_eqb_eq in A. apply phase_eqb_eq in B. apply String.eqb_eq in C. apply access_eqb_eq in D. congruence.
Qed.

Lemma othread_eqb_eq a b : othread_eqb a b = true -> a = b.
Proof. destruct a as [[]|], b as [[]|]; simpl; congruence. Qed.

Lemma step_okb_sound tbl st s : step_okb tbl st s = true -> step_ok tbl st s.
Proof.
  destruct s as [t e]. unfold step_okb, step_ok. simpl. rewrite andb_true_iff. intros [En H]. split.
  - destruct t; simpl in *; auto. apply andb_true_iff in En. destruct En as [A B].
    apply negb_true_iff in B. auto.
  - destruct e as [m|m|o| |].
    + apply othread_eqb_eq in H; assumption.
    + apply othread_eqb_eq in H; assumption.
    + rewrite !andb_true_iff in H. destruct H as [[[A B] C] D].
      apply existsb_exists in A. destruct A as (o' & Hin & Heq). apply occ_eqb_eq in Heq. subst o'.
      apply thread_eqb_eq in B. repeat split; auto.
      * destruct t, (o_phase o); simpl in *; auto. apply negb_true_iff in C; assumption.
      * intros m Hm. rewrite Hm in D. apply othread_eqb_eq in D; assumption.
    + rewrite andb_true_iff in H. destruct H as [A B]. apply thread_eqb_eq in A. apply negb_true_iff in B. auto.
    + rewrite !andb_true_iff in H. destruct H as [[A B] C]. apply thread_eqb_eq in A. apply negb_true_iff in C. auto.
Qed.

Lemma validb_from_sound tbl tr : forall st, validb_from tbl st tr = true ->
  forall i s, nth_error tr i = Some s -> step_ok tbl (fold_left apply (firstn i tr) st) s.
Proof.
  induction tr as [|a tr IH]; intros st H i s Hs; [destruct i; discriminate|].
  simpl in H. apply andb_true_iff in H. destruct H as [H1 H2].
  destruct i as [|i]; simpl in *.
  - inversion Hs; subst. apply step_okb_sound; assumption.
  - apply IH; assumption.
Qed.

Theorem validb_sound tbl tr : validb tbl tr = true -> valid tbl tr.
Proof. intros H i s Hs. apply (validb_from_sound tbl tr init H i s Hs). Qed.

(* ------------------------------------------------------------------ completeness: offenders are realisable *)

(* every pair the checker reports is a race of some execution of the table: fork, each
   thread takes the mutex its access is listed with (they differ), then the two accesses *)
Definition witness (c f : occ) : trace :=
  (Ctl, EFork) ::
  (match a_prot (o_acc c) with Mutex m => [(Ctl, EAcq m)] | _ => [] end) ++
  (match a_prot (o_acc f) with Mutex m => [(Flt, EAcq m)] | _ => [] end) ++
  [(Ctl, EAcc c); (Flt, EAcc f)].

Lemma pair_ok_false c f : pair_ok c f = false ->
  conflicting (o_acc c) (o_acc f) = true /\ both_atomic (o_acc c) (o_acc f) = false /\
  common_mutex (o_acc c) (o_acc f) = false /\ o_phase c = Concurrent.
Proof.
  unfold pair_ok. rewrite !orb_false_iff, negb_false_iff. intros [[[A B] C] D].
  repeat split; auto. destruct (o_phase c); simpl in D; congruence.
Qed.

Ltac step_tac :=
  unfold step_ok, state_at, enabled, phase_ok, apply, set_owner; simpl;
  repeat match goal with
  | |- _ /\ _ => split
  | |- forall _, _ => intro
  | H : ?x = Concurrent |- context [?x] => rewrite H
  | H : a_prot ?x = Mutex _, P : a_prot ?x = _ |- _ => rewrite P in H
  | H : Mutex _ = Mutex _ |- _ => inversion H; subst; clear H
  | H : Atomic = Mutex _ |- _ => discriminate H
  | H : Plain = Mutex _ |- _ => discriminate H
  | |- context [String.eqb ?a ?a] => rewrite String.eqb_refl
  | H : String.eqb ?a ?b = false |- context [String.eqb ?a ?b] => rewrite H
  | H : String.eqb ?a ?b = false |- context [String.eqb ?b ?a] => rewrite (String.eqb_sym b a), H
  end; simpl; auto.

Theorem offenders_realisable tbl c f : In (c, f) (race_freeb tbl) ->
  exists tr i, valid tbl tr /\ race tr i (S i) c f.
Proof.
  intros H. apply in_race_freeb in H. destruct H as (Hc & Tc & Hf & Tf & P).
  apply pair_ok_false in P. destruct P as (Hconf & Hat & Hcm & Hph).
  exists (witness c f).
  assert (Hadj : forall i, nth_error (witness c f) i = Some (Ctl, EAcc c) ->
                           nth_error (witness c f) (S i) = Some (Flt, EAcc f) -> race (witness c f) i (S i) c f).
  { intros i Hi Hj. exists Ctl, Flt. repeat split; auto; try discriminate.
    intros Hhb. pose proof (hb_adjacent_acc _ _ _ _ _ _ Hhb Hi Hj). discriminate. }
  unfold witness in *. unfold common_mutex in Hcm.
  destruct (a_prot (o_acc c)) as [m1| |] eqn:Pc; destruct (a_prot (o_acc f)) as [m2| |] eqn:Pf; simpl in *.
  all: match goal with
       | |- exists i, valid _ (?a :: ?b :: ?c :: ?d :: ?e :: nil) /\ _ => exists 3
       | |- exists i, valid _ (?a :: ?b :: ?c :: ?d :: nil) /\ _ => exists 2
       | |- exists i, valid _ (?a :: ?b :: ?c :: nil) /\ _ => exists 1
       end.
  all: split; [|apply Hadj; reflexivity].
  all: intros i s Hs;
       repeat (destruct i as [|i];
               [inversion Hs; subst; clear Hs; step_tac | simpl in Hs; try (destruct i; discriminate Hs)]).
Qed.

(* ------------------------------------------------------------------ examples (used by Properties_C10) *)
Local Open Scope string_scope.

Definition ex_z_ctor := mkOcc Ctl PreFork "(construction)" (mkAcc (Named "z") Wr Plain "ctor").
Definition ex_x_set  := mkOcc Ctl Concurrent "set" (mkAcc (Named "x") Wr (Mutex "m") "set:1").
Definition ex_y_set  := mkOcc Ctl Concurrent "set" (mkAcc (Named "y") Wr Atomic "set:2").
Definition ex_x_body := mkOcc Flt Concurrent "body" (mkAcc (Named "x") Rd (Mutex "m") "body:1").
Definition ex_y_body := mkOcc Flt Concurrent "body" (mkAcc (Named "y") Rd Atomic "body:2").
Definition ex_z_body := mkOcc Flt Concurrent "body" (mkAcc (Named "z") Rd Plain "body:3").

(* x under a mutex on both sides, y atomic on both sides, z written only before the fork *)
Definition ex_tbl : table :=
  [ mkEntry "(construction)" Ctl PreFork [o_acc ex_z_ctor];
    mkEntry "set" Ctl Concurrent [o_acc ex_x_set; o_acc ex_y_set];
    mkEntry "body" Flt Concurrent [o_acc ex_x_body; o_acc ex_y_body; o_acc ex_z_body] ].

Definition ex_trace : trace :=
  [ (Ctl, EAcc ex_z_ctor); (Ctl, EFork);
    (Flt, EAcq "m"); (Flt, EAcc ex_x_body); (Flt, ERel "m");
    (Ctl, EAcq "m"); (Ctl, EAcc ex_x_set); (Ctl, EAcc ex_y_set); (Flt, EAcc ex_y_body); (Flt, EAcc ex_z_body);
    (Ctl, ERel "m"); (Ctl, EJoin) ].

Lemma ex_tbl_ok : race_freeb ex_tbl = [] /\ validb ex_tbl ex_trace = true.
Proof. vm_compute. split; reflexivity. Qed.

(* the same with the filtering thread reading x without the mutex *)
Definition ex_x_body_plain := mkOcc Flt Concurrent "body" (mkAcc (Named "x") Rd Plain "body:1").
Definition ex_bad_tbl : table :=
  [ mkEntry "set" Ctl Concurrent [o_acc ex_x_set];
    mkEntry "body" Flt Concurrent [o_acc ex_x_body_plain] ].
Definition ex_bad_trace : trace :=
  [ (Ctl, EFork); (Ctl, EAcq "m"); (Ctl, EAcc ex_x_set); (Flt, EAcc ex_x_body_plain) ].

Lemma ex_bad_tbl_races : race_freeb ex_bad_tbl = [(ex_x_set, ex_x_body_plain)] /\
  valid ex_bad_tbl ex_bad_trace /\ race ex_bad_trace 2 3 ex_x_set ex_x_body_plain.
Proof.
  split; [vm_compute; reflexivity|]. split; [apply validb_sound; vm_compute; reflexivity|].
  exists Ctl, Flt. repeat split; auto; try discriminate.
  intros Hhb. pose proof (hb_adjacent_acc ex_bad_trace 2 Ctl Flt _ _ Hhb eq_refl eq_refl). discriminate.
Qed.

(* order-insensitive comparison of two lists of names *)
Definition subset_str (a b : list string) : bool := forallb (fun x => mem_str x b) a.
Definition same_set (a b : list string) : bool := subset_str a b && subset_str b a.

Lemma same_set_in a b : same_set a b = true -> forall x, In x a <-> In x b.
Proof.
  unfold same_set, subset_str. rewrite andb_true_iff, !forallb_forall. intros [A B] x.
  split; intros H; apply mem_str_in; auto.
Qed.

(* no racy variable <-> no offending pair *)
Lemma dedup_nil l seen : dedup l seen = [] -> forall x, In x l -> In x seen.
Proof.
  revert seen; induction l as [|a l IH]; simpl; intros seen H x Hx; [contradiction|].
  destruct (mem_str a seen) eqn:E; [|discriminate].
  destruct Hx as [->|Hx]; [apply mem_str_in; assumption|]. apply IH; assumption.
Qed.

Lemma racy_vars_nil tbl : racy_vars tbl = [] -> race_freeb tbl = [].
Proof.
  unfold racy_vars. intros H. destruct (race_freeb tbl) as [|p r] eqn:E; [reflexivity|].
  exfalso. apply (dedup_nil _ _ H (var_name (a_var (o_acc (fst p))))). simpl. left; reflexivity.
Qed.

Lemma same_set_nil l : same_set l [] = true -> l = [].
Proof. destruct l as [|x l]; [reflexivity|]. unfold same_set, subset_str; simpl. discriminate. Qed.
