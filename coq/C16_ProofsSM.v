(* C16_ProofsSM.v — the constructor checks and the two serving state machines
   (SimulatedStateModel, SimulatedLinearSensor) of C16_Model, for every
   arithmetic instance: these proofs never look at the matrix operations. *)
Require Import ZArith List Bool Lia.
Require Import BFL.Ops BFL.C16_Model.
Import ListNotations.

Section Ctors.
Variable O : MatOps.

Lemma lti_state_ctor_spec fr fc qr qc (F : M O fr fc) (Q : M O qr qc) :
  match lti_state_ctor F Q with
  | inr (F', Q') => F' = F /\ Q' = Q /\ 0 < fr /\ fr = fc /\ qr = qc /\ fr = qr
  | inl ErrFEmpty => fr = 0 \/ fc = 0
  | inl ErrQEmpty => 0 < fr /\ 0 < fc /\ (qr = 0 \/ qc = 0)
  | inl ErrFNotSquare => 0 < fr /\ 0 < fc /\ 0 < qr /\ 0 < qc /\ fr <> fc
  | inl ErrQNotSquare => 0 < fr /\ fr = fc /\ 0 < qr /\ 0 < qc /\ qr <> qc
  | inl ErrFQMismatch => 0 < fr /\ fr = fc /\ 0 < qr /\ qr = qc /\ fr <> qr
  end.
Proof.
unfold lti_state_ctor, is_empty.
destruct (Nat.eqb_spec fr 0), (Nat.eqb_spec fc 0); simpl; try lia.
destruct (Nat.eqb_spec qr 0), (Nat.eqb_spec qc 0); simpl; try lia.
destruct (Nat.eqb_spec fr fc); simpl; try lia.
destruct (Nat.eqb_spec qr qc); simpl; try lia.
destruct (Nat.eqb_spec fr qr); simpl; try lia.
repeat split; lia.
Qed.

Lemma lti_meas_ctor_spec hr hc rr rc (H : M O hr hc) (R : M O rr rc) :
  match lti_meas_ctor H R with
  | inr (H', R') => H' = H /\ R' = R /\ 0 < hr /\ 0 < hc /\ rr = rc /\ hr = rr
  | inl ErrHEmpty => hr = 0 \/ hc = 0
  | inl ErrREmpty => 0 < hr /\ 0 < hc /\ (rr = 0 \/ rc = 0)
  | inl ErrRNotSquare => 0 < hr /\ 0 < hc /\ 0 < rr /\ 0 < rc /\ rr <> rc
  | inl ErrHRMismatch => 0 < hr /\ 0 < hc /\ 0 < rr /\ rr = rc /\ hr <> rr
  | inl (ErrIndex _ _) => False
  end.
Proof.
unfold lti_meas_ctor, is_empty.
destruct (Nat.eqb_spec hr 0), (Nat.eqb_spec hc 0); simpl; try lia.
destruct (Nat.eqb_spec rr 0), (Nat.eqb_spec rc 0); simpl; try lia.
destruct (Nat.eqb_spec rr rc); simpl; try lia.
destruct (Nat.eqb_spec hr rr); simpl; try lia.
repeat split; lia.
Qed.

(* the index loop: either every index is in range, or it stops at the first one that is not *)
Lemma lm_fill_outcome m n (idxs : list nat) : forall i (H : M O m n),
  match lm_fill i idxs H with
  | inr _ => Forall (fun c => c < n) idxs
  | inl (ErrIndex p v) =>
      exists k, p = i + k /\ nth_error idxs k = Some v /\ n <= v /\ Forall (fun c => c < n) (firstn k idxs)
  | inl _ => False
  end.
Proof.
induction idxs as [|c rest IH]; intros i H; simpl.
- constructor.
- destruct (Nat.ltb_spec c n) as [lt|ge].
  + specialize (IH (S i) (mset H i c (s1 (sc O)))).
    destruct (lm_fill (S i) rest (mset H i c (s1 (sc O)))) as [[| | | |p v]|H']; try exact IH.
    * destruct IH as [k [-> [E [ge F]]]]. exists (S k). repeat split; simpl; auto; try lia.
    * constructor; auto.
  + exists 0. repeat split; simpl; auto; try lia.
Qed.

(* LinearModel's constructor: the checks in the code's order, then the index loop *)
Lemma linear_model_ctor_spec n (idxs : list nat) rr rc (R : M O rr rc) :
  let m := length idxs in
  match linear_model_ctor n idxs R with
  | inr (H, R', L) =>
      R' = R /\ L = msqrt (mbuild rr rr (fun i j => mget R i j)) /\ lm_fill 0 idxs (mzero m n) = inr H /\
      0 < m /\ 0 < n /\ rr = rc /\ m = rr /\ Forall (fun c => c < n) idxs
  | inl ErrHEmpty => m = 0 \/ n = 0
  | inl ErrREmpty => 0 < m /\ 0 < n /\ (rr = 0 \/ rc = 0)
  | inl ErrRNotSquare => 0 < m /\ 0 < n /\ 0 < rr /\ 0 < rc /\ rr <> rc
  | inl ErrHRMismatch => 0 < m /\ 0 < n /\ 0 < rr /\ rr = rc /\ m <> rr
  | inl (ErrIndex p v) =>
      (0 < m /\ 0 < n /\ rr = rc /\ m = rr) /\
      nth_error idxs p = Some v /\ n <= v /\ Forall (fun c => c < n) (firstn p idxs)
  end.
Proof.
cbv zeta. unfold linear_model_ctor.
pose proof (lti_meas_ctor_spec _ _ _ _ (mzero (length idxs) n) R) as S.
destruct (lti_meas_ctor (mzero (length idxs) n) R) as [e|[H0 R']].
- destruct e; auto. contradiction.
- destruct S as [-> [-> [mp [np [sq mr]]]]].
  pose proof (lm_fill_outcome (length idxs) n idxs 0 (mzero (length idxs) n)) as L.
  destruct (lm_fill 0 idxs (mzero (length idxs) n)) as [e|H]; [|repeat split; auto].
  destruct e; try contradiction.
  destruct L as [k [-> [E [ge F]]]]. simpl. repeat split; auto.
Qed.

(* conversely: with admissible shapes, an index outside the state vector is rejected,
   and the error names the first such index *)
Lemma linear_model_rejects n (idxs : list nat) rr rc (R : M O rr rc) :
  0 < length idxs -> 0 < n -> rr = rc -> length idxs = rr -> ~ Forall (fun c => c < n) idxs ->
  exists p v, linear_model_ctor n idxs R = inl (ErrIndex p v) /\
              nth_error idxs p = Some v /\ n <= v /\ Forall (fun c => c < n) (firstn p idxs).
Proof.
intros mp np sq mr bad.
pose proof (linear_model_ctor_spec n idxs rr rc R) as S. cbv zeta in S.
destruct (linear_model_ctor n idxs R) as [e|[[H R'] L]].
- destruct e as [| | | |p v]; try lia.
  exists p, v. destruct S as [_ [E [ge F]]]. auto.
- destruct S as [_ [_ [_ [_ [_ [_ [_ F]]]]]]]. contradiction.
Qed.
End Ctors.

Section Sim.
Variable O : MatOps.
Variable d : nat.
Notation t := (T (sc O)).
Variable motion : M O d 1 -> list t -> M O d 1 * list t.
Notation state := (@sim_state O d).

(* k-fold motion with the draws threaded: the pair (x_k, draws left) *)
Fixpoint iter_motion (k : nat) (p : M O d 1 * list t) : M O d 1 * list t :=
  match k with
  | 0 => p
  | S k' => let q := iter_motion k' p in motion (fst q) (snd q)
  end.

Lemma iter_motion_shift k p : iter_motion (S k) p = iter_motion k (motion (fst p) (snd p)).
Proof.
induction k as [|k IH]; [reflexivity|].
simpl in *. rewrite IH. reflexivity.
Qed.

Lemma sim_columns_length n : forall x zs, length (sim_columns motion n x zs) = n.
Proof.
induction n as [|n IH]; intros x zs; simpl; [reflexivity|].
destruct (motion x zs) as [x' zs']. simpl. now rewrite IH.
Qed.

Lemma sim_columns_nth n : forall x zs k, k < n ->
  nth_error (sim_columns motion n x zs) k = Some (fst (iter_motion (S k) (x, zs))).
Proof.
induction n as [|n IH]; intros x zs k lt; [lia|].
rewrite iter_motion_shift. simpl sim_columns. simpl fst. simpl snd.
destruct (motion x zs) as [x' zs'] eqn:E.
destruct k as [|k]; simpl; [reflexivity|].
rewrite IH by lia. reflexivity.
Qed.

(* well-formed states: the cursor never runs past the stored columns *)
Definition sim_wf (st : state) : Prop :=
  sim_time st = length (sim_target st) /\ sim_cur st <= sim_time st.

Lemma sim_ctor_spec x0 len zs :
  match sim_ctor motion x0 len zs with
  | inl ErrSimEmpty => len = 0
  | inr st =>
      0 < len /\ sim_wf st /\ sim_time st = len /\ sim_cur st = 0 /\ sim_data st = None /\
      (forall k, k < len -> nth_error (sim_target st) k = Some (fst (iter_motion k (x0, zs))))
  end.
Proof.
destruct len as [|n]; simpl; [reflexivity|].
repeat split; simpl; try lia.
- now rewrite sim_columns_length.
- intros [|k] lt; simpl; [reflexivity|]. rewrite sim_columns_nth by lia. reflexivity.
Qed.

Lemma sim_step_wf st op : sim_wf st -> sim_wf (fst (sim_step st op)).
Proof.
intros [E L]; destruct op; simpl; unfold sim_wf.
- destruct (Nat.leb_spec (sim_time st) (sim_cur st)); simpl; split; auto; lia.
- simpl; split; auto; lia.
- split; auto.
Qed.

(* one call, completely *)
Lemma sim_buffer_spec st : sim_wf st ->
  (sim_cur st < sim_time st /\
   exists x, nth_error (sim_target st) (sim_cur st) = Some x /\
             sim_step st SimBuffer = (mkSim (sim_target st) (sim_time st) (S (sim_cur st)) (Some x), true))
  \/ (sim_cur st = sim_time st /\ sim_step st SimBuffer = (st, false)).
Proof.
intros [E L]. simpl. destruct (Nat.leb_spec (sim_time st) (sim_cur st)) as [ge|lt].
- right. split; [lia|reflexivity].
- left. split; [exact lt|].
  destruct (nth_error (sim_target st) (sim_cur st)) as [x|] eqn:N.
  + exists x. split; reflexivity.
  + apply nth_error_None in N. lia.
Qed.

(* number of bufferData() calls since the most recent reset; r = history, most recent first *)
Fixpoint since_reset_rev (r : list sim_op) : nat :=
  match r with
  | [] => 0
  | SimReset :: _ => 0
  | SimBuffer :: r' => S (since_reset_rev r')
  | SimOther :: r' => since_reset_rev r'
  end.
Definition since_reset (ops : list sim_op) : nat := since_reset_rev (rev ops).

Lemma sim_run_app (st : state) (l1 l2 : list sim_op) :
  sim_run st (l1 ++ l2) =
  (fst (sim_run st l1) ++ fst (sim_run (snd (sim_run st l1)) l2), snd (sim_run (snd (sim_run st l1)) l2)).
Proof.
revert st; induction l1 as [|op l1 IH]; intros st; simpl.
- now destruct (sim_run st l2).
- destruct (sim_step st op) as [st' b]. rewrite IH.
  destruct (sim_run st' l1) as [o1 s1]. simpl.
  destruct (sim_run s1 l2) as [o2 s2]. reflexivity.
Qed.

Lemma sim_run_snoc (st : state) l op :
  snd (sim_run st (l ++ [op])) = fst (sim_step (snd (sim_run st l)) op).
Proof.
rewrite sim_run_app. simpl. destruct (sim_step (snd (sim_run st l)) op). reflexivity.
Qed.

(* after any call sequence: the stored trajectory is untouched and the cursor is the
   number of calls since the last reset, capped at the length *)
Lemma sim_run_state (st : state) : sim_wf st -> sim_cur st = 0 -> forall ops,
  let st1 := snd (sim_run st ops) in
  sim_wf st1 /\ sim_target st1 = sim_target st /\ sim_time st1 = sim_time st /\
  sim_cur st1 = Nat.min (since_reset ops) (sim_time st).
Proof.
intros W C0 ops. induction ops as [|op ops IH] using rev_ind.
- simpl. unfold since_reset; simpl. repeat split; try apply W; auto.
- cbv zeta in *. rewrite sim_run_snoc. destruct IH as [W1 [T1 [L1 C1]]].
  set (s := snd (sim_run st ops)) in *.
  split; [now apply sim_step_wf|].
  unfold since_reset in *. rewrite rev_app_distr. simpl rev. simpl app.
  destruct op; cbn [since_reset_rev]; unfold sim_step.
  + destruct (Nat.leb_spec (sim_time s) (sim_cur s)); cbn [fst sim_target sim_time sim_cur]; repeat split; auto; lia.
  + cbn [fst sim_target sim_time sim_cur]; repeat split; auto; lia.
  + cbn [fst]; repeat split; auto.
Qed.

(* bufferData() issued after an arbitrary history [pre] on a freshly constructed model *)
Lemma sim_serving x0 len zs st pre :
  sim_ctor motion x0 len zs = inr st ->
  let st1 := snd (sim_run st pre) in
  let c := since_reset pre in
  (c < len ->
     sim_step st1 SimBuffer =
       (mkSim (sim_target st) len (S c) (Some (fst (iter_motion c (x0, zs)))), true))
  /\ (len <= c -> sim_step st1 SimBuffer = (st1, false)).
Proof.
intros E. pose proof (sim_ctor_spec x0 len zs) as S. rewrite E in S.
destruct S as [lp [W [TL [C0 [D0 N]]]]].
destruct (sim_run_state st W C0 pre) as [W1 [T1 [L1 C1]]].
cbv zeta. set (st1 := snd (sim_run st pre)) in *. set (c := since_reset pre) in *.
split; intros H.
- destruct (sim_buffer_spec st1 W1) as [[lt [x [Nx Ex]]]|[eq _]]; [|lia].
  rewrite Ex. rewrite T1, L1, TL in *. rewrite C1 in *.
  replace (Nat.min c len) with c in * by lia.
  rewrite N in Nx by lia. inversion Nx. reflexivity.
- destruct (sim_buffer_spec st1 W1) as [[lt _]|[_ Ex]]; [lia|exact Ex].
Qed.

Lemma sim_reset_spec (st : state) :
  sim_step st SimReset = (mkSim (sim_target st) (sim_time st) 0 (sim_data st), true).
Proof. reflexivity. Qed.
Lemma sim_other_spec (st : state) : sim_step st SimOther = (st, false).
Proof. reflexivity. Qed.

(* output of the call that follows the history [pre] in a longer run *)
Lemma sim_run_nth (st : state) pre op post dflt :
  nth (length pre) (fst (sim_run st (pre ++ op :: post))) dflt =
  (snd (sim_step (snd (sim_run st pre)) op), sim_data (fst (sim_step (snd (sim_run st pre)) op))).
Proof.
rewrite sim_run_app. simpl fst.
assert (L : length (fst (sim_run st pre)) = length pre).
{ clear. revert st. induction pre as [|o pre IH]; intros st; simpl; [reflexivity|].
  destruct (sim_step st o) as [s' b]. specialize (IH s'). destruct (sim_run s' pre). simpl in *. now rewrite IH. }
rewrite app_nth2 by lia. rewrite L, Nat.sub_diag. simpl.
destruct (sim_step (snd (sim_run st pre)) op) as [s' b].
destruct (sim_run s' post). reflexivity.
Qed.

(* ---------------------------------------------------------------- sensor *)
Variable m : nat.
Notation sstate := (@sens_state O d m).

Definition proj_op (op : sens_op) : sim_op :=
  match op with SensFreeze => SimBuffer | SensReset => SimReset | SensOther => SimOther end.

(* the simulated state model inside the sensor sees exactly the projected calls *)
Lemma sensor_step_sim H LR (st : sstate) op :
  sens_sim (fst (sensor_step H LR st op)) = fst (sim_step (sens_sim st) (proj_op op)).
Proof.
destruct op; simpl; unfold sensor_freeze; simpl.
- destruct (Nat.leb_spec (sim_time (sens_sim st)) (sim_cur (sens_sim st))); simpl; [reflexivity|].
  destruct (nth_error (sim_target (sens_sim st)) (sim_cur (sens_sim st))); simpl; reflexivity.
- reflexivity.
- reflexivity.
Qed.

Lemma sensor_run_sim H LR ops : forall (st : sstate),
  sens_sim (snd (sensor_run H LR st ops)) = snd (sim_run (sens_sim st) (map proj_op ops)).
Proof.
induction ops as [|op ops IH]; intros st; simpl; [reflexivity|].
pose proof (sensor_step_sim H LR st op) as E.
destruct (sensor_step H LR st op) as [st' b]. simpl in E.
destruct (sim_step (sens_sim st) (proj_op op)) as [s' b'] eqn:E2. simpl in E. subst s'.
specialize (IH st').
destruct (sensor_run H LR st' ops) as [o1 sf]. simpl in *.
destruct (sim_run (sens_sim st') (map proj_op ops)) as [o2 sf2]. simpl in *. exact IH.
Qed.

(* one freeze, completely: it forwards the end of the trajectory, otherwise the
   measurement is H x_k + L_R z with z the next m draws of the sensor's generator *)
Lemma sensor_freeze_spec H LR (st : sstate) : sim_wf (sens_sim st) ->
  let s := sens_sim st in
  (sim_cur s < sim_time s /\
   exists x, nth_error (sim_target s) (sim_cur s) = Some x /\
     sensor_freeze H LR st =
       (mkSens (mkSim (sim_target s) (sim_time s) (S (sim_cur s)) (Some x))
               (skipn (m * 1) (sens_zs st))
               (Some (madd (mmul H x) (mmul LR (fill_colmajor m 1 (sens_zs st))))), true))
  \/ (sim_cur s = sim_time s /\ sensor_freeze H LR st = (mkSens s (sens_zs st) (sens_meas st), false)).
Proof.
intros W. cbv zeta. unfold sensor_freeze.
destruct (sim_buffer_spec (sens_sim st) W) as [[lt [x [Nx Ex]]]|[eq Ex]]; rewrite Ex.
- left. split; [exact lt|]. exists x. split; [exact Nx|]. reflexivity.
- right. split; [exact eq|]. reflexivity.
Qed.

(* a freeze issued after an arbitrary history on a sensor built over a fresh trajectory *)
Lemma sensor_serving H LR x0 len zs sim0 zs2 pre :
  sim_ctor motion x0 len zs = inr sim0 ->
  let st1 := snd (sensor_run H LR (mkSens sim0 zs2 None) pre) in
  let c := since_reset (map proj_op pre) in
  (c < len ->
     let x := fst (iter_motion c (x0, zs)) in
     sensor_freeze H LR st1 =
       (mkSens (mkSim (sim_target sim0) len (S c) (Some x)) (skipn (m * 1) (sens_zs st1))
               (Some (madd (mmul H x) (mmul LR (fill_colmajor m 1 (sens_zs st1))))), true))
  /\ (len <= c -> sensor_freeze H LR st1 = (mkSens (sens_sim st1) (sens_zs st1) (sens_meas st1), false)).
Proof.
intros E. cbv zeta.
set (st1 := snd (sensor_run H LR (mkSens sim0 zs2 None) pre)).
assert (S1 : sens_sim st1 = snd (sim_run sim0 (map proj_op pre))) by (unfold st1; now rewrite sensor_run_sim).
destruct (sim_serving x0 len zs sim0 (map proj_op pre) E) as [A B]. rewrite <- S1 in A, B.
pose proof (sim_ctor_spec x0 len zs) as SP. rewrite E in SP. destruct SP as [lp [W [TL [C0 _]]]].
assert (W1 : sim_wf (sens_sim st1)) by (rewrite S1; apply (sim_run_state sim0 W C0)).
split; intros Hc.
- specialize (A Hc). unfold sensor_freeze. rewrite A. reflexivity.
- specialize (B Hc). unfold sensor_freeze. rewrite B. reflexivity.
Qed.

(* a failing freeze leaves the draws and the stored measurement alone; a successful one
   consumes exactly m draws *)
Lemma sensor_freeze_draws H LR (st : sstate) :
  let '(st', ok) := sensor_freeze H LR st in
  if ok then sens_zs st' = skipn (m * 1) (sens_zs st)
  else sens_zs st' = sens_zs st /\ sens_meas st' = sens_meas st.
Proof.
unfold sensor_freeze. destruct (sim_step (sens_sim st) SimBuffer) as [s' ok]. destruct ok.
- destruct (sim_data s'); simpl; auto.
- simpl; auto.
Qed.

(* the sensor's generator is advanced by exactly m draws per successful freeze and by nothing
   else: after any history the draws left are the initial ones minus m per success *)
Fixpoint freeze_successes (ops : list sens_op) (outs : list (bool * option (M O m 1))) : nat :=
  match ops, outs with
  | op :: ops', (b, _) :: outs' =>
      (match op with SensFreeze => if b then 1 else 0 | _ => 0 end) + freeze_successes ops' outs'
  | _, _ => 0
  end.

Lemma skipn_skipn_add (A : Type) a b (l : list A) : skipn a (skipn b l) = skipn (b + a) l.
Proof.
revert l; induction b as [|b IH]; intros [|x l]; simpl; auto. now rewrite skipn_nil.
Qed.

Lemma sensor_run_draws H LR ops : forall (st : sstate),
  sens_zs (snd (sensor_run H LR st ops)) =
  skipn (m * freeze_successes ops (fst (sensor_run H LR st ops))) (sens_zs st).
Proof.
induction ops as [|op ops IH]; intros st; simpl.
- now rewrite Nat.mul_0_r.
- assert (D : let '(st', b) := sensor_step H LR st op in
              sens_zs st' = skipn (m * (match op with SensFreeze => if b then 1 else 0 | _ => 0 end)) (sens_zs st)).
  { destruct op; simpl.
    - pose proof (sensor_freeze_draws H LR st) as F. destruct (sensor_freeze H LR st) as [st' ok].
      destruct ok; [exact F|]. destruct F as [F _]. now rewrite Nat.mul_0_r.
    - now rewrite Nat.mul_0_r.
    - now rewrite Nat.mul_0_r. }
  destruct (sensor_step H LR st op) as [st' b]. specialize (IH st').
  destruct (sensor_run H LR st' ops) as [outs stf]. simpl in *.
  rewrite IH, D, skipn_skipn_add. f_equal. lia.
Qed.
End Sim.

Arguments sim_wf {O d} st.
Arguments iter_motion {O d} motion k p.
Arguments freeze_successes {O m} ops outs.

(* ---- the grid initialiser on particle sets with any number of state rows ---- *)
Section GridRows.
Variable O : MatOps.
Notation t := (T (sc O)).

(* on a 4-row set the two checks reduce to the particle count: the model the grid theorems are about *)
Lemma grid_rows_four (xinf xsup yinf ysup : t) nx ny np (st : M O 4 np) (w : M O np 1) :
  grid_initialize_rows xinf xsup yinf ysup nx ny st w = grid_initialize xinf xsup yinf ysup nx ny st w.
Proof. unfold grid_initialize_rows, grid_initialize. destruct (np =? nx * ny); reflexivity. Qed.

(* refusal: exactly a wrong particle count or a state that is not (x, vx, y, vy) *)
Lemma grid_rows_refusal (xinf xsup yinf ysup : t) nx ny r np (st : M O r np) (w : M O np 1) :
  grid_initialize_rows xinf xsup yinf ysup nx ny st w = None <-> (np <> nx * ny \/ r <> 4).
Proof.
unfold grid_initialize_rows.
destruct (Nat.eqb_spec np (nx * ny)); simpl.
- destruct (Nat.eqb_spec r 4); simpl; split; try discriminate; try tauto.
- split; auto.
Qed.
End GridRows.
