(* C20_Model.v — model of bfl::any::any (any.h; bfl::Data is an alias, Data.h).

   World C: nat / Z / bool / list / option only.

   A heap of holders  loc -> (type tag, value), an allocation counter, an
   allocation log and a destruction log; a pool of container objects
   cid -> slot, where a slot is Dead (no `any` object is constructed at that
   index) or Live c, c : option loc being the member `placeholder* content`
   (None = nullptr).  Dereferencing or deleting a location that is not in the
   heap does not "work by accident": it is recorded as a fault
   (UseAfterFree / DoubleFree), and queries answer RFault.  The theorems of
   C20_Proofs show that no operation sequence ever reaches these branches.

   Every member function of any.h is transcribed separately, in the order
   of the header; temporaries of type `any` are local `option loc`s whose
   destructor (`delete content`) is called explicitly where C++ calls it.
   No proofs in this file. *)
Require Import ZArith List Bool Arith.
Import ListNotations.

Definition loc := nat.
Definition cid := nat.
Definition tag := nat.        (* index of a held C++ type; typeid(void) is `None : option tag` *)
Definition value := Z.        (* an integer code of a value *)
(* the held object: Some v = it has the value v; None = it has been the source of a move
   (T x = any_cast<T&&>(std::move(a)) and T's move constructor leaves its source in a
   valid but unspecified "moved-from" state) *)
Definition hval := option value.
Definition cell := (tag * hval)%type.        (* holder<ValueType>{held} *)
Definition heap := list (loc * cell).

Fixpoint hget (l : loc) (h : heap) : option cell :=
  match h with
  | [] => None
  | (k, c) :: r => if Nat.eqb k l then Some c else hget l r
  end.

Fixpoint hrem (l : loc) (h : heap) : heap :=
  match h with
  | [] => []
  | (k, c) :: r => if Nat.eqb k l then hrem l r else (k, c) :: hrem l r
  end.

Fixpoint hset (l : loc) (c : cell) (h : heap) : heap :=
  match h with
  | [] => []
  | (k, c0) :: r => if Nat.eqb k l then (k, c) :: r else (k, c0) :: hset l c r
  end.

Inductive slot := Dead | Live (content : option loc).
Inductive fault := DoubleFree (l : loc) | UseAfterFree (l : loc).
(* a construction of an object of a held type: (type, true) by its move constructor,
   (type, false) by its copy constructor *)
Definition ctor_event := (tag * bool)%type.

Record state := mkSt {
  st_heap : heap;
  st_next : loc;              (* allocation counter *)
  st_alog : list loc;         (* every location ever returned by `new holder` *)
  st_dlog : list loc;         (* every location ever passed to `delete` *)
  st_pool : list slot;
  st_faults : list fault;
  st_ctors : list ctor_event  (* every copy / move construction of a held-type object, latest first *)
}.

Definition init (n : nat) : state := mkSt [] 0 [] [] (repeat Dead n) [] [].

Fixpoint upd {A : Type} (d : nat) (v : A) (l : list A) : list A :=
  match l, d with
  | [], _ => []
  | _ :: r, O => v :: r
  | x :: r, S d' => x :: upd d' v r
  end.

Definition pget (d : cid) (st : state) : slot := nth d (st_pool st) Dead.
Definition pset (d : cid) (s : slot) (st : state) : state :=
  mkSt (st_heap st) (st_next st) (st_alog st) (st_dlog st) (upd d s (st_pool st)) (st_faults st) (st_ctors st).
Definition add_fault (f : fault) (st : state) : state :=
  mkSt (st_heap st) (st_next st) (st_alog st) (st_dlog st) (st_pool st) (f :: st_faults st) (st_ctors st).
Definition note_ctor (e : ctor_event) (st : state) : state :=
  mkSt (st_heap st) (st_next st) (st_alog st) (st_dlog st) (st_pool st) (st_faults st) (e :: st_ctors st).

Definition is_live (d : cid) (st : state) : bool :=
  match pget d st with Live _ => true | Dead => false end.
(* a pool index at which a container can be constructed *)
Definition is_free (d : cid) (st : state) : bool :=
  Nat.ltb d (length (st_pool st)) && negb (is_live d st).

(* the member `content` of container d (nullptr for no object) *)
Definition content (d : cid) (st : state) : option loc :=
  match pget d st with Live c => c | Dead => None end.
Definition set_content (d : cid) (c : option loc) (st : state) : state := pset d (Live c) st.

(* ---- primitives: new holder<T>(v), placeholder::clone, delete content *)

(* new holder<ValueType>(value): holder(const ValueType&) copy-constructs `held` (mv = false),
   holder(ValueType&&) move-constructs it (mv = true)                   (any.h:272, 277) *)
Definition alloc (mv : bool) (c : cell) (st : state) : loc * state :=
  let l := st_next st in
  (l, mkSt ((l, c) :: st_heap st) (S l) (l :: st_alog st) (st_dlog st) (st_pool st) (st_faults st)
           ((fst c, mv) :: st_ctors st)).

(* other.content ? other.content->clone() : nullptr      (any.h:99, 288-291) *)
Definition clone (p : option loc) (st : state) : option loc * state :=
  match p with
  | None => (None, st)
  | Some l =>
      match hget l (st_heap st) with
      | Some c => let (l', st') := alloc false c st in (Some l', st')   (* new holder(held): a copy *)
      | None => (None, add_fault (UseAfterFree l) st)
      end
  end.

(* delete content;   (any.h:205)   deleting nullptr is a no-op *)
Definition delete_content (p : option loc) (st : state) : state :=
  match p with
  | None => st
  | Some l =>
      match hget l (st_heap st) with
      | Some _ => mkSt (hrem l (st_heap st)) (st_next st) (st_alog st) (l :: st_dlog st) (st_pool st) (st_faults st) (st_ctors st)
      | None => add_fault (DoubleFree l) st
      end
  end.

(* ---- member functions, in header order.  Constructors take the index of a
        free pool slot; the other members the index of a live container. *)

(* any() noexcept : content(nullptr)                                  any.h:85 *)
Definition m_default (d : cid) (st : state) : state := pset d (Live None) st.

(* any(const any& other) : content(other.content ? clone : nullptr)   any.h:98 *)
Definition m_copy_ctor (d s : cid) (st : state) : state :=
  let (c, st1) := clone (content s st) st in
  pset d (Live c) st1.

(* any(any&& other) noexcept : content(other.content) { other.content = nullptr; }   any.h:110 *)
Definition m_move_ctor (d s : cid) (st : state) : state :=
  let st1 := pset d (Live (content s st)) st in
  set_content s None st1.

(* any(const ValueType&) / any(ValueType&&) : content(new holder<...>(value))   any.h:125,138 *)
Definition m_value_ctor (mv : bool) (d : cid) (t : tag) (v : value) (st : state) : state :=
  let (l, st1) := alloc mv (t, Some v) st in
  pset d (Live (Some l)) st1.

(* any& swap(any& rhs) noexcept { std::swap(content, rhs.content); }  any.h:223 *)
Definition m_swap (a b : cid) (st : state) : state :=
  let ca := content a st in
  let cb := content b st in
  set_content b ca (set_content a cb st).

(* operator=(const any& rhs) { any(rhs).swap( *this); return *this; }  any.h:152
   the temporary any(rhs) receives this->content in the swap and is destroyed
   at the end of the full expression *)
Definition m_copy_assign (d s : cid) (st : state) : state :=
  let (tmp, st1) := clone (content s st) st in      (* any(rhs) *)
  let old := content d st1 in
  let st2 := set_content d tmp st1 in               (* .swap( *this): this takes tmp's pointer, the temporary the old one *)
  delete_content old st2.                           (* ~any() of the temporary *)

(* operator=(any&& rhs) noexcept
   { if (this == &rhs) return *this;  rhs.swap( *this);  any().swap(rhs);  return *this; }   any.h:168 *)
Definition m_move_assign (d s : cid) (st : state) : state :=
  if Nat.eqb d s then st else                       (* this == &rhs *)
  let st1 := m_swap s d st in                       (* rhs.swap( *this) *)
  let tmp := content s st1 in                       (* any().swap(rhs): the empty temporary takes rhs.content, *)
  let st2 := set_content s None st1 in              (*                  rhs takes nullptr                      *)
  delete_content tmp st2.                           (* ~any() of the temporary *)

(* the same member WITHOUT the self test (the body boost::any had for years):
   kept only to show, in C20_Proofs, what the test is there for *)
Definition m_move_assign_nocheck (d s : cid) (st : state) : state :=
  let st1 := m_swap s d st in
  let tmp := content s st1 in
  let st2 := set_content s None st1 in
  delete_content tmp st2.

(* operator=(ValueType&& rhs) { any(static_cast<ValueType&&>(rhs)).swap( *this); return *this; }   any.h:192 *)
Definition m_value_assign (mv : bool) (d : cid) (t : tag) (v : value) (st : state) : state :=
  let (l, st1) := alloc mv (t, Some v) st in        (* any(rhs) *)
  let old := content d st1 in
  let st2 := set_content d (Some l) st1 in          (* .swap( *this) *)
  delete_content old st2.                           (* ~any() of the temporary *)

(* ~any() noexcept { delete content; }                                any.h:203
   afterwards there is no object at index d *)
Definition m_destroy (d : cid) (st : state) : state :=
  pset d Dead (delete_content (content d st) st).

(* void reset() noexcept { any().swap( *this); }                       any.h:212 *)
Definition m_reset (d : cid) (st : state) : state :=
  let old := content d st in
  let st1 := set_content d None st in               (* any().swap( *this) *)
  delete_content old st1.                           (* ~any() of the temporary *)

(* bool has_value() const noexcept { return content; }                any.h:235 *)
Definition m_has_value (d : cid) (st : state) : bool :=
  match content d st with Some _ => true | None => false end.

(* const std::type_info& type() const noexcept
   { return content ? content->type() : typeid(void); }               any.h:246 *)
Inductive tinfo := TVoid | TTag (t : tag) | TBad (l : loc).   (* TBad: content points to a freed holder *)
Definition m_type (d : cid) (st : state) : tinfo :=
  match content d st with
  | None => TVoid
  | Some l => match hget l (st_heap st) with Some (t, _) => TTag t | None => TBad l end
  end.

(* template<T> T* any_cast(any* operand) noexcept
   { return operand && operand->type() == typeid(T) ? addressof(static_cast<holder<T>*>(operand->content)->held) : nullptr; }
   any.h:352.  A Dead pool index stands for operand == nullptr. *)
Inductive pres := PNull | PTo (l : loc) | PBad (l : loc).
Definition any_cast_ptr (d : cid) (t : tag) (st : state) : pres :=
  match pget d st with
  | Dead => PNull                                   (* operand == nullptr *)
  | Live c =>
      match m_type d st with
      | TBad l => PBad l
      | TVoid => PNull
      | TTag t' => if Nat.eqb t' t then match c with Some l => PTo l | None => PNull end else PNull
      end
  end.

(* const T* any_cast(const any* operand) { return any_cast<T>(const_cast<any*>(operand)); }   any.h:367 *)
Definition any_cast_cptr (d : cid) (t : tag) (st : state) : pres := any_cast_ptr d t st.

(* T any_cast(any& operand) { nonref* result = any_cast<nonref>(addressof(operand));
                              if (!result) throw bad_any_cast(); return static_cast<ref_type>( *result); }   any.h:382
   None = throw *)
Inductive vres := VThrow | VAt (l : loc) | VBad (l : loc).
Definition any_cast_ref (d : cid) (t : tag) (st : state) : vres :=
  match any_cast_ptr d t st with
  | PNull => VThrow
  | PTo l => VAt l
  | PBad l => VBad l
  end.
(* T any_cast(const any& operand) { return any_cast<const nonref&>(const_cast<any&>(operand)); }   any.h:405 *)
Definition any_cast_cref (d : cid) (t : tag) (st : state) : vres := any_cast_ref d t st.
(* T any_cast(any&& operand) { return any_cast<T>(operand); }         any.h:422
   with T a value type it returns a copy; with T = U&& (the form the library uses:
   any_cast<MatrixXd&&>(std::move(data))) it returns static_cast<U&&>( *result), an rvalue
   reference to the held object, from which the caller then moves *)
Definition any_cast_rval (d : cid) (t : tag) (st : state) : vres := any_cast_ref d t st.
(* any_cast<const T>(any* ): typeid ignores cv-qualifiers and the downcast is to
   holder<remove_cv<const T>>                                         any.h:354 *)
Definition any_cast_ptr_cq (d : cid) (t : tag) (st : state) : pres := any_cast_ptr d t st.
(* any_cast<const T&>(any&): the lvalue form with nonref = const T    any.h:382-392 *)
Definition any_cast_ref_cq (d : cid) (t : tag) (st : state) : vres :=
  match any_cast_ptr_cq d t st with
  | PNull => VThrow
  | PTo l => VAt l
  | PBad l => VBad l
  end.

(* ---- the executable step function over operation words *)

Inductive op :=
| ODefault (d : cid)
| OValue (mv : bool) (d : cid) (t : tag) (v : value)     (* mv: from an rvalue (holder(T&&)) *)
| OCopyCtor (d s : cid)
| OMoveCtor (d s : cid)
| OCopyAssign (d s : cid)
| OMoveAssign (d s : cid)
| OValueAssign (mv : bool) (d : cid) (t : tag) (v : value)
| OReset (d : cid)
| OSwap (free : bool) (d s : cid)                        (* free: the namespace-level swap(lhs, rhs) *)
| ODestroy (d : cid)
| OHasValue (d : cid)
| OType (d : cid)
| OCastPtr (d : cid) (t : tag)       (* any_cast<T>(any* )          *)
| OCastCPtr (d : cid) (t : tag)      (* any_cast<T>(const any* )   *)
| OCastVal (d : cid) (t : tag)       (* any_cast<T>(any&)          *)
| OCastRef (d : cid) (t : tag)       (* any_cast<T&>(any&), read   *)
| OCastCVal (d : cid) (t : tag)      (* any_cast<T>(const any&)    *)
| OCastRVal (d : cid) (t : tag)      (* any_cast<T>(any&&)         *)
| OSetPtr (d : cid) (t : tag) (v : value)   (* if (T* p = any_cast<T>(&a)) *p = v; *)
| OSetRef (d : cid) (t : tag) (v : value)   (* any_cast<T&>(a) = v;                *)
| OCastPtrCq (d : cid) (t : tag)     (* any_cast<const T>(any* )   *)
| OCastRefCq (d : cid) (t : tag)     (* const T& r = any_cast<const T&>(a), a non-const *)
(* the form the library uses: T x = any_cast<T&&>(std::move(a))  (asg = false)
   or  x = any_cast<T&&>(std::move(a)) for an existing x  (asg = true).
   mvt: T's move operations leave their source moved-from (std::string, MatrixXd, ...);
   false: moving a T is copying it (int, double, a class without move operations) *)
| OCastXVal (asg : bool) (d : cid) (t : tag) (mvt : bool)
(* the same members while the copy constructor of type tx throws *)
| OValueThrow (d : cid) (t : tag) (v : value)           (* any(const T&), T's copy constructor throws *)
| OValueAssignThrow (d : cid) (t : tag) (v : value)     (* a = (const T&), T's copy constructor throws *)
| OCopyCtorArmed (d s : cid) (tx : tag)                 (* any(const any&) *)
| OCopyAssignArmed (d s : cid) (tx : tag).              (* operator=(const any&) *)

Inductive result :=
| RUnit
| RSkip                        (* the word asks for a constructor on a live index / a member of no object *)
| RBool (b : bool)
| RType (t : option tag)       (* None = typeid(void) *)
| RPtr (v : option hval)       (* None = nullptr; Some x = pointer to a held object that reads x *)
| RVal (v : hval)
| RThrow                       (* bad_any_cast *)
| RExn                         (* the exception thrown by a held type's copy constructor leaves the expression *)
| RFault (f : fault).

Definition read_ptr (p : pres) (st : state) : result :=
  match p with
  | PNull => RPtr None
  | PTo l => match hget l (st_heap st) with Some (_, v) => RPtr (Some v) | None => RFault (UseAfterFree l) end
  | PBad l => RFault (UseAfterFree l)
  end.

Definition read_val (r : vres) (st : state) : result :=
  match r with
  | VThrow => RThrow
  | VAt l => match hget l (st_heap st) with Some (_, v) => RVal v | None => RFault (UseAfterFree l) end
  | VBad l => RFault (UseAfterFree l)
  end.

Definition write_at (l : loc) (t : tag) (x : hval) (st : state) : state :=
  mkSt (hset l (t, x) (st_heap st)) (st_next st) (st_alog st) (st_dlog st) (st_pool st) (st_faults st) (st_ctors st).

(* value forms that return T by value copy-construct the result from the held object *)
Definition read_val_copy (t : tag) (r : vres) (st : state) : state * result :=
  match read_val r st with
  | RVal x => (note_ctor (t, false) st, RVal x)
  | res => (st, res)
  end.

(* does container s hold an object of type tx? (then clone copy-constructs a tx) *)
Definition holds_type (s : cid) (tx : tag) (st : state) : bool :=
  match m_type s st with TTag t => Nat.eqb t tx | _ => false end.

Definition step (o : op) (st : state) : state * result :=
  match o with
  | ODefault d => if is_free d st then (m_default d st, RUnit) else (st, RSkip)
  | OValue mv d t v => if is_free d st then (m_value_ctor mv d t v st, RUnit) else (st, RSkip)
  | OCopyCtor d s => if is_free d st && is_live s st then (m_copy_ctor d s st, RUnit) else (st, RSkip)
  | OMoveCtor d s => if is_free d st && is_live s st then (m_move_ctor d s st, RUnit) else (st, RSkip)
  | OCopyAssign d s => if is_live d st && is_live s st then (m_copy_assign d s st, RUnit) else (st, RSkip)
  | OMoveAssign d s => if is_live d st && is_live s st then (m_move_assign d s st, RUnit) else (st, RSkip)
  | OValueAssign mv d t v => if is_live d st then (m_value_assign mv d t v st, RUnit) else (st, RSkip)
  | OReset d => if is_live d st then (m_reset d st, RUnit) else (st, RSkip)
  | OSwap _ d s => if is_live d st && is_live s st then (m_swap d s st, RUnit) else (st, RSkip)
  | ODestroy d => if is_live d st then (m_destroy d st, RUnit) else (st, RSkip)
  | OHasValue d => if is_live d st then (st, RBool (m_has_value d st)) else (st, RSkip)
  | OType d =>
      if is_live d st then
        (st, match m_type d st with TVoid => RType None | TTag t => RType (Some t) | TBad l => RFault (UseAfterFree l) end)
      else (st, RSkip)
  | OCastPtr d t => (st, read_ptr (any_cast_ptr d t st) st)
  | OCastCPtr d t => (st, read_ptr (any_cast_cptr d t st) st)
  | OCastVal d t => if is_live d st then read_val_copy t (any_cast_ref d t st) st else (st, RSkip)
  | OCastRef d t => if is_live d st then (st, read_val (any_cast_ref d t st) st) else (st, RSkip)
  | OCastCVal d t => if is_live d st then read_val_copy t (any_cast_cref d t st) st else (st, RSkip)
  | OCastRVal d t => if is_live d st then read_val_copy t (any_cast_rval d t st) st else (st, RSkip)
  | OSetPtr d t v =>
      match any_cast_ptr d t st with
      | PNull => (st, RBool false)
      | PTo l => (write_at l t (Some v) st, RBool true)
      | PBad l => (add_fault (UseAfterFree l) st, RFault (UseAfterFree l))
      end
  | OSetRef d t v =>
      if is_live d st then
        match any_cast_ref d t st with
        | VThrow => (st, RThrow)
        | VAt l => (write_at l t (Some v) st, RUnit)
        | VBad l => (add_fault (UseAfterFree l) st, RFault (UseAfterFree l))
        end
      else (st, RSkip)
  | OCastPtrCq d t => (st, read_ptr (any_cast_ptr_cq d t st) st)
  | OCastRefCq d t => if is_live d st then (st, read_val (any_cast_ref_cq d t st) st) else (st, RSkip)
  | OCastXVal asg d t mvt =>
      if is_live d st then
        match any_cast_rval d t st with                 (* T&& r = any_cast<T&&>(std::move(a)) *)
        | VThrow => (st, RThrow)
        | VAt l =>
            match hget l (st_heap st) with
            | Some (t', x) =>
                (* the caller's T(T&&) / T::operator=(T&&) takes the value; the held object stays, moved-from *)
                let st1 := write_at l t' (if mvt then None else x) st in
                (if asg then st1 else note_ctor (t, true) st1, RVal x)
            | None => (add_fault (UseAfterFree l) st, RFault (UseAfterFree l))
            end
        | VBad l => (add_fault (UseAfterFree l) st, RFault (UseAfterFree l))
        end
      else (st, RSkip)
  (* a throwing copy constructor: in each of these members `new holder<T>(value)` /
     `content->clone()` is evaluated before anything is modified (any.h:126, 99, 154, 194),
     the runtime releases the storage of the holder, and the exception leaves the member *)
  | OValueThrow d t v => if is_free d st then (st, RExn) else (st, RSkip)
  | OValueAssignThrow d t v => if is_live d st then (st, RExn) else (st, RSkip)
  | OCopyCtorArmed d s tx =>
      if is_free d st && is_live s st then
        if holds_type s tx st then (st, RExn) else (m_copy_ctor d s st, RUnit)
      else (st, RSkip)
  | OCopyAssignArmed d s tx =>
      if is_live d st && is_live s st then
        if holds_type s tx st then (st, RExn) else (m_copy_assign d s st, RUnit)
      else (st, RSkip)
  end.

Fixpoint run (w : list op) (st : state) : state * list result :=
  match w with
  | [] => (st, [])
  | o :: w' => let (st1, r) := step o st in let (st2, rs) := run w' st1 in (st2, r :: rs)
  end.

Definition exec (w : list op) (st : state) : state := fst (run w st).

(* end of the scope of the pool: every container object is destroyed *)
Definition destroy_all (st : state) : state :=
  fold_left (fun s d => fst (step (ODestroy d) s)) (seq 0 (length (st_pool st))) st.

(* ---- value-level specification: a pool of plain values.  `step` is proved
        to refine it (C20_Proofs.step_refines_spec). *)

(* VHolds t (Some v): holds a t with value v;  VHolds t None (= VMoved t): holds a t
   whose value has been moved out *)
Inductive view := VDead | VEmpty | VHolds (t : tag) (v : hval) | VDangling (l : loc).
Notation VMoved t := (VHolds t None).

Definition vslot (h : heap) (s : slot) : view :=
  match s with
  | Dead => VDead
  | Live None => VEmpty
  | Live (Some l) => match hget l h with Some (t, v) => VHolds t v | None => VDangling l end
  end.

Definition view_of (d : cid) (st : state) : view := vslot (st_heap st) (pget d st).
Definition views (st : state) : list view := map (vslot (st_heap st)) (st_pool st).

Definition vlive (x : view) : bool := match x with VDead => false | _ => true end.
Definition vget (d : cid) (vs : list view) : view := nth d vs VDead.
Definition vfree (d : cid) (vs : list view) : bool := Nat.ltb d (length vs) && negb (vlive (vget d vs)).

Definition spec_cast_ptr (x : view) (t : tag) : result :=
  match x with
  | VHolds t' v => if Nat.eqb t' t then RPtr (Some v) else RPtr None
  | VDangling l => RFault (UseAfterFree l)
  | _ => RPtr None
  end.
Definition spec_cast_val (x : view) (t : tag) : result :=
  match x with
  | VHolds t' v => if Nat.eqb t' t then RVal v else RThrow
  | VDangling l => RFault (UseAfterFree l)
  | _ => RThrow
  end.
(* the value after "assign v through a cast to type t" *)
Definition spec_set (x : view) (t : tag) (v : hval) : view :=
  match x with
  | VHolds t' _ => if Nat.eqb t' t then VHolds t v else x
  | _ => x
  end.
Definition spec_holds (x : view) (t : tag) : bool :=
  match x with VHolds t' _ => Nat.eqb t' t | _ => false end.

Definition spec_step (o : op) (vs : list view) : list view * result :=
  match o with
  | ODefault d => if vfree d vs then (upd d VEmpty vs, RUnit) else (vs, RSkip)
  | OValue _ d t v => if vfree d vs then (upd d (VHolds t (Some v)) vs, RUnit) else (vs, RSkip)
  | OCopyCtor d s => if vfree d vs && vlive (vget s vs) then (upd d (vget s vs) vs, RUnit) else (vs, RSkip)
  | OMoveCtor d s => if vfree d vs && vlive (vget s vs) then (upd s VEmpty (upd d (vget s vs) vs), RUnit) else (vs, RSkip)
  | OCopyAssign d s => if vlive (vget d vs) && vlive (vget s vs) then (upd d (vget s vs) vs, RUnit) else (vs, RSkip)
  | OMoveAssign d s =>
      if vlive (vget d vs) && vlive (vget s vs) then
        (if Nat.eqb d s then vs else upd s VEmpty (upd d (vget s vs) vs), RUnit)
      else (vs, RSkip)
  | OValueAssign _ d t v => if vlive (vget d vs) then (upd d (VHolds t (Some v)) vs, RUnit) else (vs, RSkip)
  | OReset d => if vlive (vget d vs) then (upd d VEmpty vs, RUnit) else (vs, RSkip)
  | OSwap _ d s =>
      if vlive (vget d vs) && vlive (vget s vs) then (upd s (vget d vs) (upd d (vget s vs) vs), RUnit) else (vs, RSkip)
  | ODestroy d => if vlive (vget d vs) then (upd d VDead vs, RUnit) else (vs, RSkip)
  | OHasValue d =>
      if vlive (vget d vs) then (vs, RBool (match vget d vs with VEmpty => false | _ => true end)) else (vs, RSkip)
  | OType d =>
      if vlive (vget d vs) then
        (vs, match vget d vs with VHolds t _ => RType (Some t) | VDangling l => RFault (UseAfterFree l) | _ => RType None end)
      else (vs, RSkip)
  | OCastPtr d t | OCastCPtr d t | OCastPtrCq d t => (vs, spec_cast_ptr (vget d vs) t)
  | OCastVal d t | OCastRef d t | OCastCVal d t | OCastRVal d t | OCastRefCq d t =>
      if vlive (vget d vs) then (vs, spec_cast_val (vget d vs) t) else (vs, RSkip)
  | OSetPtr d t v =>
      match vget d vs with
      | VDangling l => (vs, RFault (UseAfterFree l))
      | x => (upd d (spec_set x t (Some v)) vs, RBool (spec_holds x t))
      end
  | OSetRef d t v =>
      if vlive (vget d vs) then
        match vget d vs with
        | VDangling l => (vs, RFault (UseAfterFree l))
        | x => (upd d (spec_set x t (Some v)) vs, if spec_holds x t then RUnit else RThrow)
        end
      else (vs, RSkip)
  | OCastXVal _ d t mvt =>
      (* the container keeps a value of the same type; the value itself goes to the caller *)
      if vlive (vget d vs) then
        match vget d vs with
        | VHolds t' x => if Nat.eqb t' t then (upd d (VHolds t' (if mvt then None else x)) vs, RVal x) else (vs, RThrow)
        | VDangling l => (vs, RFault (UseAfterFree l))
        | _ => (vs, RThrow)
        end
      else (vs, RSkip)
  (* strong guarantee: when the copy constructor throws, nothing changes *)
  | OValueThrow d t v => if vfree d vs then (vs, RExn) else (vs, RSkip)
  | OValueAssignThrow d t v => if vlive (vget d vs) then (vs, RExn) else (vs, RSkip)
  | OCopyCtorArmed d s tx =>
      if vfree d vs && vlive (vget s vs) then
        if spec_holds (vget s vs) tx then (vs, RExn) else (upd d (vget s vs) vs, RUnit)
      else (vs, RSkip)
  | OCopyAssignArmed d s tx =>
      if vlive (vget d vs) && vlive (vget s vs) then
        if spec_holds (vget s vs) tx then (vs, RExn) else (upd d (vget s vs) vs, RUnit)
      else (vs, RSkip)
  end.

(* number of live holders of a given type (what an instance counter of that type reads) *)
Definition live_count (t : tag) (st : state) : nat :=
  length (filter (fun p : loc * cell => Nat.eqb (fst (snd p)) t) (st_heap st)).

Fixpoint spec_run (w : list op) (vs : list view) : list view * list result :=
  match w with
  | [] => (vs, [])
  | o :: w' => let (vs1, r) := spec_step o vs in let (vs2, rs) := spec_run w' vs1 in (vs2, r :: rs)
  end.

(* number of containers of a pool of plain values that hold a value of type t *)
Definition spec_count (t : tag) (vs : list view) : nat := length (filter (fun x => spec_holds x t) vs).
