(* C13_Life.v — object lifetimes of the prediction / correction step objects under the skip commands.
   The step classes have hand-written move constructors and (most of them) move assignments:
     KFPrediction.cpp:19-35, UKFPrediction.cpp:41-66, DrawParticles.cpp:29-45, GPFPrediction.cpp:21-37   (constructor + assignment)
     BootstrapCorrection.cpp:23-44, GPFCorrection.cpp:45-79                                              (constructor + assignment)
     KFCorrection.cpp:20-23, UKFCorrection.cpp:50-56, SUKFCorrection.cpp:34-45                           (constructor only)
   Each constructs / assigns its base class (GaussianPrediction, PFPrediction, GaussianCorrection, PFCorrection: the
   defaulted move operations, which copy the bool skip_) from the source and moves the unique_ptr members: the
   state model, its exogenous model and the measurement model are the SAME objects afterwards, with their own skip
   flags and the cursor of the measurement source.  The wrapped Gaussian prediction / correction of the
   Gaussian-particle steps are unique_ptr members too.
   As they are after "fix: KF, UKF and SUKF correction move constructors carry the skip state of the base class"
   (4c35858); before it the three correction move constructors default-constructed the GaussianCorrection base
   (skip_ = false): that is the instance [movers_before] of the same definitions (C13_LifeProofs.old_move_refuted).
   No proofs in this file.  C13_Model is not modified (it is shared with the C06 command layer). *)
Require Import List Bool.
Require Import BFL.C13_Model.
Import ListNotations.
Local Open Scope bool_scope.

(* which base-class subobjects the move operation takes from the source (false: default-constructed) *)
Record movers := mkMovers {
  mv_pred_base : bool;   (* Prediction(std::move(prediction)) / Prediction::operator=(std::move(prediction)) *)
  mv_corr_base : bool    (* Correction(std::move(correction)) / Correction::operator=(std::move(correction)) *)
}.
Definition movers_now := mkMovers true true.
Definition movers_before := mkMovers true false.      (* KF / UKF / SUKF correction move constructors before 4c35858 *)

(* the flags seen through the object obtained by move from the step objects holding flags f:
   member by member; the models travel as pointers *)
Definition move_flags_g (M : movers) (f : flags) : flags :=
  mkFlags (if mv_pred_base M then f_pred f else false)
          (f_inner f)                                   (* gaussian_prediction_ : unique_ptr *)
          (f_state f) (f_exo f)                         (* state_model_ : unique_ptr; its exogenous_model_ : unique_ptr *)
          (if mv_corr_base M then f_corr f else false).
Definition move_state_g (M : movers) (st : mstate) : mstate :=
  mkM (move_flags_g M (ms_flags st)) (ms_cursor st).    (* measurement_model_ : unique_ptr, keeps its cursor *)

Definition move_flags := move_flags_g movers_now.
Definition move_state := move_state_g movers_now.

(* words of operations with moves: LMove replaces the step objects by the objects moved from them
   (by move construction or move assignment, onto a fresh or a used target: the target's previous
   content plays no role) *)
Inductive lop := LOp (o : op) | LMove.
Inductive lobs := LObs (o : obs) | LMoved (f : flags).    (* after a move: the flags reported by the new objects *)

Definition lnext_g (M : movers) (o : lop) (st : mstate) : mstate :=
  match o with
  | LOp o => next o st
  | LMove => move_state_g M st
  end.
Definition lobserve_g (M : movers) (k : kind) (o : lop) (st : mstate) : lobs :=
  match o with
  | LOp o => LObs (observe k o st)
  | LMove => LMoved (ms_flags (move_state_g M st))
  end.
Fixpoint run_lops_g (M : movers) (k : kind) (ops : list lop) (st : mstate) : list lobs :=
  match ops with
  | [] => []
  | o :: r => lobserve_g M k o st :: run_lops_g M k r (lnext_g M o st)
  end.
Definition lfinal_g (M : movers) (ops : list lop) (st : mstate) : mstate := fold_left (fun s o => lnext_g M o s) ops st.

(* the code as it is now *)
Definition lnext := lnext_g movers_now.
Definition lobserve := lobserve_g movers_now.
Definition run_lops := run_lops_g movers_now.
Definition lfinal := lfinal_g movers_now.

(* the same word without the moves, and the observations at the positions that are not moves *)
Fixpoint erase (ops : list lop) : list op :=
  match ops with
  | [] => []
  | LOp o :: r => o :: erase r
  | LMove :: r => erase r
  end.
Fixpoint kept (l : list lobs) : list obs :=
  match l with
  | [] => []
  | LObs o :: r => o :: kept r
  | LMoved _ :: r => kept r
  end.
Fixpoint moved_flags (l : list lobs) : list flags :=
  match l with
  | [] => []
  | LObs _ :: r => moved_flags r
  | LMoved f :: r => f :: moved_flags r
  end.
(* a word with a move inserted at position n *)
Definition insert_move (n : nat) (ops : list lop) : list lop := firstn n ops ++ LMove :: skipn n ops.
Definition lift (ops : list op) : list lop := map LOp ops.
Definition moves_of (ops : list lop) : nat := length (filter (fun o => match o with LMove => true | _ => false end) ops).
