Require Import ZArith List Lia.
Require Import BFL.Ops BFL.Density BFL.C16_Model.
From mathcomp Require Import all_ssreflect all_algebra.
From mathcomp Require Import ring.
Require Import BFL.MxOps BFL.LinAlg BFL.C16_ProofsSM.
Set Implicit Arguments.
Unset Strict Implicit.
Unset Printing Implicit Defensive.
Import Order.Theory GRing.Theory Num.Theory.
Local Open Scope ring_scope.

Section SPDlemmas.
Variable F : realFieldType.

Lemma spd_scale n (A : 'M[F]_n) c : 0 < c -> spd A -> spd (c *: A).
Proof.
move=> c0 [sA pA]; split; first by rewrite /sym linearZ /= sA.
by move=> x xn0; rewrite qf_scale mulr_gt0 // pA.
Qed.

Lemma spd_block_diag n1 n2 (A : 'M[F]_n1) (B : 'M[F]_n2) :
  spd A -> spd B -> spd (block_mx A 0 0 B).
Proof.
move=> [sA pA] [sB pB]; split.
  by rewrite /sym tr_block_mx !trmx0 sA sB.
move=> x xn0.
have -> : qf (block_mx A 0 0 B) x = qf A (lsubmx x) + qf B (rsubmx x).
  by rewrite /qf -{1 2}[x]hsubmxK mul_row_block !mulmx0 addr0 add0r tr_row_mx mul_row_col mxE.
case: (eqVneq (lsubmx x) 0) => [l0|ln0].
  have rn0 : rsubmx x != 0.
    by apply: contra xn0 => /eqP r0; rewrite -[x]hsubmxK l0 r0 row_mx0.
  by rewrite l0 qf0 add0r pB.
rewrite ltr_paddr ?pA //.
by case: (eqVneq (rsubmx x) 0) => [->|/pB/ltW //]; rewrite qf0.
Qed.

(* a symmetric 2x2 matrix with positive leading minors is SPD *)
Lemma spd2_minors (a b c : F) (A : 'M[F]_2) :
  A = \matrix_(i < 2, j < 2) (if (i == 0%N :> nat) && (j == 0%N :> nat) then a
                               else if (i == 1%N :> nat) && (j == 1%N :> nat) then c else b) ->
  0 < a -> 0 < a * c - b * b -> spd A.
Proof.
move=> -> a0 d0; split.
  by apply/matrixP => i j; rewrite !mxE; case: i => [[|[|i]] ?]; case: j => [[|[|j]] ?].
move=> x xn0; set x0 := x 0 ord0; set x1 := x 0 (lift ord0 ord0).
have E : a * qf (\matrix_(i < 2, j < 2) (if (i == 0%N :> nat) && (j == 0%N :> nat) then a
                               else if (i == 1%N :> nat) && (j == 1%N :> nat) then c else b)) x
         = (a * x0 + b * x1) ^+ 2 + (a * c - b * b) * x1 ^+ 2.
  rewrite /qf !mxE !big_ord_recl big_ord0 !mxE !big_ord_recl !big_ord0 !mxE /= -/x0 -/x1.
  by ring.
have P : 0 < a * qf (\matrix_(i < 2, j < 2) (if (i == 0%N :> nat) && (j == 0%N :> nat) then a
                               else if (i == 1%N :> nat) && (j == 1%N :> nat) then c else b)) x.
  rewrite E; case: (eqVneq x1 0) => [z1|n1].
    have n0 : x0 != 0.
      apply: contra xn0 => /eqP z0; apply/eqP/rowP => j; rewrite mxE.
      by case: j => [[|[|j]] hj]; [rewrite -z0 | rewrite -z1 |]; rewrite /x0 /x1 //; congr (x _ _); apply: val_inj.
    rewrite z1 mulr0 addr0 expr0n /= mulr0 addr0 exprn_even_gt0 //= mulf_neq0 //.
    by rewrite gt_eqF.
  by rewrite ltr_paddl ?sqr_ge0 // mulr_gt0 // exprn_even_gt0.
by rewrite -(pmulr_rgt0 _ a0).
Qed.
End SPDlemmas.

Section G.
Variable F : realFieldType.

Lemma mx_get_0 m n i j : mx_get (0 : 'M[F]_(m,n)) i j = 0.
Proof. by rewrite /mx_get; case: insub => // a; case: insub => // b; rewrite mxE. Qed.

Lemma mx_get_col_mx m1 m2 n (A : 'M[F]_(m1,n)) (B : 'M[F]_(m2,n)) i j :
  mx_get (col_mx A B) i j = if (i < m1)%N then mx_get A i j else mx_get B (i - m1)%N j.
Proof.
rewrite /mx_get.
case: (insubP _ j) => [j' _ ej|]; last first.
  by move=> _; case: insub => //; case: ifP => _; case: insub.
case: (insubP _ i) => [i' lti ei|].
  rewrite mxE; case: splitP => k ek.
    have lt1 : (i < m1)%N by rewrite -ei /= ek.
    by rewrite lt1 insubT; congr (A _ _); apply: val_inj; rewrite /= -ek.
  have ge1 : (i < m1)%N = false by rewrite -ei /= ek ltnNge leq_addr.
  have lt2 : (i - m1 < m2)%N by rewrite -ei /= ek addKn.
  by rewrite ge1 insubT; congr (B _ _); apply: val_inj; rewrite /= -ei /= ek addKn.
rewrite -leqNgt => le.
have -> : (i < m1)%N = false by apply/negbTE; rewrite -leqNgt (leq_trans (leq_addr m2 m1) le).
by rewrite insubF // ltnNge leq_subRL ?le // (leq_trans (leq_addr m2 m1) le).
Qed.

Lemma mx_get_tr m n (A : 'M[F]_(m,n)) i j : mx_get A^T i j = mx_get A j i.
Proof.
case: (ltnP i n) => hi; last by rewrite mx_get_out_r // mx_get_out_c.
case: (ltnP j m) => hj; last by rewrite mx_get_out_c // mx_get_out_r.
by rewrite -[i]/(val (Ordinal hi)) -[j]/(val (Ordinal hj)) !mx_get_ord mxE.
Qed.

Lemma mx_get_row_mx m n1 n2 (A : 'M[F]_(m,n1)) (B : 'M[F]_(m,n2)) i j :
  mx_get (row_mx A B) i j = if (j < n1)%N then mx_get A i j else mx_get B i (j - n1)%N.
Proof. by rewrite -[row_mx A B]trmxK tr_row_mx mx_get_tr mx_get_col_mx !mx_get_tr. Qed.

Lemma mx_get_scale m n c (A : 'M[F]_(m,n)) i j : mx_get (c *: A) i j = c * mx_get A i j.
Proof.
case: (ltnP i m) => hi; last by rewrite !mx_get_out_r // mulr0.
case: (ltnP j n) => hj; last by rewrite !mx_get_out_c // mulr0.
by rewrite -[i]/(val (Ordinal hi)) -[j]/(val (Ordinal hj)) !mx_get_ord mxE.
Qed.

Variable tr : Transc F.
Variable sq : forall n, 'M[F]_n -> 'M[F]_n.
Variable eg : forall n, 'M[F]_n -> 'M[F]_(n,1).
Let O := MxMat tr sq eg.

(* entry (2a+r, 2b+s) of the assembled matrix: block (a, b), position (r, s) *)
Lemma blocks_entry d (B : 'M[F]_2) a b r s :
  (a < dim_blocks d)%N -> (b < dim_blocks d)%N -> (r < 2)%N -> (s < 2)%N ->
  mx_get (blocks (O:=O) d B) (2 * a + r) (2 * b + s) = if a == b then mx_get B r s else 0.
Proof.
case: d => /=.
- case: a => [|a] // _; case: b => [|b] // _; case: r => [|[|r]] // _; case: s => [|[|s]] // _.
- case: a => [|[|a]] // _; case: b => [|[|b]] // _; case: r => [|[|r]] // _; case: s => [|[|s]] // _;
  by rewrite /blocks2 /= (@mx_get_col_mx 2 2 (2+2)) !mx_get_row_mx /= ?mx_get_0.
- case: a => [|[|[|a]]] // _; case: b => [|[|[|b]]] // _; case: r => [|[|r]] // _; case: s => [|[|s]] // _;
  by rewrite /blocks3 /= (@mx_get_col_mx 2 (2+2) (2+(2+2))) /= ?mx_get_col_mx /= !mx_get_row_mx /= ?mx_get_row_mx /= ?mx_get_0.
Qed.

(* ---------------------------------------------------------------- closed forms of F and Q *)

Definition F2_closed (T : F) (r s : nat) : F :=
  if r == s then 1 else if (r < s)%N then T else 0.
Definition Q2_closed (T : F) (r s : nat) : F :=
  match r, s with
  | 0%N, 0%N => T ^+ 3 / 3%:R
  | 1%N, 1%N => T
  | _, _ => T ^+ 2 / 2%:R
  end.

Lemma lit2E : lit2 O = 2%:R. Proof. by []. Qed.
Lemma lit3E : lit3 O = 3%:R. Proof. by []. Qed.

Lemma wna_F2_entry T r s : (r < 2)%N -> (s < 2)%N -> mx_get (wna_F2 (O:=O) T) r s = F2_closed T r s.
Proof. by case: r => [|[|r]] // _; case: s => [|[|s]] // _; rewrite /wna_F2 /mof_lists mx_get_build. Qed.

Lemma wna_q11E (T : F) : wna_q11 O T = T ^+ 3 / 3%:R.
Proof. by rewrite /wna_q11 /pow3 /= lit3E mul1r mulrC !exprS expr0 mulr1. Qed.
Lemma wna_q2E (T : F) : wna_q2 O T = T ^+ 2 / 2%:R.
Proof. by rewrite /wna_q2 /pow2 /= lit2E mul1r mulrC !exprS expr0 mulr1. Qed.

Lemma wna_Q2_entry T r s : (r < 2)%N -> (s < 2)%N -> mx_get (wna_Q2 (O:=O) T) r s = Q2_closed T r s.
Proof.
by case: r => [|[|r]] // _; case: s => [|[|s]] // _; rewrite /wna_Q2 /mof_lists mx_get_build //= ?wna_q11E ?wna_q2E.
Qed.

Lemma wna_F_entry d T a b r s :
  (a < dim_blocks d)%N -> (b < dim_blocks d)%N -> (r < 2)%N -> (s < 2)%N ->
  mx_get (wna_F (O:=O) d T) (2 * a + r) (2 * b + s) = if a == b then F2_closed T r s else 0.
Proof. by move=> ha hb hr hs; rewrite /wna_F blocks_entry // wna_F2_entry. Qed.

Lemma wna_Q_entry d T q a b r s :
  (a < dim_blocks d)%N -> (b < dim_blocks d)%N -> (r < 2)%N -> (s < 2)%N ->
  mx_get (wna_Q (O:=O) d T q) (2 * a + r) (2 * b + s) = if a == b then q * Q2_closed T r s else 0.
Proof.
move=> ha hb hr hs; rewrite /wna_Q /= mx_get_scale blocks_entry // wna_Q2_entry //.
by case: ifP; rewrite ?mulr0.
Qed.

Lemma dim_n_blocks d : dim_n d = (2 * dim_blocks d)%N.
Proof. by case: d. Qed.

(* ---------------------------------------------------------------- Q is SPD *)

Lemma wna_Q2_minors (T : F) : 0 < T ->
  0 < T ^+ 3 / 3%:R /\ T ^+ 3 / 3%:R * T - T ^+ 2 / 2%:R * (T ^+ 2 / 2%:R) = T ^+ 4 / 12%:R /\ 0 < T ^+ 4 / 12%:R.
Proof.
move=> T0; split; first by rewrite divr_gt0 ?exprn_gt0 // ltr0n.
split; last by rewrite divr_gt0 ?exprn_gt0 // ltr0n.
by field.
Qed.

Lemma wna_Q2_spd (T : F) : 0 < T -> spd (wna_Q2 (O:=O) T : 'M[F]_2).
Proof.
move=> T0; have [a0 [dE d0]] := wna_Q2_minors T0.
apply: (@spd2_minors _ (T ^+ 3 / 3%:R) (T ^+ 2 / 2%:R) T) => //; last by rewrite dE.
apply/matrixP => i j; rewrite !mxE.
by case: i => [[|[|i]] ?]; case: j => [[|[|j]] ?] //=; rewrite ?wna_q11E ?wna_q2E.
Qed.

Lemma blocks2_block (B : 'M[F]_2) : blocks2 O B = block_mx B 0 0 B.
Proof. by []. Qed.
Lemma blocks3_block (B : 'M[F]_2) : blocks3 O B = block_mx B 0 0 (block_mx B 0 0 B).
Proof.
rewrite /blocks3 /= /block_mx row_mx0; f_equal.
have -> : col_mx (row_mx (0 : 'M[F]_2) (row_mx B (0 : 'M[F]_2))) (row_mx (0 : 'M[F]_2) (row_mx (0 : 'M[F]_2) B))
          = block_mx (0 : 'M[F]_2) (row_mx B (0 : 'M[F]_2)) (0 : 'M[F]_2) (row_mx (0 : 'M[F]_2) B) by [].
by rewrite block_mxEh col_mx0.
Qed.

Lemma blocks_spd d (B : 'M[F]_2) : spd B -> spd (blocks (O:=O) d B : 'M[F]_(dim_n d)).
Proof.
move=> sB; case: d; rewrite /blocks; first exact: sB.
  by rewrite blocks2_block; exact: (@spd_block_diag _ 2 2).
by rewrite blocks3_block; apply: (@spd_block_diag _ 2 (2 + 2)) => //; exact: (@spd_block_diag _ 2 2).
Qed.

Lemma wna_Q_spd d (T q : F) : 0 < T -> 0 < q -> spd (wna_Q (O:=O) d T q : 'M[F]_(dim_n d)).
Proof. by move=> T0 q0; apply: spd_scale => //; apply: blocks_spd; exact: wna_Q2_spd. Qed.

(* ---------------------------------------------------------------- noise samples, motion *)

Lemma fill_colmajor_entry rows num (zs : list F) (i : 'I_rows) (j : 'I_num) :
  (fill_colmajor (O:=O) rows num zs : 'M[F]_(rows, num)) i j = List.nth (j * rows + i)%N zs 0.
Proof. by rewrite /fill_colmajor /= mxE. Qed.

Lemma noise_sample_fst d (L : 'M[F]_d) num zs :
  (noise_sample (O:=O) L num zs).1 = L *m (fill_colmajor (O:=O) d num zs : 'M[F]_(d, num)).
Proof. by []. Qed.
Lemma noise_sample_snd d (L : 'M[F]_d) num zs :
  (noise_sample (O:=O) L num zs).2 = skipn (d * num) zs.
Proof. by []. Qed.

(* every entry of a sample: row i of L against the j-th group of d consecutive draws *)
Lemma noise_sample_entry d (L : 'M[F]_d) num zs (i : 'I_d) (j : 'I_num) :
  ((noise_sample (O:=O) L num zs).1 : 'M[F]_(d, num)) i j = \sum_(k < d) L i k * List.nth (j * d + k)%N zs 0.
Proof. by rewrite noise_sample_fst mxE; apply: eq_bigr => k _; rewrite fill_colmajor_entry. Qed.

(* the sample is a linear image of Z: its "covariance" L (Z Z^T) L^T is L L^T *)
Lemma linear_image_cov d num (L Q : 'M[F]_d) (Z : 'M[F]_(d, num)) :
  L *m L^T = Q -> Z *m Z^T = 1%:M -> (L *m Z) *m (L *m Z)^T = Q.
Proof. by move=> LL ZZ; rewrite trmx_mul mulmxA -[L *m Z *m Z^T]mulmxA ZZ mulmx1. Qed.

Lemma additive_motion_eq d c (Fm L : 'M[F]_d) (X : 'M[F]_(d, c)) zs :
  additive_motion (O:=O) Fm L X zs =
  (Fm *m X + L *m (fill_colmajor (O:=O) d c zs : 'M[F]_(d, c)), skipn (d * c) zs).
Proof. by []. Qed.

(* ---------------------------------------------------------------- transition density *)

Lemma mcol_col m n (A : 'M[F]_(m, n)) (j : 'I_n) : mcol (O:=O) j A = col j A.
Proof. by apply/matrixP => i k; rewrite /mcol /= !mxE mx_get_ord. Qed.

Lemma density_shift d (x mu : 'cV[F]_d) (Q : 'M[F]_d) :
  density (O:=O) (x - mu) (0 : 'cV[F]_d) Q = density (O:=O) x mu Q.
Proof. by rewrite /density /log_density /= subr0. Qed.

Lemma transition_probability_nth d c (Fm Q : 'M[F]_d) (prev cur : 'M[F]_(d, c)) (j : 'I_c) dflt :
  List.nth j (transition_probability (O:=O) Fm Q prev cur) dflt =
  density (O:=O) (col j cur) (Fm *m col j prev) Q.
Proof.
rewrite /transition_probability; set f := (fun j0 : nat => _).
have jc : (j < c)%coq_nat by apply/ssrnat.ltP.
rewrite (nth_indep _ dflt (f 0%N)); last by rewrite map_length seq_length.
rewrite map_nth seq_nth // /f mcol_col /=.
by rewrite !colE mulmxBl -mulmxA density_shift.
Qed.

Lemma transition_probability_length d c (Fm Q : 'M[F]_d) (prev cur : 'M[F]_(d, c)) :
  length (transition_probability (O:=O) Fm Q prev cur) = c.
Proof. by rewrite /transition_probability map_length seq_length. Qed.

(* ---------------------------------------------------------------- the WNA model as a whole *)

Lemma wna_Q_unit d (T q : F) : 0 < T -> 0 < q -> (wna_Q (O:=O) d T q : 'M[F]_(dim_n d)) \in unitmx.
Proof. by move=> T0 q0; apply: spd_unit; exact: wna_Q_spd. Qed.

Lemma wna_noise_sample_spec d (T q : F) num zs :
  (wna_noise_sample (O:=O) d T q num zs).2 = skipn (dim_n d * num) zs /\
  forall (i : 'I_(dim_n d)) (j : 'I_num),
    ((wna_noise_sample (O:=O) d T q num zs).1 : 'M[F]_(dim_n d, num)) i j =
    \sum_(k < dim_n d) (wna_sqrtQ (O:=O) d T q : 'M[F]_(dim_n d)) i k * List.nth (j * dim_n d + k)%N zs 0.
Proof. by split=> // i j; rewrite /wna_noise_sample noise_sample_entry. Qed.

(* covariance of the samples, from the factor's contract on THIS matrix only *)
Lemma wna_noise_cov d (T q : F) num zs :
  let L : 'M[F]_(dim_n d) := wna_sqrtQ (O:=O) d T q in
  L *m L^T = wna_Q (O:=O) d T q ->
  let Z : 'M[F]_(dim_n d, num) := fill_colmajor (O:=O) (dim_n d) num zs in
  let W : 'M[F]_(dim_n d, num) := (wna_noise_sample (O:=O) d T q num zs).1 in
  Z *m Z^T = 1%:M -> W *m W^T = wna_Q (O:=O) d T q.
Proof.
move=> L LL Z W ZZ; rewrite /W /wna_noise_sample noise_sample_fst.
exact: linear_image_cov.
Qed.

(* the blocks multiply block-wise: a factor of the 2x2 block gives a factor of Q *)
Lemma blocks_mul_tr d (A : 'M[F]_2) :
  (blocks (O:=O) d A : 'M[F]_(dim_n d)) *m (blocks (O:=O) d A : 'M[F]_(dim_n d))^T
  = blocks (O:=O) d (A *m A^T).
Proof.
case: d; rewrite /blocks //.
  by rewrite !blocks2_block (@tr_block_mx _ 2 2 2 2) (@mulmx_block _ 2 2 2 2 2 2) !trmx0 !mulmx0 !mul0mx !addr0 !add0r.
rewrite !blocks3_block (@tr_block_mx _ 2 (2+2) 2 (2+2)) (@mulmx_block _ 2 (2+2) 2 (2+2) 2 (2+2)).
rewrite (@tr_block_mx _ 2 2 2 2) (@mulmx_block _ 2 2 2 2 2 2).
by rewrite !trmx0 !mulmx0 !mul0mx !addr0 !add0r.
Qed.

Lemma wna_motion_eq d (T q : F) c (X : 'M[F]_(dim_n d, c)) zs :
  wna_motion (O:=O) d T q X zs =
  ((wna_F (O:=O) d T : 'M[F]_(dim_n d)) *m X
     + (wna_sqrtQ (O:=O) d T q : 'M[F]_(dim_n d)) *m (fill_colmajor (O:=O) (dim_n d) c zs : 'M[F]_(dim_n d, c)),
   skipn (dim_n d * c) zs).
Proof. by []. Qed.

Lemma wna_transition_density d (T q : F) c (prev cur : 'M[F]_(dim_n d, c)) :
  length (wna_transition_probability (O:=O) d T q prev cur) = c /\
  forall (j : 'I_c) dflt,
    List.nth j (wna_transition_probability (O:=O) d T q prev cur) dflt =
    density (O:=O) (col j cur) ((wna_F (O:=O) d T : 'M[F]_(dim_n d)) *m col j prev) (wna_Q (O:=O) d T q).
Proof.
split; first exact: transition_probability_length.
by move=> j dflt; rewrite /wna_transition_probability transition_probability_nth.
Qed.

(* the simulated trajectory over this model: x_{k+1} = F x_k + L z_k, z_k the k-th group of
   dim_n d consecutive draws *)
Definition wna_motion1 d (T q : F) : M O (dim_n d) 1 -> list F -> M O (dim_n d) 1 * list F :=
  fun x z => wna_motion (O:=O) d T q (c:=1) x z.

Lemma skipn_skipn' (A : Type) a b (l : list A) : skipn a (skipn b l) = skipn (b + a) l.
Proof. by elim: b l => [|b IH] [|x l] //=; rewrite skipn_nil. Qed.

Lemma wna_iter_draws d (T q : F) (x0 : 'cV[F]_(dim_n d)) zs k :
  (iter_motion (@wna_motion1 d T q) k (x0, zs)).2 = skipn (dim_n d * k) zs.
Proof.
elim: k => [|k IH]; first by rewrite muln0.
rewrite [iter_motion _ _ _]/= /wna_motion1 wna_motion_eq [(_, _).2]/= IH skipn_skipn'.
by congr (skipn _ _); rewrite -!multE Nat.mul_1_r -plusE -mult_n_Sm.
Qed.

Lemma wna_iter_step d (T q : F) (x0 : 'cV[F]_(dim_n d)) zs k :
  ((iter_motion (@wna_motion1 d T q) k.+1 (x0, zs)).1 : 'cV[F]_(dim_n d)) =
  (wna_F (O:=O) d T : 'M[F]_(dim_n d)) *m (iter_motion (@wna_motion1 d T q) k (x0, zs)).1
  + (wna_sqrtQ (O:=O) d T q : 'M[F]_(dim_n d))
      *m (fill_colmajor (O:=O) (dim_n d) 1 (skipn (dim_n d * k) zs) : 'cV[F]_(dim_n d)).
Proof. by rewrite [iter_motion _ _ _]/= /wna_motion1 wna_motion_eq [(_, _).1]/= wna_iter_draws. Qed.

(* ---------------------------------------------------------------- selector matrix *)

Lemma eqbE (a b : nat) : Nat.eqb a b = (a == b).
Proof. by apply/idP/eqP => [/Nat.eqb_eq|/Nat.eqb_eq]. Qed.
Lemma ltbE (a b : nat) : Nat.ltb a b = (a < b)%N.
Proof. by apply/idP/idP => [/Nat.ltb_lt/ssrnat.ltP|/ssrnat.ltP/Nat.ltb_lt]. Qed.

Lemma mx_get_mset r c (A : 'M[F]_(r, c)) i j v a b : (a < r)%N -> (b < c)%N ->
  mx_get (mset (O:=O) A i j v) a b = if (a == i) && (b == j) then v else mx_get A a b.
Proof. by move=> ar bc; rewrite /mset /= mx_get_build // !eqbE. Qed.

Lemma lm_fill_entries m n (idxs : list nat) : forall i (H H' : 'M[F]_(m, n)),
  lm_fill (O:=O) i idxs H = inr H' ->
  forall a b, (a < m)%N -> (b < n)%N ->
  mx_get H' a b = if (i <= a < i + length idxs)%N && (b == List.nth (a - i)%N idxs 0%N) then 1 else mx_get H a b.
Proof.
elim: idxs => [|ci rest IH] i H H' /=.
  by case=> <- a b _ _; rewrite addn0; case: (ltngtP i a).
rewrite ltbE; case: ifP => // cin /IH E a b am bn; rewrite {}E // mx_get_mset //.
rewrite addSn -addnS.
case: (ltngtP i a) => [lt|gt|<-] /=.
- by rewrite -[(a - i)%N]prednK ?subn_gt0 //= -subnS.
- by [].
- by rewrite subnn /= addnS ltnS leq_addr.
Qed.

(* the selector built by LinearModel's constructor *)
Lemma linear_model_H n (idxs : list nat) rr rc (R : 'M[F]_(rr, rc)) H R' L :
  linear_model_ctor (O:=O) n idxs R = inr (H, R', L) ->
  forall a b, (a < length idxs)%N -> (b < n)%N ->
  mx_get (H : 'M[F]_(length idxs, n)) a b = if b == List.nth a idxs 0%N then 1 else 0.
Proof.
move=> E; have := linear_model_ctor_spec O n idxs rr rc R; rewrite E /=.
case=> _ [_ [fill _]] a b am bn.
by rewrite (lm_fill_entries fill) // subn0 add0n /= am /= mx_get_0.
Qed.

Lemma mx_build_get m n (A : 'M[F]_(m, n)) : mx_build m n (fun i j => mx_get A i j) = A.
Proof. by apply/matrixP => i j; rewrite mxE mx_get_ord. Qed.

(* the sensor's noise: sqrt_R_ is the oracle's factor of R; samples L Z have "covariance" R *)
Lemma linear_model_noise_cov n (idxs : list nat) m (R : 'M[F]_m) H R' (L : 'M[F]_m) num zs :
  linear_model_ctor (O:=O) n idxs R = inr (H, R', L) ->
  R' = R /\ L = sq R /\
  (L *m L^T = R ->
   let Z : 'M[F]_(m, num) := fill_colmajor (O:=O) m num zs in
   let W : 'M[F]_(m, num) := (noise_sample (O:=O) L num zs).1 in
   Z *m Z^T = 1%:M -> W *m W^T = R).
Proof.
move=> E; have := linear_model_ctor_spec O n idxs m m R; rewrite E /=.
case=> -> [-> _]; rewrite mx_build_get; split=> //; split=> // LL ZZ.
exact: (linear_image_cov LL ZZ).
Qed.

(* ---------------------------------------------------------------- sensor descriptions *)

Lemma sabs1_01 (b : bool) : sabs1 (O:=O) (if b then 1 else 0 : F) = if b then 1 else 0.
Proof. by rewrite /sabs1 /=; case: b; rewrite ?ltxx // ltNge ler01. Qed.

Lemma argmax_keep (f : nat -> F) k : forall j best bv,
  (forall j', (j <= j' < j + k)%N -> f j' <= bv) -> argmax_from (O:=O) f j k best bv = best.
Proof.
elim: k => [|k IH] j best bv le //=.
have -> : (bv < f j) = false.
  by apply/negbTE; rewrite -leNgt; apply: le; rewrite leqnn addnS ltnS leq_addr.
apply: IH => j' /andP [a b].
by apply: le; rewrite (ltnW a) /= addnS -addSn.
Qed.

Lemma argmax_hit (f : nat -> F) c k : forall j best,
  (forall j', (j' < j + k)%N -> f j' = if j' == c then 1 else 0) ->
  (j <= c < j + k)%N -> argmax_from (O:=O) f j k best 0 = c.
Proof.
elim: k => [|k IH] j best E /andP [jc ck]; first by move: ck; rewrite addn0 ltnNge jc.
rewrite /= E; last by rewrite addnS ltnS leq_addr.
case: (eqVneq j c) => [e|ne].
  rewrite ltr01 -[RHS]e; apply: argmax_keep => j' /andP [a b].
  rewrite E; last by rewrite addnS -addSn.
  by case: ifP => _; rewrite ?lexx ?ler01.
rewrite ltxx; apply: IH; first by move=> j' lt; apply: E; rewrite addnS -addSn.
by rewrite addSnnS ck andbT ltn_neqAle ne jc.
Qed.

Lemma row_argmax_selector m n (H : 'M[F]_(m, n)) i c : (c < n)%N ->
  (forall b, (b < n)%N -> mx_get H i b = if b == c then 1 else 0) ->
  row_argmax_abs (O:=O) H i = c.
Proof.
case: n H => [|n] H // cn E; rewrite /row_argmax_abs.
have Ef j' : (j' < 1 + n)%N -> sabs1 (O:=O) (mx_get H i j') = if j' == c then 1 else 0.
  by move=> lt; rewrite E // sabs1_01.
rewrite [mget _ _ _]/= Ef //; case: (eqVneq 0%N c) => [<-|ne].
  apply: argmax_keep => j' /andP [a b]; rewrite Ef //.
  by case: ifP => _; rewrite ?lexx ?ler01.
by apply: argmax_hit; [exact: Ef | rewrite lt0n eq_sym ne add1n cn].
Qed.

Lemma firstn_S_nth (l : list nat) k : (k < length l)%coq_nat ->
  firstn k.+1 l = firstn k l ++ [:: List.nth k l 0%N].
Proof.
revert k; induction l as [|x l IH]; intros [|k] lt; simpl in *; try lia; auto.
rewrite IH; auto; lia.
Qed.

(* the two descriptions of a component-selecting sensor *)
Lemma sensor_descriptions_selector n (idxs : list nat) (H : 'M[F]_(length idxs, n)) sd nr :
  Forall (fun c => (c < n)%coq_nat) idxs ->
  (forall a b, (a < length idxs)%N -> (b < n)%N -> mx_get H a b = if b == List.nth a idxs 0%N then 1 else 0) ->
  sensor_descriptions (O:=O) H sd nr =
  (mkDesc (d_lin sd) (d_circ sd) (d_noise sd + nr)%coq_nat,
   mkDesc (length (List.filter (fun c => Nat.ltb c (d_lin sd)) idxs))
          (length (List.filter (fun c => negb (Nat.ltb c (d_lin sd))) idxs)) 0).
Proof.
move=> inrange E; rewrite /sensor_descriptions /desc_add_noise /desc_linear_size /=.
set step := (fun acc i => _).
have P k : (k <= length idxs)%N ->
    fold_left step (List.seq 0 k) (0%N, 0%N) =
    (length (List.filter (fun c => Nat.ltb c (d_lin sd)) (firstn k idxs)),
     length (List.filter (fun c => negb (Nat.ltb c (d_lin sd))) (firstn k idxs))).
  elim: k => [|k IH] le //.
  have kl : (k < length idxs)%coq_nat by apply/ssrnat.ltP.
  rewrite seq_S fold_left_app IH 1?ltnW // firstn_S_nth // !filter_app !app_length /= /step /=.
  have -> : row_argmax_abs (O:=O) H k = List.nth k idxs 0%N.
    apply: row_argmax_selector; last by move=> b bn; apply: E.
    by apply/ssrnat.ltP; move/Forall_forall: inrange; apply; apply: nth_In.
  by case: (Nat.ltb _ _) => /=; rewrite ?Nat.add_0_r ?Nat.add_1_r.
by rewrite P // firstn_all.
Qed.

(* ---------------------------------------------------------------- grid initialiser *)

Lemma ZofnatE k : (Z_to_int (Z.of_nat k))%:~R = k%:R :> F.
Proof. by case: k => [|k] //=; rewrite SuccNat2Pos.id_succ. Qed.
Lemma sofnatE k : sofnat (sc O) k = k%:R :> F.
Proof. exact: ZofnatE. Qed.

Lemma mx_get_set_col r c (A : 'M[F]_(r, c)) k v i j : (i < r)%N -> (j < c)%N ->
  mx_get (set_col (O:=O) A k v) i j = if j == k then v i else mx_get A i j.
Proof. by move=> ir jc; rewrite /set_col /= mx_get_build // eqbE. Qed.

Lemma fold_set_col r c (g : nat * nat -> nat) (v : nat * nat -> nat -> F) (l : list (nat * nat)) :
  forall (A : 'M[F]_(r, c)) p0, List.In p0 l -> (forall p, List.In p l -> g p = g p0 -> p = p0) ->
  forall i, (i < r)%N -> (g p0 < c)%N ->
  mx_get (fold_left (fun B p => set_col (O:=O) B (g p) (v p)) l A) i (g p0) = v p0 i.
Proof.
elim/rev_ind: l => [|p l IH] A p0 //= hin uniq i ir kc.
rewrite fold_left_app /= mx_get_set_col //.
case: eqP => [e|ne].
  by rewrite (uniq p) //; apply/in_or_app; right; left.
apply: IH => //.
  by have [hl|[e|[]]] := in_app_or _ _ _ hin => //; case: ne; rewrite e.
by move=> q ql; apply: uniq; apply/in_or_app; left.
Qed.

Lemma grid_pairs_in nx ny i j : List.In (i, j) (grid_pairs nx ny) <-> (i < nx)%N /\ (j < ny)%N.
Proof.
rewrite /grid_pairs in_prod_iff !in_seq /=.
split=> [[[_ /ssrnat.ltP a] [_ /ssrnat.ltP b]]|[/ssrnat.ltP a /ssrnat.ltP b]] //.
by split; split=> //; exact: Nat.le_0_l.
Qed.

Lemma grid_index_inj ny i j i0 j0 : (j < ny)%N -> (j0 < ny)%N ->
  (i * ny + j = i0 * ny + j0)%N -> (i, j) = (i0, j0).
Proof.
move=> jn j0n E; have ny0 : (0 < ny)%N by apply: leq_ltn_trans jn.
have := congr1 (fun k => k %/ ny)%N E; rewrite !divnMDl // !divn_small // !addn0 => ->.
by have := congr1 (fun k => k %% ny)%N E; rewrite !modnMDl !modn_small // => ->.
Qed.

Section Grid.
Variables (xinf xsup yinf ysup : F) (nx ny np : nat).
Variables (st : 'M[F]_(4, np)) (w : 'cV[F]_np).

Lemma grid_refusal : grid_initialize (O:=O) xinf xsup yinf ysup nx ny st w = None <-> np <> (nx * ny)%N.
Proof.
rewrite /grid_initialize eqbE; case: eqP => [e|ne] /=; first by split.
by split.
Qed.

Lemma grid_result st' w' : grid_initialize (O:=O) xinf xsup yinf ysup nx ny st w = Some (st', w') ->
  np = (nx * ny)%N /\
  (forall i j r, (i < nx)%N -> (j < ny)%N -> (r < 4)%N ->
     mx_get (st' : 'M[F]_(4, np)) r (i * ny + j) =
     grid_point (O:=O) xinf (xsup - xinf) yinf (ysup - yinf) nx ny i j r) /\
  (forall k, (k < np)%N -> mx_get (w' : 'cV[F]_np) k 0 = - t_ln tr (np%:R)).
Proof.
rewrite /grid_initialize eqbE; case: eqP => [e|//] /= [<- <-]; split=> //; split.
  move=> i j r ix jy r4.
  have kn : (i * ny + j < np)%N.
    by rewrite e; apply: (@leq_trans (i.+1 * ny)%N); rewrite ?leq_mul2r ?ix ?orbT // mulSn [(ny + _)%N]addnC ltn_add2l.
  pose g (p : nat * nat) := (p.1 * ny + p.2)%N.
  pose v (p : nat * nat) := grid_point (O:=O) xinf (xsup - xinf) yinf (ysup - yinf) nx ny p.1 p.2.
  rewrite -[LHS]/(mx_get (fold_left (fun B p => set_col (O:=O) B (g p) (v p)) (grid_pairs nx ny) st) r (g (i, j))).
  rewrite (@fold_set_col 4 np g v) //; first by apply/grid_pairs_in.
  case=> i1 j1 /grid_pairs_in [_ j1y] /= E.
  exact: (grid_index_inj j1y jy E).
by move=> k kn; rewrite /mconst /= mx_get_build // ZofnatE.
Qed.

Lemma grid_positions st' w' : grid_initialize (O:=O) xinf xsup yinf ysup nx ny st w = Some (st', w') ->
  forall i j r, (i < nx)%N -> (j < ny)%N -> (r < 4)%N ->
     mx_get (st' : 'M[F]_(4, np)) r (i * ny + j) =
     grid_point (O:=O) xinf (xsup - xinf) yinf (ysup - yinf) nx ny i j r.
Proof. by case/grid_result=> _ []. Qed.

Lemma grid_weights st' w' : grid_initialize (O:=O) xinf xsup yinf ysup nx ny st w = Some (st', w') ->
  np = (nx * ny)%N /\ forall k, (k < np)%N -> mx_get (w' : 'cV[F]_np) k 0 = - t_ln tr (np%:R).
Proof. by case/grid_result=> e [_ W]. Qed.

(* the coordinates in closed form, and the grid spans the area *)
Lemma grid_coordE delta inf n i : grid_coord (O:=O) delta inf n i = inf + i%:R * (delta / (n%:R - 1)) :> F.
Proof. by rewrite /grid_coord /sofnat /= !ZofnatE addrC mulrC. Qed.

Lemma grid_coord_first delta inf n : grid_coord (O:=O) delta inf n 0 = inf :> F.
Proof. by rewrite grid_coordE mul0r addr0. Qed.

Lemma grid_coord_last sup inf n : (2 <= n)%N -> grid_coord (O:=O) (sup - inf) inf n n.-1 = sup :> F.
Proof.
move=> n2; rewrite grid_coordE.
have -> : (n.-1)%:R = n%:R - 1 :> F by rewrite -{2}[n]prednK ?(ltn_trans _ n2) // -addn1 natrD addrK.
have nz : n%:R - 1 != 0 :> F.
  by rewrite subr_eq0 -[1]/(1%:R) eqr_nat neq_ltn orbC n2.
by rewrite mulrCA divff // mulr1 addrC subrK.
Qed.

Lemma grid_positions_closed st' w' : (2 <= nx)%N -> (2 <= ny)%N ->
  grid_initialize (O:=O) xinf xsup yinf ysup nx ny st w = Some (st', w') ->
  (nx%:R - 1 != 0 :> F) /\ (ny%:R - 1 != 0 :> F) /\
  forall i j r, (i < nx)%N -> (j < ny)%N -> (r < 4)%N ->
    mx_get (st' : 'M[F]_(4, np)) r (i * ny + j) =
    match r with
    | 0%N => xinf + i%:R * ((xsup - xinf) / (nx%:R - 1))
    | 2%N => yinf + j%:R * ((ysup - yinf) / (ny%:R - 1))
    | _ => 0
    end.
Proof.
move=> x2 y2 E.
have nz k : (2 <= k)%N -> k%:R - 1 != 0 :> F.
  by move=> k2; rewrite subr_eq0 -[1]/(1%:R) eqr_nat neq_ltn orbC k2.
split; first exact: nz. split; first exact: nz.
move=> i j r ix jy r4; rewrite (grid_positions E) //.
by case: r r4 => [|[|[|r]]] //= _; rewrite grid_coordE.
Qed.

Lemma grid_spans (inf sup : F) n : (2 <= n)%N ->
  grid_coord (O:=O) (sup - inf) inf n 0 = inf /\ grid_coord (O:=O) (sup - inf) inf n n.-1 = sup.
Proof. by move=> n2; split; [exact: grid_coord_first | exact: grid_coord_last]. Qed.
End Grid.

(* every column and every weight is written: the result does not depend on the previous content *)
Lemma grid_overwrites xinf xsup yinf ysup nx ny np (st st2 : 'M[F]_(4, np)) (w w2 : 'cV[F]_np) :
  grid_initialize (O:=O) xinf xsup yinf ysup nx ny st w = grid_initialize (O:=O) xinf xsup yinf ysup nx ny st2 w2.
Proof.
case E1: (grid_initialize (O:=O) xinf xsup yinf ysup nx ny st w) => [[s1 w1]|];
  case E2: (grid_initialize (O:=O) xinf xsup yinf ysup nx ny st2 w2) => [[s2 w2']|] //.
- have [e [P1 W1]] := grid_result E1; have [_ [P2 W2]] := grid_result E2.
  congr (Some (_, _)).
    apply/matrixP => r k; rewrite -!mx_get_ord.
    have kn : (k < nx * ny)%N by rewrite -e.
    have ny0 : (0 < ny)%N by case: (ny) kn => [|//]; rewrite muln0.
    by rewrite [nat_of_ord k](divn_eq k ny) P1 ?P2 // ?ltn_pmod // ltn_divLR.
  by apply/matrixP => k z; rewrite (ord1 z) -[LHS]mx_get_ord -[RHS]mx_get_ord W1 ?W2.
- by have [e _] := grid_result E1; move/grid_refusal: E2.
- by have [e _] := grid_result E2; move/grid_refusal: E1.
Qed.
End G.

(* ---------------------------------------------------------------- a factor exists (real closed fields) *)

Section FactorExists.
Variable R : rcfType.
Variable tr : Transc R.
Variable sq : forall n, 'M[R]_n -> 'M[R]_n.
Variable eg : forall n, 'M[R]_n -> 'M[R]_(n,1).
Let O := MxMat tr sq eg.

(* the lower-triangular Cholesky factor of q [T^3/3 T^2/2; T^2/2 T] *)
Definition chol2 (T q : R) : 'M[R]_2 :=
  let a := Num.sqrt (q * (T ^+ 3 / 3%:R)) in
  \matrix_(i < 2, j < 2)
    (if (i == 0%N :> nat) && (j == 0%N :> nat) then a
     else if (i == 1%N :> nat) && (j == 0%N :> nat) then q * (T ^+ 2 / 2%:R) / a
     else if (i == 1%N :> nat) && (j == 1%N :> nat) then Num.sqrt (q * T / 4%:R) else 0).

Lemma chol2_factor (T q : R) : 0 < T -> 0 < q ->
  chol2 T q *m (chol2 T q)^T = q *: (wna_Q2 (O:=O) T : 'M[R]_2).
Proof.
move=> T0 q0.
have A0 : 0 < q * (T ^+ 3 / 3%:R) by rewrite mulr_gt0 // divr_gt0 ?exprn_gt0 // ltr0n.
have C0 : 0 < q * T / 4%:R by rewrite divr_gt0 ?mulr_gt0 // ltr0n.
set a := Num.sqrt (q * (T ^+ 3 / 3%:R)).
set c := Num.sqrt (q * T / 4%:R).
have aa : a * a = q * (T ^+ 3 / 3%:R) by rewrite -expr2 sqr_sqrtr // ltW.
have cc : c * c = q * T / 4%:R by rewrite -expr2 sqr_sqrtr // ltW.
have an0 : a != 0 by rewrite gt_eqF // sqrtr_gt0.
have Tn0 : T != 0 by rewrite gt_eqF.
have qn0 : q != 0 by rewrite gt_eqF.
apply/matrixP => i j; rewrite !mxE !big_ord_recl big_ord0 !mxE /= -/a -/c.
case: i => [[|[|i]] ?] //; case: j => [[|[|j]] ?] //=; rewrite ?wna_q11E ?wna_q2E ?mulr0 ?mul0r ?addr0 ?add0r.
- exact: aa.
- by rewrite mulrC divfK.
- by rewrite divfK.
- rewrite cc mulrACA -invfM aa; field.
  by rewrite Tn0 qn0.
Qed.

Lemma blocks_scale d (c : R) (B : 'M[R]_2) :
  blocks (O:=O) d (c *: B) = c *: (blocks (O:=O) d B : 'M[R]_(dim_n d)) :> 'M[R]_(dim_n d).
Proof.
case: d; rewrite /blocks //.
  by rewrite !blocks2_block (@scale_block_mx _ 2 2 2 2) !scaler0.
by rewrite !blocks3_block (@scale_block_mx _ 2 (2+2) 2 (2+2)) (@scale_block_mx _ 2 2 2 2) !scaler0.
Qed.

(* in every real closed field the local premise of C16_noise_cov is satisfiable: an explicit factor *)
Lemma wna_factor_exists d (T q : R) : 0 < T -> 0 < q ->
  let L : 'M[R]_(dim_n d) := blocks (O:=O) d (chol2 T q) in
  L *m L^T = wna_Q (O:=O) d T q.
Proof. by move=> T0 q0 L; rewrite /L blocks_mul_tr chol2_factor // blocks_scale. Qed.
End FactorExists.
