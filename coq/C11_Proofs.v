(* C11_Proofs.v — lemmas about the container model of C11_Model.v, for every
   scalar record S and every value junk of an uninitialised cell.  Plain lists
   and lia; no axioms. *)
Require Import ZArith List Bool Arith Lia.
Require Import BFL.Ops BFL.C11_Model.
Import ListNotations.

(* ------------------------------------------------------------ generic list / loop lemmas *)
Lemma nth_map_seq {X} (g : nat -> X) (c j : nat) (d : X) :
  j < c -> nth j (map g (seq 0 c)) d = g j.
Proof.
  intros H. rewrite (nth_indep _ d (g 0)) by (rewrite map_length, seq_length; exact H).
  rewrite map_nth. rewrite seq_nth by exact H. reflexivity.
Qed.

Lemma fold_left_inv {X Y} (P : X -> Prop) (f : X -> Y -> X) (l : list Y) (x : X) :
  P x -> (forall y a, P y -> P (f y a)) -> P (fold_left f l x).
Proof. revert x. induction l; simpl; intros; auto. Qed.

Lemma fold_seq_inv {X} (f : X -> nat -> X) (P : nat -> X -> Prop) (n : nat) (x : X) :
  P 0 x -> (forall k y, k < n -> P k y -> P (S k) (f y k)) -> P n (fold_left f (seq 0 n) x).
Proof.
  induction n; intros H0 Hs; [simpl; auto|].
  rewrite seq_S, fold_left_app. simpl. apply Hs; auto.
Qed.

Lemma run_ops_inv {X O} (P : X -> Prop) (ok : O -> bool) (def : O -> X -> bool) (app : O -> X -> X) :
  (forall o y, P y -> ok o = true -> def o y = true -> P (app o y)) ->
  forall ops x y, P x -> forallb ok ops = true -> run_ops def app ops x = Some y -> P y.
Proof.
  intros Hs. induction ops as [|o r IH]; simpl; intros x y Hx Hok Hr.
  - injection Hr as <-. exact Hx.
  - apply andb_true_iff in Hok. destruct Hok as [Ho Hr'].
    destruct (def o x) eqn:D; [|discriminate]. eapply IH; [|exact Hr'|exact Hr]. apply Hs; auto.
Qed.

Lemma forallb_true {O} (ops : list O) : forallb (fun _ => true) ops = true.
Proof. induction ops; simpl; auto. Qed.

Lemma divmod_inj d i j i' j' : j < d -> j' < d -> i * d + j = i' * d + j' -> i = i' /\ j = j'.
Proof.
  intros Hj Hj' E.
  assert (i = i').
  { destruct (Nat.lt_trichotomy i i') as [L|[L|L]]; auto; exfalso; nia. }
  subst. lia.
Qed.

Lemma block_col_in d a n i k : k < d -> n * d + a <= i * d + k -> i * d + k < n * d + d -> i = n.
Proof. intros. destruct (Nat.lt_trichotomy i n) as [L|[L|L]]; auto; exfalso; nia. Qed.

Ltac bdestruct :=
  repeat match goal with
         | |- context [?a <? ?b] => destruct (Nat.ltb_spec a b)
         | |- context [?a <=? ?b] => destruct (Nat.leb_spec a b)
         | |- context [?a =? ?b] => destruct (Nat.eqb_spec a b)
         end; simpl.

(* the same, pruning contradictory branches as soon as they appear *)
Ltac bprune :=
  repeat (match goal with
          | |- context [?a <? ?b] => destruct (Nat.ltb_spec a b)
          | |- context [?a <=? ?b] => destruct (Nat.leb_spec a b)
          | |- context [?a =? ?b] => destruct (Nat.eqb_spec a b)
          end; try (exfalso; lia); simpl).

(* ------------------------------------------------------------ pools of objects (generic) *)
Section PoolProofs.
Variables X O F : Type.
Variable def : O -> X -> bool.
Variable app : O -> X -> X.
Variable copy : X -> X.
Variable fresh : F -> X.
Variable bin_def : X -> X -> bool.
Variable bin : X -> X -> X.
Local Notation eval := (eval def app copy fresh bin_def bin).
Local Notation kstep := (kstep def app copy fresh bin_def bin).
Local Notation krun := (krun def app copy fresh bin_def bin).
Local Notation pool := (pool X).

Lemma slot_put_length (p : pool) i v : length (slot_put p i v) = length p.
Proof. revert i. induction p as [|h r IH]; intros [|i]; simpl; auto. Qed.

Lemma nth_error_slot_put_same (p : pool) i v : i < length p -> nth_error (slot_put p i v) i = Some v.
Proof.
  revert i. induction p as [|h r IH]; intros [|i]; simpl; intros H; try lia; auto. apply IH. lia.
Qed.

Lemma nth_error_slot_put_other (p : pool) i j v : j <> i -> nth_error (slot_put p i v) j = nth_error p j.
Proof.
  revert i j. induction p as [|h r IH]; intros [|i] [|j]; simpl; intros H; auto; try congruence.
Qed.

Lemma slot_kill_length (p : pool) i : length (slot_kill p i) = length p.
Proof. unfold slot_kill. destruct (nth_error p i) as [[x b]|]; auto. apply slot_put_length. Qed.

Lemma nth_error_slot_kill_other (p : pool) i j : j <> i -> nth_error (slot_kill p i) j = nth_error p j.
Proof.
  intros H. unfold slot_kill. destruct (nth_error p i) as [[x b]|]; auto. apply nth_error_slot_put_other; auto.
Qed.

(* a moved-from object is not available any more; the model keeps its (unspecified) value *)
Lemma slot_get_kill_same (p : pool) i : slot_get (slot_kill p i) i = None.
Proof.
  unfold slot_get, slot_kill. destruct (nth_error p i) as [[x b]|] eqn:E.
  - rewrite nth_error_slot_put_same; auto. apply nth_error_Some. congruence.
  - rewrite E. reflexivity.
Qed.

Lemma nth_error_slot_kill_fst (p : pool) i j x b : nth_error (slot_kill p i) j = Some (x, b) ->
  exists b', nth_error p j = Some (x, b').
Proof.
  destruct (Nat.eq_dec j i) as [->|NE].
  - unfold slot_kill. destruct (nth_error p i) as [[y c]|] eqn:E.
    + rewrite nth_error_slot_put_same by (apply nth_error_Some; congruence). intros H. injection H as <- <-. eauto.
    + rewrite E. discriminate.
  - rewrite nth_error_slot_kill_other by exact NE. eauto.
Qed.

Lemma slot_get_put_same (p : pool) i x : i < length p -> slot_get (slot_put p i (x, true)) i = Some x.
Proof. intros H. unfold slot_get. rewrite nth_error_slot_put_same by exact H. reflexivity. Qed.

Lemma slot_get_some (p : pool) i x : slot_get p i = Some x -> nth_error p i = Some (x, true) /\ i < length p.
Proof.
  unfold slot_get. destruct (nth_error p i) as [[y [|]]|] eqn:E; try discriminate.
  intros H. injection H as ->. split; auto. apply nth_error_Some. congruence.
Qed.

(* --- an invariant of the objects holds for every slot along every defined sequence *)
Definition pool_all (P : X -> Prop) (p : pool) : Prop := forall i x b, nth_error p i = Some (x, b) -> P x.

Section Inv.
Variable P : X -> Prop.
Variable ok : O -> bool.
Hypothesis Happ : forall o x, P x -> ok o = true -> def o x = true -> P (app o x).
Hypothesis Hcopy : forall x, P x -> P (copy x).
Hypothesis Hfresh : forall f, P (fresh f).
Hypothesis Hbin : forall a b, P a -> P b -> bin_def a b = true -> P (bin a b).

Lemma pool_all_put (p : pool) i x b : pool_all P p -> P x -> pool_all P (slot_put p i (x, b)).
Proof.
  intros Hp Hx j y c Hj. destruct (Nat.eq_dec j i) as [->|NE].
  - destruct (Nat.lt_ge_cases i (length p)) as [L|L].
    + rewrite nth_error_slot_put_same in Hj by exact L. injection Hj as <- <-. exact Hx.
    + assert (nth_error (slot_put p i (x, b)) i = None) by (apply nth_error_None; rewrite slot_put_length; exact L).
      congruence.
  - rewrite nth_error_slot_put_other in Hj by exact NE. eapply Hp; eauto.
Qed.

Lemma pool_all_kill (p : pool) i : pool_all P p -> pool_all P (slot_kill p i).
Proof. intros Hp j y c Hj. apply nth_error_slot_kill_fst in Hj. destruct Hj as [b' Hj]. eapply Hp; eauto. Qed.

Lemma pool_all_get (p : pool) i x : pool_all P p -> slot_get p i = Some x -> P x.
Proof. intros Hp H. apply slot_get_some in H. destruct H as [H _]. eapply Hp; eauto. Qed.

Lemma eval_inv (p : pool) e x : pool_all P p -> exp_all ok e = true -> eval p e = Some x -> P x.
Proof.
  intros Hp. revert x. induction e as [s|f|o e IH|a IHa b IHb]; simpl; intros x Hok He.
  - destruct (slot_get p s) as [y|] eqn:E; [|discriminate]. injection He as <-. apply Hcopy. eapply pool_all_get; eauto.
  - injection He as <-. apply Hfresh.
  - apply andb_true_iff in Hok. destruct Hok as [Ho Hok].
    destruct (eval p e) as [y|]; [|discriminate]. destruct (def o y) eqn:D; [|discriminate].
    injection He as <-. apply Happ; auto.
  - apply andb_true_iff in Hok. destruct Hok as [Ha Hb].
    destruct (eval p a) as [y|]; [|discriminate]. destruct (eval p b) as [z|]; [|discriminate].
    destruct (bin_def y z) eqn:D; [|discriminate]. injection He as <-. apply Hbin; auto.
Qed.

Lemma kstep_inv k (p p' : pool) : pool_all P p -> kop_all ok k = true -> kstep k p = Some p' ->
  pool_all P p' /\ length p' = length p.
Proof.
  intros Hp Hok Hk. destruct k as [i o|i|t s|t s|t e]; simpl in *.
  - destruct (slot_get p i) as [x|] eqn:E; [|discriminate]. destruct (def o x) eqn:D; [|discriminate].
    injection Hk as <-. split; [|apply slot_put_length]. apply pool_all_put; auto. apply Happ; auto.
    eapply pool_all_get; eauto.
  - destruct (slot_get p i); [|discriminate]. injection Hk as <-. auto.
  - destruct (slot_get p s) as [x|] eqn:E; [|discriminate]. destruct (t <? length p); [|discriminate].
    injection Hk as <-. split; [|apply slot_put_length]. apply pool_all_put; auto. apply Hcopy. eapply pool_all_get; eauto.
  - destruct (slot_get p s) as [x|] eqn:E; [|discriminate]. destruct (t <? length p); [|discriminate].
    injection Hk as <-. split.
    + apply pool_all_put; [destruct (t =? s); auto; apply pool_all_kill; auto|]. apply Hcopy. eapply pool_all_get; eauto.
    + rewrite slot_put_length. destruct (t =? s); auto. apply slot_kill_length.
  - destruct (eval p e) as [x|] eqn:E; [|discriminate]. destruct (t <? length p); [|discriminate].
    injection Hk as <-. split; [|apply slot_put_length]. apply pool_all_put; auto. eapply eval_inv; eauto.
Qed.

Lemma krun_inv ks (p p' : pool) : pool_all P p -> forallb (kop_all ok) ks = true -> krun ks p = Some p' ->
  pool_all P p' /\ length p' = length p.
Proof.
  revert p. induction ks as [|k r IH]; simpl; intros p Hp Hok Hr.
  - injection Hr as <-. auto.
  - apply andb_true_iff in Hok. destruct Hok as [Hk Hr'].
    destruct (kstep k p) as [q|] eqn:E; [|discriminate].
    destruct (kstep_inv k p q Hp Hk E) as [Hq Lq]. destruct (IH q Hq Hr' Hr) as [H1 H2]. split; auto. congruence.
Qed.
End Inv.

(* --- what the special member functions do: the target IS the source, nothing else changes *)
Hypothesis copy_id : forall x, copy x = x.

Lemma kstep_copy_exact t s (p p' : pool) x : slot_get p s = Some x -> kstep (KCopy t s) p = Some p' ->
  slot_get p' t = Some x /\ (forall i, i <> t -> nth_error p' i = nth_error p i).
Proof.
  intros Hs Hk. simpl in Hk. rewrite Hs in Hk. destruct (Nat.ltb_spec t (length p)); [|discriminate].
  injection Hk as <-. rewrite copy_id. split; [apply slot_get_put_same; auto|].
  intros i Hi. apply nth_error_slot_put_other; auto.
Qed.

Lemma kstep_move_exact t s (p p' : pool) x : slot_get p s = Some x -> kstep (KMove t s) p = Some p' ->
  slot_get p' t = Some x /\ (t <> s -> slot_get p' s = None)
  /\ (forall i, i <> t -> i <> s -> nth_error p' i = nth_error p i).
Proof.
  intros Hs Hk. simpl in Hk. rewrite Hs in Hk. destruct (Nat.ltb_spec t (length p)) as [L|L]; [|discriminate].
  injection Hk as <-. rewrite copy_id. destruct (Nat.eqb_spec t s) as [->|NE].
  - split; [apply slot_get_put_same; auto|]. split; [congruence|]. intros i Hi _. apply nth_error_slot_put_other; auto.
  - split; [apply slot_get_put_same; rewrite slot_kill_length; auto|]. split.
    + intros _. unfold slot_get. rewrite nth_error_slot_put_other by auto. apply slot_get_kill_same.
    + intros i Hi Hi'. rewrite nth_error_slot_put_other by auto. apply nth_error_slot_kill_other; auto.
Qed.

Lemma kstep_temp_exact t e (p p' : pool) : kstep (KTemp t e) p = Some p' ->
  (exists x, eval p e = Some x /\ slot_get p' t = Some x) /\ (forall i, i <> t -> nth_error p' i = nth_error p i).
Proof.
  intros Hk. simpl in Hk. destruct (eval p e) as [x|]; [|discriminate].
  destruct (Nat.ltb_spec t (length p)); [|discriminate]. injection Hk as <-.
  split; [exists x; split; auto; apply slot_get_put_same; auto|]. intros i Hi. apply nth_error_slot_put_other; auto.
Qed.

Lemma kstep_on_exact i o (p p' : pool) : kstep (KOn i o) p = Some p' ->
  (exists x, slot_get p i = Some x /\ def o x = true /\ slot_get p' i = Some (app o x))
  /\ (forall j, j <> i -> nth_error p' j = nth_error p j).
Proof.
  intros Hk. simpl in Hk. destruct (slot_get p i) as [x|] eqn:E; [|discriminate]. destruct (def o x) eqn:D; [|discriminate].
  injection Hk as <-. apply slot_get_some in E. destruct E as [_ L].
  split; [exists x; repeat split; auto; apply slot_get_put_same; auto|]. intros j Hj. apply nth_error_slot_put_other; auto.
Qed.

(* the value of an rvalue expression: a named object is its value; f(e) applies the operation *)
Lemma eval_slot (p : pool) s : eval p (ESlot s) = slot_get p s.
Proof. simpl. destruct (slot_get p s); auto. rewrite copy_id. reflexivity. Qed.

Lemma eval_op (p : pool) o e x : eval p e = Some x -> def o x = true -> eval p (EOp o e) = Some (app o x).
Proof. intros H D. simpl. rewrite H, D. reflexivity. Qed.

Lemma eval_bin (p : pool) a b x y : eval p a = Some x -> eval p b = Some y -> bin_def x y = true ->
  eval p (EBin a b) = Some (bin x y).
Proof. intros Ha Hb D. simpl. rewrite Ha, Hb, D. reflexivity. Qed.

(* r = f(s) and r = a + b for named objects s, a, b (which may be r itself) *)
Lemma kstep_temp_op_slot t s o (p p' : pool) x : slot_get p s = Some x ->
  kstep (KTemp t (EOp o (ESlot s))) p = Some p' ->
  def o x = true /\ slot_get p' t = Some (app o x) /\ (forall i, i <> t -> nth_error p' i = nth_error p i).
Proof.
  intros Hs Hk. destruct (kstep_temp_exact _ _ _ _ Hk) as [[y [E G]] H]. simpl in E. rewrite Hs, copy_id in E.
  destruct (def o x); [|discriminate]. injection E as <-. auto.
Qed.

Lemma kstep_temp_bin_slots t a b (p p' : pool) x y : slot_get p a = Some x -> slot_get p b = Some y ->
  kstep (KTemp t (EBin (ESlot a) (ESlot b))) p = Some p' ->
  bin_def x y = true /\ slot_get p' t = Some (bin x y) /\ (forall i, i <> t -> nth_error p' i = nth_error p i).
Proof.
  intros Ha Hb Hk. destruct (kstep_temp_exact _ _ _ _ Hk) as [[z [E G]] H]. simpl in E. rewrite Ha, Hb, !copy_id in E.
  destruct (bin_def x y); [|discriminate]. injection E as <-. auto.
Qed.

(* a one-slot pool on which only single-object operations run is the single-object history *)
Lemma krun_single ops x :
  krun (map (KOn 0) ops) [(x, true)] =
  match run_ops def app ops x with Some y => Some [(y, true)] | None => None end.
Proof.
  revert x. induction ops as [|o r IH]; intros x; simpl; auto.
  destruct (def o x); [apply IH|reflexivity].
Qed.
End PoolProofs.

Section C11.
Variable S : SOps.
Variable junk : T S.
Local Notation A := (T S).
Local Notation zero := (s0 S).
Local Notation mx := (mx S).
Local Notation gm := (gm S).
Local Notation pset := (pset S).
Local Notation mk := (mk S).
Local Notation get := (get S).

(* ------------------------------------------------------------ matrices *)
Definition wf (m : mx) : Prop :=
  length (mdata S m) = mcols S m /\ Forall (fun col => length col = mrows S m) (mdata S m).
Definition shape (m : mx) (r c : nat) : Prop := mrows S m = r /\ mcols S m = c /\ wf m.

Lemma get_mk r c f i j : i < r -> j < c -> get (mk r c f) i j = f i j.
Proof.
  intros Hi Hj. unfold C11_Model.get, C11_Model.mk. simpl.
  rewrite nth_map_seq by exact Hj. rewrite nth_map_seq by exact Hi. reflexivity.
Qed.

Lemma wf_mk r c f : wf (mk r c f).
Proof.
  unfold wf, C11_Model.mk; simpl. split.
  - rewrite map_length, seq_length. reflexivity.
  - apply Forall_forall. intros col Hin. apply in_map_iff in Hin. destruct Hin as [j [<- _]].
    rewrite map_length, seq_length. reflexivity.
Qed.

Lemma shape_mk r c f : shape (mk r c f) r c.
Proof. split; [reflexivity|split; [reflexivity|apply wf_mk]]. Qed.

Lemma mk_ext r c f g : (forall i j, i < r -> j < c -> f i j = g i j) -> mk r c f = mk r c g.
Proof.
  intros H. unfold C11_Model.mk. f_equal. apply map_ext_in. intros j Hj. apply in_seq in Hj.
  apply map_ext_in. intros i Hi. apply in_seq in Hi. apply H; lia.
Qed.

Lemma mk_get_id m : wf m -> mk (mrows S m) (mcols S m) (get m) = m.
Proof.
  destruct m as [r c data]. unfold wf, C11_Model.mk, C11_Model.get. simpl. intros [Hl Hf]. f_equal.
  apply nth_ext with (d := []) (d' := []).
  - rewrite map_length, seq_length. auto.
  - intros n Hn. rewrite map_length, seq_length in Hn. rewrite nth_map_seq by exact Hn.
    assert (Hc : length (nth n data []) = r).
    { rewrite Forall_forall in Hf. apply Hf. apply nth_In. lia. }
    apply nth_ext with (d := zero) (d' := zero).
    + rewrite map_length, seq_length. auto.
    + intros k Hk. rewrite map_length, seq_length in Hk. rewrite nth_map_seq by exact Hk. reflexivity.
Qed.

Lemma mx_ext m m' r c : shape m r c -> shape m' r c ->
  (forall i j, i < r -> j < c -> get m i j = get m' i j) -> m = m'.
Proof.
  intros (R1 & C1 & W1) (R2 & C2 & W2) H.
  rewrite <- (mk_get_id m W1), <- (mk_get_id m' W2). rewrite R1, R2, C1, C2. apply mk_ext. exact H.
Qed.

Lemma wfb_iff m : wfb S m = true <-> wf m.
Proof.
  unfold wfb, wf. rewrite andb_true_iff, Nat.eqb_eq, forallb_forall, Forall_forall.
  split; intros [H1 H2]; split; auto; intros x Hx; specialize (H2 x Hx); apply Nat.eqb_eq; auto.
Qed.

Lemma shapeb_iff m r c : shapeb S m r c = true <-> shape m r c.
Proof.
  unfold shapeb, shape. rewrite !andb_true_iff, !Nat.eqb_eq, wfb_iff. tauto.
Qed.

(* shapes of the Eigen primitives *)
Lemma shape_e_zero r c : shape (e_zero S r c) r c.
Proof. apply shape_mk. Qed.

Lemma shape_e_resize m r c : shape (e_resize S m r c) r c.
Proof. unfold e_resize. destruct (_ =? _); apply shape_mk. Qed.

Lemma shape_e_cresize_cols m r c0 c : shape m r c0 -> shape (e_cresize_cols S junk m c) r c.
Proof.
  intros (R & C & W). unfold e_cresize_cols. destruct (Nat.eqb_spec c (mcols S m)).
  - subst. repeat split; auto. apply W. apply W.
  - rewrite <- R. apply shape_mk.
Qed.

Lemma shape_e_cresize_vec v n0 n : shape v n0 1 -> shape (e_cresize_vec S junk v n) n 1.
Proof.
  intros (R & C & W). unfold e_cresize_vec. destruct (Nat.eqb_spec n (mrows S v)).
  - subst. repeat split; auto. apply W. apply W.
  - apply shape_mk.
Qed.

Lemma shape_e_cresize_rows m r0 c r : shape m r0 c -> shape (e_cresize_rows S m r) r c.
Proof.
  intros (R & C & W). unfold e_cresize_rows. destruct (Nat.eqb_spec r (mrows S m)).
  - subst. repeat split; auto. apply W. apply W.
  - rewrite <- C. apply shape_mk.
Qed.

Lemma shape_e_cresize_like m o r c : wf m -> shape o r c -> shape (e_cresize_like S m o) r c.
Proof.
  intros W (R & C & _). unfold e_cresize_like.
  destruct (Nat.eqb_spec (mrows S o) (mrows S m)); destruct (Nat.eqb_spec (mcols S o) (mcols S m)); simpl;
    try (rewrite <- R, <- C; apply shape_mk).
  repeat split; try congruence; apply W.
Qed.

Lemma shape_e_set_block m r c r0 c0 src : shape m r c -> shape (e_set_block S m r0 c0 src) r c.
Proof. intros (R & C & _). unfold e_set_block. rewrite R, C. apply shape_mk. Qed.

Lemma shape_e_set m r c i j x : shape m r c -> shape (e_set S m i j x) r c.
Proof. intros (R & C & _). unfold e_set. rewrite R, C. apply shape_mk. Qed.

Lemma shape_e_swap_cols m r c k a b : shape m r c -> shape (e_swap_cols S m k a b) r c.
Proof. intros (R & C & _). unfold e_swap_cols. rewrite R, C. apply shape_mk. Qed.

Lemma shape_e_fill m r c b : shape m r c -> shape (e_fill S m b) r c.
Proof. intros (R & C & _). unfold e_fill. rewrite R, C. apply shape_mk. Qed.

Lemma shape_e_col m r c j : shape m r c -> shape (e_col S m j) r 1.
Proof. intros (R & C & _). unfold e_col. rewrite R. apply shape_mk. Qed.

Lemma shape_e_middle_cols m r c c0 w : shape m r c -> shape (e_middle_cols S m c0 w) r w.
Proof. intros (R & C & _). unfold e_middle_cols. rewrite R. apply shape_mk. Qed.

(* cells of the Eigen primitives (in-range indices) *)
Lemma get_e_zero r c i j : i < r -> j < c -> get (e_zero S r c) i j = zero.
Proof. intros. unfold e_zero. rewrite get_mk; auto. Qed.

Lemma get_e_cresize_cols m c i j : i < mrows S m -> j < c ->
  get (e_cresize_cols S junk m c) i j = if j <? mcols S m then get m i j else junk.
Proof.
  intros Hi Hj. unfold e_cresize_cols. destruct (Nat.eqb_spec c (mcols S m)).
  - subst. destruct (Nat.ltb_spec j (mcols S m)); [reflexivity|lia].
  - rewrite get_mk; auto.
Qed.

Lemma get_e_cresize_vec v n i : i < n ->
  get (e_cresize_vec S junk v n) i 0 = if i <? mrows S v then get v i 0 else junk.
Proof.
  intros Hi. unfold e_cresize_vec. destruct (Nat.eqb_spec n (mrows S v)).
  - subst. destruct (Nat.ltb_spec i (mrows S v)); [reflexivity|lia].
  - rewrite get_mk; auto.
Qed.

Lemma get_e_cresize_rows m r i j : i < r -> j < mcols S m ->
  get (e_cresize_rows S m r) i j = if i <? mrows S m then get m i j else zero.
Proof.
  intros Hi Hj. unfold e_cresize_rows. destruct (Nat.eqb_spec r (mrows S m)).
  - subst. destruct (Nat.ltb_spec i (mrows S m)); [reflexivity|lia].
  - rewrite get_mk; auto.
Qed.

Lemma get_e_cresize_like m o i j : i < mrows S o -> j < mcols S o ->
  get (e_cresize_like S m o) i j = if (i <? mrows S m) && (j <? mcols S m) then get m i j else get o i j.
Proof.
  intros Hi Hj. unfold e_cresize_like.
  destruct (Nat.eqb_spec (mrows S o) (mrows S m)); destruct (Nat.eqb_spec (mcols S o) (mcols S m)); simpl;
    try (rewrite get_mk; auto; fail).
  destruct (Nat.ltb_spec i (mrows S m)); destruct (Nat.ltb_spec j (mcols S m)); simpl; try reflexivity; lia.
Qed.

Lemma get_e_set_block m r0 c0 src i j : i < mrows S m -> j < mcols S m ->
  get (e_set_block S m r0 c0 src) i j =
  if (r0 <=? i) && (i <? r0 + mrows S src) && (c0 <=? j) && (j <? c0 + mcols S src)
  then get src (i - r0) (j - c0) else get m i j.
Proof. intros. unfold e_set_block. rewrite get_mk; auto. Qed.

Lemma get_e_set m i0 j0 x i j : i < mrows S m -> j < mcols S m ->
  get (e_set S m i0 j0 x) i j = if (i =? i0) && (j =? j0) then x else get m i j.
Proof. intros. unfold e_set. rewrite get_mk; auto. Qed.

Lemma get_e_swap_cols m k a b i j : i < mrows S m -> j < mcols S m ->
  get (e_swap_cols S m k a b) i j =
  if i <? k then (if j =? a then get m i b else if j =? b then get m i a else get m i j) else get m i j.
Proof. intros. unfold e_swap_cols. rewrite get_mk; auto. Qed.


(* ------------------------------------------------------------ the invariant *)
Definition Consistent (g : gm) : Prop :=
  dim S g = dl S g + dc S g * dcc S g + dn S g
  /\ dcc S g = (if use_quat S g then 4 else 1)
  /\ dcov S g = dl S g + dc S g * (if use_quat S g then 3 else 1) + dn S g
  /\ shape (mean_ S g) (dim S g) (components S g)
  /\ shape (cov_ S g) (dcov S g) (dcov S g * components S g)
  /\ shape (weight_ S g) (components S g) 1.

Definition Consistent_ps (p : pset) : Prop :=
  Consistent (base S p) /\ shape (state_ S p) (dim S (base S p)) (components S (base S p)).

Lemma gm_consistentb_iff g : gm_consistentb S g = true <-> Consistent g.
Proof.
  unfold gm_consistentb, Consistent. rewrite !andb_true_iff, !Nat.eqb_eq, !shapeb_iff. tauto.
Qed.

Lemma ps_consistentb_iff p : ps_consistentb S p = true <-> Consistent_ps p.
Proof.
  unfold ps_consistentb, Consistent_ps. rewrite andb_true_iff, gm_consistentb_iff, shapeb_iff. tauto.
Qed.

(* --- constructor *)
Definition uniform (c : nat) : A := sdiv S (s1 S) (sofnat S c).

Lemma ctor_weights c :
  let w := fold_left (fun w i => e_set S w i 0 (uniform c)) (seq 0 c) (e_zero S c 1) in
  shape w c 1 /\ forall i, i < c -> get w i 0 = uniform c.
Proof.
  cbv zeta.
  apply (fold_seq_inv (fun w i => e_set S w i 0 (uniform c))
           (fun k w => shape w c 1 /\ forall i, i < k -> get w i 0 = uniform c)).
  - split; [apply shape_e_zero|intros; lia].
  - intros k y Hk [Hs Hv]. split; [apply shape_e_set; exact Hs|].
    intros i Hi. destruct Hs as (R & C & _). rewrite get_e_set by lia.
    destruct (Nat.eqb_spec i k); simpl; auto. apply Hv. lia.
Qed.

Lemma gm_ctor_consistent c l ci q : Consistent (gm_ctor S c l ci q).
Proof.
  unfold Consistent, gm_ctor; simpl. destruct q; simpl;
  (repeat split; try lia; try apply shape_e_zero; try apply wf_mk; try apply (ctor_weights c)).
Qed.

Lemma gm_ctor_fields c l ci q :
  let g := gm_ctor S c l ci q in
  components S g = c /\ dl S g = l /\ dc S g = ci /\ dn S g = 0 /\ use_quat S g = q.
Proof. cbv zeta. unfold gm_ctor; simpl. auto. Qed.

Lemma gm_ctor_uniform c l ci q i : i < c -> gm_weight S (gm_ctor S c l ci q) i = uniform c.
Proof. intros H. unfold gm_weight, gm_ctor; simpl. apply (ctor_weights c). exact H. Qed.

Lemma gm_ctor_zero c l ci q :
  let g := gm_ctor S c l ci q in
  (forall r i, r < dim S g -> i < c -> get (mean_ S g) r i = zero)
  /\ (forall r k, r < dcov S g -> k < dcov S g * c -> get (cov_ S g) r k = zero).
Proof. cbv zeta. unfold gm_ctor; simpl. split; intros; apply get_e_zero; auto. Qed.

(* --- copy, fill *)
Lemma gm_copy_id g : gm_copy S g = g.
Proof. destruct g; reflexivity. Qed.

Lemma gm_fill_consistent b g : Consistent g -> Consistent (gm_fill S b g).
Proof.
  intros (H1 & H2 & H3 & H4 & H5 & H6). unfold Consistent, gm_fill; simpl.
  repeat split; auto; try (apply shape_e_fill; assumption); try apply wf_mk;
  try (apply (shape_e_fill _ _ _ _ H4)); try (apply (shape_e_fill _ _ _ _ H5)); try (apply (shape_e_fill _ _ _ _ H6)).
Qed.

(* --- writes through the non-const accessors *)
Lemma gm_with_consistent g m c w : Consistent g ->
  shape m (dim S g) (components S g) -> shape c (dcov S g) (dcov S g * components S g) -> shape w (components S g) 1 ->
  Consistent (gm_with S g m c w).
Proof. intros (H1 & H2 & H3 & _) Hm Hc Hw. unfold Consistent, gm_with; simpl. auto 10. Qed.

Lemma gm_set_mean_el_consistent g i j x : Consistent g -> Consistent (gm_set_mean_el S g i j x).
Proof.
  intros H. pose proof H as (_ & _ & _ & H4 & H5 & H6). apply gm_with_consistent; auto. apply shape_e_set; auto.
Qed.
Lemma gm_set_cov_el_consistent g i j k x : Consistent g -> Consistent (gm_set_cov_el S g i j k x).
Proof.
  intros H. pose proof H as (_ & _ & _ & H4 & H5 & H6). apply gm_with_consistent; auto. apply shape_e_set; auto.
Qed.
Lemma gm_set_weight_consistent g i x : Consistent g -> Consistent (gm_set_weight S g i x).
Proof.
  intros H. pose proof H as (_ & _ & _ & H4 & H5 & H6). apply gm_with_consistent; auto. apply shape_e_set; auto.
Qed.
Lemma gm_set_mean_consistent g i v : Consistent g -> Consistent (gm_set_mean S g i v).
Proof.
  intros H. pose proof H as (_ & _ & _ & H4 & H5 & H6). apply gm_with_consistent; auto. apply shape_e_set_block; auto.
Qed.
Lemma gm_set_cov_consistent g i m : Consistent g -> Consistent (gm_set_cov S g i m).
Proof.
  intros H. pose proof H as (_ & _ & _ & H4 & H5 & H6). apply gm_with_consistent; auto. apply shape_e_set_block; auto.
Qed.

Lemma gm_fill_el_consistent b g : Consistent g -> Consistent (gm_fill_el S b g).
Proof.
  intros H. unfold gm_fill_el.
  apply fold_left_inv; [apply fold_left_inv; [apply fold_left_inv; [exact H|]|]|]; intros.
  - apply gm_set_mean_el_consistent; auto.
  - apply gm_set_cov_el_consistent; auto.
  - apply gm_set_weight_consistent; auto.
Qed.

Lemma gm_fill_blk_consistent b g : Consistent g -> Consistent (gm_fill_blk S b g).
Proof.
  intros H. unfold gm_fill_blk. apply fold_left_inv; [exact H|]. intros.
  apply gm_set_weight_consistent, gm_set_cov_consistent, gm_set_mean_consistent; auto.
Qed.

(* --- resize *)
Lemma gm_resize_consistent c l ci g : Consistent g -> Consistent (gm_resize S junk c l ci g).
Proof.
  intros HC. pose proof HC as (H1 & H2 & H3 & H4 & H5 & H6). unfold gm_resize.
  destruct ((dl S g =? l) && (dc S g =? ci) && (components S g =? c)); [exact HC|].
  destruct ((dim S g =? l + ci * dcc S g) &&
            (dcov S g =? (if use_quat S g then l + ci * (dcc S g - 1) else l + ci * dcc S g)) &&
            negb (components S g =? c)) eqn:E.
  - apply andb_true_iff in E. destruct E as [E _]. apply andb_true_iff in E. destruct E as [E1 E2].
    apply Nat.eqb_eq in E1. apply Nat.eqb_eq in E2.
    unfold Consistent; simpl. rewrite H2. rewrite H2 in E1, E2.
    destruct (use_quat S g); simpl in *;
    (split; [lia|]; split; [reflexivity|]; split; [lia|]; split; [|split]).
    all: try (rewrite <- E1; eapply shape_e_cresize_cols; eassumption).
    all: try (rewrite <- E2; eapply shape_e_cresize_cols; eassumption).
    all: try (eapply shape_e_cresize_vec; eassumption).
  - unfold Consistent; simpl. rewrite H2.
    destruct (use_quat S g); simpl;
    (split; [lia|]; split; [reflexivity|]; split; [lia|]; split; [|split]); apply shape_e_resize.
Qed.

(* --- augmentWithNoise: shapes *)
Lemma shape_relocate_comp dold dcov' cv i r c : shape cv r c -> shape (relocate_comp S dold dcov' cv i) r c.
Proof. intros H. unfold relocate_comp. apply fold_left_inv; auto. intros. apply shape_e_swap_cols. auto. Qed.

Lemma shape_relocate comps dold dcov' cv r c : shape cv r c -> shape (relocate S comps dold dcov' cv) r c.
Proof. intros H. unfold relocate. apply fold_left_inv; auto. intros. apply shape_relocate_comp. auto. Qed.

Lemma shape_place_noise comps dold dadd dcov' q cv r c : shape cv r c -> shape (place_noise S comps dold dadd dcov' q cv) r c.
Proof. intros H. unfold place_noise. apply fold_left_inv; auto. intros. repeat apply shape_e_set_block. auto. Qed.

Lemma gm_augment_consistent q g : Consistent g -> Consistent (snd (gm_augment S q g)).
Proof.
  intros HC. pose proof HC as (H1 & H2 & H3 & H4 & H5 & H6). unfold gm_augment.
  destruct (negb (mrows S q =? mcols S q)); [exact HC|]. unfold Consistent; simpl.
  split; [lia|]. split; [exact H2|]. split; [lia|]. split; [|split; [|exact H6]].
  - apply shape_e_set_block. eapply shape_e_cresize_rows. eassumption.
  - apply shape_place_noise. apply shape_relocate. apply shape_e_cresize_like; [apply H5|apply shape_e_zero].
Qed.

Lemma gm_augment_ret q g : fst (gm_augment S q g) = (mrows S q =? mcols S q).
Proof. unfold gm_augment. destruct (mrows S q =? mcols S q); reflexivity. Qed.

Lemma gm_augment_nonsquare q g : mrows S q <> mcols S q -> gm_augment S q g = (false, g).
Proof. intros H. unfold gm_augment. destruct (Nat.eqb_spec (mrows S q) (mcols S q)); [contradiction|reflexivity]. Qed.

(* --- all operations on a mixture / a Gaussian *)
Lemma gm_apply_consistent o g : Consistent g -> Consistent (gm_apply S junk o g).
Proof.
  intros H. destruct o; simpl.
  - apply gm_fill_consistent; auto.
  - rewrite gm_copy_id; auto.
  - apply gm_resize_consistent; auto.
  - apply gm_augment_consistent; auto.
  - apply gm_augment_consistent; auto.
  - apply gm_fill_el_consistent; auto.
  - apply gm_fill_blk_consistent; auto.
Qed.

(* every history along which the C++ is defined *)
Lemma gm_run_consistent ops g g' : Consistent g -> gm_run S junk ops g = Some g' -> Consistent g'.
Proof.
  intros H R. eapply (run_ops_inv Consistent (fun _ => true)); [|exact H|apply forallb_true|exact R].
  intros. apply gm_apply_consistent. auto.
Qed.

Definition Gaussian_ok (g : gm) : Prop := Consistent g /\ components S g = 1.

Lemma gm_resize_components c l ci g : components S (gm_resize S junk c l ci g) = c \/ (gm_resize S junk c l ci g = g /\ components S g = c).
Proof.
  unfold gm_resize.
  destruct ((dl S g =? l) && (dc S g =? ci) && (components S g =? c)) eqn:E.
  - right. split; auto. apply andb_true_iff in E. destruct E as [_ E]. apply Nat.eqb_eq in E. auto.
  - left. clear E. destruct (_ && _ && _); reflexivity.
Qed.

Lemma gm_augment_components q g : components S (snd (gm_augment S q g)) = components S g.
Proof. unfold gm_augment. destruct (negb _); reflexivity. Qed.

Lemma gauss_apply_consistent o g : Consistent g -> Consistent (gauss_apply S junk o g).
Proof.
  intros H. destruct o; simpl.
  - apply gm_fill_consistent; auto.
  - rewrite gm_copy_id; auto.
  - apply gm_resize_consistent; auto.
  - apply gm_augment_consistent; auto.
  - apply gm_augment_consistent; auto.
  - apply gm_resize_consistent; auto.
  - apply gm_fill_el_consistent; auto.
  - apply gm_fill_blk_consistent; auto.
Qed.

Lemma gm_fill_el_components b g : components S (gm_fill_el S b g) = components S g.
Proof.
  unfold gm_fill_el.
  apply (fold_left_inv (fun y => components S y = components S g)); [|intros y a E; exact E].
  apply (fold_left_inv (fun y => components S y = components S g)); [|intros y a E; exact E].
  apply (fold_left_inv (fun y => components S y = components S g)); [reflexivity|intros y a E; exact E].
Qed.

Lemma gm_fill_blk_components b g : components S (gm_fill_blk S b g) = components S g.
Proof.
  unfold gm_fill_blk.
  apply (fold_left_inv (fun y => components S y = components S g)); [reflexivity|intros y a E; exact E].
Qed.

Lemma gauss_apply_ok o g : Gaussian_ok g -> gaussop_single S o = true -> Gaussian_ok (gauss_apply S junk o g).
Proof.
  intros [H H1] Hs. split; [apply gauss_apply_consistent; exact H|]. destruct o; simpl in *.
  - exact H1.
  - exact H1.
  - unfold gauss_resize. destruct (gm_resize_components 1 l ci g) as [E|[E E']]; [exact E|rewrite E; exact H1].
  - rewrite gm_augment_components. exact H1.
  - rewrite gm_augment_components. exact H1.
  - apply Nat.eqb_eq in Hs. subst c.
    destruct (gm_resize_components 1 l ci g) as [E|[E E']]; [exact E|rewrite E; exact H1].
  - rewrite gm_fill_el_components. exact H1.
  - rewrite gm_fill_blk_components. exact H1.
Qed.

Lemma gauss_run_consistent ops g g' : Consistent g -> gauss_run S junk ops g = Some g' -> Consistent g'.
Proof.
  intros H R. eapply (run_ops_inv Consistent (fun _ => true)); [|exact H|apply forallb_true|exact R].
  intros. apply gauss_apply_consistent. auto.
Qed.

Lemma gauss_run_ok ops g g' : Gaussian_ok g -> forallb (gaussop_single S) ops = true ->
  gauss_run S junk ops g = Some g' -> Gaussian_ok g'.
Proof.
  intros H Hs R. eapply (run_ops_inv Gaussian_ok (gaussop_single S)); [|exact H|exact Hs|exact R].
  intros. apply gauss_apply_ok; auto.
Qed.

(* --- particle sets *)
Lemma ps_ctor_consistent c l ci q : Consistent_ps (ps_ctor S c l ci q).
Proof. split; [apply gm_ctor_consistent|]. unfold ps_ctor; simpl. apply shape_e_zero. Qed.

Lemma ps_copy_id p : ps_copy S p = p.
Proof. destruct p. unfold ps_copy; simpl. rewrite gm_copy_id. reflexivity. Qed.

Lemma ps_fill_consistent b p : Consistent_ps p -> Consistent_ps (ps_fill S b p).
Proof.
  intros [H Hs]. split; simpl; [apply gm_fill_consistent; auto|]. apply shape_e_fill. exact Hs.
Qed.

Lemma gm_fill_el_dim b g : dim S (gm_fill_el S b g) = dim S g.
Proof.
  unfold gm_fill_el.
  apply (fold_left_inv (fun y => dim S y = dim S g)); [|intros y a E; exact E].
  apply (fold_left_inv (fun y => dim S y = dim S g)); [|intros y a E; exact E].
  apply (fold_left_inv (fun y => dim S y = dim S g)); [reflexivity|intros y a E; exact E].
Qed.

Lemma gm_fill_blk_dim b g : dim S (gm_fill_blk S b g) = dim S g.
Proof.
  unfold gm_fill_blk. apply (fold_left_inv (fun y => dim S y = dim S g)); [reflexivity|intros y a E; exact E].
Qed.

Lemma ps_fill_el_consistent b p : Consistent_ps p -> Consistent_ps (ps_fill_el S b p).
Proof.
  intros [H Hs]. unfold ps_fill_el.
  apply (fold_left_inv (fun y => Consistent_ps y)).
  - split; simpl; [apply gm_fill_el_consistent; auto|]. rewrite gm_fill_el_dim, gm_fill_el_components. exact Hs.
  - intros y a [Hy Hys]. split; simpl; auto. apply shape_e_set. exact Hys.
Qed.

Lemma ps_fill_blk_consistent b p : Consistent_ps p -> Consistent_ps (ps_fill_blk S b p).
Proof.
  intros [H Hs]. unfold ps_fill_blk.
  apply (fold_left_inv (fun y => Consistent_ps y)).
  - split; simpl; [apply gm_fill_blk_consistent; auto|]. rewrite gm_fill_blk_dim, gm_fill_blk_components. exact Hs.
  - intros y a [Hy Hys]. split; simpl; auto. apply shape_e_set_block. exact Hys.
Qed.

Lemma gm_resize_dim c l ci g :
  (gm_resize S junk c l ci g = g /\ dl S g = l /\ dc S g = ci /\ components S g = c)
  \/ (dim S (gm_resize S junk c l ci g) = l + ci * dcc S g /\ components S (gm_resize S junk c l ci g) = c
      /\ ((dl S g =? l) && (dc S g =? ci) && (components S g =? c)) = false).
Proof.
  unfold gm_resize.
  destruct ((dl S g =? l) && (dc S g =? ci) && (components S g =? c)) eqn:E.
  - left. apply andb_true_iff in E. destruct E as [E E3]. apply andb_true_iff in E. destruct E as [E1 E2].
    apply Nat.eqb_eq in E1, E2, E3. auto.
  - right. clear E. destruct (_ && _ && _); simpl; auto.
Qed.

Lemma ps_resize_consistent c l ci p : Consistent_ps p -> Consistent_ps (ps_resize S junk c l ci p).
Proof.
  intros [H Hs]. unfold ps_resize.
  destruct (gm_resize_dim c l ci (base S p)) as [(E & E1 & E2 & E3)|(E1 & E2 & E3)].
  - rewrite E1, E2, E3, !Nat.eqb_refl. simpl. split; auto.
  - rewrite E3. split; simpl; [apply gm_resize_consistent; auto|]. rewrite E1, E2.
    destruct ((dim S (base S p) =? l + ci * dcc S (base S p)) && negb (components S (base S p) =? c)) eqn:F.
    + apply andb_true_iff in F. destruct F as [F _]. apply Nat.eqb_eq in F. rewrite <- F.
      eapply shape_e_cresize_cols. eassumption.
    + apply shape_e_resize.
Qed.

Lemma ps_augment_consistent q p : Consistent_ps p -> Consistent_ps (snd (ps_augment S q p)).
Proof.
  intros [H Hs]. unfold ps_augment. destruct (negb (fst (gm_augment S q (base S p)))); simpl; [split; auto|].
  split; simpl; [apply gm_augment_consistent; auto|]. rewrite gm_augment_components.
  apply shape_e_set_block. eapply shape_e_cresize_rows. eassumption.
Qed.

(* the operand of a concatenation must be a particle set of the same total and covariance size *)
Definition concat_ok (rhs p : pset) : Prop :=
  Consistent_ps rhs /\ dim S (base S rhs) = dim S (base S p) /\ dcov S (base S rhs) = dcov S (base S p).

Lemma ps_concat_consistent rhs p : Consistent_ps p -> Consistent_ps (ps_concat S junk rhs p).
Proof.
  intros [(H1 & H2 & H3 & H4 & H5 & H6) Hs]. unfold ps_concat.
  split; [unfold Consistent|]; simpl.
  - split; [exact H1|]. split; [exact H2|]. split; [exact H3|]. split; [|split].
    + apply shape_e_set_block. eapply shape_e_cresize_cols. eassumption.
    + apply shape_e_set_block. eapply shape_e_cresize_cols. eassumption.
    + apply shape_e_set_block. eapply shape_e_cresize_vec. eassumption.
  - apply shape_e_set_block. eapply shape_e_cresize_cols. eassumption.
Qed.

Lemma ps_apply_consistent o p : Consistent_ps p -> Consistent_ps (ps_apply S junk o p).
Proof.
  intros H. destruct o; simpl.
  - apply ps_fill_consistent; auto.
  - rewrite ps_copy_id; auto.
  - apply ps_resize_consistent; auto.
  - apply ps_augment_consistent; auto.
  - apply ps_concat_consistent; auto.
  - unfold ps_plus. rewrite ps_copy_id. apply ps_concat_consistent; auto.
  - apply ps_augment_consistent; auto.
  - apply ps_concat_consistent; auto.
  - apply ps_fill_el_consistent; auto.
  - apply ps_fill_blk_consistent; auto.
Qed.

Lemma ps_run_consistent ops p p' : Consistent_ps p -> ps_run S junk ops p = Some p' -> Consistent_ps p'.
Proof.
  intros H R. eapply (run_ops_inv Consistent_ps (fun _ => true)); [|exact H|apply forallb_true|exact R].
  intros. apply ps_apply_consistent. auto.
Qed.


(* --- pools of objects: construction / assignment from other objects and from temporaries *)
Lemma pool0_all {Y} (P : Y -> Prop) (f : layout -> Y) ls : (forall l, P (f l)) ->
  pool_all Y P (map (fun l => (f l, true)) ls).
Proof.
  intros H i x b Hi. apply nth_error_In in Hi. apply in_map_iff in Hi. destruct Hi as [l [E _]].
  injection E as <- _. apply H.
Qed.

Lemma gm_fresh_consistent f : Consistent (gm_fresh S f).
Proof. destruct f as [[[c l] ci] q]. apply gm_ctor_consistent. Qed.
Lemma gauss_fresh_ok f : Gaussian_ok (gauss_fresh S f).
Proof. destruct f as [[[c l] ci] q]. split; [apply gm_ctor_consistent|reflexivity]. Qed.
Lemma ps_fresh_consistent f : Consistent_ps (ps_fresh S f).
Proof. destruct f as [[[c l] ci] q]. apply ps_ctor_consistent. Qed.

Lemma gm_krun_consistent ks p p' : pool_all gm Consistent p -> gm_krun S junk ks p = Some p' ->
  pool_all gm Consistent p' /\ length p' = length p.
Proof.
  intros H R. eapply (krun_inv _ _ _ _ _ _ _ _ _ Consistent (fun _ => true)); [| | | |exact H| |exact R].
  - intros. apply gm_apply_consistent; auto.
  - intros. rewrite gm_copy_id; auto.
  - apply gm_fresh_consistent.
  - intros a b _ _ D. discriminate D.
  - clear. induction ks as [|k r IH]; simpl; auto. rewrite IH, andb_true_r.
    destruct k as [| | | |t e]; simpl; auto. induction e; simpl; auto. rewrite IHe1, IHe2. reflexivity.
Qed.

Lemma gauss_krun_consistent ks p p' : pool_all gm Consistent p -> gauss_krun S junk ks p = Some p' ->
  pool_all gm Consistent p' /\ length p' = length p.
Proof.
  intros H R. eapply (krun_inv _ _ _ _ _ _ _ _ _ Consistent (fun _ => true)); [| | | |exact H| |exact R].
  - intros. apply gauss_apply_consistent; auto.
  - intros. rewrite gm_copy_id; auto.
  - intros f. apply gauss_fresh_ok.
  - intros a b _ _ D. discriminate D.
  - clear. induction ks as [|k r IH]; simpl; auto. rewrite IH, andb_true_r.
    destruct k as [| | | |t e]; simpl; auto. induction e; simpl; auto. rewrite IHe1, IHe2. reflexivity.
Qed.

Lemma gauss_krun_ok ks p p' : pool_all gm Gaussian_ok p ->
  forallb (kop_all (gaussop_single S)) ks = true -> gauss_krun S junk ks p = Some p' ->
  pool_all gm Gaussian_ok p' /\ length p' = length p.
Proof.
  intros H Hs R. eapply (krun_inv _ _ _ _ _ _ _ _ _ Gaussian_ok (gaussop_single S)); [| | | |exact H|exact Hs|exact R].
  - intros. apply gauss_apply_ok; auto.
  - intros. rewrite gm_copy_id; auto.
  - apply gauss_fresh_ok.
  - intros a b _ _ D. discriminate D.
Qed.

Lemma ps_krun_consistent ks p p' : pool_all pset Consistent_ps p -> ps_krun S junk ks p = Some p' ->
  pool_all pset Consistent_ps p' /\ length p' = length p.
Proof.
  intros H R. eapply (krun_inv _ _ _ _ _ _ _ _ _ Consistent_ps (fun _ => true)); [| | | |exact H| |exact R].
  - intros. apply ps_apply_consistent; auto.
  - intros. rewrite ps_copy_id; auto.
  - apply ps_fresh_consistent.
  - intros a b Ha _ _. unfold ps_plus. rewrite ps_copy_id. apply ps_concat_consistent; auto.
  - clear. induction ks as [|k r IH]; simpl; auto. rewrite IH, andb_true_r.
    destruct k as [| | | |t e]; simpl; auto. induction e; simpl; auto. rewrite IHe1, IHe2. reflexivity.
Qed.

(* ------------------------------------------------------------ accessors *)
(* the list-of-components view used by the algorithm-level models (C01-C08) *)
Definition gm_comps (g : gm) : list (mx * mx * A) :=
  map (fun i => (gm_mean S g i, gm_cov S g i, gm_weight S g i)) (seq 0 (components S g)).

Lemma gm_comps_length g : length (gm_comps g) = components S g.
Proof. unfold gm_comps. rewrite map_length, seq_length. reflexivity. Qed.

Lemma gm_comps_nth g i d : i < components S g ->
  nth i (gm_comps g) d = (gm_mean S g i, gm_cov S g i, gm_weight S g i).
Proof. intros H. unfold gm_comps. rewrite nth_map_seq by exact H. reflexivity. Qed.

Lemma gm_accessors g i : Consistent g -> i < components S g ->
  (* in range: no Eigen assertion *)
  (i < mcols S (mean_ S g) /\ dcov S g * i + dcov S g <= mcols S (cov_ S g) /\ i < mrows S (weight_ S g))
  (* shapes *)
  /\ shape (gm_mean S g i) (dim S g) 1 /\ shape (gm_cov S g i) (dcov S g) (dcov S g)
  (* exactly component i's cells *)
  /\ (forall r, r < dim S g -> get (gm_mean S g i) r 0 = get (mean_ S g) r i /\ gm_mean_el S g i r = get (mean_ S g) r i)
  /\ (forall r k, r < dcov S g -> k < dcov S g ->
        get (gm_cov S g i) r k = get (cov_ S g) r (dcov S g * i + k)
        /\ gm_cov_el S g i r k = get (cov_ S g) r (dcov S g * i + k))
  /\ gm_weight S g i = get (weight_ S g) i 0.
Proof.
  intros (H1 & H2 & H3 & H4 & H5 & H6) Hi.
  destruct H4 as (R4 & C4 & W4). destruct H5 as (R5 & C5 & W5). destruct H6 as (R6 & C6 & W6).
  split; [split; [lia|split; [rewrite C5; nia|lia]]|].
  split; [unfold gm_mean; eapply shape_e_col; exact (conj R4 (conj C4 W4))|].
  split; [unfold gm_cov; eapply shape_e_middle_cols; exact (conj R5 (conj C5 W5))|].
  split; [|split; [|reflexivity]].
  - intros r Hr. split; [|reflexivity]. unfold gm_mean, e_col. rewrite get_mk; auto; lia.
  - intros r k Hr Hk. split; [|reflexivity]. unfold gm_cov, e_middle_cols. rewrite get_mk; auto; lia.
Qed.

(* every column of the covariance storage belongs to exactly one component's block *)
Lemma cov_column_owner g c : Consistent g -> c < mcols S (cov_ S g) ->
  exists i k, i < components S g /\ k < dcov S g /\ c = dcov S g * i + k
              /\ (forall i' k', k' < dcov S g -> c = dcov S g * i' + k' -> i' = i /\ k' = k).
Proof.
  intros (H1 & H2 & H3 & H4 & (R5 & C5 & W5) & H6) Hc. rewrite C5 in Hc.
  assert (Hd : dcov S g <> 0) by (intro E; rewrite E in Hc; simpl in Hc; lia).
  exists (c / dcov S g), (c mod dcov S g).
  pose proof (Nat.div_mod c (dcov S g) Hd) as E. pose proof (Nat.mod_upper_bound c (dcov S g) Hd) as U.
  split; [apply Nat.div_lt_upper_bound; auto|]. split; [exact U|]. split; [exact E|].
  intros i' k' Hk' E'. apply (divmod_inj (dcov S g)); auto. lia.
Qed.

Lemma ps_accessors p i : Consistent_ps p -> i < components S (base S p) ->
  i < mcols S (state_ S p) /\ shape (ps_state S p i) (dim S (base S p)) 1
  /\ (forall r, r < dim S (base S p) ->
        get (ps_state S p i) r 0 = get (state_ S p) r i /\ ps_state_el S p i r = get (state_ S p) r i).
Proof.
  intros [_ (R & C & W)] Hi. split; [lia|]. split; [unfold ps_state; eapply shape_e_col; exact (conj R (conj C W))|].
  intros r Hr. split; [|reflexivity]. unfold ps_state, e_col. rewrite get_mk; auto; lia.
Qed.

(* a Gaussian: mean() / covariance() / weight() are component 0 *)
Lemma gauss_accessors g : Gaussian_ok g ->
  gauss_mean S g = gm_mean S g 0 /\ gauss_weight S g = gm_weight S g 0
  /\ (forall i, gauss_mean_el S g i = gm_mean_el S g 0 i)
  /\ (forall i j, gauss_cov_el S g i j = gm_cov_el S g 0 i j)
  /\ gauss_cov S g = gm_cov S g 0.
Proof.
  intros [(H1 & H2 & H3 & H4 & H5 & H6) Hc]. split; [reflexivity|]. split; [reflexivity|].
  split; [reflexivity|]. split; [intros i j; unfold gauss_cov_el, gm_cov_el; rewrite Nat.mul_0_r; reflexivity|].
  unfold gauss_cov, gm_cov. rewrite Hc, Nat.mul_1_r in H5. pose proof H5 as (R5 & C5 & W5).
  eapply mx_ext; [exact H5|eapply shape_e_middle_cols; exact H5|].
  intros i j Hi Hj. unfold e_middle_cols. rewrite get_mk by lia. f_equal. lia.
Qed.

(* ------------------------------------------------------------ changing only the number of components *)
Lemma gm_resize_only_components c g : Consistent g -> dn S g = 0 ->
  let g' := gm_resize S junk c (dl S g) (dc S g) g in
  components S g' = c /\ dim S g' = dim S g /\ dcov S g' = dcov S g /\ dl S g' = dl S g /\ dc S g' = dc S g
  /\ dn S g' = 0 /\ use_quat S g' = use_quat S g /\ dcc S g' = dcc S g
  /\ (forall i, i < c -> i < components S g ->
        gm_mean S g' i = gm_mean S g i /\ gm_cov S g' i = gm_cov S g i /\ gm_weight S g' i = gm_weight S g i)
  (* the cells of the new components are uninitialised *)
  /\ (forall i r, components S g <= i -> i < c -> r < dim S g -> get (mean_ S g') r i = junk).
Proof.
  intros HC Hn. pose proof HC as (H1 & H2 & H3 & (R4 & C4 & W4) & (R5 & C5 & W5) & (R6 & C6 & W6)). cbv zeta.
  unfold gm_resize. rewrite !Nat.eqb_refl. simpl.
  destruct (Nat.eqb_spec (components S g) c) as [E|E]; simpl.
  - subst c. repeat split; auto. intros. lia.
  - assert (E1 : dim S g = dl S g + dc S g * dcc S g) by lia.
    assert (E2 : dcov S g = (if use_quat S g then dl S g + dc S g * (dcc S g - 1) else dl S g + dc S g * dcc S g)).
    { rewrite H3, H2, Hn. destruct (use_quat S g); simpl; lia. }
    rewrite <- E2, <- E1, !Nat.eqb_refl. simpl.
    split; [reflexivity|]. split; [reflexivity|]. split; [reflexivity|]. split; [reflexivity|].
    split; [reflexivity|]. split; [reflexivity|]. split; [reflexivity|]. split; [reflexivity|]. split.
    + intros i Hi Hi'. unfold gm_mean, gm_cov, gm_weight; simpl. split; [|split].
      * unfold e_col. destruct (shape_e_cresize_cols _ _ _ c (conj R4 (conj C4 W4))) as (R & _). rewrite R, R4.
        apply mk_ext. intros r j Hr Hj. rewrite get_e_cresize_cols by lia.
        destruct (Nat.ltb_spec i (mcols S (mean_ S g))); [reflexivity|lia].
      * unfold e_middle_cols.
        destruct (shape_e_cresize_cols _ _ _ (dcov S g * c) (conj R5 (conj C5 W5))) as (R & _). rewrite R, R5.
        apply mk_ext. intros r k Hr Hk. rewrite get_e_cresize_cols by (try lia; nia).
        destruct (Nat.ltb_spec (dcov S g * i + k) (mcols S (cov_ S g))); [reflexivity|]. rewrite C5 in *. nia.
      * rewrite get_e_cresize_vec by lia. destruct (Nat.ltb_spec i (mrows S (weight_ S g))); [reflexivity|lia].
    + intros i r Hi Hi' Hr. rewrite get_e_cresize_cols by lia.
      destruct (Nat.ltb_spec i (mcols S (mean_ S g))); [lia|reflexivity].
Qed.

Lemma ps_resize_only_components c p : Consistent_ps p -> dn S (base S p) = 0 ->
  let p' := ps_resize S junk c (dl S (base S p)) (dc S (base S p)) p in
  base S p' = gm_resize S junk c (dl S (base S p)) (dc S (base S p)) (base S p)
  /\ (forall i, i < c -> i < components S (base S p) -> ps_state S p' i = ps_state S p i).
Proof.
  intros [HC (Rs & Cs & Ws)] Hn. pose proof HC as (H1 & H2 & H3 & _). cbv zeta. unfold ps_resize.
  rewrite !Nat.eqb_refl. simpl.
  destruct (Nat.eqb_spec (components S (base S p)) c) as [E|E]; simpl.
  - subst c. unfold gm_resize. rewrite !Nat.eqb_refl. simpl. auto.
  - split; [reflexivity|].
    assert (E1 : dim S (base S p) = dl S (base S p) + dc S (base S p) * dcc S (base S p)) by lia.
    rewrite <- E1, Nat.eqb_refl. simpl. intros i Hi Hi'. unfold ps_state, e_col. simpl.
    destruct (shape_e_cresize_cols _ _ _ c (conj Rs (conj Cs Ws))) as (R & _). rewrite R, Rs.
    apply mk_ext. intros r j Hr Hj. rewrite get_e_cresize_cols by lia.
    destruct (Nat.ltb_spec i (mcols S (state_ S p))); [reflexivity|lia].
Qed.


(* ------------------------------------------------------------ noise augmentation: contents *)
(* specification-level block operations *)
Definition vcat (a b : mx) : mx :=
  mk (mrows S a + mrows S b) (mcols S a)
     (fun i j => if i <? mrows S a then get a i j else get b (i - mrows S a) j).
Definition blockdiag (a b : mx) : mx :=
  mk (mrows S a + mrows S b) (mcols S a + mcols S b)
     (fun i j => if i <? mrows S a
                 then (if j <? mcols S a then get a i j else zero)
                 else (if j <? mcols S a then zero else get b (i - mrows S a) (j - mcols S a))).

(* invariant of the right-to-left relocation loop: the columns whose old position is >= Q0 have
   been moved to their new position, the columns below Q0 are still in place; rows >= dold untouched *)
Definition RInv (comps dold dcov' : nat) (cv0 : mx) (Q0 : nat) (m : mx) : Prop :=
  shape m dcov' (dcov' * comps)
  /\ (forall r c, dold <= r -> r < dcov' -> c < dcov' * comps -> get m r c = get cv0 r c)
  /\ (forall r i j, r < dold -> i < comps -> j < dold -> Q0 <= i * dold + j ->
        get m r (i * dcov' + j) = get cv0 r (i * dold + j))
  /\ (forall r c, r < dold -> c < Q0 -> get m r c = get cv0 r c).

Lemma RInv_eq comps dold dcov' cv0 Q Q' m : Q = Q' -> RInv comps dold dcov' cv0 Q m -> RInv comps dold dcov' cv0 Q' m.
Proof. intros ->. auto. Qed.

Lemma RInv_step comps dold dcov' cv0 i j m :
  dold <= dcov' -> 1 <= i -> i < comps -> j < dold ->
  RInv comps dold dcov' cv0 (i * dold + j + 1) m ->
  RInv comps dold dcov' cv0 (i * dold + j) (e_swap_cols S m dold (i * dcov' + j) (i * dold + j)).
Proof.
  intros Hd Hi1 Hi Hj (Sh & HA & HB & HC).
  assert (a_lt : i * dcov' + j < dcov' * comps) by nia.
  assert (b_le : i * dold + j <= i * dcov' + j) by nia.
  split; [apply shape_e_swap_cols; exact Sh|]. destruct Sh as (R & C & W).
  split; [|split].
  - intros r c Hr Hr' Hc. rewrite get_e_swap_cols by lia.
    destruct (Nat.ltb_spec r dold); [lia|]. apply HA; auto.
  - intros r i' j' Hr Hi' Hj' HQ.
    assert (i' * dcov' + j' < dcov' * comps) by nia.
    assert (i' * dold + j' <= i' * dcov' + j') by nia.
    rewrite get_e_swap_cols by lia. destruct (Nat.ltb_spec r dold); [|lia].
    destruct (Nat.eqb_spec (i' * dcov' + j') (i * dcov' + j)) as [E|E].
    + apply divmod_inj in E; [|lia|lia]. destruct E; subst. apply HC; lia.
    + assert (NE : i' * dold + j' <> i * dold + j).
      { intro Eq. apply divmod_inj in Eq; [|lia|lia]. destruct Eq; subst. apply E; reflexivity. }
      destruct (Nat.eqb_spec (i' * dcov' + j') (i * dold + j)) as [E'|E']; [exfalso; lia|].
      apply HB; auto. lia.
  - intros r c Hr Hc. rewrite get_e_swap_cols by lia. destruct (Nat.ltb_spec r dold); [|lia].
    destruct (Nat.eqb_spec c (i * dcov' + j)); [lia|]. destruct (Nat.eqb_spec c (i * dold + j)); [lia|].
    apply HC; lia.
Qed.

Lemma RInv_comp comps dold dcov' cv0 i m :
  dold <= dcov' -> 1 <= i -> i < comps ->
  RInv comps dold dcov' cv0 (i * dold + dold) m ->
  RInv comps dold dcov' cv0 (i * dold) (relocate_comp S dold dcov' m i).
Proof.
  intros Hd Hi1 Hi H. unfold relocate_comp.
  apply (RInv_eq _ _ _ _ (i * dold + (dold - dold))); [lia|].
  apply (fold_seq_inv
           (fun cv j => e_swap_cols S cv dold (i * dcov' + (dold - 1 - j)) (i * dold + (dold - 1 - j)))
           (fun k m => RInv comps dold dcov' cv0 (i * dold + (dold - k)) m)).
  - apply (RInv_eq _ _ _ _ (i * dold + dold)); [lia|exact H].
  - intros k y Hk Hy.
    apply (RInv_eq _ _ _ _ (i * dold + (dold - 1 - k))); [lia|].
    apply RInv_step; auto; try lia.
    apply (RInv_eq _ _ _ _ (i * dold + (dold - k))); [lia|exact Hy].
Qed.

Lemma relocate_spec comps dold dcov' cv0 :
  1 <= comps -> dold <= dcov' -> shape cv0 dcov' (dcov' * comps) ->
  let m := relocate S comps dold dcov' cv0 in
  shape m dcov' (dcov' * comps)
  /\ (forall r c, dold <= r -> r < dcov' -> c < dcov' * comps -> get m r c = get cv0 r c)
  /\ (forall r i j, r < dold -> i < comps -> j < dold -> get m r (i * dcov' + j) = get cv0 r (i * dold + j)).
Proof.
  intros Hc Hd Sh. cbv zeta.
  assert (H : RInv comps dold dcov' cv0 (1 * dold) (relocate S comps dold dcov' cv0)).
  { unfold relocate.
    apply (RInv_eq _ _ _ _ ((comps - (comps - 1)) * dold)); [f_equal; lia|].
    apply (fold_seq_inv (fun cv i => relocate_comp S dold dcov' cv (comps - 1 - i))
                        (fun k m => RInv comps dold dcov' cv0 ((comps - k) * dold) m)).
    - rewrite Nat.sub_0_r. split; [exact Sh|]. split; [auto|]. split; [|auto].
      intros r i j Hr Hi Hj HQ. exfalso. nia.
    - intros k y Hk Hy.
      apply (RInv_eq _ _ _ _ ((comps - 1 - k) * dold)); [f_equal; lia|].
      apply RInv_comp; auto; try lia.
      apply (RInv_eq _ _ _ _ ((comps - k) * dold)); [|exact Hy].
      replace (comps - k) with (Datatypes.S (comps - 1 - k)) by lia. simpl. lia. }
  destruct H as (Sh' & HA & HB & HC). split; [exact Sh'|]. split; [exact HA|].
  intros r i j Hr Hi Hj. destruct i as [|i].
  - simpl. apply HC; lia.
  - apply HB; auto. nia.
Qed.

Lemma place_noise_spec comps dold dadd dcov' q m0 :
  dcov' = dold + dadd -> mrows S q = dadd -> mcols S q = dadd -> shape m0 dcov' (dcov' * comps) ->
  let m := place_noise S comps dold dadd dcov' q m0 in
  shape m dcov' (dcov' * comps)
  /\ (forall i k r, i < comps -> k < dcov' -> r < dcov' ->
        get m r (i * dcov' + k) =
        if dold <=? k then (if r <? dold then zero else get q (r - dold) (k - dold))
        else get m0 r (i * dcov' + k)).
Proof.
  intros Hd Rq Cq Sh. cbv zeta. unfold place_noise.
  assert (H : shape (fold_left (fun cv i => e_set_block S (e_set_block S cv dold (i * dcov' + dold) q) 0 (i * dcov' + dold) (e_zero S dold dadd)) (seq 0 comps) m0) dcov' (dcov' * comps)
          /\ (forall i k r, i < comps -> k < dcov' -> r < dcov' ->
        get (fold_left (fun cv i => e_set_block S (e_set_block S cv dold (i * dcov' + dold) q) 0 (i * dcov' + dold) (e_zero S dold dadd)) (seq 0 comps) m0) r (i * dcov' + k) =
        if (i <? comps) && (dold <=? k) then (if r <? dold then zero else get q (r - dold) (k - dold))
        else get m0 r (i * dcov' + k))).
  { apply (fold_seq_inv
      (fun cv i => e_set_block S (e_set_block S cv dold (i * dcov' + dold) q) 0 (i * dcov' + dold) (e_zero S dold dadd))
      (fun n m => shape m dcov' (dcov' * comps)
          /\ (forall i k r, i < comps -> k < dcov' -> r < dcov' ->
                get m r (i * dcov' + k) =
                if (i <? n) && (dold <=? k) then (if r <? dold then zero else get q (r - dold) (k - dold))
                else get m0 r (i * dcov' + k)))).
    - split; [exact Sh|]. intros. reflexivity.
    - intros n y Hn [Shy Hy]. split; [repeat apply shape_e_set_block; exact Shy|].
      intros i k r Hi Hk Hr.
      assert (Hc : i * dcov' + k < dcov' * comps) by nia.
      pose proof (shape_e_set_block y _ _ dold (n * dcov' + dold) q Shy) as (R1 & C1 & _).
      destruct Shy as (Ry & Cy & _).
      rewrite get_e_set_block by lia. rewrite get_e_set_block by lia.
      change (mrows S (e_zero S dold dadd)) with dold. change (mcols S (e_zero S dold dadd)) with dadd.
      rewrite Rq, Cq, Hy by assumption.
      destruct (Nat.eq_dec i n) as [->|NE]; [destruct (le_lt_dec dold k)|].
      + bprune; try reflexivity; try (apply get_e_zero; lia); try (f_equal; lia).
      + bprune; try reflexivity.
      + assert (OUT : i * dcov' + k < n * dcov' + dold \/ n * dcov' + dold + dadd <= i * dcov' + k).
        { destruct (le_lt_dec (n * dcov' + dold) (i * dcov' + k)); [|left; lia].
          destruct (le_lt_dec (n * dcov' + dold + dadd) (i * dcov' + k)); [right; lia|].
          exfalso. apply NE. apply (block_col_in dcov' dold n i k); lia. }
        bprune; try reflexivity. }
  destruct H as [H1 H2]. split; [exact H1|]. intros i k r Hi Hk Hr. rewrite H2 by assumption.
  destruct (Nat.ltb_spec i comps); [reflexivity|lia].
Qed.


Lemma gm_augment_content q g : Consistent g -> 1 <= components S g -> mrows S q = mcols S q ->
  let g' := snd (gm_augment S q g) in
  fst (gm_augment S q g) = true
  /\ components S g' = components S g /\ dl S g' = dl S g /\ dc S g' = dc S g
  /\ use_quat S g' = use_quat S g /\ dcc S g' = dcc S g
  /\ dn S g' = dn S g + mrows S q /\ dim S g' = dim S g + mrows S q /\ dcov S g' = dcov S g + mrows S q
  /\ forall i, i < components S g ->
       gm_mean S g' i = vcat (gm_mean S g i) (e_zero S (mrows S q) 1)
       /\ gm_cov S g' i = blockdiag (gm_cov S g i) q
       /\ gm_weight S g' i = gm_weight S g i.
Proof.
  intros HC Hc Hsq. pose proof HC as (H1 & H2 & H3 & (R4 & C4 & W4) & (R5 & C5 & W5) & H6). cbv zeta.
  unfold gm_augment. rewrite (proj2 (Nat.eqb_eq _ _) Hsq). simpl.
  split; [reflexivity|]. split; [reflexivity|]. split; [reflexivity|]. split; [reflexivity|].
  split; [reflexivity|]. split; [reflexivity|]. split; [reflexivity|]. split; [reflexivity|]. split; [reflexivity|].
  intros i Hi. split; [|split; [|reflexivity]].
  - (* mean *)
    unfold gm_mean, vcat, e_col. simpl.
    pose proof (shape_e_cresize_rows _ _ _ (dim S g + mrows S q) (conj R4 (conj C4 W4))) as Sh1.
    pose proof Sh1 as (R1 & C1 & _).
    pose proof (shape_e_set_block _ _ _ (mrows S (e_cresize_rows S (mean_ S g) (dim S g + mrows S q)) - mrows S q) 0
                  (e_zero S (mrows S q) (components S g)) Sh1) as (R2 & C2 & _).
    rewrite ?R2, ?R1, R4. apply mk_ext. intros r j Hr Hj.
    rewrite get_e_set_block by lia. rewrite ?R1.
    change (mrows S (e_zero S (mrows S q) (components S g))) with (mrows S q).
    change (mcols S (e_zero S (mrows S q) (components S g))) with (components S g).
    rewrite get_e_cresize_rows by lia. rewrite R4.
    destruct (Nat.ltb_spec r (dim S g)).
    + rewrite get_mk by lia. bdestruct; try lia; reflexivity.
    + bdestruct; try lia; rewrite !get_e_zero by lia; reflexivity.
  - (* covariance *)
    set (dold := dcov S g). set (dadd := mrows S q). set (dcov' := dold + dadd). set (comps := components S g).
    assert (Sh1 : shape (e_cresize_like S (cov_ S g) (e_zero S dcov' (dcov' * comps))) dcov' (dcov' * comps))
      by (apply shape_e_cresize_like; [exact W5|apply shape_e_zero]).
    destruct (relocate_spec comps dold dcov' _ Hc (Nat.le_add_r _ _) Sh1) as (Sh2 & HA & HB).
    destruct (place_noise_spec comps dold dadd dcov' q _ eq_refl eq_refl (eq_sym Hsq) Sh2) as (Sh3 & HP).
    unfold gm_cov, blockdiag, e_middle_cols. simpl. fold dold dadd dcov' comps.
    destruct Sh3 as (R3 & C3 & _). rewrite R3, R5. fold dold. rewrite <- Hsq. fold dadd. fold dcov'.
    apply mk_ext. intros r k Hr Hk.
    rewrite (Nat.mul_comm dcov' i), HP by assumption.
    destruct (Nat.leb_spec dold k); destruct (Nat.ltb_spec k dold); try lia;
    destruct (Nat.ltb_spec r dold); try reflexivity.
    + (* top-left: the old block, relocated *)
      rewrite HB by assumption.
      rewrite get_e_cresize_like by (simpl; nia). rewrite R5, C5. fold dold comps.
      assert (i * dold + k < dold * comps) by nia.
      destruct (Nat.ltb_spec r dold); [|lia]. destruct (Nat.ltb_spec (i * dold + k) (dold * comps)); [|lia]. simpl.
      rewrite get_mk by assumption. f_equal. lia.
    + (* bottom-left: zero from conservativeResizeLike *)
      rewrite HA by (try lia; nia).
      rewrite get_e_cresize_like by (simpl; nia). rewrite R5. fold dold.
      destruct (Nat.ltb_spec r dold); [lia|]. simpl. apply get_e_zero; nia.
Qed.

Lemma ps_augment_content q p : Consistent_ps p -> 1 <= components S (base S p) -> mrows S q = mcols S q ->
  let p' := snd (ps_augment S q p) in
  fst (ps_augment S q p) = true /\ base S p' = snd (gm_augment S q (base S p))
  /\ forall i, i < components S (base S p) -> ps_state S p' i = vcat (ps_state S p i) (e_zero S (mrows S q) 1).
Proof.
  intros [HC (Rs & Cs & Ws)] Hc Hsq. cbv zeta. unfold ps_augment.
  destruct (gm_augment_content q (base S p) HC Hc Hsq) as (E & E1 & _ & _ & _ & _ & _ & E2 & _).
  rewrite E. simpl. split; [reflexivity|]. split; [reflexivity|]. intros i Hi.
  unfold ps_state, vcat, e_col. simpl. rewrite E1, E2.
  pose proof (shape_e_cresize_rows _ _ _ (dim S (base S p) + mrows S q) (conj Rs (conj Cs Ws))) as Sh1.
  pose proof Sh1 as (R1 & C1 & _).
  pose proof (shape_e_set_block _ _ _ (mrows S (e_cresize_rows S (state_ S p) (dim S (base S p) + mrows S q)) - mrows S q) 0
                (e_zero S (mrows S q) (components S (base S p))) Sh1) as (R2 & C2 & _).
  rewrite ?R2, ?R1, Rs. apply mk_ext. intros r j Hr Hj.
  rewrite get_e_set_block by lia. rewrite ?R1.
  change (mrows S (e_zero S (mrows S q) (components S (base S p)))) with (mrows S q).
  change (mcols S (e_zero S (mrows S q) (components S (base S p)))) with (components S (base S p)).
  rewrite get_e_cresize_rows by lia. rewrite Rs.
  destruct (Nat.ltb_spec r (dim S (base S p))).
  + rewrite get_mk by lia. bdestruct; try lia; reflexivity.
  + bdestruct; try lia; rewrite !get_e_zero by lia; reflexivity.
Qed.


Lemma gm_augment_twice_content q1 q2 g :
  Consistent g -> 1 <= components S g -> mrows S q1 = mcols S q1 -> mrows S q2 = mcols S q2 ->
  let g2 := snd (gm_augment S q2 (snd (gm_augment S q1 g))) in
  dn S g2 = dn S g + mrows S q1 + mrows S q2
  /\ forall i, i < components S g ->
       gm_mean S g2 i = vcat (vcat (gm_mean S g i) (e_zero S (mrows S q1) 1)) (e_zero S (mrows S q2) 1)
       /\ gm_cov S g2 i = blockdiag (blockdiag (gm_cov S g i) q1) q2.
Proof.
  intros HC Hc H1 H2. cbv zeta.
  destruct (gm_augment_content q1 g HC Hc H1) as (_ & E1 & _ & _ & _ & _ & En & _ & _ & Hi1).
  pose proof (gm_augment_consistent q1 g HC) as HC1.
  assert (Hc1 : 1 <= components S (snd (gm_augment S q1 g))) by (rewrite E1; exact Hc).
  destruct (gm_augment_content q2 _ HC1 Hc1 H2) as (_ & E2 & _ & _ & _ & _ & En2 & _ & _ & Hi2).
  split; [rewrite En2, En; reflexivity|].
  intros i Hi. destruct (Hi1 i Hi) as (M1 & V1 & _).
  assert (Hi' : i < components S (snd (gm_augment S q1 g))) by (rewrite E1; exact Hi).
  destruct (Hi2 i Hi') as (M2 & V2 & _). rewrite M2, V2, M1, V1. auto.
Qed.

(* ------------------------------------------------------------ concatenation *)
Lemma ps_concat_content rhs p : Consistent_ps p -> concat_ok rhs p ->
  let p' := ps_concat S junk rhs p in
  let g := base S p in let r := base S rhs in let g' := base S p' in
  components S g' = components S g + components S r
  /\ dim S g' = dim S g /\ dcov S g' = dcov S g /\ dl S g' = dl S g /\ dc S g' = dc S g /\ dn S g' = dn S g
  /\ use_quat S g' = use_quat S g /\ dcc S g' = dcc S g
  /\ (forall i, i < components S g ->
        gm_mean S g' i = gm_mean S g i /\ gm_cov S g' i = gm_cov S g i
        /\ gm_weight S g' i = gm_weight S g i /\ ps_state S p' i = ps_state S p i)
  /\ (forall i, i < components S r ->
        gm_mean S g' (components S g + i) = gm_mean S r i /\ gm_cov S g' (components S g + i) = gm_cov S r i
        /\ gm_weight S g' (components S g + i) = gm_weight S r i
        /\ ps_state S p' (components S g + i) = ps_state S rhs i).
Proof.
  intros [HC Hs] ([HCr Hsr] & Ed & Ev).
  pose proof HC as (_ & _ & _ & (R4 & C4 & W4) & (R5 & C5 & W5) & (R6 & C6 & W6)).
  pose proof HCr as (_ & _ & _ & (R4r & C4r & W4r) & (R5r & C5r & W5r) & (R6r & C6r & W6r)).
  pose proof Hs as (Rs & Cs & Ws). pose proof Hsr as (Rsr & Csr & Wsr).
  cbv zeta. unfold ps_concat. simpl.
  set (n1 := components S (base S p)) in *. set (n2 := components S (base S rhs)) in *.
  set (dv := dcov S (base S p)) in *. set (d := dim S (base S p)) in *.
  repeat (split; [reflexivity|]).
  pose proof (shape_e_cresize_cols _ _ _ (n1 + n2) (conj R4 (conj C4 W4))) as (Rm & Cm & _).
  pose proof (shape_e_cresize_cols _ _ _ (n1 + n2) (conj Rs (conj Cs Ws))) as (Rt & Ct & _).
  pose proof (shape_e_cresize_cols _ _ _ (dv * (n1 + n2)) (conj R5 (conj C5 W5))) as (Rc & Cc & _).
  pose proof (shape_e_cresize_vec _ _ (n1 + n2) (conj R6 (conj C6 W6))) as (Rw & Cw & _).
  assert (Eo : dv * (n1 + n2) - dv * n2 = dv * n1) by nia.
  split; intros i Hi; unfold gm_mean, gm_cov, gm_weight, ps_state, e_col, e_middle_cols; simpl;
    rewrite ?Rm, ?Rt, ?Rc, ?Rw, ?Cm, ?Ct, ?Cc, ?Cw, ?Eo, ?R4, ?R5, ?Rs, ?R4r, ?R5r, ?Rsr; fold d dv;
    rewrite ?Ed, ?Ev; fold d dv.
  - split; [|split; [|split]].
    + apply mk_ext. intros x j Hx Hj. rewrite get_e_set_block by lia. rewrite ?Cm, ?R4r, ?C4r, ?Ed. fold d n2.
      rewrite get_e_cresize_cols by lia. rewrite ?C4. fold n1. bdestruct; try lia; reflexivity.
    + apply mk_ext. intros x k Hx Hk. assert (dv * i + k < dv * n1) by nia.
      rewrite get_e_set_block by (try lia; nia). rewrite ?Cc, ?Eo, ?R5r, ?C5r, ?Ev. fold dv n2.
      rewrite get_e_cresize_cols by (try lia; nia). rewrite ?C5. fold dv n1. bdestruct; try lia; reflexivity.
    + rewrite get_e_set_block by lia. rewrite ?Rw, ?R6r, ?C6r. fold n2.
      rewrite get_e_cresize_vec by lia. rewrite ?R6. fold n1. bdestruct; try lia; reflexivity.
    + apply mk_ext. intros x j Hx Hj. rewrite get_e_set_block by lia. rewrite ?Ct, ?Rsr, ?Csr, ?Ed. fold d n2.
      rewrite get_e_cresize_cols by lia. rewrite ?Cs. fold n1. bdestruct; try lia; reflexivity.
  - split; [|split; [|split]].
    + apply mk_ext. intros x j Hx Hj. rewrite get_e_set_block by lia. rewrite ?Cm, ?R4r, ?C4r, ?Ed. fold d n2.
      bdestruct; try lia. f_equal; lia.
    + apply mk_ext. intros x k Hx Hk. assert (dv * (n1 + i) + k < dv * (n1 + n2)) by nia.
      assert (dv * n1 <= dv * (n1 + i) + k) by nia.
      rewrite get_e_set_block by lia. rewrite ?Cc, ?Eo, ?R5r, ?C5r, ?Ev. fold dv n2.
      bdestruct; try lia; try nia. f_equal; nia.
    + rewrite get_e_set_block by lia. rewrite ?Rw, ?R6r, ?C6r. fold n2.
      bdestruct; try lia. f_equal; lia.
    + apply mk_ext. intros x j Hx Hj. rewrite get_e_set_block by lia. rewrite ?Ct, ?Rsr, ?Csr, ?Ed. fold d n2.
      bdestruct; try lia. f_equal; lia.
Qed.

Lemma ps_plus_is_concat lhs rhs : ps_plus S junk lhs rhs = ps_concat S junk rhs lhs.
Proof. unfold ps_plus. rewrite ps_copy_id. reflexivity. Qed.

(* the premise concat_ok is what makes `+=` defined (no Eigen assertion), and it is necessary
   as soon as the right operand has a component *)
Lemma ps_concat_defined_ok rhs p : Consistent_ps p -> concat_ok rhs p -> ps_concat_defined S junk rhs p = true.
Proof.
  intros [HC Hs] ([HCr Hsr] & Ed & Ev).
  pose proof HC as (_ & _ & _ & (R4 & C4 & W4) & (R5 & C5 & W5) & (R6 & C6 & W6)).
  pose proof HCr as (_ & _ & _ & (R4r & C4r & W4r) & (R5r & C5r & W5r) & (R6r & C6r & W6r)).
  pose proof Hs as (Rs & Cs & Ws). pose proof Hsr as (Rsr & Csr & Wsr).
  unfold ps_concat_defined, blk_ok.
  set (n1 := components S (base S p)) in *. set (n2 := components S (base S rhs)) in *.
  pose proof (shape_e_cresize_cols _ _ _ (n1 + n2) (conj R4 (conj C4 W4))) as (Rm & Cm & _).
  pose proof (shape_e_cresize_cols _ _ _ (n1 + n2) (conj Rs (conj Cs Ws))) as (Rt & Ct & _).
  pose proof (shape_e_cresize_cols _ _ _ (dcov S (base S p) * (n1 + n2)) (conj R5 (conj C5 W5))) as (Rc & Cc & _).
  pose proof (shape_e_cresize_vec _ _ (n1 + n2) (conj R6 (conj C6 W6))) as (Rw & Cw & _).
  rewrite Rm, Cm, Rt, Ct, Rc, Cc, Rw, Cw, R4, R5, Rs, R4r, C4r, R5r, C5r, R6r, C6r, Rsr, Csr, Ed, Ev.
  fold n2. rewrite !andb_true_iff, !Nat.eqb_eq, !Nat.leb_le. repeat split; try lia; nia.
Qed.

Lemma ps_concat_defined_needs rhs p : Consistent_ps p -> Consistent_ps rhs -> 1 <= components S (base S rhs) ->
  ps_concat_defined S junk rhs p = true -> concat_ok rhs p.
Proof.
  intros [HC Hs] [HCr Hsr] Hn HD. split; [split; assumption|].
  pose proof HC as (_ & _ & _ & (R4 & C4 & W4) & (R5 & C5 & W5) & (R6 & C6 & W6)).
  pose proof HCr as (_ & _ & _ & (R4r & C4r & W4r) & (R5r & C5r & W5r) & (R6r & C6r & W6r)).
  unfold ps_concat_defined, blk_ok in HD. rewrite !andb_true_iff, !Nat.eqb_eq in HD.
  destruct HD as (((_ & M) & C) & _). destruct M as (((E1 & _) & _) & _). destruct C as (((E2 & _) & _) & _).
  split; lia.
Qed.

Lemma gm_augment_defined_ok q g : 1 <= components S g -> gm_augment_defined S q g = true.
Proof. intros H. unfold gm_augment_defined. apply orb_true_iff. right. apply Nat.leb_le. exact H. Qed.


(* p += p is defined only for an empty set *)
Lemma ps_concat_self_defined_iff p : Consistent_ps p ->
  (ps_concat_self_defined S junk p = true <-> components S (base S p) = 0).
Proof.
  intros [HC Hs].
  pose proof HC as (_ & _ & _ & (R4 & C4 & W4) & (R5 & C5 & W5) & (R6 & C6 & W6)).
  pose proof Hs as (Rs & Cs & Ws).
  unfold ps_concat_self_defined, blk_ok. set (n := components S (base S p)) in *.
  pose proof (shape_e_cresize_cols _ _ _ (n + n) (conj R4 (conj C4 W4))) as (Rm & Cm & _).
  pose proof (shape_e_cresize_cols _ _ _ (n + n) (conj Rs (conj Cs Ws))) as (Rt & Ct & _).
  pose proof (shape_e_cresize_cols _ _ _ (dcov S (base S p) * (n + n)) (conj R5 (conj C5 W5))) as (Rc & Cc & _).
  pose proof (shape_e_cresize_vec _ _ (n + n) (conj R6 (conj C6 W6))) as (Rw & Cw & _).
  rewrite Rm, Cm, Rt, Ct, Rc, Cc, Rw, Cw. rewrite !andb_true_iff, !Nat.eqb_eq, !Nat.leb_le.
  split.
  - intros [_ HW]. destruct HW as [[[E _] _] _]. lia.
  - intros E. rewrite E. rewrite !Nat.mul_0_r. simpl. repeat split; lia.
Qed.

End C11.

(* ------------------------------------------------------------ what is NOT true of the code *)
Require Import BFL.ListOps.

(* Resizing an AUGMENTED mixture to its noise-free layout with another component count is not
   "changing only the number of components": dim and dim_covariance shrink, the full-resize branch
   is taken, and because Eigen's resize keeps a buffer of unchanged size (3x2 -> 2x3) the old
   cells reappear at other positions.  Premise dn = 0 of gm_resize_only_components is needed. *)
Lemma gm_resize_with_noise_refuted :
  exists (g : gm ZOps) (c i r : nat),
    Consistent ZOps g /\ dn ZOps g = 1 /\ i < c /\ i < components ZOps g /\ r < dl ZOps g + dc ZOps g * dcc ZOps g
    /\ gm_mean_el ZOps (gm_resize ZOps 0%Z c (dl ZOps g) (dc ZOps g) g) i r <> gm_mean_el ZOps g i r.
Proof.
  exists (snd (gm_augment ZOps (mk ZOps 1 1 (fun _ _ => 9%Z)) (gm_fill ZOps 1%Z (gm_ctor ZOps 2 2 0 false)))), 3, 1, 0.
  split; [apply gm_augment_consistent; apply gm_fill_consistent; apply gm_ctor_consistent|].
  split; [reflexivity|]. split; [lia|]. split; [vm_compute; lia|]. split; [vm_compute; lia|].
  vm_compute. intro H. discriminate H.
Qed.

(* A Gaussian resized through a GaussianMixture& (the virtual 3-argument resize, hidden but not
   overridden by Gaussian::resize) stops being a one-component object; Gaussian::covariance()
   then returns the storage of all components. *)
Lemma gauss_base_resize_refuted :
  exists (g : gm ZOps) (c l ci : nat),
    Gaussian_ok ZOps g /\ Consistent ZOps (gauss_apply ZOps 0%Z (NResizeBase ZOps c l ci) g)
    /\ ~ Gaussian_ok ZOps (gauss_apply ZOps 0%Z (NResizeBase ZOps c l ci) g)
    /\ gauss_cov ZOps (gauss_apply ZOps 0%Z (NResizeBase ZOps c l ci) g)
        <> gm_cov ZOps (gauss_apply ZOps 0%Z (NResizeBase ZOps c l ci) g) 0.
Proof.
  exists (gauss_ctor ZOps 2 0 false), 3, 2, 0.
  split; [split; [apply gm_ctor_consistent|reflexivity]|].
  split; [apply gauss_apply_consistent; apply gm_ctor_consistent|].
  split; [intros [_ H]; vm_compute in H; discriminate H|].
  vm_compute. intro H. discriminate H.
Qed.
