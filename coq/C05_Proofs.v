Require Import ZArith List.
Require Import BFL.Ops BFL.Density BFL.C05_Model.
From mathcomp Require Import all_ssreflect all_algebra.
Require Import BFL.MxOps BFL.LinAlg.
Set Implicit Arguments.
Unset Strict Implicit.
Unset Printing Implicit Defensive.
Import Order.Theory GRing.Theory Num.Theory.
Local Open Scope ring_scope.

(* ---------------------------------------------------------------------- *)
(* A symmetric positive definite matrix has a positive determinant (induction on the
   size through the Schur complement of the top-left entry).  Same statement and proof
   as C15_Proofs.spd_det_gt0 (copied to keep this file independent of C15's model;
   candidate for LinAlg.v). *)
Section SpdDet.
Variable F : realFieldType.

Lemma spd_ulsub m n (Aul : 'M[F]_m) (Aur : 'M[F]_(m,n)) (Adl : 'M[F]_(n,m)) (Adr : 'M[F]_n) :
  spd (block_mx Aul Aur Adl Adr) -> spd Aul.
Proof.
case=> sA pA; split.
  by move: sA; rewrite /sym tr_block_mx => /eq_block_mx [].
move=> x xn0.
have -> : qf Aul x = qf (block_mx Aul Aur Adl Adr) (row_mx x 0).
  by rewrite /qf mul_row_block !mul0mx !addr0 tr_row_mx trmx0 mul_row_col mulmx0 addr0.
by apply: pA; rewrite row_mx_eq0 negb_and xn0.
Qed.

Lemma spd_mx11_gt0 (a : 'M[F]_1) : spd a -> 0 < \det a.
Proof.
case=> _ pa; rewrite det_mx11.
have := pa 1%:M (oner_neq0 _).
by rewrite /qf mul1mx trmx1 mulmx1.
Qed.

Lemma spd_det_step n : (forall B : 'M[F]_n, spd B -> 0 < \det B) ->
  forall A : 'M[F]_(1 + n), spd A -> 0 < \det A.
Proof.
move=> IH A; rewrite -[A]submxK.
set a := ulsubmx _; set b := ursubmx _; set c := dlsubmx _; set D := drsubmx _ => sA.
have sa : spd a := spd_ulsub sA.
have ua := spd_unit sa.
have [symA posA] := sA.
have [ta tc tb tD] : [/\ a^T = a, c^T = b, b^T = c & D^T = D].
  by move: symA; rewrite /sym tr_block_mx => /eq_block_mx [].
pose S := D - c *m invmx a *m b.
have E : block_mx a b c D = block_mx 1%:M 0 (c *m invmx a) 1%:M *m block_mx a b 0 S.
  rewrite mulmx_block !mul1mx !mul0mx ?mulmx0 !addr0 -[c *m invmx a *m a]mulmxA (mulVmx ua) mulmx1.
  by rewrite /S addrC subrK.
have sS : spd S.
  split.
    by rewrite /sym /S linearB /= !trmx_mul trmx_inv ta tb tc tD mulmxA.
  move=> y yn0.
  pose s : 'rV[F]_1 := - (y *m c *m invmx a).
  have -> : qf S y = qf (block_mx a b c D) (row_mx s y).
    rewrite /qf mul_row_block tr_row_mx mul_row_col.
    have -> : s *m a + y *m c = 0.
      by rewrite /s mulNmx -[_ *m invmx a *m a]mulmxA (mulVmx ua) mulmx1 addNr.
    rewrite mul0mx add0r /S mulmxBr /s mulNmx !mulmxA addrC.
    by [].
  by apply: posA; rewrite row_mx_eq0 negb_and yn0 orbT.
rewrite E det_mulmx det_lblock !det1 !mul1r det_ublock.
by apply: mulr_gt0; [exact: spd_mx11_gt0 | exact: IH].
Qed.

Lemma spd_det_gt0 n (A : 'M[F]_n) : spd A -> 0 < \det A.
Proof.
elim: n A => [|n IH] A sA; first by rewrite det_mx00 ltr01.
exact: (@spd_det_step n IH A sA).
Qed.
End SpdDet.

(* ---------------------------------------------------------------------- *)
(* A. The algebra of the serial form: X, Y the weighted, mean-shifted sigma
      points of state and measurement, R the (SPD) noise covariance.        *)
Section Algebra.
Variable F : realFieldType.
Variables (n m L : nat).
Variables (X : 'M[F]_(n,L)) (Y : 'M[F]_(m,L)) (R : 'M[F]_m) (nu : 'cV[F]_m).
Hypothesis spdR : spd R.

Let Ci := 1%:M + Y^T *m invmx R *m Y.
Let S := Y *m Y^T + R.

Lemma YYt_psd : psd (Y *m Y^T).
Proof.
have -> : Y *m Y^T = Y *m 1%:M *m Y^T by rewrite mulmx1.
by apply: psd_congr; apply: spd_psd; exact: spd1.
Qed.

Lemma serial_S_spd : spd S.
Proof. by apply: psd_spd_add => //; exact: YYt_psd. Qed.
Lemma serial_S_unit : S \in unitmx. Proof. exact: spd_unit serial_S_spd. Qed.
Lemma serial_S_sym : S^T = S. Proof. by case: serial_S_spd. Qed.

Lemma serial_Ci_spd : spd Ci.
Proof.
rewrite /Ci addrC; apply: psd_spd_add; last exact: spd1.
have -> : Y^T *m invmx R *m Y = Y^T *m invmx R *m Y^T^T by rewrite trmxK.
by apply: psd_congr; apply: spd_psd; apply: spd_inv.
Qed.
Lemma serial_Ci_unit : Ci \in unitmx. Proof. exact: spd_unit serial_Ci_spd. Qed.

(* the arguments of the two logarithms are positive *)
Lemma serial_detS_gt0 : 0 < \det S. Proof. exact: spd_det_gt0 serial_S_spd. Qed.
Lemma serial_detC_gt0 : 0 < \det R * \det Ci.
Proof. by apply: mulr_gt0; [exact: spd_det_gt0 spdR | exact: spd_det_gt0 serial_Ci_spd]. Qed.

(* Y^T R^-1 S = Ci Y^T *)
Lemma serial_swap : Y^T *m invmx R *m S = Ci *m Y^T.
Proof.
have uR := spd_unit spdR.
rewrite /S /Ci mulmxDr mulmxDl mul1mx -[Y^T *m invmx R *m R]mulmxA (mulVmx uR) mulmx1.
by rewrite !mulmxA addrC.
Qed.

(* push-through identity *)
Lemma serial_push_through : invmx Ci *m (Y^T *m invmx R) = Y^T *m invmx S.
Proof.
have uS := serial_S_unit. have uC := serial_Ci_unit.
have E : Y^T *m invmx R = Ci *m Y^T *m invmx S.
  by rewrite -serial_swap -[_ *m S *m _]mulmxA (mulmxV uS) mulmx1.
by rewrite E -mulmxA (mulKmx uC).
Qed.

Lemma serial_Ci_inv : invmx Ci = 1%:M - Y^T *m invmx S *m Y.
Proof.
have uS := serial_S_unit. have uC := serial_Ci_unit.
have E : Ci *m (1%:M - Y^T *m invmx S *m Y) = 1%:M.
  rewrite mulmxBr mulmx1 !mulmxA -serial_swap.
  rewrite -[_ *m S *m invmx S]mulmxA (mulmxV uS) mulmx1 /Ci.
  by rewrite addrK.
by have := congr1 (mulmx (invmx Ci)) E; rewrite (mulKmx uC) mulmx1 => <-.
Qed.

(* covariance: X Ci^-1 X^T = X X^T - K S K^T with K = X Y^T S^-1 *)
Lemma serial_cov :
  X *m invmx Ci *m X^T =
  X *m X^T - (X *m Y^T *m invmx S) *m S *m (X *m Y^T *m invmx S)^T.
Proof.
have uS := serial_S_unit.
rewrite serial_Ci_inv mulmxBr mulmx1 mulmxBl; congr (_ - _).
rewrite !trmx_mul trmxK trmx_inv serial_S_sym.
rewrite -[_ *m invmx S *m S]mulmxA (mulVmx uS) mulmx1.
by rewrite !mulmxA.
Qed.

Lemma serial_cov_identity :
  X *m invmx Ci *m X^T = X *m X^T - X *m Y^T *m invmx S *m Y *m X^T.
Proof. by rewrite serial_Ci_inv mulmxBr mulmx1 mulmxBl !mulmxA. Qed.

(* mean: X Ci^-1 (Y^T R^-1 nu) = K nu *)
Lemma serial_mean :
  X *m invmx Ci *m (Y^T *m invmx R *m nu) = X *m Y^T *m invmx S *m nu.
Proof.
by rewrite -[X *m invmx Ci *m _]mulmxA [invmx Ci *m _]mulmxA serial_push_through !mulmxA.
Qed.

(* Woodbury on the quadratic form of the UVR density *)
Lemma serial_quadform :
  (nu^T *m invmx R) *m (1%:M - Y *m invmx Ci *m (Y^T *m invmx R)) *m nu =
  nu^T *m invmx S *m nu.
Proof.
have uS := serial_S_unit. have uR := spd_unit spdR.
rewrite -[Y *m invmx Ci *m _]mulmxA serial_push_through.
have -> : 1%:M - Y *m (Y^T *m invmx S) = R *m invmx S.
  rewrite -[1%:M](mulmxV uS) mulmxA -mulmxBl; congr (_ *m _).
  by rewrite /S [Y *m Y^T + R]addrC addrK.
by rewrite !mulmxA -[_ *m invmx R *m R]mulmxA (mulVmx uR) mulmx1.
Qed.

End Algebra.

(* matrix determinant lemma *)
Section DetLemma.
Variable F : fieldType.
Variables (d k : nat) (R : 'M[F]_d) (U : 'M[F]_(d,k)) (V : 'M[F]_(k,d)).
Hypothesis uR : R \in unitmx.
Lemma det_lemma : \det (R + U *m V) = \det R * \det (1%:M + V *m invmx R *m U).
Proof.
pose B : 'M[F]_(d + k) := block_mx R (- U) V 1%:M.
have E1 : B = block_mx 1%:M 0 (V *m invmx R) 1%:M *m block_mx R (- U) 0 (1%:M + V *m invmx R *m U).
  rewrite mulmx_block ?mul1mx ?mul0mx ?mulmx0 ?addr0 -[V *m invmx R *m R]mulmxA (mulVmx uR) mulmx1.
  by rewrite mulmxN addrCA addNr addr0.
have E2 : B = block_mx (R + U *m V) (- U) 0 1%:M *m block_mx 1%:M 0 V 1%:M.
  rewrite mulmx_block ?mulmx1 ?mul0mx ?mulmx0 ?add0r ?addr0 ?mul1mx.
  by rewrite mulNmx addrK.
have := E1; rewrite {1}E2 => /(congr1 determinant).
rewrite !det_mulmx !det_ublock !det_lblock !det1 !mulr1 !mul1r.
by move=> ->.
Qed.
End DetLemma.

(* ---------------------------------------------------------------------- *)
(* B. Block-diagonal matrices with k blocks of size s, assembled recursively
      ((k+1)*s is convertible with s + k*s, so block_mx needs no cast).     *)
Section BlockDiag.
Variable F : realFieldType.

Lemma spd_block n1 n2 (A : 'M[F]_n1) (B : 'M[F]_n2) :
  spd A -> spd B -> spd (block_mx A 0 0 B).
Proof.
case=> sA pA [sB pB]; split.
  by rewrite /sym tr_block_mx !trmx0 sA sB.
move=> x xn0; rewrite -(hsubmxK x) /qf mul_row_block tr_row_mx mul_row_col.
rewrite !mulmx0 addr0 add0r mxE.
have [l0|ln0] := eqVneq (lsubmx x) 0.
  have rn0 : rsubmx x != 0.
    by apply: contra xn0 => /eqP r0; rewrite -(hsubmxK x) l0 r0 row_mx0.
  by rewrite l0 !mul0mx mxE add0r; exact: pB.
have [r0|rn0] := eqVneq (rsubmx x) 0.
  by rewrite r0 !mul0mx [X in _ + X]mxE addr0; exact: pA.
by apply: addr_gt0; [exact: pA | exact: pB].
Qed.

Lemma spd_mx0 (A : 'M[F]_0) : spd A.
Proof.
split; first by rewrite /sym; apply/matrixP; case.
by move=> x; rewrite (thinmx0 x) eqxx.
Qed.

Variable s : nat.

Fixpoint bdiag (k : nat) (Rb : nat -> 'M[F]_s) : 'M[F]_(k * s) :=
  match k return 'M[F]_(k * s) with
  | 0%N => 0
  | k'.+1 => block_mx (Rb 0%N) 0 0 (bdiag k' (fun j => Rb j.+1))
  end.

Lemma bdiag_spd k Rb : (forall j, (j < k)%N -> spd (Rb j)) -> spd (bdiag k Rb).
Proof.
elim: k Rb => [|k IH] Rb H /=; first exact: spd_mx0.
by apply: spd_block; [exact: H | apply: IH => j jk; exact: H].
Qed.

Lemma bdiag_ext k Rb Rb' : (forall j, (j < k)%N -> Rb j = Rb' j) -> bdiag k Rb = bdiag k Rb'.
Proof.
elim: k Rb Rb' => [|k IH] Rb Rb' H //=.
by rewrite (H 0%N) // (IH _ (fun j => Rb' j.+1)) // => j jk; exact: H.
Qed.

Lemma bdiag_unit k Rb : (forall j, (j < k)%N -> Rb j \in unitmx) -> bdiag k Rb \in unitmx.
Proof.
elim: k Rb => [|k IH] Rb H /=; first by rewrite unitmxE det_mx00 unitr1.
by rewrite block_diag_mx_unit H //= IH // => j jk; exact: H.
Qed.

Lemma bdiag_inv k Rb : (forall j, (j < k)%N -> Rb j \in unitmx) ->
  invmx (bdiag k Rb) = bdiag k (fun j => invmx (Rb j)).
Proof.
elim: k Rb => [|k IH] Rb H /=.
  by apply/matrixP; case.
have u0 : Rb 0%N \in unitmx by exact: H.
have uk : bdiag k (fun j => Rb j.+1) \in unitmx by apply: bdiag_unit => j jk; exact: H.
by rewrite invmx_block_diag ?block_diag_mx_unit ?u0 ?uk // IH // => j jk; exact: H.
Qed.

Lemma bdiag_det k Rb : \det (bdiag k Rb) = \prod_(j < k) \det (Rb j).
Proof.
elim: k Rb => [|k IH] Rb /=; first by rewrite det_mx00 big_ord0.
by rewrite det_ublock IH big_ord_recl.
Qed.

(* the slices of the model (mslice with nat offsets) on block-structured matrices *)
Lemma mx_get_nat m n (A : 'M[F]_(m,n)) (i j : nat) (Hi : (i < m)%N) (Hj : (j < n)%N) :
  mx_get A i j = A (Ordinal Hi) (Ordinal Hj).
Proof. by rewrite /mx_get !insubT. Qed.

Lemma mx_get_dsub m1 m2 n (A : 'M[F]_(m1 + m2, n)) a c :
  mx_get (dsubmx A) a c = mx_get A (m1 + a) c.
Proof.
case: (ltnP c n) => cn; last by rewrite !mx_get_out_c.
case: (ltnP a m2) => am; last by rewrite !mx_get_out_r // leq_add2l.
have am' : (m1 + a < m1 + m2)%N by rewrite ltn_add2l.
rewrite (mx_get_nat _ am cn) (mx_get_nat _ am' cn) mxE.
by congr (A _ _); apply: val_inj.
Qed.

Lemma mx_get_usub m1 m2 n (A : 'M[F]_(m1 + m2, n)) a c : (a < m1)%N ->
  mx_get (usubmx A) a c = mx_get A a c.
Proof.
move=> am; case: (ltnP c n) => cn; last by rewrite !mx_get_out_c.
have am' : (a < m1 + m2)%N by apply: leq_trans am (leq_addr _ _).
rewrite (mx_get_nat _ am cn) (mx_get_nat _ am' cn) mxE.
by congr (A _ _); apply: val_inj.
Qed.

Lemma mx_get_block_ul n1 n2 (A : 'M[F]_n1) (B : 'M[F]_n2) a c : (a < n1)%N -> (c < n1)%N ->
  mx_get (block_mx A 0 0 B) a c = mx_get A a c.
Proof.
move=> an cn.
have an' : (a < n1 + n2)%N by apply: leq_trans an (leq_addr _ _).
have cn' : (c < n1 + n2)%N by apply: leq_trans cn (leq_addr _ _).
rewrite (mx_get_nat _ an' cn') (mx_get_nat _ an cn).
have -> : Ordinal an' = lshift n2 (Ordinal an) by apply: val_inj.
have -> : Ordinal cn' = lshift n2 (Ordinal cn) by apply: val_inj.
by rewrite block_mxEul.
Qed.

Lemma mx_get_block_dr n1 n2 (A : 'M[F]_n1) (B : 'M[F]_n2) a c :
  mx_get (block_mx A 0 0 B) (n1 + a) (n1 + c) = mx_get B a c.
Proof.
case: (ltnP a n2) => an; last by rewrite !mx_get_out_r // leq_add2l.
case: (ltnP c n2) => cn; last by rewrite !mx_get_out_c // leq_add2l.
have an' : (n1 + a < n1 + n2)%N by rewrite ltn_add2l.
have cn' : (n1 + c < n1 + n2)%N by rewrite ltn_add2l.
rewrite (mx_get_nat _ an' cn') (mx_get_nat _ an cn).
have -> : Ordinal an' = rshift n1 (Ordinal an) by apply: val_inj.
have -> : Ordinal cn' = rshift n1 (Ordinal cn) by apply: val_inj.
by rewrite block_mxEdr.
Qed.

(* row block j of Y (s rows from s*j), diagonal block j of R *)
Definition rblk m L (j : nat) (Y : 'M[F]_(m, L)) : 'M[F]_(s, L) :=
  \matrix_(i, c) mx_get Y (s * j + i) c.
Definition dblk m (j : nat) (R : 'M[F]_m) : 'M[F]_s :=
  \matrix_(i, c) mx_get R (s * j + i) (s * j + c).

Lemma rblk0 k L (Y : 'M[F]_(s + k * s, L)) : rblk 0 Y = usubmx Y.
Proof.
apply/matrixP=> i c; rewrite mxE muln0 add0n -mx_get_usub //.
by rewrite mx_get_ord.
Qed.

Lemma rblkS k L j (Y : 'M[F]_(s + k * s, L)) : rblk j.+1 Y = rblk j (dsubmx Y).
Proof. by apply/matrixP=> i c; rewrite !mxE mx_get_dsub mulnS addnA. Qed.

Lemma dblk_bdiag k Rb j : (j < k)%N -> dblk j (bdiag k Rb) = Rb j.
Proof.
elim: k Rb j => [|k IH] Rb [|j] //= jk.
  apply/matrixP=> i c; rewrite mxE muln0 !add0n mx_get_block_ul //.
  by rewrite mx_get_ord.
rewrite -(IH (fun j => Rb j.+1) j) //.
by apply/matrixP=> i c; rewrite !mxE mulnS -!addnA mx_get_block_dr.
Qed.

(* bdiag is zero outside the diagonal blocks *)
Lemma mx_get_block_off n1 n2 (A : 'M[F]_n1) (B : 'M[F]_n2) a b :
  (a < n1)%N != (b < n1)%N -> mx_get (block_mx A 0 0 B) a b = 0.
Proof.
move=> ne.
case: (ltnP a (n1 + n2)) => an; last by rewrite mx_get_out_r.
case: (ltnP b (n1 + n2)) => bn; last by rewrite mx_get_out_c.
rewrite (mx_get_nat _ an bn).
case: (ltnP a n1) ne => a1; case: (ltnP b n1) => b1 // _.
  have b2 : (b - n1 < n2)%N by rewrite ltn_subLR.
  have -> : Ordinal an = lshift n2 (Ordinal a1) by apply: val_inj.
  have -> : Ordinal bn = rshift n1 (Ordinal b2) by apply: val_inj; rewrite /= subnKC.
  by rewrite block_mxEur mxE.
have a2 : (a - n1 < n2)%N by rewrite ltn_subLR.
have -> : Ordinal an = rshift n1 (Ordinal a2) by apply: val_inj; rewrite /= subnKC.
have -> : Ordinal bn = lshift n2 (Ordinal b1) by apply: val_inj.
by rewrite block_mxEdl mxE.
Qed.

Lemma bdiag_offdiag k (Rb : nat -> 'M[F]_s) a b : (0 < s)%N ->
  (a %/ s != b %/ s)%N -> mx_get (bdiag k Rb) a b = 0.
Proof.
move=> s0; elim: k Rb a b => [|k IH] Rb a b ne /=; first by rewrite mx_get_out_r.
case: (ltnP a s) => a1; case: (ltnP b s) => b1.
- by move: ne; rewrite !divn_small // eqxx.
- by apply: mx_get_block_off; rewrite a1 ltnNge b1.
- by apply: mx_get_block_off; rewrite b1 ltnNge a1.
rewrite -(subnKC a1) -(subnKC b1) mx_get_block_dr; apply: IH.
by move: ne; rewrite -{1}(subnKC a1) -{1}(subnKC b1) !divnDl ?dvdnn // divnn s0 !add1n eqSS.
Qed.

(* block sum: sum_j Y_j^T G_j Z_j = Y^T blockdiag(G) Z *)
Lemma bdiag_sum k L L' (G : nat -> 'M[F]_s) (Y : 'M[F]_(k * s, L)) (Z : 'M[F]_(k * s, L')) :
  \sum_(j < k) (rblk j Y)^T *m G j *m rblk j Z = Y^T *m bdiag k G *m Z.
Proof.
elim: k G Y Z => [|k IH] G Y Z.
  rewrite big_ord0 /=; apply/matrixP=> i c; rewrite !mxE big_ord0 //.
rewrite big_ord_recl /= !rblk0.
have -> : \sum_(i < k) (rblk (bump 0 i) Y)^T *m G (bump 0 i) *m rblk (bump 0 i) Z =
          (dsubmx Y)^T *m bdiag k (fun j => G j.+1) *m dsubmx Z.
  by rewrite -IH; apply: eq_bigr => i _; rewrite /bump /= add1n !rblkS.
rewrite -{3}(vsubmxK Y) -{3}(vsubmxK Z) tr_col_mx mul_row_block mul_row_col.
by rewrite !mulmx0 addr0 add0r.
Qed.

(* column blocks: V blockdiag(G) assembled block by block, read back at column b
   from block b / s, column b mod s (the layout of V_inv_R / diff_T_inv_R in the
   UVR density) *)
Lemma mx_get_tr m n (A : 'M[F]_(m, n)) i j : mx_get A^T i j = mx_get A j i.
Proof.
case: (ltnP i n) => io; last by rewrite mx_get_out_r // mx_get_out_c.
case: (ltnP j m) => jo; last by rewrite mx_get_out_c // mx_get_out_r.
by rewrite (mx_get_nat _ io jo) (mx_get_nat _ jo io) mxE.
Qed.

Lemma mx_get_rsub m n1 n2 (A : 'M[F]_(m, n1 + n2)) a c :
  mx_get (rsubmx A) a c = mx_get A a (n1 + c).
Proof. by rewrite -mx_get_tr -[in RHS]mx_get_tr trmx_rsub mx_get_dsub. Qed.

Lemma mx_get_lsub m n1 n2 (A : 'M[F]_(m, n1 + n2)) a c : (c < n1)%N ->
  mx_get (lsubmx A) a c = mx_get A a c.
Proof. by move=> cn; rewrite -mx_get_tr -[in RHS]mx_get_tr trmx_lsub mx_get_usub. Qed.

Definition cblk L m (j : nat) (V : 'M[F]_(L, m)) : 'M[F]_(L, s) :=
  \matrix_(a, c) mx_get V a (j * s + c).

Lemma cblk0 k L (V : 'M[F]_(L, s + k * s)) : cblk 0 V = lsubmx V.
Proof. by apply/matrixP=> a c; rewrite mxE mul0n add0n -mx_get_lsub // mx_get_ord. Qed.

Lemma cblkS k L j (V : 'M[F]_(L, s + k * s)) : cblk j.+1 V = cblk j (rsubmx V).
Proof. by apply/matrixP=> a c; rewrite !mxE mx_get_rsub mulSn addnA. Qed.

Lemma rblk_tr m L j (Y : 'M[F]_(m, L)) : (rblk j Y)^T = cblk j Y^T.
Proof. by apply/matrixP=> a c; rewrite !mxE mx_get_tr mulnC. Qed.

Lemma mul_bdiag_cols k L (G : nat -> 'M[F]_s) (V : 'M[F]_(L, k * s)) (Bk : nat -> 'M[F]_(L, s)) :
  (0 < s)%N -> (forall j, (j < k)%N -> Bk j = cblk j V *m G j) ->
  V *m bdiag k G = \matrix_(a, b) mx_get (Bk (Nat.div b s)) a (Nat.modulo b s).
Proof.
move=> s0; have sn0 : s <> 0%N by case: s s0.
have E1 c : Nat.div (s + c) s = (Nat.div c s).+1.
  by rewrite -{1}(mul1n s) Nat.div_add_l.
have E2 c : Nat.modulo (s + c) s = Nat.modulo c s.
  by rewrite addnC; have := Nat.mod_add c 1 s sn0; rewrite /= Nat.add_0_r.
elim: k G V Bk => [|k IH] G V Bk HB; first by apply/matrixP=> a [].
rewrite /= -{1}(hsubmxK V) mul_row_block !mulmx0 addr0 add0r.
rewrite (IH _ _ (fun j => Bk j.+1)); last by move=> j jk; rewrite HB // cblkS.
apply/matrixP=> a b; rewrite [RHS]mxE.
case: (split_ordP b) => [b0 ->|b1 ->]; rewrite ?row_mxEl ?row_mxEr.
  have b0s := elimT ssrnat.ltP (ltn_ord b0).
  by rewrite /= Nat.div_small // Nat.mod_small // HB // cblk0 mx_get_ord.
by rewrite mxE /= E1 E2.
Qed.
End BlockDiag.

(* ---------------------------------------------------------------------- *)
(* C. The model at the MathComp instance.                                   *)
Section Model.
Variable F : realFieldType.
Variable tr : Transc F.
Variable sq : forall n, 'M[F]_n -> 'M[F]_n.
Variable eg : forall n, 'M[F]_n -> 'M[F]_(n,1).
Let O := MxMat tr sq eg.

Lemma div_ks k s : (0 < s)%N -> Nat.div (k * s) s = k.
Proof. by move=> s0; apply: Nat.div_mul; case: s s0. Qed.
Lemma mod_ks k s : (0 < s)%N -> Nat.modulo (k * s) s = 0%N.
Proof. by move=> s0; apply: Nat.mod_mul; case: s s0. Qed.

Lemma eqbE (i j : nat) : Nat.eqb i j = (i == j).
Proof. by apply/idP/eqP => [/Nat.eqb_eq|->] //; exact: Nat.eqb_refl. Qed.

Lemma mx_get_col0 r (v : 'cV[F]_r) (i : 'I_r) : mx_get v i 0 = v i 0.
Proof. by rewrite (mx_get_nat v (ltn_ord i) (ltn0Sn 0)); congr (v _ _); apply: val_inj. Qed.

(* ---- size check ---- *)
Lemma sukf_size_mismatch n m s nl ml (w : utw O) (h : M O n 1 -> M O m 1) (y : M O m 1)
      (nz : noise O s m) (pred corr_prev : mixture O n) :
  Nat.modulo m s <> 0%N ->
  sukf_correct nl ml w h y nz pred corr_prev = (pred, None).
Proof.
move=> ne; rewrite /sukf_correct.
by case E: (Nat.eqb _ _) => //; move/Nat.eqb_eq: E.
Qed.

Lemma sukf_likelihood_empty n m s (nz : noise O s m) :
  sukf_likelihood (n:=n) nz None = None.
Proof. by []. Qed.

(* ---- serial accumulation = block sums ---- *)
Section Accum.
Variables (s k L : nat).
Notation m := (k * s)%N.

(* the noise handed to the SUKF has diagonal blocks Rb 0 .. Rb (k-1) *)
Definition noise_blocks (nz : noise O s m) (Rb : nat -> 'M[F]_s) : Prop :=
  match nz with
  | NoiseReduced R0 => forall j, (j < k)%N -> Rb j = R0
  | NoiseFull R => R = bdiag k Rb
  end.

Lemma noise_blockE (nz : noise O s m) Rb j : noise_blocks nz Rb -> (j < k)%N ->
  noise_block nz j = Rb j.
Proof.
case: nz => [R0|R] /= H jk; first by rewrite H.
by rewrite H; exact: dblk_bdiag.
Qed.

Lemma accum_fold (Y : M O m L) (nu : M O m 1) (nz : noise O s m) q (acc : M O L L * M O L 1) :
  List.fold_left (sukf_accum_step Y nu nz) (List.seq 0%N q) acc =
  (acc.1 + \sum_(j < q) (rblk s j Y)^T *m invmx (noise_block nz j) *m rblk s j Y,
   acc.2 + \sum_(j < q) (rblk s j Y)^T *m invmx (noise_block nz j) *m rblk s j nu).
Proof.
elim: q => [|q IH]; first by rewrite !big_ord0 !addr0 /=; case: acc.
by rewrite List.seq_S List.fold_left_app IH /= !big_ord_recr /= !addrA.
Qed.

Lemma sukf_accum_blocks (Y : M O m L) (nu : M O m 1) (nz : noise O s m) Rb :
  (0 < s)%N -> noise_blocks nz Rb -> (forall j, (j < k)%N -> Rb j \in unitmx) ->
  sukf_accum Y nu nz =
  (1%:M + Y^T *m invmx (bdiag k Rb) *m Y, Y^T *m invmx (bdiag k Rb) *m nu).
Proof.
move=> s0 Hnz uR; rewrite /sukf_accum div_ks // accum_fold /= add0r bdiag_inv //.
rewrite -!bdiag_sum; congr (_ + _, _).
  by apply: eq_bigr => j _; rewrite (noise_blockE Hnz).
by apply: eq_bigr => j _; rewrite (noise_blockE Hnz).
Qed.

(* the reduced constructor = the full one with equal blocks *)
Lemma sukf_accum_reduced (Y : M O m L) (nu : M O m 1) (R0 : 'M[F]_s) : (0 < s)%N ->
  sukf_accum Y nu (@NoiseReduced O s m R0) =
  sukf_accum Y nu (@NoiseFull O s m (bdiag k (fun _ => R0))).
Proof.
move=> s0; rewrite /sukf_accum div_ks // !accum_fold.
have E j : (j < k)%N -> noise_block (@NoiseFull O s m (bdiag k (fun _ => R0))) j = R0.
  by move=> jk; rewrite (@noise_blockE _ (fun _ => R0)).
by congr (_ + _, _ + _); apply: eq_bigr => j _; rewrite E.
Qed.
End Accum.

(* ---- weights, diagonal weighting, sigma points ---- *)
Hypothesis sqrt_ok : forall x : F, 0 <= x -> t_sqrt tr x * t_sqrt tr x = x.

Lemma mdiag_ofE L (d : nat -> F) : mdiag_of O L d = diag_mx (\row_j d j).
Proof.
apply/matrixP=> i j; rewrite !mxE eqbE -val_eqE.
by case: (val i == val j); rewrite ?mulr1n ?mulr0n.
Qed.

Section Weights.
Variables (w : utw O) (L : nat).
Hypothesis wc0_ge0 : 0 <= wc0 w.
Hypothesis wci_ge0 : 0 <= wci w.

Lemma wc_at_ge0 j : 0 <= wc_at w j.
Proof. by rewrite /wc_at; case: Nat.eqb. Qed.

Lemma sqrtD_sq : sqrt_wcov_diag L w *m sqrt_wcov_diag L w = wcov_diag L w.
Proof.
rewrite /sqrt_wcov_diag /wcov_diag !mdiag_ofE mulmx_diag; congr diag_mx.
by apply/rowP=> j; rewrite !mxE sqrt_ok // wc_at_ge0.
Qed.

Lemma sqrtD_tr : (sqrt_wcov_diag L w)^T = sqrt_wcov_diag L w.
Proof. by rewrite /sqrt_wcov_diag mdiag_ofE tr_diag_mx. Qed.

(* (Xc D)(Yc D)^T = Xc W Yc^T *)
Lemma weighted_cross a b (Xc : 'M[F]_(a, L)) (Yc : 'M[F]_(b, L)) :
  (Xc *m sqrt_wcov_diag L w) *m (Yc *m sqrt_wcov_diag L w)^T = Xc *m wcov_diag L w *m Yc^T.
Proof. by rewrite trmx_mul sqrtD_tr !mulmxA -[Xc *m _ *m _]mulmxA sqrtD_sq. Qed.
End Weights.

Lemma mcolwise_subE r c (X : 'M[F]_(r, c)) (v : 'cV[F]_r) :
  mcolwise_sub (O:=O) X v = \matrix_(i, j) (X i j - v i 0).
Proof. by apply/matrixP=> i j; rewrite !mxE /= mx_get_ord mx_get_col0. Qed.

Lemma mcolwise_add_sub r c (X : 'M[F]_(r, c)) (v : 'cV[F]_r) :
  mcolwise_sub (O:=O) (mcolwise_add (O:=O) X v) v = X.
Proof. by apply/matrixP=> i j; rewrite !mxE /= !mx_get_ord mxE /= !mx_get_ord mx_get_col0 addrK. Qed.

(* [Z | U | V] diag(d) with d constant after the first entry *)
Lemma mul_row3_diag n (Z : 'M[F]_(n, 1)) (U V : 'M[F]_n) (d : nat -> F) (d1 : F) :
  (forall j, d j.+1 = d1) ->
  row_mx Z (row_mx U V) *m mdiag_of O (1 + (n + n)) d =
  row_mx (d 0%N *: Z) (row_mx (d1 *: U) (d1 *: V)).
Proof.
move=> dS; rewrite mdiag_ofE mul_mx_diag.
apply/matrixP=> i j; rewrite mxE [in LHS]mxE.
case: (split_ordP j) => [j0 ->|j1 ->]; rewrite ?row_mxEl ?row_mxEr.
  by rewrite !mxE ord1 mulrC.
have -> : (\row_j0 d j0) 0 (rshift 1 j1) = d1 by rewrite mxE /= add1n dS.
by case: (split_ordP j1) => [j2 ->|j2 ->]; rewrite ?row_mxEl ?row_mxEr !mxE mulrC.
Qed.

Lemma row3_gram n (Z : 'M[F]_(n, 1)) (U V : 'M[F]_n) :
  row_mx Z (row_mx U V) *m (row_mx Z (row_mx U V))^T = Z *m Z^T + (U *m U^T + V *m V^T).
Proof. by rewrite !tr_row_mx !mul_row_col. Qed.

(* Euler layout: on the linear rows lay_add / lay_sub are the plain column-wise operations *)
Lemma lay_add_sub_linear r c nl (X : 'M[F]_(r, c)) (v : 'cV[F]_r) : (r <= nl)%N ->
  lay_sub (O:=O) nl (lay_add (O:=O) nl X v) v = X.
Proof.
move=> le; apply/matrixP=> i j; rewrite !mxE /= !mx_get_ord mxE /= !mx_get_ord mx_get_col0.
have -> : Nat.ltb i nl = true by apply/Nat.ltb_lt/ssrnat.ltP; exact: leq_trans (ltn_ord i) le.
by rewrite addrK.
Qed.

Section Sigma.
Variables (n nl : nat) (w : utw O) (x : 'cV[F]_n) (P : 'M[F]_n).
(* the sigma-point perturbations are recovered from the sigma points by the layout's
   difference: an identity on linear rows; on an angle row it says that
   directional_sub (directional_add p m) m = p, i.e. the perturbation lies in (-pi, pi] *)
Definition state_roundtrip : Prop :=
  lay_sub (O:=O) nl (lay_add (O:=O) nl (perturbations n (utc w) P) x) x = perturbations n (utc w) P.
Hypothesis rt : state_roundtrip.
Hypothesis c_gt0 : 0 < utc w.
Hypothesis wciE : wci w = ((1 + 1) * utc w)^-1.
Hypothesis sqP : @sq n P *m (@sq n P)^T = P.

Lemma wci_ge0_of_c : 0 <= wci w.
Proof. by rewrite wciE invr_ge0; apply: mulr_ge0; [apply: addr_ge0; exact: ler01 | exact: ltW]. Qed.

(* the weighted state offsets: X = (SP - x) sqrt(diag wc) *)
Definition Xw := lay_sub (O:=O) nl (sigma_points n nl (utc w) x P) x *m sqrt_wcov_diag (nsig n) w.

Lemma XwE :
  Xw = row_mx (0 : 'M[F]_(n, 1)) (row_mx ((t_sqrt tr (utc w) * t_sqrt tr (wci w)) *: @sq n P)
                        ((- (t_sqrt tr (utc w) * t_sqrt tr (wci w))) *: @sq n P)).
Proof.
rewrite /Xw /sigma_points rt /sqrt_wcov_diag /perturbations.
rewrite [LHS](@mul_row3_diag _ _ _ _ _ (t_sqrt tr (wci w))) //.
by rewrite /= scaler0 !scalerA mulrN ![t_sqrt tr (wci w) * _]mulrC.
Qed.

Lemma Xw_cov : Xw *m Xw^T = P.
Proof.
rewrite XwE [LHS]row3_gram trmx0 mulmx0 add0r.
set a := _ * _.
rewrite !linearZ /= -!scalemxAl !scalerA mulrNN -scalerDl sqP.
have -> : a * a + a * a = 1; last by rewrite scale1r.
rewrite /a mulrACA !sqrt_ok ?wci_ge0_of_c ?ltW //.
have -> : utc w * wci w + utc w * wci w = ((1 + 1) * utc w) * wci w by rewrite -mulrA mulrDl !mul1r.
have pos : 0 < (1 + 1) * utc w by apply: mulr_gt0 => //; apply: addr_gt0; exact: ltr01.
by rewrite wciE mulfV // gt_eqF.
Qed.
End Sigma.

Lemma state_roundtrip_linear n nl (w : utw O) (x : 'cV[F]_n) (P : 'M[F]_n) : (n <= nl)%N ->
  state_roundtrip nl w x P.
Proof. by move=> le; rewrite /state_roundtrip lay_add_sub_linear. Qed.


(* ---- likelihood: the UVR density as getLikelihood() calls it = the direct density ---- *)
Lemma nth_map_seq A (f : nat -> A) q i d : (i < q)%N ->
  List.nth i (List.map f (List.seq 0 q)) d = f i.
Proof.
move=> iq; have iq' := elimT ssrnat.ltP iq.
rewrite (List.nth_indep _ d (f 0%N)) ?List.map_length ?List.seq_length //.
by rewrite List.map_nth List.seq_nth.
Qed.

Lemma mx_get00 (A : 'M[F]_1) : mx_get A 0 0 = A 0 0.
Proof. by rewrite (mx_get_nat A (ltn0Sn 0) (ltn0Sn 0)); congr (A _ _); apply: val_inj. Qed.

Lemma fold_prod (f : nat -> F) q a :
  List.fold_left (fun acc i => acc * f i) (List.seq 0 q) a = a * \prod_(j < q) f j.
Proof.
elim: q => [|q IH]; first by rewrite big_ord0 mulr1.
by rewrite List.seq_S List.fold_left_app IH /= big_ord_recr /= mulrA.
Qed.

Lemma build_blocks_mul s k L (G : nat -> 'M[F]_s) (V : 'M[F]_(L, k * s))
      (blocks : list 'M[F]_(L, s)) (dflt : 'M[F]_(L, s)) :
  (0 < s)%N -> (forall j, (j < k)%N -> List.nth j blocks dflt = cblk s j V *m G j) ->
  @mbuild O L (k * s) (fun a b => @mget O L s (List.nth (Nat.div b s) blocks dflt) a (Nat.modulo b s)) =
  V *m bdiag k G.
Proof. by move=> s0 H; rewrite (@mul_bdiag_cols _ _ _ _ _ _ (fun j => List.nth j blocks dflt)). Qed.

Section Likelihood.
Variables (s k L : nat).
Notation m := (k * s)%N.
Variables (nz : noise O s m) (Rb : nat -> 'M[F]_s).
Hypothesis s_gt0 : (0 < s)%N.
Hypothesis Hnz : noise_blocks nz Rb.
Hypothesis spdRb : forall j, (j < k)%N -> spd (Rb j).

Let R : 'M[F]_m := bdiag k Rb.
Let sn0 : s <> 0%N. Proof. by case: s s_gt0. Qed.

Lemma lik_Rcat_block i : (i < k)%N -> mslice 0 (s * i) s s (lik_Rcat nz) = Rb i.
Proof.
move=> ik; apply/matrixP=> a c; rewrite mxE /=.
have cs := elimT ssrnat.ltP (ltn_ord c).
have D : Nat.div (s * i + c) s = i.
  by rewrite mulnC Nat.div_add_l // Nat.div_small //; exact: addn0.
have Mo : Nat.modulo (s * i + c) s = c.
  by rewrite mulnC addnC; have := Nat.mod_add c i s sn0 => ->; rewrite Nat.mod_small.
have lt : (s * i + c < k * s)%N.
  apply: (@leq_trans (i.+1 * s)); last by rewrite leq_mul2r ik orbT.
  by rewrite mulSn [(s * i)%N]mulnC [(s + _)%N]addnC ltn_add2l.
rewrite /lik_Rcat /= mx_get_build // D Mo div_ks // nth_map_seq // (noise_blockE Hnz) //.
by rewrite mx_get_ord.
Qed.

Lemma uvr_terms_eq (nu : 'cV[F]_m) (Y : 'M[F]_(m, L)) :
  uvr_terms (O:=O) nu (mzero m 1) Y (@mtr O m L Y) (lik_Rcat nz) =
  (\det R * \det (1%:M + Y^T *m invmx R *m Y),
   ((nu^T *m invmx R) *m (1%:M - Y *m invmx (1%:M + Y^T *m invmx R *m Y) *m (Y^T *m invmx R)) *m nu) 0 0).
Proof.
have spdR : spd R by exact: bdiag_spd.
have uRb j : (j < k)%N -> Rb j \in unitmx by move=> jk; apply: spd_unit; exact: spdRb.
rewrite /uvr_terms div_ks //.
have -> : mcolwise_sub (O:=O) nu (mzero m 1) = nu.
  by rewrite mcolwise_subE; apply/matrixP=> i j; rewrite !mxE subr0 ord1.
set iRl := (if Nat.eqb m s then List.map _ _ else _).
have iRE i : (i < k)%N -> List.nth i iRl (mzero s s) = invmx (Rb i).
  move=> ik; rewrite /iRl; case E: (Nat.eqb m s); last by rewrite nth_map_seq // lik_Rcat_block.
  have k1 : k = 1%N.
    by move/Nat.eqb_eq: E => /eqP; rewrite -{2}(mul1n s) eqn_pmul2r // => /eqP.
  have k0 : (0 < k)%N by rewrite k1.
  have -> : i = 0%N by move: ik; rewrite k1; case: i.
  by rewrite nth_map_seq // lik_Rcat_block.
set VR := mbuild L m _.
have VRE : VR = Y^T *m invmx R.
  rewrite /R bdiag_inv //; apply: build_blocks_mul => // j jk.
  by rewrite nth_map_seq // iRE.
set dR := mbuild 1 m _.
have dRE : dR = nu^T *m invmx R.
  rewrite /R bdiag_inv //; apply: build_blocks_mul => // j jk.
  rewrite nth_map_seq // iRE //; congr (_ *m _).
  by apply/matrixP=> a c; rewrite !mxE /= mx_get_tr.
set detR := (if Nat.eqb m s then spow _ _ else _).
have detRE : detR = \det R.
  rewrite /detR /R bdiag_det; case E: (Nat.eqb m s).
    have k1 : k = 1%N.
      by move/Nat.eqb_eq: E => /eqP; rewrite -{2}(mul1n s) eqn_pmul2r // => /eqP.
    have k0 : (0 < k)%N by rewrite k1.
    have -> : \prod_(j < k) \det (Rb j) = \det (Rb 0%N) by rewrite k1 big_ord1.
    have -> : forall x, spow (O:=O) x k = x by move=> x; rewrite k1 /= mulr1.
    by rewrite lik_Rcat_block.
  rewrite fold_prod mul1r; apply: eq_bigr => j _.
  by rewrite lik_Rcat_block.
by rewrite VRE dRE detRE /= mx_get00.
Qed.

(* the argument of std::log in the UVR density is positive *)
Lemma uvr_det_gt0 (nu : 'cV[F]_m) (Y : 'M[F]_(m, L)) :
  0 < (uvr_terms (O:=O) nu (mzero m 1) Y (@mtr O m L Y) (lik_Rcat nz)).1.
Proof.
have spdR : spd R by exact: bdiag_spd.
by rewrite uvr_terms_eq; exact: (serial_detC_gt0 Y spdR).
Qed.

Lemma uvr_is_direct (nu : 'cV[F]_m) (Y : 'M[F]_(m, L)) :
  uvr_log_density (O:=O) nu (mzero m 1) Y (@mtr O m L Y) (lik_Rcat nz) =
  log_density (O:=O) nu (mzero m 1) (Y *m Y^T + R).
Proof.
have spdR : spd R by exact: bdiag_spd.
rewrite /uvr_log_density uvr_terms_eq /log_density /gauss_log_value /=; congr (_ * (_ + _ + _)).
  by rewrite [Y *m Y^T + R]addrC (det_lemma _ _ (spd_unit spdR)).
rewrite /quadform /= mx_get00 subr0.
by rewrite (serial_quadform Y nu spdR).
Qed.
End Likelihood.
(* ---- one component: serial correction = additive UKF correction ---- *)
Section Comp.
Variables (n nl ml k s : nat).
Notation m := (k * s)%N.
Variables (w : utw O) (h : M O n 1 -> M O m 1) (y : M O m 1) (nz : noise O s m).
Variables (Rb : nat -> 'M[F]_s) (x : 'cV[F]_n) (P : 'M[F]_n).
Hypothesis s_gt0 : (0 < s)%N.
Hypothesis c_gt0 : 0 < utc w.
Hypothesis wciE : wci w = ((1 + 1) * utc w)^-1.
Hypothesis wc0_ge0 : 0 <= wc0 w.
Hypothesis sqP : @sq n P *m (@sq n P)^T = P.
Hypothesis rt : state_roundtrip nl w x P.
Hypothesis Hnz : noise_blocks nz Rb.
Hypothesis spdRb : forall j, (j < k)%N -> spd (Rb j).

Let R : 'M[F]_m := bdiag k Rb.
Let so := sukf_correct_comp_lay nl ml w h y nz x P.
Let uo := ukf_correct_comp_lay nl ml w h y (R : M O m m) x P.
Let L := nsig n.
Let Yraw : 'M[F]_(m, L) := propagate h (sigma_points n nl (utc w) x P).
Let ybar : 'cV[F]_m := lay_mean (O:=O) ml Yraw (wmean_col L w).
Let Yc : 'M[F]_(m, L) := lay_sub (O:=O) ml Yraw ybar.
Let Yw : 'M[F]_(m, L) := Yc *m sqrt_wcov_diag L w.
Let X : 'M[F]_(n, L) := Xw nl w x P.
Let nu : 'cV[F]_m := y - ybar.

Lemma comp_R_spd : spd R. Proof. exact: bdiag_spd. Qed.
Lemma comp_Rb_unit j : (j < k)%N -> Rb j \in unitmx.
Proof. by move=> jk; apply: spd_unit; exact: spdRb. Qed.

Lemma so_covE : so_cov so = X *m invmx (1%:M + Yw^T *m invmx R *m Yw) *m X^T.
Proof.
by rewrite /so /sukf_correct_comp_lay (@sukf_accum_blocks _ _ _ _ _ _ Rb) //; exact: comp_Rb_unit.
Qed.

Lemma so_meanE :
  so_mean so = x + X *m invmx (1%:M + Yw^T *m invmx R *m Yw) *m (Yw^T *m invmx R *m nu).
Proof.
by rewrite /so /sukf_correct_comp_lay (@sukf_accum_blocks _ _ _ _ _ _ Rb) //; exact: comp_Rb_unit.
Qed.

Lemma so_innovE : so_innov so = nu. Proof. by []. Qed.
Lemma so_YE : so_Y so = Yw. Proof. by []. Qed.

Lemma uo_PyyE : uo_Pyy uo = Yw *m Yw^T + R.
Proof.
rewrite /uo /ukf_correct_comp_lay /= -/L -/Yraw -/ybar -/Yc.
by rewrite -(weighted_cross wc0_ge0 (wci_ge0_of_c c_gt0 wciE)).
Qed.

Lemma uo_innovE : uo_innov uo = nu. Proof. by []. Qed.

Let K : 'M[F]_(n, m) := X *m Yw^T *m invmx (Yw *m Yw^T + R).

Lemma uo_meanE : uo_mean uo = x + K *m nu.
Proof.
have := uo_PyyE; rewrite /uo /ukf_correct_comp_lay /= -/L -/Yraw -/ybar -/Yc => ->.
by rewrite -(weighted_cross wc0_ge0 (wci_ge0_of_c c_gt0 wciE)).
Qed.

Lemma uo_covE : uo_cov uo = P - K *m (Yw *m Yw^T + R) *m K^T.
Proof.
have := uo_PyyE; rewrite /uo /ukf_correct_comp_lay /= -/L -/Yraw -/ybar -/Yc => ->.
by rewrite -(weighted_cross wc0_ge0 (wci_ge0_of_c c_gt0 wciE)).
Qed.

Lemma sukf_comp_cov : so_cov so = uo_cov uo.
Proof.
rewrite so_covE uo_covE (serial_cov X Yw comp_R_spd).
by rewrite /X (Xw_cov rt c_gt0 wciE sqP).
Qed.

Lemma sukf_comp_mean : so_mean so = uo_mean uo.
Proof. by rewrite so_meanE uo_meanE (serial_mean X Yw nu comp_R_spd). Qed.

Lemma sukf_comp_likelihood : sukf_likelihood_comp nz so = ukf_likelihood_comp uo.
Proof.
rewrite /sukf_likelihood_comp /ukf_likelihood_comp /density uo_PyyE uo_innovE so_innovE so_YE.
by rewrite (uvr_is_direct s_gt0 Hnz spdRb).
Qed.

(* what the update inverts is invertible (no reliance on invmx's totalisation) *)
Lemma sukf_comp_Cinv_unit : (sukf_accum (O:=O) Yw nu nz).1 \in unitmx.
Proof.
rewrite (@sukf_accum_blocks _ _ _ _ _ _ Rb) //; last exact: comp_Rb_unit.
exact: (serial_Ci_unit Yw comp_R_spd).
Qed.
Lemma ukf_comp_Pyy_unit : uo_Pyy uo \in unitmx.
Proof. by rewrite uo_PyyE; exact: (serial_S_unit Yw comp_R_spd). Qed.

(* the arguments of std::log in the two likelihoods are positive (Coq-side: no reliance on
   the totalisation of ln) *)
Lemma sukf_comp_lndet_gt0 :
  0 < (uvr_terms (O:=O) (so_innov so) (mzero m 1) (so_Y so) (@mtr O m L (so_Y so)) (lik_Rcat nz)).1.
Proof. exact: (uvr_det_gt0 s_gt0 Hnz spdRb). Qed.
Lemma ukf_comp_lndet_gt0 : 0 < \det (uo_Pyy uo : 'M[F]_m).
Proof. by rewrite uo_PyyE; exact: (serial_detS_gt0 Yw comp_R_spd). Qed.

End Comp.


(* ---- reduced constructor = full constructor with equal blocks ---- *)
Section Reduced.
Variables (n nl ml k s : nat).
Notation m := (k * s)%N.
Variables (w : utw O) (h : M O n 1 -> M O m 1) (y : M O m 1) (R0 : 'M[F]_s).
Hypothesis s_gt0 : (0 < s)%N.
Let nzr : noise O s m := @NoiseReduced O s m R0.
Let nzf : noise O s m := @NoiseFull O s m (bdiag k (fun _ => R0)).

Lemma sukf_comp_reduced x P : sukf_correct_comp_lay nl ml w h y nzr x P = sukf_correct_comp_lay nl ml w h y nzf x P.
Proof. by rewrite /sukf_correct_comp_lay sukf_accum_reduced. Qed.

Lemma lik_Rcat_reduced : lik_Rcat nzr = lik_Rcat nzf.
Proof.
rewrite /lik_Rcat div_ks //.
have -> // : List.map (noise_block nzr) (List.seq 0 k) = List.map (noise_block nzf) (List.seq 0 k).
apply: List.map_ext_in => j /List.in_seq [_ /ssrnat.ltP jk].
by rewrite (@noise_blockE _ _ nzf (fun _ => R0)).
Qed.

Lemma sukf_lik_reduced (o : sukf_out O n m) :
  sukf_likelihood_comp nzr o = sukf_likelihood_comp nzf o.
Proof. by rewrite /sukf_likelihood_comp lik_Rcat_reduced. Qed.

Lemma sukf_correct_reduced pred corr_prev :
  sukf_correct nl ml w h y nzr pred corr_prev = sukf_correct nl ml w h y nzf pred corr_prev.
Proof.
rewrite /sukf_correct; case: Nat.eqb => //.
have -> // : List.map (fun c => sukf_correct_comp_lay nl ml w h y nzr c.1 c.2) (mix_comps pred) =
             List.map (fun c => sukf_correct_comp_lay nl ml w h y nzf c.1 c.2) (mix_comps pred).
by apply: List.map_ext => c; exact: sukf_comp_reduced.
Qed.

Lemma sukf_likelihood_reduced (mb : members O n m) :
  sukf_likelihood nzr mb = sukf_likelihood nzf mb.
Proof.
case: mb => [outs|]; last by rewrite /sukf_likelihood.
rewrite /sukf_likelihood; apply: (f_equal Some).
exact: (List.map_ext _ _ sukf_lik_reduced).
Qed.
End Reduced.

(* ---- the whole step on a mixture, with the library's unscented weights ---- *)
Section Step.
Variables (n nl ml k s : nat).
Notation m := (k * s)%N.
Variables (alpha beta kappa : F).
Let w : utw O := @ut_weights O n alpha beta kappa.
Variables (h : M O n 1 -> M O m 1) (y : M O m 1) (nz : noise O s m) (Rb : nat -> 'M[F]_s).
Hypothesis s_gt0 : (0 < s)%N.
Hypothesis c_gt0 : 0 < utc w.
Hypothesis wc0_ge0 : 0 <= wc0 w.
Hypothesis Hnz : noise_blocks nz Rb.
Hypothesis spdRb : forall j, (j < k)%N -> spd (Rb j).

Lemma ut_wciE : wci w = ((1 + 1) * utc w)^-1.
Proof. by rewrite /w /= div1r. Qed.

Hypothesis sq_contract : forall d (P : 'M[F]_d), psd P -> @sq d P *m (@sq d P)^T = P.

Lemma step_comp_cov x P : psd (P : 'M[F]_n) -> state_roundtrip nl w x P ->
  so_cov (sukf_correct_comp_lay nl ml w h y nz x P) = uo_cov (ukf_correct_comp_lay nl ml w h y (bdiag k Rb : M O m m) x P).
Proof.
by move=> pP rt; exact: (@sukf_comp_cov n nl ml k s w h y nz Rb x P s_gt0 c_gt0 ut_wciE wc0_ge0 (sq_contract pP) rt Hnz spdRb).
Qed.

Lemma step_comp_mean x P :
  so_mean (sukf_correct_comp_lay nl ml w h y nz x P) = uo_mean (ukf_correct_comp_lay nl ml w h y (bdiag k Rb : M O m m) x P).
Proof. exact: (@sukf_comp_mean n nl ml k s w h y nz Rb x P s_gt0 c_gt0 ut_wciE wc0_ge0 Hnz spdRb). Qed.

Lemma step_comp_likelihood x P :
  sukf_likelihood_comp nz (sukf_correct_comp_lay nl ml w h y nz x P) =
  ukf_likelihood_comp (ukf_correct_comp_lay nl ml w h y (bdiag k Rb : M O m m) x P).
Proof. exact: (@sukf_comp_likelihood n nl ml k s w h y nz Rb x P s_gt0 c_gt0 ut_wciE wc0_ge0 Hnz spdRb). Qed.

Lemma step_sigma_cov x P : psd (P : 'M[F]_n) -> state_roundtrip nl w x P ->
  Xw nl w x P *m (Xw nl w x P)^T = P.
Proof. by move=> pP rt; exact: (Xw_cov rt c_gt0 ut_wciE (sq_contract pP)). Qed.

Lemma step_Cinv_unit x P :
  (sukf_accum (O:=O) (so_Y (sukf_correct_comp_lay nl ml w h y nz x P))
                     (so_innov (sukf_correct_comp_lay nl ml w h y nz x P)) nz).1 \in unitmx.
Proof. exact: (@sukf_comp_Cinv_unit n nl ml k s w h y nz Rb x P s_gt0 Hnz spdRb). Qed.

Lemma step_Pyy_unit x P : uo_Pyy (ukf_correct_comp_lay nl ml w h y (bdiag k Rb : M O m m) x P) \in unitmx.
Proof. exact: (@ukf_comp_Pyy_unit n nl ml k s w h y Rb x P c_gt0 ut_wciE wc0_ge0 spdRb). Qed.

Lemma step_sukf_lndet_gt0 x P :
  0 < (uvr_terms (O:=O) (so_innov (sukf_correct_comp_lay nl ml w h y nz x P)) (mzero m 1)
                 (so_Y (sukf_correct_comp_lay nl ml w h y nz x P))
                 (@mtr O m (nsig n) (so_Y (sukf_correct_comp_lay nl ml w h y nz x P))) (lik_Rcat nz)).1.
Proof. exact: (@sukf_comp_lndet_gt0 n nl ml k s w h y nz Rb x P s_gt0 Hnz spdRb). Qed.

Lemma step_ukf_lndet_gt0 x P :
  0 < \det (uo_Pyy (ukf_correct_comp_lay nl ml w h y (bdiag k Rb : M O m m) x P) : 'M[F]_m).
Proof. exact: (@ukf_comp_lndet_gt0 n nl ml k s w h y Rb x P c_gt0 ut_wciE wc0_ge0 spdRb). Qed.

Lemma sukf_step_is_ukf (pred corr_prev : mixture O n) :
  (forall c, List.In c (mix_comps pred) -> psd (c.2 : 'M[F]_n) /\ state_roundtrip nl w c.1 c.2) ->
  (sukf_correct nl ml w h y nz pred corr_prev).1 =
    (ukf_correct nl ml w h y (bdiag k Rb : M O m m) pred corr_prev).1 /\
  sukf_likelihood nz (sukf_correct nl ml w h y nz pred corr_prev).2 =
    Some (List.map (@ukf_likelihood_comp O n m) (ukf_correct nl ml w h y (bdiag k Rb : M O m m) pred corr_prev).2).
Proof.
move=> Hpsd; have Hsq c (Hc : List.In c (mix_comps pred)) := sq_contract (proj1 (Hpsd c Hc)).
rewrite /sukf_correct mod_ks // /ukf_correct /sukf_likelihood; split.
  congr (mkMix (overwrite_prefix _ _) _); rewrite !List.map_map; apply: List.map_ext_in => c Hc.
  by rewrite (@sukf_comp_cov n nl ml k s w h y nz Rb c.1 c.2 s_gt0 c_gt0 ut_wciE wc0_ge0 (Hsq _ Hc) (proj2 (Hpsd c Hc)) Hnz spdRb)
             (@sukf_comp_mean n nl ml k s w h y nz Rb c.1 c.2 s_gt0 c_gt0 ut_wciE wc0_ge0 Hnz spdRb).
congr Some; rewrite !List.map_map; apply: List.map_ext_in => c Hc.
by rewrite (@sukf_comp_likelihood n nl ml k s w h y nz Rb c.1 c.2 s_gt0 c_gt0 ut_wciE wc0_ge0 Hnz spdRb).
Qed.
End Step.

End Model.
