(* C05_Proofs.v — the serial unscented correction model at the MathComp instance. *)
Require Import ZArith List.
Require Import BFL.Ops BFL.Density BFL.C05_Model.
From mathcomp Require Import all_ssreflect all_algebra.
Require Import BFL.MxOps BFL.LinAlg.
Set Implicit Arguments.
Unset Strict Implicit.
Unset Printing Implicit Defensive.
Import Order.Theory GRing.Theory Num.Theory.
Local Open Scope ring_scope.

Section Model.
Variable F : realFieldType.
Variable tr : Transc F.
Variable sq : forall n, 'M[F]_n -> 'M[F]_n.
Variable eg : forall n, 'M[F]_n -> 'M[F]_(n,1).
Let O := MxMat tr sq eg.

Lemma sukf_size_mismatch n m s (w : utw O) (h : M O n 1 -> M O m 1) (y : M O m 1)
      (nz : noise O s m) prev (pred corr_prev : mixture O n) :
  Nat.modulo m s <> 0%N ->
  sukf_correct w h y nz prev pred corr_prev = (pred, prev).
Proof.
move=> ne; rewrite /sukf_correct.
by case E: (Nat.eqb _ _) => //; move/Nat.eqb_eq: E.
Qed.

End Model.
