(* C01_Proofs.v — the Kalman correction model at the MathComp instance. *)
Require Import ZArith List.
Require Import BFL.Ops BFL.Density BFL.C01_Model.
From mathcomp Require Import all_ssreflect all_algebra.
Require Import BFL.MxOps BFL.LinAlg.
Set Implicit Arguments.
Unset Strict Implicit.
Unset Printing Implicit Defensive.
Import Order.Theory GRing.Theory Num.Theory.
Local Open Scope ring_scope.

Section KFAlgebra.
Variable F : realFieldType.
Variables (n m : nat).
Variables (P : 'M[F]_n) (H : 'M[F]_(m,n)) (R : 'M[F]_m).
Hypothesis spdP : spd P.
Hypothesis spdR : spd R.

Let S := H *m P *m H^T + R.
Let K := P *m H^T *m invmx S.
Let Pp := P - K *m S *m K^T.

Lemma S_spd : spd S.
Proof. apply: psd_spd_add => //; apply: psd_congr; exact: spd_psd. Qed.

Lemma S_unit : S \in unitmx. Proof. exact: spd_unit S_spd. Qed.

Lemma KSKt : K *m S *m K^T = K *m H *m P.
Proof.
have uS := S_unit.
have symS : S^T = S by case: S_spd.
have symP : P^T = P by case: spdP.
rewrite /K !trmx_mul trmxK trmx_inv symS symP -!mulmxA.
by rewrite [invmx S *m (S *m _)]mulmxA (mulVmx uS) mul1mx.
Qed.

Lemma KSKt' : K *m S *m K^T = P *m H^T *m K^T.
Proof. by rewrite /K -!mulmxA [invmx S *m (S *m _)]mulmxA (mulVmx S_unit) mul1mx. Qed.

Lemma Pp_eq : Pp = P - K *m H *m P.
Proof. by rewrite /Pp KSKt. Qed.

(* Woodbury / information form *)
Lemma kf_information_form : Pp *m (invmx P + H^T *m invmx R *m H) = 1%:M.
Proof.
have uP := spd_unit spdP. have uR := spd_unit spdR. have uS := S_unit.
have HPHt : H *m P *m H^T = S - R by rewrite /S addrK.
rewrite Pp_eq /K.
set A := P *m H^T. set Si := invmx S. set Ri := invmx R.
have t3 : A *m Si *m H *m P *m invmx P = A *m Si *m H.
  by rewrite -[_ *m P *m invmx P]mulmxA (mulmxV uP) mulmx1.
have t4 : A *m Si *m H *m P *m (H^T *m Ri *m H) = A *m Ri *m H - A *m Si *m H.
  have -> : A *m Si *m H *m P *m (H^T *m Ri *m H) = A *m Si *m (H *m P *m H^T) *m Ri *m H.
    by rewrite !mulmxA.
  rewrite HPHt mulmxBr !mulmxBl -/Si -/Ri.
  rewrite -[A *m Si *m S]mulmxA (mulVmx uS) mulmx1.
  by rewrite -[A *m Si *m R *m Ri]mulmxA (mulmxV uR) mulmx1.
rewrite mulmxBl !mulmxDr (mulmxV uP) t3 t4.
have -> : P *m (H^T *m Ri *m H) = A *m Ri *m H by rewrite !mulmxA.
by rewrite [A *m Si *m H + _]addrC subrK addrK.
Qed.

Lemma info_unit : invmx P + H^T *m invmx R *m H \in unitmx.
Proof. by case/mulmx1_unit: kf_information_form. Qed.

Lemma kf_cov_is_info_inverse : Pp = invmx (invmx P + H^T *m invmx R *m H).
Proof.
have uI := info_unit.
by rewrite -[LHS]mulmx1 -(mulmxV uI) mulmxA kf_information_form mul1mx.
Qed.

Lemma Pp_sym : sym Pp.
Proof.
apply: sym_sub; first by case: spdP.
by apply: sym_congr; case: S_spd.
Qed.

(* Joseph form *)
Lemma joseph : Pp = (1%:M - K *m H) *m P *m (1%:M - K *m H)^T + K *m R *m K^T.
Proof.
have symP : P^T = P by case: spdP.
have E : K *m R *m K^T = K *m S *m K^T - K *m (H *m P *m H^T) *m K^T.
  by rewrite /S mulmxDr mulmxDl addrC addKr.
rewrite E linearB /= trmx1 trmx_mul.
rewrite mulmxBl mul1mx !mulmxBr mulmx1 mulmxBl.
have -> : K *m H *m P *m (H^T *m K^T) = K *m (H *m P *m H^T) *m K^T by rewrite !mulmxA.
have -> : P *m (H^T *m K^T) = K *m S *m K^T by rewrite KSKt' mulmxA.
rewrite -KSKt /Pp.
set X := K *m S *m K^T; set Y := K *m _ *m K^T.
by rewrite subrK.
Qed.

Lemma Pp_psd : psd Pp.
Proof.
rewrite joseph; apply: psd_add; apply: psd_congr; exact: spd_psd.
Qed.

Lemma Pp_le_prior : mle Pp P.
Proof.
rewrite /mle /Pp opprB addrC subrK.
by apply: psd_congr; apply: spd_psd; exact: S_spd.
Qed.

(* conjugate mean *)
Lemma kf_mean_information (x : 'cV[F]_n) (y : 'cV[F]_m) :
  x + K *m (- (H *m x - y)) =
  Pp *m (invmx P *m x + H^T *m invmx R *m y).
Proof.
have uP := spd_unit spdP. have uR := spd_unit spdR.
rewrite Pp_eq mulmxDr !mulmxBl.
rewrite (mulKVmx uP).
have -> : K *m H *m P *m (invmx P *m x) = K *m H *m x.
  by rewrite -[K *m H *m P *m _]mulmxA (mulKVmx uP).
have HPHt : H *m P *m H^T = S - R by rewrite /S addrK.
have -> : K *m H *m P *m (H^T *m invmx R *m y) = K *m (S - R) *m invmx R *m y.
  by rewrite -HPHt !mulmxA.
rewrite mulmxBr !mulmxBl.
have -> : K *m S = P *m H^T by rewrite /K -mulmxA (mulVmx S_unit) mulmx1.
rewrite -[K *m R *m invmx R]mulmxA (mulmxV uR) mulmx1.
rewrite mulmxN mulmxBr opprB !mulmxA.
set a := P *m H^T *m invmx R *m y; set b := K *m H *m x; set c := K *m y.
by rewrite opprB [a + _]addrCA subrr addr0 addrA [x - b + c]addrAC -addrA.
Qed.

End KFAlgebra.

(* ------------------------------------------------------------------ *)
(* The statements about the model instantiated at MathComp.            *)
Section KFModel.
Variable F : realFieldType.
Variable tr : Transc F.
Variable sq : forall n, 'M[F]_n -> 'M[F]_n.
Variable eg : forall n, 'M[F]_n -> 'M[F]_(n,1).
Let O := MxMat tr sq eg.

Variables (n m : nat).
Variables (H : M O m n) (R : M O m m) (y : M O m 1).
Hypothesis spdR : spd (R : 'M[F]_m).

Definition prior_ok (c : gcomp O n) := spd (gcov c : 'M[F]_n).

Lemma kf_one_cov c : prior_ok c ->
  (gcov (ko_comp (kf_correct_one H R y c)) : 'M[F]_n) =
  invmx (invmx (gcov c) + H^T *m invmx R *m H).
Proof. by move=> pc; rewrite /kf_correct_one /=; apply: kf_cov_is_info_inverse. Qed.

Lemma kf_one_mean_gain c :
  (gmean (ko_comp (kf_correct_one H R y c)) : 'cV[F]_n) =
  let S := H *m gcov c *m H^T + R in
  let K := gcov c *m H^T *m invmx S in
  gmean c + K *m (y - H *m gmean c).
Proof. by rewrite /kf_correct_one /= /lin_innovation /lin_predicted /= opprB. Qed.

Lemma kf_one_mean_info c : prior_ok c ->
  (gmean (ko_comp (kf_correct_one H R y c)) : 'cV[F]_n) =
  (gcov (ko_comp (kf_correct_one H R y c)) : 'M[F]_n) *m
    (invmx (gcov c) *m gmean c + H^T *m invmx R *m y).
Proof. by move=> pc; rewrite /kf_correct_one /=; apply: kf_mean_information. Qed.

Lemma kf_one_is_info_posterior c : prior_ok c ->
  ko_comp (kf_correct_one H R y c) = info_posterior H R y c.
Proof.
move=> pc; move: (kf_one_cov pc) (kf_one_mean_info pc).
rewrite /info_posterior.
by case: (ko_comp _) => mu Pc /= -> ->.
Qed.

Lemma kf_one_sym c : prior_ok c -> sym (gcov (ko_comp (kf_correct_one H R y c)) : 'M[F]_n).
Proof. by move=> pc; rewrite /kf_correct_one /=; apply: Pp_sym. Qed.

Lemma kf_one_psd c : prior_ok c -> psd (gcov (ko_comp (kf_correct_one H R y c)) : 'M[F]_n).
Proof. by move=> pc; rewrite /kf_correct_one /=; apply: Pp_psd. Qed.

Lemma kf_one_le_prior c : prior_ok c ->
  mle (gcov (ko_comp (kf_correct_one H R y c)) : 'M[F]_n) (gcov c).
Proof. by move=> pc; rewrite /kf_correct_one /=; apply: Pp_le_prior. Qed.

Lemma kf_one_Py_unit c : prior_ok c -> (ko_Py (kf_correct_one H R y c) : 'M[F]_m) \in unitmx.
Proof. by move=> pc; rewrite /kf_correct_one /=; apply: S_unit. Qed.

(* components do not interact; indexing is the identity *)
Lemma kf_componentwise (cs : list (gcomp O n)) (i : nat) d :
  (i < length cs)%coq_nat ->
  List.nth i (kf_correct H R y cs) d = kf_correct_one H R y (List.nth i cs (ko_comp d)).
Proof.
move=> lt; rewrite /kf_correct.
rewrite (List.nth_indep _ d (kf_correct_one H R y (ko_comp d))) ?List.map_length //.
exact: List.map_nth.
Qed.

Lemma kf_length (cs : list (gcomp O n)) : length (kf_correct H R y cs) = length cs.
Proof. exact: List.map_length. Qed.

(* the reported likelihood is the Gaussian density N(y; Hm, HPH^T+R) *)
Lemma kf_likelihood_is_density c :
  kf_likelihood (kf_correct_one H R y c) =
  density (O:=O) (y : 'cV[F]_m) (H *m gmean c) (H *m gcov c *m H^T + R).
Proof.
rewrite /kf_likelihood /density /log_density /kf_correct_one /= /lin_innovation /lin_predicted /=.
by rewrite subr0 opprB.
Qed.

End KFModel.
