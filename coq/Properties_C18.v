(* Properties_C18.v — property C18: the quaternion utilities of utils.h form a
   consistent exponential/logarithm pair on rotations.  Statements only; each is
   closed by a lemma of C18_Proofs.  The model functions (q_to_rv = logarithm,
   rv_to_q = exponential, qsum_one/qsum, qdiff_one/qdiff, qmean, outer_sum of
   C18_Model) are the ones extracted and run against the library; here they are
   read at the Coq-reals instance ROps.
   cut = 1e-4 (the code's constant); n3 = Euclidean norm of a 3-vector;
   qnorm2 = squared norm of a quaternion; vdist = Euclidean distance. *)
Require Import ZArith Reals Lra List Permutation.
Require Import BFL.Ops BFL.C19_ROps BFL.C18_Model BFL.C18_Proofs.
Import ListNotations.
Local Open Scope R_scope.

(* ---- exponential *)
Theorem C18_exp_unit (r : V) : qnorm2 (rv_to_q ROps r) = 1.
Proof. exact (exp_unit r). Qed.

(* ---- log after exp: exact outside the cut-off zone ... *)
Theorem C18_log_exp (r : V) : cut < sin (n3 r / 2) -> n3 r <= PI -> q_to_rv ROps (rv_to_q ROps r) = r.
Proof. exact (log_exp r). Qed.

(* ... and for every |r| <= PI either exact, or 0 with |r| <= 2 asin(1e-4) *)
Theorem C18_log_exp_dichotomy (r : V) : n3 r <= PI ->
  (cut < sin (n3 r / 2) /\ q_to_rv ROps (rv_to_q ROps r) = r) \/
  (sin (n3 r / 2) <= cut /\ n3 r <= 2 * asin cut /\ q_to_rv ROps (rv_to_q ROps r) = V0).
Proof. exact (log_exp_cases r). Qed.

Theorem C18_log_exp_error_bound (r : V) : n3 r <= PI ->
  vdist (q_to_rv ROps (rv_to_q ROps r)) r <= 2 * asin cut.
Proof. exact (log_exp_error_bound r). Qed.

(* the true bound is strictly above the property's 2e-4, by less than 4e-13 *)
Theorem C18_true_bound_exceeds_2e_4 : 2 / 10000 < 2 * asin cut.
Proof. exact true_bound_exceeds. Qed.

Theorem C18_true_bound_numeric : 2 * asin cut <= 2 / 10000 + 4 / 10 ^ 13.
Proof. exact true_bound_numeric. Qed.

(* so the property's literal "at most 2e-4" is false of the faithful model at |r| = 2 asin(1e-4) *)
Theorem C18_bound_2e_4_refuted : exists r : V, n3 r <= PI /\ 2 / 10000 < vdist (q_to_rv ROps (rv_to_q ROps r)) r.
Proof. exact bound_2e_4_refuted. Qed.

(* ---- exp after log on unit quaternions with non-negative real part *)
Theorem C18_exp_log (q : Q) : qnorm2 q = 1 -> 0 <= qw q -> cut < n3 (qvec ROps q) ->
  rv_to_q ROps (q_to_rv ROps q) = q.
Proof. exact (exp_log q). Qed.

(* negative real part: the round trip returns the other representative of the same rotation *)
Theorem C18_exp_log_neg (q : Q) : qnorm2 q = 1 -> qw q < 0 -> cut < n3 (qvec ROps q) ->
  rv_to_q ROps (q_to_rv ROps q) = qneg q.
Proof. exact (exp_log_neg q). Qed.

Theorem C18_exp_log_pm (q : Q) : qnorm2 q = 1 -> cut < n3 (qvec ROps q) ->
  rv_to_q ROps (q_to_rv ROps q) = q \/ rv_to_q ROps (q_to_rv ROps q) = qneg q.
Proof. exact (exp_log_pm q). Qed.

Theorem C18_exp_log_cutoff_zone (q : Q) : qnorm2 q = 1 -> 0 <= qw q -> n3 (qvec ROps q) <= cut ->
  rv_to_q ROps (q_to_rv ROps q) = Q1 /\ (qw q - 1)² + (qx q)² + (qy q)² + (qz q)² <= 2 * cut².
Proof. intros H1 H2 H3. exact (conj (exp_log_zone q H3) (zone_distance q H1 H2 H3)). Qed.

(* ---- q and -q are the same rotation; logarithms never exceed PI *)
Theorem C18_double_cover (q : Q) : qw q <> 0 -> q_to_rv ROps (qneg q) = q_to_rv ROps q.
Proof. exact (double_cover q). Qed.

(* real part exactly 0: the two half turns r and -r (the same rotation) *)
Theorem C18_double_cover_half_turn (q : Q) : qw q = 0 -> q_to_rv ROps (qneg q) = vneg (q_to_rv ROps q).
Proof. exact (double_cover_half_turn q). Qed.

Theorem C18_log_norm_le_pi (q : Q) : qnorm2 q = 1 -> n3 (q_to_rv ROps q) <= PI.
Proof. exact (log_norm_le_pi q). Qed.

(* ---- sum and difference *)
Theorem C18_sum_unit (q : Q) (r : V) : qnorm2 q = 1 -> qnorm2 (qsum_one ROps q r) = 1.
Proof. exact (sum_unit q r). Qed.

Theorem C18_diff_sum (q : Q) (rs : list V) : qnorm2 q = 1 ->
  qdiff ROps (qsum ROps q rs) q = map (fun r => q_to_rv ROps (rv_to_q ROps r)) rs.
Proof. exact (diff_sum q rs). Qed.

Theorem C18_diff_sum_round_trip (q : Q) (r : V) : qnorm2 q = 1 -> cut < sin (n3 r / 2) -> n3 r <= PI ->
  qdiff_one ROps (qsum_one ROps q r) q = r.
Proof. exact (diff_sum_round_trip q r). Qed.

Theorem C18_diff_sum_error_bound (q : Q) (r : V) : qnorm2 q = 1 -> n3 r <= PI ->
  vdist (qdiff_one ROps (qsum_one ROps q r) q) r <= 2 * asin cut.
Proof. exact (diff_sum_error_bound q r). Qed.

Theorem C18_diff_norm_le_pi (a b : Q) : qnorm2 a = 1 -> qnorm2 b = 1 -> n3 (qdiff_one ROps a b) <= PI.
Proof. exact (diff_norm_le_pi a b). Qed.

Theorem C18_diff_double_cover (a b : Q) : qw (qmul ROps a (qconj ROps b)) <> 0 ->
  qdiff_one ROps (qneg a) b = qdiff_one ROps a b.
Proof. exact (diff_double_cover a b). Qed.

(* the convention, observably: the increment is recovered in the GLOBAL frame by multiplying with conj q on
   the right, and a difference of (e * q) and q is log e *)
Theorem C18_left_convention (q e : Q) (r : V) : qnorm2 q = 1 ->
  qmul ROps (qsum_one ROps q r) (qconj ROps q) = rv_to_q ROps r /\
  qdiff_one ROps (qmul ROps e q) q = q_to_rv ROps e.
Proof. intros H. exact (conj (left_convention_sum q r H) (left_convention_diff e q H)). Qed.

(* the right (body-frame) convention q * exp(r/2) fails that statement: q = j, r = (PI, 0, 0) *)
Theorem C18_right_convention_differs :
  let q := mkQR 0 0 1 0 in let r := mkVR PI 0 0 in
  qnorm2 q = 1 /\ rv_to_q ROps r = mkQR 0 1 0 0 /\
  qmul ROps (qmul ROps q (rv_to_q ROps r)) (qconj ROps q) = mkQR 0 (-1) 0 0 /\
  qmul ROps (qmul ROps q (rv_to_q ROps r)) (qconj ROps q) <> rv_to_q ROps r.
Proof. exact right_convention_differs. Qed.

Theorem C18_product_order_matters :
  qmul ROps (mkQR 0 1 0 0) (mkQR 0 0 1 0) = mkQR 0 0 0 1 /\
  qmul ROps (mkQR 0 0 1 0) (mkQR 0 1 0 0) = mkQR 0 0 0 (-1).
Proof. exact qmul_not_commutative. Qed.

(* ---- weighted mean; eig is the eigen-solver oracle, its contract a premise where needed *)
Theorem C18_mean_negation_invariant eig (bs : list bool) (w : list R) (qs : list Q) :
  qmean ROps eig w (flip bs qs) = qmean ROps eig w qs.
Proof. exact (mean_negation_invariant eig bs w qs). Qed.

Theorem C18_mean_permutation_invariant eig (w : list R) (qs : list Q) w' qs' :
  Permutation (combine w qs) (combine w' qs') -> qmean ROps eig w' qs' = qmean ROps eig w qs.
Proof. exact (mean_permutation_invariant eig w qs w' qs'). Qed.

(* the accumulated matrix is sum_k w_k q_k q_k^T *)
Theorem C18_mean_matrix_pinned (w : list R) (qs : list Q) i j :
  outer_sum ROps w qs i j = osum (combine w qs) i j.
Proof. exact (outer_sum_R w qs i j). Qed.

Theorem C18_mean_all_equal eig (w : list R) (qs : list Q) (q : Q) :
  qnorm2 q = 1 -> all_pm q qs -> 0 < wtot w qs ->
  max_eig_contract (outer_sum ROps w qs) (qmean ROps eig w qs) ->
  qmean ROps eig w qs = q \/ qmean ROps eig w qs = qneg q.
Proof. exact (mean_all_equal eig w qs q). Qed.

Theorem C18_mean_symmetric_centre_is_eigenvector (qc : Q) w0 (ws : list R) (al : list Q) :
  length ws = length al ->
  is_eigvec (outer_sum ROps (sym_weights w0 ws) (sym_quats qc al)) qc (qnorm2 qc * (w0 + 2 * sym_coef ws al)).
Proof. exact (sym_centre_eigvec qc w0 ws al). Qed.

(* non-negative weights, unit offsets a_j closer than a quarter turn (tight a := |a| = 1 /\ Re(a)^2 > 1/2):
   the eigen-gap is DERIVED (every eigen-direction other than the centre's has a smaller eigenvalue) ... *)
Theorem C18_mean_symmetric_gap (qc : Q) w0 (ws : list R) (al : list Q) :
  qnorm2 qc = 1 -> length ws = length al -> 0 <= w0 -> Forall (fun w => 0 < w) ws -> Forall tight al ->
  (0 < w0 \/ al <> []) ->
  forall u mu, is_eigvec (outer_sum ROps (sym_weights w0 ws) (sym_quats qc al)) u mu ->
               (forall k, u <> qscale k qc) -> mu < w0 + 2 * sym_coef ws al.
Proof. exact (sym_gap qc w0 ws al). Qed.

(* ... so the mean of a symmetric set is +- its centre (eigen-solver contract as the only oracle premise) *)
Theorem C18_mean_symmetric eig (qc : Q) w0 (ws : list R) (al : list Q) :
  qnorm2 qc = 1 -> length ws = length al -> 0 <= w0 -> Forall (fun w => 0 < w) ws -> Forall tight al ->
  (0 < w0 \/ al <> []) ->
  max_eig_contract (outer_sum ROps (sym_weights w0 ws) (sym_quats qc al)) (qmean ROps eig (sym_weights w0 ws) (sym_quats qc al)) ->
  qmean ROps eig (sym_weights w0 ws) (sym_quats qc al) = qc \/
  qmean ROps eig (sym_weights w0 ws) (sym_quats qc al) = qneg qc.
Proof. exact (mean_symmetric eig qc w0 ws al). Qed.

(* partial (negative central weight w0, as in unscented sets, or wide offsets): dominance of the centre's
   eigenvalue is a premise (explicit eigen-gap), not derived *)
Theorem C18_mean_symmetric_partial eig (qc : Q) w0 (ws : list R) (al : list Q) :
  qnorm2 qc = 1 -> length ws = length al ->
  let A := outer_sum ROps (sym_weights w0 ws) (sym_quats qc al) in
  let m := qmean ROps eig (sym_weights w0 ws) (sym_quats qc al) in
  max_eig_contract A m ->
  (forall u mu, is_eigvec A u mu -> (forall k, u <> qscale k qc) -> mu < w0 + 2 * sym_coef ws al) ->
  m = qc \/ m = qneg qc.
Proof. exact (mean_symmetric_partial eig qc w0 ws al). Qed.

(* non-vacuity *)
Example C18_unit_quaternion_exists : qnorm2 (mkQR (3/5) (4/5) 0 0) = 1.
Proof. exact example_unit. Qed.
Example C18_log_exp_premises_satisfiable : let r := mkVR 1 0 0 in cut < sin (n3 r / 2) /\ n3 r <= PI.
Proof. exact example_log_exp_premises. Qed.
Example C18_symmetric_premises_satisfiable :
  let qc := Q1 in let al := [mkQR (4/5) (3/5) 0 0] in let ws := [1/4] in let w0 := 1/2 in
  qnorm2 qc = 1 /\ length ws = length al /\ 0 <= w0 /\ Forall (fun w => 0 < w) ws /\ Forall tight al /\ (0 < w0 \/ al <> []) /\
  sym_quats qc al = [Q1; mkQR (4/5) (3/5) 0 0; mkQR (4/5) (-(3/5)) 0 0] /\ w0 + 2 * sym_coef ws al = 41/50.
Proof. exact example_symmetric_premises. Qed.
Example C18_eigen_contract_satisfiable : max_eig_contract (outer_sum ROps [1] [Q1]) Q1.
Proof. exact example_contract. Qed.

Print Assumptions C18_exp_unit.
Print Assumptions C18_log_exp.
Print Assumptions C18_log_exp_dichotomy.
Print Assumptions C18_log_exp_error_bound.
Print Assumptions C18_true_bound_exceeds_2e_4.
Print Assumptions C18_true_bound_numeric.
Print Assumptions C18_bound_2e_4_refuted.
Print Assumptions C18_exp_log.
Print Assumptions C18_exp_log_neg.
Print Assumptions C18_exp_log_pm.
Print Assumptions C18_exp_log_cutoff_zone.
Print Assumptions C18_double_cover.
Print Assumptions C18_double_cover_half_turn.
Print Assumptions C18_log_norm_le_pi.
Print Assumptions C18_sum_unit.
Print Assumptions C18_diff_sum.
Print Assumptions C18_diff_sum_round_trip.
Print Assumptions C18_diff_sum_error_bound.
Print Assumptions C18_diff_norm_le_pi.
Print Assumptions C18_diff_double_cover.
Print Assumptions C18_left_convention.
Print Assumptions C18_right_convention_differs.
Print Assumptions C18_product_order_matters.
Print Assumptions C18_mean_negation_invariant.
Print Assumptions C18_mean_permutation_invariant.
Print Assumptions C18_mean_matrix_pinned.
Print Assumptions C18_mean_all_equal.
Print Assumptions C18_mean_symmetric_centre_is_eigenvector.
Print Assumptions C18_mean_symmetric_gap.
Print Assumptions C18_mean_symmetric.
Print Assumptions C18_mean_symmetric_partial.
