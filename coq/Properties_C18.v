(* Properties_C18.v — property C18: the quaternion utilities of utils.h form a
   consistent exponential/logarithm pair on rotations.  Statements only; each is
   closed by a lemma of C18_Proofs.  The model functions (q_to_rv = logarithm,
   rv_to_q = exponential, qsum_one/qsum, qdiff_one/qdiff, qmean, outer_sum of
   C18_Model) are the ones extracted and run against the library; here they are
   read at the Coq-reals instance ROps.
   cut = 1e-4 (the code's constant); n3 = Euclidean norm of a 3-vector;
   qnorm2 = squared norm of a quaternion; vdist = Euclidean distance. *)
Require Import ZArith Reals Lra List Permutation.
Require Import BFL.Ops BFL.C19_ROps BFL.C18_Model BFL.C18_Proofs BFL.C18_Mean.
Import ListNotations.
Local Open Scope R_scope.

(* ---- exponential *)
Theorem C18_exp_unit (r : V) : qnorm2 (rv_to_q ROps r) = 1.
Proof. exact (exp_unit r). Qed.

(* ---- log after exp: exact outside the cut-off zone ... *)
Theorem C18_log_exp (r : V) : cut < sin (n3 r / 2) -> n3 r <= PI -> q_to_rv ROps (rv_to_q ROps r) = r.
Proof. exact (log_exp r). Qed.

(* ... and for every |r| <= PI either exact, or 0 with |r| <= 2 asin(1e-4) *)
Theorem C18_log_exp_dichotomy (r : V) : n3 r <= PI ->
  (cut < sin (n3 r / 2) /\ q_to_rv ROps (rv_to_q ROps r) = r) \/
  (sin (n3 r / 2) <= cut /\ n3 r <= 2 * asin cut /\ q_to_rv ROps (rv_to_q ROps r) = V0).
Proof. exact (log_exp_cases r). Qed.

Theorem C18_log_exp_error_bound (r : V) : n3 r <= PI ->
  vdist (q_to_rv ROps (rv_to_q ROps r)) r <= 2 * asin cut.
Proof. exact (log_exp_error_bound r). Qed.

(* the true bound is strictly above the property's 2e-4, by less than 4e-13 *)
Theorem C18_true_bound_exceeds_2e_4 : 2 / 10000 < 2 * asin cut.
Proof. exact true_bound_exceeds. Qed.

Theorem C18_true_bound_numeric : 2 * asin cut <= 2 / 10000 + 4 / 10 ^ 13.
Proof. exact true_bound_numeric. Qed.

(* so the property's literal "at most 2e-4" is false of the faithful model at |r| = 2 asin(1e-4) *)
Theorem C18_bound_2e_4_refuted : exists r : V, n3 r <= PI /\ 2 / 10000 < vdist (q_to_rv ROps (rv_to_q ROps r)) r.
Proof. exact bound_2e_4_refuted. Qed.

(* ---- exp after log on unit quaternions with non-negative real part *)
Theorem C18_exp_log (q : Q) : qnorm2 q = 1 -> 0 <= qw q -> cut < n3 (qvec ROps q) ->
  rv_to_q ROps (q_to_rv ROps q) = q.
Proof. exact (exp_log q). Qed.

(* negative real part: the round trip returns the other representative of the same rotation *)
Theorem C18_exp_log_neg (q : Q) : qnorm2 q = 1 -> qw q < 0 -> cut < n3 (qvec ROps q) ->
  rv_to_q ROps (q_to_rv ROps q) = qneg q.
Proof. exact (exp_log_neg q). Qed.

Theorem C18_exp_log_pm (q : Q) : qnorm2 q = 1 -> cut < n3 (qvec ROps q) ->
  rv_to_q ROps (q_to_rv ROps q) = q \/ rv_to_q ROps (q_to_rv ROps q) = qneg q.
Proof. exact (exp_log_pm q). Qed.

Theorem C18_exp_log_cutoff_zone (q : Q) : qnorm2 q = 1 -> 0 <= qw q -> n3 (qvec ROps q) <= cut ->
  rv_to_q ROps (q_to_rv ROps q) = Q1 /\ (qw q - 1)² + (qx q)² + (qy q)² + (qz q)² <= 2 * cut².
Proof. intros H1 H2 H3. exact (conj (exp_log_zone q H3) (zone_distance q H1 H2 H3)). Qed.

(* ---- q and -q are the same rotation; logarithms never exceed PI *)
Theorem C18_double_cover (q : Q) : qw q <> 0 -> q_to_rv ROps (qneg q) = q_to_rv ROps q.
Proof. exact (double_cover q). Qed.

(* real part exactly 0: the two half turns r and -r (the same rotation) *)
Theorem C18_double_cover_half_turn (q : Q) : qw q = 0 -> q_to_rv ROps (qneg q) = vneg (q_to_rv ROps q).
Proof. exact (double_cover_half_turn q). Qed.

Theorem C18_log_norm_le_pi (q : Q) : qnorm2 q = 1 -> n3 (q_to_rv ROps q) <= PI.
Proof. exact (log_norm_le_pi q). Qed.

(* ---- sum and difference *)
Theorem C18_sum_unit (q : Q) (r : V) : qnorm2 q = 1 -> qnorm2 (qsum_one ROps q r) = 1.
Proof. exact (sum_unit q r). Qed.

Theorem C18_diff_sum (q : Q) (rs : list V) : qnorm2 q = 1 ->
  qdiff ROps (qsum ROps q rs) q = map (fun r => q_to_rv ROps (rv_to_q ROps r)) rs.
Proof. exact (diff_sum q rs). Qed.

Theorem C18_diff_sum_round_trip (q : Q) (r : V) : qnorm2 q = 1 -> cut < sin (n3 r / 2) -> n3 r <= PI ->
  qdiff_one ROps (qsum_one ROps q r) q = r.
Proof. exact (diff_sum_round_trip q r). Qed.

Theorem C18_diff_sum_error_bound (q : Q) (r : V) : qnorm2 q = 1 -> n3 r <= PI ->
  vdist (qdiff_one ROps (qsum_one ROps q r) q) r <= 2 * asin cut.
Proof. exact (diff_sum_error_bound q r). Qed.

Theorem C18_diff_norm_le_pi (a b : Q) : qnorm2 a = 1 -> qnorm2 b = 1 -> n3 (qdiff_one ROps a b) <= PI.
Proof. exact (diff_norm_le_pi a b). Qed.

Theorem C18_diff_double_cover (a b : Q) : qw (qmul ROps a (qconj ROps b)) <> 0 ->
  qdiff_one ROps (qneg a) b = qdiff_one ROps a b.
Proof. exact (diff_double_cover a b). Qed.

(* the convention, observably: the increment is recovered in the GLOBAL frame by multiplying with conj q on
   the right, and a difference of (e * q) and q is log e *)
Theorem C18_left_convention (q e : Q) (r : V) : qnorm2 q = 1 ->
  qmul ROps (qsum_one ROps q r) (qconj ROps q) = rv_to_q ROps r /\
  qdiff_one ROps (qmul ROps e q) q = q_to_rv ROps e.
Proof. intros H. exact (conj (left_convention_sum q r H) (left_convention_diff e q H)). Qed.

(* the right (body-frame) convention q * exp(r/2) fails that statement: q = j, r = (PI, 0, 0) *)
Theorem C18_right_convention_differs :
  let q := mkQR 0 0 1 0 in let r := mkVR PI 0 0 in
  qnorm2 q = 1 /\ rv_to_q ROps r = mkQR 0 1 0 0 /\
  qmul ROps (qmul ROps q (rv_to_q ROps r)) (qconj ROps q) = mkQR 0 (-1) 0 0 /\
  qmul ROps (qmul ROps q (rv_to_q ROps r)) (qconj ROps q) <> rv_to_q ROps r.
Proof. exact right_convention_differs. Qed.

Theorem C18_product_order_matters :
  qmul ROps (mkQR 0 1 0 0) (mkQR 0 0 1 0) = mkQR 0 0 0 1 /\
  qmul ROps (mkQR 0 0 1 0) (mkQR 0 1 0 0) = mkQR 0 0 0 (-1).
Proof. exact qmul_not_commutative. Qed.

(* ---- weighted mean; eig is the eigen-solver oracle, its contract a premise where needed *)
Theorem C18_mean_negation_invariant eig (bs : list bool) (w : list R) (qs : list Q) :
  qmean ROps eig w (flip bs qs) = qmean ROps eig w qs.
Proof. exact (mean_negation_invariant eig bs w qs). Qed.

Theorem C18_mean_permutation_invariant eig (w : list R) (qs : list Q) w' qs' :
  Permutation (combine w qs) (combine w' qs') -> qmean ROps eig w' qs' = qmean ROps eig w qs.
Proof. exact (mean_permutation_invariant eig w qs w' qs'). Qed.

(* the accumulated matrix is sum_k w_k q_k q_k^T *)
Theorem C18_mean_matrix_pinned (w : list R) (qs : list Q) i j :
  outer_sum ROps w qs i j = osum (combine w qs) i j.
Proof. exact (outer_sum_R w qs i j). Qed.

Theorem C18_mean_all_equal eig (w : list R) (qs : list Q) (q : Q) :
  qnorm2 q = 1 -> all_pm q qs -> 0 < wtot w qs ->
  max_eig_contract (outer_sum ROps w qs) (qmean ROps eig w qs) ->
  qmean ROps eig w qs = q \/ qmean ROps eig w qs = qneg q.
Proof. exact (mean_all_equal eig w qs q). Qed.

Theorem C18_mean_symmetric_centre_is_eigenvector (qc : Q) w0 (ws : list R) (al : list Q) :
  length ws = length al ->
  is_eigvec (outer_sum ROps (sym_weights w0 ws) (sym_quats qc al)) qc (qnorm2 qc * (w0 + 2 * sym_coef ws al)).
Proof. exact (sym_centre_eigvec qc w0 ws al). Qed.

(* non-negative weights, unit offsets a_j closer than a quarter turn (tight a := |a| = 1 /\ Re(a)^2 > 1/2):
   the eigen-gap is DERIVED (every eigen-direction other than the centre's has a smaller eigenvalue) ... *)
Theorem C18_mean_symmetric_gap (qc : Q) w0 (ws : list R) (al : list Q) :
  qnorm2 qc = 1 -> length ws = length al -> 0 <= w0 -> Forall (fun w => 0 < w) ws -> Forall tight al ->
  (0 < w0 \/ al <> []) ->
  forall u mu, is_eigvec (outer_sum ROps (sym_weights w0 ws) (sym_quats qc al)) u mu ->
               (forall k, u <> qscale k qc) -> mu < w0 + 2 * sym_coef ws al.
Proof. exact (sym_gap qc w0 ws al). Qed.

(* ... so the mean of a symmetric set is +- its centre (eigen-solver contract as the only oracle premise) *)
Theorem C18_mean_symmetric eig (qc : Q) w0 (ws : list R) (al : list Q) :
  qnorm2 qc = 1 -> length ws = length al -> 0 <= w0 -> Forall (fun w => 0 < w) ws -> Forall tight al ->
  (0 < w0 \/ al <> []) ->
  max_eig_contract (outer_sum ROps (sym_weights w0 ws) (sym_quats qc al)) (qmean ROps eig (sym_weights w0 ws) (sym_quats qc al)) ->
  qmean ROps eig (sym_weights w0 ws) (sym_quats qc al) = qc \/
  qmean ROps eig (sym_weights w0 ws) (sym_quats qc al) = qneg qc.
Proof. exact (mean_symmetric eig qc w0 ws al). Qed.

(* ---- (a) negation / permutation as equalities of the accumulated matrix (mat_eq = entrywise) ... *)
Theorem C18_mean_matrix_negation_invariant (bs : list bool) (w : list R) (qs : list Q) :
  mat_eq (outer_sum ROps w (flip bs qs)) (outer_sum ROps w qs).
Proof. exact (outer_sum_flip bs w qs). Qed.

Theorem C18_mean_matrix_permutation_invariant (w : list R) (qs : list Q) w' qs' :
  Permutation (combine w qs) (combine w' qs') -> mat_eq (outer_sum ROps w' qs') (outer_sum ROps w qs).
Proof. exact (outer_sum_perm w qs w' qs'). Qed.

(* ... and what the eigen-solver contract fixes: two answers meeting it on equal matrices are the same ROTATION
   (v' = +-v) as soon as the largest eigenvalue is simple
   (is_top A lam: lam dominates every eigenvalue; top_simple A: the eigenvectors of a dominating eigenvalue are collinear) *)
Theorem C18_mean_contract_fixes_rotation (A B : mat4 ROps) (v v' : Q) : mat_eq A B -> top_simple A ->
  max_eig_contract A v -> max_eig_contract B v' -> v' = v \/ v' = qneg v.
Proof. exact (contract_line A B v v'). Qed.

(* the simplicity premise cannot be dropped: M = I/4 (the four basis quaternions, equal weights); 1 and i both meet the contract *)
Theorem C18_mean_contract_needs_simplicity :
  let w := [1/4; 1/4; 1/4; 1/4] in
  let qs := [mkQR 1 0 0 0; mkQR 0 1 0 0; mkQR 0 0 1 0; mkQR 0 0 0 1] in
  max_eig_contract (outer_sum ROps w qs) (mkQR 1 0 0 0) /\ max_eig_contract (outer_sum ROps w qs) (mkQR 0 1 0 0).
Proof. exact contract_not_unique_without_simplicity. Qed.

(* two (possibly different) eigen-solver oracles, e.g. the solver on differently rounded matrices *)
Theorem C18_mean_negation_invariant_rotation eig eig' (bs : list bool) (w : list R) (qs : list Q) :
  top_simple (outer_sum ROps w qs) ->
  max_eig_contract (outer_sum ROps w qs) (qmean ROps eig w qs) ->
  max_eig_contract (outer_sum ROps w (flip bs qs)) (qmean ROps eig' w (flip bs qs)) ->
  qmean ROps eig' w (flip bs qs) = qmean ROps eig w qs \/ qmean ROps eig' w (flip bs qs) = qneg (qmean ROps eig w qs).
Proof. exact (mean_negation_rotation bs w qs (qmean ROps eig w qs) (qmean ROps eig' w (flip bs qs))). Qed.

Theorem C18_mean_permutation_invariant_rotation eig eig' (w : list R) (qs : list Q) w' qs' :
  Permutation (combine w qs) (combine w' qs') -> top_simple (outer_sum ROps w qs) ->
  max_eig_contract (outer_sum ROps w qs) (qmean ROps eig w qs) ->
  max_eig_contract (outer_sum ROps w' qs') (qmean ROps eig' w' qs') ->
  qmean ROps eig' w' qs' = qmean ROps eig w qs \/ qmean ROps eig' w' qs' = qneg (qmean ROps eig w qs).
Proof. exact (mean_permutation_rotation w qs w' qs' (qmean ROps eig w qs) (qmean ROps eig' w' qs')). Qed.

(* ---- (b) all inputs +-q, positive total weight W: the matrix is W q q^T, its spectrum is {W on the line of q, 0 on
   the orthogonal complement}, W is simple (DERIVED), and q itself meets the contract (the premise is satisfiable) *)
Theorem C18_mean_all_equal_matrix (q : Q) (w : list R) (qs : list Q) i j : all_pm q qs ->
  outer_sum ROps w qs i j = wtot w qs * qcomp ROps q i * qcomp ROps q j.
Proof. exact (all_pm_matrix q w qs i j). Qed.

Theorem C18_mean_all_equal_spectrum (q : Q) (w : list R) (qs : list Q) (u : Q) mu :
  qnorm2 q = 1 -> all_pm q qs -> 0 < wtot w qs -> qnorm2 u <> 0 ->
  is_eigvec (outer_sum ROps w qs) u mu ->
  (mu = wtot w qs /\ u = qscale (qdot q u) q) \/ (mu = 0 /\ qdot q u = 0).
Proof. exact (all_pm_spectrum q w qs u mu). Qed.

Theorem C18_mean_all_equal_simple (q : Q) (w : list R) (qs : list Q) :
  qnorm2 q = 1 -> all_pm q qs -> 0 < wtot w qs ->
  top_simple (outer_sum ROps w qs) /\ is_top (outer_sum ROps w qs) (wtot w qs) /\ max_eig_contract (outer_sum ROps w qs) q.
Proof. intros H1 H2 H3. exact (conj (all_pm_top_simple q w qs H1 H2 H3) (conj (all_pm_is_top q w qs H1 H2 H3) (all_pm_contract q w qs H1 H2 H3))). Qed.

(* the property's form: one weight per input, weights summing to one *)
Theorem C18_mean_all_equal_sum_one eig (w : list R) (qs : list Q) (q : Q) :
  qnorm2 q = 1 -> all_pm q qs -> length w = length qs -> fold_right Rplus 0 w = 1 ->
  max_eig_contract (outer_sum ROps w qs) (qmean ROps eig w qs) ->
  qmean ROps eig w qs = q \/ qmean ROps eig w qs = qneg q.
Proof. exact (mean_all_equal_sum_one eig w qs q). Qed.

(* ---- (c) symmetric sets with a central weight of ANY sign (unscented sets), positive pair weights: explicit premise
   2 sum_j w_j |vec a_j|^2 < w0 + 2 sum_j w_j Re(a_j)^2   (vcoef / sym_coef); the eigen-gap is DERIVED from it ... *)
Theorem C18_mean_symmetric_gap_any_central_weight (qc : Q) w0 (ws : list R) (al : list Q) :
  qnorm2 qc = 1 -> length ws = length al -> Forall (fun w => 0 < w) ws ->
  2 * vcoef ws al < w0 + 2 * sym_coef ws al ->
  forall u mu, is_eigvec (outer_sum ROps (sym_weights w0 ws) (sym_quats qc al)) u mu ->
               (forall k, u <> qscale k qc) -> mu < w0 + 2 * sym_coef ws al.
Proof. exact (sym_gap_gen qc w0 ws al). Qed.

(* ... the largest eigenvalue is simple and the centre meets the contract (the oracle premise is satisfiable) ... *)
Theorem C18_mean_symmetric_simple (qc : Q) w0 (ws : list R) (al : list Q) :
  qnorm2 qc = 1 -> length ws = length al -> Forall (fun w => 0 < w) ws ->
  2 * vcoef ws al < w0 + 2 * sym_coef ws al ->
  top_simple (outer_sum ROps (sym_weights w0 ws) (sym_quats qc al)) /\
  max_eig_contract (outer_sum ROps (sym_weights w0 ws) (sym_quats qc al)) qc.
Proof. intros H1 H2 H3 H4. exact (conj (sym_top_simple qc w0 ws al H1 H2 H3 H4) (sym_centre_contract qc w0 ws al H1 H2 H3 H4)). Qed.

(* ... so the mean is +- the centre *)
Theorem C18_mean_symmetric_any_central_weight eig (qc : Q) w0 (ws : list R) (al : list Q) :
  qnorm2 qc = 1 -> length ws = length al -> Forall (fun w => 0 < w) ws ->
  2 * vcoef ws al < w0 + 2 * sym_coef ws al ->
  max_eig_contract (outer_sum ROps (sym_weights w0 ws) (sym_quats qc al)) (qmean ROps eig (sym_weights w0 ws) (sym_quats qc al)) ->
  qmean ROps eig (sym_weights w0 ws) (sym_quats qc al) = qc \/
  qmean ROps eig (sym_weights w0 ws) (sym_quats qc al) = qneg qc.
Proof. exact (mean_symmetric_gen eig qc w0 ws al). Qed.

(* the library's own sigma-point layout  qc, qc (+) d_j, qc (+) (-d_j)  (sigma_quats, built with the model's qsum):
   it is a symmetric set with offsets exp(d_j / 2) ... *)
Theorem C18_sigma_set_layout (qc : Q) (ds : list V) :
  sigma_quats qc ds = qc :: qsum ROps qc ds ++ qsum ROps qc (map vneg ds) /\
  sigma_quats qc ds = sym_quats qc (map (rv_to_q ROps) ds).
Proof. exact (conj eq_refl (sigma_quats_sym qc ds)). Qed.

(* ... rcos d = 2 Re(exp(d/2))^2 - 1 is cos|d| outside the exponential's cut-off and 1 inside ... *)
Theorem C18_sigma_angle (d : V) : (cut < n3 d -> rcos d = cos (n3 d)) /\ (n3 d <= cut -> rcos d = 1).
Proof. exact (conj (rcos_big d) (rcos_zone d)). Qed.

(* ... and its mean is +- the centre when  0 < w0 + 2 sum_j w_j cos|d_j|  (wcos), whatever the sign of w0 *)
Theorem C18_mean_sigma_set eig (qc : Q) w0 (ws : list R) (ds : list V) :
  qnorm2 qc = 1 -> length ws = length ds -> Forall (fun w => 0 < w) ws ->
  0 < w0 + 2 * wcos ws ds ->
  max_eig_contract (outer_sum ROps (sym_weights w0 ws) (sigma_quats qc ds)) (qmean ROps eig (sym_weights w0 ws) (sigma_quats qc ds)) ->
  qmean ROps eig (sym_weights w0 ws) (sigma_quats qc ds) = qc \/
  qmean ROps eig (sym_weights w0 ws) (sigma_quats qc ds) = qneg qc.
Proof. exact (mean_sigma_set eig qc w0 ws ds). Qed.

(* for weights summing to one the premise reads  2 sum_j w_j (1 - cos|d_j|) < 1  (wvers) *)
Theorem C18_sigma_margin_sum_one w0 (ws : list R) (ds : list V) :
  length ws = length ds -> w0 + 2 * fold_right Rplus 0 ws = 1 -> w0 + 2 * wcos ws ds = 1 - 2 * wvers ws ds.
Proof. exact (margin_sum_one w0 ws ds). Qed.

(* WITHOUT the premise the clause "equals the common centre" is false for an unscented weight set: n = 1,
   n + lambda = 1/2, weights (-1, 1, 1) summing to one, offsets +-2 atan(3/4) around the identity: the accumulated
   matrix is diag(7/25, 18/25, 0, 0), every vector meeting the contract is +-i, orthogonal to the centre *)
Theorem C18_mean_symmetric_negative_weight_refuted :
  let qc := Q1 in let al := [mkQR (4/5) (3/5) 0 0] in let ws := [1] in let w0 := -1 in
  qnorm2 qc = 1 /\ length ws = length al /\ Forall (fun w => 0 < w) ws /\ Forall tight al /\
  w0 + 2 * fold_right Rplus 0 ws = 1 /\
  (forall v, max_eig_contract (outer_sum ROps (sym_weights w0 ws) (sym_quats qc al)) v ->
             (v = mkQR 0 1 0 0 \/ v = mkQR 0 (-1) 0 0) /\ v <> qc /\ v <> qneg qc) /\
  max_eig_contract (outer_sum ROps (sym_weights w0 ws) (sym_quats qc al)) (mkQR 0 1 0 0).
Proof. exact mean_symmetric_negative_weight_refuted. Qed.

(* partial: symmetric sets outside the explicit premise above (the premise bounds the spectrum on the complement of the
   centre by its trace; sets whose offsets point in different directions can have a dominant centre although the trace
   bound fails): dominance of the centre's eigenvalue is then a premise (explicit eigen-gap), not derived *)
Theorem C18_mean_symmetric_partial eig (qc : Q) w0 (ws : list R) (al : list Q) :
  qnorm2 qc = 1 -> length ws = length al ->
  let A := outer_sum ROps (sym_weights w0 ws) (sym_quats qc al) in
  let m := qmean ROps eig (sym_weights w0 ws) (sym_quats qc al) in
  max_eig_contract A m ->
  (forall u mu, is_eigvec A u mu -> (forall k, u <> qscale k qc) -> mu < w0 + 2 * sym_coef ws al) ->
  m = qc \/ m = qneg qc.
Proof. exact (mean_symmetric_partial eig qc w0 ws al). Qed.

(* non-vacuity *)
Example C18_unit_quaternion_exists : qnorm2 (mkQR (3/5) (4/5) 0 0) = 1.
Proof. exact example_unit. Qed.
Example C18_log_exp_premises_satisfiable : let r := mkVR 1 0 0 in cut < sin (n3 r / 2) /\ n3 r <= PI.
Proof. exact example_log_exp_premises. Qed.
Example C18_symmetric_premises_satisfiable :
  let qc := Q1 in let al := [mkQR (4/5) (3/5) 0 0] in let ws := [1/4] in let w0 := 1/2 in
  qnorm2 qc = 1 /\ length ws = length al /\ 0 <= w0 /\ Forall (fun w => 0 < w) ws /\ Forall tight al /\ (0 < w0 \/ al <> []) /\
  sym_quats qc al = [Q1; mkQR (4/5) (3/5) 0 0; mkQR (4/5) (-(3/5)) 0 0] /\ w0 + 2 * sym_coef ws al = 41/50.
Proof. exact example_symmetric_premises. Qed.
Example C18_negative_central_weight_premises_satisfiable :
  let qc := Q1 in let al := [mkQR (35/37) (12/37) 0 0] in let ws := [2] in let w0 := -3 in
  qnorm2 qc = 1 /\ length ws = length al /\ Forall (fun w => 0 < w) ws /\ w0 < 0 /\
  w0 + 2 * fold_right Rplus 0 ws = 1 /\ 2 * vcoef ws al < w0 + 2 * sym_coef ws al.
Proof. exact example_negative_weight_premises. Qed.
Example C18_eigen_contract_satisfiable : max_eig_contract (outer_sum ROps [1] [Q1]) Q1.
Proof. exact example_contract. Qed.

Print Assumptions C18_exp_unit.
Print Assumptions C18_log_exp.
Print Assumptions C18_log_exp_dichotomy.
Print Assumptions C18_log_exp_error_bound.
Print Assumptions C18_true_bound_exceeds_2e_4.
Print Assumptions C18_true_bound_numeric.
Print Assumptions C18_bound_2e_4_refuted.
Print Assumptions C18_exp_log.
Print Assumptions C18_exp_log_neg.
Print Assumptions C18_exp_log_pm.
Print Assumptions C18_exp_log_cutoff_zone.
Print Assumptions C18_double_cover.
Print Assumptions C18_double_cover_half_turn.
Print Assumptions C18_log_norm_le_pi.
Print Assumptions C18_sum_unit.
Print Assumptions C18_diff_sum.
Print Assumptions C18_diff_sum_round_trip.
Print Assumptions C18_diff_sum_error_bound.
Print Assumptions C18_diff_norm_le_pi.
Print Assumptions C18_diff_double_cover.
Print Assumptions C18_left_convention.
Print Assumptions C18_right_convention_differs.
Print Assumptions C18_product_order_matters.
Print Assumptions C18_mean_negation_invariant.
Print Assumptions C18_mean_permutation_invariant.
Print Assumptions C18_mean_matrix_pinned.
Print Assumptions C18_mean_all_equal.
Print Assumptions C18_mean_symmetric_centre_is_eigenvector.
Print Assumptions C18_mean_symmetric_gap.
Print Assumptions C18_mean_symmetric.
Print Assumptions C18_mean_matrix_negation_invariant.
Print Assumptions C18_mean_matrix_permutation_invariant.
Print Assumptions C18_mean_contract_fixes_rotation.
Print Assumptions C18_mean_contract_needs_simplicity.
Print Assumptions C18_mean_negation_invariant_rotation.
Print Assumptions C18_mean_permutation_invariant_rotation.
Print Assumptions C18_mean_all_equal_matrix.
Print Assumptions C18_mean_all_equal_spectrum.
Print Assumptions C18_mean_all_equal_simple.
Print Assumptions C18_mean_all_equal_sum_one.
Print Assumptions C18_mean_symmetric_gap_any_central_weight.
Print Assumptions C18_mean_symmetric_simple.
Print Assumptions C18_mean_symmetric_any_central_weight.
Print Assumptions C18_sigma_set_layout.
Print Assumptions C18_sigma_angle.
Print Assumptions C18_mean_sigma_set.
Print Assumptions C18_sigma_margin_sum_one.
Print Assumptions C18_mean_symmetric_negative_weight_refuted.
Print Assumptions C18_mean_symmetric_partial.
