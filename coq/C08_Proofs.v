(* C08_Proofs.v — the C08 model at the MathComp instance: the Mahalanobis
   identity of the proposal draws and the composition with C01 (Kalman
   correction as the wrapped step).  Axiom-free. *)
Require Import ZArith List.
Require Import BFL.Ops BFL.Density BFL.C01_Model BFL.C08_Model BFL.C08_Struct.
From mathcomp Require Import all_ssreflect all_algebra.
Require Import BFL.MxOps BFL.LinAlg BFL.C01_Proofs.
Set Implicit Arguments.
Unset Strict Implicit.
Unset Printing Implicit Defensive.
Import Order.Theory GRing.Theory Num.Theory.
Local Open Scope ring_scope.

Section MahalanobisAlgebra.
Variable F : realFieldType.
Variable n : nat.
Variables (P L : 'M[F]_n).
Hypothesis spdP : spd P.
Hypothesis LLt : L *m L^T = P.

Lemma sqrt_factor_unit : L \in unitmx.
Proof.
have := spd_unit spdP; rewrite -LLt unitmx_mul; by case/andP.
Qed.

(* L^T P^-1 L = I *)
Lemma whitening : L^T *m invmx P *m L = 1%:M.
Proof.
have uL := sqrt_factor_unit. have uP := spd_unit spdP.
have -> : L^T = invmx L *m P by rewrite -LLt mulmxA (mulVmx uL) mul1mx.
by rewrite -[invmx L *m P *m invmx P]mulmxA (mulmxV uP) mulmx1 (mulVmx uL).
Qed.

Lemma mahalanobis_mx (m z : 'cV[F]_n) :
  (m + L *m z - m)^T *m invmx P *m (m + L *m z - m) = z^T *m z.
Proof.
rewrite addrC addKr trmx_mul.
have -> : z^T *m L^T *m invmx P *m (L *m z) = z^T *m (L^T *m invmx P *m L) *m z by rewrite !mulmxA.
by rewrite whitening mulmx1.
Qed.

End MahalanobisAlgebra.

Section Model.
Variable F : realFieldType.
Variable tr : Transc F.
Variable sq : forall n, 'M[F]_n -> 'M[F]_n.
Variable eg : forall n, 'M[F]_n -> 'M[F]_(n,1).
Let O := MxMat tr sq eg.
Variable n : nat.

(* the contract of the LDL^T-based square root, for one covariance *)
Definition msqrt_contract (P : 'M[F]_n) := (ldlt_sqrt (O:=O) P : 'M[F]_n) *m (ldlt_sqrt (O:=O) P : 'M[F]_n)^T = P.

Lemma get00 (A : 'M[F]_1) : mx_get A 0 0 = A 0 0.
Proof. by rewrite -(mx_get_ord A 0 0). Qed.

(* squared Mahalanobis distance of the drawn position = squared norm of the draw *)
Lemma mahalanobis (m z : M O n 1) (P : M O n n) :
  spd (P : 'M[F]_n) -> msqrt_contract P ->
  quadform (O:=O) (msub (sample_from_proposal m P z) m) (minv P) =
  quadform (O:=O) z (mid n).
Proof.
move=> sP cP; rewrite /quadform /sample_from_proposal.
change (mx_get (((m + ldlt_sqrt (O:=O) P *m z) - m)^T *m invmx P *m ((m + ldlt_sqrt (O:=O) P *m z) - m)) 0 0 = mx_get (z^T *m 1%:M *m z) 0 0).
by rewrite !get00 (mahalanobis_mx sP cP) mulmx1.
Qed.

Lemma quadform_id (z : M O n 1) :
  quadform (O:=O) z (mid n) = \sum_i (z : 'cV[F]_n) i 0 ^+ 2.
Proof.
rewrite /quadform /= get00 mulmx1 mxE; apply: eq_bigr => i _.
by rewrite mxE expr2.
Qed.

Lemma mahalanobis_full (m z : M O n 1) (P : M O n n) :
  spd (P : 'M[F]_n) -> msqrt_contract P ->
  quadform (O:=O) (msub (sample_from_proposal m P z) m) (minv P) = quadform (O:=O) z (mid n)
  /\ quadform (O:=O) z (mid n) = \sum_i (z : 'cV[F]_n) i 0 ^+ 2.
Proof. by move=> sP cP; split; [exact: mahalanobis | exact: quadform_id]. Qed.

(* the proposal log-density at the drawn position depends on the draw only through |z|^2 *)
Lemma proposal_log_density (m z : M O n 1) (P : M O n n) :
  spd (P : 'M[F]_n) -> msqrt_contract P ->
  log_density (O:=O) (sample_from_proposal m P z) m P =
  smul (sc O) (sopp (sc O) (shalf (sc O)))
       (sadd (sc O) (sadd (sc O) (smul (sc O) (sofnat (sc O) n) (sln (sc O) (smul (sc O) (s2 (sc O)) (spi (sc O)))))
                               (sln (sc O) (mdet P)))
             (quadform (O:=O) z (mid n))).
Proof. by move=> sP cP; rewrite /log_density (mahalanobis m z sP cP). Qed.

(* ---- in the correction step ------------------------------------------------ *)
Section InStep.
Variable gc : gstep O n.
Variable lik : list (M O n 1) -> bool * list (T (sc O)).
Variable trans : list (M O n 1) -> list (M O n 1) -> list (T (sc O)).
Variable zs : list (M O n 1).
Variables pred old : pset O n.

Let g := gc (gm_of pred) (gm_of old).
Let r := gpf_correct gc lik trans zs pred old.

Lemma correct_mahalanobis (i : nat) d :
  fst (lik (gpf_drawn gc zs pred old)) = true ->
  (i < length pred)%coq_nat ->
  spd (gcov (belief_at g i) : 'M[F]_n) -> msqrt_contract (gcov (belief_at g i)) ->
  let p := List.nth i (cr_particles r) d in
  quadform (O:=O) (msub (pstate p) (pmean p)) (minv (pcov p)) =
  quadform (O:=O) (List.nth i zs (mzero n 1)) (mid n).
Proof.
move=> Hv Hi sP cP; rewrite /r (@correct_particle O n gc lik trans zs pred old Hv i d Hi) /=.
exact: mahalanobis.
Qed.
End InStep.

(* ---- C01 o C08: Kalman correction as the wrapped step ----------------------- *)
Section WithKF.
Variable m : nat.
Variables (H : M O m n) (R : M O m m) (y : M O m 1).
Hypothesis spdR : spd (R : 'M[F]_m).
Variable lik : list (M O n 1) -> bool * list (T (sc O)).
Variable trans : list (M O n 1) -> list (M O n 1) -> list (T (sc O)).
Variable zs : list (M O n 1).
Variables pred old : pset O n.

Let r := gpf_correct (kf_corr_gstep true H R y) lik trans zs pred old.

Lemma kf_wrapped_beliefs :
  fst (lik (gpf_drawn (kf_corr_gstep true H R y) zs pred old)) = true ->
  length old = length pred ->
  List.Forall (fun p : particle O n => spd (pcov p : 'M[F]_n)) pred ->
  List.map pbelief (cr_particles r) = List.map (fun p => info_posterior H R y (pbelief p)) pred.
Proof.
move=> Hv Hl Hspd.
have Hs : length (kf_corr_gstep true H R y (gm_of pred) (gm_of old)) = length pred.
  by rewrite kf_corr_gstep_shape ?gm_of_length.
rewrite /r (@correct_beliefs O n _ lik trans zs pred old Hv Hs) kf_corr_gstep_beliefs ?gm_of_length //.
rewrite /gm_of !List.map_map.
apply: List.map_ext_in => p Hp.
have sp : prior_ok (pbelief p) by move/List.Forall_forall: Hspd; apply.
exact: (@kf_one_is_info_posterior F tr sq eg n m H R y spdR (pbelief p) sp).
Qed.

(* the corrected covariance of the Kalman step is SPD (inverse of the SPD information
   matrix): the guard of the Mahalanobis identity is derived *)
Lemma kf_corrected_spd (c : gcomp O n) :
  spd (gcov c : 'M[F]_n) -> spd (gcov (ko_comp (kf_correct_one H R y c)) : 'M[F]_n).
Proof.
move=> sP; rewrite (@kf_one_cov F tr sq eg n m H R y spdR c sP).
apply: spd_inv; rewrite addrC; apply: psd_spd_add; last exact: spd_inv.
have -> : H^T *m invmx R *m H = H^T *m invmx R *m (H^T)^T by rewrite trmxK.
by apply: psd_congr; apply: spd_psd; exact: spd_inv.
Qed.

Lemma kf_belief_at (i : nat) :
  length old = length pred -> (i < length pred)%coq_nat ->
  belief_at (kf_corr_gstep true H R y (gm_of pred) (gm_of old)) i =
  ko_comp (kf_correct_one H R y (pbelief (List.nth i pred (dparticle O n)))).
Proof.
move=> Hl Hi.
rewrite belief_at_nth kf_corr_gstep_beliefs ?gm_of_length //.
rewrite /gm_of !List.map_map /=.
set f := fun p : particle O n => ko_comp (kf_correct_one H R y (pbelief p)).
rewrite (List.nth_indep _ (dgcomp O n) (f (dparticle O n))) ?List.map_length //.
by rewrite (List.map_nth f).
Qed.

Lemma kf_wrapped_mahalanobis (i : nat) d :
  fst (lik (gpf_drawn (kf_corr_gstep true H R y) zs pred old)) = true ->
  length old = length pred ->
  List.Forall (fun p : particle O n => spd (pcov p : 'M[F]_n)) pred ->
  (i < length pred)%coq_nat ->
  let p := List.nth i (cr_particles r) d in
  msqrt_contract (pcov p) ->
  spd (pcov p : 'M[F]_n) /\
  quadform (O:=O) (msub (pstate p) (pmean p)) (minv (pcov p)) =
  quadform (O:=O) (List.nth i zs (mzero n 1)) (mid n).
Proof.
move=> Hv Hl Hspd Hi.
have sp : spd (pcov (List.nth i pred (dparticle O n)) : 'M[F]_n).
  by move/List.Forall_forall: Hspd; apply; exact: List.nth_In.
have sC := kf_corrected_spd (c:=pbelief (List.nth i pred (dparticle O n))) sp.
rewrite /r (@correct_particle O n _ lik trans zs pred old Hv i d Hi) /= (kf_belief_at Hl Hi).
move=> cP; split=> //.
exact: mahalanobis.
Qed.

End WithKF.
End Model.
