(* C17_Extract.v — executable entry points of the C17 model (scalars abstract;
   IEEE doubles are supplied by the OCaml driver).  ExtrOcamlBasic only. *)
Require Import ZArith List.
Require Import BFL.Ops BFL.C19_Model BFL.C17_Model.
Require Import Extraction ExtrOcamlBasic.

(* EstimatesExtraction state machine *)
Definition c17_init (S : SOps) : est S := est_init S.
Definition c17_step (S : SOps) (lin circ : nat) (st : est S) (o : op S) := step S lin circ st o.
(* observable state *)
Definition c17_window (S : SOps) (st : est S) : nat := window (hb st).
Definition c17_history (S : SOps) (st : est S) : list (list (T S)) := hist_get (hb st).
Definition c17_caches (S : SOps) (st : est S) := (smw st, wmw st, emw st).
Definition c17_method (S : SOps) (st : est S) : method := meth st.

(* directly driven HistoryBuffer *)
Definition c17_hb_init (S : SOps) : hist (list (T S)) := hist_init (list (T S)).
Definition c17_hb_step (S : SOps) (h : hist (list (T S))) (o : hop (list (T S))) := hstep h o.
Definition c17_hb_window (S : SOps) (h : hist (list (T S))) : nat := window h.
Definition c17_hb_get (S : SOps) (h : hist (list (T S))) := hist_get h.

(* move construction / assignment: (target, moved-from source) *)
Definition c17_move (S : SOps) (st : est S) := est_move S st.
Definition c17_hb_move (S : SOps) (h : hist (list (T S))) := hist_move h.

(* spec-level value for the checks: the coded map score (C17_map_score_meaning) *)
Definition c17_map_values (S : SOps) := map_values S.

Extraction "C17_model.ml" c17_init c17_step c17_window c17_history c17_caches c17_method
  c17_hb_init c17_hb_step c17_hb_window c17_hb_get
  c17_move c17_hb_move c17_map_values.
