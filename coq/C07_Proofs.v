(* C07_Proofs.v — lemmas about the C07 model.  Part 1: structural facts valid
   at every arithmetic (fuel, lengths, monotone pointer).  Part 2: over the
   reals (instance ROpsE e, e any non-negative "exp"): the carried pointer
   selects the interval (c_{i-1}, c_i] containing the comb point, counts are
   differences of the prefix count `cnt`, comb_count bound. *)
Require Import Reals ZArith List Bool Lia Lra Permutation.
Require Import BFL.Ops BFL.C07_Model BFL.C07_ROps.
Import ListNotations.
Local Open Scope R_scope.

(* ------------------------------------------------------------------ *)
Section Structural.
Variable S : SOps.

Lemma keep_going_true c N u idx :
  keep_going S c N u idx = true -> (idx < N - 1)%nat /\ sltb S (nth idx c (s0 S)) u = true.
Proof. unfold keep_going. rewrite andb_true_iff, Nat.ltb_lt. tauto. Qed.

Lemma advance_ge f c N u idx : (idx <= advance S f c N u idx)%nat.
Proof.
  revert idx; induction f; intros; simpl; [lia|].
  destruct (keep_going S c N u idx); [specialize (IHf (Datatypes.S idx)); lia | lia].
Qed.

Lemma advance_le f c N u idx : (idx <= N - 1)%nat -> (advance S f c N u idx <= N - 1)%nat.
Proof.
  revert idx; induction f; intros idx H; simpl; auto.
  destruct (keep_going S c N u idx) eqn:E; auto. apply keep_going_true in E. apply IHf. lia.
Qed.

(* the loop ends because its guard fails, never because the fuel ran out *)
Lemma advance_stops f c N u idx :
  (N - 1 - idx <= f)%nat -> keep_going S c N u (advance S f c N u idx) = false.
Proof.
  revert idx; induction f; intros idx H; simpl.
  - unfold keep_going. replace (idx <? N - 1)%nat with false; [apply andb_false_r|].
    symmetry; apply Nat.ltb_ge; lia.
  - destruct (keep_going S c N u idx) eqn:E; auto. apply IHf. lia.
Qed.

Lemma advance_fuel_enough c N u idx : keep_going S c N u (advance S N c N u idx) = false.
Proof. apply advance_stops. lia. Qed.

(* more fuel does not change the result *)
Lemma advance_more_fuel f k c N u idx :
  (N - 1 - idx <= f)%nat -> advance S (f + k) c N u idx = advance S f c N u idx.
Proof.
  revert idx; induction f; intros idx H; simpl.
  - destruct k; simpl; auto. unfold keep_going.
    replace (idx <? N - 1)%nat with false; [rewrite andb_false_r; auto|].
    symmetry; apply Nat.ltb_ge; lia.
  - destruct (keep_going S c N u idx) eqn:E; auto. apply IHf. lia.
Qed.

Lemma advance_skipped f c N u idx i :
  (idx <= i < advance S f c N u idx)%nat -> sltb S (nth i c (s0 S)) u = true.
Proof.
  revert idx; induction f; intros idx H; simpl in H; [lia|].
  destruct (keep_going S c N u idx) eqn:E; [|lia]. apply keep_going_true in E.
  destruct (Nat.eq_dec i idx) as [->|]; [tauto|]. apply (IHf (Datatypes.S idx)); lia.
Qed.

Lemma res_loop_length c N u1 k j idx : length (res_loop S c N u1 k j idx) = k.
Proof. revert j idx; induction k; intros; simpl; auto. Qed.

Lemma res_loop_ge c N u1 k j idx t :
  (t < k)%nat -> (idx <= nth t (res_loop S c N u1 k j idx) 0)%nat.
Proof.
  revert j idx t; induction k; intros j idx t H; [lia|]. simpl.
  pose proof (advance_ge N c N (comb S N u1 j) idx).
  destruct t; auto. specialize (IHk (Datatypes.S j) (advance S N c N (comb S N u1 j) idx) t). lia.
Qed.

Lemma res_loop_le c N u1 k j idx t :
  (idx <= N - 1)%nat -> (t < k)%nat -> (nth t (res_loop S c N u1 k j idx) 0 <= N - 1)%nat.
Proof.
  revert j idx t; induction k; intros j idx t Hi H; [lia|]. simpl.
  pose proof (advance_le N c N (comb S N u1 j) idx Hi).
  destruct t; auto. apply IHk; auto. lia.
Qed.

Lemma res_loop_mono c N u1 k j idx a b :
  (a <= b < k)%nat ->
  (nth a (res_loop S c N u1 k j idx) 0 <= nth b (res_loop S c N u1 k j idx) 0)%nat.
Proof.
  revert j idx a b; induction k; intros j idx a b H; [lia|]. simpl.
  destruct a, b; try lia.
  - apply res_loop_ge. lia.
  - apply IHk. lia.
Qed.

Lemma res_parents_length lw u1 : length (res_parents S lw u1) = length lw.
Proof. apply res_loop_length. Qed.

Lemma resample_lengths {P} (ps : list P) lw u1 :
  ps <> [] ->
  let '(out, w, par) := @resample S _ ps lw u1 in
  length out = length lw /\ length w = length lw /\ length par = length lw.
Proof.
  intros Hps. unfold resample. destruct ps; [congruence|].
  rewrite !map_length, res_parents_length. auto.
Qed.

Lemma resample_copy {P} (ps : list P) lw u1 d j :
  ps <> [] -> (j < length lw)%nat -> length ps = length lw ->
  let '(out, w, par) := @resample S _ ps lw u1 in
  nth j out d = nth (nth j par 0%nat) ps d.
Proof.
  intros Hps Hj Hl. unfold resample. destruct ps as [|p0 ps]; [congruence|].
  set (par := res_parents S lw u1).
  assert (Hp : (nth j par 0 <= length lw - 1)%nat).
  { apply res_loop_le; lia. }
  set (f := fun i => nth i (p0 :: ps) p0).
  rewrite (nth_indep (map f par) d (f 0%nat)) by (rewrite map_length; unfold par; rewrite res_parents_length; lia).
  rewrite (map_nth f par 0%nat j). unfold f.
  apply nth_indep. lia.
Qed.

Lemma resample_weights {P} (ps : list P) lw u1 x :
  let '(out, w, par) := @resample S _ ps lw u1 in In x w -> x = log_uniform S (length lw).
Proof. unfold resample. intro H. apply in_map_iff in H. destruct H as [? [H _]]. auto. Qed.

End Structural.

(* ------------------------------------------------------------------ *)
(* counting over index ranges *)
Fixpoint cntb (f : nat -> bool) (k : nat) : nat :=
  match k with O => O | Datatypes.S k' => (cntb f k' + (if f k' then 1 else 0))%nat end.

Lemma cntb_ext f g k : (forall t, (t < k)%nat -> f t = g t) -> cntb f k = cntb g k.
Proof. induction k; intro H; simpl; auto. rewrite IHk, (H k); auto. Qed.

Lemma cntb_shift f k :
  cntb f (Datatypes.S k) = ((if f 0%nat then 1 else 0) + cntb (fun t => f (Datatypes.S t)) k)%nat.
Proof. induction k; [simpl; lia|]. change (cntb f (Datatypes.S (Datatypes.S k))) with (cntb f (Datatypes.S k) + (if f (Datatypes.S k) then 1 else 0))%nat. rewrite IHk. simpl. lia. Qed.

Lemma count_occ_cntb l i :
  count_occ Nat.eq_dec l i = cntb (fun t => Nat.eqb (nth t l 0%nat) i) (length l).
Proof.
  induction l as [|a l IH]; [reflexivity|].
  change (length (a :: l)) with (Datatypes.S (length l)). rewrite cntb_shift. simpl nth.
  simpl count_occ. destruct (Nat.eq_dec a i) as [->|n].
  - rewrite Nat.eqb_refl, IH. reflexivity.
  - apply Nat.eqb_neq in n. rewrite n, IH. reflexivity.
Qed.

Definition sumR (l : list R) : R := fold_right Rplus 0 l.

Lemma fold_left_Rplus l a : fold_left Rplus l a = a + sumR l.
Proof. revert a; induction l; intro a0; simpl; [lra | rewrite IHl; lra]. Qed.

(* sum of the first i elements *)
Fixpoint psum (w : list R) (i : nat) {struct i} : R :=
  match i with
  | O => 0
  | Datatypes.S i' => match w with [] => 0 | x :: r => x + psum r i' end
  end.

Lemma psum_nil i : psum [] i = 0. Proof. destruct i; reflexivity. Qed.
Lemma psum_all w i : (length w <= i)%nat -> psum w i = sumR w.
Proof.
  revert i; induction w; intros i H; [apply psum_nil|]. simpl in H. destruct i; [lia|].
  simpl. rewrite IHw; [auto|lia].
Qed.
Lemma psum_nonneg w i : (forall x, In x w -> 0 <= x) -> 0 <= psum w i.
Proof.
  revert i; induction w; intros i H; [rewrite psum_nil; lra|]. destruct i; simpl; [lra|].
  assert (0 <= a) by (apply H; left; auto). assert (0 <= psum w i) by (apply IHw; intros; apply H; right; auto). lra.
Qed.
Lemma psum_mono w i j : (forall x, In x w -> 0 <= x) -> (i <= j)%nat -> psum w i <= psum w j.
Proof.
  revert i j; induction w; intros i j H Hij; [rewrite !psum_nil; lra|].
  destruct i. { change (psum (a :: w) 0) with 0. apply psum_nonneg; auto. }
  destruct j; [lia|]. simpl.
  assert (psum w i <= psum w j) by (apply IHw; [intros; apply H; right; auto | lia]). lra.
Qed.
Lemma psum_step w i : (i < length w)%nat -> psum w (Datatypes.S i) = psum w i + nth i w 0.
Proof.
  revert i; induction w; intros i H; [simpl in H; lia|]. destruct i.
  - simpl. destruct w; simpl; lra.
  - simpl in H. change (psum (a :: w) (Datatypes.S (Datatypes.S i))) with (a + psum w (Datatypes.S i)).
    rewrite IHw by lia. simpl. lra.
Qed.

(* ------------------------------------------------------------------ *)
Section RealsE.
Variable e : R -> R.
Hypothesis e_nonneg : forall x, 0 <= e x.
Notation SE := (ROpsE e).

Lemma sltb_SE a b : sltb SE a b = Rltb a b. Proof. reflexivity. Qed.
Lemma sleb_SE a b : sleb SE a b = Rleb a b. Proof. reflexivity. Qed.

Lemma comb_R N (u1 : R) j : comb SE N u1 j = u1 + INR j / INR N.
Proof. unfold comb. rewrite !sofnat_R. reflexivity. Qed.

Lemma csw_from_nth (acc : R) (l : list R) i :
  (i < length l)%nat -> nth i (csw_from SE acc l) 0 = acc + psum (map e l) (Datatypes.S i).
Proof.
  revert acc i; induction l as [|x l IH]; intros acc i H; [simpl in H; lia|].
  destruct i.
  - simpl. destruct (map e l); lra.
  - simpl in H. simpl csw_from. simpl nth. rewrite IH by lia.
    change (psum (map e (x :: l)) (Datatypes.S (Datatypes.S i))) with (e x + psum (map e l) (Datatypes.S i)).
    simpl. lra.
Qed.

Lemma csw_nth (lw : list R) i :
  (i < length lw)%nat -> nth i (csw SE lw) 0 = psum (map e lw) (Datatypes.S i).
Proof.
  destruct lw as [|x l]; intro H; [simpl in H; lia|]. destruct i.
  - simpl. destruct (map e l); lra.
  - simpl in H. simpl csw. simpl nth. rewrite csw_from_nth by lia.
    change (psum (map e (x :: l)) (Datatypes.S (Datatypes.S i))) with (e x + psum (map e l) (Datatypes.S i)).
    simpl. lra.
Qed.

Lemma csw_length (lw : list R) : length (csw SE lw) = length lw.
Proof.
  destruct lw as [|x l]; auto. simpl. f_equal. generalize (e x). induction l; intro a0; simpl; auto.
Qed.

Section Selection.
Variables (lw : list R) (u1 : R).
Notation N := (length lw).
Hypothesis Npos : (0 < N)%nat.
Hypothesis wsum : sumR (map e lw) = 1.
Hypothesis u1lo : 0 < u1.
Hypothesis u1hi : u1 * INR N < 1.

Definition u (j : nat) : R := u1 + INR j / INR N.
Definition cc (i : nat) : R := nth i (csw SE lw) 0.
Definition cum (i : nat) : R := psum (map e lw) i.
Definition par : list nat := res_parents SE lw u1.

Lemma INRN_pos : 0 < INR N. Proof. apply lt_0_INR; exact Npos. Qed.

Lemma u_mono i j : (i <= j)%nat -> u i <= u j.
Proof.
  intro H. unfold u. apply le_INR in H. pose proof INRN_pos.
  apply Rplus_le_compat_l. unfold Rdiv. apply Rmult_le_compat_r; [left; apply Rinv_0_lt_compat; auto | auto].
Qed.

Lemma u_ge_u1 j : u1 <= u j.
Proof. replace u1 with (u 0) at 1. apply u_mono; lia. unfold u. simpl. unfold Rdiv. lra. Qed.

Lemma u_lt_1 j : (j < N)%nat -> u j < 1.
Proof.
  intro H. pose proof INRN_pos as HN. unfold u.
  assert (INR j + 1 <= INR N) by (rewrite <- S_INR; apply le_INR; lia).
  apply Rmult_lt_reg_r with (INR N); auto.
  replace ((u1 + INR j / INR N) * INR N) with (u1 * INR N + INR j) by (field; lra). lra.
Qed.

Lemma w_nonneg : forall x, In x (map e lw) -> 0 <= x.
Proof. intros x H. apply in_map_iff in H. destruct H as [y [<- _]]. apply e_nonneg. Qed.

Lemma cum_mono i j : (i <= j)%nat -> cum i <= cum j.
Proof. apply psum_mono, w_nonneg. Qed.
Lemma cum_0 : cum 0 = 0. Proof. reflexivity. Qed.
Lemma cum_N : cum N = 1.
Proof. unfold cum. rewrite psum_all, wsum; auto. rewrite map_length; lia. Qed.
Lemma cum_le_1 i : cum i <= 1.
Proof.
  destruct (le_lt_dec i N). rewrite <- cum_N. apply cum_mono; auto.
  unfold cum. rewrite psum_all, wsum; [lra|]. rewrite map_length; lia.
Qed.
Lemma cum_ge_0 i : 0 <= cum i.
Proof. apply psum_nonneg, w_nonneg. Qed.
Lemma cc_cum i : (i < N)%nat -> cc i = cum (Datatypes.S i).
Proof. apply csw_nth. Qed.
Lemma cum_step i : (i < N)%nat -> cum (Datatypes.S i) = cum i + e (nth i lw 0).
Proof.
  intro H. unfold cum. rewrite psum_step by (rewrite map_length; auto).
  f_equal. rewrite (nth_indep _ 0 (e 0)) by (rewrite map_length; auto). apply map_nth.
Qed.

(* one run of the inner while loop *)
Lemma advance_sel j idx :
  (idx <= N - 1)%nat -> (forall i, (i < idx)%nat -> cc i < u j) ->
  let p := advance SE N (csw SE lw) N (comb SE N u1 j) idx in
  (forall i, (i < p)%nat -> cc i < u j) /\ (idx <= p <= N - 1)%nat /\ (u j <= cc p \/ p = (N - 1)%nat).
Proof.
  intros Hi Hpre p. split; [|split].
  - intros i Hip. destruct (lt_dec i idx) as [|Hn]; auto.
    assert (G : sltb SE (nth i (csw SE lw) (s0 SE)) (comb SE N u1 j) = true).
    { apply (advance_skipped SE N (csw SE lw) N (comb SE N u1 j) idx). fold p. lia. }
    rewrite sltb_SE in G. apply Rltb_true in G. rewrite comb_R in G. exact G.
  - split; [apply advance_ge | apply advance_le; auto].
  - pose proof (advance_fuel_enough SE (csw SE lw) N (comb SE N u1 j) idx) as G. fold p in G.
    unfold keep_going in G. apply andb_false_iff in G. destruct G as [G|G].
    + left. rewrite sltb_SE in G. apply Rltb_false in G. rewrite comb_R in G. exact G.
    + right. apply Nat.ltb_ge in G. pose proof (advance_le SE N (csw SE lw) N (comb SE N u1 j) idx Hi). fold p in H. lia.
Qed.

Lemma loop_sel k : forall j idx,
  (idx <= N - 1)%nat -> (forall i, (i < idx)%nat -> cc i < u j) ->
  forall t, (t < k)%nat ->
  let p := nth t (res_loop SE (csw SE lw) N u1 k j idx) 0%nat in
  (forall i, (i < p)%nat -> cc i < u (j + t)) /\ (p <= N - 1)%nat /\ (u (j + t) <= cc p \/ p = (N - 1)%nat).
Proof.
  induction k; intros j idx Hi Hpre t Ht; [lia|].
  destruct (advance_sel j idx Hi Hpre) as [A1 [A2 A3]].
  set (p0 := advance SE N (csw SE lw) N (comb SE N u1 j) idx) in *.
  change (res_loop SE (csw SE lw) N u1 (Datatypes.S k) j idx)
    with (p0 :: res_loop SE (csw SE lw) N u1 k (Datatypes.S j) p0).
  destruct t.
  - simpl nth. rewrite Nat.add_0_r. repeat split; auto; lia.
  - simpl nth. replace (j + Datatypes.S t)%nat with (Datatypes.S j + t)%nat by lia.
    apply IHk; [lia| |lia].
    intros i Hip. apply Rlt_le_trans with (u j); [apply A1; auto | apply u_mono; lia].
Qed.

(* the carried pointer selects the interval (c_{p-1}, c_p] that contains u_t *)
Lemma parent_interval t : (t < N)%nat ->
  let p := nth t par 0%nat in (p < N)%nat /\ cum p < u t <= cum (Datatypes.S p).
Proof.
  intros Ht p.
  destruct (loop_sel N 0 0 ltac:(lia) ltac:(intros; lia) t Ht) as [B1 [B2 B3]].
  change (nth t (res_loop SE (csw SE lw) N u1 N 0 0) 0%nat) with p in *. simpl in B1, B3.
  assert (Hp : (p < N)%nat) by lia. split; auto. split.
  - destruct p as [|p'] eqn:E.
    + rewrite cum_0. pose proof (u_ge_u1 t). lra.
    + rewrite <- cc_cum by lia. apply B1. lia.
  - rewrite <- cc_cum by auto. destruct B3 as [B3|B3]; auto.
    rewrite B3, cc_cum by lia. replace (Datatypes.S (N - 1)) with N by lia. rewrite cum_N.
    left. apply u_lt_1; auto.
Qed.

Lemma interval_unique t i : (t < N)%nat ->
  cum i < u t <= cum (Datatypes.S i) -> nth t par 0%nat = i.
Proof.
  intros Ht [I1 I2]. destruct (parent_interval t Ht) as [_ [P1 P2]].
  set (p := nth t par 0%nat) in *.
  destruct (lt_eq_lt_dec p i) as [[H|H]|H]; auto; exfalso.
  - assert (cum (Datatypes.S p) <= cum i) by (apply cum_mono; lia). lra.
  - assert (cum (Datatypes.S i) <= cum p) by (apply cum_mono; lia). lra.
Qed.

(* prefix count of comb points: cnt x k = #{t < k : u_t <= x} *)
Definition cnt (x : R) (k : nat) : nat := cntb (fun t => Rleb (u t) x) k.

Lemma cnt_prefix x k : (cnt x k <= k)%nat /\ (forall j, (j < cnt x k)%nat -> u j <= x) /\
                        (forall j, (cnt x k <= j < k)%nat -> x < u j).
Proof.
  induction k as [|k [IH1 [IH2 IH3]]]; unfold cnt in *; simpl.
  - repeat split; intros; lia.
  - destruct (Rleb (u k) x) eqn:E.
    + apply Rleb_true in E.
      assert (E' : cntb (fun t => Rleb (u t) x) k = k).
      { destruct (Nat.eq_dec (cntb (fun t => Rleb (u t) x) k) k); auto. exfalso.
        assert (x < u (cntb (fun t => Rleb (u t) x) k)) by (apply IH3; lia).
        assert (u (cntb (fun t => Rleb (u t) x) k) <= u k) by (apply u_mono; lia). lra. }
      rewrite E'. repeat split; try lia.
      intros j Hj. assert (u j <= u k) by (apply u_mono; lia). lra.
    + apply Rleb_false in E. rewrite Nat.add_0_r. repeat split; try lia; auto.
      intros j Hj. destruct (Nat.eq_dec j k) as [->|]; [lra | apply IH3; lia].
Qed.

Lemma cnt_bounds x : 0 <= x <= 1 ->
  INR (cnt x N) - 1 <= INR N * (x - u1) < INR (cnt x N).
Proof.
  intros [x0 x1]. destruct (cnt_prefix x N) as [H1 [H2 H3]]. pose proof INRN_pos as HN.
  set (t := cnt x N) in *. split.
  - destruct t as [|t'] eqn:Et.
    + simpl. nra.
    + assert (Hu : u t' <= x) by (apply H2; lia). unfold u in Hu.
      rewrite S_INR. assert (INR t' = INR N * (INR t' / INR N)) by (field; lra). nra.
  - destruct (Nat.eq_dec t N) as [E|NE].
    + rewrite E. nra.
    + assert (Hu : x < u t) by (apply H3; lia). unfold u in Hu.
      assert (INR t = INR N * (INR t / INR N)) by (field; lra). nra.
Qed.

(* the number of comb points in (a, b] differs from N (b - a) by less than one *)
Theorem comb_count a b : 0 <= a <= b -> b <= 1 ->
  Rabs (INR (cnt b N) - INR (cnt a N) - INR N * (b - a)) < 1.
Proof.
  intros Ha Hb. pose proof (cnt_bounds a ltac:(lra)). pose proof (cnt_bounds b ltac:(lra)).
  apply Rabs_def1; lra.
Qed.

Lemma cnt_interval a b k : a <= b ->
  (cnt a k + cntb (fun t => Rltb a (u t) && Rleb (u t) b) k = cnt b k)%nat.
Proof.
  intro H. unfold cnt. induction k; simpl; auto.
  destruct (Rleb (u k) a) eqn:E1, (Rltb a (u k)) eqn:E2, (Rleb (u k) b) eqn:E3; simpl; try lia; exfalso;
  try apply Rleb_true in E1; try apply Rleb_false in E1; try apply Rltb_true in E2; try apply Rltb_false in E2;
  try apply Rleb_true in E3; try apply Rleb_false in E3; lra.
Qed.

Lemma count_is_cnt_diff i : (i < N)%nat ->
  (cnt (cum i) N + count_occ Nat.eq_dec par i = cnt (cum (Datatypes.S i)) N)%nat.
Proof.
  intro Hi. rewrite <- (cnt_interval (cum i) (cum (Datatypes.S i)) N) by (apply cum_mono; lia).
  f_equal. rewrite count_occ_cntb. unfold par at 2. rewrite res_parents_length.
  apply cntb_ext. intros t Ht.
  destruct (Rltb (cum i) (u t) && Rleb (u t) (cum (Datatypes.S i))) eqn:E.
  - apply andb_true_iff in E. destruct E as [E1 E2]. apply Rltb_true in E1. apply Rleb_true in E2.
    apply Nat.eqb_eq. apply interval_unique; auto.
  - apply Nat.eqb_neq. intro Hp. destruct (parent_interval t Ht) as [_ [P1 P2]]. rewrite Hp in P1, P2.
    apply andb_false_iff in E. destruct E as [E|E]; [apply Rltb_false in E | apply Rleb_false in E]; lra.
Qed.

Theorem count_bound i : (i < N)%nat ->
  Rabs (INR (count_occ Nat.eq_dec par i) - INR N * e (nth i lw 0)) < 1.
Proof.
  intro Hi. pose proof (count_is_cnt_diff i Hi) as H.
  assert (E : INR (count_occ Nat.eq_dec par i) = INR (cnt (cum (Datatypes.S i)) N) - INR (cnt (cum i) N)).
  { rewrite <- H, plus_INR. lra. }
  rewrite E. replace (e (nth i lw 0)) with (cum (Datatypes.S i) - cum i) by (rewrite cum_step by auto; lra).
  apply comb_count; [split; [apply cum_ge_0 | apply cum_mono; lia] | apply cum_le_1].
Qed.

Corollary zero_weight_not_selected i : (i < N)%nat -> e (nth i lw 0) = 0 -> ~ In i par.
Proof.
  intros Hi Hz Hin. pose proof (count_bound i Hi) as H. rewrite Hz, Rmult_0_r, Rminus_0_r in H.
  rewrite (count_occ_In Nat.eq_dec) in Hin. rewrite Rabs_right in H by (apply Rle_ge, pos_INR).
  assert (1 <= INR (count_occ Nat.eq_dec par i)).
  { replace 1 with (INR 1) by reflexivity. apply le_INR. lia. }
  lra.
Qed.

Corollary heavy_selected i : (i < N)%nat -> / INR N <= e (nth i lw 0) -> In i par.
Proof.
  intros Hi Hw. apply (count_occ_In Nat.eq_dec). pose proof (count_bound i Hi) as H.
  pose proof INRN_pos as HN.
  assert (1 <= INR N * e (nth i lw 0)).
  { replace 1 with (INR N * / INR N) by (field; lra). apply Rmult_le_compat_l; lra. }
  destruct (count_occ Nat.eq_dec par i); [|lia]. exfalso.
  simpl in H. apply Rabs_def2 in H. lra.
Qed.

End Selection.
End RealsE.

(* ------------------------------------------------------------------ *)
(* neff and log-sum-exp *)
Lemma sumR_le_mem w x : (forall y, In y w -> 0 <= y) -> In x w -> x <= sumR w.
Proof.
  induction w as [|a w IH]; intros Hn Hin; [destruct Hin|]. simpl.
  assert (0 <= a) by (apply Hn; left; auto).
  assert (0 <= sumR w).
  { clear -Hn. induction w; simpl; [lra|]. assert (0 <= a0) by (apply Hn; right; left; auto).
    assert (0 <= sumR w) by (apply IHw; intros y Hy; apply Hn; destruct Hy; [left|right; right]; auto). lra. }
  destruct Hin as [->|Hin]; [lra|]. assert (x <= sumR w) by (apply IH; auto; intros; apply Hn; right; auto). lra.
Qed.

Lemma sumsq_le_sum w : (forall y, In y w -> 0 <= y <= 1) -> sumR (map (fun x => x * x) w) <= sumR w.
Proof.
  induction w as [|a w IH]; intro H; simpl; [lra|].
  assert (0 <= a <= 1) by (apply H; left; auto).
  assert (sumR (map (fun x => x * x) w) <= sumR w) by (apply IH; intros; apply H; right; auto). nra.
Qed.

Lemma sum_centered_sq w m :
  sumR (map (fun x => (x - m) * (x - m)) w)
  = sumR (map (fun x => x * x) w) - 2 * m * sumR w + INR (length w) * m * m.
Proof.
  induction w as [|a w IH]; [simpl; lra|].
  change (length (a :: w)) with (Datatypes.S (length w)). rewrite S_INR. simpl map. simpl sumR. rewrite IH. ring.
Qed.

Lemma sumR_nonneg w : (forall y, In y w -> 0 <= y) -> 0 <= sumR w.
Proof.
  induction w; intro H; simpl; [lra|]. assert (0 <= a) by (apply H; left; auto).
  assert (0 <= sumR w) by (apply IHw; intros; apply H; right; auto). lra.
Qed.

(* Cauchy-Schwarz with the constant vector, for sum 1 *)
Lemma sumsq_ge_inv w : w <> [] -> sumR w = 1 -> / INR (length w) <= sumR (map (fun x => x * x) w).
Proof.
  intros Hne Hs. assert (HN : 0 < INR (length w)).
  { apply lt_0_INR. destruct w; [congruence | simpl; lia]. }
  pose proof (sum_centered_sq w (/ INR (length w))) as E.
  assert (0 <= sumR (map (fun x => (x - / INR (length w)) * (x - / INR (length w))) w)).
  { apply sumR_nonneg. intros y Hy. apply in_map_iff in Hy. destruct Hy as [x [<- _]]. apply (Rle_0_sqr (x - / INR (length w))). }
  rewrite Hs in E.
  replace (INR (length w) * / INR (length w) * / INR (length w)) with (/ INR (length w)) in E by (field; lra).
  lra.
Qed.

Section Neff.
Variable e : R -> R.
Hypothesis e_nonneg : forall x, 0 <= e x.
Notation SE := (ROpsE e).

Lemma neff_formula (lw : list R) : neff SE lw = 1 / sumR (map (fun x => e x * e x) lw).
Proof.
  unfold neff, ssum. change (s0 SE) with 0. change (s1 SE) with 1. change (sadd SE) with Rplus.
  rewrite fold_left_Rplus, Rplus_0_l. reflexivity.
Qed.

Lemma neff_range (lw : list R) : lw <> [] -> sumR (map e lw) = 1 ->
  1 <= neff SE lw <= INR (length lw).
Proof.
  intros Hne Hs. rewrite neff_formula.
  replace (map (fun x => e x * e x) lw) with (map (fun x => x * x) (map e lw)) by (rewrite map_map; reflexivity).
  set (w := map e lw) in *.
  assert (Hn : forall y, In y w -> 0 <= y).
  { intros y Hy. apply in_map_iff in Hy. destruct Hy as [x [<- _]]. apply e_nonneg. }
  assert (Hw : w <> []) by (unfold w; destruct lw; simpl; congruence).
  pose proof (sumsq_ge_inv w Hw Hs) as H1. rewrite (map_length e lw : length w = length lw) in H1.
  assert (H2 : sumR (map (fun x => x * x) w) <= 1).
  { rewrite <- Hs. apply sumsq_le_sum. intros y Hy. split; [auto|]. rewrite <- Hs. apply sumR_le_mem; auto. }
  assert (HN : 0 < INR (length lw)) by (apply lt_0_INR; destruct lw; [congruence | simpl; lia]).
  set (Q := sumR (map (fun x => x * x) w)) in *.
  assert (0 < / INR (length lw)) by (apply Rinv_0_lt_compat; auto).
  assert (HQ : 0 < Q) by lra.
  assert (E : Q * / Q = 1) by (field; lra). assert (0 < / Q) by (apply Rinv_0_lt_compat; auto).
  assert (E2 : INR (length lw) * / INR (length lw) = 1) by (field; lra).
  unfold Rdiv. rewrite Rmult_1_l. split; nra.
Qed.
End Neff.

Lemma sumR_scal c l : sumR (map (fun a => c * a) l) = c * sumR l.
Proof. induction l; simpl; [ring | rewrite IHl; ring]. Qed.
Lemma sumR_pos l : l <> [] -> (forall a, In a l -> 0 < a) -> 0 < sumR l.
Proof.
  induction l as [|a l IH]; [congruence|]; intros _ H; simpl.
  destruct l. simpl. rewrite Rplus_0_r. apply H; left; auto.
  assert (0 < a) by (apply H; left; auto).
  assert (0 < sumR (r :: l)) by (apply IH; [congruence | intros; apply H; right; auto]). lra.
Qed.
Lemma sum_exp_pos l : l <> [] -> 0 < sumR (map exp l).
Proof.
  intro H. apply sumR_pos; [destruct l; simpl; congruence|].
  intros a Ha. apply in_map_iff in Ha. destruct Ha as [b [<- _]]. apply exp_pos.
Qed.

(* utils::log_sum_exp computes ln (sum exp), whatever pivot the max search returns *)
Theorem lse_spec (l : list R) : l <> [] -> lse ROps l = ln (sumR (map exp l)).
Proof.
  destruct l as [|x0 r]; [congruence|]. intros _. unfold lse.
  set (mx := smaxl ROps x0 r). set (xs := x0 :: r).
  unfold ssum. change (s0 ROps) with 0. change (sadd ROps) with Rplus. change (sln ROps) with ln.
  rewrite fold_left_Rplus, Rplus_0_l.
  change (map (fun a : T ROps => sexp ROps (ssub ROps a mx)) xs) with (map (fun a => exp (a - mx)) xs).
  assert (E : map exp xs = map (fun a => exp mx * a) (map (fun a => exp (a - mx)) xs)).
  { rewrite map_map. apply map_ext; intro a. rewrite <- exp_plus. f_equal; ring. }
  rewrite E, sumR_scal, ln_mult, ln_exp; [reflexivity | apply exp_pos |].
  apply sumR_pos. unfold xs; simpl; congruence.
  intros a Ha. apply in_map_iff in Ha. destruct Ha as [b [<- _]]. apply exp_pos.
Qed.

Lemma lse_normalise_sum (l : list R) : l <> [] -> sumR (map exp (lse_normalise ROps l)) = 1.
Proof.
  intro H. unfold lse_normalise. rewrite lse_spec by auto. rewrite map_map.
  change (fun x : T ROps => exp (ssub ROps x (ln (sumR (map exp l))))) with (fun x => exp (x - ln (sumR (map exp l)))).
  pose proof (sum_exp_pos l H) as Hp.
  rewrite (map_ext _ (fun x => / sumR (map exp l) * exp x)).
  - rewrite <- (map_map exp (fun y => / sumR (map exp l) * y)), sumR_scal. field. lra.
  - intro a. unfold Rminus. rewrite exp_plus, exp_Ropp, exp_ln by auto. ring.
Qed.

Lemma lse_normalise_length (S : SOps) l : length (lse_normalise S l) = length l.
Proof. unfold lse_normalise. apply map_length. Qed.

Lemma lse_normalised_zero (l : list R) : l <> [] -> lse ROps (lse_normalise ROps l) = 0.
Proof.
  intro H. rewrite lse_spec, lse_normalise_sum, ln_1; auto.
  destruct l; [congruence|]. unfold lse_normalise. simpl. congruence.
Qed.

(* ------------------------------------------------------------------ *)
(* the u1 = 0 boundary: the draw range is [0, 1/N) but the comparison u_j > csw pairs with (a, b] *)
Lemma advance_stop_now (S : SOps) f c N u idx :
  keep_going S c N u idx = false -> advance S (Datatypes.S f) c N u idx = idx.
Proof. intro H. simpl. rewrite H. reflexivity. Qed.

Lemma u1_zero_boundary :
  exists (lw : list R) (u1 : R),
    length lw = 2%nat /\ sumR (map exp lw) = 1 /\ u1 = 0 /\ u1 * INR (length lw) < 1 /\
    res_parents ROps lw u1 = [0; 0]%nat /\
    ~ Rabs (INR (count_occ Nat.eq_dec (res_parents ROps lw u1) 0%nat) - INR (length lw) * exp (nth 0 lw 0)) < 1.
Proof.
  exists [ln (/ 2); ln (/ 2)], 0.
  assert (E : exp (ln (/ 2)) = / 2) by (apply exp_ln; lra).
  assert (P : res_parents ROps [ln (/ 2); ln (/ 2)] 0 = [0; 0]%nat).
  { unfold res_parents. change (length [ln (/ 2); ln (/ 2)]) with 2%nat.
    change (csw ROps [ln (/ 2); ln (/ 2)]) with [exp (ln (/ 2)); exp (ln (/ 2)) + exp (ln (/ 2))].
    rewrite E.
    change (res_loop ROps [/ 2; / 2 + / 2] 2 0 2 0 0)
      with (let i0 := advance ROps 2 [/ 2; / 2 + / 2] 2 (comb ROps 2 0 0) 0 in
            i0 :: (let i1 := advance ROps 2 [/ 2; / 2 + / 2] 2 (comb ROps 2 0 1) i0 in [i1])).
    rewrite (advance_stop_now ROps 1 _ 2 (comb ROps 2 0 0) 0).
    - cbv zeta. rewrite (advance_stop_now ROps 1 _ 2 (comb ROps 2 0 1) 0); [reflexivity|].
      unfold keep_going. rewrite (sltb_SE exp), (comb_R exp). apply andb_false_iff. left.
      apply Rltb_false. simpl. lra.
    - unfold keep_going. rewrite (sltb_SE exp), (comb_R exp). apply andb_false_iff. left.
      apply Rltb_false. simpl. lra. }
  repeat split; try (simpl; rewrite ?E; lra).
  - exact P.
  - rewrite P. simpl. rewrite E. replace (1 + 1 - (1 + 1) * / 2) with 1 by lra. rewrite Rabs_R1. lra.
Qed.

(* ------------------------------------------------------------------ *)
(* prior-mixing variant: structural part (any arithmetic) *)
Require Import Sorted.

Lemma nth_skipn' {A} (l : list A) n r d : nth r (skipn n l) d = nth (n + r) l d.
Proof. revert l; induction n; intro l; [reflexivity|]. destruct l; [destruct r; reflexivity | apply IHn]. Qed.

Lemma map_snd_combine {A B} (l : list A) (l' : list B) :
  length l = length l' -> map snd (combine l l') = l'.
Proof. revert l'; induction l; destruct l'; simpl; intro H; try congruence. f_equal. apply IHl. lia. Qed.

Lemma map_const_repeat {A B} (c : B) (l : list A) : map (fun _ => c) l = repeat c (length l).
Proof. induction l; simpl; congruence. Qed.

Lemma in_combine_seq {A} (l : list A) s k i d :
  In (k, i) (combine l (seq s (length l))) -> (s <= i < s + length l)%nat /\ nth (i - s) l d = k.
Proof.
  revert s; induction l as [|a l IH]; intros s H; [destruct H|]. simpl in H. destruct H as [H|H].
  - inversion H; subst. split; [simpl; lia|]. rewrite Nat.sub_diag. reflexivity.
  - apply IH in H. destruct H as [H1 H2]. split; [simpl; lia|].
    replace (i - s)%nat with (Datatypes.S (i - Datatypes.S s)) by lia. exact H2.
Qed.

Lemma nth_repeat_lt {A} (a d : A) m j : (j < m)%nat -> nth j (repeat a m) d = a.
Proof. revert j; induction m; intros j H; [lia|]. destruct j; simpl; auto. apply IHm. lia. Qed.

Lemma pick_length {A} (q : list A) (k : list nat) : q <> [] ->
  length (match q with [] => [] | d :: _ => map (fun i => nth i q d) k end) = length k.
Proof. destruct q; [congruence|]. intros _. apply map_length. Qed.

Lemma pick_nth {A} (q : list A) (k : list nat) r d : q <> [] -> (r < length k)%nat -> (nth r k 0 < length q)%nat ->
  nth r (match q with [] => [] | d0 :: _ => map (fun i => nth i q d0) k end) d = nth (nth r k 0%nat) q d.
Proof.
  destruct q as [|p0 q']; [congruence|]. intros _ Hr Hq. set (f := fun i => nth i (p0 :: q') p0).
  rewrite (nth_indep (map f k) d (f 0%nat)) by (rewrite map_length; auto).
  rewrite (map_nth f k 0%nat r). unfold f. apply nth_indep. exact Hq.
Qed.

Section PriorStructural.
Variable S : SOps.

Lemma ins_perm x l : Permutation (ins S x l) (x :: l).
Proof.
  induction l as [|h t IH]; simpl; auto. destruct (sleb S (fst x) (fst h)); auto.
  apply perm_trans with (h :: x :: t); [apply perm_skip; auto | apply perm_swap].
Qed.

Lemma fold_ins_perm L : Permutation (fold_right (ins S) [] L) L.
Proof. induction L; simpl; auto. apply perm_trans with (a :: fold_right (ins S) [] L); [apply ins_perm | auto]. Qed.

Lemma sort_pairs_perm keys : Permutation (sort_pairs S keys) (combine keys (seq 0 (length keys))).
Proof. apply fold_ins_perm. Qed.

Lemma sort_idx_perm keys : Permutation (sort_idx S keys) (seq 0 (length keys)).
Proof.
  unfold sort_idx. rewrite <- (map_snd_combine keys (seq 0 (length keys))) at 1 by (rewrite seq_length; auto).
  apply Permutation_map, sort_pairs_perm.
Qed.

Lemma sort_idx_length keys : length (sort_idx S keys) = length keys.
Proof. rewrite (Permutation_length (sort_idx_perm keys)). apply seq_length. Qed.

Lemma sort_idx_range keys a : (a < length keys)%nat -> (nth a (sort_idx S keys) 0 < length keys)%nat.
Proof.
  intro H. assert (I : In (nth a (sort_idx S keys) 0%nat) (sort_idx S keys)) by (apply nth_In; rewrite sort_idx_length; auto).
  apply (Permutation_in _ (sort_idx_perm keys)) in I. apply in_seq in I. lia.
Qed.

Lemma floor_upto_le n x : (floor_upto S n x <= n)%nat.
Proof. induction n; simpl; auto. destruct (sleb S (sofnat S (Datatypes.S n)) x); lia. Qed.

Lemma num_prior_le N ratio : (num_prior S N ratio <= N)%nat.
Proof. apply floor_upto_le. Qed.

Section Shape.
Context {P : Type}.
Variables (init : nat -> list P) (ratio : T S) (ps : list P) (lw : list (T S)) (u1 : T S).
Notation N := (length ps).
Notation np := (num_prior S N ratio).
Notation srt := (sort_idx S (map (sexp S) lw)).
Hypothesis Hlen : length lw = N.
Hypothesis Npos : (0 < N)%nat.
(* contract of ParticleSetInitialization::initialize: the size of the set is kept *)
Hypothesis Hinit : length (init np) = np.

Definition tmp_lw : list (T S) := lse_normalise S (map (fun i => nth i lw (s0 S)) (skipn np srt)).
Definition tmp_ps : list P := match ps with [] => [] | d :: _ => map (fun i => nth i ps d) (skipn np srt) end.
Definition rpar : list nat := res_parents S tmp_lw u1.

Lemma resample_prior_eq :
  @resample_prior S P init ratio ps lw u1 =
  (mkPset (np + (N - np))
          (init np ++ fst (fst (@resample S P tmp_ps tmp_lw u1)))
          (map (fun _ => log_uniform S N)
               (repeat (sdiv S (s1 S) (sofnat S np)) np ++ map (fun _ => log_uniform S (length tmp_lw)) rpar)),
   repeat (-1)%Z np ++ map (fun p => Z.of_nat (nth (p + np) srt 0%nat)) rpar).
Proof. reflexivity. Qed.

Lemma kept_length : length (skipn np srt) = (N - np)%nat.
Proof. rewrite skipn_length, sort_idx_length, map_length, Hlen. reflexivity. Qed.
Lemma tmp_lw_length : length tmp_lw = (N - np)%nat.
Proof. unfold tmp_lw. rewrite lse_normalise_length, map_length. apply kept_length. Qed.
Lemma tmp_ps_length : length tmp_ps = (N - np)%nat.
Proof. unfold tmp_ps. rewrite pick_length; [apply kept_length|]. intro E; rewrite E in Npos; simpl in Npos; lia. Qed.
Lemma rpar_length : length rpar = (N - np)%nat.
Proof. unfold rpar. rewrite res_parents_length. apply tmp_lw_length. Qed.

Lemma right_length : length (fst (fst (@resample S P tmp_ps tmp_lw u1))) = (N - np)%nat.
Proof.
  unfold resample. simpl fst. pose proof tmp_ps_length as H. destruct tmp_ps.
  - simpl in H. simpl. lia.
  - rewrite map_length. apply rpar_length.
Qed.

Lemma prior_reports_N :
  let r := fst (@resample_prior S P init ratio ps lw u1) in
  pcount r = N /\ length (pparts r) = N /\ length (plw r) = N /\
  length (snd (@resample_prior S P init ratio ps lw u1)) = N.
Proof.
  rewrite resample_prior_eq. cbv zeta. cbn [fst snd pcount pparts plw]. pose proof (num_prior_le N ratio).
  rewrite !app_length, !map_length, !app_length, !repeat_length, !map_length, right_length, Hinit, rpar_length.
  repeat split; lia.
Qed.

Lemma prior_uniform :
  plw (fst (@resample_prior S P init ratio ps lw u1)) = repeat (log_uniform S N) N.
Proof.
  rewrite resample_prior_eq. cbn [fst snd pcount pparts plw]. rewrite map_const_repeat. f_equal.
  rewrite app_length, repeat_length, map_length, rpar_length. pose proof (num_prior_le N ratio). lia.
Qed.

Lemma prior_parents_left j : (j < np)%nat ->
  nth j (snd (@resample_prior S P init ratio ps lw u1)) 0%Z = (-1)%Z.
Proof.
  intro H. rewrite resample_prior_eq. cbn [fst snd]. rewrite app_nth1 by (rewrite repeat_length; auto).
  apply nth_repeat_lt; auto.
Qed.

Lemma rpar_range j : (j < N - np)%nat -> (nth j rpar 0 < N - np)%nat.
Proof.
  intro H. assert (nth j rpar 0 <= length tmp_lw - 1)%nat.
  { apply res_loop_le; [lia | rewrite tmp_lw_length; auto]. }
  rewrite tmp_lw_length in H0. lia.
Qed.

(* parent of a resampled particle: the original index found at a kept position of the sorted order *)
Lemma prior_parents_right j : (j < N - np)%nat ->
  nth (np + j) (snd (@resample_prior S P init ratio ps lw u1)) 0%Z
  = Z.of_nat (nth (np + nth j rpar 0%nat) srt 0%nat)
  /\ (np + nth j rpar 0 < N)%nat /\ (nth (np + nth j rpar 0%nat) srt 0 < N)%nat.
Proof.
  intro H. pose proof (rpar_range j H) as Hr. split; [|split].
  - rewrite resample_prior_eq. cbn [fst snd]. rewrite app_nth2 by (rewrite repeat_length; lia).
    rewrite repeat_length. replace (np + j - np)%nat with j by lia.
    rewrite (nth_indep _ 0%Z (Z.of_nat (nth (0 + np) srt 0%nat))) by (rewrite map_length, rpar_length; auto).
    rewrite (map_nth (fun p => Z.of_nat (nth (p + np) srt 0%nat)) rpar 0%nat j).
    f_equal. f_equal. lia.
  - lia.
  - rewrite <- Hlen at 2. rewrite <- (map_length (sexp S) lw). apply sort_idx_range. rewrite map_length, Hlen. lia.
Qed.

(* every resampled particle is an exact copy of the parent it reports *)
Lemma prior_copy j d : (j < N - np)%nat ->
  nth (np + j) (pparts (fst (@resample_prior S P init ratio ps lw u1))) d
  = nth (Z.to_nat (nth (np + j) (snd (@resample_prior S P init ratio ps lw u1)) 0%Z)) ps d.
Proof.
  intro H. destruct (prior_parents_right j H) as [E [R1 R2]]. rewrite E, Nat2Z.id.
  rewrite resample_prior_eq. cbn [fst snd pparts].
  rewrite app_nth2 by lia. rewrite Hinit. replace (np + j - np)%nat with j by lia.
  pose proof (@resample_copy S P tmp_ps tmp_lw u1 d j) as C.
  assert (Hne : tmp_ps <> []).
  { intro E0. pose proof tmp_ps_length as L. rewrite E0 in L. simpl in L. lia. }
  specialize (C Hne ltac:(rewrite tmp_lw_length; auto) ltac:(rewrite tmp_ps_length, tmp_lw_length; auto)).
  unfold resample in C |- *. simpl fst. rewrite C. fold rpar.
  pose proof (rpar_range j H) as Hr.
  unfold tmp_ps. rewrite pick_nth.
  - rewrite nth_skipn'. reflexivity.
  - intro E0; rewrite E0 in Npos; simpl in Npos; lia.
  - rewrite kept_length; auto.
  - rewrite nth_skipn'. exact R2.
Qed.

End Shape.
End PriorStructural.

(* ------------------------------------------------------------------ *)
(* prior-mixing variant over the reals: the sort really sorts, the floor is the floor *)
Section PriorReals.
Variable e : R -> R.
Notation SE := (ROpsE e).

Definition key_le (p q : R * nat) : Prop := fst p <= fst q.

Lemma ins_sorted (x : R * nat) l : StronglySorted key_le l -> StronglySorted key_le (ins SE x l).
Proof.
  induction l as [|h t IH]; intro Hs; simpl.
  - constructor; constructor.
  - change (sleb SE (fst x) (fst h)) with (Rleb (fst x) (fst h)).
    inversion Hs as [|? ? Hs' Hf]; subst.
    destruct (Rleb (fst x) (fst h)) eqn:E.
    + apply Rleb_true in E. constructor; auto. constructor; auto.
      eapply Forall_impl; [|exact Hf]. intros q Hq. unfold key_le in *. lra.
    + apply Rleb_false in E. constructor; auto.
      apply (Permutation_Forall (Permutation_sym (ins_perm SE x t))).
      constructor; auto. unfold key_le. lra.
Qed.

Lemma sort_pairs_sorted (keys : list R) : StronglySorted key_le (sort_pairs SE keys).
Proof.
  unfold sort_pairs. match goal with |- StronglySorted _ (fold_right _ _ ?L0) => generalize L0 end. intro L.
  induction L as [|x L IH]; [constructor|]. change (fold_right (ins SE) [] (x :: L)) with (ins SE x (fold_right (ins SE) [] L)).
  apply ins_sorted; auto.
Qed.

Lemma StronglySorted_nth {A} (Rl : A -> A -> Prop) l d a b :
  StronglySorted Rl l -> (a < b < length l)%nat -> Rl (nth a l d) (nth b l d).
Proof.
  intro Hs. revert a b. induction Hs as [|h t Hs IH Hf]; intros a b H; [simpl in H; lia|].
  destruct b; [lia|]. destruct a.
  - simpl. rewrite Forall_forall in Hf. apply Hf. apply nth_In. simpl in H. lia.
  - simpl. apply IH. simpl in H. lia.
Qed.

(* the sorted indices are a permutation, ordered by non-decreasing weight e(lw_i) *)
Lemma sort_idx_sorted (lw : list R) a b : (a <= b < length lw)%nat ->
  e (nth (nth a (sort_idx SE (map e lw)) 0%nat) lw 0) <= e (nth (nth b (sort_idx SE (map e lw)) 0%nat) lw 0).
Proof.
  intro H. destruct (Nat.eq_dec a b) as [->|Hne]; [lra|].
  set (keys := map e lw). set (prs := sort_pairs SE keys).
  assert (Lp : length prs = length lw).
  { unfold prs. rewrite (Permutation_length (sort_pairs_perm SE keys)), combine_length, seq_length.
    unfold keys. rewrite map_length. lia. }
  assert (K : forall c, (c < length lw)%nat ->
                fst (nth c prs (0, 0%nat)) = e (nth (nth c (sort_idx SE keys) 0%nat) lw 0)).
  { intros c Hc. unfold sort_idx. fold prs.
    change 0%nat with (snd (0, 0%nat)) at 2. rewrite map_nth.
    assert (I : In (nth c prs (0, 0%nat)) prs) by (apply nth_In; lia).
    apply (Permutation_in _ (sort_pairs_perm SE keys)) in I.
    destruct (nth c prs (0, 0%nat)) as [k i] eqn:Ek. simpl.
    apply (in_combine_seq keys 0 k i 0) in I. destruct I as [I1 I2].
    rewrite Nat.sub_0_r in I2. rewrite <- I2. unfold keys.
    rewrite (nth_indep _ 0 (e 0)) by (rewrite map_length; unfold keys in I1; rewrite map_length in I1; lia).
    apply map_nth. }
  rewrite <- !K by lia.
  assert (Hab : (a < b < length prs)%nat) by (rewrite Lp; lia).
  exact (StronglySorted_nth key_le prs (0, 0%nat) a b (sort_pairs_sorted keys) Hab).
Qed.

Lemma floor_upto_spec n (x : R) : 0 <= x ->
  INR (floor_upto SE n x) <= x /\ (floor_upto SE n x = n \/ x < INR (floor_upto SE n x) + 1).
Proof.
  intro Hx. induction n as [|k [IH1 IH2]].
  - simpl. split; [lra | left; reflexivity].
  - change (floor_upto SE (Datatypes.S k) x)
      with (if Rleb (sofnat SE (Datatypes.S k)) x then Datatypes.S k else floor_upto SE k x).
    rewrite sofnat_R. destruct (Rleb (INR (Datatypes.S k)) x) eqn:E.
    + apply Rleb_true in E. split; auto.
    + apply Rleb_false in E. split; auto. right. destruct IH2 as [->|IH2]; auto.
      rewrite S_INR in E. exact E.
Qed.

(* num_prior_particles = floor(N * ratio), and at least one particle is resampled *)
Lemma num_prior_spec N (ratio : R) : (0 < N)%nat -> 0 <= ratio < 1 ->
  INR (num_prior SE N ratio) <= INR N * ratio < INR (num_prior SE N ratio) + 1 /\ (num_prior SE N ratio < N)%nat.
Proof.
  intros HN [r0 r1]. unfold num_prior. change (smul SE) with Rmult. rewrite sofnat_R.
  assert (HNR : 0 < INR N) by (apply lt_0_INR; auto).
  assert (Hx : 0 <= INR N * ratio) by nra.
  destruct (floor_upto_spec N (INR N * ratio) Hx) as [F1 F2].
  assert (Hlt : INR N * ratio < INR N) by nra.
  pose proof (floor_upto_le SE N (INR N * ratio)) as Fle.
  destruct F2 as [F2|F2].
  - rewrite F2 in F1. lra.
  - repeat split; auto. destruct (Nat.eq_dec (floor_upto SE N (INR N * ratio)) N) as [E|]; [|lia].
    rewrite E in F1. lra.
Qed.

End PriorReals.

(* ------------------------------------------------------------------ *)
(* statements in the form used by Properties_C07.v *)
Lemma advance_fuel_statement (S : SOps) c N u idx :
  keep_going S c N u (advance S N c N u idx) = false /\
  forall k, advance S (N + k) c N u idx = advance S N c N u idx.
Proof. split; [apply advance_fuel_enough | intro k; apply advance_more_fuel; lia]. Qed.

Lemma parents_sorted_statement (S : SOps) lw u1 a b :
  (a <= b < length lw)%nat ->
  (nth a (res_parents S lw u1) 0 <= nth b (res_parents S lw u1) 0)%nat.
Proof. apply res_loop_mono. Qed.

Lemma parents_in_range_statement (S : SOps) lw u1 j :
  (j < length lw)%nat -> (nth j (res_parents S lw u1) 0 < length lw)%nat.
Proof.
  intro H. assert (nth j (res_parents S lw u1) 0 <= length lw - 1)%nat by (apply res_loop_le; lia). lia.
Qed.

Lemma uniform_weights_statement {P} (ps : list P) (lw : list R) u1 :
  snd (fst (@resample ROps P ps lw u1)) = repeat (- ln (INR (length lw))) (length lw).
Proof.
  unfold resample. cbn [fst snd]. rewrite map_const_repeat, res_parents_length.
  unfold log_uniform. rewrite (sofnat_R exp). reflexivity.
Qed.

Lemma count_bound_statement (e : R -> R) (lw : list R) (u1 : R) :
  (forall x, 0 <= e x) -> (0 < length lw)%nat -> sumR (map e lw) = 1 -> 0 < u1 -> u1 * INR (length lw) < 1 ->
  forall i, (i < length lw)%nat ->
  Rabs (INR (count_occ Nat.eq_dec (res_parents (ROpsE e) lw u1) i) - INR (length lw) * e (nth i lw 0)) < 1.
Proof. intros. apply count_bound; auto. Qed.

Lemma selection_interval_statement (e : R -> R) (lw : list R) (u1 : R) :
  (forall x, 0 <= e x) -> (0 < length lw)%nat -> sumR (map e lw) = 1 -> 0 < u1 -> u1 * INR (length lw) < 1 ->
  forall t, (t < length lw)%nat ->
  let p := nth t (res_parents (ROpsE e) lw u1) 0%nat in
  (p < length lw)%nat /\
  psum (map e lw) p < u1 + INR t / INR (length lw) <= psum (map e lw) (Datatypes.S p).
Proof. intros. apply (parent_interval e lw u1); auto. Qed.

Lemma zero_weight_statement (e : R -> R) (lw : list R) (u1 : R) :
  (forall x, 0 <= e x) -> (0 < length lw)%nat -> sumR (map e lw) = 1 -> 0 < u1 -> u1 * INR (length lw) < 1 ->
  forall i, (i < length lw)%nat -> e (nth i lw 0) = 0 -> ~ In i (res_parents (ROpsE e) lw u1).
Proof. intros. apply zero_weight_not_selected; auto. Qed.

Lemma heavy_statement (e : R -> R) (lw : list R) (u1 : R) :
  (forall x, 0 <= e x) -> (0 < length lw)%nat -> sumR (map e lw) = 1 -> 0 < u1 -> u1 * INR (length lw) < 1 ->
  forall i, (i < length lw)%nat -> / INR (length lw) <= e (nth i lw 0) -> In i (res_parents (ROpsE e) lw u1).
Proof. intros. apply heavy_selected; auto. Qed.

Lemma exp_nonneg x : 0 <= exp x. Proof. left; apply exp_pos. Qed.

Lemma partition_statement (e : R -> R) (lw : list R) (ratio : R) :
  let N := length lw in
  let np := num_prior (ROpsE e) N ratio in
  let srt := sort_idx (ROpsE e) (map e lw) in
  Permutation srt (seq 0 N) /\
  forall a b, (a < np)%nat -> (np <= b < N)%nat ->
    e (nth (nth a srt 0%nat) lw 0) <= e (nth (nth b srt 0%nat) lw 0).
Proof.
  intros N np srt. split.
  - unfold srt, N. rewrite <- (map_length e lw). apply sort_idx_perm.
  - intros a b Ha Hb. apply sort_idx_sorted. unfold N in *. lia.
Qed.

Lemma prior_parents_statement (e : R -> R) {P} (init : nat -> list P) (ratio : R) (ps : list P) (lw : list R) (u1 : R) :
  length lw = length ps -> (0 < length ps)%nat ->
  length (init (num_prior (ROpsE e) (length ps) ratio)) = num_prior (ROpsE e) (length ps) ratio ->
  let N := length ps in
  let np := num_prior (ROpsE e) N ratio in
  let srt := sort_idx (ROpsE e) (map e lw) in
  let par := snd (@resample_prior (ROpsE e) P init ratio ps lw u1) in
  length par = N /\
  (forall j, (j < np)%nat -> nth j par 0%Z = (-1)%Z) /\
  (forall j, (np <= j < N)%nat ->
     exists b, (np <= b < N)%nat /\ nth j par 0%Z = Z.of_nat (nth b srt 0%nat) /\ (nth b srt 0 < N)%nat).
Proof.
  intros Hlen Npos Hinit N np srt par. split; [|split].
  - apply (prior_reports_N (ROpsE e) init ratio ps lw u1 Hlen Npos Hinit).
  - intros j Hj. apply prior_parents_left; auto.
  - intros j Hj. unfold par, srt, np, N in *.
    destruct (prior_parents_right (ROpsE e) init ratio ps lw u1 Hlen Npos Hinit (j - num_prior (ROpsE e) (length ps) ratio)) as [E [R1 R2]]; [lia|].
    replace (num_prior (ROpsE e) (length ps) ratio + (j - num_prior (ROpsE e) (length ps) ratio))%nat with j in E by lia.
    eexists. split; [|split; [exact E | exact R2]]. lia.
Qed.

(* the resampled part of the prior variant obeys the count bound w.r.t. the renormalised kept weights *)
Lemma prior_count_bound {P} (ratio : R) (ps : list P) (lw : list R) (u1 : R) :
  let tl : list R := tmp_lw ROps ratio ps lw in
  (0 < length tl)%nat -> 0 < u1 -> u1 * INR (length tl) < 1 ->
  sumR (map exp tl) = 1 /\
  forall i, (i < length tl)%nat ->
  Rabs (INR (count_occ Nat.eq_dec (rpar ROps ratio ps lw u1) i) - INR (length tl) * exp (nth i tl 0)) < 1.
Proof.
  intros tl Hpos Hu0 Hu1.
  assert (Hs : sumR (map exp tl) = 1).
  { unfold tl, tmp_lw. apply lse_normalise_sum. intro E.
    unfold tl, tmp_lw in Hpos. rewrite E in Hpos. simpl in Hpos. lia. }
  split; auto. intros i Hi.
  exact (count_bound_statement exp tl u1 exp_nonneg Hpos Hs Hu0 Hu1 i Hi).
Qed.

(* ------------------------------------------------------------------ *)
(* the three-member form of the loop body (Resampling.cpp:88-90) *)
Lemma copy_members_eq {A B C} (ps : list (particle A B C)) d i : copy_members ps d i = nth i ps d.
Proof. unfold copy_members. destruct (nth i ps d); reflexivity. Qed.

Lemma resample3_eq (S : SOps) {A B C} (ps : list (particle A B C)) lw u1 :
  @resample3 S A B C ps lw u1 = @resample S _ ps lw u1.
Proof.
  unfold resample3, resample. destruct ps as [|d ps']; [reflexivity|]. f_equal. f_equal.
  apply map_ext. intro i. apply copy_members_eq.
Qed.

(* per member: state, mean and covariance of output j are those of the parent it reports *)
Lemma resample3_copy (S : SOps) {A B C} (ps : list (particle A B C)) lw u1 d j :
  ps <> [] -> (j < length lw)%nat -> length ps = length lw ->
  let '(out, w, par) := @resample3 S A B C ps lw u1 in
  p_state (nth j out d) = p_state (nth (nth j par 0%nat) ps d) /\
  p_mean (nth j out d) = p_mean (nth (nth j par 0%nat) ps d) /\
  p_cov (nth j out d) = p_cov (nth (nth j par 0%nat) ps d).
Proof.
  intros H1 H2 H3. rewrite resample3_eq. pose proof (resample_copy S ps lw u1 d j H1 H2 H3) as C0.
  destruct (@resample S _ ps lw u1) as [[out w] par]. rewrite C0. auto.
Qed.

(* prior variant: the fresh part is exactly what the initialiser returned; members of the resampled part *)
Lemma prior_fresh_left (S : SOps) {P} (init : nat -> list P) ratio (ps : list P) lw u1 :
  length (init (num_prior S (length ps) ratio)) = num_prior S (length ps) ratio ->
  firstn (num_prior S (length ps) ratio) (pparts (fst (@resample_prior S P init ratio ps lw u1)))
  = init (num_prior S (length ps) ratio).
Proof.
  intro Hinit. rewrite resample_prior_eq. cbn [fst pparts].
  rewrite <- Hinit at 1. rewrite firstn_app, Nat.sub_diag, firstn_all. simpl. apply app_nil_r.
Qed.

Lemma prior_copy_members (S : SOps) {A B C} (init : nat -> list (particle A B C)) ratio (ps : list (particle A B C)) lw u1 :
  length lw = length ps -> (0 < length ps)%nat ->
  length (init (num_prior S (length ps) ratio)) = num_prior S (length ps) ratio ->
  forall j d, (j < length ps - num_prior S (length ps) ratio)%nat ->
  let o := nth (num_prior S (length ps) ratio + j) (pparts (fst (@resample_prior S _ init ratio ps lw u1))) d in
  let p := nth (Z.to_nat (nth (num_prior S (length ps) ratio + j) (snd (@resample_prior S _ init ratio ps lw u1)) 0%Z)) ps d in
  p_state o = p_state p /\ p_mean o = p_mean p /\ p_cov o = p_cov p.
Proof.
  intros H1 H2 H3 j d Hj o p. unfold o, p. rewrite (prior_copy S init ratio ps lw u1 H1 H2 H3 j d Hj). auto.
Qed.
