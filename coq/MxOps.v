(* MxOps.v — the MathComp instance of the arithmetic interfaces: matrices
   'M[F]_(m,n) over an arbitrary realFieldType.  The transcendental scalar
   functions and the two matrix oracles are section variables (uninterpreted);
   theorems that need them carry their contracts as explicit premises. *)
Require Import ZArith.
Require Import BFL.Ops.
From mathcomp Require Import all_ssreflect all_algebra.
Set Implicit Arguments.
Unset Strict Implicit.
Unset Printing Implicit Defensive.
Import Order.Theory GRing.Theory Num.Theory.
Local Open Scope ring_scope.

Section Inst.
Variable F : realFieldType.

Definition Z_to_int (z : Z) : int :=
  match z with
  | Z0 => 0
  | Zpos p => (Pos.to_nat p)%:Z
  | Zneg p => - (Pos.to_nat p)%:Z
  end.

(* uninterpreted scalar functions *)
Record Transc := mkTransc {
  t_sqrt : F -> F; t_exp : F -> F; t_ln : F -> F; t_cos : F -> F; t_sin : F -> F;
  t_acos : F -> F; t_atan2 : F -> F -> F; t_pi : F; t_tiny : F }.

Variable tr : Transc.

Definition FOps : SOps := {|
  T := F; s0 := 0; s1 := 1;
  sadd := +%R; ssub := fun a b => a - b; smul := *%R; sdiv := fun a b => a / b;
  sopp := -%R; sleb := fun a b => a <= b; sltb := fun a b => a < b;
  sofZ := fun z => (Z_to_int z)%:~R;
  ssqrt := t_sqrt tr; sexp := t_exp tr; sln := t_ln tr; scos := t_cos tr; ssin := t_sin tr;
  sacos := t_acos tr; satan2 := t_atan2 tr; spi := t_pi tr; stiny := t_tiny tr |}.

Definition mx_build m n (f : nat -> nat -> F) : 'M[F]_(m,n) := \matrix_(i, j) f i j.
Definition mx_get m n (A : 'M[F]_(m,n)) (i j : nat) : F :=
  match insub i, insub j with
  | Some i', Some j' => A i' j'
  | _, _ => 0
  end.

Variable sqrt_oracle : forall n, 'M[F]_n -> 'M[F]_n.
Variable eig_oracle : forall n, 'M[F]_n -> 'M[F]_(n,1).

Definition MxMat : MatOps := {|
  sc := FOps;
  M := fun m n => 'M[F]_(m,n);
  mbuild := mx_build;
  mget := mx_get;
  mzero := fun m n => 0;
  mid := fun n => 1%:M;
  madd := fun m n A B => A + B;
  msub := fun m n A B => A - B;
  mopp := fun m n A => - A;
  mscale := fun m n c A => c *: A;
  mmul := fun m n p A B => A *m B;
  mtr := fun m n A => A^T;
  mhcat := fun m n1 n2 A B => row_mx A B;
  mvcat := fun m1 m2 n A B => col_mx A B;
  minv := fun n A => invmx A;
  mdet := fun n A => \det A;
  msqrt := sqrt_oracle;
  meigmax := eig_oracle
|}.

Lemma mx_get_ord m n (A : 'M[F]_(m,n)) (i : 'I_m) (j : 'I_n) : mx_get A i j = A i j.
Proof. by rewrite /mx_get !valK. Qed.

Lemma mx_get_build m n f (i j : nat) : (i < m)%N -> (j < n)%N ->
  mx_get (mx_build m n f) i j = f i j.
Proof. by move=> im jn; rewrite /mx_get !insubT mxE. Qed.

Lemma mx_get_out_r m n (A : 'M[F]_(m,n)) (i j : nat) : (m <= i)%N -> mx_get A i j = 0.
Proof. by move=> mi; rewrite /mx_get insubF // ltnNge mi. Qed.

Lemma mx_get_out_c m n (A : 'M[F]_(m,n)) (i j : nat) : (n <= j)%N -> mx_get A i j = 0.
Proof. by move=> nj; rewrite /mx_get [insub j]insubF ?ltnNge ?nj //; case: insub. Qed.

Lemma mx_build_ext m n f g :
  (forall i j, (i < m)%N -> (j < n)%N -> f i j = g i j) -> mx_build m n f = mx_build m n g.
Proof. by move=> E; apply/matrixP=> i j; rewrite !mxE E. Qed.

End Inst.
